(** Proofs about the TEXT level of the STIL front end (Model/StilText.v): every way of writing a file -- any ignored text
    between the tokens, any ignored blocks and statements -- is parsed to the tree the transformer callbacks keep. *)
From Coq Require Import List Arith NArith Bool String Ascii Lia.
From KV Require Import Model.Prims Model.Logic Model.Netlist Model.Stil Model.StilSpec Model.StilText Proofs.StilProofs.
Import ListNotations.
Local Open Scope list_scope.
Local Open Scope string_scope.

Ltac split_ok H :=
  repeat (let H' := fresh "Hok" in apply andb_true_iff in H; destruct H as [H H']).
Ltac ok := first [assumption | reflexivity].

(* ---------------------------------------------------------------------------------------------- *)
(** * ignored text *)
Lemma skip_com b k : no_char c_nl b = true -> skip_go true (b ++ String c_nl k) = skip_go false k.
Proof.
  induction b as [|c b IH]; simpl; intros H.
  - reflexivity.
  - apply andb_true_iff in H. destruct H as [H1 H2]. rewrite H1. simpl. auto.
Qed.

Lemma skip_ign i k : ign_ok i = true -> skip (ign_k i k) = skip k.
Proof.
  destruct i; intros H; try reflexivity.
  unfold skip. simpl. now apply skip_com.
Qed.

Lemma skip_sep t k : tr_ok t = true -> skip (sep_k t k) = skip k.
Proof.
  induction t as [|i t IH]; simpl; intros H; auto.
  apply andb_true_iff in H. destruct H as [H1 H2]. rewrite skip_ign by exact H1. auto.
Qed.

Lemma skip_id s : starts_trivia s = false -> skip s = s.
Proof.
  destruct s as [|c r]; auto. unfold skip. simpl. intros H.
  apply orb_false_iff in H. destruct H as [H1 H2]. rewrite H1.
  destruct r as [|c2 r2].
  - destruct (Ascii.eqb c c_cr); auto. destruct (Ascii.eqb c c_slash); auto.
  - apply orb_false_iff in H2. destruct H2 as [H2 H3].
    destruct (Ascii.eqb c c_cr) eqn:E1.
    + simpl in H2. now rewrite H2.
    + destruct (Ascii.eqb c c_slash) eqn:E2; auto. simpl in H3. now rewrite H3.
Qed.

Lemma skip_tail b : no_char c_nl b = true -> skip_go true b = "".
Proof.
  induction b as [|c b IH]; simpl; intros H; auto.
  apply andb_true_iff in H. destruct H as [H1 H2]. rewrite H1. simpl. auto.
Qed.

(** readers look through ignored text *)
Lemma expect_sep k t s : tr_ok t = true -> expect k (sep_k t s) = expect k s.
Proof. intros H. unfold expect. now rewrite skip_sep. Qed.
Lemma next_is_sep c t s : tr_ok t = true -> next_is c (sep_k t s) = next_is c s.
Proof. intros H. unfold next_is. now rewrite skip_sep. Qed.
Lemma p_quoted_sep t s : tr_ok t = true -> p_quoted (sep_k t s) = p_quoted s.
Proof. intros H. unfold p_quoted. now rewrite skip_sep. Qed.
Lemma p_run_sep p t s : tr_ok t = true -> p_run p (sep_k t s) = p_run p s.
Proof. intros H. unfold p_run. now rewrite skip_sep. Qed.
Lemma p_ignore_sep t s : tr_ok t = true -> p_ignore (sep_k t s) = p_ignore s.
Proof. intros H. unfold p_ignore. now rewrite skip_sep. Qed.
Lemma p_userkw_sep t s : tr_ok t = true -> p_userkw (sep_k t s) = p_userkw s.
Proof. intros H. unfold p_userkw. now rewrite skip_sep. Qed.

(** the first character of a token text with its ignored text in front: a character that starts ignored text, or the
    first character of the token *)
Definition hd_not (p : ascii -> bool) (s : string) : Prop :=
  match s with String c _ => p c = false | EmptyString => True end.
Definition trivia_free (p : ascii -> bool) : bool :=
  negb (p c_sp || p c_tab || p c_ff || p c_nl || p c_cr || p c_slash).
Lemma hd_not_sep p t c k : trivia_free p = true -> p c = false -> hd_not p (sep_k t (String c k)).
Proof.
  intros F H. unfold trivia_free in F. apply negb_true_iff in F.
  repeat (apply orb_false_iff in F; destruct F as [F ?]).
  destruct t as [|[] t]; simpl; auto.
Qed.

(* ---------------------------------------------------------------------------------------------- *)
(** * token readers on token texts *)
Lemma strip_prefix_app k r : strip_prefix k (k ++ r) = Some r.
Proof. induction k as [|c k IH]; simpl; auto. now rewrite Ascii.eqb_refl. Qed.

Lemma until_quote_app s k : no_char c_dq s = true -> until_quote (s ++ String c_dq k) = Some (s, k).
Proof.
  induction s as [|c s IH]; simpl; intros H.
  - reflexivity.
  - apply andb_true_iff in H. destruct H as [H1 H2]. apply negb_true_iff in H1. rewrite H1. now rewrite IH.
Qed.

Lemma p_quoted_qt q k : qt_ok q = true -> p_quoted (pr_qt q k) = Some (q_s q, k).
Proof.
  intros H. split_ok H. unfold pr_qt. rewrite p_quoted_sep by ok.
  unfold p_quoted. cbn. now apply until_quote_app.
Qed.

Lemma next_is_qt c q k : qt_ok q = true -> next_is c (pr_qt q k) = Ascii.eqb c_dq c.
Proof. intros H. split_ok H. unfold pr_qt. rewrite next_is_sep by ok. reflexivity. Qed.

Lemma span_stop p n r : all_chars p n = true -> hd_not p r -> span p (n ++ r) = (n, r).
Proof.
  induction n as [|c n IH]; simpl; intros H Hr.
  - destruct r as [|c r]; simpl in *; auto. now rewrite Hr.
  - apply andb_true_iff in H. destruct H as [H1 H2]. rewrite H1. now rewrite IH.
Qed.

Lemma p_run_stop p n r :
  run_ok p n = true -> starts_trivia (n ++ r) = false -> hd_not p r -> p_run p (n ++ r) = Some (n, r).
Proof.
  intros H T Hr. unfold p_run. rewrite skip_id by exact T.
  destruct n as [|c n]; [discriminate|]. unfold run_ok in H.
  rewrite span_stop by assumption. reflexivity.
Qed.

Lemma starts_trivia_hd p n r : trivia_free p = true -> run_ok p n = true -> starts_trivia (n ++ r) = false.
Proof.
  intros F H. destruct n as [|c n]; [discriminate|]. simpl in H. apply andb_true_iff in H. destruct H as [H1 H2].
  unfold trivia_free in F. apply negb_true_iff in F. repeat (apply orb_false_iff in F; destruct F as [F ?]).
  assert (W : is_ws c = false).
  { unfold is_ws. repeat (apply orb_false_iff; split); apply Ascii.eqb_neq; intros ->; congruence. }
  assert (C1 : Ascii.eqb c c_cr = false) by (apply Ascii.eqb_neq; intros ->; congruence).
  assert (C2 : Ascii.eqb c c_slash = false) by (apply Ascii.eqb_neq; intros ->; congruence).
  simpl. rewrite W, C1, C2. simpl. now destruct (n ++ r).
Qed.

(** a digit / FLOAT run followed by a token text *)
Lemma p_run_tok p n t c k :
  trivia_free p = true -> run_ok p n = true -> p c = false -> tr_ok t = true ->
  p_run p (n ++ sep_k t (String c k)) = Some (n, sep_k t (String c k)).
Proof.
  intros F H Hc Ht. apply p_run_stop; auto.
  - eapply starts_trivia_hd; eauto.
  - now apply hd_not_sep.
Qed.

Lemma starts_trivia_app s c k :
  s <> "" -> starts_trivia s = false -> Ascii.eqb c c_nl = false -> Ascii.eqb c c_slash = false ->
  starts_trivia (s ++ String c k) = false.
Proof.
  intros N H C1 C2. destruct s as [|a s]; [congruence|]. simpl in *.
  apply orb_false_iff in H. destruct H as [H1 H2]. rewrite H1. simpl.
  destruct s as [|b s]; simpl.
  - rewrite C1, C2. now rewrite !andb_false_r.
  - exact H2.
Qed.

(** a call-parameter value followed by its ";" *)
Lemma p_run_value v k : val_ok v = true -> p_run not_semi (v ++ String c_semi k) = Some (v, String c_semi k).
Proof.
  intros H. apply andb_true_iff in H. destruct H as [H1 H2]. apply negb_true_iff in H2.
  apply p_run_stop; auto.
  - apply starts_trivia_app; auto. now destruct v.
  - reflexivity.
Qed.

(* ---------------------------------------------------------------------------------------------- *)
(** * ignored blocks *)
Lemma ign_scan_com d b k : no_char c_nl b = true -> ign_scan d ICom (b ++ String c_nl k) = ign_scan d IStart k.
Proof.
  induction b as [|c b IH]; simpl; intros H.
  - reflexivity.
  - apply andb_true_iff in H. destruct H as [H1 H2]. apply negb_true_iff in H1. rewrite H1. auto.
Qed.

Lemma ign_scan_ign d i k : ign_ok i = true -> ign_scan d IStart (ign_k i k) = ign_scan d IStart k.
Proof.
  destruct i; intros H; try reflexivity.
  simpl. now apply ign_scan_com.
Qed.

Lemma ign_scan_sep d t k : tr_ok t = true -> ign_scan d IStart (sep_k t k) = ign_scan d IStart k.
Proof.
  induction t as [|i t IH]; simpl; intros H; auto.
  apply andb_true_iff in H. destruct H as [H1 H2]. rewrite ign_scan_ign by exact H1. auto.
Qed.

Definition is_brace (c : ascii) : bool := Ascii.eqb c c_lb || Ascii.eqb c c_rb.

(* at a brace the mode does not matter (outside comments) *)
Lemma ign_scan_brace d c k : is_brace c = true -> ign_scan d INob (String c k) = ign_scan d IStart (String c k).
Proof.
  intros H. unfold is_brace in H. cbn [ign_scan]. destruct (Ascii.eqb c c_lb); auto. destruct (Ascii.eqb c c_rb); auto. discriminate.
Qed.

Lemma ign_scan_nob d n c k :
  no_char c_lb n = true -> no_char c_rb n = true -> is_brace c = true ->
  ign_scan d INob (n ++ String c k) = ign_scan d IStart (String c k).
Proof.
  induction n as [|a n IH]; intros H1 H2 Hc.
  - now apply ign_scan_brace.
  - simpl in H1, H2. apply andb_true_iff in H1. destruct H1 as [A1 H1]. apply andb_true_iff in H2. destruct H2 as [A2 H2].
    apply negb_true_iff in A1, A2. change ((String a n) ++ String c k) with (String a (n ++ String c k)).
    cbn [ign_scan]. rewrite A1, A2. auto.
Qed.

Lemma brace_not_special c : is_brace c = true ->
  is_ws c = false /\ Ascii.eqb c c_cr = false /\ Ascii.eqb c c_slash = false /\ Ascii.eqb c c_nl = false.
Proof.
  unfold is_brace. intros H. apply orb_true_iff in H. destruct H as [H|H]; apply Ascii.eqb_eq in H; subst c; repeat split; reflexivity.
Qed.

Lemma ign_scan_seg d g c k : seg_ok g = true -> is_brace c = true ->
  ign_scan d IStart (pr_seg g (String c k)) = ign_scan d IStart (String c k).
Proof.
  intros H Hc. apply andb_true_iff in H. destruct H as [Ht Hn]. unfold pr_seg. rewrite ign_scan_sep by exact Ht.
  unfold nob_ok in Hn. split_ok Hn. apply negb_true_iff in Hok. rename Hok into T. rename Hok0 into R. rename Hn into L.
  destruct (is_nob g) as [|a n] eqn:E; [reflexivity|].
  simpl in L, R. apply andb_true_iff in L. destruct L as [A1 L]. apply andb_true_iff in R. destruct R as [A2 R].
  apply negb_true_iff in A1, A2.
  change ((String a n) ++ String c k) with (String a (n ++ String c k)).
  assert (G : ign_scan d IStart (String a (n ++ String c k)) = ign_scan d INob (n ++ String c k)).
  { simpl in T. apply orb_false_iff in T. destruct T as [W T].
    cbn [ign_scan]. rewrite A1, A2, W.
    destruct (brace_not_special c Hc) as (B1 & B2 & B3 & B4).
    destruct n as [|b n]; simpl.
    - rewrite B4, B3. destruct (Ascii.eqb a c_cr); [reflexivity|]. destruct (Ascii.eqb a c_slash); reflexivity.
    - apply orb_false_iff in T. destruct T as [T1 T2].
      destruct (Ascii.eqb a c_cr) eqn:E1.
      + simpl in T1. now rewrite T1.
      + destruct (Ascii.eqb a c_slash) eqn:E2; [|reflexivity]. simpl in T2. now rewrite T2. }
  rewrite G. now apply ign_scan_nob.
Qed.

Lemma ign_scan_open d k : ign_scan d IStart (String c_lb k) = ign_scan (S d) IStart k.
Proof. reflexivity. Qed.
Lemma ign_scan_close d k : ign_scan (S d) IStart (String c_rb k) = ign_scan d IStart k.
Proof. reflexivity. Qed.

Lemma ign_scan_rest l : forall d k,
  forallb (fun p => seg_ok (snd p)) l = true -> balanced d l = true ->
  ign_scan d IStart (pr_list pr_bseg l (String c_rb k)) = Some k.
Proof.
  induction l as [|[b g] l IH]; intros d k Hs Hb.
  { simpl in Hb. apply Nat.eqb_eq in Hb. subst d. reflexivity. }
  simpl in Hs. apply andb_true_iff in Hs. destruct Hs as [Hg Hs].
  cbn [pr_list]. unfold pr_bseg at 1. cbn [fst snd].
  assert (Nx : exists c k', pr_list pr_bseg l (String c_rb k) = String c k' /\ is_brace c = true).
  { destruct l as [|[b' g'] l']; cbn [pr_list]; [now exists c_rb, k|].
    unfold pr_bseg. cbn [fst snd]. eexists _, _. split; [reflexivity|]. now destruct b'. }
  destruct Nx as (c & k' & Ex & Hc).
  destruct b; simpl in Hb; cbn [brace_char].
  - rewrite ign_scan_open. rewrite Ex, ign_scan_seg by assumption. rewrite <- Ex. now apply IH.
  - destruct d as [|d']; [discriminate|].
    rewrite ign_scan_close. rewrite Ex, ign_scan_seg by assumption. rewrite <- Ex. now apply IH.
Qed.

Lemma p_ignore_iblock b k : iblock_ok b = true -> p_ignore (pr_iblock b k) = Some k.
Proof.
  intros H. unfold iblock_ok in H. apply andb_true_iff in H. destruct H as [H Hb]. apply andb_true_iff in H. destruct H as [Hf Hr].
  unfold p_ignore, pr_iblock. cbn.
  assert (Nx : exists c k', pr_list pr_bseg (ib_rest b) (String c_rb k) = String c k' /\ is_brace c = true).
  { destruct (ib_rest b) as [|[b' g'] l']; cbn [pr_list]; [now exists c_rb, k|].
    unfold pr_bseg. cbn [fst snd]. eexists _, _. split; [reflexivity|]. now destruct b'. }
  destruct Nx as (c & k' & Ex & Hc).
  rewrite Ex, ign_scan_seg by assumption. rewrite <- Ex. now apply ign_scan_rest.
Qed.

Lemma next_is_iblock c b k : next_is c (pr_iblock b k) = Ascii.eqb c_lb c.
Proof. reflexivity. Qed.

(* ---------------------------------------------------------------------------------------------- *)
(** * x* *)
Lemma many_f_complete {A D} (pr : D -> string -> string) (sem : D -> A) (ok : D -> bool)
      (start : string -> bool) (item : string -> res A) (follow : string -> Prop) :
  (forall d k, ok d = true -> follow k -> start (pr d k) = true /\ item (pr d k) = Some (sem d, k)) ->
  (forall d k, ok d = true -> follow k -> follow (pr d k)) ->
  forall ds k fuel, forallb ok ds = true -> follow k -> start k = false -> List.length ds < fuel ->
  many_f fuel start item (pr_list pr ds k) = Some (map sem ds, k).
Proof.
  intros Hi Hf ds. induction ds as [|d ds IH]; intros k fuel Hok Fk Sk Hl.
  - destruct fuel; [simpl in Hl; lia|]. simpl. now rewrite Sk.
  - destruct fuel; [simpl in Hl; lia|]. simpl in Hok. apply andb_true_iff in Hok. destruct Hok as [Hd Hds].
    assert (Fr : follow (pr_list pr ds k)).
    { clear IH Hl. induction ds as [|d' ds IH']; simpl; auto.
      simpl in Hds. apply andb_true_iff in Hds. destruct Hds. apply Hf; auto. }
    destruct (Hi d (pr_list pr ds k) Hd Fr) as [S1 I1].
    cbn [pr_list many_f map]. rewrite S1, I1. rewrite IH; auto. simpl in Hl. lia.
Qed.

(** length bookkeeping: every printer only adds text in front of what follows *)
Definition ext (k s : string) : Prop := String.length k <= String.length s.
Lemma ext_refl k : ext k k. Proof. unfold ext. lia. Qed.
Lemma ext_cons k c s : ext k s -> ext k (String c s). Proof. unfold ext. simpl. lia. Qed.
Lemma slen_app a b : String.length (a ++ b) = String.length a + String.length b.
Proof. induction a; simpl; auto. Qed.
Lemma ext_app k a s : ext k s -> ext k (a ++ s). Proof. unfold ext. rewrite slen_app. lia. Qed.
Lemma ext_ign k i s : ext k s -> ext k (ign_k i s).
Proof. destruct i; simpl; intros H; repeat apply ext_cons; auto. now apply ext_app, ext_cons. Qed.
Lemma ext_sep k t s : ext k s -> ext k (sep_k t s).
Proof. induction t; simpl; auto. intros. now apply ext_ign, IHt. Qed.
Lemma ext_list {D} (pr : D -> string -> string) l k s :
  (forall d s', ext k s' -> ext k (pr d s')) -> ext k s -> ext k (pr_list pr l s).
Proof. intros H Hs. induction l; simpl; auto. Qed.
Lemma ext_qt k q s : ext k s -> ext k (pr_qt q s).
Proof. intros. unfold pr_qt. now apply ext_sep, ext_cons, ext_app, ext_cons. Qed.
Lemma ext_iblock k b s : ext k s -> ext k (pr_iblock b s).
Proof.
  intros. unfold pr_iblock. apply ext_cons. unfold pr_seg. apply ext_sep, ext_app, ext_list.
  - intros d s' Hs. unfold pr_bseg, pr_seg. now apply ext_cons, ext_sep, ext_app.
  - now apply ext_cons.
Qed.
Lemma ext_lt k c s : ext k s -> String.length k < String.length (String c s).
Proof. unfold ext. simpl. lia. Qed.

Ltac ext_tac :=
  repeat first [ assumption | apply ext_refl | apply ext_cons | apply ext_sep | apply ext_qt | apply ext_iblock
               | apply ext_app ].

Lemma pr_list_length {D} (pr : D -> string -> string) l k :
  (forall d s, String.length s < String.length (pr d s)) -> List.length l + String.length k <= String.length (pr_list pr l k).
Proof.
  intros H. induction l as [|d l IH]; simpl; [lia|]. specialize (H d (pr_list pr l k)). lia.
Qed.

Lemma many_complete {A D} (pr : D -> string -> string) (sem : D -> A) (ok : D -> bool)
      (start : string -> bool) (item : string -> res A) (follow : string -> Prop) :
  (forall d k, ok d = true -> follow k -> start (pr d k) = true /\ item (pr d k) = Some (sem d, k)) ->
  (forall d k, ok d = true -> follow k -> follow (pr d k)) ->
  (forall d s, String.length s < String.length (pr d s)) ->
  forall ds k, forallb ok ds = true -> follow k -> start k = false ->
  many start item (pr_list pr ds k) = Some (map sem ds, k).
Proof.
  intros Hi Hf Hl ds k Hok Fk Sk. unfold many. eapply many_f_complete; eauto.
  pose proof (pr_list_length pr ds k Hl). lia.
Qed.

(* ---------------------------------------------------------------------------------------------- *)
(** * literals and keywords *)
Definition lit_ok (k : string) : bool :=
  match k with String c _ => negb (is_ws c || Ascii.eqb c c_cr || Ascii.eqb c c_slash) | EmptyString => false end.
Lemma skip_lit k r : lit_ok k = true -> skip (k ++ r) = k ++ r.
Proof.
  destruct k as [|c k]; [discriminate|]. intros H. apply skip_id. simpl in *.
  apply negb_true_iff in H. apply orb_false_iff in H. destruct H as [H H2]. apply orb_false_iff in H. destruct H as [H H1].
  rewrite H. simpl. destruct (k ++ r); auto. rewrite H1, H2. reflexivity.
Qed.
Lemma expect_lit k r : lit_ok k = true -> expect k (k ++ r) = Some r.
Proof. intros H. unfold expect. rewrite skip_lit by exact H. apply strip_prefix_app. Qed.
Lemma next_is_lit c k r : lit_ok k = true ->
  next_is c (k ++ r) = match k with String c' _ => Ascii.eqb c' c | EmptyString => false end.
Proof. intros H. unfold next_is. rewrite skip_lit by exact H. destruct k; [discriminate|reflexivity]. Qed.

Lemma strip_prefix_hd a p s : hd_not is_letter s -> is_letter a = true -> strip_prefix (String a p) s = None.
Proof.
  intros H L. destruct s as [|c s]; simpl; auto. simpl in H.
  destruct (Ascii.eqb a c) eqn:E; auto. apply Ascii.eqb_eq in E. subst. congruence.
Qed.

Ltac split_okx H :=
  repeat (let H' := fresh "Hok" in rewrite andb_true_iff in H; destruct H as [H H']).

Lemma first_kw_ScanIn r : hd_not is_letter r -> first_kw chain_kws ("ScanIn" ++ r) = Some (KwIn, r).
Proof.
  intros H. unfold chain_kws. cbn [first_kw].
  change (strip_prefix "ScanInversion" ("ScanIn" ++ r)) with (strip_prefix "version" r).
  rewrite (strip_prefix_hd "v" "ersion" r) by ok. reflexivity.
Qed.
Lemma first_kw_C r : hd_not is_letter r -> first_kw pattern_kws ("C" ++ r) = Some (KwC, r).
Proof.
  intros H. unfold pattern_kws. cbn [first_kw].
  change (strip_prefix "Call" ("C" ++ r)) with (strip_prefix "all" r).
  rewrite (strip_prefix_hd "a" "ll" r) by ok. reflexivity.
Qed.
Lemma first_kw_Pattern r : hd_not is_letter r -> first_kw block_kws ("Pattern" ++ r) = Some (KwPattern, r).
Proof.
  intros H. unfold block_kws. cbn [first_kw].
  change (strip_prefix "PatternBurst" ("Pattern" ++ r)) with (strip_prefix "Burst" r).
  change (strip_prefix "PatternExec" ("Pattern" ++ r)) with (strip_prefix "Exec" r).
  rewrite (strip_prefix_hd "B" "urst" r), (strip_prefix_hd "E" "xec" r) by ok. reflexivity.
Qed.

Lemma hd_not_qt p q k : trivia_free p = true -> p c_dq = false -> hd_not p (pr_qt q k).
Proof. intros. unfold pr_qt. now apply hd_not_sep. Qed.

Lemma p_plus_more m k : tr_ok (fst m) && qt_ok (snd m) = true ->
  next_is "+" (pr_more m k) = true /\ p_plus (pr_more m k) = Some (q_s (snd m), k).
Proof.
  intros H. split_okx H. unfold pr_more, p_plus. split.
  - rewrite next_is_sep by ok. now rewrite next_is_lit.
  - rewrite expect_sep by ok. rewrite expect_lit by reflexivity. cbn [bind]. now apply p_quoted_qt.
Qed.

Definition sext (k s : string) : Prop := String.length k < String.length s.
Lemma sext_sep k t s : sext k s -> sext k (sep_k t s).
Proof. unfold sext. intros H. pose proof (ext_sep s t s (ext_refl s)) as E. unfold ext in E. lia. Qed.
Lemma sext_lit k c a s : ext k s -> sext k (String c a ++ s).
Proof. unfold sext, ext. simpl. rewrite slen_app. lia. Qed.
Lemma sext_qt k q s : ext k s -> sext k (pr_qt q s).
Proof. intros H. unfold pr_qt. apply sext_sep. unfold sext, ext in *. simpl. rewrite slen_app. simpl. lia. Qed.
Create HintDb ext.
#[export] Hint Resolve ext_refl ext_cons ext_sep ext_qt ext_iblock ext_app ext_list : ext.
Ltac ext_auto := auto 60 with ext.
Ltac sext_tac := first [ apply sext_qt | apply sext_sep, sext_lit ]; ext_auto.
Lemma ext_more k m s : ext k s -> ext k (pr_more m s).
Proof. intros. unfold pr_more. ext_auto. Qed.
Lemma ext_oign k o s : ext k s -> ext k (pr_oign o s).
Proof. intros. destruct o as [[t b]|]; cbn [pr_oign]; ext_auto. Qed.
Lemma ext_osemi k o s : ext k s -> ext k (pr_osemi o s).
Proof. intros. destruct o as [t|]; cbn [pr_osemi]; ext_auto. Qed.
#[export] Hint Resolve ext_more ext_oign ext_osemi : ext.

Lemma lt_more m s : sext s (pr_more m s).
Proof. unfold pr_more. sext_tac. Qed.

Lemma osemi_ok o k : otr_ok o = true -> next_is c_semi k = false ->
  (if next_is c_semi (pr_osemi o k)
   then match skip (pr_osemi o k) with "" => pr_osemi o k | String _ r => r end else pr_osemi o k) = k.
Proof.
  intros H F. destruct o as [t|]; cbn [pr_osemi otr_ok] in *.
  - rewrite next_is_sep by ok. rewrite next_is_lit by reflexivity. cbn [Ascii.eqb Bool.eqb c_semi].
    rewrite skip_sep by ok. rewrite skip_lit by reflexivity. reflexivity.
  - now rewrite F.
Qed.
Lemma osemi_nolb o k : otr_ok o = true -> next_is c_lb k = false -> next_is c_lb (pr_osemi o k) = false.
Proof.
  intros H F. destruct o as [t|]; cbn [pr_osemi otr_ok] in *; auto.
  rewrite next_is_sep by ok. now rewrite next_is_lit.
Qed.

Definition follow_g (k : string) : Prop := next_is c_lb k = false /\ next_is c_semi k = false.

Lemma p_group_ok g k : group_ok g = true -> follow_g k ->
  next_is c_dq (pr_group g k) = true /\ p_group (pr_group g k) = Some (group_ast g, k).
Proof.
  intros H [F1 F2]. unfold group_ok in H. split_okx H. unfold pr_group, p_group. split.
  - now rewrite next_is_qt.
  - rewrite p_quoted_qt by ok. cbn [bind].
    rewrite expect_sep by ok. rewrite expect_lit by reflexivity. cbn [bind].
    rewrite expect_sep by ok. rewrite expect_lit by reflexivity. cbn [bind].
    rewrite p_quoted_qt by ok. cbn [bind].
    rewrite (many_complete pr_more (fun m => q_s (snd m)) (fun m => tr_ok (fst m) && qt_ok (snd m)) (next_is "+") p_plus (fun _ => True)); auto.
    2:{ intros. now apply p_plus_more. }
    2:{ intros. apply lt_more. }
    2:{ rewrite next_is_sep by ok. now rewrite next_is_lit. }
    cbn [bind]. rewrite expect_sep by ok. rewrite expect_lit by reflexivity. cbn [bind].
    destruct (g_ign g) as [[ti b]|]; unfold pr_oign.
    + simpl in Hok0. split_okx Hok0. rewrite next_is_sep by ok. rewrite next_is_iblock. cbn [Ascii.eqb c_lb Bool.eqb].
      rewrite p_ignore_sep by ok. rewrite p_ignore_iblock by ok. cbn [bind].
      rewrite osemi_ok by ok. reflexivity.
    + rewrite osemi_nolb by ok. cbn [bind]. rewrite osemi_ok by ok. reflexivity.
Qed.

Lemma lt_group g s : sext s (pr_group g s).
Proof. unfold pr_group. sext_tac. Qed.
Lemma follow_group g k : group_ok g = true -> follow_g (pr_group g k).
Proof.
  intros H. unfold group_ok in H. split_okx H. unfold follow_g, pr_group. now rewrite !next_is_qt by ok.
Qed.
Lemma follow_close t k : tr_ok t = true -> follow_g (sep_k t ("}" ++ k)).
Proof. intros H. unfold follow_g. rewrite !next_is_sep by ok. now rewrite !next_is_lit by reflexivity. Qed.

Lemma groups_ok gs t k : forallb group_ok gs = true -> tr_ok t = true ->
  many (next_is c_dq) p_group (pr_list pr_group gs (sep_k t ("}" ++ k))) = Some (map group_ast gs, sep_k t ("}" ++ k)).
Proof.
  intros H Ht. apply (many_complete pr_group group_ast group_ok (next_is c_dq) p_group follow_g); auto.
  - intros. now apply p_group_ok.
  - intros. now apply follow_group.
  - intros. apply lt_group.
  - now apply follow_close.
  - rewrite next_is_sep by ok. now rewrite next_is_lit.
Qed.

(* cells *)
Lemma p_cell_ok c k : cell_ok c = true -> cell_start (pr_cell c k) = true /\ p_cell (pr_cell c k) = Some (cell_ast c, k).
Proof.
  intros H. destruct c as [q|t]; cbn [pr_cell cell_ok cell_ast] in *; unfold cell_start, p_cell.
  - rewrite !next_is_qt by ok. split; [reflexivity|]. cbn [Ascii.eqb Bool.eqb c_dq c_bang]. now apply p_quoted_qt.
  - rewrite !next_is_sep by ok. rewrite !next_is_lit by reflexivity. split; [reflexivity|].
    cbn [Ascii.eqb Bool.eqb c_bang]. rewrite skip_sep by ok. now rewrite skip_lit.
Qed.
Lemma lt_cell c s : sext s (pr_cell c s).
Proof. destruct c; cbn [pr_cell]; sext_tac. Qed.
Lemma cells_ok cs t k : forallb cell_ok cs = true -> tr_ok t = true ->
  many cell_start p_cell (pr_list pr_cell cs (sep_k t (";" ++ k))) = Some (map cell_ast cs, sep_k t (";" ++ k)).
Proof.
  intros H Ht. apply (many_complete pr_cell cell_ast cell_ok cell_start p_cell (fun _ => True)); auto.
  - intros. now apply p_cell_ok.
  - intros. apply lt_cell.
  - unfold cell_start. rewrite !next_is_sep by ok. now rewrite !next_is_lit.
Qed.

(* chain items *)
Lemma p_run_lit p n t c a k :
  trivia_free p = true -> run_ok p n = true -> p c = false -> tr_ok t = true ->
  p_run p (n ++ sep_k t (String c a ++ k)) = Some (n, sep_k t (String c a ++ k)).
Proof. intros. change (String c a ++ k) with (String c (a ++ k)). now apply p_run_tok. Qed.
Lemma first_kw_sep {T} (kws : list (string * T)) t s : tr_ok t = true -> first_kw kws (skip (sep_k t s)) = first_kw kws (skip s).
Proof. intros H. now rewrite skip_sep. Qed.

Lemma p_citem_ok i k : citem_ok i = true ->
  citem_start (pr_citem i k) = true /\ p_citem (pr_citem i k) = Some (citem_ast i, k).
Proof.
  intros H. unfold citem_start, p_citem.
  destruct i; cbn [pr_citem citem_ok citem_ast] in *; split_okx H; rewrite !first_kw_sep by ok; rewrite skip_lit by reflexivity.
  - change (first_kw chain_kws ("ScanLength" ++ ?x)) with (Some (KwLength, x)). split; [reflexivity|]. cbn [bind].
    rewrite p_run_sep by ok. rewrite p_run_lit by ok. cbn [bind].
    rewrite expect_sep by ok. rewrite expect_lit by reflexivity. reflexivity.
  - change (first_kw chain_kws ("ScanInversion" ++ ?x)) with (Some (KwInversion, x)). split; [reflexivity|]. cbn [bind].
    rewrite p_run_sep by ok. rewrite p_run_lit by ok. cbn [bind].
    rewrite expect_sep by ok. rewrite expect_lit by reflexivity. reflexivity.
  - rewrite first_kw_ScanIn by (now apply hd_not_qt). split; [reflexivity|]. cbn [bind].
    rewrite p_quoted_qt by ok. cbn [bind]. rewrite expect_sep by ok. rewrite expect_lit by reflexivity. reflexivity.
  - change (first_kw chain_kws ("ScanOut" ++ ?x)) with (Some (KwOut, x)). split; [reflexivity|]. cbn [bind].
    rewrite p_quoted_qt by ok. cbn [bind]. rewrite expect_sep by ok. rewrite expect_lit by reflexivity. reflexivity.
  - change (first_kw chain_kws ("ScanMasterClock" ++ ?x)) with (Some (KwClock, x)). split; [reflexivity|]. cbn [bind].
    rewrite p_quoted_qt by ok. cbn [bind]. rewrite expect_sep by ok. rewrite expect_lit by reflexivity. reflexivity.
  - change (first_kw chain_kws ("ScanCells" ++ ?x)) with (Some (KwCells, x)). split; [reflexivity|]. cbn [bind].
    rewrite cells_ok by ok. cbn [bind]. rewrite expect_sep by ok. rewrite expect_lit by reflexivity. reflexivity.
Qed.

Lemma ext_cell k c s : ext k s -> ext k (pr_cell c s).
Proof. intros. destruct c; cbn [pr_cell]; ext_auto. Qed.
#[export] Hint Resolve ext_cell : ext.
Lemma ext_citem k i s : ext k s -> ext k (pr_citem i s).
Proof. intros. destruct i; cbn [pr_citem]; ext_auto. Qed.
#[export] Hint Resolve ext_citem : ext.
Lemma lt_citem i s : sext s (pr_citem i s).
Proof. destruct i; cbn [pr_citem]; sext_tac. Qed.

Lemma citems_ok l t k : forallb citem_ok l = true -> tr_ok t = true ->
  many citem_start p_citem (pr_list pr_citem l (sep_k t ("}" ++ k))) = Some (map citem_ast l, sep_k t ("}" ++ k)).
Proof.
  intros H Ht. apply (many_complete pr_citem citem_ast citem_ok citem_start p_citem (fun _ => True)); auto.
  - intros. now apply p_citem_ok.
  - intros. apply lt_citem.
  - unfold citem_start. rewrite first_kw_sep by ok. now rewrite skip_lit.
Qed.

Lemma p_chain_ok c k : chain_ok c = true ->
  chain_start (pr_chain c k) = true /\ p_chain (pr_chain c k) = Some (chain_ast c, k).
Proof.
  intros H. unfold chain_ok in H. split_okx H. unfold chain_start, p_chain, pr_chain.
  rewrite !expect_sep by ok. rewrite !expect_lit by reflexivity. split; [reflexivity|]. cbn [bind].
  rewrite p_quoted_qt by ok. cbn [bind]. rewrite expect_sep by ok. rewrite expect_lit by reflexivity. cbn [bind].
  rewrite citems_ok by ok. cbn [bind]. rewrite expect_sep by ok. rewrite expect_lit by reflexivity. reflexivity.
Qed.
Lemma ext_chain k c s : ext k s -> ext k (pr_chain c s).
Proof. intros. unfold pr_chain. ext_auto. Qed.
#[export] Hint Resolve ext_chain : ext.
Lemma lt_chain c s : sext s (pr_chain c s).
Proof. unfold pr_chain. sext_tac. Qed.
Lemma chains_ok l t k : forallb chain_ok l = true -> tr_ok t = true ->
  many chain_start p_chain (pr_list pr_chain l (sep_k t ("}" ++ k))) = Some (map chain_ast l, sep_k t ("}" ++ k)).
Proof.
  intros H Ht. apply (many_complete pr_chain chain_ast chain_ok chain_start p_chain (fun _ => True)); auto.
  - intros. now apply p_chain_ok.
  - intros. apply lt_chain.
  - unfold chain_start. rewrite expect_sep by ok. unfold expect. now rewrite skip_lit.
Qed.

(* call parameters *)
Lemma p_param_ok p k : param_ok p = true ->
  next_is c_dq (pr_param p k) = true /\ p_param (pr_param p k) = Some (param_ast p, k).
Proof.
  intros H. unfold param_ok in H. split_okx H. unfold p_param, pr_param. split.
  - now rewrite next_is_qt.
  - rewrite p_quoted_qt by ok. cbn [bind]. rewrite expect_sep by ok. rewrite expect_lit by reflexivity. cbn [bind].
    rewrite p_run_sep by ok. rewrite p_run_value by ok. cbn [bind].
    change (String c_semi k) with (";" ++ k). rewrite expect_lit by reflexivity. reflexivity.
Qed.
Lemma ext_param k p s : ext k s -> ext k (pr_param p s).
Proof. intros. unfold pr_param. ext_auto. Qed.
#[export] Hint Resolve ext_param : ext.
Lemma lt_param p s : sext s (pr_param p s).
Proof. unfold pr_param. sext_tac. Qed.
Lemma params_ok l t k : forallb param_ok l = true -> tr_ok t = true ->
  many (next_is c_dq) p_param (pr_list pr_param l (sep_k t ("}" ++ k))) = Some (map param_ast l, sep_k t ("}" ++ k)).
Proof.
  intros H Ht. apply (many_complete pr_param param_ast param_ok (next_is c_dq) p_param (fun _ => True)); auto.
  - intros. now apply p_param_ok.
  - intros. apply lt_param.
  - rewrite next_is_sep by ok. now rewrite next_is_lit.
Qed.

(* pattern statements *)
Lemma hd_not_sep_lit p t c a k : trivia_free p = true -> p c = false -> hd_not p (sep_k t (String c a ++ k)).
Proof. intros. change (String c a ++ k) with (String c (a ++ k)). now apply hd_not_sep. Qed.
Lemma hd_not_sep_iblock p t b k : trivia_free p = true -> p c_lb = false -> hd_not p (sep_k t (pr_iblock b k)).
Proof. intros. unfold pr_iblock. now apply hd_not_sep. Qed.

Lemma p_pitem_ok i k : pitem_ok i = true ->
  pitem_start (pr_pitem i k) = true /\ p_pitem (pr_pitem i k) = Some (pitem_ast i, k).
Proof.
  intros H. unfold pitem_start, p_pitem.
  destruct i; cbn [pr_pitem pitem_ok pitem_ast] in *; split_okx H.
  - rewrite !next_is_qt by ok. split; [reflexivity|]. cbn [Ascii.eqb Bool.eqb c_dq].
    rewrite p_quoted_qt by ok. cbn [bind]. rewrite expect_sep by ok. rewrite expect_lit by reflexivity. reflexivity.
  - rewrite !next_is_sep by ok. rewrite !next_is_lit by reflexivity. rewrite !first_kw_sep by ok. rewrite skip_lit by reflexivity.
    change (first_kw pattern_kws ("W" ++ ?x)) with (Some (KwW, x)). split; [reflexivity|]. cbn [bind Ascii.eqb Bool.eqb c_dq].
    rewrite p_quoted_qt by ok. cbn [bind]. rewrite expect_sep by ok. rewrite expect_lit by reflexivity. reflexivity.
  - rewrite !next_is_sep by ok. rewrite !next_is_lit by reflexivity. rewrite !first_kw_sep by ok. rewrite skip_lit by reflexivity.
    change (first_kw pattern_kws ("Macro" ++ ?x)) with (Some (KwMacro, x)). split; [reflexivity|]. cbn [bind Ascii.eqb Bool.eqb c_dq].
    rewrite p_quoted_qt by ok. cbn [bind]. rewrite expect_sep by ok. rewrite expect_lit by reflexivity. reflexivity.
  - rewrite !next_is_sep by ok. rewrite !next_is_lit by reflexivity. rewrite !first_kw_sep by ok. rewrite skip_lit by reflexivity.
    rewrite first_kw_C by (now apply hd_not_sep_iblock). split; [reflexivity|]. cbn [bind Ascii.eqb Bool.eqb c_dq].
    rewrite p_ignore_sep by ok. rewrite p_ignore_iblock by ok. reflexivity.
  - rewrite !next_is_sep by ok. rewrite !next_is_lit by reflexivity. rewrite !first_kw_sep by ok. rewrite skip_lit by reflexivity.
    change (first_kw pattern_kws ("Ann" ++ ?x)) with (Some (KwAnn, x)). split; [reflexivity|]. cbn [bind Ascii.eqb Bool.eqb c_dq].
    rewrite p_ignore_sep by ok. rewrite p_ignore_iblock by ok. reflexivity.
  - rewrite !next_is_sep by ok. rewrite !next_is_lit by reflexivity. rewrite !first_kw_sep by ok. rewrite skip_lit by reflexivity.
    change (first_kw pattern_kws ("Call" ++ ?x)) with (Some (KwCall, x)). split; [reflexivity|]. cbn [bind Ascii.eqb Bool.eqb c_dq].
    rewrite p_quoted_qt by ok. cbn [bind]. rewrite expect_sep by ok. rewrite expect_lit by reflexivity. cbn [bind].
    rewrite params_ok by ok. cbn [bind]. rewrite expect_sep by ok. rewrite expect_lit by reflexivity. reflexivity.
Qed.
Lemma ext_pitem k i s : ext k s -> ext k (pr_pitem i s).
Proof. intros. destruct i; cbn [pr_pitem]; ext_auto. Qed.
#[export] Hint Resolve ext_pitem : ext.
Lemma lt_pitem i s : sext s (pr_pitem i s).
Proof. destruct i; cbn [pr_pitem]; sext_tac. Qed.
Lemma pitems_ok l t k : forallb pitem_ok l = true -> tr_ok t = true ->
  many pitem_start p_pitem (pr_list pr_pitem l (sep_k t ("}" ++ k))) = Some (map pitem_ast l, sep_k t ("}" ++ k)).
Proof.
  intros H Ht. apply (many_complete pr_pitem pitem_ast pitem_ok pitem_start p_pitem (fun _ => True)); auto.
  - intros. now apply p_pitem_ok.
  - intros. apply lt_pitem.
  - unfold pitem_start. rewrite next_is_sep, first_kw_sep by ok. rewrite next_is_lit, skip_lit by reflexivity. reflexivity.
Qed.

(* blocks *)
Lemma p_userkw_ok w k : all_chars is_letter w = true -> p_userkw (w ++ String c_semi k) = Some k.
Proof.
  intros H. unfold p_userkw.
  assert (S : skip (w ++ String c_semi k) = w ++ String c_semi k).
  { apply skip_id. destruct w as [|c w]; [now destruct k|].
    apply (starts_trivia_hd is_letter (String c w)); [reflexivity|exact H]. }
  rewrite S. rewrite span_stop by (auto; reflexivity). reflexivity.
Qed.

Lemma p_block_ok b k : block_ok b = true ->
  block_start (pr_block b k) = true /\ p_block (pr_block b k) = Some (block_ast b, k).
Proof.
  intros H. unfold block_start, p_block.
  destruct b; cbn [pr_block block_ok block_ast] in *; split_okx H; rewrite !first_kw_sep by ok.
  - rewrite skip_lit by reflexivity.
    change (first_kw block_kws ("SignalGroups" ++ ?x)) with (Some (KwSignalGroups, x)). split; [reflexivity|]. cbn [bind].
    rewrite expect_sep by ok. rewrite expect_lit by reflexivity. cbn [bind].
    rewrite groups_ok by ok. cbn [bind]. rewrite expect_sep by ok. rewrite expect_lit by reflexivity. reflexivity.
  - rewrite skip_lit by reflexivity.
    change (first_kw block_kws ("ScanStructures" ++ ?x)) with (Some (KwScanStructures, x)). split; [reflexivity|]. cbn [bind].
    rewrite expect_sep by ok. rewrite expect_lit by reflexivity. cbn [bind].
    rewrite chains_ok by ok. cbn [bind]. rewrite expect_sep by ok. rewrite expect_lit by reflexivity. reflexivity.
  - rewrite skip_lit by reflexivity.
    rewrite first_kw_Pattern by (now apply hd_not_qt). split; [reflexivity|]. cbn [bind].
    rewrite p_quoted_qt by ok. cbn [bind]. rewrite expect_sep by ok. rewrite expect_lit by reflexivity. cbn [bind].
    rewrite pitems_ok by ok. cbn [bind]. rewrite expect_sep by ok. rewrite expect_lit by reflexivity. reflexivity.
  - destruct kw; cbn [ikw_text]; rewrite skip_lit by reflexivity.
    + change (first_kw block_kws ("Header" ++ ?x)) with (Some (KwIgnored, x)). split; [reflexivity|]. cbn [bind].
      rewrite p_ignore_sep by ok. rewrite p_ignore_iblock by ok. reflexivity.
    + change (first_kw block_kws ("Signals" ++ ?x)) with (Some (KwIgnored, x)). split; [reflexivity|]. cbn [bind].
      rewrite p_ignore_sep by ok. rewrite p_ignore_iblock by ok. reflexivity.
    + change (first_kw block_kws ("Timing" ++ ?x)) with (Some (KwIgnored, x)). split; [reflexivity|]. cbn [bind].
      rewrite p_ignore_sep by ok. rewrite p_ignore_iblock by ok. reflexivity.
    + change (first_kw block_kws ("PatternExec" ++ ?x)) with (Some (KwIgnored, x)). split; [reflexivity|]. cbn [bind].
      rewrite p_ignore_sep by ok. rewrite p_ignore_iblock by ok. reflexivity.
    + change (first_kw block_kws ("Procedures" ++ ?x)) with (Some (KwIgnored, x)). split; [reflexivity|]. cbn [bind].
      rewrite p_ignore_sep by ok. rewrite p_ignore_iblock by ok. reflexivity.
    + change (first_kw block_kws ("MacroDefs" ++ ?x)) with (Some (KwIgnored, x)). split; [reflexivity|]. cbn [bind].
      rewrite p_ignore_sep by ok. rewrite p_ignore_iblock by ok. reflexivity.
  - rewrite skip_lit by reflexivity.
    change (first_kw block_kws ("PatternBurst" ++ ?x)) with (Some (KwPatternBurst, x)). split; [reflexivity|]. cbn [bind].
    rewrite p_quoted_qt by ok. cbn [bind]. rewrite p_ignore_sep by ok. rewrite p_ignore_iblock by ok. reflexivity.
  - rewrite skip_lit by reflexivity.
    change (first_kw block_kws ("UserKeywords" ++ ?x)) with (Some (KwUserKeywords, x)). split; [reflexivity|]. cbn [bind].
    rewrite p_userkw_sep by ok. rewrite p_userkw_ok by ok. reflexivity.
Qed.
Lemma ext_group k g s : ext k s -> ext k (pr_group g s).
Proof. intros. unfold pr_group. ext_auto. Qed.
#[export] Hint Resolve ext_group : ext.
Lemma lt_block b s : sext s (pr_block b s).
Proof. destruct b; cbn [pr_block]; try sext_tac. destruct kw; cbn [ikw_text]; sext_tac. Qed.

Lemma blocks_ok l t tail : forallb block_ok l = true -> tr_ok t = true ->
  match tail with Some b => no_char c_nl b | None => true end = true ->
  many block_start p_block (pr_list pr_block l (sep_k t (tail_text tail))) = Some (map block_ast l, sep_k t (tail_text tail)).
Proof.
  intros H Ht Hb. apply (many_complete pr_block block_ast block_ok block_start p_block (fun _ => True)); auto.
  - intros. now apply p_block_ok.
  - intros. apply lt_block.
  - unfold block_start. rewrite first_kw_sep by ok. destruct tail as [b|]; [|reflexivity].
    unfold tail_text, skip. cbn [skip_go is_ws Ascii.eqb Bool.eqb c_slash c_cr c_sp c_tab c_ff c_nl orb].
    now rewrite skip_tail.
Qed.

Theorem parse_ast_print f : file_ok f = true -> parse_ast (pr_file f) = Some (file_ast f).
Proof.
  intros H. unfold file_ok in H. split_okx H. unfold parse_ast, pr_file.
  rewrite expect_sep by ok. rewrite expect_lit by reflexivity. cbn [bind].
  rewrite p_run_sep by ok.
  assert (E : forall k, (do s3 <- (if next_is c_lb (pr_head (f_head f) k) then p_ignore (pr_head (f_head f) k) else expect ";" (pr_head (f_head f) k)); Some s3) = Some k
              /\ p_run is_float_char (f_ver f ++ pr_head (f_head f) k) = Some (f_ver f, pr_head (f_head f) k)).
  { intros k. destruct (f_head f) as [ti b|ts]; cbn [pr_head head_ok] in *.
    - split_okx Hok2. split.
      + rewrite next_is_sep by ok. rewrite next_is_iblock. cbn [Ascii.eqb Bool.eqb c_lb].
        rewrite p_ignore_sep by ok. now rewrite p_ignore_iblock.
      + unfold pr_iblock. now apply p_run_tok.
    - split.
      + rewrite next_is_sep by ok. rewrite next_is_lit by reflexivity. cbn [Ascii.eqb Bool.eqb c_lb].
        rewrite expect_sep by ok. now rewrite expect_lit.
      + now apply p_run_lit. }
  destruct (E (pr_list pr_block (f_blocks f) (sep_k (f_end f) (tail_text (f_tail f))))) as [E1 E2].
  rewrite E2. cbn [bind].
  destruct (if next_is c_lb _ then _ else _) as [s3|] eqn:E3; cbn [bind] in E1; [|discriminate].
  injection E1 as ->. cbn [bind].
  rewrite blocks_ok by ok. cbn [bind].
  rewrite skip_sep by ok. destruct (f_tail f) as [b|]; [|reflexivity].
  unfold tail_text, skip. cbn [skip_go is_ws Ascii.eqb Bool.eqb c_slash c_cr c_sp c_tab c_ff c_nl orb].
  now rewrite skip_tail.
Qed.

(* ---------------------------------------------------------------------------------------------- *)
(** * from the text to the StilFile arguments *)
Theorem outcome_print f : file_ok f = true -> stil_outcome (pr_file f) = transform (file_ast f).
Proof. intros H. unfold stil_outcome. now rewrite parse_ast_print. Qed.

Theorem parse_stil_cst f : file_ok f = true ->
  parse_stil (pr_file f) = match transform (file_ast f) with SOk x => Some x | _ => None end.
Proof. intros H. unfold parse_stil. now rewrite outcome_print. Qed.

(** (b) the ignored text is irrelevant: two ways of writing the same tokens *)
Theorem layout_irrelevant f f' : file_ok f = true -> file_ok f' = true -> file_ast f = file_ast f' ->
  parse_ast (pr_file f) = parse_ast (pr_file f') /\ parse_stil (pr_file f) = parse_stil (pr_file f').
Proof. intros H H' E. rewrite !parse_stil_cst, !parse_ast_print by assumption. now rewrite E. Qed.

(** (c) ignored blocks and statements are irrelevant *)
Lemma last_fold {A B} (f : A -> option B) l acc :
  fold_left (fun acc x => match f x with Some y => Some y | None => acc end) l acc =
  match last_of f l with Some y => Some y | None => acc end.
Proof.
  unfold last_of. revert acc. induction l as [|x l IH]; intros acc; simpl; auto.
  rewrite IH. rewrite (IH (match f x with Some y => Some y | None => None end)).
  destruct (fold_left _ l None); auto. now destruct (f x).
Qed.
Lemma last_of_app {A B} (f : A -> option B) l1 l2 :
  last_of f (l1 ++ l2) = match last_of f l2 with Some y => Some y | None => last_of f l1 end.
Proof. unfold last_of at 1. rewrite fold_left_app. now rewrite last_fold. Qed.
Lemma last_of_cons {A B} (f : A -> option B) x l :
  last_of f (x :: l) = match last_of f l with Some y => Some y | None => f x end.
Proof. change (x :: l) with (([x] ++ l)%list). rewrite last_of_app. unfold last_of at 2. simpl. now destruct (f x). Qed.

Lemma last_of_core {A B} (f : A -> option B) (core : A -> list A) l :
  (forall x, last_of f (core x) = f x) -> last_of f (flat_map core l) = last_of f l.
Proof.
  intros H. induction l as [|x l IH]; simpl; auto.
  rewrite last_of_app, last_of_cons, IH, H. reflexivity.
Qed.
Lemma last_of_core_map {A B} (f : A -> option B) (core : A -> list A) (h : B -> B) l :
  (forall x, last_of f (core x) = option_map h (f x)) -> last_of f (flat_map core l) = option_map h (last_of f l).
Proof.
  intros H. induction l as [|x l IH]; simpl; auto.
  rewrite last_of_app, last_of_cons, IH, H. now destruct (last_of f l).
Qed.

Lemma chain_list_core items : chain_list (flat_map citem_core items) = chain_list items.
Proof.
  unfold chain_list, chain_cells_of, chain_si_of, chain_so_of.
  rewrite !(last_of_core _ citem_core); auto; intros []; reflexivity.
Qed.

Definition core_chains (cs : list (string * list citem)) := map (fun ch => (fst ch, flat_map citem_core (snd ch))) cs.

Lemma chains_raise_core bs : existsb chains_raise (flat_map block_core bs) = existsb chains_raise bs.
Proof.
  induction bs as [|b bs IH]; simpl; auto. rewrite existsb_app, IH. f_equal.
  destruct b; simpl; auto. rewrite orb_false_r.
  induction c as [|ch c IHc]; simpl; auto. now rewrite chain_list_core, IHc.
Qed.

Lemma calls_core items : flat_map call_of (flat_map pitem_core items) = flat_map call_of items.
Proof. induction items as [|[] l IH]; simpl; auto. now rewrite IH. Qed.

Theorem transform_core a : transform (ast_core a) = transform a.
Proof.
  destruct a as [ver bs]. unfold ast_core, transform. cbn [fst snd].
  rewrite chains_raise_core.
  rewrite (last_of_core_map sel_chains block_core core_chains) by (intros []; reflexivity).
  rewrite (last_of_core_map sel_pattern block_core (flat_map pitem_core)) by (intros []; reflexivity).
  rewrite (last_of_core sel_groups block_core) by (intros []; reflexivity).
  destruct (existsb chains_raise bs); auto. destruct (negb (float_ok ver)); auto.
  destruct (last_of sel_chains bs) as [cs|]; cbn [option_map]; auto.
  destruct (last_of sel_pattern bs) as [items|]; cbn [option_map]; auto.
  rewrite calls_core.
  replace (map chain_entry (core_chains cs)) with (map chain_entry cs); auto.
  unfold core_chains. rewrite map_map. apply map_ext. intros ch. unfold chain_entry. cbn [fst snd]. now rewrite chain_list_core.
Qed.

(** two files with the same core (same SignalGroups / ScanStructures / Pattern content up to ignored statements) give the same result *)
Theorem ignored_irrelevant f f' : file_ok f = true -> file_ok f' = true -> ast_core (file_ast f) = ast_core (file_ast f') ->
  stil_outcome (pr_file f) = stil_outcome (pr_file f') /\ parse_stil (pr_file f) = parse_stil (pr_file f').
Proof.
  intros H H' E. unfold parse_stil. rewrite !outcome_print by assumption.
  rewrite <- (transform_core (file_ast f)), <- (transform_core (file_ast f')), E. auto.
Qed.

(* ---------------------------------------------------------------------------------------------- *)
(** * (a) round trip through the canonical printer *)
Lemma nodupb_NoDup l : nodupb l = true -> NoDup l.
Proof.
  induction l as [|x l IH]; simpl; intros H; constructor.
  - apply andb_true_iff in H. destruct H as [H _]. apply negb_true_iff in H. intros I.
    assert (existsb (String.eqb x) l = true); [|congruence].
    apply existsb_exists. exists x. split; auto. apply String.eqb_refl.
  - apply andb_true_iff in H. destruct H as [_ H]. auto.
Qed.

Lemma strip_si_id s : no_char c_dot s = true -> strip_si s = s.
Proof.
  induction s as [|c s IH]; simpl; intros H; auto.
  apply andb_true_iff in H. destruct H as [H1 H2]. apply negb_true_iff in H1. rewrite H1. now rewrite IH.
Qed.
Lemma dot_in_line_no s : no_char c_dot s = true -> dot_in_line s = false.
Proof.
  induction s as [|c s IH]; simpl; intros H; auto.
  apply andb_true_iff in H. destruct H as [H1 H2]. apply negb_true_iff in H1. rewrite H1, IH by auto. now destruct (Ascii.eqb c c_nl).
Qed.
Lemma strip_hier_id s : no_char c_dot s = true -> strip_hier s = s.
Proof.
  induction s as [|c s IH]; simpl; intros H; auto.
  apply andb_true_iff in H. destruct H as [H1 H2]. apply negb_true_iff in H1.
  rewrite dot_in_line_no, H1, IH by auto. now destruct (Ascii.eqb c c_nl).
Qed.
Lemma clean_cell_id s : no_char c_dot s = true -> clean_cell s = s.
Proof. intros H. unfold clean_cell. now rewrite strip_si_id, strip_hier_id. Qed.

Lemma all_some_map {A} (l : list A) : all_some (map Some l) = Some l.
Proof. induction l; simpl; auto. now rewrite IHl. Qed.

Lemma chain_split ch : 2 <= List.length ch -> ch = chain_si ch :: chain_mid ch ++ [chain_so ch].
Proof.
  intros H. destruct ch as [|si r]; [simpl in H; lia|].
  destruct (exists_last (l := r)) as (mid & so & ->). { intros ->. simpl in H. lia. }
  destruct (chain_parts si mid so) as (E1 & E2 & E3). now rewrite E1, E2, E3.
Qed.

Lemma cell_ast_canon c : cell_ast (canon_cell c) = c.
Proof. unfold canon_cell. destruct (String.eqb c "!") eqn:E; simpl; auto. apply String.eqb_eq in E. now subst. Qed.
Lemma cell_ok_canon c : name_ok c = true -> cell_ok (canon_cell c) = true.
Proof. intros H. unfold canon_cell. destruct (String.eqb c "!"); simpl; auto. Qed.

Lemma forallb_map {A B} (f : B -> bool) (g : A -> B) l : forallb f (map g l) = forallb (fun x => f (g x)) l.
Proof. induction l; simpl; auto. now rewrite IHl. Qed.
Lemma forallb_impl {A} (f g : A -> bool) l : (forall x, f x = true -> g x = true) -> forallb f l = true -> forallb g l = true.
Proof. intros H. induction l; simpl; auto. intros E. apply andb_true_iff in E. destruct E. rewrite H, IHl; auto. Qed.
Lemma forallb_sub {A} (f : A -> bool) l l' : (forall x, In x l' -> In x l) -> forallb f l = true -> forallb f l' = true.
Proof. intros S H. apply forallb_forall. intros x I. eapply forallb_forall in H; eauto. Qed.

Lemma chain_mid_in ch x : In x (chain_mid ch) -> In x ch.
Proof.
  unfold chain_mid. intros I. destruct ch as [|a r]; simpl in *; auto. right.
  clear a. induction r as [|b r IH]; simpl in *; auto. destruct r; simpl in *; [contradiction|]. destruct I; auto.
Qed.

(* groups *)
Lemma group_canon g : wf_group g = true -> group_ok (canon_group g) = true /\ group_ast (canon_group g) = g.
Proof.
  intros H. unfold wf_group in H. split_okx H. destruct g as [n ms]. cbn [fst snd] in *.
  destruct ms as [|m ms]; [discriminate|]. simpl in Hok0. apply andb_true_iff in Hok0. destruct Hok0 as [M0 Ms]. split.
  - unfold group_ok, canon_group. cbn. unfold qt_ok. cbn. unfold name_ok in *. rewrite H, M0. cbn.
    rewrite forallb_map. cbn. rewrite andb_true_r.
    erewrite forallb_impl; [reflexivity| |exact Ms]. intros x Hx. unfold qt_ok. cbn. exact Hx.
  - unfold group_ast, canon_group. cbn. rewrite map_map. cbn. now rewrite map_id.
Qed.

(* chains *)
Lemma chain_canon c : wf_chain c = true ->
  chain_ok (canon_chain c) = true /\
  fst (chain_ast (canon_chain c)) = fst c /\
  chain_list (snd (chain_ast (canon_chain c))) = Some (map Some (snd c)).
Proof.
  intros H. unfold wf_chain in H. split_okx H. destruct c as [n ch]. cbn [fst snd] in *.
  apply Nat.leb_le in Hok0. pose proof (chain_split ch Hok0) as E.
  assert (Isi : name_ok (chain_si ch) = true).
  { eapply forallb_forall in Hok1; eauto. rewrite E at 2. now left. }
  assert (Iso : name_ok (chain_so ch) = true).
  { eapply forallb_forall in Hok1; eauto. rewrite E at 2. right. apply in_or_app. right. now left. }
  assert (Imid : forallb name_ok (chain_mid ch) = true).
  { eapply forallb_sub; [|exact Hok1]. apply chain_mid_in. }
  repeat split.
  - unfold chain_ok, canon_chain. cbn [c_tr c_name c_op c_items c_cl forallb citem_ok tr_ok ign_ok andb qt_ok q_of q_tr q_s fst snd].
    unfold name_ok in *. rewrite H, Isi, Iso. cbn [andb]. rewrite !andb_true_r.
    rewrite forallb_map. erewrite forallb_impl; [reflexivity| |exact Imid]. intros x Hx. now apply cell_ok_canon.
  - unfold chain_list, canon_chain. cbn. rewrite !map_map.
    transitivity (Some (map Some (chain_si ch :: chain_mid ch ++ [chain_so ch]))); [|now rewrite <- E].
    cbn [map]. rewrite map_app. cbn [map]. do 2 f_equal. f_equal.
    apply map_ext_in. intros x Ix. rewrite cell_ast_canon. f_equal. apply clean_cell_id.
    eapply forallb_forall in Hok; eauto.
Qed.

(* calls *)
Lemma param_canon p : name_ok (fst p) && val_ok (snd p) = true -> param_ok (canon_param p) = true /\ param_ast (canon_param p) = p.
Proof.
  intros H. apply andb_true_iff in H. destruct H as [H1 H2]. destruct p as [k v]. cbn [fst snd] in *. split; auto.
  unfold param_ok, canon_param. cbn. unfold qt_ok. cbn. unfold name_ok in H1. now rewrite H1, H2.
Qed.
Lemma call_canon c : wf_call c = true -> pitem_ok (canon_call c) = true /\ call_of (pitem_ast (canon_call c)) = [c].
Proof.
  intros H. unfold wf_call in H. split_okx H. destruct c as [n ps]. cbn [call_name call_params] in *. split.
  - unfold canon_call. cbn. unfold qt_ok. cbn. unfold name_ok in H. rewrite H. cbn. rewrite andb_true_r.
    rewrite forallb_map. erewrite forallb_impl; [reflexivity| |exact Hok0]. intros x Hx. now apply param_canon.
  - unfold canon_call. cbn [pitem_ast call_of q_s q_of call_name call_params]. rewrite map_map.
    replace (map (fun x => param_ast (canon_param x)) ps) with ps.
    + rewrite dict_of_nodup; auto. now apply nodupb_NoDup.
    + symmetry. erewrite map_ext_in; [apply map_id|]. intros x Ix. apply param_canon. eapply forallb_forall in Hok0; eauto.
Qed.

Lemma groups_canon g : forallb wf_group g = true ->
  forallb group_ok (map canon_group g) = true /\ map group_ast (map canon_group g) = g.
Proof.
  intros H. split.
  - rewrite forallb_map. eapply forallb_impl; [|exact H]. intros x Hx. now apply group_canon.
  - rewrite map_map. erewrite map_ext_in; [apply map_id|]. intros x Ix. apply group_canon. eapply forallb_forall in H; eauto.
Qed.
Lemma calls_canon cs : forallb wf_call cs = true ->
  forallb pitem_ok (map canon_call cs) = true /\ flat_map call_of (map pitem_ast (map canon_call cs)) = cs.
Proof.
  intros H. split.
  - rewrite forallb_map. eapply forallb_impl; [|exact H]. intros x Hx. now apply call_canon.
  - induction cs as [|c cs IH]; auto. simpl in H. apply andb_true_iff in H. destruct H as [H1 H2].
    cbn [map flat_map]. destruct (call_canon c H1) as [_ E]. rewrite E, IH by auto. reflexivity.
Qed.
Lemma chains_canon cs : forallb wf_chain cs = true ->
  forallb chain_ok (map canon_chain cs) = true /\
  existsb (fun c => match chain_list (snd c) with None => true | Some _ => false end) (map chain_ast (map canon_chain cs)) = false /\
  map chain_entry (map chain_ast (map canon_chain cs)) = map (fun c => (fst c, map Some (snd c))) cs.
Proof.
  intros H. repeat split.
  - rewrite forallb_map. eapply forallb_impl; [|exact H]. intros x Hx. now apply chain_canon.
  - rewrite !map_map. induction cs as [|c cs IH]; auto. simpl in H. apply andb_true_iff in H. destruct H as [H1 H2].
    cbn [map existsb]. destruct (chain_canon c H1) as (_ & _ & E). rewrite E, IH by auto. reflexivity.
  - rewrite !map_map. apply map_ext_in. intros c Ic. eapply forallb_forall in H; eauto.
    destruct (chain_canon c H) as (_ & E1 & E2). unfold chain_entry. now rewrite E1, E2.
Qed.

Lemma all_some_chains (cs : sdict (list string)) :
  all_some (map entry_some (map (fun c => (fst c, map Some (snd c))) cs)) = Some cs.
Proof.
  induction cs as [|[k v] cs IH]; auto. cbn [map fst snd all_some]. unfold entry_some at 1. cbn [fst snd]. rewrite all_some_map.
  now rewrite IH.
Qed.

Theorem parse_print f : wf_file f = true -> parse_stil (print_stil f) = Some f.
Proof.
  intros H. unfold wf_file in H. split_okx H. rename H into Hrun.
  destruct (chains_canon _ Hok1) as (C1 & C2 & C3). destruct (calls_canon _ Hok) as (P1 & P2).
  assert (KD : dict_of (map (fun c : string * list string => (fst c, map Some (snd c))) (sf_chains f)) =
               map (fun c => (fst c, map Some (snd c))) (sf_chains f)).
  { apply dict_of_nodup. unfold dkeys. rewrite map_map. cbn [fst]. now apply nodupb_NoDup. }
  unfold print_stil. rewrite parse_stil_cst.
  - unfold file_ast, canon_file. cbn [f_ver f_blocks]. rewrite map_app. cbn [map block_ast q_s q_of].
    destruct f as [ver [g|] chains calls]; cbn [sf_version sf_groups sf_chains sf_calls] in *.
    + apply andb_true_iff in Hok2. destruct Hok2 as [G1 G2]. destruct (groups_canon _ G1) as (G3 & G4).
      cbn [map block_ast app]. unfold transform. cbn [existsb chains_raise orb]. rewrite C2. cbn [orb].
      rewrite Hok3. cbn [negb]. unfold last_of. cbn [fold_left sel_chains sel_pattern sel_groups]. rewrite C3, KD, all_some_chains, P2, G4.
      cbn [option_map]. rewrite dict_of_nodup by (now apply nodupb_NoDup). reflexivity.
    + cbn [map block_ast app]. unfold transform. cbn [existsb chains_raise orb]. rewrite C2. cbn [orb].
      rewrite Hok3. cbn [negb]. unfold last_of. cbn [fold_left sel_chains sel_pattern sel_groups]. rewrite C3, KD, all_some_chains, P2. reflexivity.
  - unfold file_ok, canon_file. cbn [f_tr f_tv f_ver f_head f_blocks f_end f_tail tr_ok forallb ign_ok head_ok andb].
    rewrite Hrun. cbn [andb]. rewrite !andb_true_r. rewrite forallb_app. apply andb_true_iff. split.
    + destruct (sf_groups f) as [g|]; [|reflexivity]. apply andb_true_iff in Hok2. destruct Hok2 as [G1 G2].
      destruct (groups_canon _ G1) as (G3 & G4). cbn [forallb block_ok tr_ok ign_ok andb]. now rewrite G3.
    + cbn [forallb block_ok tr_ok ign_ok andb qt_ok q_of q_tr q_s]. rewrite C1, P1. reflexivity.
Qed.

(* ---------------------------------------------------------------------------------------------- *)
(** * (d) what the statements of the text mean for the StilFile arguments, and the C18 position theorems from the text *)
Lemma last_of_in {A B} (f : A -> option B) l y : last_of f l = Some y -> exists x, In x l /\ f x = Some y.
Proof.
  induction l as [|x l IH]; [discriminate|]. rewrite last_of_cons.
  destruct (last_of f l) as [y'|] eqn:E.
  - intros [= ->]. destruct (IH eq_refl) as (x' & I & F). exists x'. split; auto. now right.
  - intros F. exists x. split; auto. now left.
Qed.

Lemma all_some_inv {A} (l : list (option A)) r : all_some l = Some r -> l = map Some r.
Proof.
  revert r. induction l as [|[x|] l IH]; simpl; intros r H; try discriminate.
  - now injection H as <-.
  - destruct (all_some l) as [r'|]; [|discriminate]. injection H as <-. simpl. now rewrite (IH r').
Qed.

Lemma transform_ok_inv ver blocks sf : transform (ver, blocks) = SOk sf ->
  exists cs items,
    last_of sel_chains blocks = Some cs /\ last_of sel_pattern blocks = Some items /\
    sf_version sf = ver /\ float_ok ver = true /\
    sf_groups sf = option_map (@dict_of (list string)) (last_of sel_groups blocks) /\
    sf_calls sf = flat_map call_of items /\
    map entry_some (dict_of (map chain_entry cs)) = map Some (sf_chains sf) /\
    (forall c, In c cs -> chain_list (snd c) <> None).
Proof.
  unfold transform. destruct (existsb chains_raise blocks) eqn:ER; [discriminate|].
  destruct (float_ok ver) eqn:EF; [|discriminate]. cbn [negb].
  destruct (last_of sel_chains blocks) as [cs|] eqn:EC; [|discriminate].
  destruct (last_of sel_pattern blocks) as [items|] eqn:EP; [|discriminate].
  destruct (all_some _) as [chains|] eqn:EA; [|discriminate].
  intros [= <-]. exists cs, items. cbn [sf_version sf_groups sf_chains sf_calls]. repeat split; auto.
  - now apply all_some_inv.
  - intros c Ic N. destruct (last_of_in _ _ _ EC) as (b & Ib & Sb). destruct b; try discriminate. injection Sb as ->.
    assert (existsb chains_raise blocks = true); [|congruence].
    apply existsb_exists. exists (BChains cs). split; auto. simpl. apply existsb_exists. exists c. split; auto. now rewrite N.
Qed.

(** a ScanChain statement (whose name is used once in its block) as written: the last ScanIn / ScanOut / ScanCells statements *)
Theorem chain_as_written text ver blocks sf cs key items si so cells :
  parse_ast text = Some (ver, blocks) -> parse_stil text = Some sf ->
  last_of sel_chains blocks = Some cs -> NoDup (map fst cs) -> In (key, items) cs ->
  chain_si_of items = Some si -> chain_so_of items = Some so -> chain_cells_of items = Some cells ->
  In (key, si :: (map clean_cell cells ++ [so])%list) (sf_chains sf).
Proof.
  intros PA PS LC ND I Hsi Hso Hc. unfold parse_stil, stil_outcome in PS. rewrite PA in PS.
  destruct (transform (ver, blocks)) as [| |sf'] eqn:T; try discriminate. injection PS as ->.
  destruct (transform_ok_inv _ _ _ T) as (cs' & its & LC' & _ & _ & _ & _ & _ & EM & _).
  rewrite LC in LC'. injection LC' as <-.
  rewrite dict_of_nodup in EM.
  2:{ unfold dkeys. rewrite map_map. unfold chain_entry. cbn [fst]. exact ND. }
  assert (J : In (entry_some (chain_entry (key, items))) (map Some (sf_chains sf))).
  { rewrite <- EM. rewrite map_map. apply in_map_iff. exists (key, items). split; auto. }
  unfold chain_entry, entry_some, chain_list in J. cbn [fst snd] in J. rewrite Hc, Hsi, Hso in J.
  cbn [all_some] in J.
  assert (AS : all_some ((map (fun c => Some (clean_cell c)) cells ++ [Some so])%list) = Some ((map clean_cell cells ++ [so])%list)).
  { rewrite <- (all_some_map ((map clean_cell cells ++ [so])%list)). f_equal. rewrite map_app, map_map. reflexivity. }
  rewrite AS in J. apply in_map_iff in J. destruct J as (x & [= <-] & Ix). exact Ix.
Qed.

(** a signal group as written: the last definition of the name in the last SignalGroups block *)
Lemma dget_dict_of {V} (l : sdict V) k :
  dget (dict_of l) k = last_of (fun kv => if String.eqb (fst kv) k then Some (snd kv) else None) l.
Proof.
  unfold dict_of. assert (G : forall acc,
    dget (fold_left (fun d kv => dset d (fst kv) (snd kv)) l acc) k =
    match last_of (fun kv => if String.eqb (fst kv) k then Some (snd kv) else None) l with Some v => Some v | None => dget acc k end).
  { induction l as [|[k' v] l IH]; intros acc; [reflexivity|]. cbn [fold_left fst snd]. rewrite IH, last_of_cons.
    destruct (last_of _ l); auto. cbn [fst snd]. destruct (String.eqb k' k) eqn:E.
    - apply String.eqb_eq in E. subst. apply dget_dset_same.
    - apply dget_dset_other. intros ->. now rewrite String.eqb_refl in E. }
  rewrite G. now destruct (last_of _ l).
Qed.

Theorem group_as_written text ver blocks sf gs name :
  parse_ast text = Some (ver, blocks) -> parse_stil text = Some sf ->
  last_of sel_groups blocks = Some gs ->
  dget (groups_of sf) name = last_of (fun g => if String.eqb (fst g) name then Some (snd g) else None) gs.
Proof.
  intros PA PS LG. unfold parse_stil, stil_outcome in PS. rewrite PA in PS.
  destruct (transform (ver, blocks)) as [| |sf'] eqn:T; try discriminate. injection PS as ->.
  destruct (transform_ok_inv _ _ _ T) as (cs' & its & _ & _ & _ & _ & EG & _).
  unfold groups_of. rewrite EG, LG. cbn [option_map]. apply dget_dict_of.
Qed.

(** the Call statements of the last Pattern block, in order *)
Theorem calls_as_written text ver blocks sf items :
  parse_ast text = Some (ver, blocks) -> parse_stil text = Some sf ->
  last_of sel_pattern blocks = Some items -> sf_calls sf = flat_map call_of items.
Proof.
  intros PA PS LP. unfold parse_stil, stil_outcome in PS. rewrite PA in PS.
  destruct (transform (ver, blocks)) as [| |sf'] eqn:T; try discriminate. injection PS as ->.
  destruct (transform_ok_inv _ _ _ T) as (cs' & its & _ & LP' & _ & _ & _ & EC & _). rewrite LP in LP'. now injection LP' as <-.
Qed.

(** C18_scan_load_position / C18_scan_unload_position starting from the TEXT: the chain is the ScanChain statement as written
    (cells with their hierarchical names, `!` markers), the file any text the parser accepts *)
Theorem text_scan_load_position text ver blocks sf cs key items si so cells pre cell post c m p col L ch :
  parse_ast text = Some (ver, blocks) -> parse_stil text = Some sf ->
  last_of sel_chains blocks = Some cs -> NoDup (map fst cs) -> In (key, items) cs ->
  chain_si_of items = Some si -> chain_so_of items = Some so -> chain_cells_of items = Some cells ->
  map clean_cell cells = (pre ++ cell :: post)%list ->
  wf_scan (sf_chains sf) c ->
  maps_gen true (groups_of sf) (sf_chains sf) c = Some m ->
  is_marker cell = false ->
  (forall gpi, dget (groups_of sf) "_pi" = Some gpi -> ~ In cell gpi) ->
  dget (p_load p) si = Some L ->
  String.length L = ncell ((pre ++ cell :: post)%list) ->
  String.get (ncell post) L = Some ch ->
  tests_col m (si_ports (sf_chains sf)) p = Some col ->
  exists q, dget (intf_pos (interface c)) cell = Some q /\ q < List.length col /\
            nth q col UNASSIGNED = load_value (interpret ch) (Nat.odd (nmark pre)).
Proof.
  intros PA PS LC ND I Hsi Hso Hc Ecs W M Mk G DL Len Get T.
  pose proof (chain_as_written _ _ _ _ _ _ _ _ _ _ PA PS LC ND I Hsi Hso Hc) as J. rewrite Ecs in J.
  rewrite <- app_assoc in J. cbn [app] in J.
  eapply scan_load_position; eauto.
Qed.

Theorem text_scan_unload_position text ver blocks sf cs key items si so cells pre cell post c m p col U ch :
  parse_ast text = Some (ver, blocks) -> parse_stil text = Some sf ->
  last_of sel_chains blocks = Some cs -> NoDup (map fst cs) -> In (key, items) cs ->
  chain_si_of items = Some si -> chain_so_of items = Some so -> chain_cells_of items = Some cells ->
  map clean_cell cells = (pre ++ cell :: post)%list ->
  wf_scan (sf_chains sf) c ->
  maps_gen true (groups_of sf) (sf_chains sf) c = Some m ->
  is_marker cell = false ->
  dget (p_unload p) so = Some U ->
  String.length U = ncell ((pre ++ cell :: post)%list) ->
  String.get (ncell post) U = Some ch ->
  responses_col m (so_ports (sf_chains sf)) p = Some col ->
  exists q, dget (intf_pos (interface c)) cell = Some q /\ q < List.length col /\
            nth q col UNASSIGNED = unload_value (interpret ch) (Nat.odd (nmark post)).
Proof.
  intros PA PS LC ND I Hsi Hso Hc Ecs W M Mk DL Len Get T.
  pose proof (chain_as_written _ _ _ _ _ _ _ _ _ _ PA PS LC ND I Hsi Hso Hc) as J. rewrite Ecs in J.
  rewrite <- app_assoc in J. cbn [app] in J.
  eapply scan_unload_position; eauto.
Qed.

(** C18_pi_group_position / C18_po_group_position from the TEXT: the group is the last definition of "_pi" / "_po" in the last
    SignalGroups block *)
Theorem text_pi_group_position text ver blocks sf gs c m p col gpi s j name ch :
  parse_ast text = Some (ver, blocks) -> parse_stil text = Some sf ->
  last_of sel_groups blocks = Some gs ->
  last_of (fun g => if String.eqb (fst g) "_pi" then Some (snd g) else None) gs = Some gpi ->
  NoDup (map sn_name (interface c)) ->
  maps_gen true (groups_of sf) (sf_chains sf) c = Some m ->
  NoDup gpi ->
  dget (p_capture p) "_pi" = Some s -> String.length s = List.length gpi ->
  nth_error gpi j = Some name -> String.get j s = Some ch ->
  tests_col m (si_ports (sf_chains sf)) p = Some col ->
  exists q, dget (intf_pos (interface c)) name = Some q /\ q < List.length col /\
            nth q col UNASSIGNED = interpret ch.
Proof.
  intros PA PS LG Lpi ND M NDg DC Len Nth Get T.
  eapply pi_group_position; eauto. rewrite (group_as_written _ _ _ _ _ _ PA PS LG). exact Lpi.
Qed.

Theorem text_po_group_position text ver blocks sf gs c m p col gpo s j name ch :
  parse_ast text = Some (ver, blocks) -> parse_stil text = Some sf ->
  last_of sel_groups blocks = Some gs ->
  last_of (fun g => if String.eqb (fst g) "_po" then Some (snd g) else None) gs = Some gpo ->
  wf_scan (sf_chains sf) c ->
  maps_gen true (groups_of sf) (sf_chains sf) c = Some m ->
  NoDup gpo ->
  ~ In name (all_cells (map snd (sf_chains sf))) ->
  p_capture p <> [] ->
  dget (p_capture p) "_po" = Some s -> String.length s = List.length gpo ->
  nth_error gpo j = Some name -> String.get j s = Some ch ->
  responses_col m (so_ports (sf_chains sf)) p = Some col ->
  exists q, dget (intf_pos (interface c)) name = Some q /\ q < List.length col /\
            nth q col UNASSIGNED = interpret ch.
Proof.
  intros PA PS LG Lpo W M NDg NI NE DC Len Nth Get T.
  eapply po_group_position; eauto. rewrite (group_as_written _ _ _ _ _ _ PA PS LG). exact Lpo.
Qed.

(* ---------------------------------------------------------------------------------------------- *)
(** * (b) all ignored text between the tokens can be deleted *)
Lemma qt_compact_ok q : qt_ok q = true -> qt_ok (qt_compact q) = true.
Proof. unfold qt_ok. intros H. apply andb_true_iff in H. now destruct H. Qed.

Lemma forallb_map_impl {A B} (f : A -> bool) (g : B -> bool) (h : A -> B) l :
  (forall x, f x = true -> g (h x) = true) -> forallb f l = true -> forallb g (map h l) = true.
Proof. intros H E. rewrite forallb_map. eapply forallb_impl; eauto. Qed.

Lemma group_compact_ok g : group_ok g = true -> group_ok (group_compact g) = true /\ group_ast (group_compact g) = group_ast g.
Proof.
  intros H. unfold group_ok in H. split_okx H. split.
  - assert (M : forallb (fun m : trivia * qt => tr_ok (fst m) && qt_ok (snd m))
                        (map (fun m : trivia * qt => (@nil ign, qt_compact (snd m))) (g_more g)) = true).
    { eapply forallb_map_impl; [|exact Hok2]. intros m Hm. cbn [fst snd tr_ok forallb andb].
      apply andb_true_iff in Hm. destruct Hm. now apply qt_compact_ok. }
    unfold group_ok, group_compact. cbn [g_name g_eq g_ap g_first g_more g_cl g_ign g_semi tr_ok forallb andb].
    rewrite !qt_compact_ok by ok. rewrite M. cbn [andb].
    destruct (g_ign g) as [[t b]|]; destruct (g_semi g); cbn [oign_ok otr_ok tr_ok forallb andb] in *; auto;
      apply andb_true_iff in Hok0; destruct Hok0 as [_ ->]; reflexivity.
  - unfold group_ast, group_compact. cbn [g_name g_first g_more qt_compact q_s]. now rewrite map_map.
Qed.

Lemma cell_compact_ok c : cell_ok c = true -> cell_ok (cell_compact c) = true /\ cell_ast (cell_compact c) = cell_ast c.
Proof. destruct c; cbn [cell_ok cell_compact cell_ast]; intros H; split; auto. now apply qt_compact_ok. Qed.

Lemma map_compact {A B} (ok : A -> bool) (cp : A -> A) (ast : A -> B) l :
  (forall x, ok x = true -> ok (cp x) = true /\ ast (cp x) = ast x) ->
  forallb ok l = true -> forallb ok (map cp l) = true /\ map ast (map cp l) = map ast l.
Proof.
  intros H E. split.
  - eapply forallb_map_impl; [|exact E]. intros x Hx. now apply H.
  - rewrite map_map. apply map_ext_in. intros x Ix. apply H. eapply forallb_forall in E; eauto.
Qed.

Lemma citem_compact_ok i : citem_ok i = true -> citem_ok (citem_compact i) = true /\ citem_ast (citem_compact i) = citem_ast i.
Proof.
  destruct i; cbn [citem_ok citem_compact citem_ast tr_ok forallb andb]; intros H; split_okx H;
    try (rewrite ?qt_compact_ok by ok; rewrite ?Hok0; split; reflexivity).
  destruct (map_compact cell_ok cell_compact cell_ast cells cell_compact_ok Hok0) as [E1 E2].
  rewrite E1, E2. split; reflexivity.
Qed.

Lemma chain_compact_ok c : chain_ok c = true -> chain_ok (chain_compact c) = true /\ chain_ast (chain_compact c) = chain_ast c.
Proof.
  intros H. unfold chain_ok in H. split_okx H.
  destruct (map_compact citem_ok citem_compact citem_ast _ citem_compact_ok Hok0) as [E1 E2].
  unfold chain_ok, chain_ast, chain_compact. cbn [c_tr c_name c_op c_items c_cl tr_ok forallb andb qt_compact q_s].
  rewrite qt_compact_ok by ok. rewrite E1, E2. split; reflexivity.
Qed.

Lemma param_compact_ok p : param_ok p = true -> param_ok (param_compact p) = true /\ param_ast (param_compact p) = param_ast p.
Proof.
  intros H. unfold param_ok in H. split_okx H. unfold param_ok, param_ast, param_compact.
  cbn [pa_name pa_eq pa_lead pa_val tr_ok forallb andb qt_compact q_s]. rewrite qt_compact_ok by ok. rewrite Hok. split; reflexivity.
Qed.

Lemma pitem_compact_ok i : pitem_ok i = true -> pitem_ok (pitem_compact i) = true /\ pitem_ast (pitem_compact i) = pitem_ast i.
Proof.
  destruct i; cbn [pitem_ok pitem_compact pitem_ast tr_ok forallb andb]; intros H; split_okx H;
    try (rewrite ?qt_compact_ok by ok; rewrite ?Hok; split; reflexivity).
  destruct (map_compact param_ok param_compact param_ast ps param_compact_ok Hok0) as [E1 E2].
  rewrite qt_compact_ok by ok. cbn [qt_compact q_s]. rewrite E1, E2. split; reflexivity.
Qed.

Lemma block_compact_ok b : block_ok b = true -> block_ok (block_compact b) = true /\ block_ast (block_compact b) = block_ast b.
Proof.
  destruct b; cbn [block_ok block_compact block_ast tr_ok forallb andb]; intros H; split_okx H.
  - destruct (map_compact group_ok group_compact group_ast gs group_compact_ok Hok0) as [E1 E2]. rewrite E1, E2. split; reflexivity.
  - destruct (map_compact chain_ok chain_compact chain_ast cs chain_compact_ok Hok0) as [E1 E2]. rewrite E1, E2. split; reflexivity.
  - destruct (map_compact pitem_ok pitem_compact pitem_ast items pitem_compact_ok Hok0) as [E1 E2].
    rewrite qt_compact_ok by ok. cbn [qt_compact q_s]. rewrite E1, E2. split; reflexivity.
  - rewrite Hok. split; reflexivity.
  - rewrite qt_compact_ok by ok. rewrite Hok. split; reflexivity.
  - rewrite Hok. split; reflexivity.
Qed.

Lemma file_compact_ok f : file_ok f = true -> file_ok (file_compact f) = true /\ file_ast (file_compact f) = file_ast f.
Proof.
  intros H. unfold file_ok in H. split_okx H.
  destruct (map_compact block_ok block_compact block_ast _ block_compact_ok Hok1) as [E1 E2].
  unfold file_ok, file_ast, file_compact. cbn [f_tr f_tv f_ver f_head f_blocks f_end f_tail tr_ok forallb andb].
  rewrite Hok3, E1, E2. cbn [andb]. split; [|reflexivity].
  destruct (f_head f); cbn [head_ok tr_ok forallb andb] in *; auto. apply andb_true_iff in Hok2. now destruct Hok2 as [_ ->].
Qed.

(** deleting all ignored text between the tokens (and a final comment) does not change what is parsed *)
Theorem compact_same f : file_ok f = true ->
  parse_ast (pr_file (file_compact f)) = parse_ast (pr_file f) /\ parse_stil (pr_file (file_compact f)) = parse_stil (pr_file f).
Proof.
  intros H. destruct (file_compact_ok f H) as [E1 E2]. destruct (layout_irrelevant (file_compact f) f E1 H E2). auto.
Qed.

(* ---------------------------------------------------------------------------------------------- *)
(** * converse: the parser accepts ONLY well-formed concrete syntax trees *)
Lemma skip_com_inv s :
  (exists b s', no_char c_nl b = true /\ s = b ++ String c_nl s' /\ skip_go true s = skip_go false s') \/
  (no_char c_nl s = true /\ skip_go true s = "").
Proof.
  induction s as [|c r IH]; [right; auto|]. cbn [skip_go].
  destruct (Ascii.eqb c c_nl) eqn:E.
  - apply Ascii.eqb_eq in E. subst c. left. exists "", r. auto.
  - cbn [negb]. destruct IH as [(b & s' & Hb & -> & Hs)|[Hn Hs]].
    + left. exists (String c b), s'. cbn [no_char append]. rewrite E, Hb. auto.
    + right. cbn [no_char]. rewrite E, Hn. auto.
Qed.

Lemma is_ws_inv c : is_ws c = true -> exists i, (i = IgSpace \/ i = IgTab \/ i = IgFf \/ i = IgNl) /\ forall k, ign_k i k = String c k.
Proof.
  unfold is_ws. intros H. repeat (apply orb_true_iff in H; destruct H as [H|H]); apply Ascii.eqb_eq in H; subst c.
  - exists IgSpace. auto.
  - exists IgTab. auto.
  - exists IgFf. auto.
  - exists IgNl. auto 6.
Qed.

Definition skip_shape (s : string) : Prop :=
  exists t, tr_ok t = true /\
    ((s = sep_k t (skip s) /\ starts_trivia (skip s) = false) \/
     (skip s = "" /\ exists b, no_char c_nl b = true /\ s = sep_k t (String c_slash (String c_slash b)))).

Lemma skip_inv_n n : forall s, String.length s <= n -> skip_shape s.
Proof.
  induction n as [|n IH]; intros s L.
  - destruct s; [|simpl in L; lia]. exists []. split; auto.
  - destruct s as [|c r]. { exists []. split; auto. }
    simpl in L. unfold skip_shape, skip. cbn [skip_go].
    destruct (is_ws c) eqn:W.
    + destruct (is_ws_inv c W) as (i & Hi & Ei).
      destruct (IH r ltac:(lia)) as (t & Ht & Hs). exists (i :: t). split.
      * cbn [tr_ok forallb]. fold (tr_ok t). rewrite Ht. now destruct Hi as [ -> | [ -> | [ -> | -> ]]].
      * cbn [sep_k]. rewrite Ei. unfold skip in Hs. destruct Hs as [[E1 E2]|[E1 (b & Hb & E2)]].
        -- left. split; auto. now rewrite <- E1.
        -- right. split; auto. exists b. split; auto. now rewrite <- E2.
    + destruct (Ascii.eqb c c_cr) eqn:C1.
      { apply Ascii.eqb_eq in C1. subst c. destruct r as [|c2 r2].
        - exists []. split; auto.
        - destruct (Ascii.eqb c2 c_nl) eqn:C2.
          + apply Ascii.eqb_eq in C2. subst c2. simpl in L.
            destruct (IH r2 ltac:(lia)) as (t & Ht & Hs). exists (IgCrNl :: t). split.
            * cbn [tr_ok forallb ign_ok andb]. exact Ht.
            * cbn [sep_k ign_k]. unfold skip in Hs. destruct Hs as [[E1 E2]|[E1 (b & Hb & E2)]].
              -- left. split; auto. now rewrite <- E1.
              -- right. split; auto. exists b. split; auto. now rewrite <- E2.
          + exists []. split; [reflexivity|]. left. split; [reflexivity|]. cbn. now rewrite ?C2. }
      destruct (Ascii.eqb c c_slash) eqn:C3.
      { apply Ascii.eqb_eq in C3. subst c. destruct r as [|c2 r2].
        - exists []. split; auto.
        - destruct (Ascii.eqb c2 c_slash) eqn:C2.
          + apply Ascii.eqb_eq in C2. subst c2. simpl in L.
            destruct (skip_com_inv r2) as [(b & s' & Hb & -> & Hs)|[Hn Hs]].
            * rewrite Hs. assert (L' : String.length s' <= n). { rewrite slen_app in L. simpl in L. lia. }
              destruct (IH s' L') as (t & Ht & Hs'). exists (IgComment b :: t). split.
              -- cbn [tr_ok forallb ign_ok]. fold (tr_ok t). now rewrite Hb, Ht.
              -- cbn [sep_k ign_k]. unfold skip in Hs'. destruct Hs' as [[E1 E2]|[E1 (b' & Hb' & E2)]].
                 ++ left. split; auto. now rewrite <- E1.
                 ++ right. split; auto. exists b'. split; auto. now rewrite <- E2.
            * rewrite Hs. exists []. split; auto. right. split; auto. exists r2. auto.
          + exists []. split; [reflexivity|]. left. split; [reflexivity|]. cbn. rewrite ?C2. now rewrite ?andb_false_r. }
      exists []. split; [reflexivity|]. left. split; [reflexivity|]. cbn [starts_trivia]. rewrite W, C1, C3. cbn. now destruct r.
Qed.
Lemma skip_inv s : skip_shape s.
Proof. apply (skip_inv_n (String.length s)). lia. Qed.

(** a reader that needs a token: the text is ignored text followed by what skip left *)
Lemma skip_inv_tok s c r : skip s = String c r -> exists t, tr_ok t = true /\ s = sep_k t (String c r) /\ starts_trivia (String c r) = false.
Proof.
  intros E. destruct (skip_inv s) as (t & Ht & [[E1 E2]|[E1 _]]).
  - exists t. rewrite <- E. auto.
  - rewrite E in E1. discriminate.
Qed.

Lemma strip_prefix_inv k s r : strip_prefix k s = Some r -> s = k ++ r.
Proof.
  revert s. induction k as [|a k IH]; intros s H; simpl in H.
  - now injection H as ->.
  - destruct s as [|b s]; [discriminate|]. destruct (Ascii.eqb a b) eqn:E; [|discriminate].
    apply Ascii.eqb_eq in E. subst. simpl. f_equal. auto.
Qed.

Lemma expect_inv k s r : k <> "" -> expect k s = Some r -> exists t, tr_ok t = true /\ s = sep_k t (k ++ r).
Proof.
  intros N H. unfold expect in H. apply strip_prefix_inv in H.
  destruct k as [|a k]; [congruence|]. simpl in H. destruct (skip_inv_tok _ _ _ H) as (t & Ht & E & _).
  exists t. split; auto.
Qed.

Lemma next_is_inv c s : next_is c s = true -> exists t r, tr_ok t = true /\ s = sep_k t (String c r).
Proof.
  unfold next_is. destruct (skip s) as [|c' r] eqn:E; [discriminate|]. intros H. apply Ascii.eqb_eq in H. subst c'.
  destruct (skip_inv_tok _ _ _ E) as (t & Ht & E' & _). eauto.
Qed.

Lemma until_quote_inv s q r : until_quote s = Some (q, r) -> no_char c_dq q = true /\ s = q ++ String c_dq r.
Proof.
  revert q. induction s as [|c s IH]; intros q H; simpl in H; [discriminate|].
  destruct (Ascii.eqb c c_dq) eqn:E.
  - injection H as <- <-. apply Ascii.eqb_eq in E. subst. auto.
  - destruct (until_quote s) as [[a r']|]; [|discriminate]. injection H as <- <-.
    destruct (IH a eq_refl) as [H1 ->]. simpl. rewrite E. auto.
Qed.

Lemma p_quoted_inv s q r : p_quoted s = Some (q, r) -> exists x, qt_ok x = true /\ q_s x = q /\ s = pr_qt x r.
Proof.
  unfold p_quoted. destruct (skip s) as [|c s'] eqn:E; [discriminate|].
  destruct (Ascii.eqb c c_dq) eqn:C; [|discriminate]. apply Ascii.eqb_eq in C. subst c. intros H.
  destruct (until_quote_inv _ _ _ H) as [Hq ->]. destruct (skip_inv_tok _ _ _ E) as (t & Ht & E' & _).
  exists {| q_tr := t; q_s := q |}. unfold qt_ok, pr_qt. cbn [q_tr q_s]. rewrite Ht, Hq. auto.
Qed.

Lemma span_inv p s a r : span p s = (a, r) -> all_chars p a = true /\ hd_not p r /\ s = a ++ r.
Proof.
  revert a. induction s as [|c s IH]; intros a H; simpl in H.
  - injection H as <- <-. simpl. auto.
  - destruct (p c) eqn:E.
    + destruct (span p s) as [a' r']. injection H as <- <-. destruct (IH a' eq_refl) as (H1 & H2 & ->).
      simpl. rewrite E. auto.
    + injection H as <- <-. simpl. auto.
Qed.

Lemma p_run_inv p s n r : p_run p s = Some (n, r) ->
  exists t, tr_ok t = true /\ run_ok p n = true /\ hd_not p r /\ starts_trivia (n ++ r) = false /\ s = sep_k t (n ++ r).
Proof.
  unfold p_run. destruct (span p (skip s)) as [a r'] eqn:E. destruct a as [|c a]; [discriminate|]. intros [= <- <-].
  destruct (span_inv _ _ _ _ E) as (H1 & H2 & E').
  change (String c a ++ r') with (String c (a ++ r')) in E'. destruct (skip_inv_tok _ _ _ E') as (t & Ht & Es & T).
  exists t. repeat split; auto.
Qed.

Lemma p_userkw_inv s r : p_userkw s = Some r -> exists t w, tr_ok t = true /\ all_chars is_letter w = true /\ s = sep_k t (w ++ String c_semi r).
Proof.
  unfold p_userkw. destruct (span is_letter (skip s)) as [a r'] eqn:E. cbn [snd].
  destruct r' as [|c r'']; [discriminate|]. destruct (Ascii.eqb c c_semi) eqn:C; [|discriminate]. intros [= <-].
  apply Ascii.eqb_eq in C. subst c. destruct (span_inv _ _ _ _ E) as (H1 & _ & E').
  destruct (a ++ String c_semi r'') as [|c0 r0] eqn:E0. { destruct a; discriminate. }
  destruct (skip_inv_tok _ _ _ E') as (t & Ht & Es & _). exists t, a. rewrite E0. auto.
Qed.

(** ignored blocks *)
Definition rest_ok (d : nat) (l : list (ibrace * iseg)) : Prop :=
  forallb (fun p => seg_ok (snd p)) l = true /\ balanced d l = true.
Definition seg0 : iseg := {| is_tr := []; is_nob := "" |}.

Definition scanA (d : nat) (s r : string) : Prop :=
  exists g l, seg_ok g = true /\ rest_ok d l /\ s = pr_seg g (pr_list pr_bseg l (String c_rb r)).
Definition scanB (d : nat) (s r : string) : Prop :=
  exists nb l, no_char c_lb nb = true /\ no_char c_rb nb = true /\ rest_ok d l /\ s = nb ++ pr_list pr_bseg l (String c_rb r).
Definition scanC (d : nat) (s r : string) : Prop :=
  exists b g l, no_char c_nl b = true /\ seg_ok g = true /\ rest_ok d l /\ s = b ++ String c_nl (pr_seg g (pr_list pr_bseg l (String c_rb r))).

Lemma scan_brace d c s' r (m : imode) :
  m <> ICom -> is_brace c = true ->
  (forall d', ign_scan d' IStart s' = Some r -> scanA d' s' r) ->
  ign_scan d m (String c s') = Some r ->
  exists l, rest_ok d l /\ String c s' = pr_list pr_bseg l (String c_rb r).
Proof.
  intros Nm Hc IH H. assert (H' : ign_scan d IStart (String c s') = Some r).
  { destruct m; try congruence. now rewrite <- ign_scan_brace. }
  clear H. unfold is_brace in Hc. cbn [ign_scan] in H'.
  destruct (Ascii.eqb c c_lb) eqn:E1.
  - apply Ascii.eqb_eq in E1. subst c. destruct (IH _ H') as (g & l & Hg & [Hl Hb] & ->).
    exists ((IOpen, g) :: l). split; [split|]; cbn [forallb snd balanced pr_list]; auto. now rewrite Hg.
  - cbn [orb] in Hc. rewrite Hc in H'. apply Ascii.eqb_eq in Hc. subst c. destruct d as [|d'].
    + injection H' as ->. exists []. split; [split|]; auto.
    + destruct (IH _ H') as (g & l & Hg & [Hl Hb] & ->).
      exists ((IClose, g) :: l). split; [split|]; cbn [forallb snd balanced pr_list]; auto. now rewrite Hg.
Qed.

Lemma hd_pr_list_brace l r : exists c k, pr_list pr_bseg l (String c_rb r) = String c k /\ is_brace c = true.
Proof.
  destruct l as [|[b g] l]; cbn [pr_list]; [now exists c_rb, r|].
  unfold pr_bseg. cbn [fst snd]. eexists _, _. split; [reflexivity|]. now destruct b.
Qed.

Lemma ign_scan_inv_n n : forall s, String.length s <= n -> forall d r,
  (ign_scan d IStart s = Some r -> scanA d s r) /\
  (ign_scan d INob s = Some r -> scanB d s r) /\
  (ign_scan d ICom s = Some r -> scanC d s r).
Proof.
  induction n as [|n IH]; intros s L d r.
  { destruct s; [|simpl in L; lia]. repeat split; discriminate. }
  destruct s as [|c s']; [repeat split; discriminate|]. simpl in L.
  assert (IHA : forall d', ign_scan d' IStart s' = Some r -> scanA d' s' r) by (intros d'; apply IH; lia).
  assert (IHB : forall d', ign_scan d' INob s' = Some r -> scanB d' s' r) by (intros d'; apply IH; lia).
  assert (IHC : forall d', ign_scan d' ICom s' = Some r -> scanC d' s' r) by (intros d'; apply IH; lia).
  destruct (is_brace c) eqn:Bc.
  { split; [|split].
    - intros H. destruct (scan_brace d c s' r IStart ltac:(discriminate) Bc IHA H) as (l & Hl & E).
      exists seg0, l. repeat split; auto. apply Hl. apply Hl.
    - intros H. destruct (scan_brace d c s' r INob ltac:(discriminate) Bc IHA H) as (l & Hl & E).
      exists "", l. repeat split; auto. apply Hl. apply Hl.
    - intros H. cbn [ign_scan] in H. destruct (brace_not_special c Bc) as (_ & _ & _ & N). rewrite N in H.
      destruct (IHC _ H) as (b & g & l & Hb & Hg & Hl & ->). exists (String c b), g, l. cbn [no_char]. rewrite N, Hb. auto. }
  unfold is_brace in Bc. apply orb_false_iff in Bc. destruct Bc as [B1 B2].
  split; [|split].
  - (* IStart *)
    intros H. cbn [ign_scan] in H. rewrite B1, B2 in H.
    destruct (is_ws c) eqn:W.
    { destruct (is_ws_inv c W) as (i & Hi & Ei). destruct (IHA _ H) as (g & l & Hg & Hl & ->).
      exists {| is_tr := i :: is_tr g; is_nob := is_nob g |}, l. repeat split; auto; try apply Hl.
      - unfold seg_ok in *. cbn [is_tr is_nob tr_ok forallb]. fold (tr_ok (is_tr g)).
        apply andb_true_iff in Hg. destruct Hg as [-> ->]. now destruct Hi as [ -> | [ -> | [ -> | -> ]]].
      - unfold pr_seg. cbn [is_tr is_nob sep_k]. now rewrite Ei. }
    assert (NOB : forall nb l, no_char c_lb nb = true -> no_char c_rb nb = true -> rest_ok d l ->
                  starts_trivia (String c nb) = false ->
                  scanA d (String c (nb ++ pr_list pr_bseg l (String c_rb r))) r).
    { intros nb l N1 N2 Hl T. exists {| is_tr := []; is_nob := String c nb |}, l. repeat split; try apply Hl.
      unfold seg_ok, nob_ok. cbn [is_tr is_nob tr_ok forallb no_char andb]. now rewrite B1, B2, N1, N2, T. }
    destruct (Ascii.eqb c c_cr) eqn:C1.
    { destruct s' as [|c2 r2]; [discriminate|]. destruct (Ascii.eqb c2 c_nl) eqn:C2.
      - apply Ascii.eqb_eq in C1, C2. subst c c2. simpl in L.
        destruct (IH r2 ltac:(lia) d r) as (HA & _ & _). destruct (HA H) as (g & l & Hg & Hl & ->).
        exists {| is_tr := IgCrNl :: is_tr g; is_nob := is_nob g |}, l. repeat split; auto; try apply Hl.
      - destruct (IHB _ H) as (nb & l & N1 & N2 & Hl & E). rewrite E. apply NOB; auto.
        apply Ascii.eqb_eq in C1. subst c. destruct nb as [|c3 nb']; [reflexivity|].
        cbn [append] in E. injection E as <- _. cbn [starts_trivia]. rewrite C2. reflexivity. }
    destruct (Ascii.eqb c c_slash) eqn:C3.
    { destruct s' as [|c2 r2]; [discriminate|]. destruct (Ascii.eqb c2 c_slash) eqn:C2.
      - apply Ascii.eqb_eq in C3, C2. subst c c2. simpl in L.
        destruct (IH r2 ltac:(lia) d r) as (_ & _ & HC). destruct (HC H) as (b & g & l & Hb & Hg & Hl & ->).
        exists {| is_tr := IgComment b :: is_tr g; is_nob := is_nob g |}, l. repeat split; auto; try apply Hl.
        unfold seg_ok in *. cbn [is_tr is_nob tr_ok forallb ign_ok]. fold (tr_ok (is_tr g)). now rewrite Hb.
      - destruct (IHB _ H) as (nb & l & N1 & N2 & Hl & E). rewrite E. apply NOB; auto.
        apply Ascii.eqb_eq in C3. subst c. destruct nb as [|c3 nb']; [reflexivity|].
        cbn [append] in E. injection E as <- _. cbn [starts_trivia]. rewrite C2. reflexivity. }
    destruct (IHB _ H) as (nb & l & N1 & N2 & Hl & ->). apply NOB; auto.
    cbn [starts_trivia]. rewrite W, C1, C3. cbn. now destruct nb.
  - (* INob *)
    intros H. cbn [ign_scan] in H. rewrite B1, B2 in H.
    destruct (IHB _ H) as (nb & l & N1 & N2 & Hl & ->). exists (String c nb), l. cbn [no_char]. rewrite B1, B2, N1, N2. auto.
  - (* ICom *)
    intros H. cbn [ign_scan] in H. destruct (Ascii.eqb c c_nl) eqn:N.
    + apply Ascii.eqb_eq in N. subst c. destruct (IHA _ H) as (g & l & Hg & Hl & ->). exists "", g, l. auto.
    + destruct (IHC _ H) as (b & g & l & Hb & Hg & Hl & ->). exists (String c b), g, l. cbn [no_char]. rewrite N, Hb. auto.
Qed.

Lemma p_ignore_inv s r : p_ignore s = Some r -> exists t b, tr_ok t = true /\ iblock_ok b = true /\ s = sep_k t (pr_iblock b r).
Proof.
  unfold p_ignore. destruct (skip s) as [|c s'] eqn:E; [discriminate|].
  destruct (Ascii.eqb c c_lb) eqn:C; [|discriminate]. apply Ascii.eqb_eq in C. subst c. intros H.
  destruct (ign_scan_inv_n (String.length s') s' (le_n _) 0 r) as (HA & _). destruct (HA H) as (g & l & Hg & [Hl Hb] & ->).
  destruct (skip_inv_tok _ _ _ E) as (t & Ht & E' & _).
  exists t, {| ib_first := g; ib_rest := l |}. unfold iblock_ok, pr_iblock. cbn [ib_first ib_rest]. rewrite Hg, Hl, Hb. auto.
Qed.

(** x* *)
Lemma many_f_inv {A D} (pr : D -> string -> string) (sem : D -> A) (ok : D -> bool) (start : string -> bool) (item : string -> res A) :
  (forall s a r, item s = Some (a, r) -> exists d, ok d = true /\ sem d = a /\ s = pr d r) ->
  forall fuel s l r, many_f fuel start item s = Some (l, r) ->
  exists ds, forallb ok ds = true /\ map sem ds = l /\ s = pr_list pr ds r /\ start r = false.
Proof.
  intros Hi fuel. induction fuel as [|f IH]; intros s l r H; [discriminate|]. cbn [many_f] in H.
  destruct (start s) eqn:S.
  - destruct (item s) as [[a s1]|] eqn:I; [|discriminate]. destruct (many_f f start item s1) as [[l' r']|] eqn:M; [|discriminate].
    injection H as <- <-. destruct (Hi _ _ _ I) as (d & Hd & <- & ->). destruct (IH _ _ _ M) as (ds & Hds & <- & -> & Sr).
    exists (d :: ds). cbn [forallb map pr_list]. rewrite Hd, Hds. auto.
  - injection H as <- <-. exists []. auto.
Qed.
Lemma many_inv {A D} (pr : D -> string -> string) (sem : D -> A) (ok : D -> bool) (start : string -> bool) (item : string -> res A) s l r :
  (forall s a r, item s = Some (a, r) -> exists d, ok d = true /\ sem d = a /\ s = pr d r) ->
  many start item s = Some (l, r) ->
  exists ds, forallb ok ds = true /\ map sem ds = l /\ s = pr_list pr ds r /\ start r = false.
Proof. intros Hi H. unfold many in H. eapply many_f_inv; eauto. Qed.

Lemma first_kw_inv {T} (kws : list (string * T)) x t r : first_kw kws x = Some (t, r) -> exists k, In (k, t) kws /\ x = k ++ r.
Proof.
  induction kws as [|[k t'] kws IH]; [discriminate|]. cbn [first_kw].
  destruct (strip_prefix k x) as [r'|] eqn:E.
  - intros [= <- <-]. exists k. split; [now left|]. now apply strip_prefix_inv.
  - intros H. destruct (IH H) as (k' & I & ->). exists k'. split; auto. now right.
Qed.
Lemma first_kw_skip_inv {T} (kws : list (string * T)) s t r :
  (forall k t, In (k, t) kws -> k <> "") -> first_kw kws (skip s) = Some (t, r) ->
  exists k tr, In (k, t) kws /\ tr_ok tr = true /\ s = sep_k tr (k ++ r).
Proof.
  intros Ne H. destruct (first_kw_inv _ _ _ _ H) as (k & I & E).
  destruct k as [|c k]; [exfalso; eapply Ne; eauto|]. cbn [append] in E.
  destruct (skip_inv_tok _ _ _ E) as (tr & Ht & Es & _). exists (String c k), tr. auto.
Qed.

Ltac exp_inv E t Ht := match type of E with
  | expect ?k ?s = Some ?r => destruct (expect_inv k s r ltac:(discriminate) E) as (t & Ht & ->)
  end.
Ltac bind_inv H x E := match type of H with
  | bind ?o _ = Some _ => destruct o as [x|] eqn:E; cbn [bind] in H; [|discriminate]
  end.

(* signal groups *)
Lemma p_plus_inv s a r : p_plus s = Some (a, r) ->
  exists m : trivia * qt, tr_ok (fst m) && qt_ok (snd m) = true /\ q_s (snd m) = a /\ s = pr_more m r.
Proof.
  unfold p_plus. intros H. bind_inv H s1 E1. exp_inv E1 t Ht.
  destruct (p_quoted_inv _ _ _ H) as (q & Hq & <- & ->). exists (t, q). cbn [fst snd]. rewrite Ht, Hq. auto.
Qed.

Lemma skip_semi r : skip (String c_semi r) = String c_semi r.
Proof. apply skip_id. now destruct r. Qed.

Lemma p_group_inv s a r : p_group s = Some (a, r) -> exists g, group_ok g = true /\ group_ast g = a /\ s = pr_group g r.
Proof.
  unfold p_group. intros H.
  bind_inv H x1 E1. destruct x1 as [name s1]. destruct (p_quoted_inv _ _ _ E1) as (qn & Hqn & <- & ->).
  bind_inv H s2 E2. exp_inv E2 teq Hteq.
  bind_inv H s3 E3. exp_inv E3 tap Htap.
  bind_inv H x4 E4. destruct x4 as [m0 s4]. destruct (p_quoted_inv _ _ _ E4) as (q0 & Hq0 & <- & ->).
  bind_inv H x5 E5. destruct x5 as [ms s5].
  destruct (many_inv pr_more (fun m => q_s (snd m)) (fun m => tr_ok (fst m) && qt_ok (snd m)) _ _ _ _ _ p_plus_inv E5) as (more & Hmore & <- & -> & _).
  bind_inv H s6 E6. exp_inv E6 tcl Htcl.
  bind_inv H s7 E7. injection H as <- <-.
  assert (IG : exists oi, oign_ok oi = true /\ s6 = pr_oign oi s7).
  { destruct (next_is c_lb s6) eqn:N.
    - destruct (p_ignore_inv _ _ E7) as (t & b & Ht & Hb & ->). exists (Some (t, b)). cbn [oign_ok pr_oign]. rewrite Ht, Hb. auto.
    - injection E7 as ->. exists None. auto. }
  destruct IG as (oi & Hoi & ->).
  assert (SM : exists os, otr_ok os = true /\
               s7 = pr_osemi os (if next_is c_semi s7 then match skip s7 with "" => s7 | String _ r0 => r0 end else s7)).
  { destruct (next_is c_semi s7) eqn:N.
    - destruct (next_is_inv _ _ N) as (t & r' & Ht & ->). exists (Some t). cbn [otr_ok pr_osemi]. split; auto.
      rewrite skip_sep by exact Ht. now rewrite skip_semi.
    - exists None. auto. }
  destruct SM as (os & Hos & E).
  exists {| g_name := qn; g_eq := teq; g_ap := tap; g_first := q0; g_more := more; g_cl := tcl; g_ign := oi; g_semi := os |}.
  unfold group_ok, group_ast, pr_group. cbn [g_name g_eq g_ap g_first g_more g_cl g_ign g_semi].
  rewrite Hqn, Hteq, Htap, Hq0, Hmore, Htcl, Hoi, Hos. repeat split. now rewrite <- E.
Qed.

(* scan chains *)
Lemma p_cell_inv s a r : p_cell s = Some (a, r) -> exists c, cell_ok c = true /\ cell_ast c = a /\ s = pr_cell c r.
Proof.
  unfold p_cell. destruct (next_is c_bang s) eqn:N.
  - destruct (next_is_inv _ _ N) as (t & r' & Ht & ->). rewrite skip_sep by exact Ht.
    assert (S : skip (String c_bang r') = String c_bang r') by (apply skip_id; now destruct r'). rewrite S.
    intros [= <- <-]. exists (CBang t). auto.
  - intros H. destruct (p_quoted_inv _ _ _ H) as (q & Hq & <- & ->). exists (CQ q). auto.
Qed.

Lemma chain_kws_ne k t : In (k, t) chain_kws -> k <> "".
Proof. unfold chain_kws. simpl. intros H. repeat (destruct H as [[= <- _]|H]; [discriminate|]). contradiction. Qed.
Lemma pattern_kws_ne k t : In (k, t) pattern_kws -> k <> "".
Proof. unfold pattern_kws. simpl. intros H. repeat (destruct H as [[= <- _]|H]; [discriminate|]). contradiction. Qed.
Lemma block_kws_ne k t : In (k, t) block_kws -> k <> "".
Proof. unfold block_kws. simpl. intros H. repeat (destruct H as [[= <- _]|H]; [discriminate|]). contradiction. Qed.

Lemma p_citem_inv s a r : p_citem s = Some (a, r) -> exists i, citem_ok i = true /\ citem_ast i = a /\ s = pr_citem i r.
Proof.
  unfold p_citem. intros H. bind_inv H x1 E1. destruct x1 as [kw s1].
  destruct (first_kw_skip_inv _ _ _ _ chain_kws_ne E1) as (k & t & I & Ht & ->).
  unfold chain_kws in I. simpl in I.
  destruct I as [[= <- <-]|[[= <- <-]|[[= <- <-]|[[= <- <-]|[[= <- <-]|[[= <- <-]|[]]]]]]].
  - bind_inv H x2 E2. destruct x2 as [q s2]. destruct (p_quoted_inv _ _ _ E2) as (qq & Hq & <- & ->).
    bind_inv H s3 E3. exp_inv E3 ts Hts. injection H as <- <-. exists (KClock t qq ts). cbn [citem_ok]. rewrite Ht, Hq, Hts. auto.
  - bind_inv H x2 E2. destruct x2 as [n s2]. destruct (p_run_inv _ _ _ _ E2) as (tn & Htn & Hn & _ & _ & ->).
    bind_inv H s3 E3. exp_inv E3 ts Hts. injection H as <- <-. exists (KInversion t tn n ts). cbn [citem_ok]. rewrite Ht, Htn, Hn, Hts. auto.
  - bind_inv H x2 E2. destruct x2 as [n s2]. destruct (p_run_inv _ _ _ _ E2) as (tn & Htn & Hn & _ & _ & ->).
    bind_inv H s3 E3. exp_inv E3 ts Hts. injection H as <- <-. exists (KLength t tn n ts). cbn [citem_ok]. rewrite Ht, Htn, Hn, Hts. auto.
  - bind_inv H x2 E2. destruct x2 as [l s2].
    destruct (many_inv pr_cell cell_ast cell_ok _ _ _ _ _ p_cell_inv E2) as (cells & Hc & <- & -> & _).
    bind_inv H s3 E3. exp_inv E3 ts Hts. injection H as <- <-. exists (KCells t cells ts). cbn [citem_ok]. rewrite Ht, Hc, Hts. auto.
  - bind_inv H x2 E2. destruct x2 as [q s2]. destruct (p_quoted_inv _ _ _ E2) as (qq & Hq & <- & ->).
    bind_inv H s3 E3. exp_inv E3 ts Hts. injection H as <- <-. exists (KOut t qq ts). cbn [citem_ok]. rewrite Ht, Hq, Hts. auto.
  - bind_inv H x2 E2. destruct x2 as [q s2]. destruct (p_quoted_inv _ _ _ E2) as (qq & Hq & <- & ->).
    bind_inv H s3 E3. exp_inv E3 ts Hts. injection H as <- <-. exists (KIn t qq ts). cbn [citem_ok]. rewrite Ht, Hq, Hts. auto.
Qed.

Lemma p_chain_inv s a r : p_chain s = Some (a, r) -> exists c, chain_ok c = true /\ chain_ast c = a /\ s = pr_chain c r.
Proof.
  unfold p_chain. intros H.
  bind_inv H s1 E1. exp_inv E1 t Ht.
  bind_inv H x2 E2. destruct x2 as [name s2]. destruct (p_quoted_inv _ _ _ E2) as (q & Hq & <- & ->).
  bind_inv H s3 E3. exp_inv E3 to Hto.
  bind_inv H x4 E4. destruct x4 as [items s4].
  destruct (many_inv pr_citem citem_ast citem_ok _ _ _ _ _ p_citem_inv E4) as (its & Hi & <- & -> & _).
  bind_inv H s5 E5. exp_inv E5 tc Htc. injection H as <- <-.
  exists {| c_tr := t; c_name := q; c_op := to; c_items := its; c_cl := tc |}.
  unfold chain_ok, chain_ast, pr_chain. cbn [c_tr c_name c_op c_items c_cl]. rewrite Ht, Hq, Hto, Hi, Htc. auto.
Qed.

(* call parameters *)
Lemma starts_trivia_prefix n k : n <> "" -> starts_trivia (n ++ String c_semi k) = false -> starts_trivia n = false.
Proof.
  destruct n as [|a n]; [congruence|]. intros _. cbn [append starts_trivia].
  destruct n as [|b n]; cbn [append]; intros H.
  - apply orb_false_iff in H. destruct H as [-> _]. reflexivity.
  - exact H.
Qed.

Lemma p_param_inv s a r : p_param s = Some (a, r) -> exists p, param_ok p = true /\ param_ast p = a /\ s = pr_param p r.
Proof.
  unfold p_param. intros H.
  bind_inv H x1 E1. destruct x1 as [name s1]. destruct (p_quoted_inv _ _ _ E1) as (q & Hq & <- & ->).
  bind_inv H s2 E2. exp_inv E2 teq Hteq.
  bind_inv H x3 E3. destruct x3 as [v s3]. destruct (p_run_inv _ _ _ _ E3) as (tl & Htl & Hv & Hs3 & Tv & ->).
  bind_inv H s4 E4. injection H as <- <-.
  unfold expect in E4. apply strip_prefix_inv in E4.
  assert (S3 : s3 = String c_semi s4).
  { destruct s3 as [|c s3']; [discriminate|]. cbn [hd_not] in Hs3. unfold not_semi in Hs3. apply negb_false_iff in Hs3.
    apply Ascii.eqb_eq in Hs3. subst c. rewrite skip_semi in E4. exact E4. }
  subst s3.
  exists {| pa_name := q; pa_eq := teq; pa_lead := tl; pa_val := v |}.
  unfold param_ok, param_ast, pr_param, val_ok. cbn [pa_name pa_eq pa_lead pa_val]. rewrite Hq, Hteq, Htl, Hv.
  rewrite (starts_trivia_prefix v s4); auto. intros ->. discriminate.
Qed.

(* pattern statements *)
Lemma p_pitem_inv s a r : p_pitem s = Some (a, r) -> exists i, pitem_ok i = true /\ pitem_ast i = a /\ s = pr_pitem i r.
Proof.
  unfold p_pitem. destruct (next_is c_dq s) eqn:N; intros H.
  - bind_inv H x1 E1. destruct x1 as [q s1]. destruct (p_quoted_inv _ _ _ E1) as (qq & Hq & _ & ->).
    bind_inv H s2 E2. exp_inv E2 tc Htc. injection H as <- <-. exists (ILabel qq tc). cbn [pitem_ok]. rewrite Hq, Htc. auto.
  - bind_inv H x1 E1. destruct x1 as [kw s1].
    destruct (first_kw_skip_inv _ _ _ _ pattern_kws_ne E1) as (k & t & I & Ht & ->).
    unfold pattern_kws in I. simpl in I.
    destruct I as [[= <- <-]|[[= <- <-]|[[= <- <-]|[[= <- <-]|[[= <- <-]|[]]]]]].
    + bind_inv H x2 E2. destruct x2 as [q s2]. destruct (p_quoted_inv _ _ _ E2) as (qq & Hq & _ & ->).
      bind_inv H s3 E3. exp_inv E3 ts Hts. injection H as <- <-. exists (IMacro t qq ts). cbn [pitem_ok]. rewrite Ht, Hq, Hts. auto.
    + bind_inv H x2 E2. destruct x2 as [name s2]. destruct (p_quoted_inv _ _ _ E2) as (qq & Hq & <- & ->).
      bind_inv H s3 E3. exp_inv E3 to Hto.
      bind_inv H x4 E4. destruct x4 as [ps s4].
      destruct (many_inv pr_param param_ast param_ok _ _ _ _ _ p_param_inv E4) as (pars & Hp & <- & -> & _).
      bind_inv H s5 E5. exp_inv E5 tc Htc. injection H as <- <-.
      exists (ICall t qq to pars tc). cbn [pitem_ok]. rewrite Ht, Hq, Hto, Hp, Htc. auto.
    + bind_inv H s2 E2. destruct (p_ignore_inv _ _ E2) as (ti & b & Hti & Hb & ->). injection H as <- <-.
      exists (IAnn t ti b). cbn [pitem_ok]. rewrite Ht, Hti, Hb. auto.
    + bind_inv H x2 E2. destruct x2 as [q s2]. destruct (p_quoted_inv _ _ _ E2) as (qq & Hq & _ & ->).
      bind_inv H s3 E3. exp_inv E3 ts Hts. injection H as <- <-. exists (IW t qq ts). cbn [pitem_ok]. rewrite Ht, Hq, Hts. auto.
    + bind_inv H s2 E2. destruct (p_ignore_inv _ _ E2) as (ti & b & Hti & Hb & ->). injection H as <- <-.
      exists (IC t ti b). cbn [pitem_ok]. rewrite Ht, Hti, Hb. auto.
Qed.

(* blocks *)
Lemma p_block_inv s a r : p_block s = Some (a, r) -> exists b, block_ok b = true /\ block_ast b = a /\ s = pr_block b r.
Proof.
  unfold p_block. intros H. bind_inv H x1 E1. destruct x1 as [kw s1].
  destruct (first_kw_skip_inv _ _ _ _ block_kws_ne E1) as (k & t & I & Ht & ->).
  assert (IGN : forall ik, kw = KwIgnored -> k = ikw_text ik -> exists b, block_ok b = true /\ block_ast b = a /\ sep_k t (k ++ s1) = pr_block b r).
  { intros ik -> ->. bind_inv H s2 E2. destruct (p_ignore_inv _ _ E2) as (ti & b & Hti & Hb & ->). injection H as <- <-.
    exists (BkIgn t ik ti b). cbn [block_ok]. rewrite Ht, Hti, Hb. auto. }
  unfold block_kws in I. simpl in I.
  destruct I as [[= <- <-]|[[= <- <-]|[[= <- <-]|[[= <- <-]|[[= <- <-]|[[= <- <-]|[[= <- <-]|[[= <- <-]|[[= <- <-]|[[= <- <-]|[[= <- <-]|[]]]]]]]]]]]].
  - bind_inv H s2 E2. exp_inv E2 to Hto.
    bind_inv H x3 E3. destruct x3 as [cs s3].
    destruct (many_inv pr_chain chain_ast chain_ok _ _ _ _ _ p_chain_inv E3) as (chs & Hc & <- & -> & _).
    bind_inv H s4 E4. exp_inv E4 tc Htc. injection H as <- <-.
    exists (BkChains t to chs tc). cbn [block_ok]. rewrite Ht, Hto, Hc, Htc. auto.
  - bind_inv H x2 E2. destruct x2 as [q s2]. destruct (p_quoted_inv _ _ _ E2) as (qq & Hq & _ & ->).
    bind_inv H s3 E3. destruct (p_ignore_inv _ _ E3) as (ti & b & Hti & Hb & ->). injection H as <- <-.
    exists (BkBurst t qq ti b). cbn [block_ok]. rewrite Ht, Hq, Hti, Hb. auto.
  - bind_inv H s2 E2. exp_inv E2 to Hto.
    bind_inv H x3 E3. destruct x3 as [gs s3].
    destruct (many_inv pr_group group_ast group_ok _ _ _ _ _ p_group_inv E3) as (grs & Hg & <- & -> & _).
    bind_inv H s4 E4. exp_inv E4 tc Htc. injection H as <- <-.
    exists (BkGroups t to grs tc). cbn [block_ok]. rewrite Ht, Hto, Hg, Htc. auto.
  - bind_inv H s2 E2. destruct (p_userkw_inv _ _ E2) as (tw & w & Htw & Hw & ->). injection H as <- <-.
    exists (BkUser t tw w). cbn [block_ok]. rewrite Ht, Htw, Hw. auto.
  - now apply (IGN KPatternExec).
  - now apply (IGN KProcedures).
  - now apply (IGN KMacroDefs).
  - bind_inv H x2 E2. destruct x2 as [name s2]. destruct (p_quoted_inv _ _ _ E2) as (qq & Hq & <- & ->).
    bind_inv H s3 E3. exp_inv E3 to Hto.
    bind_inv H x4 E4. destruct x4 as [items s4].
    destruct (many_inv pr_pitem pitem_ast pitem_ok _ _ _ _ _ p_pitem_inv E4) as (its & Hi & <- & -> & _).
    bind_inv H s5 E5. exp_inv E5 tc Htc. injection H as <- <-.
    exists (BkPattern t qq to its tc). cbn [block_ok]. rewrite Ht, Hq, Hto, Hi, Htc. auto.
  - now apply (IGN KSignals).
  - now apply (IGN KHeader).
  - now apply (IGN KTiming).
Qed.

Theorem parse_ast_inv s a : parse_ast s = Some a -> exists f, file_ok f = true /\ file_ast f = a /\ s = pr_file f.
Proof.
  unfold parse_ast. intros H.
  bind_inv H s1 E1. exp_inv E1 t0 Ht0.
  bind_inv H x2 E2. destruct x2 as [ver s2]. destruct (p_run_inv _ _ _ _ E2) as (tv & Htv & Hv & _ & _ & ->).
  bind_inv H s3 E3.
  assert (HD : exists h, head_ok h = true /\ s2 = pr_head h s3).
  { destruct (next_is c_lb s2) eqn:N.
    - destruct (p_ignore_inv _ _ E3) as (ti & b & Hti & Hb & ->). exists (HIgn ti b). cbn [head_ok pr_head]. rewrite Hti, Hb. auto.
    - exp_inv E3 ts Hts. exists (HSemi ts). auto. }
  destruct HD as (h & Hh & ->).
  bind_inv H x4 E4. destruct x4 as [blocks s4].
  destruct (many_inv pr_block block_ast block_ok _ _ _ _ _ p_block_inv E4) as (bs & Hb & <- & -> & _).
  destruct (skip s4) eqn:E5; [|discriminate]. injection H as <-.
  destruct (skip_inv s4) as (te & Hte & [[E6 _]|[_ (b & Hbn & E6)]]).
  - rewrite E5 in E6. exists {| f_tr := t0; f_tv := tv; f_ver := ver; f_head := h; f_blocks := bs; f_end := te; f_tail := None |}.
    unfold file_ok, file_ast, pr_file. cbn [f_tr f_tv f_ver f_head f_blocks f_end f_tail tail_text].
    rewrite Ht0, Htv, Hv, Hh, Hb, Hte. repeat split. now rewrite <- E6.
  - exists {| f_tr := t0; f_tv := tv; f_ver := ver; f_head := h; f_blocks := bs; f_end := te; f_tail := Some b |}.
    unfold file_ok, file_ast, pr_file. cbn [f_tr f_tv f_ver f_head f_blocks f_end f_tail tail_text].
    rewrite Ht0, Htv, Hv, Hh, Hb, Hte, Hbn. repeat split. now rewrite <- E6.
Qed.

(** the accepted language: exactly the well-formed concrete syntax trees, read as the statements they were written from *)
Theorem parse_ast_iff s a : parse_ast s = Some a <-> exists f, file_ok f = true /\ file_ast f = a /\ s = pr_file f.
Proof.
  split; [apply parse_ast_inv|]. intros (f & Hf & <- & ->). now apply parse_ast_print.
Qed.
Theorem p_ignore_iff s r : p_ignore s = Some r <-> exists t b, tr_ok t = true /\ iblock_ok b = true /\ s = sep_k t (pr_iblock b r).
Proof.
  split; [apply p_ignore_inv|]. intros (t & b & Ht & Hb & ->). rewrite p_ignore_sep by exact Ht. now apply p_ignore_iblock.
Qed.

Theorem parse_stil_iff s sf : parse_stil s = Some sf <->
  exists f, file_ok f = true /\ s = pr_file f /\ transform (file_ast f) = SOk sf.
Proof.
  unfold parse_stil, stil_outcome. split.
  - destruct (parse_ast s) as [a|] eqn:E; [|discriminate]. destruct (parse_ast_inv _ _ E) as (f & Hf & <- & ->).
    destruct (transform (file_ast f)) eqn:T; try discriminate. intros [= <-]. exists f. auto.
  - intros (f & Hf & -> & T). rewrite parse_ast_print by exact Hf. now rewrite T.
Qed.

(* ---------------------------------------------------------------------------------------------- *)
(** * Examples *)
(** the scan design of Model/StilSpec.v (chain si -> f0 -> ! -> f1 -> f2 -> so) as a STIL text: hierarchical cell names, ignored
    blocks (one with a comment that swallows a brace), ignored statements, a CR LF line end, comments *)
Definition ex_text : string :=
  "// generated" ++ String c_cr (String c_nl "") ++
"STIL 1.0 { Design 2005; }
Header { Title ""x""; { // }
 } }
SignalGroups { ""_po"" = '""z"" + ""so""'; ""_pi"" = '""a"" +
   ""si""' { ScanIn; } // #signals=2
}
ScanStructures {
  ScanChain ""1"" { ScanLength 3; ScanIn ""si""; ScanOut ""so""; ScanInversion 1;
    ScanCells ""top.f0.SI"" ! ""top.f1.SI"" ""f2"" ; ScanMasterClock ""CLOCK"" ; }
}
Pattern ""_pattern_"" {
  W ""_default_WFT_"";
  ""pattern 0"": Call ""load_unload"" { ""si""=001; }
  Call ""allclock_launch"" { ""_pi""=1P; }
  Call ""allclock_capture"" { ""_pi""=0P; ""_po""=L
H; }
  Ann {* end *}
  Call ""load_unload"" { ""so""=LLH; }
}
// Patterns reference 4 V statements".

Definition ex_file : stil_file :=
  {| sf_version := "1.0"; sf_groups := Some ex_groups; sf_chains := ex_chains;
     sf_calls := [ {| call_name := "load_unload"; call_params := [("si", "001")] |};
                   {| call_name := "allclock_launch"; call_params := [("_pi", "1P")] |};
                   {| call_name := "allclock_capture"; call_params := [("_pi", "0P"); ("_po", String "L" (String c_nl "H"))] |};
                   {| call_name := "load_unload"; call_params := [("so", "LLH")] |} ] |}.

Example ex_parse : parse_stil ex_text = Some ex_file.
Proof. vm_compute. reflexivity. Qed.
Example ex_patterns : extract_patterns (sf_chains ex_file) (sf_calls ex_file) = [ex_pattern].
Proof. vm_compute. reflexivity. Qed.
Example ex_print : wf_file ex_file = true /\ parse_stil (print_stil ex_file) = Some ex_file.
Proof. split; [reflexivity|]. now apply parse_print. Qed.

(** text_scan_load_position instantiated on the text: cell f0 written "top.f0.SI" (no marker before it), load "001" *)
Example ex_text_load_f0 :
  exists q, dget (intf_pos (interface ex_circuit)) "f0" = Some q /\ q < 8 /\
            nth q [PPULSE; ZERO; UNASSIGNED; UNASSIGNED; ONE; ONE; ONE; UNASSIGNED] UNASSIGNED = ONE.
Proof.
  destruct (parse_ast ex_text) as [[ver blocks]|] eqn:PA; [|vm_compute in PA; discriminate].
  vm_compute in PA. injection PA as <- <-.
  refine (text_scan_load_position ex_text _ _ ex_file _ "1" _ "si" "so" ["top.f0.SI"; "!"; "top.f1.SI"; "f2"] [] "f0" ["!"; "f1"; "f2"]
            ex_circuit ex_maps ex_pattern _ "001" "1"%char _ ex_parse _ _ _ _ _ _ _ ex_wf ex_maps_ok _ _ _ _ _ ex_tests).
  - vm_compute. reflexivity.
  - vm_compute. reflexivity.
  - vm_compute. repeat constructor; simpl; intuition.
  - vm_compute. left. reflexivity.
  - reflexivity.
  - reflexivity.
  - reflexivity.
  - reflexivity.
  - reflexivity.
  - vm_compute. intros gpi [= <-]. intuition discriminate.
  - reflexivity.
  - reflexivity.
  - reflexivity.
Qed.

(** a concrete syntax tree with all kinds of ignored text; what it prints; what the parser reads *)
Definition ex_iblock : iblock :=
  {| ib_first := {| is_tr := [IgSpace; IgComment " } {"]; is_nob := "Title ""x""; // no comment" |};
     ib_rest := [(IOpen, {| is_tr := []; is_nob := "" |}); (IClose, {| is_tr := [IgCrNl]; is_nob := String c_cr " x" |})] |}.
Definition ex_cst : cfile :=
  {| f_tr := [IgComment " c"; IgTab]; f_tv := []; f_ver := "-.5"; f_head := HIgn [IgFf] ex_iblock;
     f_blocks := [ BkUser [] [IgSpace] "abc";
                   BkChains [IgNl] [] [ {| c_tr := []; c_name := q_of [] "c 1"; c_op := [];
                                          c_items := [KCells [] [CBang []; CQ (q_of [] "u.q.SI"); CBang [IgSpace]] [IgCrNl];
                                                      KOut [] (q_of [IgComment "ScanIn"] "o") []; KLength [] [] "07" []; KIn [] (q_of [] "i") []];
                                          c_cl := [] |} ] [];
                   BkIgn [] KMacroDefs [] ex_iblock;
                   BkPattern [] (q_of [] "") [] [ILabel (q_of [] "l") [IgSpace]; IC [] [] ex_iblock;
                                                ICall [] (q_of [] "load_unload") [] [ {| pa_name := q_of [] "i"; pa_eq := [IgNl]; pa_lead := [IgComment ";"; IgSpace];
                                                                                        pa_val := "0 // 1" ++ String c_nl "{""" |} ] [] ] [] ];
     f_end := [IgNl]; f_tail := Some " end" |}.
Example ex_cst_ok : file_ok ex_cst = true.
Proof. reflexivity. Qed.
Example ex_cst_parse :
  parse_stil (pr_file ex_cst) =
  Some {| sf_version := "-.5"; sf_groups := None; sf_chains := [("c 1", ["i"; "!"; "q"; "!"; "o"])];
          sf_calls := [ {| call_name := "load_unload"; call_params := [("i", "0 // 1" ++ String c_nl "{""")] |} ] |}.
Proof. rewrite parse_stil_cst by reflexivity. reflexivity. Qed.

(** the corner cases the model relies on; each text is also a probe of harness/stil_text.py (CORNER_TEXTS), where the real
    parser is run on it on every check (this Example is generated from its results: stil_text.coq_examples_text()) *)
Example corner_cases :
  (* minimal file *)
  parse_stil "STIL 1.0;  ScanStructures { ScanChain ""1"" { ScanIn ""si""; ScanOut ""so""; ScanCells ""a"" ! ""b""; } }  Pattern ""p"" { Call ""load_unload"" { ""si""=01; } } " = (Some {| sf_version := "1.0"; sf_groups := None; sf_chains := [("1", ["si"; "a"; "!"; "b"; "so"])]; sf_calls := [{| call_name := "load_unload"; call_params := [("si", "01")] |}] |}) /\
  (* no separators needed after keywords *)
  parse_stil "STIL1.0;ScanStructures{ScanChain""1""{ScanIn""si"";ScanOut""so"";ScanCells""a""!""b"";}}Pattern""p""{Call""load_unload""{""si""=01;}}" = (Some {| sf_version := "1.0"; sf_groups := None; sf_chains := [("1", ["si"; "a"; "!"; "b"; "so"])]; sf_calls := [{| call_name := "load_unload"; call_params := [("si", "01")] |}] |}) /\
  (* a comment at the start of an ignored block swallows the brace *)
  parse_stil "STIL 1.0; Header { // } 
 } ScanStructures { ScanChain ""1"" { ScanIn ""si""; ScanOut ""so""; ScanCells ""a"" ! ""b""; } }  Pattern ""p"" { Call ""load_unload"" { ""si""=01; } } " = (Some {| sf_version := "1.0"; sf_groups := None; sf_chains := [("1", ["si"; "a"; "!"; "b"; "so"])]; sf_calls := [{| call_name := "load_unload"; call_params := [("si", "01")] |}] |}) /\
  (* after other raw text // is no comment: the block ends at the first closing brace *)
  parse_stil "STIL 1.0; Header { x // } 
 } ScanStructures { ScanChain ""1"" { ScanIn ""si""; ScanOut ""so""; ScanCells ""a"" ! ""b""; } }  Pattern ""p"" { Call ""load_unload"" { ""si""=01; } } " = None /\
  (* after an inner block ignored text is skipped again *)
  parse_stil "STIL 1.0; Header { {a} // } 
 } ScanStructures { ScanChain ""1"" { ScanIn ""si""; ScanOut ""so""; ScanCells ""a"" ! ""b""; } }  Pattern ""p"" { Call ""load_unload"" { ""si""=01; } } " = (Some {| sf_version := "1.0"; sf_groups := None; sf_chains := [("1", ["si"; "a"; "!"; "b"; "so"])]; sf_calls := [{| call_name := "load_unload"; call_params := [("si", "01")] |}] |}) /\
  (* ... but not after raw text that follows the inner block *)
  parse_stil "STIL 1.0; Header { {a} x // } 
 } ScanStructures { ScanChain ""1"" { ScanIn ""si""; ScanOut ""so""; ScanCells ""a"" ! ""b""; } }  Pattern ""p"" { Call ""load_unload"" { ""si""=01; } } " = None /\
  (* nested ignored braces *)
  parse_stil "STIL 1.0; Header { a { b { c } d } e { } f } ScanStructures { ScanChain ""1"" { ScanIn ""si""; ScanOut ""so""; ScanCells ""a"" ! ""b""; } }  Pattern ""p"" { Call ""load_unload"" { ""si""=01; } } " = (Some {| sf_version := "1.0"; sf_groups := None; sf_chains := [("1", ["si"; "a"; "!"; "b"; "so"])]; sf_calls := [{| call_name := "load_unload"; call_params := [("si", "01")] |}] |}) /\
  (* a lone carriage return is raw text inside an ignored block *)
  parse_stil (String.concat "" ["STIL 1.0; Header { "; (String (ascii_of_N 13) ""); " } ScanStructures { ScanChain ""1"" { ScanIn ""si""; ScanOut ""so""; ScanCells ""a"" ! ""b""; } }  Pattern ""p"" { Call ""load_unload"" { ""si""=01; } } "]) = (Some {| sf_version := "1.0"; sf_groups := None; sf_chains := [("1", ["si"; "a"; "!"; "b"; "so"])]; sf_calls := [{| call_name := "load_unload"; call_params := [("si", "01")] |}] |}) /\
  (* a lone carriage return between tokens raises *)
  parse_stil (String.concat "" ["STIL 1.0; "; (String (ascii_of_N 13) ""); " ScanStructures { ScanChain ""1"" { ScanIn ""si""; ScanOut ""so""; ScanCells ""a"" ! ""b""; } }  Pattern ""p"" { Call ""load_unload"" { ""si""=01; } } "]) = None /\
  (* CR LF between tokens *)
  parse_stil (String.concat "" [(String (ascii_of_N 13) ""); "
STIL"; (String (ascii_of_N 13) ""); "
1.0"; (String (ascii_of_N 13) ""); "
;"; (String (ascii_of_N 13) ""); "
ScanStructures { ScanChain ""1"" { ScanIn ""si""; ScanOut ""so""; ScanCells ""a"" ! ""b""; } }"; (String (ascii_of_N 13) ""); "
Pattern ""p"" { Call ""load_unload"" { ""si""=01; } }"; (String (ascii_of_N 13) ""); "
"]) = (Some {| sf_version := "1.0"; sf_groups := None; sf_chains := [("1", ["si"; "a"; "!"; "b"; "so"])]; sf_calls := [{| call_name := "load_unload"; call_params := [("si", "01")] |}] |}) /\
  (* vertical tab raises *)
  parse_stil (String.concat "" ["STIL 1.0; "; (String (ascii_of_N 11) ""); " ScanStructures { ScanChain ""1"" { ScanIn ""si""; ScanOut ""so""; ScanCells ""a"" ! ""b""; } }  Pattern ""p"" { Call ""load_unload"" { ""si""=01; } } "]) = None /\
  (* comment without newline at the end of the text *)
  parse_stil "STIL 1.0;  ScanStructures { ScanChain ""1"" { ScanIn ""si""; ScanOut ""so""; ScanCells ""a"" ! ""b""; } }  Pattern ""p"" { Call ""load_unload"" { ""si""=01; } } // end" = (Some {| sf_version := "1.0"; sf_groups := None; sf_chains := [("1", ["si"; "a"; "!"; "b"; "so"])]; sf_calls := [{| call_name := "load_unload"; call_params := [("si", "01")] |}] |}) /\
  (* call parameter: comment markers and newlines inside the value *)
  parse_stil "STIL 1.0;  ScanStructures { ScanChain ""1"" { ScanIn ""si""; ScanOut ""so""; ScanCells ""a"" ! ""b""; } }  Pattern ""p"" { Call ""load_unload"" { ""si""= 01 // c
 10; } } " = (Some {| sf_version := "1.0"; sf_groups := None; sf_chains := [("1", ["si"; "a"; "!"; "b"; "so"])]; sf_calls := [{| call_name := "load_unload"; call_params := [("si", "01 // c
 10")] |}] |}) /\
  (* call parameter: ignored text (a comment with a semicolon) before the value *)
  parse_stil "STIL 1.0;  ScanStructures { ScanChain ""1"" { ScanIn ""si""; ScanOut ""so""; ScanCells ""a"" ! ""b""; } }  Pattern ""p"" { Call ""load_unload"" { ""si""= // c;
 10; } } " = (Some {| sf_version := "1.0"; sf_groups := None; sf_chains := [("1", ["si"; "a"; "!"; "b"; "so"])]; sf_calls := [{| call_name := "load_unload"; call_params := [("si", "10")] |}] |}) /\
  (* call parameter: braces and quotes in the value *)
  parse_stil "STIL 1.0;  ScanStructures { ScanChain ""1"" { ScanIn ""si""; ScanOut ""so""; ScanCells ""a"" ! ""b""; } }  Pattern ""p"" { Call ""load_unload"" { ""si""= {}""; } } " = (Some {| sf_version := "1.0"; sf_groups := None; sf_chains := [("1", ["si"; "a"; "!"; "b"; "so"])]; sf_calls := [{| call_name := "load_unload"; call_params := [("si", "{}""")] |}] |}) /\
  (* call parameter: empty value raises *)
  parse_stil "STIL 1.0;  ScanStructures { ScanChain ""1"" { ScanIn ""si""; ScanOut ""so""; ScanCells ""a"" ! ""b""; } }  Pattern ""p"" { Call ""load_unload"" { ""si""=  ; } } " = None /\
  (* call parameter: a value may start with a lone carriage return *)
  parse_stil (String.concat "" ["STIL 1.0;  ScanStructures { ScanChain ""1"" { ScanIn ""si""; ScanOut ""so""; ScanCells ""a"" ! ""b""; } }  Pattern ""p"" { Call ""load_unload"" { ""si""="; (String (ascii_of_N 13) ""); "1; } } "]) = (Some {| sf_version := "1.0"; sf_groups := None; sf_chains := [("1", ["si"; "a"; "!"; "b"; "so"])]; sf_calls := [{| call_name := "load_unload"; call_params := [("si", (String.concat "" [(String (ascii_of_N 13) ""); "1"]))] |}] |}) /\
  (* call parameter: repeated name, dict() keeps the first position and the last value *)
  parse_stil "STIL 1.0;  ScanStructures { ScanChain ""1"" { ScanIn ""si""; ScanOut ""so""; ScanCells ""a"" ! ""b""; } }  Pattern ""p"" { Call ""load_unload"" { ""si""=0;""so""=H;""si""=1; } } " = (Some {| sf_version := "1.0"; sf_groups := None; sf_chains := [("1", ["si"; "a"; "!"; "b"; "so"])]; sf_calls := [{| call_name := "load_unload"; call_params := [("si", "1"); ("so", "H")] |}] |}) /\
  (* empty ScanCells *)
  parse_stil "STIL 1.0;  ScanStructures { ScanChain ""1"" { ScanIn ""si""; ScanOut ""so""; ScanCells ; } }  Pattern ""p"" { Call ""load_unload"" { ""si""=01; } } " = (Some {| sf_version := "1.0"; sf_groups := None; sf_chains := [("1", ["si"; "so"])]; sf_calls := [{| call_name := "load_unload"; call_params := [("si", "01")] |}] |}) /\
  (* no ScanCells statement: TypeError *)
  parse_stil "STIL 1.0;  ScanStructures { ScanChain ""1"" { ScanIn ""si""; ScanOut ""so""; } }  Pattern ""p"" { Call ""load_unload"" { ""si""=01; } } " = None /\
  (* markers adjacent to quotes *)
  parse_stil "STIL 1.0;  ScanStructures { ScanChain ""1"" { ScanIn ""si""; ScanOut ""so""; ScanCells!""a""!!""b""!; } }  Pattern ""p"" { Call ""load_unload"" { ""si""=01; } } " = (Some {| sf_version := "1.0"; sf_groups := None; sf_chains := [("1", ["si"; "!"; "a"; "!"; "!"; "b"; "!"; "so"])]; sf_calls := [{| call_name := "load_unload"; call_params := [("si", "01")] |}] |}) /\
  (* hierarchical cell names *)
  parse_stil "STIL 1.0;  ScanStructures { ScanChain ""1"" { ScanIn ""si""; ScanOut ""so""; ScanCells ""top.a.SI"" ""x.SI.y"" ""a.b
c.d"" ""a.SIb"" "".SI"" ""a.S.SII""; } }  Pattern ""p"" { Call ""load_unload"" { ""si""=01; } } " = (Some {| sf_version := "1.0"; sf_groups := None; sf_chains := [("1", ["si"; "a"; "y"; "b
d"; "ab"; ""; "SI"; "so"])]; sf_calls := [{| call_name := "load_unload"; call_params := [("si", "01")] |}] |}) /\
  (* the last ScanIn / ScanCells statement counts *)
  parse_stil "STIL 1.0;  ScanStructures { ScanChain ""1"" { ScanIn ""si""; ScanCells ""a""; ScanOut ""so""; ScanCells ""b""; ScanIn ""si2""; } }  Pattern ""p"" { Call ""load_unload"" { ""si""=01; } } " = (Some {| sf_version := "1.0"; sf_groups := None; sf_chains := [("1", ["si2"; "b"; "so"])]; sf_calls := [{| call_name := "load_unload"; call_params := [("si", "01")] |}] |}) /\
  (* ScanInversion is tried before ScanIn *)
  parse_stil "STIL 1.0;  ScanStructures { ScanChain ""1"" { ScanIn version ""si""; ScanOut ""so""; ScanCells ""a""; } }  Pattern ""p"" { Call ""load_unload"" { ""si""=01; } } " = None /\
  (* ScanLength / ScanInversion / ScanMasterClock are dropped *)
  parse_stil "STIL 1.0;  ScanStructures { ScanChain ""1"" { ScanInversion 1; ScanLength2; ScanMasterClock ""c""; ScanIn ""si""; ScanOut ""so""; ScanCells ""a""; } }  Pattern ""p"" { Call ""load_unload"" { ""si""=01; } } " = (Some {| sf_version := "1.0"; sf_groups := None; sf_chains := [("1", ["si"; "a"; "so"])]; sf_calls := [{| call_name := "load_unload"; call_params := [("si", "01")] |}] |}) /\
  (* signal groups: optional ignored block and semicolon *)
  parse_stil "STIL 1.0; SignalGroups { ""_pi"" = '""a"" + ""b""' ; ""_po""='""c""'{ScanOut;} ""x""='""y""' { a {b} } ; ""z""='""w""' } ScanStructures { ScanChain ""1"" { ScanIn ""si""; ScanOut ""so""; ScanCells ""a"" ! ""b""; } }  Pattern ""p"" { Call ""load_unload"" { ""si""=01; } } " = (Some {| sf_version := "1.0"; sf_groups := (Some [("_pi", ["a"; "b"]); ("_po", ["c"]); ("x", ["y"]); ("z", ["w"])]); sf_chains := [("1", ["si"; "a"; "!"; "b"; "so"])]; sf_calls := [{| call_name := "load_unload"; call_params := [("si", "01")] |}] |}) /\
  (* signal groups: two semicolons raise *)
  parse_stil "STIL 1.0; SignalGroups { ""a"" = '""1""' ;; } ScanStructures { ScanChain ""1"" { ScanIn ""si""; ScanOut ""so""; ScanCells ""a"" ! ""b""; } }  Pattern ""p"" { Call ""load_unload"" { ""si""=01; } } " = None /\
  (* UserKeywords: one word *)
  parse_stil "STIL 1.0; UserKeywordsabc; ScanStructures { ScanChain ""1"" { ScanIn ""si""; ScanOut ""so""; ScanCells ""a"" ! ""b""; } }  Pattern ""p"" { Call ""load_unload"" { ""si""=01; } } " = (Some {| sf_version := "1.0"; sf_groups := None; sf_chains := [("1", ["si"; "a"; "!"; "b"; "so"])]; sf_calls := [{| call_name := "load_unload"; call_params := [("si", "01")] |}] |}) /\
  (* UserKeywords: no blank before the semicolon *)
  parse_stil "STIL 1.0; UserKeywords abc ; ScanStructures { ScanChain ""1"" { ScanIn ""si""; ScanOut ""so""; ScanCells ""a"" ! ""b""; } }  Pattern ""p"" { Call ""load_unload"" { ""si""=01; } } " = None /\
  (* Pattern statements: labels, W, C, Macro, Ann are dropped *)
  parse_stil "STIL 1.0;  ScanStructures { ScanChain ""1"" { ScanIn ""si""; ScanOut ""so""; ScanCells ""a"" ! ""b""; } }  Pattern ""p"" { W ""w""; ""lab"": C { ""a""=0; } Macro ""m""; Ann {* x *} ""l2"" : Call ""load_unload"" { ""si""=01; ""so""=LH; } Call ""x_capture"" { } } " = (Some {| sf_version := "1.0"; sf_groups := None; sf_chains := [("1", ["si"; "a"; "!"; "b"; "so"])]; sf_calls := [{| call_name := "load_unload"; call_params := [("si", "01"); ("so", "LH")] |}; {| call_name := "x_capture"; call_params := [] |}] |}) /\
  (* the last Pattern block counts *)
  parse_stil "STIL 1.0;  ScanStructures { ScanChain ""1"" { ScanIn ""si""; ScanOut ""so""; ScanCells ""a"" ! ""b""; } }  Pattern ""p"" { Call ""load_unload"" { ""si""=01; } } Pattern ""q"" { Call ""zz"" { } }" = (Some {| sf_version := "1.0"; sf_groups := None; sf_chains := [("1", ["si"; "a"; "!"; "b"; "so"])]; sf_calls := [{| call_name := "zz"; call_params := [] |}] |}) /\
  (* no Pattern block: TypeError *)
  parse_stil "STIL 1.0; ScanStructures { ScanChain ""1"" { ScanIn ""si""; ScanOut ""so""; ScanCells ""a"" ! ""b""; } }" = None /\
  (* no ScanStructures block: AttributeError *)
  parse_stil "STIL 1.0; Pattern ""p"" { Call ""load_unload"" { ""si""=01; } }" = None /\
  (* float() raises *)
  parse_stil "STIL 1.0.0;  ScanStructures { ScanChain ""1"" { ScanIn ""si""; ScanOut ""so""; ScanCells ""a"" ! ""b""; } }  Pattern ""p"" { Call ""load_unload"" { ""si""=01; } } " = None /\
  (* negative version *)
  parse_stil "STIL -.5 { Design 2005; }  ScanStructures { ScanChain ""1"" { ScanIn ""si""; ScanOut ""so""; ScanCells ""a"" ! ""b""; } }  Pattern ""p"" { Call ""load_unload"" { ""si""=01; } } " = (Some {| sf_version := "-.5"; sf_groups := None; sf_chains := [("1", ["si"; "a"; "!"; "b"; "so"])]; sf_calls := [{| call_name := "load_unload"; call_params := [("si", "01")] |}] |}) /\
  (* ScanChain without ScanIn: the chain list holds None (outside the domain) *)
  stil_domain "STIL 1.0;  ScanStructures { ScanChain ""1"" { ScanOut ""so""; ScanCells ""a""; } }  Pattern ""p"" { Call ""load_unload"" { ""si""=01; } } " = false.
Proof. vm_compute. repeat split. Qed.

