(** The array model (Model/NdArray.v): index <-> offset bijection, the broadcasting rule, and the broadcast-index lemmas
    that make element-wise operations under broadcasting tractable. *)
From Coq Require Import List Arith Bool Lia.
From KV Require Import Model.Encodings Model.NdArray Proofs.EncodingsBits.
Import ListNotations.
Local Open Scope list_scope.

(** * multi-index <-> offset *)
Lemma unravel_in_bounds sh k : k < size sh -> in_bounds sh (unravel sh k).
Proof.
  revert k. induction sh as [|d sh IH]; intros k Hk; cbn [unravel in_bounds size] in *; [exact I|].
  assert (size sh <> 0) as Hs by (intro E; rewrite E in Hk; lia).
  split.
  - apply Nat.div_lt_upper_bound; [exact Hs | lia].
  - apply IH. apply Nat.mod_upper_bound. exact Hs.
Qed.

Lemma ravel_unravel sh k : k < size sh -> ravel sh (unravel sh k) = k.
Proof.
  revert k. induction sh as [|d sh IH]; intros k Hk; cbn [unravel ravel size] in *; [lia|].
  assert (size sh <> 0) as Hs by (intro E; rewrite E in Hk; lia).
  rewrite IH by (apply Nat.mod_upper_bound; exact Hs).
  pose proof (Nat.div_mod k (size sh) Hs) as E. lia.
Qed.

Lemma ravel_lt sh idx : in_bounds sh idx -> ravel sh idx < size sh.
Proof.
  revert idx. induction sh as [|d sh IH]; intros [|i idx] H; cbn [in_bounds ravel size] in *; try contradiction; [lia|].
  destruct H as [Hi Hr]. specialize (IH idx Hr). nia.
Qed.

Lemma unravel_ravel sh idx : in_bounds sh idx -> unravel sh (ravel sh idx) = idx.
Proof.
  revert idx. induction sh as [|d sh IH]; intros [|i idx] H; cbn [in_bounds ravel unravel size] in *; try contradiction; [reflexivity|].
  destruct H as [Hi Hr]. pose proof (ravel_lt sh idx Hr) as Hlt.
  assert (size sh <> 0) as Hs by lia.
  f_equal.
  - rewrite Nat.div_add_l by exact Hs. rewrite Nat.div_small by exact Hlt. lia.
  - rewrite Nat.add_comm, Nat.mod_add by exact Hs. rewrite Nat.mod_small by exact Hlt. apply IH. exact Hr.
Qed.

Lemma in_bounds_length sh idx : in_bounds sh idx -> List.length idx = List.length sh.
Proof.
  revert idx. induction sh as [|d sh IH]; intros [|i idx] H; cbn [in_bounds List.length] in *; try contradiction; [reflexivity|].
  f_equal. apply IH. apply H.
Qed.

(** the bijection between offsets below [size sh] and in-bounds multi-indices *)
Theorem index_offset_bijection sh :
  (forall k, k < size sh -> in_bounds sh (unravel sh k) /\ ravel sh (unravel sh k) = k) /\
  (forall idx, in_bounds sh idx -> ravel sh idx < size sh /\ unravel sh (ravel sh idx) = idx).
Proof.
  split.
  - intros k Hk. split; [apply unravel_in_bounds | apply ravel_unravel]; exact Hk.
  - intros idx H. split; [apply ravel_lt | apply unravel_ravel]; exact H.
Qed.

(** * padding with leading axes of length 1 *)
Lemma size_ones j s : size (repeat 1 j ++ s) = size s.
Proof. induction j as [|j IH]; cbn [repeat app size]; [reflexivity | lia]. Qed.

Lemma size_pad_to n s : size (pad_to n s) = size s.
Proof. apply size_ones. Qed.

Lemma pad_to_length n s : List.length s <= n -> List.length (pad_to n s) = n.
Proof. intros H. unfold pad_to. rewrite app_length, repeat_length. lia. Qed.

Lemma pad_to_self s : pad_to (List.length s) s = s.
Proof. unfold pad_to. rewrite Nat.sub_diag. reflexivity. Qed.

Lemma pad_to_S n s : List.length s <= n -> pad_to (S n) s = 1 :: pad_to n s.
Proof. intros H. unfold pad_to. replace (S n - List.length s) with (S (n - List.length s)) by lia. reflexivity. Qed.

(** * stretching *)
Lemma dims_to_length s t : dims_to s t = true -> List.length s = List.length t.
Proof.
  revert t. induction s as [|d s IH]; intros [|o t] H; cbn [dims_to List.length] in *; try discriminate; [reflexivity|].
  apply andb_true_iff in H. f_equal. apply IH. apply H.
Qed.

Lemma dims_to_refl s : dims_to s s = true.
Proof. induction s as [|d s IH]; cbn [dims_to]; [reflexivity|]. rewrite Nat.eqb_refl, IH. reflexivity. Qed.

Lemma bc_to_refl s : bc_to s s = true.
Proof. unfold bc_to. rewrite Nat.leb_refl, pad_to_self, dims_to_refl. reflexivity. Qed.

Lemma dims_to_ones t : dims_to (repeat 1 (List.length t)) t = true.
Proof. induction t as [|o t IH]; cbn [List.length repeat dims_to]; [reflexivity|]. rewrite IH, orb_true_r. reflexivity. Qed.

Lemma bc_to_nil t : bc_to [] t = true.
Proof. unfold bc_to, pad_to. cbn [List.length]. rewrite Nat.sub_0_r, app_nil_r. apply dims_to_ones. Qed.

Lemma bc_to_length s t : bc_to s t = true -> List.length s <= List.length t.
Proof. unfold bc_to. intros H. apply andb_true_iff in H. apply Nat.leb_le. apply H. Qed.

Lemma bc_to_dims s t : bc_to s t = true -> dims_to (pad_to (List.length t) s) t = true.
Proof. unfold bc_to. intros H. apply andb_true_iff in H. apply H. Qed.

Lemma clip_in_bounds s t idx : dims_to s t = true -> in_bounds t idx -> in_bounds s (clip s idx).
Proof.
  revert t idx. induction s as [|d s IH]; intros [|o t] [|i idx] H B; cbn [dims_to in_bounds clip] in *;
    try discriminate; try contradiction; [exact I|].
  apply andb_true_iff in H. destruct H as [Hd Hr]. destruct B as [Bi Br].
  split; [|eapply IH; eassumption].
  destruct (d =? 1) eqn:E1.
  - apply Nat.eqb_eq in E1. lia.
  - rewrite orb_false_r in Hd. apply Nat.eqb_eq in Hd. lia.
Qed.

Lemma clip_id s idx : in_bounds s idx -> clip s idx = idx.
Proof.
  revert idx. induction s as [|d s IH]; intros [|i idx] B; cbn [in_bounds clip] in *; try contradiction; [reflexivity|].
  destruct B as [Bi Br]. rewrite IH by exact Br. destruct (d =? 1) eqn:E1; [|reflexivity].
  apply Nat.eqb_eq in E1. f_equal. lia.
Qed.

(** the element read for offset [k] of the result exists *)
Lemma boff_lt s t k : bc_to s t = true -> k < size t -> boff s t k < size s.
Proof.
  intros H Hk. unfold boff. rewrite <- (size_pad_to (List.length t) s). apply ravel_lt.
  eapply clip_in_bounds; [apply bc_to_dims; exact H | apply unravel_in_bounds; exact Hk].
Qed.

Lemma boff_id s k : k < size s -> boff s s k = k.
Proof.
  intros Hk. unfold boff. rewrite pad_to_self, clip_id by (apply unravel_in_bounds; exact Hk).
  apply ravel_unravel. exact Hk.
Qed.

Lemma ravel_clip_ones n idx : ravel (repeat 1 n) (clip (repeat 1 n) idx) = 0.
Proof.
  revert idx. induction n as [|n IH]; intros [|i idx]; cbn [repeat clip ravel]; try reflexivity.
  rewrite IH. cbn. reflexivity.
Qed.

Lemma boff_nil t k : boff [] t k = 0.
Proof. unfold boff, pad_to. cbn [List.length]. rewrite Nat.sub_0_r, app_nil_r. apply ravel_clip_ones. Qed.

(** an extra leading axis of length 1 on the result changes nothing *)
Lemma boff_one s t k : List.length s <= List.length t -> k < size t -> boff s (1 :: t) k = boff s t k.
Proof.
  intros Hl Hk. unfold boff. cbn [List.length]. rewrite pad_to_S by exact Hl.
  cbn [unravel]. rewrite Nat.div_small, Nat.mod_small by exact Hk.
  cbn [clip ravel Nat.eqb]. lia.
Qed.

Lemma boff_ones s t j k : List.length s <= List.length t -> k < size t -> boff s (repeat 1 j ++ t) k = boff s t k.
Proof.
  intros Hl Hk. induction j as [|j IH]; cbn [repeat app]; [reflexivity|].
  rewrite boff_one.
  - exact IH.
  - rewrite app_length, repeat_length. lia.
  - rewrite size_ones. exact Hk.
Qed.

(** a stretch that keeps the number of elements only adds leading axes of length 1 *)
Lemma dims_to_size_le p t : dims_to p t = true -> size t <> 0 -> 0 < size p <= size t.
Proof.
  revert t. induction p as [|d p IH]; intros [|o t] H Hs; cbn [dims_to size] in *; try discriminate; [lia|].
  apply andb_true_iff in H. destruct H as [Hd Hr].
  assert (size t <> 0) as Hs' by (intro E; rewrite E in Hs; lia).
  assert (o <> 0) as Ho by (intro E; rewrite E in Hs; lia).
  specialize (IH t Hr Hs'). apply orb_true_iff in Hd. destruct Hd as [Hd|Hd]; apply Nat.eqb_eq in Hd; subst d.
  - split; [nia|]. apply Nat.mul_le_mono_l. lia.
  - rewrite Nat.mul_1_l. split; [lia|]. nia.
Qed.

Lemma dims_to_same_size p t : dims_to p t = true -> size p = size t -> size t <> 0 -> p = t.
Proof.
  revert t. induction p as [|d p IH]; intros [|o t] H E Hs; cbn [dims_to size] in *; try discriminate; [reflexivity|].
  apply andb_true_iff in H. destruct H as [Hd Hr].
  assert (size t <> 0) as Hs' by (intro E'; rewrite E' in Hs; lia).
  assert (o <> 0) as Ho by (intro E'; rewrite E' in Hs; lia).
  pose proof (dims_to_size_le p t Hr Hs') as B.
  assert (d = o) as ->.
  { apply orb_true_iff in Hd. destruct Hd as [Hd|Hd]; apply Nat.eqb_eq in Hd; [exact Hd|]. subst d. nia. }
  f_equal. apply IH; [exact Hr | nia | exact Hs'].
Qed.

Lemma bc_to_same_size m t : bc_to m t = true -> size m = size t -> size t <> 0 ->
  t = repeat 1 (List.length t - List.length m) ++ m.
Proof.
  intros H E Hs. symmetry. apply (dims_to_same_size (pad_to (List.length t) m) t).
  - apply bc_to_dims. exact H.
  - rewrite size_pad_to. exact E.
  - exact Hs.
Qed.

(** reading through a result shape of the same size is reading through the mask's own shape *)
Lemma boff_resize s m t k : bc_to m t = true -> size m = size t -> k < size t -> List.length s <= List.length m ->
  boff s t k = boff s m k.
Proof.
  intros H E Hk Hl. rewrite (bc_to_same_size m t H E) by lia.
  apply boff_ones; [exact Hl | lia].
Qed.

Lemma boff_same_size m t k : bc_to m t = true -> size m = size t -> k < size t -> boff m t k = k.
Proof.
  intros H E Hk. rewrite (boff_resize m m t k H E Hk (Nat.le_refl _)). apply boff_id. lia.
Qed.

(** * the broadcasting rule *)
Lemma bc_dim_refl a : bc_dim a a = Some a.
Proof. unfold bc_dim. rewrite Nat.eqb_refl. reflexivity. Qed.

Lemma bc_zip_refl s : bc_zip s s = Some s.
Proof. induction s as [|d s IH]; cbn [bc_zip]; [reflexivity|]. rewrite bc_dim_refl, IH. reflexivity. Qed.

Lemma broadcast2_refl s : broadcast2 s s = Some s.
Proof. unfold broadcast2. rewrite Nat.max_id, pad_to_self. apply bc_zip_refl. Qed.

Lemma bc_dim_dims a b d : bc_dim a b = Some d -> ((a =? d) || (a =? 1)) = true /\ ((b =? d) || (b =? 1)) = true.
Proof.
  unfold bc_dim. destruct (a =? b) eqn:E1.
  - intros [= <-]. apply Nat.eqb_eq in E1. subst b. rewrite Nat.eqb_refl. split; reflexivity.
  - destruct (a =? 1) eqn:E2.
    + intros [= <-]. rewrite Nat.eqb_refl, orb_true_r. split; reflexivity.
    + destruct (b =? 1) eqn:E3; [|discriminate]. intros [= <-]. rewrite Nat.eqb_refl, orb_true_r. split; reflexivity.
Qed.

Lemma bc_zip_dims p q b : bc_zip p q = Some b -> dims_to p b = true /\ dims_to q b = true.
Proof.
  revert q b. induction p as [|x p IH]; intros [|y q] b H; cbn [bc_zip] in H; try discriminate.
  - injection H as <-. split; reflexivity.
  - destruct (bc_dim x y) as [d|] eqn:Ed; [|discriminate]. destruct (bc_zip p q) as [r|] eqn:Er; [|discriminate].
    injection H as <-. destruct (bc_dim_dims _ _ _ Ed) as [A B]. destruct (IH _ _ Er) as [C D].
    cbn [dims_to]. rewrite A, B, C, D. split; reflexivity.
Qed.

Lemma bc_zip_length p q b : bc_zip p q = Some b -> List.length b = List.length p.
Proof. intros H. destruct (bc_zip_dims _ _ _ H) as [A _]. symmetry. apply dims_to_length. exact A. Qed.

(** both operands stretch to the broadcast shape; its rank is the larger rank *)
Lemma broadcast2_bc_to s t b : broadcast2 s t = Some b ->
  bc_to s b = true /\ bc_to t b = true /\ List.length b = Nat.max (List.length s) (List.length t).
Proof.
  unfold broadcast2. intros H.
  assert (List.length b = Nat.max (List.length s) (List.length t)) as L.
  { rewrite (bc_zip_length _ _ _ H). apply pad_to_length. lia. }
  destruct (bc_zip_dims _ _ _ H) as [A B]. unfold bc_to. rewrite L, A, B.
  split; [|split; [|reflexivity]]; apply andb_true_iff; split; try reflexivity; apply Nat.leb_le; lia.
Qed.

(** an operand that already stretches to the other one does not change the shape *)
Lemma dims_to_bc_zip p s : dims_to p s = true -> bc_zip s p = Some s.
Proof.
  revert s. induction p as [|d p IH]; intros [|o s] H; cbn [dims_to bc_zip] in *; try discriminate; [reflexivity|].
  apply andb_true_iff in H. destruct H as [Hd Hr]. rewrite (IH s Hr).
  assert (bc_dim o d = Some o) as ->; [|reflexivity].
  unfold bc_dim. apply orb_true_iff in Hd. destruct Hd as [Hd|Hd]; apply Nat.eqb_eq in Hd; subst d.
  - rewrite Nat.eqb_refl. reflexivity.
  - destruct (o =? 1) eqn:E; [reflexivity|]. cbn. reflexivity.
Qed.

Lemma bc_to_broadcast2 s t : bc_to t s = true -> broadcast2 s t = Some s.
Proof.
  intros H. pose proof (bc_to_length _ _ H) as Hl. unfold broadcast2.
  rewrite Nat.max_l by exact Hl. rewrite pad_to_self. apply dims_to_bc_zip. apply bc_to_dims. exact H.
Qed.

(** whatever both operands stretch to, their broadcast shape stretches to as well *)
Lemma bc_dim_join x y d o : bc_dim x y = Some d ->
  ((x =? o) || (x =? 1)) = true -> ((y =? o) || (y =? 1)) = true -> ((d =? o) || (d =? 1)) = true.
Proof.
  unfold bc_dim. destruct (x =? y) eqn:E1; [intros [= <-] A _; exact A|].
  destruct (x =? 1) eqn:E2; [intros [= <-] _ B; exact B|].
  destruct (y =? 1) eqn:E3; [intros [= <-] A _; rewrite E2; exact A | discriminate].
Qed.

Lemma dims_join p q b t : bc_zip p q = Some b -> dims_to p t = true -> dims_to q t = true -> dims_to b t = true.
Proof.
  revert q b t. induction p as [|x p IH]; intros [|y q] b t H A B; cbn [bc_zip] in H; try discriminate.
  - injection H as <-. exact A.
  - destruct (bc_dim x y) as [d|] eqn:Ed; [|discriminate]. destruct (bc_zip p q) as [r|] eqn:Er; [|discriminate].
    injection H as <-. destruct t as [|o t]; cbn [dims_to] in *; [discriminate|].
    apply andb_true_iff in A. apply andb_true_iff in B. destruct A as [A1 A2]. destruct B as [B1 B2].
    rewrite (bc_dim_join _ _ _ _ Ed A1 B1), (IH _ _ _ Er A2 B2). reflexivity.
Qed.

Lemma dims_join_ones j p q b t : bc_zip p q = Some b ->
  dims_to (repeat 1 j ++ p) t = true -> dims_to (repeat 1 j ++ q) t = true -> dims_to (repeat 1 j ++ b) t = true.
Proof.
  revert t. induction j as [|j IH]; intros t H A B; cbn [repeat app] in *; [eapply dims_join; eassumption|].
  destruct t as [|o t]; cbn [dims_to] in *; [discriminate|].
  apply andb_true_iff in A. apply andb_true_iff in B. destruct A as [A1 A2]. destruct B as [B1 B2].
  rewrite A1, (IH t H A2 B2). reflexivity.
Qed.

Lemma pad_to_pad n m s : List.length s <= m -> m <= n -> pad_to n s = repeat 1 (n - m) ++ pad_to m s.
Proof.
  intros A B. unfold pad_to. rewrite app_assoc, <- repeat_app. f_equal. f_equal. lia.
Qed.

Lemma bc_to_join s1 s2 b so : broadcast2 s1 s2 = Some b -> bc_to s1 so = true -> bc_to s2 so = true -> bc_to b so = true.
Proof.
  intros H A B. destruct (broadcast2_bc_to _ _ _ H) as [_ [_ L]].
  pose proof (bc_to_length _ _ A) as L1. pose proof (bc_to_length _ _ B) as L2.
  pose proof (bc_to_dims _ _ A) as D1. pose proof (bc_to_dims _ _ B) as D2.
  unfold bc_to. apply andb_true_iff. split; [apply Nat.leb_le; lia|].
  set (n := List.length so) in *. set (m := Nat.max (List.length s1) (List.length s2)) in *.
  unfold broadcast2 in H. fold m in H.
  rewrite (pad_to_pad n m s1) in D1 by lia. rewrite (pad_to_pad n m s2) in D2 by lia.
  unfold pad_to at 1. rewrite L. fold m. exact (dims_join_ones _ _ _ _ _ H D1 D2).
Qed.

(** the rule, axis by axis from the right: equal lengths or a 1; missing leading axes count as 1 *)
Theorem broadcast2_rule s t b : broadcast2 s t = Some b ->
  List.length b = Nat.max (List.length s) (List.length t) /\
  forall i, i < List.length b ->
    let n := List.length b in
    let ds := nth i (pad_to n s) 1 in let dt := nth i (pad_to n t) 1 in
    (ds = dt \/ ds = 1 \/ dt = 1) /\ nth i b 1 = (if ds =? 1 then dt else ds).
Proof.
  intros H. destruct (broadcast2_bc_to _ _ _ H) as [_ [_ L]]. split; [exact L|].
  unfold broadcast2 in H. rewrite <- L in H. intros i Hi. cbn zeta.
  assert (List.length (pad_to (List.length b) s) = List.length b) as Ls by (apply pad_to_length; lia).
  assert (List.length (pad_to (List.length b) t) = List.length b) as Lt by (apply pad_to_length; lia).
  revert H Ls Lt i Hi. generalize (pad_to (List.length b) s) (pad_to (List.length b) t). clear L.
  induction b as [|d b IH]; intros p q H Lp Lq i Hi; [cbn in Hi; lia|].
  destruct p as [|x p]; [discriminate|]. destruct q as [|y q]; [discriminate|].
  cbn [bc_zip] in H. destruct (bc_dim x y) as [d'|] eqn:Ed; [|discriminate]. destruct (bc_zip p q) as [r|] eqn:Er; [|discriminate].
  injection H as -> ->. destruct i as [|i].
  - cbn [nth]. unfold bc_dim in Ed. destruct (x =? y) eqn:E1.
    + apply Nat.eqb_eq in E1. injection Ed as <-. subst y. split; [left; reflexivity|]. destruct (x =? 1) eqn:E; [apply Nat.eqb_eq in E; lia | reflexivity].
    + destruct (x =? 1) eqn:E2.
      * injection Ed as <-. apply Nat.eqb_eq in E2. split; [right; left; exact E2 | reflexivity].
      * destruct (y =? 1) eqn:E3; [|discriminate]. injection Ed as <-. apply Nat.eqb_eq in E3. split; [right; right; exact E3 | reflexivity].
  - cbn [nth]. apply (IH p q Er); cbn [List.length] in *; lia.
Qed.

Lemma bc_zip_none p : forall n q, List.length p = n -> List.length q = n ->
  (bc_zip p q = None <-> exists i, i < n /\ nth i p 1 <> nth i q 1 /\ nth i p 1 <> 1 /\ nth i q 1 <> 1).
Proof.
  induction p as [|x p IH]; intros n q Lp Lq.
  - destruct q; [|cbn in *; lia]. cbn. split; [discriminate|]. intros [i [Hi _]]. cbn in Lp. lia.
  - destruct q as [|y q]; [cbn in *; lia|]. destruct n as [|n]; [cbn in Lp; lia|].
    cbn [List.length] in *. specialize (IH n q ltac:(lia) ltac:(lia)). cbn [bc_zip].
    destruct (bc_dim x y) as [d|] eqn:Ed.
    + destruct (bc_zip p q) as [r|] eqn:Er.
      * split; [discriminate|]. intros [i [Hi [A [B C]]]]. destruct i as [|i]; cbn [nth] in *.
        -- unfold bc_dim in Ed. destruct (x =? y) eqn:E1; [apply Nat.eqb_eq in E1; lia|].
           destruct (x =? 1) eqn:E2; [apply Nat.eqb_eq in E2; lia|]. destruct (y =? 1) eqn:E3; [apply Nat.eqb_eq in E3; lia | discriminate].
        -- destruct IH as [_ IH]. enough (Some r = None) by discriminate. apply IH. exists i. repeat split; try assumption; lia.
      * split; [|reflexivity]. intros _. destruct IH as [IH _]. destruct (IH eq_refl) as [i [Hi [A [B C]]]].
        exists (S i). cbn [nth]. repeat split; try assumption; lia.
    + split; [|reflexivity]. intros _. exists 0. cbn [nth]. unfold bc_dim in Ed.
      destruct (x =? y) eqn:E1; [discriminate|]. destruct (x =? 1) eqn:E2; [discriminate|]. destruct (y =? 1) eqn:E3; [discriminate|].
      apply Nat.eqb_neq in E1, E2, E3. repeat split; try assumption; lia.
Qed.

(** failure: exactly when some axis (from the right) has two different lengths, neither of them 1 *)
Theorem broadcast2_fail s t : broadcast2 s t = None <->
  exists i, let n := Nat.max (List.length s) (List.length t) in
    i < n /\ nth i (pad_to n s) 1 <> nth i (pad_to n t) 1 /\ nth i (pad_to n s) 1 <> 1 /\ nth i (pad_to n t) 1 <> 1.
Proof.
  unfold broadcast2. cbn zeta. apply bc_zip_none; apply pad_to_length; lia.
Qed.

(** * tabulated arrays *)
Lemma tabulate_ext sh f g : (forall k, k < size sh -> f k = g k) -> tabulate sh f = tabulate sh g.
Proof. intros H. unfold tabulate. f_equal. apply map_ext_in. intros k Hk. apply in_seq in Hk. apply H. lia. Qed.

Lemma tabulate_wf sh f : nd_wf (tabulate sh f).
Proof. unfold nd_wf, tabulate. cbn [nd_data nd_shape]. rewrite map_length, seq_length. reflexivity. Qed.

Lemma at_tabulate sh f k : k < size sh -> at_ (tabulate sh f) k = f k.
Proof.
  intros Hk. unfold at_, tabulate. cbn [nd_data].
  rewrite (nth_map_lt f (seq 0 (size sh)) 0 0 k) by (rewrite seq_length; exact Hk).
  rewrite seq_nth by exact Hk. reflexivity.
Qed.

Lemma bget_tabulate s f t k : bc_to s t = true -> k < size t -> bget (tabulate s f) t k = f (boff s t k).
Proof. intros H Hk. unfold bget. cbn [nd_shape tabulate]. apply at_tabulate. apply boff_lt; assumption. Qed.

Lemma nd_eta x : nd_wf x -> x = tabulate (nd_shape x) (at_ x).
Proof.
  destruct x as [sh d]. unfold nd_wf, tabulate, at_. cbn [nd_shape nd_data]. intros W. f_equal.
  rewrite <- W. symmetry. apply map_nth_seq.
Qed.

Lemma nd_map_tabulate g s f : nd_map g (tabulate s f) = tabulate s (fun k => g (f k)).
Proof. unfold nd_map, tabulate. cbn [nd_shape nd_data]. rewrite map_map. reflexivity. Qed.

Lemma bget_scalar0 v t k : bget (scalar0 v) t k = v.
Proof. unfold bget, scalar0, at_. cbn [nd_shape nd_data]. rewrite boff_nil. reflexivity. Qed.

(** * the broadcast-index lemma: what a binary element-wise operation delivers at every multi-index *)
(** reading by offset = reading by the clipped multi-index *)
Lemma boff_ravel s t idx : in_bounds t idx ->
  boff s t (ravel t idx) = ravel (pad_to (List.length t) s) (clip (pad_to (List.length t) s) idx).
Proof. intros B. unfold boff. rewrite unravel_ravel by exact B. reflexivity. Qed.

(** the padded, clipped index addresses the operand's own element at [bidx]: i mod d on its own axes *)
Lemma ravel_ones_prefix j s pre idx : List.length pre = j ->
  ravel (repeat 1 j ++ s) (clip (repeat 1 j ++ s) (pre ++ idx)) = ravel s (clip s idx).
Proof.
  revert pre. induction j as [|j IH]; intros [|a pre] L; cbn [List.length] in L; try discriminate; [reflexivity|].
  cbn [repeat app clip ravel Nat.eqb]. rewrite IH by lia. lia.
Qed.

Lemma clip_mod s t idx : dims_to s t = true -> in_bounds t idx -> clip s idx = mod_dims s idx.
Proof.
  revert t idx. induction s as [|d s IH]; intros [|o t] [|i idx] H B; cbn [dims_to in_bounds clip mod_dims] in *;
    try discriminate; try contradiction; try reflexivity.
  apply andb_true_iff in H. destruct H as [Hd Hr]. destruct B as [Bi Br]. rewrite (IH t idx Hr Br). f_equal.
  destruct (d =? 1) eqn:E1.
  - apply Nat.eqb_eq in E1. subst d. rewrite Nat.mod_1_r. reflexivity.
  - rewrite orb_false_r in Hd. apply Nat.eqb_eq in Hd. subst d. rewrite Nat.mod_small by exact Bi. reflexivity.
Qed.

Lemma dims_to_app_inv j s t : dims_to (repeat 1 j ++ s) t = true -> dims_to s (skipn j t) = true.
Proof.
  revert t. induction j as [|j IH]; intros t H; [exact H|].
  destruct t as [|o t]; cbn [repeat app dims_to skipn] in *; [discriminate|].
  apply andb_true_iff in H. apply IH. apply H.
Qed.

Lemma in_bounds_skipn j t idx : in_bounds t idx -> in_bounds (skipn j t) (skipn j idx).
Proof.
  revert t idx. induction j as [|j IH]; intros t idx B; [exact B|].
  destruct t as [|o t]; destruct idx as [|i idx]; cbn [in_bounds skipn] in *; try contradiction; [exact I|].
  apply IH. apply B.
Qed.

Lemma bget_bidx x t idx : bc_to (nd_shape x) t = true -> in_bounds t idx ->
  bget x t (ravel t idx) = nd_get x (bidx (nd_shape x) idx).
Proof.
  intros H B. unfold bget, nd_get, at_. f_equal. rewrite boff_ravel by exact B.
  pose proof (bc_to_length _ _ H) as Hl. pose proof (bc_to_dims _ _ H) as Hd.
  pose proof (in_bounds_length _ _ B) as Li. unfold bidx, pad_to in *.
  rewrite Li. set (j := List.length t - List.length (nd_shape x)) in *.
  transitivity (ravel (repeat 1 j ++ nd_shape x) (clip (repeat 1 j ++ nd_shape x) (firstn j idx ++ skipn j idx))).
  { rewrite firstn_skipn. reflexivity. }
  rewrite ravel_ones_prefix by (rewrite firstn_length; lia).
  f_equal. eapply clip_mod; [apply dims_to_app_inv; exact Hd | apply in_bounds_skipn; exact B].
Qed.

(** a | b (any binary operator) with a fresh result: shape = broadcast shape, element at multi-index i =
    f (a at i mod shape a) (b at i mod shape b), right-aligned -- for ALL shapes *)
Theorem broadcast_index f a b r : ufunc2 f a b = Some r ->
  broadcast2 (nd_shape a) (nd_shape b) = Some (nd_shape r) /\ nd_wf r /\
  forall idx, in_bounds (nd_shape r) idx ->
    nd_get r idx = f (nd_get a (bidx (nd_shape a) idx)) (nd_get b (bidx (nd_shape b) idx)).
Proof.
  unfold ufunc2. destruct (broadcast2 (nd_shape a) (nd_shape b)) as [sh|] eqn:E; [|discriminate].
  intros [= <-]. cbn [nd_shape tabulate]. split; [reflexivity|]. split; [apply tabulate_wf|].
  intros idx B. destruct (broadcast2_bc_to _ _ _ E) as [Ha [Hb _]].
  change (nd_get (tabulate sh (fun k => f (bget a sh k) (bget b sh k))) idx)
    with (at_ (tabulate sh (fun k => f (bget a sh k) (bget b sh k))) (ravel sh idx)).
  rewrite at_tabulate by (apply ravel_lt; exact B).
  rewrite (bget_bidx a sh idx Ha B), (bget_bidx b sh idx Hb B). reflexivity.
Qed.

Theorem broadcast_fails f a b : ufunc2 f a b = None <-> broadcast2 (nd_shape a) (nd_shape b) = None.
Proof. unfold ufunc2. destruct (broadcast2 (nd_shape a) (nd_shape b)); split; intros H; try discriminate; reflexivity. Qed.

(** non-vacuity: (2,1,3) with (4,1) gives (2,4,3); (2,3) with (4,) fails; an axis of length 0 *)
Example broadcast_ex :
  broadcast2 [2; 1; 3] [4; 1] = Some [2; 4; 3] /\ broadcast2 [2; 3] [4] = None /\ broadcast2 [0; 3] [1] = Some [0; 3] /\
  broadcast3 [2; 1] [3] [5; 1; 1] = Some [5; 2; 3] /\
  ufunc2 Nat.add (NdA [2; 1] [10; 20]) (NdA [3] [1; 2; 3]) = Some (NdA [2; 3] [11; 12; 13; 21; 22; 23]).
Proof. repeat split. Qed.
