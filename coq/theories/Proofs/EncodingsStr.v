(** C15, part 4: interpret / mvarray / mv_str -- value tables (tied to the tables regenerated from the code), axis
    convention, string <-> array round trips. *)
From Coq Require Import List ZArith NArith Bool Arith Ascii Lia.
From KV Require Import Model.Encodings Proofs.EncodingsBits Gen.LogicTables.
Import ListNotations.
Local Open Scope list_scope.

(** * the finite tables *)
Definition doc_chars : list N := map N.of_nat (concat (map snd doc_aliases)).

(** eight values: render, parse back; the rendering table of the code is the documented '0X-1PRFN' *)
Lemma render_parse_all :
  forallb (fun v => (interp_cp (render v) =? v) && N.eqb (render v) (N.of_nat (nth v render_table 0))) (seq 0 8) = true.
Proof. vm_compute. reflexivity. Qed.
Lemma render_table_length : List.length render_table = 8.
Proof. reflexivity. Qed.
Lemma value_consts_ok : value_consts = [ZERO; UNKNOWN; UNASSIGNED; ONE; PPULSE; RISE; FALL; NPULSE].
Proof. reflexivity. Qed.

(** documented aliases (read from the docstrings): one entry per value, in order; the first alias is the rendering;
    every alias parses to its value *)
Lemma doc_values : map fst doc_aliases = seq 0 8.
Proof. reflexivity. Qed.
Lemma doc_first_is_render :
  forallb (fun vc => N.eqb (render (fst vc)) (N.of_nat (hd 0 (snd vc)))) doc_aliases = true.
Proof. vm_compute. reflexivity. Qed.
Lemma doc_aliases_parse :
  forallb (fun vc => forallb (fun c => interp_cp (N.of_nat c) =? fst vc) (snd vc)) doc_aliases = true.
Proof. vm_compute. reflexivity. Qed.
Lemma doc_scalars_parse : forallb (fun vr => fst vr =? snd vr) doc_scalar_aliases = true /\ documented_scalars = 5.
Proof. split; reflexivity. Qed.

(** the hand transcription agrees with the real interpret on all 256 one-character strings and on the scalars *)
Lemma interp_table_all :
  forallb (fun c => interp_cp (N.of_nat c) =? nth c interp_table 1) (seq 0 256) = true.
Proof. vm_compute. reflexivity. Qed.
Lemma interp_scalars :
  interp_atom (ABool true) = interp_true /\ interp_atom (ABool false) = interp_false /\ interp_atom ANone = interp_none /\
  interp_atom (AInt 0) = interp_int0 /\ interp_atom (AInt 1) = interp_int1 /\ interp_atom (AInt 2) = interp_int2 /\
  interp_atom (AInt (-1)) = interp_intm1.
Proof. repeat split. Qed.

(** every code point that the transcription tests for; everything else is UNKNOWN -- for ALL code points *)
Definition model_chars : list N :=
  [48; 76; 108; 49; 72; 104; 45; 90; 122; 82; 114; 47; 70; 102; 92; 80; 112; 94; 78; 110; 118]%N.

Lemma interp_cp_other c : existsb (N.eqb c) model_chars = false -> interp_cp c = UNKNOWN.
Proof.
  unfold model_chars. cbn [existsb]. intros H.
  repeat (apply orb_false_elim in H; destruct H as [? H]).
  unfold interp_cp, interp_atom, py_in, ch.
  cbn [existsb atom_eqb atom_num N_of_ascii N_of_digits].
  cbn.
  repeat match goal with E : (c =? _)%N = false |- _ => rewrite E; clear E end.
  reflexivity.
Qed.

Lemma model_chars_documented : forallb (fun m => existsb (N.eqb m) doc_chars) model_chars = true.
Proof. vm_compute. reflexivity. Qed.

Lemma existsb_eqb_In c l : existsb (N.eqb c) l = true <-> In c l.
Proof.
  rewrite existsb_exists. split.
  - intros [x [Hx E]]. apply N.eqb_eq in E. subst. exact Hx.
  - intros H. exists c. split; [exact H | apply N.eqb_refl].
Qed.

Theorem undocumented_is_unknown c : ~ In c doc_chars -> interp_cp c = UNKNOWN.
Proof.
  intros H. apply interp_cp_other.
  destruct (existsb (N.eqb c) model_chars) eqn:E; [|reflexivity].
  exfalso. apply H. apply existsb_eqb_In in E.
  pose proof model_chars_documented as D. rewrite forallb_forall in D.
  specialize (D c E). apply existsb_eqb_In in D. exact D.
Qed.

Lemma interp_cp_lt c : interp_cp c < 8.
Proof.
  unfold interp_cp, interp_atom.
  repeat match goal with |- (if ?b then _ else _) < _ => destruct b end; cbv; lia.
Qed.

Lemma parse_render v : v < 8 -> interp_cp (render v) = v.
Proof. intros H. do 8 (destruct v as [|v]; [reflexivity|]). lia. Qed.

Lemma render_parse_canonical c : In c render_chars -> render (interp_cp c) = c.
Proof. intros H. cbv in H. repeat (destruct H as [<-|H]; [reflexivity|]). destruct H. Qed.

(** * shapes *)
Lemma nat_list_eqb_refl s : nat_list_eqb s s = true.
Proof. induction s; cbn; [reflexivity|]. rewrite Nat.eqb_refl, IHs. reflexivity. Qed.

Lemma shape_of_uniform (l : list tr) s :
  l <> [] -> Forall (fun t => shape_of t = Some s) l -> shape_of (Nd l) = Some (List.length l :: s).
Proof.
  intros Hne H. destruct l as [|x r]; [congruence|]. inversion H as [|? ? Hx Hr]; subst.
  cbn [shape_of map]. rewrite Hx.
  assert (all_shape s (map shape_of r) = true) as A.
  { unfold all_shape. apply forallb_forall. intros o Ho. apply in_map_iff in Ho. destruct Ho as [t [<- Ht]].
    rewrite Forall_forall in Hr. rewrite (Hr t Ht). apply nat_list_eqb_refl. }
  rewrite A, map_length. reflexivity.
Qed.

Definition row_tr (str : list N) : tr := Nd (map (fun c => Lf (interp_cp c)) str).

Lemma shape_of_leaves {A} (f : A -> nat) (l : list A) : shape_of (Nd (map (fun x => Lf (f x)) l)) = Some [List.length l].
Proof.
  destruct l as [|x r]; [reflexivity|].
  rewrite shape_of_uniform with (s := []).
  - rewrite map_length. reflexivity.
  - discriminate.
  - apply Forall_forall. intros t Ht. apply in_map_iff in Ht. destruct Ht as [y [<- _]]. reflexivity.
Qed.

Lemma interpret_str str : List.length str <> 1 -> interpret (PStr str) = row_tr str.
Proof. destruct str as [|c [|c' r]]; cbn [List.length]; intros H; try reflexivity. congruence. Qed.

Lemma leaves_row {A} (f : A -> nat) (l : list A) : leaves (Nd (map (fun x => Lf (f x)) l)) = map f l.
Proof. cbn [leaves]. induction l; cbn [map flat_map leaves app]; [reflexivity|]. rewrite IHl. reflexivity. Qed.

(** * axis convention *)
Definition uniform (s : nat) (ss : list (list N)) : Prop := Forall (fun str => List.length str = s) ss.

(** p >= 2 pattern strings over s signals (s <> 1: one-character strings are scalars, see below):
    signals on axis -2, patterns on the last axis, entry [i][j] = interpret(pattern_j[i]) *)
Theorem axis_convention ss s :
  2 <= List.length ss -> uniform s ss -> s <> 1 ->
  mvarray (map PStr ss) =
  Some ([s; List.length ss], Nd (map (fun i => Nd (map (fun str => Lf (interp_cp (nth i str 0%N))) ss)) (seq 0 s))).
Proof.
  intros Hp Hu Hs. unfold mvarray.
  assert (map interpret (map PStr ss) = map row_tr ss) as E.
  { rewrite map_map. apply map_ext_in. intros str Hstr. apply interpret_str.
    unfold uniform in Hu. rewrite Forall_forall in Hu. rewrite (Hu str Hstr). exact Hs. }
  rewrite E.
  assert (shape_of (Nd (map row_tr ss)) = Some [List.length ss; s]) as Sh.
  { rewrite shape_of_uniform with (s := [s]).
    - rewrite map_length. reflexivity.
    - destruct ss; [cbn in Hp; lia | discriminate].
    - apply Forall_forall. intros t Ht. apply in_map_iff in Ht. destruct Ht as [str [<- Hstr]].
      unfold row_tr. rewrite shape_of_leaves. unfold uniform in Hu. rewrite Forall_forall in Hu. rewrite (Hu str Hstr). reflexivity. }
  rewrite Sh. cbn [List.length Nat.sub nth Nat.ltb Nat.leb].
  assert ((1 <? List.length ss) = true) as L by (apply Nat.ltb_lt; lia).
  unfold Nat.ltb in L. cbn [Nat.leb] in L.
  destruct (List.length ss) as [|p'] eqn:Ep; [lia|]. rewrite L.
  unfold swap_last2. cbn [List.length Nat.sub firstn nth app at_depth].
  f_equal. f_equal. unfold tr_transp. cbn [kids]. f_equal.
  apply map_ext_in. intros j Hj. apply in_seq in Hj. f_equal. rewrite map_map.
  apply map_ext_in. intros str Hstr. unfold row_tr. cbn [kids].
  apply (nth_map_lt (fun c => Lf (interp_cp c)) str 0%N (Lf 0) j).
  unfold uniform in Hu. rewrite Forall_forall in Hu. rewrite (Hu str Hstr). lia.
Qed.

Example axis_convention_ex :
  (* mvarray('01X', 'N-r') *)
  mvarray [PStr [48; 49; 88]%N; PStr [78; 45; 114]%N] = Some ([3; 2], Nd [Nd [Lf 0; Lf 7]; Nd [Lf 3; Lf 2]; Nd [Lf 1; Lf 5]]).
Proof. reflexivity. Qed.

(** a single pattern gives a 1-D array (of any length, also 0 and 1) *)
Theorem single_pattern str : mvarray [PStr str] = Some ([List.length str], row_tr str).
Proof.
  destruct (Nat.eq_dec (List.length str) 1) as [H1|H1].
  - destruct str as [|c [|c' r]]; try discriminate. reflexivity.
  - unfold mvarray. cbn [map]. rewrite interpret_str by exact H1.
    assert (shape_of (Nd [row_tr str]) = Some [1; List.length str]) as Sh.
    { rewrite shape_of_uniform with (s := [List.length str]); [reflexivity | discriminate |].
      constructor; [|constructor]. unfold row_tr. apply shape_of_leaves. }
    rewrite Sh. reflexivity.
Qed.

(** characters (one-character strings) are scalars: given as separate arguments they form ONE vector, exactly like
    mvarray(1, 0, 1) *)
Theorem characters_one_vector cs :
  mvarray (map (fun c => PStr [c]) cs) = Some ([List.length cs], row_tr cs).
Proof.
  unfold mvarray. rewrite map_map. cbn [interpret]. fold (row_tr cs). unfold row_tr at 1. rewrite shape_of_leaves.
  cbn [List.length Nat.ltb Nat.leb]. reflexivity.
Qed.

(** * rendering *)
Lemma join_map_id {A} (l : list A) : map (fun x => x) l = l.
Proof. apply map_id. Qed.

Definition canon (str : list N) : list N := map (fun c => render (interp_cp c)) str.

Lemma mv_str_matrix ss s d :
  uniform s ss ->
  mv_str [s; List.length ss] (Nd (map (fun i => Nd (map (fun str => Lf (interp_cp (nth i str 0%N))) ss)) (seq 0 s))) d
  = Some (join d (map canon ss)).
Proof.
  intros Hu. unfold mv_str.
  set (t := Nd _).
  assert (forallb (fun v => v <? 8) (leaves t) = true) as F.
  { apply forallb_forall. intros v Hv. unfold t in Hv. cbn [leaves] in Hv.
    apply in_flat_map in Hv. destruct Hv as [r [Hr Hv]]. apply in_map_iff in Hr. destruct Hr as [i [<- _]].
    rewrite leaves_row in Hv. apply in_map_iff in Hv. destruct Hv as [str [<- _]].
    apply Nat.ltb_lt. apply interp_cp_lt. }
  rewrite F. cbn [negb]. f_equal. f_equal.
  unfold mv_str_lines, t. cbn [kids].
  transitivity (map (fun j => canon (nth j ss [])) (seq 0 (List.length ss))).
  2:{ apply (map_seq_nth_map canon ss [] (List.length ss) eq_refl). }
  apply map_ext_in. intros j Hj. apply in_seq in Hj. rewrite map_map.
  assert (List.length (nth j ss []) = s) as Lj.
  { unfold uniform in Hu. rewrite Forall_forall in Hu. apply Hu. apply nth_In. lia. }
  unfold canon. rewrite <- (map_seq_nth_map (fun c => render (interp_cp c)) (nth j ss []) 0%N s (eq_sym Lj)).
  apply map_ext_in. intros i Hi. rewrite leaves_row. f_equal.
  apply (nth_map_lt (fun str => interp_cp (nth i str 0%N)) ss [] 0 j). lia.
Qed.

Lemma canon_canonical str : Forall (fun c => In c render_chars) str -> canon str = str.
Proof.
  intros H. unfold canon. rewrite <- (map_id str) at 2. apply map_ext_in. intros c Hc.
  apply render_parse_canonical. rewrite Forall_forall in H. apply H. exact Hc.
Qed.

(** strings -> multi-valued array -> strings: every pattern comes back in canonical spelling; canonical patterns
    ('0X-1PRFN' only) come back unchanged *)
Theorem str_roundtrip ss s d :
  2 <= List.length ss -> uniform s ss -> s <> 1 ->
  exists sh t, mvarray (map PStr ss) = Some (sh, t) /\ mv_str sh t d = Some (join d (map canon ss)) /\
               (Forall (Forall (fun c => In c render_chars)) ss -> mv_str sh t d = Some (join d ss)).
Proof.
  intros Hp Hu Hs. eexists. eexists. split; [apply axis_convention; eassumption|].
  split; [apply mv_str_matrix; exact Hu|].
  intros Hc. rewrite mv_str_matrix by exact Hu. f_equal. f_equal.
  rewrite <- (map_id ss) at 2. apply map_ext_in. intros str Hstr. apply canon_canonical.
  rewrite Forall_forall in Hc. apply Hc. exact Hstr.
Qed.

Theorem str_roundtrip_1 str d :
  exists sh t, mvarray [PStr str] = Some (sh, t) /\ mv_str sh t d = Some (canon str) /\
               (Forall (fun c => In c render_chars) str -> mv_str sh t d = Some str).
Proof.
  eexists. eexists. split; [apply single_pattern|].
  assert (mv_str [List.length str] (row_tr str) d = Some (canon str)) as E.
  { unfold mv_str, row_tr. rewrite leaves_row.
    assert (forallb (fun v => v <? 8) (map interp_cp str) = true) as F.
    { apply forallb_forall. intros v Hv. apply in_map_iff in Hv. destruct Hv as [c [<- _]]. apply Nat.ltb_lt, interp_cp_lt. }
    rewrite F. cbn [negb]. unfold canon. rewrite map_map. reflexivity. }
  split; [exact E|]. intros Hc. rewrite E, canon_canonical by exact Hc. reflexivity.
Qed.

Example str_roundtrip_ex :
  (* mv_str(mvarray('0X-1PRFN', 'lxZhp/\\v')) = '0X-1PRFN\n0X-1PRFN' *)
  let a := [48; 88; 45; 49; 80; 82; 70; 78]%N in let b := [108; 120; 90; 104; 112; 47; 92; 118]%N in
  exists sh t, mvarray [PStr a; PStr b] = Some (sh, t) /\ mv_str sh t [10%N] = Some (a ++ [10%N] ++ a).
Proof. eexists. eexists. split; reflexivity. Qed.

(** multi-valued array -> strings -> multi-valued array *)
Definition tr_of_mat (m : list (list nat)) : tr := Nd (map (fun r => Nd (map Lf r)) m).

Theorem mv_str_roundtrip m p :
  2 <= p -> List.length m <> 1 -> Forall (fun r => List.length r = p /\ Forall (fun v => v < 8) r) m ->
  mvarray (map PStr (mv_str_lines p (tr_of_mat m))) = Some ([List.length m; p], tr_of_mat m).
Proof.
  intros Hp Hs Hm.
  set (cols := mv_str_lines p (tr_of_mat m)).
  assert (List.length cols = p) as Lc by (unfold cols, mv_str_lines; rewrite map_length, seq_length; reflexivity).
  assert (cols = map (fun j => map (fun row => render (nth j row 0)) m) (seq 0 p)) as Ec.
  { unfold cols, mv_str_lines, tr_of_mat. cbn [kids]. apply map_ext. intros j. rewrite map_map.
    apply map_ext. intros row. rewrite (leaves_row (fun x => x)), map_id. reflexivity. }
  assert (uniform (List.length m) cols) as Hu.
  { unfold uniform. rewrite Ec. apply Forall_forall. intros c Hc. apply in_map_iff in Hc. destruct Hc as [j [<- _]]. apply map_length. }
  rewrite (axis_convention cols (List.length m)) by (try assumption; lia).
  rewrite Lc. f_equal. f_equal. unfold tr_of_mat. f_equal.
  rewrite <- (map_seq_nth_map (fun r => Nd (map Lf r)) m [] (List.length m) eq_refl).
  apply map_ext_in. intros i Hi. apply in_seq in Hi. f_equal.
  assert (List.length (nth i m []) = p /\ Forall (fun v => v < 8) (nth i m [])) as [Li Vi].
  { rewrite Forall_forall in Hm. apply Hm. apply nth_In. lia. }
  rewrite <- (map_seq_nth_map Lf (nth i m []) 0 p (eq_sym Li)).
  rewrite Ec, map_map. apply map_ext_in. intros j Hj. apply in_seq in Hj. f_equal.
  rewrite (nth_map_lt (fun row => render (nth j row 0)) m [] 0%N i) by lia.
  apply parse_render. rewrite Forall_forall in Vi. apply Vi. apply nth_In. lia.
Qed.

Theorem mv_str_roundtrip_1 v :
  Forall (fun x => x < 8) v -> mvarray [PStr (map render v)] = Some ([List.length v], Nd (map Lf v)).
Proof.
  intros H. rewrite single_pattern, map_length. f_equal. f_equal. unfold row_tr. rewrite map_map. f_equal.
  apply map_ext_in. intros x Hx. f_equal. apply parse_render. rewrite Forall_forall in H. apply H. exact Hx.
Qed.

Example mv_str_roundtrip_ex :
  let m := [[0; 1; 2]; [3; 4; 5]; [6; 7; 0]; [1; 2; 3]] in
  mv_str [4; 3] (tr_of_mat m) [10%N] = Some [48; 49; 70; 88; 10; 88; 80; 78; 45; 10; 45; 82; 48; 49]%N /\
  mvarray (map PStr (mv_str_lines 3 (tr_of_mat m))) = Some ([4; 3], tr_of_mat m).
Proof. split; reflexivity. Qed.

(** * the two table theorems of C15 *)
Theorem render_parse :
  (forall v, v < 8 -> interp_cp (render v) = v /\ render v = N.of_nat (nth v render_table 0)) /\
  render_chars = map N_of_ascii ["0"; "X"; "-"; "1"; "P"; "R"; "F"; "N"]%char /\
  value_consts = [ZERO; UNKNOWN; UNASSIGNED; ONE; PPULSE; RISE; FALL; NPULSE] /\
  (forall v cs, In (v, cs) doc_aliases -> render v = N.of_nat (hd 0 cs)).
Proof.
  split; [|split; [reflexivity | split; [exact value_consts_ok|]]].
  - intros v Hv. pose proof render_parse_all as A. rewrite forallb_forall in A.
    specialize (A v (proj2 (in_seq 8 0 v) (conj (Nat.le_0_l v) Hv))).
    apply andb_prop in A. destruct A as [A1 A2]. split; [apply Nat.eqb_eq; exact A1 | apply N.eqb_eq; exact A2].
  - intros v cs H. pose proof doc_first_is_render as A. rewrite forallb_forall in A.
    specialize (A _ H). apply N.eqb_eq in A. exact A.
Qed.

Theorem alias_table :
  (* the transcription agrees with the real interpret on every one-character string 0..255 and on the scalars *)
  (forall c, c < 256 -> interp_cp (N.of_nat c) = nth c interp_table 1) /\
  (interp_atom (ABool true) = interp_true /\ interp_atom (ABool false) = interp_false /\ interp_atom ANone = interp_none /\
   interp_atom (AInt 0) = interp_int0 /\ interp_atom (AInt 1) = interp_int1 /\ interp_atom (AInt 2) = interp_int2 /\
   interp_atom (AInt (-1)) = interp_intm1) /\
  (* every documented alias parses to its value; there is one docstring per value *)
  map fst doc_aliases = seq 0 8 /\
  (forall v cs c, In (v, cs) doc_aliases -> In c cs -> interp_cp (N.of_nat c) = v) /\
  (forall v r, In (v, r) doc_scalar_aliases -> r = v) /\ documented_scalars = 5 /\
  (* every other character -- any code point whatsoever -- is UNKNOWN *)
  (forall c : N, ~ In c doc_chars -> interp_cp c = UNKNOWN).
Proof.
  split; [|split; [exact interp_scalars | split; [exact doc_values | split; [|split; [|split; [reflexivity | exact undocumented_is_unknown]]]]]].
  - intros c Hc. pose proof interp_table_all as A. rewrite forallb_forall in A.
    apply Nat.eqb_eq. apply A. apply in_seq. split; [apply Nat.le_0_l | exact Hc].
  - intros v cs c H Hc. pose proof doc_aliases_parse as A. rewrite forallb_forall in A.
    specialize (A _ H). cbn [fst snd] in A. rewrite forallb_forall in A. apply Nat.eqb_eq. apply A. exact Hc.
  - intros v r H. destruct doc_scalars_parse as [A _]. rewrite forallb_forall in A.
    specialize (A _ H). cbn [fst snd] in A. apply Nat.eqb_eq in A. symmetry. exact A.
Qed.
