(** C12: the traced operators of logic.py (both storage formats) equal the specification algebra. *)
From Coq Require Import List NArith Bool Arith Lia.
From KV Require Import Model.Bits Model.Logic Proofs.BitsLift Proofs.LogicSweep Gen.LogicOps.
Import ListNotations.

Definition fam_ok (mdim : nat) chk spec (fam : list prog) (arities : list nat) : bool :=
  (length fam =? length arities) &&
  forallb (fun kp => op_ok mdim chk spec (fst kp) (snd kp)) (combine arities fam).

Definition un (f : code -> code) (l : list code) : code := f (hd Zero l).

Lemma ok_bp8_and : fam_ok 3 out_is3 spec_and bp8_and [1;2;3;4] = true.
Proof. vm_compute. reflexivity. Qed.
Lemma ok_bp8_or : fam_ok 3 out_is3 spec_or bp8_or [1;2;3;4] = true.
Proof. vm_compute. reflexivity. Qed.
Lemma ok_bp8_xor : fam_ok 3 out_is3 spec_xor bp8_xor [1;2;3;4] = true.
Proof. vm_compute. reflexivity. Qed.
Lemma ok_bp8_not : fam_ok 3 out_is3 (un spec_not) bp8_not [1] = true.
Proof. vm_compute. reflexivity. Qed.
Lemma ok_bp8_buf : fam_ok 3 out_is3 (un spec_buf) bp8_buf [1] = true.
Proof. vm_compute. reflexivity. Qed.
Lemma ok_bp4_and : fam_ok 2 out_is2 spec_and bp4_and [1;2;3;4] = true.
Proof. vm_compute. reflexivity. Qed.
Lemma ok_bp4_or : fam_ok 2 out_is2 spec_or bp4_or [1;2;3;4] = true.
Proof. vm_compute. reflexivity. Qed.
Lemma ok_bp4_xor : fam_ok 2 out_is2 spec_xor bp4_xor [1;2;3;4] = true.
Proof. vm_compute. reflexivity. Qed.
Lemma ok_bp4_not : fam_ok 2 out_is2 (un spec_not) bp4_not [1] = true.
Proof. vm_compute. reflexivity. Qed.
Lemma ok_bp4_buf : fam_ok 2 out_is2 (un spec_buf) bp4_buf [1] = true.
Proof. vm_compute. reflexivity. Qed.
Lemma ok_mv_and : fam_ok 3 out_is8 spec_and mv_and [1;2;3;4] = true.
Proof. vm_compute. reflexivity. Qed.
Lemma ok_mv_or : fam_ok 3 out_is8 spec_or mv_or [1;2;3;4] = true.
Proof. vm_compute. reflexivity. Qed.
Lemma ok_mv_xor : fam_ok 3 out_is8 spec_xor mv_xor [1;2;3;4] = true.
Proof. vm_compute. reflexivity. Qed.
Lemma ok_mv_not : fam_ok 3 out_is8 (un spec_not) mv_not [1] = true.
Proof. vm_compute. reflexivity. Qed.

Lemma fam_ok_nth mdim chk spec fam ar :
  fam_ok mdim chk spec fam ar = true ->
  forall i k, nth_error ar i = Some k -> exists p, nth_error fam i = Some p /\ op_ok mdim chk spec k p = true.
Proof.
  unfold fam_ok. intro H. apply andb_true_iff in H. destruct H as [Hl H].
  apply Nat.eqb_eq in Hl. rewrite forallb_forall in H.
  intros i k Hk.
  assert (Hi : i < length fam) by (rewrite Hl; apply nth_error_Some; congruence).
  destruct (nth_error fam i) as [p|] eqn:Hp; [|apply nth_error_None in Hp; lia].
  exists p. split; [reflexivity|].
  apply (H (k, p)).
  clear - Hk Hp. revert i fam Hk Hp.
  induction ar as [|a ar IH]; intros [|i] [|q fam] Hk Hp; cbn in *; try discriminate.
  - left. congruence.
  - right. eapply IH; eassumption.
Qed.

Lemma ar4 k : 1 <= k <= 4 -> nth_error [1;2;3;4] (k - 1) = Some k.
Proof. intros [H1 H4]. destruct k as [|[|[|[|[|k]]]]]; try lia; reflexivity. Qed.

(** one statement per storage format; [fam] ranges over the three n-ary operators *)
Inductive nary := OpAnd | OpOr | OpXor.
Definition spec_of (o : nary) := match o with OpAnd => spec_and | OpOr => spec_or | OpXor => spec_xor end.
Definition bp8_of (o : nary) := match o with OpAnd => bp8_and | OpOr => bp8_or | OpXor => bp8_xor end.
Definition bp4_of (o : nary) := match o with OpAnd => bp4_and | OpOr => bp4_or | OpXor => bp4_xor end.
Definition mv_of (o : nary) := match o with OpAnd => mv_and | OpOr => mv_or | OpXor => mv_xor end.
Definition zeros5 := [false; false; false; false; false].

Lemma fam_pick (o : nary) :
  fam_ok 3 out_is3 (spec_of o) (bp8_of o) [1;2;3;4] = true /\
  fam_ok 2 out_is2 (spec_of o) (bp4_of o) [1;2;3;4] = true /\
  fam_ok 3 out_is8 (spec_of o) (mv_of o) [1;2;3;4] = true.
Proof.
  destruct o; cbn [spec_of bp8_of bp4_of mv_of].
  - exact (conj ok_bp8_and (conj ok_bp4_and ok_mv_and)).
  - exact (conj ok_bp8_or (conj ok_bp4_or ok_mv_or)).
  - exact (conj ok_bp8_xor (conj ok_bp4_xor ok_mv_xor)).
Qed.

Lemma unary_pick :
  fam_ok 3 out_is3 (un spec_not) bp8_not [1] = true /\ fam_ok 3 out_is3 (un spec_buf) bp8_buf [1] = true /\
  fam_ok 2 out_is2 (un spec_not) bp4_not [1] = true /\ fam_ok 2 out_is2 (un spec_buf) bp4_buf [1] = true /\
  fam_ok 3 out_is8 (un spec_not) mv_not [1] = true.
Proof. exact (conj ok_bp8_not (conj ok_bp8_buf (conj ok_bp4_not (conj ok_bp4_buf ok_mv_not)))). Qed.

Theorem bp8_nary_spec o k cs : 1 <= k <= 4 -> length cs = k ->
  exists p, nth_error (bp8_of o) (k - 1) = Some p /\ run_bool p (encode_ins 3 cs) = code_bits (spec_of o cs).
Proof.
  intros Hk Hl. destruct (fam_pick o) as [H8 _].
  destruct (fam_ok_nth _ _ _ _ _ H8 (k - 1) k (ar4 k Hk)) as [p [Hp Hok]].
  exists p. split; [exact Hp|]. apply bools_eqb_eq. apply (op_ok_sound3 _ _ _ _ Hok cs Hl).
Qed.

Theorem bp4_nary_spec o k cs : 1 <= k <= 4 -> length cs = k -> forallb is4 cs = true ->
  exists p, nth_error (bp4_of o) (k - 1) = Some p /\
            run_bool p (encode_ins 2 cs) = firstn 2 (code_bits (spec_of o cs)) /\ is4 (spec_of o cs) = true.
Proof.
  intros Hk Hl H4. destruct (fam_pick o) as [_ [H4' _]].
  destruct (fam_ok_nth _ _ _ _ _ H4' (k - 1) k (ar4 k Hk)) as [p [Hp Hok]].
  exists p. split; [exact Hp|].
  pose proof (op_ok_sound2 _ _ _ _ Hok cs Hl H4) as Hs. unfold out_is2 in Hs.
  apply andb_true_iff in Hs. destruct Hs as [Ha Hb]. split; [apply bools_eqb_eq; exact Hb | exact Ha].
Qed.

Theorem mv_nary_spec o k cs : 1 <= k <= 4 -> length cs = k ->
  exists p, nth_error (mv_of o) (k - 1) = Some p /\
            run_bool p (encode_ins 3 cs) = code_bits (spec_of o cs) ++ zeros5.
Proof.
  intros Hk Hl. destruct (fam_pick o) as [_ [_ Hm]].
  destruct (fam_ok_nth _ _ _ _ _ Hm (k - 1) k (ar4 k Hk)) as [p [Hp Hok]].
  exists p. split; [exact Hp|]. apply bools_eqb_eq. apply (op_ok_sound3 _ _ _ _ Hok cs Hl).
Qed.

Theorem unary_spec c :
  (exists p, nth_error bp8_not 0 = Some p /\ run_bool p (code_bits c) = code_bits (spec_not c)) /\
  (exists p, nth_error bp8_buf 0 = Some p /\ run_bool p (code_bits c) = code_bits (spec_buf c)) /\
  (exists p, nth_error mv_not 0 = Some p /\ run_bool p (code_bits c) = code_bits (spec_not c) ++ zeros5) /\
  (is4 c = true ->
     (exists p, nth_error bp4_not 0 = Some p /\ run_bool p (firstn 2 (code_bits c)) = firstn 2 (code_bits (spec_not c))) /\
     (exists p, nth_error bp4_buf 0 = Some p /\ run_bool p (firstn 2 (code_bits c)) = firstn 2 (code_bits (spec_buf c)))).
Proof.
  destruct unary_pick as [H1 [H2 [H3 [H4 H5]]]].
  assert (E3 : encode_ins 3 [c] = code_bits c) by (destruct c; reflexivity).
  assert (E2 : encode_ins 2 [c] = firstn 2 (code_bits c)) by (destruct c; reflexivity).
  split; [|split; [|split; [|intro Hc4; split]]].
  - destruct (fam_ok_nth _ _ _ _ _ H1 0 1 eq_refl) as [p [Hp Hok]].
    exists p. split; [exact Hp|].
    rewrite <- E3. apply bools_eqb_eq. apply (op_ok_sound3 _ _ _ _ Hok [c] eq_refl).
  - destruct (fam_ok_nth _ _ _ _ _ H2 0 1 eq_refl) as [p [Hp Hok]].
    exists p. split; [exact Hp|].
    rewrite <- E3. apply bools_eqb_eq. apply (op_ok_sound3 _ _ _ _ Hok [c] eq_refl).
  - destruct (fam_ok_nth _ _ _ _ _ H5 0 1 eq_refl) as [p [Hp Hok]].
    exists p. split; [exact Hp|].
    rewrite <- E3. apply bools_eqb_eq. apply (op_ok_sound3 _ _ _ _ Hok [c] eq_refl).
  - destruct (fam_ok_nth _ _ _ _ _ H3 0 1 eq_refl) as [p [Hp Hok]].
    exists p. split; [exact Hp|].
    rewrite <- E2.
    assert (Hc : forallb is4 [c] = true) by (cbn [forallb]; rewrite Hc4; reflexivity).
    pose proof (op_ok_sound2 _ _ _ _ Hok [c] eq_refl Hc) as Hs. unfold out_is2 in Hs.
    apply andb_true_iff in Hs. apply bools_eqb_eq. apply Hs.
  - destruct (fam_ok_nth _ _ _ _ _ H4 0 1 eq_refl) as [p [Hp Hok]].
    exists p. split; [exact Hp|].
    rewrite <- E2.
    assert (Hc : forallb is4 [c] = true) by (cbn [forallb]; rewrite Hc4; reflexivity).
    pose proof (op_ok_sound2 _ _ _ _ Hok [c] eq_refl Hc) as Hs. unfold out_is2 in Hs.
    apply andb_true_iff in Hs. apply bools_eqb_eq. apply Hs.
Qed.

(** IN PLACE: the unary operators called with the output array being the operand (bp4v_not(x, x) etc.; LogicSim evaluates every
    inverting gate as `bp?v_<op>(c[o], ...); bp?v_not(c[o], c[o])`), traced with ONE symbolic array for both arguments so that a plane
    read after it has been written is the new plane, compute the same function *)
Lemma ok_bp8_not_inplace : fam_ok 3 out_is3 (un spec_not) bp8_not_inplace [1] = true.
Proof. vm_compute. reflexivity. Qed.
Lemma ok_bp8_buf_inplace : fam_ok 3 out_is3 (un spec_buf) bp8_buf_inplace [1] = true.
Proof. vm_compute. reflexivity. Qed.
Lemma ok_bp4_not_inplace : fam_ok 2 out_is2 (un spec_not) bp4_not_inplace [1] = true.
Proof. vm_compute. reflexivity. Qed.
Lemma ok_bp4_buf_inplace : fam_ok 2 out_is2 (un spec_buf) bp4_buf_inplace [1] = true.
Proof. vm_compute. reflexivity. Qed.

Theorem unary_inplace_spec c :
  (exists p, nth_error bp8_not_inplace 0 = Some p /\ run_bool p (code_bits c) = code_bits (spec_not c)) /\
  (exists p, nth_error bp8_buf_inplace 0 = Some p /\ run_bool p (code_bits c) = code_bits (spec_buf c)) /\
  (is4 c = true ->
     (exists p, nth_error bp4_not_inplace 0 = Some p /\ run_bool p (firstn 2 (code_bits c)) = firstn 2 (code_bits (spec_not c))) /\
     (exists p, nth_error bp4_buf_inplace 0 = Some p /\ run_bool p (firstn 2 (code_bits c)) = firstn 2 (code_bits (spec_buf c)))).
Proof.
  assert (E3 : encode_ins 3 [c] = code_bits c) by (destruct c; reflexivity).
  assert (E2 : encode_ins 2 [c] = firstn 2 (code_bits c)) by (destruct c; reflexivity).
  split; [|split; [|intro Hc4; split]].
  - destruct (fam_ok_nth _ _ _ _ _ ok_bp8_not_inplace 0 1 eq_refl) as [p [Hp Hok]].
    exists p. split; [exact Hp|].
    rewrite <- E3. apply bools_eqb_eq. apply (op_ok_sound3 _ _ _ _ Hok [c] eq_refl).
  - destruct (fam_ok_nth _ _ _ _ _ ok_bp8_buf_inplace 0 1 eq_refl) as [p [Hp Hok]].
    exists p. split; [exact Hp|].
    rewrite <- E3. apply bools_eqb_eq. apply (op_ok_sound3 _ _ _ _ Hok [c] eq_refl).
  - destruct (fam_ok_nth _ _ _ _ _ ok_bp4_not_inplace 0 1 eq_refl) as [p [Hp Hok]].
    exists p. split; [exact Hp|].
    rewrite <- E2.
    assert (Hc : forallb is4 [c] = true) by (cbn [forallb]; rewrite Hc4; reflexivity).
    pose proof (op_ok_sound2 _ _ _ _ Hok [c] eq_refl Hc) as Hs. unfold out_is2 in Hs.
    apply andb_true_iff in Hs. apply bools_eqb_eq. apply Hs.
  - destruct (fam_ok_nth _ _ _ _ _ ok_bp4_buf_inplace 0 1 eq_refl) as [p [Hp Hok]].
    exists p. split; [exact Hp|].
    rewrite <- E2.
    assert (Hc : forallb is4 [c] = true) by (cbn [forallb]; rewrite Hc4; reflexivity).
    pose proof (op_ok_sound2 _ _ _ _ Hok [c] eq_refl Hc) as Hs. unfold out_is2 in Hs.
    apply andb_true_iff in Hs. apply bools_eqb_eq. apply Hs.
Qed.

(** the two storage formats agree (corollary) *)
Theorem mv_bp_agree o k cs : 1 <= k <= 4 -> length cs = k ->
  exists pm pb, nth_error (mv_of o) (k - 1) = Some pm /\ nth_error (bp8_of o) (k - 1) = Some pb /\
                run_bool pm (encode_ins 3 cs) = run_bool pb (encode_ins 3 cs) ++ zeros5.
Proof.
  intros Hk Hl. destruct (mv_nary_spec o k cs Hk Hl) as [pm [Hm Em]].
  destruct (bp8_nary_spec o k cs Hk Hl) as [pb [Hb Eb]].
  exists pm, pb. repeat split; try assumption. rewrite Em, Eb. reflexivity.
Qed.

(** restriction to 0/1: the Boolean operators, for operand lists of ANY length *)
Lemma and_bool bs : spec_and (map code_of_bool bs) = code_of_bool (forallb (fun b => b) bs).
Proof.
  assert (A : forall bs, existsb (code_eqb Zero) (map code_of_bool bs) = negb (forallb (fun b => b) bs)).
  { induction bs0 as [|b bs0 IH]; [reflexivity|]. cbn [map existsb forallb]. rewrite IH. destruct b; reflexivity. }
  assert (U : forall bs, existsb unknownish (map code_of_bool bs) = false).
  { induction bs0 as [|b bs0 IH]; [reflexivity|]. cbn [map existsb]. rewrite IH. destruct b; reflexivity. }
  assert (F : forall bs, forallb fin (map code_of_bool bs) = forallb (fun b => b) bs).
  { induction bs0 as [|b bs0 IH]; [reflexivity|]. cbn [map forallb]. rewrite IH. destruct b; reflexivity. }
  assert (I : forall bs, forallb ini (map code_of_bool bs) = forallb (fun b => b) bs).
  { induction bs0 as [|b bs0 IH]; [reflexivity|]. cbn [map forallb]. rewrite IH. destruct b; reflexivity. }
  assert (C : forall bs, existsb act (map code_of_bool bs) = false).
  { induction bs0 as [|b bs0 IH]; [reflexivity|]. cbn [map existsb]. rewrite IH. destruct b; reflexivity. }
  unfold spec_and. rewrite A, U, F, I, C. destruct (forallb (fun b => b) bs); reflexivity.
Qed.

Lemma or_bool bs : spec_or (map code_of_bool bs) = code_of_bool (existsb (fun b => b) bs).
Proof.
  assert (A : forall bs, existsb (code_eqb One) (map code_of_bool bs) = existsb (fun b => b) bs).
  { induction bs0 as [|b bs0 IH]; [reflexivity|]. cbn [map existsb]. rewrite IH. destruct b; reflexivity. }
  assert (U : forall bs, existsb unknownish (map code_of_bool bs) = false).
  { induction bs0 as [|b bs0 IH]; [reflexivity|]. cbn [map existsb]. rewrite IH. destruct b; reflexivity. }
  assert (F : forall bs, existsb fin (map code_of_bool bs) = existsb (fun b => b) bs).
  { induction bs0 as [|b bs0 IH]; [reflexivity|]. cbn [map existsb]. rewrite IH. destruct b; reflexivity. }
  assert (I : forall bs, existsb ini (map code_of_bool bs) = existsb (fun b => b) bs).
  { induction bs0 as [|b bs0 IH]; [reflexivity|]. cbn [map existsb]. rewrite IH. destruct b; reflexivity. }
  assert (C : forall bs, existsb act (map code_of_bool bs) = false).
  { induction bs0 as [|b bs0 IH]; [reflexivity|]. cbn [map existsb]. rewrite IH. destruct b; reflexivity. }
  unfold spec_or. rewrite A, U, F, I, C. destruct (existsb (fun b => b) bs); reflexivity.
Qed.

Lemma xor_bool bs : spec_xor (map code_of_bool bs) = code_of_bool (fold_right xorb false bs).
Proof.
  assert (U : forall bs, existsb unknownish (map code_of_bool bs) = false).
  { induction bs0 as [|b bs0 IH]; [reflexivity|]. cbn [map existsb]. rewrite IH. destruct b; reflexivity. }
  assert (F : forall bs, map fin (map code_of_bool bs) = bs).
  { induction bs0 as [|b bs0 IH]; [reflexivity|]. cbn [map]. rewrite IH. destruct b; reflexivity. }
  assert (I : forall bs, map ini (map code_of_bool bs) = bs).
  { induction bs0 as [|b bs0 IH]; [reflexivity|]. cbn [map]. rewrite IH. destruct b; reflexivity. }
  assert (C : forall bs, existsb act (map code_of_bool bs) = false).
  { induction bs0 as [|b bs0 IH]; [reflexivity|]. cbn [map existsb]. rewrite IH. destruct b; reflexivity. }
  unfold spec_xor. rewrite U, F, I, C. destruct (fold_right xorb false bs); reflexivity.
Qed.

Lemma not_bool b : spec_not (code_of_bool b) = code_of_bool (negb b).
Proof. destruct b; reflexivity. Qed.

(** De Morgan on {0,1}, any number of operands *)
Theorem de_morgan_bool bs :
  spec_not (spec_and (map code_of_bool bs)) = spec_or (map spec_not (map code_of_bool bs)) /\
  spec_not (spec_or (map code_of_bool bs)) = spec_and (map spec_not (map code_of_bool bs)).
Proof.
  assert (M : map spec_not (map code_of_bool bs) = map code_of_bool (map negb bs)).
  { rewrite !map_map. apply map_ext. intro b. apply not_bool. }
  rewrite M, !and_bool, !or_bool, !not_bool. clear M. split; f_equal.
  - induction bs as [|b bs IH]; [reflexivity|]. cbn [forallb existsb map]. rewrite <- IH. destruct b; reflexivity.
  - induction bs as [|b bs IH]; [reflexivity|]. cbn [forallb existsb map]. rewrite <- IH. destruct b; reflexivity.
Qed.

(** De Morgan on all eight values for 1..4 operands (finite, exhaustive) *)
Fixpoint tuples (k : nat) : list (list code) :=
  match k with 0 => [[]] | S k' => flat_map (fun t => map (fun c => c :: t) all_codes) (tuples k') end.

Lemma tuples_complete k cs : length cs = k -> In cs (tuples k).
Proof.
  revert cs. induction k as [|k IH]; intros cs Hl.
  - destruct cs; [left; reflexivity | discriminate].
  - destruct cs as [|c cs]; [discriminate|]. cbn [tuples]. apply in_flat_map.
    exists cs. split; [apply IH; cbn in Hl; lia|]. apply (in_map (fun c0 => c0 :: cs)). destruct c; cbn; tauto.
Qed.

Definition de_morgan8_chk : bool :=
  forallb (fun k => forallb (fun cs =>
      code_eqb (spec_not (spec_and cs)) (spec_or (map spec_not cs)) &&
      code_eqb (spec_not (spec_or cs)) (spec_and (map spec_not cs))) (tuples k)) [1;2;3;4].

Theorem de_morgan8 k cs : 1 <= k <= 4 -> length cs = k ->
  spec_not (spec_and cs) = spec_or (map spec_not cs) /\ spec_not (spec_or cs) = spec_and (map spec_not cs).
Proof.
  intros Hk Hl. assert (H : de_morgan8_chk = true) by (vm_compute; reflexivity).
  unfold de_morgan8_chk in H. rewrite forallb_forall in H.
  assert (Hin : In k [1;2;3;4]) by (cbn; lia).
  specialize (H k Hin). rewrite forallb_forall in H. specialize (H cs (tuples_complete k cs Hl)).
  apply andb_true_iff in H. destruct H as [A B]. split; apply code_eqb_eq; assumption.
Qed.

(** element-wise for any array shape / any number of lanes: numpy applies the traced bitwise
    operations to every byte; a byte array is its concatenation as one bit-vector of width w *)
Theorem lanes_independent w p ins lane : (lane < w)%N ->
  map (fun x => N.testbit x lane) (run_N w p ins) = run_bool p (map (fun x => N.testbit x lane) ins).
Proof. intro H. apply run_lift. exact H. Qed.

(** non-vacuity: a concrete mixed operand tuple *)
Example and_RFN1 : spec_and [Rise; Fall; NP; One] = PP /\ spec_or [Rise; Zero] = Rise /\ spec_xor [Rise; Fall] = NP.
Proof. repeat split. Qed.
