(** Signal-memory reuse (SimOps c_reuse=True): the memory map published by [build c caps cmin true false] passes the
    ownership certificate [map_check] on every well-formed netlist of known primitives, and port-level results do not
    depend on c_reuse.
    R1 [map_check_intro_nc]    a sufficient condition for [map_check] that tolerates SHARED locations: an index that is
                               still needed (pinned, or read by a later op) is never clobbered by an intervening write.
    R2 [events_main]           the allocation loop of SimOps.__init__ (alloc per op, release of the level's free_set at the
                               end of the level) keeps: the heap invariant; every index whose reference count at the
                               start of the level is positive owns a LIVE chunk, pairwise distinct; the free_set holds only
                               chunks of such indices whose count has reached 0.  Consequence: no-clobber for the final map.
    R3 [build_map_check_reuse] the certificate for [build _ _ _ true false]; [reuse_irrelevant] (C06).
    No new model definitions: [ev]/[events] below are proof-internal and proved equal to the model's fold of [level_alloc]. *)
From Coq Require Import List NArith ZArith Bool Arith Lia String Sorted.
From KV Require Import Model.Prims Model.Netlist Model.NetlistWf Model.Heap Model.HeapInv Model.SimOps Model.AllocCheck Model.SimOpsCert
     Model.NetlistSem Gen.SimTables Proofs.HeapProofs Proofs.AllocProofs Proofs.TopoProofs Proofs.SemProofs Proofs.SemCompose
     Proofs.EndToEnd Proofs.WfCheck.
Import List.
Import ListNotations.
Local Open Scope list_scope.

(* ------------------------------------------------------------------------------------------------ *)
(** * R1: a sufficient condition for [map_check] with shared locations *)

Section IntroNC.
  Variable loc : nat -> option nat.
  Variable alias : nat -> nat.
  Variable pinned : nat -> Prop.

  Definition ards (o : sop) : list nat := map alias (opnds o).

  Lemma own_run_nc init : forall todo dn w,
    (forall o, In o todo -> alias (s_out o) = s_out o /\ loc (s_out o) <> None) ->
    (forall pre o post, todo = pre ++ o :: post -> forall x, In x (opnds o) ->
        loc x <> None /\ loc x = loc (alias x) /\ (In (alias x) init \/ In (alias x) (map s_out (dn ++ pre)))) ->
    (forall pre o post, todo = pre ++ o :: post -> forall y, y <> s_out o ->
        (In y init \/ In y (map s_out (dn ++ pre))) -> (pinned y \/ In y (flat_map ards (o :: post))) ->
        loc y <> loc (s_out o)) ->
    (forall y, (In y init \/ In y (map s_out dn)) -> (pinned y \/ In y (flat_map ards todo)) -> R loc w y) ->
    exists w', own_run loc alias w todo = Some w' /\
      (forall y, (In y init \/ In y (map s_out (dn ++ todo))) -> pinned y -> R loc w' y).
  Proof.
    induction todo as [|o r IH]; intros dn w Hout Hdef Hnc Hinv.
    - exists w. split; [reflexivity|]. intros y Hy Hp. rewrite app_nil_r in Hy. apply Hinv; auto.
    - destruct (Hout o (or_introl eq_refl)) as (Ao & Lo).
      destruct (loc (s_out o)) as [lo|] eqn:Elo; [|congruence].
      assert (Hrd : forall x, In x (opnds o) -> readable loc alias w x && alias_ok loc alias x = true).
      { intros x Hx. destruct (Hdef [] o r eq_refl x Hx) as (L1 & L2 & L3). rewrite app_nil_r in L3.
        destruct (Hinv (alias x) L3) as (l & Ll & Gl).
        { right. cbn [flat_map]. apply in_or_app. left. unfold ards. apply in_map. exact Hx. }
        unfold readable, alias_ok. rewrite L2, Ll, Gl, !Nat.eqb_refl. reflexivity. }
      destruct (IH (dn ++ [o]) (oset w lo (s_out o))) as (w' & Hr & Hfin).
      + intros o' Ho'. apply Hout. right. exact Ho'.
      + intros pre o' post E x Hx. rewrite <- app_assoc. cbn [app]. apply (Hdef (o :: pre) o' post); [rewrite E; reflexivity|exact Hx].
      + intros pre o' post E y Hy Hd Hn. rewrite <- app_assoc in Hd. cbn [app] in Hd.
        apply (Hnc (o :: pre) o' post); [rewrite E; reflexivity|exact Hy|exact Hd|exact Hn].
      + intros y Hd Hn. destruct (Nat.eq_dec y (s_out o)) as [->|Ny].
        * exists lo. split; [exact Elo|]. rewrite oget_oset, Nat.eqb_refl. reflexivity.
        * assert (Hd' : In y init \/ In y (map s_out dn)).
          { destruct Hd as [Hd|Hd]; [left; exact Hd|]. rewrite map_app in Hd. apply in_app_or in Hd.
            destruct Hd as [Hd|[Hd|[]]]; [right; exact Hd|congruence]. }
          assert (Hn' : pinned y \/ In y (flat_map ards (o :: r))).
          { destruct Hn as [Hn|Hn]; [left; exact Hn|]. right. cbn [flat_map]. apply in_or_app. right. exact Hn. }
          destruct (Hinv y Hd' Hn') as (l & Ll & Gl). exists l. split; [exact Ll|].
          rewrite oget_oset. destruct (Nat.eqb l lo) eqn:El; [|exact Gl].
          apply Nat.eqb_eq in El. subst l. exfalso.
          apply (Hnc [] o r eq_refl y Ny); [rewrite app_nil_r; exact Hd'|exact Hn'|]. rewrite Ll, Elo. reflexivity.
      + exists w'. split.
        * cbn [own_run]. fold (opnds o).
          assert (Ef : forallb (fun x => readable loc alias w x && alias_ok loc alias x) (opnds o) = true)
            by (apply forallb_forall; exact Hrd).
          rewrite Ef, Ao, Nat.eqb_refl, Elo. exact Hr.
        * intros y Hy Hp. apply Hfin; [|exact Hp]. rewrite <- app_assoc. exact Hy.
  Qed.

  Theorem map_check_intro_nc init final ops :
    NoDup init ->
    (forall x, In x init -> alias x = x /\ loc x <> None) ->
    (forall x y l, In x init -> In y init -> loc x = Some l -> loc y = Some l -> x = y) ->
    (forall o, In o ops -> alias (s_out o) = s_out o /\ loc (s_out o) <> None) ->
    (forall pre o post, ops = pre ++ o :: post -> forall x, In x (opnds o) ->
        loc x <> None /\ loc x = loc (alias x) /\ (In (alias x) init \/ In (alias x) (map s_out pre))) ->
    (forall pre o post, ops = pre ++ o :: post -> forall y, y <> s_out o ->
        (In y init \/ In y (map s_out pre)) -> (pinned y \/ In y (flat_map ards (o :: post))) ->
        loc y <> loc (s_out o)) ->
    (forall p, In p final -> exists l, loc p = Some l /\ loc (alias p) = Some l /\ pinned (alias p) /\
                                       (In (alias p) init \/ In (alias p) (map s_out ops))) ->
    map_check loc alias init final ops = true.
  Proof.
    intros Hnd Hini Hinj Hout Hdef Hnc Hfin. unfold map_check. apply andb_true_iff. split.
    - apply forallb_forall. intros x Hx. apply Nat.eqb_eq. apply (Hini x Hx).
    - destruct (own_init_gen loc (fun x => In x init) Hinj init [] Hnd) as (w0 & Hf & Hw0 & _ & Hnew0).
      + intros x Hx. split; [exact Hx|apply (Hini x Hx)].
      + intros l y Hg. discriminate.
      + intros l y Hg. discriminate.
      + assert (E0 : own_init loc init = Some w0) by exact Hf. rewrite E0.
        destruct (own_run_nc init ops [] w0 Hout Hdef Hnc) as (w & Hr & Hw).
        { intros y [Hy|[]] _. apply Hnew0. exact Hy. }
        rewrite Hr. apply forallb_forall. intros p Hp.
        destruct (Hfin p Hp) as (l & Lp & La & Hpin & Hsrc).
        destruct (Hw (alias p) Hsrc Hpin) as (l' & Lq & Gq). rewrite La in Lq. injection Lq as <-.
        unfold readable, alias_ok. rewrite Lp, La, Gq, !Nat.eqb_refl. reflexivity.
  Qed.
End IntroNC.

(* ------------------------------------------------------------------------------------------------ *)
(** * Lists: occurrence counts, [addZ], the sorted free set *)

Definition occ (x : nat) (l : list nat) : Z := Z.of_nat (count_occ Nat.eq_dec l x).

Lemma occ_cons x a l : occ x (a :: l) = ((if Nat.eq_dec a x then 1 else 0) + occ x l)%Z.
Proof. unfold occ. cbn [count_occ]. destruct (Nat.eq_dec a x); lia. Qed.

Lemma occ_app x l1 l2 : occ x (l1 ++ l2) = (occ x l1 + occ x l2)%Z.
Proof. induction l1 as [|a r IH]; [reflexivity|]. cbn [app]. rewrite !occ_cons, IH. lia. Qed.

Lemma occ_nonneg x l : (0 <= occ x l)%Z.
Proof. unfold occ. lia. Qed.

Lemma occ_pos x l : In x l -> (0 < occ x l)%Z.
Proof. intros H. unfold occ. apply (count_occ_In Nat.eq_dec) in H. lia. Qed.

Lemma occ_zero x l : ~ In x l -> occ x l = 0%Z.
Proof. intros H. unfold occ. apply (count_occ_not_In Nat.eq_dec) in H. rewrite H. reflexivity. Qed.

Lemma addZ_length l i d : length (addZ l i d) = length l.
Proof. unfold addZ. apply setZ_length. Qed.

Lemma nth_addZ l i d x :
  nth x (addZ l i d) 0%Z = if Nat.eqb x i && Nat.ltb i (length l) then (nth x l 0 + d)%Z else nth x l 0%Z.
Proof.
  unfold addZ. rewrite nth_setZ. destruct (Nat.eqb x i) eqn:E; [|reflexivity].
  apply Nat.eqb_eq in E. subst x. reflexivity.
Qed.

Lemma fold_addZ_length d : forall ks l, length (fold_left (fun r k => addZ r k d) ks l) = length l.
Proof. induction ks as [|k ks IH]; intros l; [reflexivity|]. cbn [fold_left]. rewrite IH. apply addZ_length. Qed.

Lemma nth_fold_addZ d : forall ks l x, (forall k, In k ks -> k < length l) ->
  nth x (fold_left (fun r k => addZ r k d) ks l) 0%Z = (nth x l 0 + d * occ x ks)%Z.
Proof.
  induction ks as [|k ks IH]; intros l x H.
  - cbn. unfold occ. cbn. lia.
  - cbn [fold_left]. rewrite IH by (intros k' Hk'; rewrite addZ_length; apply H; right; exact Hk').
    rewrite nth_addZ, occ_cons.
    assert (Hk : k < length l) by (apply H; left; reflexivity). apply Nat.ltb_lt in Hk. rewrite Hk, andb_true_r.
    destruct (Nat.eq_dec k x) as [->|N].
    + rewrite Nat.eqb_refl. lia.
    + destruct (Nat.eqb x k) eqn:E; [apply Nat.eqb_eq in E; congruence|]. lia.
Qed.

Lemma set_add_In x l y : In y (set_add x l) <-> y = x \/ In y l.
Proof.
  induction l as [|a r IH]; cbn [set_add].
  - cbn. intuition.
  - destruct (x <? a)%Z; [cbn; intuition|]. destruct (x =? a)%Z eqn:E.
    + apply Z.eqb_eq in E. subst a. cbn. intuition.
    + cbn [In]. rewrite IH. intuition.
Qed.

Lemma set_add_sorted x l : StronglySorted Z.lt l -> StronglySorted Z.lt (set_add x l).
Proof.
  induction l as [|a r IH]; intros H; cbn [set_add].
  - constructor; constructor.
  - inversion H as [|? ? Hr Ha]; subst. destruct (x <? a)%Z eqn:E1.
    + apply Z.ltb_lt in E1. constructor; [exact H|]. constructor; [exact E1|].
      rewrite Forall_forall in *. intros z Hz. specialize (Ha z Hz). lia.
    + destruct (x =? a)%Z eqn:E2; [exact H|]. apply Z.ltb_ge in E1. apply Z.eqb_neq in E2.
      constructor; [apply IH; exact Hr|]. rewrite Forall_forall in *. intros z Hz.
      apply set_add_In in Hz. destruct Hz as [->|Hz]; [lia|apply Ha; exact Hz].
Qed.

Lemma ssorted_nodup l : StronglySorted Z.lt l -> NoDup l.
Proof.
  induction l as [|a r IH]; intros H; [constructor|]. inversion H as [|? ? Hr Ha]; subst.
  constructor; [|apply IH; exact Hr]. intros Hin. rewrite Forall_forall in Ha. specialize (Ha a Hin). lia.
Qed.

(* ------------------------------------------------------------------------------------------------ *)
(** * R2: the allocation loop as a list of events *)

Inductive ev := EOp (o : sop) | ERel.

Definition free_step (s : alloc_state) (loc : Z) : alloc_state :=
  match (if (0 <=? loc)%Z then free (a_heap s) (Z.to_N loc) else None) with
  | Some h' => {| a_heap := h'; a_locs := a_locs s; a_caps := a_caps s; a_ref := a_ref s; a_ok := a_ok s |}
  | None => {| a_heap := a_heap s; a_locs := a_locs s; a_caps := a_caps s; a_ref := a_ref s; a_ok := false |}
  end.
Definition release (st : alloc_state) (fs : list Z) : alloc_state := fold_left free_step fs st.

Fixpoint events (lvs : list (list sop)) : list ev :=
  match lvs with [] => [] | lv :: r => map EOp lv ++ ERel :: events r end.
Fixpoint ops_of (evs : list ev) : list sop :=
  match evs with [] => [] | EOp o :: r => o :: ops_of r | ERel :: r => ops_of r end.

Lemma ops_of_app a b : ops_of (a ++ b) = ops_of a ++ ops_of b.
Proof. induction a as [|[o|] r IH]; cbn; [reflexivity|rewrite IH; reflexivity|exact IH]. Qed.

Lemma ops_of_map lv : ops_of (map EOp lv) = lv.
Proof. induction lv as [|o r IH]; cbn; [reflexivity|rewrite IH; reflexivity]. Qed.

Lemma ops_of_events lvs : ops_of (events lvs) = concat lvs.
Proof.
  induction lvs as [|lv r IH]; [reflexivity|]. cbn [events concat]. rewrite ops_of_app, ops_of_map. cbn [ops_of].
  rewrite IH. reflexivity.
Qed.

Lemma ops_of_split : forall evs pre o post, ops_of evs = pre ++ o :: post ->
  exists pe qe, evs = pe ++ EOp o :: qe /\ ops_of pe = pre /\ ops_of qe = post.
Proof.
  induction evs as [|[o'|] r IH]; intros pre o post E; cbn [ops_of] in E.
  - destruct pre; discriminate.
  - destruct pre as [|p pre]; cbn [app] in E.
    + injection E as -> E. exists [], r. auto.
    + injection E as -> E. destruct (IH _ _ _ E) as (pe & qe & -> & <- & <-).
      exists (EOp p :: pe), qe. auto.
  - destruct (IH _ _ _ E) as (pe & qe & -> & <- & <-). exists (ERel :: pe), qe. auto.
Qed.

Section Alloc.
  Variable tmp : nat.
  Variable stems : list Z.
  Variable caps : list N.
  Variable cmin : N.
  Variable reuse : bool.
  Hypothesis Hcmin : (0 < cmin)%N.

  Definition ev_step (sf : alloc_state * list Z) (e : ev) : alloc_state * list Z :=
    match e with
    | EOp o => op_alloc tmp stems caps cmin sf o
    | ERel => (if reuse then release (fst sf) (snd sf) else fst sf, [])
    end.

  Lemma fold_evs_map lv : forall sf, fold_left ev_step (map EOp lv) sf = fold_left (op_alloc tmp stems caps cmin) lv sf.
  Proof. induction lv as [|o r IH]; intros sf; [reflexivity|]. cbn [map fold_left]. apply IH. Qed.

  Lemma level_alloc_gen st lv :
    level_alloc tmp stems caps cmin reuse st lv =
    if reuse then release (fst (fold_left (op_alloc tmp stems caps cmin) lv (st, []))) (snd (fold_left (op_alloc tmp stems caps cmin) lv (st, [])))
    else fst (fold_left (op_alloc tmp stems caps cmin) lv (st, [])).
  Proof. unfold level_alloc. destruct (fold_left (op_alloc tmp stems caps cmin) lv (st, [])) as [st1 fs]. destruct reuse; reflexivity. Qed.

  Lemma fold_levels_events : forall lvs st,
    fold_left (level_alloc tmp stems caps cmin reuse) lvs st = fst (fold_left ev_step (events lvs) (st, [])).
  Proof.
    induction lvs as [|lv r IH]; intros st; [reflexivity|]. cbn [fold_left events].
    rewrite fold_left_app, fold_evs_map. cbn [fold_left ev_step]. rewrite <- IH, level_alloc_gen. reflexivity.
  Qed.

  (** ** vocabulary *)
  Definition rd (o : sop) : list nat := map (stemmed stems) (opnds o).
  Definition cntR (x : nat) (todo : list sop) : Z := occ x (flat_map rd todo).
  Definition locZ (st : alloc_state) (x : nat) : Z := nth x (a_locs st) (-1)%Z.
  Definition refZ (st : alloc_state) (x : nat) : Z := nth x (a_ref st) 0%Z.
  Definition ald (st : alloc_state) (x : nat) : Prop := (0 <= locZ st x)%Z.
  Definition outs' (l : list sop) (x : nat) : Prop := x <> tmp /\ In x (map s_out l).
  Definition capok (o : sop) : Prop := nth_error caps (s_out o) <> None.

  Definition with_ref (st : alloc_state) (r : list Z) : alloc_state :=
    {| a_heap := a_heap st; a_locs := a_locs st; a_caps := a_caps st; a_ref := r; a_ok := a_ok st |}.
  Definition dec_refs (ks : list nat) (r : list Z) : list Z := fold_left (fun r k => addZ r k (-1)%Z) ks r.
  Definition add_fs (ref' locs : list Z) (ks : list nat) (fs : list Z) : list Z :=
    fold_left (fun f k => if (nth k ref' 0%Z <=? 0)%Z then set_add (nth k locs (-1)%Z) f else f) ks fs.

  Lemma op_alloc_eq st fs o :
    op_alloc tmp stems caps cmin (st, fs) o =
    (if Nat.eqb (s_out o) tmp then with_ref st (dec_refs (rd o) (a_ref st))
     else match nth_error caps (s_out o) with
          | None => {| a_heap := a_heap st; a_locs := a_locs st; a_caps := a_caps st;
                       a_ref := dec_refs (rd o) (a_ref st); a_ok := false |}
          | Some cp => alloc_slot cmin (with_ref st (dec_refs (rd o) (a_ref st))) (s_out o) (N.max cmin cp)
          end,
     add_fs (dec_refs (rd o) (a_ref st)) (a_locs st) (rd o) fs).
  Proof.
    unfold op_alloc. cbv zeta. destruct (Nat.eqb (s_out o) tmp); [reflexivity|].
    destruct (nth_error caps (s_out o)); reflexivity.
  Qed.

  Lemma add_fs_In ref' locs : forall ks fs l,
    In l (add_fs ref' locs ks fs) <-> In l fs \/ exists k, In k ks /\ (nth k ref' 0 <= 0)%Z /\ l = nth k locs (-1)%Z.
  Proof.
    induction ks as [|k ks IH]; intros fs l.
    - cbn. split; [auto|]. intros [H|(k & [] & _)]. exact H.
    - unfold add_fs in *. cbn [fold_left]. rewrite IH. destruct (nth k ref' 0 <=? 0)%Z eqn:E.
      + apply Z.leb_le in E. rewrite set_add_In. split.
        * intros [[->|H]|(k' & H1 & H2 & H3)]; [right; exists k; cbn; auto|left; exact H|right; exists k'; cbn; auto].
        * intros [H|(k' & [<-|H1] & H2 & H3)]; [left; right; exact H|left; left; exact H3|right; exists k'; auto].
      + apply Z.leb_gt in E. split.
        * intros [H|(k' & H1 & H2 & H3)]; [left; exact H|right; exists k'; cbn; auto].
        * intros [H|(k' & [<-|H1] & H2 & H3)]; [left; exact H|lia|right; exists k'; auto].
  Qed.

  Lemma add_fs_sorted ref' locs : forall ks fs, StronglySorted Z.lt fs -> StronglySorted Z.lt (add_fs ref' locs ks fs).
  Proof.
    induction ks as [|k ks IH]; intros fs H; [exact H|]. unfold add_fs in *. cbn [fold_left]. apply IH.
    destruct (nth k ref' 0 <=? 0)%Z; [apply set_add_sorted; exact H|exact H].
  Qed.

  Lemma alloc_slot_eq st idx cap :
    alloc_slot cmin st idx cap =
    {| a_heap := snd (alloc (a_heap st) cap); a_locs := setZ (a_locs st) idx (Z.of_N (fst (alloc (a_heap st) cap)));
       a_caps := setN (a_caps st) idx cap; a_ref := a_ref st; a_ok := a_ok st |}.
  Proof. unfold alloc_slot. destruct (alloc (a_heap st) cap). reflexivity. Qed.

  (** one allocation, relative to a set [A] of indices whose chunks must stay intact *)
  Lemma alloc_slot_facts (A : nat -> Prop) st idx cap :
    HInv (a_heap st) -> (0 < cap)%N -> idx < length (a_locs st) ->
    (forall x, ald st x -> A x -> live (a_heap st) (Z.to_N (locZ st x))) ->
    (forall x y, ald st x -> ald st y -> A x -> A y -> locZ st x = locZ st y -> x = y) ->
    let st' := alloc_slot cmin st idx cap in
    HInv (a_heap st') /\ length (a_locs st') = length (a_locs st) /\ a_ref st' = a_ref st /\ a_ok st' = a_ok st /\
    (forall x, x <> idx -> locZ st' x = locZ st x) /\ ald st' idx /\
    (forall x, ald st' x -> A x -> live (a_heap st') (Z.to_N (locZ st' x))) /\
    (forall x y, ald st' x -> ald st' y -> A x -> A y -> locZ st' x = locZ st' y -> x = y) /\
    (forall x, x <> idx -> ald st x -> A x -> locZ st' x <> locZ st' idx).
  Proof.
    intros HI Hc Hidx Hlive Hinj st'. unfold st'. rewrite alloc_slot_eq.
    pose proof (alloc_fresh (a_heap st) cap HI Hc) as F. cbv zeta in F.
    set (loc := fst (alloc (a_heap st) cap)) in *. set (h' := snd (alloc (a_heap st) cap)) in *.
    destruct F as (F1 & F2 & F3 & F4 & F5).
    assert (Hne : forall l, live (a_heap st) l -> l <> loc).
    { intros l Hl. destruct (F4 l Hl) as (_ & _ & D). pose proof (live_in_range _ _ HI Hl) as [Hs _]. lia. }
    assert (Eo : forall x, x <> idx -> nth x (setZ (a_locs st) idx (Z.of_N loc)) (-1)%Z = locZ st x).
    { intros x Hx. apply nth_setZ_neq. exact Hx. }
    assert (Ei : nth idx (setZ (a_locs st) idx (Z.of_N loc)) (-1)%Z = Z.of_N loc) by (apply nth_setZ_eq; exact Hidx).
    unfold ald, locZ. cbn [a_heap a_locs a_ref a_ok].
    split; [apply alloc_inv; assumption|]. split; [apply setZ_length|]. split; [reflexivity|]. split; [reflexivity|].
    split; [exact Eo|]. split; [rewrite Ei; lia|]. split; [|split].
    - intros x Hx Ax. destruct (Nat.eq_dec x idx) as [->|N].
      + rewrite Ei, N2Z.id. exact F1.
      + rewrite (Eo x N) in *. destruct (F4 _ (Hlive x Hx Ax)) as (G & _). exact G.
    - intros x y Hx Hy Ax Ay E. destruct (Nat.eq_dec x idx) as [->|Nx]; destruct (Nat.eq_dec y idx) as [->|Ny].
      + reflexivity.
      + exfalso. rewrite Ei, (Eo y Ny) in *. apply (Hne _ (Hlive y Hy Ay)). rewrite <- E, N2Z.id. reflexivity.
      + exfalso. rewrite Ei, (Eo x Nx) in *. apply (Hne _ (Hlive x Hx Ax)). rewrite E, N2Z.id. reflexivity.
      + rewrite (Eo x Nx), (Eo y Ny) in *. apply Hinj; assumption.
    - intros x Nx Hx Ax E. rewrite Ei, (Eo x Nx) in E. apply (Hne _ (Hlive x Hx Ax)). rewrite E, N2Z.id. reflexivity.
  Qed.

  (** release of a set of pairwise distinct live chunks *)
  Lemma release_spec : forall fs st,
    HInv (a_heap st) -> NoDup fs -> (forall l, In l fs -> (0 <= l)%Z /\ live (a_heap st) (Z.to_N l)) ->
    a_locs (release st fs) = a_locs st /\ a_ref (release st fs) = a_ref st /\ a_ok (release st fs) = a_ok st /\
    HInv (a_heap (release st fs)) /\
    (forall l, live (a_heap st) l -> ~ In (Z.of_N l) fs -> live (a_heap (release st fs)) l).
  Proof.
    induction fs as [|l r IH]; intros st HI Hnd Hl.
    - unfold release. cbn [fold_left]. split; [reflexivity|]. split; [reflexivity|]. split; [reflexivity|]. split; [exact HI|]. intros l Hl' _. exact Hl'.
    - inversion Hnd as [|? ? Hnl Hnr]; subst. destruct (Hl l (or_introl eq_refl)) as [Hl0 Hll].
      destruct (free_inv _ _ HI Hll) as (h' & Hf & HI').
      pose proof (free_live _ _ _ HI Hll Hf) as (FL & _ & _).
      unfold release. cbn [fold_left]. fold (release (free_step st l) r).
      assert (Es : free_step st l = {| a_heap := h'; a_locs := a_locs st; a_caps := a_caps st; a_ref := a_ref st; a_ok := a_ok st |}).
      { unfold free_step. apply Z.leb_le in Hl0. rewrite Hl0, Hf. reflexivity. }
      rewrite Es. destruct (IH {| a_heap := h'; a_locs := a_locs st; a_caps := a_caps st; a_ref := a_ref st; a_ok := a_ok st |})
        as (E1 & E2 & E3 & E4 & E5); cbn [a_heap a_locs a_ref a_ok].
      + exact HI'.
      + exact Hnr.
      + intros l2 H2. destruct (Hl l2 (or_intror H2)) as [H20 H2l]. split; [exact H20|]. apply FL. split; [exact H2l|].
        intros E. apply Hnl. assert (l2 = l) by (apply Z2N.inj in E; lia). subst l2. exact H2.
      + cbn [a_heap a_locs a_ref a_ok] in *. split; [exact E1|]. split; [exact E2|]. split; [exact E3|]. split; [exact E4|].
        intros l' Hl' Hn. apply E5.
        * apply FL. split; [exact Hl'|]. intros ->. apply Hn. left. rewrite Z2N.id by lia. reflexivity.
        * intros H. apply Hn. right. exact H.
  Qed.

  (** ** the invariant of the allocation loop *)
  Variable P : nat -> Z.          (* pins: reference count minus the number of reads still to come *)
  Hypothesis Ppos : forall x, (0 <= P x)%Z.
  Variable len : nat.

  (** static conditions on the ops still to come, relative to the set [D] of indices that have a chunk:
      operands are in range and have a chunk; outputs other than the scratch slot are in range, fresh, and have a capacity *)
  Fixpoint W (D : nat -> Prop) (todo : list sop) : Prop :=
    match todo with
    | [] => True
    | o :: r =>
        (forall x, In x (rd o) -> x < len /\ D x) /\
        (s_out o = tmp \/ (s_out o < len /\ ~ D (s_out o) /\ capok o)) /\
        W (fun x => D x \/ (x = s_out o /\ s_out o <> tmp)) r
    end.

  Lemma W_ext : forall todo D D', (forall x, D x <-> D' x) -> W D todo -> W D' todo.
  Proof.
    induction todo as [|o r IH]; intros D D' E H; [exact I|]. cbn [W] in *. destruct H as (H1 & H2 & H3).
    split; [intros x Hx; destruct (H1 x Hx) as [A B]; split; [exact A|apply E; exact B]|].
    split.
    - destruct H2 as [H2|(A & B & C)]; [left; exact H2|right]. split; [exact A|]. split; [|exact C].
      intros H. apply B. apply E. exact H.
    - apply (IH _ _ (fun x => conj (fun H => match H with or_introl a => or_introl (proj1 (E x) a) | or_intror b => or_intror b end)
                                   (fun H => match H with or_introl a => or_introl (proj2 (E x) a) | or_intror b => or_intror b end))).
      exact H3.
  Qed.

  Lemma W_of_splits (D0 : nat -> Prop) : forall todo dn,
    (forall pre o post, todo = pre ++ o :: post ->
       (forall x, In x (rd o) -> x < len /\ (D0 x \/ outs' (dn ++ pre) x)) /\
       (s_out o = tmp \/ (s_out o < len /\ ~ D0 (s_out o) /\ ~ In (s_out o) (map s_out (dn ++ pre)) /\ capok o))) ->
    W (fun x => D0 x \/ outs' dn x) todo.
  Proof.
    induction todo as [|o r IH]; intros dn H; [exact I|]. cbn [W].
    destruct (H [] o r eq_refl) as [H1 H2]. rewrite app_nil_r in H1, H2.
    split; [exact H1|]. split.
    - destruct H2 as [H2|(A & B & C & D)]; [left; exact H2|right]. split; [exact A|]. split; [|exact D].
      intros [X|[_ X]]; [apply B; exact X|apply C; exact X].
    - apply (W_ext r (fun x => D0 x \/ outs' (dn ++ [o]) x)).
      + intros x. unfold outs'. rewrite map_app, in_app_iff. cbn [map In]. split.
        * intros [X|[X1 [X2|[X2|[]]]]]; [left; left; exact X|left; right; auto|right; subst x; auto].
        * intros [[X|[X1 X2]]|[X1 X2]]; [left; exact X|right; auto|right; subst x; auto].
      + apply IH. intros pre o' post E. rewrite <- app_assoc. cbn [app]. apply (H (o :: pre) o' post). rewrite E. reflexivity.
  Qed.

  Record J (rc0 : nat -> Z) (st : alloc_state) (fs : list Z) (todo : list sop) : Prop := {
    J_h : HInv (a_heap st);
    J_ll : length (a_locs st) = len;
    J_lr : length (a_ref st) = len;
    J_ref : forall x, refZ st x = (P x + cntR x todo)%Z;
    J_mono : forall x, (refZ st x <= rc0 x)%Z;
    J_live : forall x, ald st x -> (0 < rc0 x)%Z -> live (a_heap st) (Z.to_N (locZ st x));
    J_inj : forall x y, ald st x -> ald st y -> (0 < rc0 x)%Z -> (0 < rc0 y)%Z -> locZ st x = locZ st y -> x = y;
    J_fs : forall l, In l fs -> exists x, ald st x /\ (0 < rc0 x)%Z /\ locZ st x = l /\ (refZ st x <= 0)%Z;
    J_sort : StronglySorted Z.lt fs;
    J_tmp : ald st tmp /\ (0 < P tmp)%Z
  }.

  Lemma cntR_cons x o todo : cntR x (o :: todo) = (occ x (rd o) + cntR x todo)%Z.
  Proof. unfold cntR. cbn [flat_map]. apply occ_app. Qed.

  (** step A: the reference counts of an op's operands are decremented, exhausted operands enter the free set *)
  Lemma J_dec rc0 st fs o todo :
    J rc0 st fs (o :: todo) -> (forall k, In k (rd o) -> k < len /\ ald st k) ->
    J rc0 (with_ref st (dec_refs (rd o) (a_ref st))) (add_fs (dec_refs (rd o) (a_ref st)) (a_locs st) (rd o) fs) todo.
  Proof.
    intros HJ Hrd. destruct HJ as [Jh Jll Jlr Jref Jmono Jlive Jinj Jfs Jsort Jtmp].
    assert (Eref : forall x, nth x (dec_refs (rd o) (a_ref st)) 0%Z = (refZ st x - occ x (rd o))%Z).
    { intros x. unfold dec_refs. rewrite nth_fold_addZ; [unfold refZ; lia|].
      intros k Hk. rewrite Jlr. apply (Hrd k Hk). }
    constructor; unfold ald, locZ, refZ in *; cbn [with_ref a_heap a_locs a_ref]; auto.
    - unfold dec_refs. rewrite fold_addZ_length. exact Jlr.
    - intros x. rewrite Eref, Jref, cntR_cons. lia.
    - intros x. rewrite Eref. pose proof (Jmono x). pose proof (occ_nonneg x (rd o)). lia.
    - intros l Hl. apply add_fs_In in Hl. destruct Hl as [Hl|(k & Hk & Hz & ->)].
      + destruct (Jfs l Hl) as (x & A & B & C & D). exists x. split; [exact A|]. split; [exact B|]. split; [exact C|].
        rewrite Eref. pose proof (occ_nonneg x (rd o)). lia.
      + exists k. destruct (Hrd k Hk) as [Hkl Hka]. split; [exact Hka|]. split; [|split; [reflexivity|exact Hz]].
        pose proof (Jmono k) as M. rewrite Jref, cntR_cons in M.
        pose proof (occ_pos k (rd o) Hk). pose proof (Ppos k). pose proof (occ_nonneg k (flat_map rd todo)). unfold cntR in M. lia.
    - apply add_fs_sorted. exact Jsort.
  Qed.

  (** step B: a chunk for the op's output *)
  Lemma J_alloc rc0 st fs todo idx cap :
    J rc0 st fs todo -> idx < len -> ~ ald st idx -> (0 < cap)%N ->
    J rc0 (alloc_slot cmin st idx cap) fs todo /\
    (forall x, x <> idx -> locZ (alloc_slot cmin st idx cap) x = locZ st x) /\ ald (alloc_slot cmin st idx cap) idx /\
    (forall x, x <> idx -> ald st x -> (0 < rc0 x)%Z -> locZ (alloc_slot cmin st idx cap) x <> locZ (alloc_slot cmin st idx cap) idx) /\
    a_ok (alloc_slot cmin st idx cap) = a_ok st.
  Proof.
    intros HJ Hidx Hna Hc. destruct HJ as [Jh Jll Jlr Jref Jmono Jlive Jinj Jfs Jsort Jtmp].
    rewrite <- Jll in Hidx.
    destruct (alloc_slot_facts (fun x => (0 < rc0 x)%Z) st idx cap Jh Hc Hidx Jlive Jinj)
      as (F1 & F2 & F3 & F4 & F5 & F6 & F7 & F8 & F9).
    set (st' := alloc_slot cmin st idx cap) in *.
    assert (Er : forall x, refZ st' x = refZ st x) by (intros x; unfold refZ; rewrite F3; reflexivity).
    assert (Ha : forall x, ald st x -> ald st' x).
    { intros x Hx. destruct (Nat.eq_dec x idx) as [->|N]; [exact F6|]. unfold ald. rewrite (F5 x N). exact Hx. }
    split; [|split; [exact F5|split; [exact F6|split; [exact F9|exact F4]]]].
    constructor; auto.
    - rewrite F2. exact Jll.
    - rewrite F3. exact Jlr.
    - intros x. rewrite Er. apply Jref.
    - intros x. rewrite Er. apply Jmono.
    - intros l Hl. destruct (Jfs l Hl) as (x & A & B & C & D). exists x.
      assert (N : x <> idx) by (intros ->; apply Hna; exact A).
      split; [apply Ha; exact A|]. split; [exact B|]. split; [rewrite (F5 x N); exact C|rewrite Er; exact D].
    - destruct Jtmp as [T1 T2]. split; [apply Ha; exact T1|exact T2].
  Qed.

  Lemma J_op rc0 st fs o todo st1 fs1 :
    J rc0 st fs (o :: todo) -> W (ald st) (o :: todo) ->
    op_alloc tmp stems caps cmin (st, fs) o = (st1, fs1) ->
    J rc0 st1 fs1 todo /\ W (ald st1) todo /\
    (forall x, ald st x -> locZ st1 x = locZ st x) /\
    (s_out o <> tmp -> ald st1 (s_out o)) /\
    (forall x, ald st1 x -> ald st x \/ (x = s_out o /\ s_out o <> tmp)) /\
    (forall x, x <> s_out o -> ald st x -> (0 < rc0 x)%Z -> locZ st1 x <> locZ st1 (s_out o)) /\
    a_ok st1 = a_ok st.
  Proof.
    intros HJ HW E. cbn [W] in HW. destruct HW as (Wrd & Wout & Wr).
    pose proof (J_dec rc0 st fs o todo HJ Wrd) as HJ1.
    rewrite op_alloc_eq in E.
    set (str := with_ref st (dec_refs (rd o) (a_ref st))) in *.
    assert (Lr : forall x, locZ str x = locZ st x) by reflexivity.
    destruct (Nat.eqb (s_out o) tmp) eqn:Et.
    - apply Nat.eqb_eq in Et. injection E as <- <-.
      split; [exact HJ1|]. split.
      { apply (W_ext todo (fun x => ald st x \/ (x = s_out o /\ s_out o <> tmp))); [|exact Wr].
        intros x. split; [intros [H|[_ H]]; [exact H|congruence]|intros H; left; exact H]. }
      split; [intros x _; apply Lr|]. split; [intros N; congruence|]. split; [intros x Hx; left; exact Hx|].
      split; [|reflexivity].
      intros x Nx Hx Hr Eq. apply Nx. rewrite Et.
      destruct HJ as [Jh Jll Jlr Jref Jmono Jlive Jinj Jfs Jsort [T1 T2]].
      apply Jinj; [exact Hx|exact T1|exact Hr| |rewrite <- Et; exact Eq].
      pose proof (Jmono tmp) as M. rewrite Jref in M. pose proof (occ_nonneg tmp (flat_map rd (o :: todo))). unfold cntR in M. lia.
    - apply Nat.eqb_neq in Et. destruct Wout as [Wout|(Wlt & Wna & Wcap)]; [congruence|].
      unfold capok in Wcap. destruct (nth_error caps (s_out o)) as [cp|] eqn:Ec; [|congruence].
      injection E as <- <-.
      destruct (J_alloc rc0 str _ todo (s_out o) (N.max cmin cp) HJ1 Wlt Wna) as (HJ2 & A1 & A2 & A3 & A4); [lia|].
      split; [exact HJ2|]. split.
      { apply (W_ext todo (fun x => ald st x \/ (x = s_out o /\ s_out o <> tmp))); [|exact Wr].
        intros x. split.
        - intros [H|[-> _]]; [|exact A2]. destruct (Nat.eq_dec x (s_out o)) as [->|N]; [exact A2|].
          unfold ald. rewrite (A1 x N). exact H.
        - intros H. destruct (Nat.eq_dec x (s_out o)) as [->|N]; [right; auto|]. left.
          unfold ald in H. rewrite (A1 x N) in H. exact H. }
      split.
      { intros x Hx. assert (N : x <> s_out o) by (intros ->; apply Wna; exact Hx). rewrite (A1 x N). apply Lr. }
      split; [intros _; exact A2|]. split.
      { intros x H. destruct (Nat.eq_dec x (s_out o)) as [->|N]; [right; auto|]. left.
        unfold ald in H. rewrite (A1 x N) in H. exact H. }
      split; [|exact A4].
      intros x Nx Hx Hr. apply A3; assumption.
  Qed.

  (** the end of a level: the free set is released; the reference snapshot is renewed *)
  Lemma J_rel rc0 st fs todo :
    J rc0 st fs todo ->
    J (refZ st) (release st fs) [] todo /\ a_locs (release st fs) = a_locs st /\ a_ok (release st fs) = a_ok st.
  Proof.
    intros HJ. destruct HJ as [Jh Jll Jlr Jref Jmono Jlive Jinj Jfs Jsort Jtmp].
    destruct (release_spec fs st Jh (ssorted_nodup fs Jsort)) as (E1 & E2 & E3 & E4 & E5).
    { intros l Hl. destruct (Jfs l Hl) as (x & A & B & <- & D). split; [exact A|apply Jlive; assumption]. }
    split; [|split; [exact E1|exact E3]].
    assert (Pos : forall x, (0 < refZ st x)%Z -> (0 < rc0 x)%Z) by (intros x H; pose proof (Jmono x); lia).
    constructor; unfold ald, locZ, refZ in *; rewrite ?E1, ?E2; auto.
    - intros x. lia.
    - intros x Hx Hr. apply E5; [apply Jlive; auto|].
      rewrite Z2N.id by exact Hx. intros Hin. destruct (Jfs _ Hin) as (y & A & B & C & D).
      assert (y = x) by (apply Jinj; auto). subst y. lia.
    - intros l [].
    - constructor.
  Qed.

  (** without reuse nothing is released: renewing the snapshot alone keeps the invariant *)
  Lemma J_norel rc0 st fs todo : J rc0 st fs todo -> J (refZ st) st [] todo.
  Proof.
    intros HJ. destruct HJ as [Jh Jll Jlr Jref Jmono Jlive Jinj Jfs Jsort Jtmp].
    assert (Pos : forall x, (0 < refZ st x)%Z -> (0 < rc0 x)%Z) by (intros x H; pose proof (Jmono x); lia).
    constructor; auto.
    - intros x. lia.
    - intros l [].
    - constructor.
  Qed.

  (** ** the main induction over the events of the allocation loop *)
  Lemma events_main : forall evs st fs rc0,
    J rc0 st fs (ops_of evs) -> W (ald st) (ops_of evs) ->
    let st' := fst (fold_left ev_step evs (st, fs)) in
    (forall x, ald st x -> locZ st' x = locZ st x) /\
    (forall o, In o (ops_of evs) -> s_out o <> tmp -> ald st' (s_out o)) /\
    (forall x, ald st' x -> ald st x \/ outs' (ops_of evs) x) /\
    (forall pe o qe, evs = pe ++ EOp o :: qe -> forall x, x <> s_out o ->
        (ald st x \/ outs' (ops_of pe) x) -> ((0 < P x)%Z \/ In x (flat_map rd (o :: ops_of qe))) ->
        locZ st' x <> locZ st' (s_out o)) /\
    a_ok st' = a_ok st /\ length (a_locs st') = len /\ HInv (a_heap st').
  Proof.
    induction evs as [|[o|] r IH]; intros st fs rc0 HJ HW st'.
    - unfold st'. cbn [fold_left fst]. split; [auto|]. split; [intros o []|]. split; [auto|].
      split; [intros pe o qe E; destruct pe; discriminate|]. split; [reflexivity|]. split; [apply HJ|apply HJ].
    - cbn [ops_of] in HJ, HW. unfold st'. cbn [fold_left ev_step].
      destruct (op_alloc tmp stems caps cmin (st, fs) o) as [st1 fs1] eqn:E.
      destruct (J_op rc0 st fs o (ops_of r) st1 fs1 HJ HW E) as (HJ1 & HW1 & S1 & S2 & S3 & S4 & S5).
      destruct (IH st1 fs1 rc0 HJ1 HW1) as (K1 & K2 & K3 & K4 & K5 & K6 & K7).
      assert (A1 : forall x, ald st x -> ald st1 x) by (intros x Hx; unfold ald; rewrite (S1 x Hx); exact Hx).
      split; [intros x Hx; rewrite (K1 x (A1 x Hx)); apply S1; exact Hx|].
      split.
      { cbn [ops_of]. intros o' [<-|Ho'] Hn; [|apply K2; assumption].
        unfold ald. rewrite (K1 _ (S2 Hn)). apply S2. exact Hn. }
      split.
      { intros x Hx. cbn [ops_of]. unfold outs'. cbn [map In]. destruct (K3 x Hx) as [H|[H1 H2]]; [|right; auto].
        destruct (S3 x H) as [H'|[-> H']]; [left; exact H'|right; auto]. }
      split; [|split; [rewrite K5; exact S5|split; [exact K6|exact K7]]].
      intros pe o' qe Ee x Nx Hd Hn. destruct pe as [|e pe']; cbn [app] in Ee.
      + injection Ee as <- <-. cbn [ops_of] in Hd.
        assert (Hx : ald st x) by (destruct Hd as [Hd|[_ []]]; exact Hd).
        assert (Hr : (0 < rc0 x)%Z).
        { pose proof (J_mono _ _ _ _ HJ x) as M. rewrite (J_ref _ _ _ _ HJ) in M. unfold cntR in M.
          pose proof (Ppos x). pose proof (occ_nonneg x (flat_map rd (o :: ops_of r))).
          destruct Hn as [Hn|Hn]; [lia|]. pose proof (occ_pos _ _ Hn). lia. }
        assert (Ho : ald st1 (s_out o)).
        { destruct (Nat.eq_dec (s_out o) tmp) as [Et|Et]; [rewrite Et; apply A1; apply (J_tmp _ _ _ _ HJ)|apply S2; exact Et]. }
        rewrite (K1 x (A1 x Hx)), (K1 _ Ho). apply S4; assumption.
      + injection Ee as <- ->. apply (K4 pe' o' qe eq_refl x Nx); [|exact Hn].
        cbn [ops_of] in Hd. destruct Hd as [Hd|[H1 H2]]; [left; apply A1; exact Hd|].
        cbn [map In] in H2. destruct H2 as [<-|H2]; [left; apply S2; exact H1|right; split; assumption].
    - cbn [ops_of] in HJ, HW. unfold st'. cbn [fold_left ev_step fst snd].
      destruct reuse.
      2:{ destruct (IH st [] (refZ st) (J_norel rc0 st fs (ops_of r) HJ) HW) as (K1 & K2 & K3 & K4 & K5 & K6 & K7).
          split; [exact K1|]. split; [exact K2|]. split; [exact K3|]. split; [|split; [exact K5|split; [exact K6|exact K7]]].
          intros pe o' qe Ee x Nx Hd Hn. destruct pe as [|e pe']; cbn [app] in Ee; [discriminate|].
          injection Ee as <- ->. apply (K4 pe' o' qe eq_refl x Nx); [exact Hd|exact Hn]. }
      destruct (J_rel rc0 st fs (ops_of r) HJ) as (HJ1 & E1 & E3).
      assert (El : forall x, locZ (release st fs) x = locZ st x) by (intros x; unfold locZ; rewrite E1; reflexivity).
      assert (HW1 : W (ald (release st fs)) (ops_of r)).
      { apply (W_ext _ (ald st)); [|exact HW]. intros x. unfold ald. rewrite El. reflexivity. }
      destruct (IH (release st fs) [] (refZ st) HJ1 HW1) as (K1 & K2 & K3 & K4 & K5 & K6 & K7).
      assert (A1 : forall x, ald st x <-> ald (release st fs) x) by (intros x; unfold ald; rewrite El; reflexivity).
      split; [intros x Hx; rewrite (K1 x (proj1 (A1 x) Hx)); apply El|].
      split; [exact K2|].
      split; [intros x Hx; destruct (K3 x Hx) as [H|H]; [left; apply A1; exact H|right; exact H]|].
      split; [|split; [rewrite K5; exact E3|split; [exact K6|exact K7]]].
      intros pe o' qe Ee x Nx Hd Hn. destruct pe as [|e pe']; cbn [app] in Ee; [discriminate|].
      injection Ee as <- ->. apply (K4 pe' o' qe eq_refl x Nx); [|exact Hn].
      cbn [ops_of] in Hd. destruct Hd as [Hd|Hd]; [left; apply A1; exact Hd|right; exact Hd].
  Qed.
End Alloc.

(* ------------------------------------------------------------------------------------------------ *)
(** * the a_ok flag only ever falls: a successful run allocated every output *)

Section OkMono.
  Variable tmp : nat.
  Variable stems : list Z.
  Variable caps : list N.
  Variable cmin : N.
  Variable reuse : bool.

  Lemma free_step_ok st l : a_ok (free_step st l) = true -> a_ok st = true.
  Proof. unfold free_step. destruct (if (0 <=? l)%Z then free (a_heap st) (Z.to_N l) else None); cbn; [auto|discriminate]. Qed.

  Lemma release_ok : forall fs st, a_ok (release st fs) = true -> a_ok st = true.
  Proof.
    induction fs as [|l r IH]; intros st H; [exact H|]. unfold release in *. cbn [fold_left] in H.
    apply free_step_ok with (l := l). apply IH. exact H.
  Qed.

  Lemma op_alloc_ok st fs o st1 fs1 : op_alloc tmp stems caps cmin (st, fs) o = (st1, fs1) -> a_ok st1 = true ->
    a_ok st = true /\ (s_out o <> tmp -> capok caps o).
  Proof.
    rewrite op_alloc_eq. destruct (Nat.eqb (s_out o) tmp) eqn:Et.
    - apply Nat.eqb_eq in Et. intros E H. injection E as <- _. cbn in H. split; [exact H|congruence].
    - unfold capok. destruct (nth_error caps (s_out o)); intros E H; injection E as <- _.
      + rewrite alloc_slot_eq in H. cbn in H. split; [exact H|discriminate].
      + cbn in H. discriminate.
  Qed.

  Lemma events_ok : forall evs sf, a_ok (fst (fold_left (ev_step tmp stems caps cmin reuse) evs sf)) = true ->
    a_ok (fst sf) = true /\ forall o, In o (ops_of evs) -> s_out o <> tmp -> capok caps o.
  Proof.
    induction evs as [|[o|] r IH]; intros [st fs] H.
    - split; [exact H|intros o []].
    - cbn [fold_left ev_step] in H. destruct (op_alloc tmp stems caps cmin (st, fs) o) as [st1 fs1] eqn:E.
      destruct (IH _ H) as [H1 H2]. destruct (op_alloc_ok _ _ _ _ _ E H1) as [H3 H4].
      split; [exact H3|]. cbn [ops_of]. intros o' [<-|Ho']; [exact H4|apply H2; exact Ho'].
    - cbn [fold_left ev_step] in H. destruct (IH _ H) as [H1 H2]. cbn [fst snd] in H1.
      split; [destruct reuse; [apply release_ok in H1; exact H1|exact H1]|exact H2].
  Qed.
End OkMono.

(* ------------------------------------------------------------------------------------------------ *)
(** * the reference counts computed by [levelize] count the reads *)

Lemma ls_ref_fold stems : forall r st pos,
  ls_ref (fold_left (level_step stems) (combine (seq pos (length r)) r) st) =
  fold_left (fun ref o => fold_left (fun r k => addZ r k 1%Z) (rd stems o) ref) r (ls_ref st).
Proof.
  induction r as [|o r IH]; intros st pos; [reflexivity|]. cbn [length seq combine fold_left]. rewrite IH. reflexivity.
Qed.

Lemma nth_ref_fold stems : forall r ref, (forall o k, In o r -> In k (rd stems o) -> k < length ref) ->
  length (fold_left (fun ref o => fold_left (fun r k => addZ r k 1%Z) (rd stems o) ref) r ref) = length ref /\
  forall x, nth x (fold_left (fun ref o => fold_left (fun r k => addZ r k 1%Z) (rd stems o) ref) r ref) 0%Z =
            (nth x ref 0 + cntR stems x r)%Z.
Proof.
  induction r as [|o r IH]; intros ref H.
  - split; [reflexivity|]. intros x. unfold cntR, occ. cbn. lia.
  - cbn [fold_left]. destruct (IH (fold_left (fun r k => addZ r k 1%Z) (rd stems o) ref)) as [L N].
    + intros o' k Ho' Hk. rewrite fold_addZ_length. apply (H o' k); [right; exact Ho'|exact Hk].
    + split; [rewrite L; apply fold_addZ_length|]. intros x. rewrite N, nth_fold_addZ, cntR_cons; [lia|].
      intros k Hk. apply (H o k); [left; reflexivity|exact Hk].
Qed.

(* ------------------------------------------------------------------------------------------------ *)
(** * allocations without release (special slots, PI/PPI slots): every chunk is live, all are distinct *)

Definition GI (lo hi : nat) (st : alloc_state) : Prop :=
  HInv (a_heap st) /\ (forall x, ald st x -> live (a_heap st) (Z.to_N (locZ st x))) /\
  (forall x y, ald st x -> ald st y -> locZ st x = locZ st y -> x = y) /\
  (forall x, ald st x -> lo <= x < hi).

Lemma GI_alloc lo hi cmin st idx cap : (0 < cmin)%N -> GI lo hi st -> (0 < cap)%N -> idx < length (a_locs st) -> lo <= idx < hi ->
  GI lo hi (alloc_slot cmin st idx cap).
Proof.
  intros Hcm (G1 & G2 & G3 & G4) Hc Hi Hr.
  destruct (alloc_slot_facts cmin Hcm (fun _ => True) st idx cap G1 Hc Hi) as (F1 & F2 & F3 & F4 & F5 & F6 & F7 & F8 & F9).
  - intros x Hx _. apply G2. exact Hx.
  - intros x y Hx Hy _ _. apply G3; assumption.
  - split; [exact F1|]. split; [intros x Hx; apply F7; auto|]. split; [intros x y Hx Hy; apply F8; auto|].
    intros x Hx. destruct (Nat.eq_dec x idx) as [->|N]; [exact Hr|]. apply G4. unfold ald in *. rewrite (F5 x N) in Hx. exact Hx.
Qed.

Lemma GI_same lo hi st st' : a_heap st' = a_heap st -> a_locs st' = a_locs st -> GI lo hi st -> GI lo hi st'.
Proof. unfold GI, ald, locZ. intros -> ->. auto. Qed.

Lemma refZ_alloc_slot cmin st idx cap x : refZ (alloc_slot cmin st idx cap) x = refZ st x.
Proof. rewrite alloc_slot_eq. reflexivity. Qed.
Lemma lenref_alloc_slot cmin st idx cap : length (a_ref (alloc_slot cmin st idx cap)) = length (a_ref st).
Proof. rewrite alloc_slot_eq. reflexivity. Qed.
Lemma refZ_pinref st k x :
  refZ (pinref st k) x = (refZ st x + if Nat.eqb x k && Nat.ltb k (length (a_ref st)) then 1 else 0)%Z.
Proof. unfold refZ, pinref. cbn [a_ref]. rewrite nth_addZ. destruct (Nat.eqb x k && Nat.ltb k (length (a_ref st))); lia. Qed.
Lemma lenref_pinref st k : length (a_ref (pinref st k)) = length (a_ref st).
Proof. unfold pinref. cbn [a_ref]. apply addZ_length. Qed.

(* ------------------------------------------------------------------------------------------------ *)
(** * R3: [build c caps cmin true false] *)

Lemma len_alloc_slot cmin st idx cap : length (a_locs (alloc_slot cmin st idx cap)) = length (a_locs st).
Proof. rewrite alloc_slot_eq. cbn [a_locs]. apply setZ_length. Qed.

Section BuildR.
  Variable c : netlist.
  Variable caps : list N.
  Variable cmin : N.
  Hypothesis WF : wf_netlist c.
  Hypothesis Hcmin : (0 < cmin)%N.
  Notation nl := (length (c_lines c)).
  Notation sn := (s_nodes c).
  Notation slen := (length (s_nodes c)).
  Notation ppi := (nl + 3).
  Notation ppo := (nl + 3 + slen).
  Notation len := (nl + 3 + slen + slen).
  Notation ops := (build_ops c false).
  Notation stems := (repeat (-1)%Z len).
  Notation all_ip := (combine (seq 0 slen) sn).
  Notation tmp := (nl + 1).

  Lemma rd_id o : rd stems o = opnds o.
  Proof.
    unfold rd. rewrite (map_ext _ (fun x => x)) by (intros x; apply stemmed_repeat). apply map_id.
  Qed.

  Lemma opnd_lt o x : In o ops -> In x (opnds o) -> x < ppo.
  Proof.
    intros Ho Hx. destruct (opnd_class c cmin WF Hcmin o x Ho Hx) as [->|[H|(n & p & Hi & -> & _)]]; try lia.
    apply iface_pos_lt in Hi. lia.
  Qed.

  (** ** reference counts up to the start of the level loop *)
  Lemma ref0 : length (a_ref (st0 c)) = len /\ forall x, refZ (st0 c) x = cntR stems x ops.
  Proof.
    unfold st0, refZ. cbn [a_ref]. unfold ls0, levelize. rewrite ls_ref_fold. cbn [ls_ref].
    destruct (nth_ref_fold stems ops (repeat 0%Z len)) as [L N].
    - intros o k Ho Hk. rewrite repeat_length, rd_id in *. pose proof (opnd_lt o k Ho Hk). lia.
    - split; [rewrite L; apply repeat_length|]. intros x. rewrite N, nth_repeat. lia.
  Qed.

  Lemma ref3 : length (a_ref (st3 c cmin)) = len /\ forall x, refZ (st3 c cmin) x = cntR stems x ops.
  Proof.
    destruct ref0 as [L N]. unfold st3. split; [rewrite !lenref_alloc_slot; exact L|].
    intros x. rewrite !refZ_alloc_slot. apply N.
  Qed.

  Lemma ref4 : length (a_ref (st4 c cmin)) = len /\ (forall x, (cntR stems x ops <= refZ (st4 c cmin) x)%Z) /\
    (cntR stems tmp ops + 1 <= refZ (st4 c cmin) tmp)%Z.
  Proof.
    destruct ref3 as [L N]. unfold st4. split; [rewrite !lenref_pinref; exact L|]. split.
    - intros x. rewrite !refZ_pinref, N.
      repeat match goal with |- context [if ?b then _ else _] => destruct b end; lia.
    - rewrite !refZ_pinref, N, !lenref_pinref, L.
      replace (Nat.eqb tmp tmp) with true by (symmetry; apply Nat.eqb_refl).
      replace (Nat.ltb tmp len) with true by (symmetry; apply Nat.ltb_lt; lia). cbn [andb].
      repeat match goal with |- context [if ?b then _ else _] => destruct b end; lia.
  Qed.

  Lemma iface_step_ref st i n :
    length (a_ref (iface_step c cmin stems ppi st (i, n))) = length (a_ref st) /\
    (forall x, (refZ st x <= refZ (iface_step c cmin stems ppi st (i, n)) x)%Z) /\
    (forall l0 t, n_ins (get_node c n) = Some l0 :: t -> l0 < length (a_ref st) ->
       (refZ st l0 + 1 <= refZ (iface_step c cmin stems ppi st (i, n)) l0)%Z).
  Proof.
    unfold iface_step. cbv zeta.
    set (sta := if Nat.ltb 0 (length (n_outs (get_node c n))) then pinref (alloc_slot cmin st (ppi + i) cmin) (ppi + i) else st).
    assert (A : length (a_ref sta) = length (a_ref st) /\ forall x, (refZ st x <= refZ sta x)%Z).
    { unfold sta. destruct (Nat.ltb 0 (length (n_outs (get_node c n)))).
      - split; [rewrite lenref_pinref, lenref_alloc_slot; reflexivity|]. intros x. rewrite refZ_pinref, refZ_alloc_slot.
        destruct (Nat.eqb x (ppi + i) && _); lia.
      - split; [reflexivity|]. intros x. lia. }
    destruct A as [A1 A2]. destruct (n_ins (get_node c n)) as [|[l0|] t].
    - split; [exact A1|]. split; [exact A2|]. intros l0 t E. discriminate.
    - rewrite stemmed_repeat. split; [rewrite lenref_pinref; exact A1|]. split.
      + intros x. rewrite refZ_pinref. pose proof (A2 x). destruct (Nat.eqb x l0 && _); lia.
      + intros l0' t' E Hl. injection E as <- <-. rewrite refZ_pinref, Nat.eqb_refl, A1.
        apply Nat.ltb_lt in Hl. rewrite Hl. cbn [andb]. pose proof (A2 l0). lia.
    - split; [exact A1|]. split; [exact A2|]. intros l0 t' E. discriminate.
  Qed.

  Lemma iface_fold_ref : forall l st,
    length (a_ref (fold_left (iface_step c cmin stems ppi) l st)) = length (a_ref st) /\
    (forall x, (refZ st x <= refZ (fold_left (iface_step c cmin stems ppi) l st) x)%Z) /\
    (forall i n l0 t, In (i, n) l -> n_ins (get_node c n) = Some l0 :: t -> l0 < length (a_ref st) ->
       (refZ st l0 + 1 <= refZ (fold_left (iface_step c cmin stems ppi) l st) l0)%Z).
  Proof.
    induction l as [|[i n] r IH]; intros st.
    - cbn [fold_left]. split; [reflexivity|]. split; [intros x; lia|intros i n l0 t []].
    - cbn [fold_left]. destruct (iface_step_ref st i n) as (S1 & S2 & S3).
      destruct (IH (iface_step c cmin stems ppi st (i, n))) as (I1 & I2 & I3).
      split; [rewrite I1; exact S1|]. split; [intros x; pose proof (S2 x); pose proof (I2 x); lia|].
      intros i' n' l0 t [E|Hin] En Hl.
      + injection E as <- <-. pose proof (S3 l0 t En Hl). pose proof (I2 l0). lia.
      + rewrite <- S1 in Hl. pose proof (I3 i' n' l0 t Hin En Hl). pose proof (S2 l0). lia.
  Qed.

  (** the pins: reference count at the start of the level loop minus the number of reads *)
  Definition Pc (x : nat) : Z := (refZ (st5 c cmin) x - cntR stems x ops)%Z.

  Lemma ref5 : length (a_ref (st5 c cmin)) = len /\ (forall x, (0 <= Pc x)%Z) /\ (0 < Pc tmp)%Z /\
    (forall i l0 t, i < slen -> n_ins (get_node c (nth i sn 0)) = Some l0 :: t -> (0 < Pc l0)%Z).
  Proof.
    destruct ref4 as (L & N & T). unfold Pc, st5. destruct (iface_fold_ref all_ip (st4 c cmin)) as (I1 & I2 & I3).
    split; [rewrite I1; exact L|]. split; [intros x; pose proof (N x); pose proof (I2 x); lia|].
    split; [pose proof (I2 tmp); lia|].
    intros i l0 t Hi En. pose proof (ip_ins_lt c WF _ _ _ En) as Hl0.
    assert (Hin : In (i, nth i sn 0) all_ip) by (apply (combine_seq_in 0 sn 0 i); exact Hi).
    pose proof (I3 i _ l0 t Hin En) as X. rewrite L in X. pose proof (N l0). lia.
  Qed.

  (** ** chunks up to the start of the level loop *)
  Lemma GI0 : GI nl ppo (st0 c).
  Proof.
    unfold GI, ald, locZ, st0. cbn [a_heap a_locs]. split; [apply hinit_inv|].
    split; [|split]; intros x; rewrite nth_repeat; lia.
  Qed.

  Lemma GI3 : GI nl ppo (st3 c cmin).
  Proof.
    rewrite st3_eq. unfold st2, st1.
    pose proof (len0 c) as L0. cbn [hl snd] in L0.
    apply GI_alloc; [exact Hcmin| |exact Hcmin|rewrite !len_alloc_slot, L0; lia|lia].
    apply GI_alloc; [exact Hcmin| |exact Hcmin|rewrite !len_alloc_slot, L0; lia|lia].
    apply GI_alloc; [exact Hcmin|apply GI0|exact Hcmin|rewrite L0; lia|lia].
  Qed.

  Lemma iface_step_GI st i n : i < slen -> length (a_locs st) = len -> GI nl ppo st ->
    GI nl ppo (iface_step c cmin stems ppi st (i, n)) /\ length (a_locs (iface_step c cmin stems ppi st (i, n))) = len.
  Proof.
    intros Hi L G. unfold iface_step. cbv zeta.
    set (sta := if Nat.ltb 0 (length (n_outs (get_node c n))) then pinref (alloc_slot cmin st (ppi + i) cmin) (ppi + i) else st).
    assert (A : GI nl ppo sta /\ length (a_locs sta) = len).
    { unfold sta. destruct (Nat.ltb 0 (length (n_outs (get_node c n)))); [|auto]. split.
      - apply (GI_same _ _ (alloc_slot cmin st (ppi + i) cmin)); [reflexivity|reflexivity|].
        apply GI_alloc; [exact Hcmin|exact G|exact Hcmin|lia|lia].
      - cbn [pinref a_locs]. rewrite len_alloc_slot. exact L. }
    destruct A as [A1 A2]. destruct (n_ins (get_node c n)) as [|[l0|] t]; [auto| |auto].
    split; [apply (GI_same _ _ sta); [reflexivity|reflexivity|exact A1]|exact A2].
  Qed.

  Lemma iface_fold_GI : forall l st, (forall ip, In ip l -> fst ip < slen) -> length (a_locs st) = len -> GI nl ppo st ->
    GI nl ppo (fold_left (iface_step c cmin stems ppi) l st).
  Proof.
    induction l as [|[i n] r IH]; intros st Hl L G; [exact G|]. cbn [fold_left].
    destruct (iface_step_GI st i n (Hl (i, n) (or_introl eq_refl)) L G) as [G1 L1].
    apply IH; [intros ip Hip; apply Hl; right; exact Hip|exact L1|exact G1].
  Qed.

  Lemma GI5 : GI nl ppo (st5 c cmin).
  Proof.
    unfold st5. apply iface_fold_GI.
    - apply (in_comb_lt c cmin Hcmin).
    - change (a_locs (st4 c cmin)) with (a_locs (st3 c cmin)). apply (len3 c cmin Hcmin).
    - apply (GI_same _ _ (st3 c cmin)); [reflexivity|reflexivity|apply GI3].
  Qed.

  Lemma ald5_zero : ald (st5 c cmin) nl.
  Proof.
    assert (G : Grow (Sset c) (hl (st1 c cmin)) (hl (st5 c cmin))).
    { eapply Grow_trans; [apply G12; exact Hcmin|]. eapply Grow_trans; [apply G23; exact Hcmin|apply G35; exact Hcmin]. }
    destruct G as (_ & _ & M & _). apply M. unfold st1. rewrite hl_alloc_slot. apply hl_alloc_new.
    rewrite len0. lia.
  Qed.

  Lemma ald5_tmp : ald (st5 c cmin) tmp.
  Proof.
    assert (G : Grow (Sset c) (hl (st2 c cmin)) (hl (st5 c cmin))).
    { eapply Grow_trans; [apply G23; exact Hcmin|apply G35; exact Hcmin]. }
    destruct G as (_ & _ & M & _). apply M. unfold st2. rewrite hl_alloc_slot. apply hl_alloc_new.
    destruct (G01 c cmin Hcmin) as (L & _). rewrite L, len0. lia.
  Qed.

  Lemma ald5_ppi n p : iface_pos c n = Some p -> 0 < length (n_outs (get_node c n)) -> ald (st5 c cmin) (ppi + p).
  Proof.
    intros Hi Ho. unfold st5.
    apply (iface_fold_alloc c cmin Hcmin _ _ p n (iface_in_ip c cmin Hcmin n p Hi) (in_comb_lt c cmin Hcmin) Ho).
    change (a_locs (st4 c cmin)) with (a_locs (st3 c cmin)). rewrite (len3 c cmin Hcmin).
    apply iface_pos_lt in Hi. lia.
  Qed.

  Lemma J5 : J tmp stems Pc len (refZ (st5 c cmin)) (st5 c cmin) [] ops.
  Proof.
    destruct GI5 as (G1 & G2 & G3 & G4). destruct ref5 as (R1 & R2 & R3 & R4).
    constructor.
    - exact G1.
    - apply (len5 c cmin Hcmin).
    - exact R1.
    - intros x. unfold Pc. lia.
    - intros x. lia.
    - intros x Hx _. apply G2. exact Hx.
    - intros x y Hx Hy _ _. apply G3; assumption.
    - intros l [].
    - constructor.
    - split; [apply ald5_tmp|exact R3].
  Qed.

  Lemma out_not_before pre o post : ops = pre ++ o :: post -> s_out o <> tmp -> ~ In (s_out o) (map s_out pre).
  Proof.
    intros E Ht Hin. apply in_map_iff in Hin. destruct Hin as (o' & Eo & Ho'). apply in_split in Ho'.
    destruct Ho' as (p1 & p2 & ->). rewrite <- app_assoc in E. cbn [app] in E.
    destruct (core c WF p1 o' (p2 ++ o :: post) E) as [[H|H] _]; [congruence|].
    apply H. rewrite map_app. apply in_or_app. right. left. symmetry. exact Eo.
  Qed.

  Hypothesis RD : reads_defined c.

  Lemma W5 : (forall o, In o ops -> s_out o <> tmp -> capok caps o) -> W tmp stems caps len (ald (st5 c cmin)) ops.
  Proof.
    intros CAP. destruct GI5 as (_ & _ & _ & G4).
    apply (W_ext tmp stems caps len ops (fun x => ald (st5 c cmin) x \/ outs' tmp [] x)).
    { intros x. split; [intros [H|[_ []]]; exact H|intros H; left; exact H]. }
    apply W_of_splits. intros pre o post E. cbn [app].
    assert (Ho : In o ops) by (rewrite E; apply in_or_app; right; left; reflexivity).
    split.
    - intros x Hx. rewrite rd_id in Hx. split; [pose proof (opnd_lt o x Ho Hx); lia|].
      destruct (opnd_class c cmin WF Hcmin o x Ho Hx) as [->|[Hl|(n & p & Hi & -> & Hout)]].
      + left. apply ald5_zero.
      + right. split; [lia|]. apply (written_before c WF pre o post x E Hx). apply (RD o x Ho Hx Hl).
      + left. apply (ald5_ppi n p Hi Hout).
    - destruct (all_outs c WF o Ho) as [Hl|Ht]; [right|left; exact Ht].
      split; [lia|]. split; [intros H; specialize (G4 _ H); lia|]. split; [|apply CAP; [exact Ho|lia]].
      apply (out_not_before pre o post E). lia.
  Qed.

  (** ** the level loop with release *)
  Definition lvs : list (list sop) := split_levels (starts0 c) ops 0.
  Definition st6r : alloc_state := fold_left (level_alloc tmp stems caps cmin true) lvs (st5 c cmin).

  Lemma concat_lvs : concat lvs = ops.
  Proof. apply concat_split_levels. apply starts0_ne. Qed.

  Lemma st6r_events : st6r = fst (fold_left (ev_step tmp stems caps cmin true) (events lvs) (st5 c cmin, [])).
  Proof. apply fold_levels_events. Qed.

  Lemma ops_events : ops_of (events lvs) = ops.
  Proof. rewrite ops_of_events. apply concat_lvs. Qed.

  Lemma main6_cap : (forall o, In o ops -> s_out o <> tmp -> capok caps o) ->
    (forall x, ald (st5 c cmin) x -> locZ st6r x = locZ (st5 c cmin) x) /\
    (forall o, In o ops -> s_out o <> tmp -> ald st6r (s_out o)) /\
    (forall x, ald st6r x -> ald (st5 c cmin) x \/ outs' tmp ops x) /\
    (forall pre o post, ops = pre ++ o :: post -> forall x, x <> s_out o ->
        (ald (st5 c cmin) x \/ outs' tmp pre x) -> ((0 < Pc x)%Z \/ In x (flat_map opnds (o :: post))) ->
        locZ st6r x <> locZ st6r (s_out o)) /\
    length (a_locs st6r) = len /\ HInv (a_heap st6r) /\ a_ok st6r = true.
  Proof.
    intros CAP. rewrite st6r_events in *.
    destruct ref5 as (_ & Ppos & _).
    pose proof (events_main tmp stems caps cmin true Hcmin Pc Ppos len (events lvs) (st5 c cmin) [] (refZ (st5 c cmin))) as M.
    rewrite ops_events in M. specialize (M J5 (W5 CAP)). cbv zeta in M.
    destruct M as (K1 & K2 & K3 & K4 & K5 & K6 & K7).
    split; [exact K1|]. split; [exact K2|]. split; [exact K3|].
    split; [|split; [exact K6|split; [exact K7|rewrite K5; apply ok5]]].
    intros pre o post E x Nx Hd Hn. rewrite <- ops_events in E.
    destruct (ops_of_split _ _ _ _ E) as (pe & qe & Ee & <- & <-).
    apply (K4 pe o qe Ee x Nx Hd). destruct Hn as [Hn|Hn]; [left; exact Hn|right].
    rewrite (flat_map_ext _ opnds); [exact Hn|]. intros a. apply rd_id.
  Qed.

  Lemma main6 : a_ok st6r = true ->
    (forall x, ald (st5 c cmin) x -> locZ st6r x = locZ (st5 c cmin) x) /\
    (forall o, In o ops -> s_out o <> tmp -> ald st6r (s_out o)) /\
    (forall x, ald st6r x -> ald (st5 c cmin) x \/ outs' tmp ops x) /\
    (forall pre o post, ops = pre ++ o :: post -> forall x, x <> s_out o ->
        (ald (st5 c cmin) x \/ outs' tmp pre x) -> ((0 < Pc x)%Z \/ In x (flat_map opnds (o :: post))) ->
        locZ st6r x <> locZ st6r (s_out o)) /\
    length (a_locs st6r) = len /\ HInv (a_heap st6r).
  Proof.
    intros Hok. assert (CAP : forall o, In o ops -> s_out o <> tmp -> capok caps o).
    { rewrite st6r_events in Hok. destruct (events_ok tmp stems caps cmin true _ _ Hok) as [_ CAP].
      rewrite ops_events in CAP. exact CAP. }
    destruct (main6_cap CAP) as (K1 & K2 & K3 & K4 & K5 & K6 & _).
    exact (conj K1 (conj K2 (conj K3 (conj K4 (conj K5 K6))))).
  Qed.

  Lemma build_eq_r : build c caps cmin true false =
    let '(locs7, caps7) := fold_left (stem_copy stems) (seq 0 len) (a_locs st6r, a_caps st6r) in
    let '(locs8, caps8, ok8) := fold_left (ppo_step c ppo) all_ip (locs7, caps7, true) in
    if a_ok st6r && ok8 then
      Some {| so_ops := ops; so_level_starts := starts0 c; so_locs := locs8; so_caps := caps8;
              so_len := mx (a_heap st6r); so_stems := stems; so_nlines := nl; so_slen := slen |}
    else None.
  Proof.
    cbv beta zeta iota delta [build build_stems negb st6r lvs st5 st4 st3 st0 starts0 ls0 pinref iface_step stem_copy ppo_step].
    reflexivity.
  Qed.

  Lemma build_inv_r so : build c caps cmin true false = Some so ->
    a_ok st6r = true /\ so_ops so = ops /\ so_stems so = stems /\ so_nlines so = nl /\ so_slen so = slen /\
    so_locs so = fst (fst (fold_left (ppo_step c ppo) all_ip (a_locs st6r, a_caps st6r, true))) /\
    so_level_starts so = starts0 c.
  Proof.
    rewrite build_eq_r, stem_copy_id.
    destruct (fold_left (ppo_step c ppo) all_ip (a_locs st6r, a_caps st6r, true)) as [[l8 c8] ok8].
    cbn [fst]. destruct (a_ok st6r); [|discriminate]. destruct ok8; [|discriminate]. cbn [andb].
    intros H. injection H as <-. cbn [so_ops so_stems so_nlines so_slen so_locs so_level_starts]. repeat split; reflexivity.
  Qed.

  (** ** what a published map looks like, for any final allocation state [stF] (used for both values of c_reuse) *)
  Lemma fst_combine_seq {A} : forall (l : list A) s, map fst (combine (seq s (length l)) l) = seq s (length l).
  Proof. induction l as [|a r IH]; intros s; [reflexivity|]. cbn [length seq combine map fst]. rewrite IH. reflexivity. Qed.

  Lemma ppo_fold_exact : forall l L C b,
    (forall i n, In (i, n) l -> i < slen) -> NoDup (map fst l) -> length L = len ->
    length (fst (fst (fold_left (ppo_step c ppo) l (L, C, b)))) = len /\
    (forall x, (forall i n, In (i, n) l -> x <> ppo + i) ->
       nth x (fst (fst (fold_left (ppo_step c ppo) l (L, C, b)))) (-1)%Z = nth x L (-1)%Z) /\
    (forall i n, In (i, n) l -> nth (ppo + i) (fst (fst (fold_left (ppo_step c ppo) l (L, C, b)))) (-1)%Z =
        match n_ins (get_node c n) with Some l0 :: _ => nth l0 L (-1)%Z | _ => nth (ppo + i) L (-1)%Z end).
  Proof.
    induction l as [|[i n] r IH]; intros L C b Hlt Hnd HL.
    - cbn. split; [exact HL|]. split; [auto|intros i n []].
    - cbn [fold_left]. rewrite ppo_step_eq. cbn [map fst] in Hnd. inversion Hnd as [|? ? Hni Hnr]; subst.
      assert (Hr : forall i' n', In (i', n') r -> i' < slen) by (intros i' n' H; apply (Hlt i' n'); right; exact H).
      assert (Hii : forall i' n', In (i', n') r -> i' <> i).
      { intros i' n' H ->. apply Hni. apply (in_map fst) in H. exact H. }
      assert (NoUpd : n_ins (get_node c n) = [] \/ (exists t, n_ins (get_node c n) = None :: t) ->
                length (fst (fst (fold_left (ppo_step c ppo) r (L, C, b)))) = len /\
                (forall x, (forall i0 n0, In (i0, n0) ((i, n) :: r) -> x <> ppo + i0) ->
                   nth x (fst (fst (fold_left (ppo_step c ppo) r (L, C, b)))) (-1)%Z = nth x L (-1)%Z) /\
                (forall i0 n0, In (i0, n0) ((i, n) :: r) -> nth (ppo + i0) (fst (fst (fold_left (ppo_step c ppo) r (L, C, b)))) (-1)%Z =
                   match n_ins (get_node c n0) with Some l0 :: _ => nth l0 L (-1)%Z | _ => nth (ppo + i0) L (-1)%Z end)).
      { intros En. destruct (IH L C b Hr Hnr HL) as (I1 & I2 & I3). split; [exact I1|]. split.
        - intros x Hx. apply I2. intros i' n' H. apply (Hx i' n'). right. exact H.
        - intros i' n' [E|H]; [|apply I3; exact H]. injection E as <- <-.
          rewrite I2 by (intros i' n' H; specialize (Hii i' n' H); lia).
          destruct En as [->|(t & ->)]; reflexivity. }
      destruct (n_ins (get_node c n)) as [|[l0|] t] eqn:En.
      + apply NoUpd. left. reflexivity.
      + pose proof (ip_ins_lt c WF n l0 t En) as Hl0.
        destruct (IH (setZ L (ppo + i) (nth l0 L (-1)%Z)) (setN C (ppo + i) (nth l0 C 0%N)) b Hr Hnr) as (I1 & I2 & I3);
          [rewrite setZ_length; exact HL|].
        split; [exact I1|]. split.
        * intros x Hx. rewrite I2 by (intros i' n' H; apply (Hx i' n'); right; exact H).
          apply nth_setZ_neq. apply (Hx i n). left. reflexivity.
        * intros i' n' [E|H].
          -- injection E as <- <-. rewrite En. rewrite I2 by (intros i' n' H; specialize (Hii i' n' H); lia).
             apply nth_setZ_eq. rewrite HL. specialize (Hlt i n (or_introl eq_refl)). lia.
          -- rewrite (I3 i' n' H). specialize (Hii i' n' H).
             destruct (n_ins (get_node c n')) as [|[l0'|] t'] eqn:En'.
             ++ apply nth_setZ_neq. lia.
             ++ apply nth_setZ_neq. pose proof (ip_ins_lt c WF n' l0' t' En'). lia.
             ++ apply nth_setZ_neq. lia.
      + apply NoUpd. right. exists t. reflexivity.
  Qed.

  Section Publish.
    Variable stF : alloc_state.
    Hypothesis HlenF : length (a_locs stF) = len.
    Hypothesis HonlyF : forall x, ald stF x -> x < ppo.
    Variable so : simops.
    Hypothesis Elocs : so_locs so = fst (fst (fold_left (ppo_step c ppo) all_ip (a_locs stF, a_caps stF, true))).
    Hypothesis Enl : so_nlines so = nl.
    Hypothesis Eslen : so_slen so = slen.
    Hypothesis Estems : so_stems so = stems.

    Collection Pub := HlenF HonlyF Elocs Enl Eslen Estems WF Hcmin.

    Definition locF (x : nat) : option nat := if (0 <=? locZ stF x)%Z then Some (Z.to_nat (locZ stF x)) else None.

    Let PF := ppo_fold_exact all_ip (a_locs stF) (a_caps stF) true
                (fun i n H => in_comb_lt c cmin Hcmin (i, n) H)
                (eq_ind_r (fun l => NoDup l) (seq_NoDup slen 0) (fst_combine_seq sn 0)) HlenF.

    Lemma pub_lt x : x < ppo -> nth x (so_locs so) (-1)%Z = locZ stF x.
    Proof using Pub. intros Hx. rewrite Elocs. destruct PF as (_ & I2 & _). apply I2. intros i n _. lia. Qed.

    Lemma pub_ppo i : i < slen -> nth (ppo + i) (so_locs so) (-1)%Z =
      match n_ins (get_node c (nth i sn 0)) with Some l0 :: _ => locZ stF l0 | _ => locZ stF (ppo + i) end.
    Proof using Pub.
      intros Hi. rewrite Elocs. destruct PF as (_ & _ & I3). apply (I3 i (nth i sn 0)).
      apply (combine_seq_in 0 sn 0 i). exact Hi.
    Qed.

    Lemma so_loc_lt x : x < ppo -> so_loc so x = locF x.
    Proof using Pub. intros Hx. unfold so_loc, locF. cbv zeta. rewrite (pub_lt x Hx). reflexivity. Qed.

    Lemma so_loc_ppo i l0 t : i < slen -> n_ins (get_node c (nth i sn 0)) = Some l0 :: t -> so_loc so (ppo + i) = locF l0.
    Proof using Pub. intros Hi En. unfold so_loc, locF. cbv zeta. rewrite (pub_ppo i Hi), En. reflexivity. Qed.

    Lemma so_loc_ppo_none i : i < slen ->
      (forall l0 t, n_ins (get_node c (nth i sn 0)) <> Some l0 :: t) -> so_loc so (ppo + i) = None.
    Proof using Pub.
      intros Hi En. unfold so_loc. cbv zeta. rewrite (pub_ppo i Hi).
      assert (E : (0 <=? locZ stF (ppo + i))%Z = false).
      { apply Z.leb_gt. destruct (Z_lt_le_dec (locZ stF (ppo + i)) 0) as [H|H]; [exact H|]. apply HonlyF in H. lia. }
      destruct (n_ins (get_node c (nth i sn 0))) as [|[l0|] t]; [rewrite E; reflexivity| |rewrite E; reflexivity].
      exfalso. apply (En l0 t). reflexivity.
    Qed.

    Lemma pub_alias_lt x : x < ppo -> so_alias c so x = x.
    Proof using Pub.
      intros Hx. unfold so_alias, so_ppo. rewrite Enl, Eslen, Estems.
      destruct (Nat.leb ppo x) eqn:E; [apply Nat.leb_le in E; lia|]. apply stemmed_repeat.
    Qed.

    Lemma pub_alias_ppo i l0 t : n_ins (get_node c (nth i sn 0)) = Some l0 :: t -> so_alias c so (ppo + i) = l0.
    Proof using Pub.
      intros En. unfold so_alias, so_ppo. rewrite Enl, Eslen, Estems.
      destruct (Nat.leb ppo (ppo + i)) eqn:E; [|apply Nat.leb_gt in E; lia].
      replace (ppo + i - ppo) with i by lia. rewrite En. apply stemmed_repeat.
    Qed.

    Lemma locF_ald x : locF x <> None <-> ald stF x.
    Proof using Pub.
      unfold locF, ald. destruct (0 <=? locZ stF x)%Z eqn:E.
      - apply Z.leb_le in E. split; [auto|discriminate].
      - apply Z.leb_gt in E. split; [congruence|lia].
    Qed.

    Lemma locF_eq x y l : locF x = Some l -> locF y = Some l -> locZ stF x = locZ stF y.
    Proof using Pub.
      unfold locF. destruct (0 <=? locZ stF x)%Z eqn:Ex; [|discriminate]. destruct (0 <=? locZ stF y)%Z eqn:Ey; [|discriminate].
      apply Z.leb_le in Ex, Ey. intros H1 H2. injection H1 as <-. injection H2 as H2. apply Z2Nat.inj; auto.
    Qed.

    Lemma final_char p : In p (so_final so) <->
      exists i l0 t, i < slen /\ p = ppo + i /\ n_ins (get_node c (nth i sn 0)) = Some l0 :: t /\ ald stF l0.
    Proof using Pub.
      unfold so_final, so_ppo. rewrite Enl, Eslen, filter_In, in_map_iff. split.
      - intros [(i & <- & Hi) Hf]. apply in_seq in Hi. assert (Hi' : i < slen) by lia.
        destruct (n_ins (get_node c (nth i sn 0))) as [|[l0|] t] eqn:En.
        + rewrite so_loc_ppo_none in Hf; [discriminate|exact Hi'|]. intros l0 t. rewrite En. discriminate.
        + exists i, l0, t. split; [exact Hi'|]. split; [reflexivity|]. split; [exact En|].
          rewrite (so_loc_ppo i l0 t Hi' En) in Hf. apply locF_ald. destruct (locF l0); [discriminate|discriminate].
        + rewrite so_loc_ppo_none in Hf; [discriminate|exact Hi'|]. intros l0 t'. rewrite En. discriminate.
      - intros (i & l0 & t & Hi & -> & En & Ha). split.
        + exists i. split; [reflexivity|]. apply in_seq. lia.
        + rewrite (so_loc_ppo i l0 t Hi En). apply locF_ald in Ha. destruct (locF l0); [reflexivity|congruence].
    Qed.

    Lemma init_char x : In x (so_init so) <-> x = nl \/ exists i, i < slen /\ x = ppi + i /\ ald stF (ppi + i).
    Proof using Pub.
      unfold so_init, so_ppi. rewrite Enl, Eslen. cbn [In]. rewrite filter_In, in_map_iff. split.
      - intros [H|[(i & <- & Hi) Hf]]; [left; symmetry; exact H|right]. apply in_seq in Hi. exists i.
        split; [lia|]. split; [reflexivity|]. rewrite so_loc_lt in Hf by lia. apply locF_ald.
        destruct (locF (ppi + i)); [discriminate|discriminate].
      - intros [->|(i & Hi & -> & Ha)]; [left; reflexivity|right]. split.
        + exists i. split; [reflexivity|]. apply in_seq. lia.
        + rewrite so_loc_lt by lia. apply locF_ald in Ha. destruct (locF (ppi + i)); [reflexivity|congruence].
    Qed.

    Lemma init_nodup : NoDup (so_init so).
    Proof using Pub.
      unfold so_init, so_ppi. rewrite Enl, Eslen. constructor.
      - intros H. apply filter_In in H. destruct H as [H _]. apply in_map_iff in H. destruct H as (i & E & _). lia.
      - apply NoDup_filter. apply NoDup_map_add.
    Qed.
  End Publish.

  Section CertR.
    Variable so : simops.
    Hypothesis Hb : build c caps cmin true false = Some so.

    Let Hok : a_ok st6r = true. Proof. apply (build_inv_r so Hb). Qed.
    Let Eops : so_ops so = ops. Proof. apply (build_inv_r so Hb). Qed.
    Let Estems : so_stems so = stems. Proof. apply (build_inv_r so Hb). Qed.
    Let Enl : so_nlines so = nl. Proof. apply (build_inv_r so Hb). Qed.
    Let Eslen : so_slen so = slen. Proof. apply (build_inv_r so Hb). Qed.
    Let Elocs : so_locs so = fst (fst (fold_left (ppo_step c ppo) all_ip (a_locs st6r, a_caps st6r, true))).
    Proof. apply (build_inv_r so Hb). Qed.

    Lemma so_ops_eq_r : so_ops so = ops. Proof. exact Eops. Qed.

    Lemma len6r : length (a_locs st6r) = len.
    Proof. apply (main6 Hok). Qed.

    Lemma out_lt_r o : In o ops -> s_out o < ppo.
    Proof. intros Ho. destruct (all_outs c WF o Ho); lia. Qed.

    Lemma only6r x : ald st6r x -> x < ppo.
    Proof.
      intros H. destruct (main6 Hok) as (_ & _ & K3 & _). destruct (K3 x H) as [H5|[_ Ho]].
      - destruct GI5 as (_ & _ & _ & G4). apply G4 in H5. lia.
      - apply in_map_iff in Ho. destruct Ho as (o & <- & Ho). apply out_lt_r. exact Ho.
    Qed.

    Lemma ald56 x : ald (st5 c cmin) x -> ald st6r x.
    Proof. intros H. destruct (main6 Hok) as (K1 & _). unfold ald. rewrite (K1 x H). exact H. Qed.

    Lemma ald6_out o : In o ops -> ald st6r (s_out o).
    Proof.
      intros Ho. destruct (Nat.eq_dec (s_out o) tmp) as [E|E]; [rewrite E; apply ald56, ald5_tmp|].
      destruct (main6 Hok) as (_ & K2 & _). apply K2; assumption.
    Qed.

    Lemma so_loc_r x : x < ppo -> so_loc so x = locF st6r x.
    Proof. apply (so_loc_lt st6r len6r only6r so Elocs Enl Eslen Estems). Qed.

    Lemma loc_some_r x : x < ppo -> ald st6r x -> so_loc so x <> None.
    Proof. intros Hx Ha. rewrite (so_loc_r x Hx). apply (locF_ald st6r len6r only6r so Elocs Enl Eslen Estems). exact Ha. Qed.

    Lemma loc_neq_r x y : x < ppo -> y < ppo -> ald st6r y -> locZ st6r x <> locZ st6r y -> so_loc so x <> so_loc so y.
    Proof.
      intros Hx Hy Ha Hn. rewrite (so_loc_r x Hx), (so_loc_r y Hy). intros E.
      apply (locF_ald st6r len6r only6r so Elocs Enl Eslen Estems) in Ha. destruct (locF st6r y) as [l|] eqn:Ey; [|congruence].
      apply Hn. apply (locF_eq st6r len6r only6r so Elocs Enl Eslen Estems x y l E Ey).
    Qed.

    Lemma init_r x : In x (so_init so) -> x < ppo /\ ald (st5 c cmin) x.
    Proof.
      intros H. apply (init_char st6r len6r only6r so Elocs Enl Eslen Estems) in H. destruct H as [->|(i & Hi & -> & Ha)].
      - split; [lia|apply ald5_zero].
      - split; [lia|]. destruct (main6 Hok) as (_ & _ & K3 & _). destruct (K3 _ Ha) as [H5|[Nt Ho]]; [exact H5|].
        apply in_map_iff in Ho. destruct Ho as (o & E & Ho). destruct (all_outs c WF o Ho); lia.
    Qed.

    Lemma init_zero_r : In nl (so_init so).
    Proof. apply (init_char st6r len6r only6r so Elocs Enl Eslen Estems). left. reflexivity. Qed.

    Lemma init_ppi_r n p : iface_pos c n = Some p -> 0 < length (n_outs (get_node c n)) -> In (ppi + p) (so_init so).
    Proof.
      intros Hi Ho. apply (init_char st6r len6r only6r so Elocs Enl Eslen Estems). right. exists p.
      split; [apply (iface_pos_lt c n p Hi)|]. split; [reflexivity|]. apply ald56. apply (ald5_ppi n p Hi Ho).
    Qed.

    Lemma opnd_alias_r o x : In o ops -> In x (opnds o) -> so_alias c so x = x.
    Proof. intros Ho Hx. apply (pub_alias_lt st6r len6r only6r so Elocs Enl Eslen Estems). apply (opnd_lt o x Ho Hx). Qed.

    Lemma final_r p : In p (so_final so) ->
      exists i l0 t l, p = ppo + i /\ i < slen /\ n_ins (get_node c (nth i sn 0)) = Some l0 :: t /\
        so_alias c so p = l0 /\ l0 < nl /\ so_loc so p = Some l /\ so_loc so l0 = Some l /\ In l0 (map s_out ops) /\ (0 < Pc l0)%Z.
    Proof.
      intros H. apply (final_char st6r len6r only6r so Elocs Enl Eslen Estems) in H.
      destruct H as (i & l0 & t & Hi & -> & En & Ha). pose proof (ip_ins_lt c WF _ _ _ En) as Hl0.
      pose proof Ha as Ha'. apply (locF_ald st6r len6r only6r so Elocs Enl Eslen Estems) in Ha'. destruct (locF st6r l0) as [l|] eqn:El; [|congruence].
      exists i, l0, t, l. split; [reflexivity|]. split; [exact Hi|]. split; [exact En|].
      split; [apply (pub_alias_ppo st6r len6r only6r so Elocs Enl Eslen Estems i l0 t En)|]. split; [exact Hl0|].
      split; [rewrite (so_loc_ppo st6r len6r only6r so Elocs Enl Eslen Estems i l0 t Hi En); exact El|].
      split; [rewrite so_loc_r by lia; exact El|]. split.
      - destruct (main6 Hok) as (_ & _ & K3 & _). destruct (K3 _ Ha) as [H5|[_ Ho]]; [|exact Ho].
        destruct GI5 as (_ & _ & _ & G4). apply G4 in H5. lia.
      - destruct ref5 as (_ & _ & _ & R4). apply (R4 i l0 t Hi En).
    Qed.

    Theorem build_map_check_reuse_sec :
      map_check (so_loc so) (so_alias c so) (so_init so) (so_final so) (so_ops so) = true.
    Proof.
      destruct (main6 Hok) as (K1 & K2 & K3 & K4 & _). rewrite Eops.
      apply (map_check_intro_nc (so_loc so) (so_alias c so) (fun x => (0 < Pc x)%Z)).
      - apply (init_nodup st6r len6r only6r so Elocs Enl Eslen Estems).
      - intros x Hx. destruct (init_r x Hx) as [H1 H2]. split; [apply (pub_alias_lt st6r len6r only6r so Elocs Enl Eslen Estems); exact H1|].
        apply loc_some_r; [exact H1|apply ald56; exact H2].
      - intros x y l Hx Hy Lx Ly. destruct (init_r x Hx) as [X1 X2]. destruct (init_r y Hy) as [Y1 Y2].
        rewrite so_loc_r in Lx, Ly by assumption. pose proof (locF_eq st6r len6r only6r so Elocs Enl Eslen Estems x y l Lx Ly) as E.
        rewrite (K1 x X2), (K1 y Y2) in E. destruct GI5 as (_ & _ & G3 & _). apply G3; assumption.
      - intros o Ho. pose proof (out_lt_r o Ho) as Hlt. split; [apply (pub_alias_lt st6r len6r only6r so Elocs Enl Eslen Estems); exact Hlt|].
        apply loc_some_r; [exact Hlt|apply ald6_out; exact Ho].
      - intros pre o post E x Hx.
        assert (Ho : In o ops) by (rewrite E; apply in_or_app; right; left; reflexivity).
        pose proof (opnd_lt o x Ho Hx) as Hlt. rewrite (opnd_alias_r o x Ho Hx).
        destruct (opnd_class c cmin WF Hcmin o x Ho Hx) as [->|[Hl|(n & p & Hi & -> & Hout)]].
        + split; [apply loc_some_r; [lia|apply ald56, ald5_zero]|]. split; [reflexivity|]. left. apply init_zero_r.
        + pose proof (written_before c WF pre o post x E Hx (RD o x Ho Hx Hl)) as Hw.
          split; [|split; [reflexivity|right; exact Hw]].
          apply loc_some_r; [exact Hlt|]. apply in_map_iff in Hw. destruct Hw as (o' & <- & Ho').
          apply ald6_out. rewrite E. apply in_or_app. left. exact Ho'.
        + split; [apply loc_some_r; [exact Hlt|apply ald56, (ald5_ppi n p Hi Hout)]|]. split; [reflexivity|].
          left. apply (init_ppi_r n p Hi Hout).
      - intros pre o post E y Ny Hd Hn.
        assert (Ho : In o ops) by (rewrite E; apply in_or_app; right; left; reflexivity).
        assert (Hy : y < ppo).
        { destruct Hd as [Hd|Hd]; [apply (init_r y Hd)|]. apply in_map_iff in Hd. destruct Hd as (o' & <- & Ho').
          apply out_lt_r. rewrite E. apply in_or_app. left. exact Ho'. }
        apply loc_neq_r; [exact Hy|apply out_lt_r; exact Ho|apply ald6_out; exact Ho|].
        apply (K4 pre o post E y Ny).
        + destruct Hd as [Hd|Hd]; [left; apply (init_r y Hd)|].
          destruct (Nat.eq_dec y tmp) as [->|Nt]; [left; apply ald5_tmp|right; split; assumption].
        + destruct Hn as [Hn|Hn]; [left; exact Hn|right]. apply in_flat_map in Hn. destruct Hn as (o' & Ho' & Hy').
          apply in_flat_map. exists o'. split; [exact Ho'|]. unfold ards in Hy'. apply in_map_iff in Hy'.
          destruct Hy' as (x & <- & Hx). rewrite (opnd_alias_r o' x); [exact Hx| |exact Hx].
          rewrite E. apply in_or_app. right. exact Ho'.
      - intros p Hp. destruct (final_r p Hp) as (i & l0 & t & l & _ & _ & _ & Ea & _ & Lp & Ll0 & Hw & Hpin).
        exists l. rewrite Ea. auto.
    Qed.
  End CertR.

  (** ** existence: with reuse the a_ok flag stays true as well (every released chunk is live) *)
  Theorem build_total_reuse_sec : nl <= length caps -> exists so, build c caps cmin true false = Some so.
  Proof.
    intros Hcaps. rewrite build_eq_r, stem_copy_id.
    pose proof (ppo_fold_snd c all_ip (a_locs st6r, a_caps st6r, true)) as E8.
    destruct (fold_left (ppo_step c ppo) all_ip (a_locs st6r, a_caps st6r, true)) as [[l8 c8] ok8].
    cbn [snd] in E8. subst ok8.
    assert (E6 : a_ok st6r = true).
    { apply main6_cap. intros o Ho Hn. unfold capok. intros F. apply nth_error_None in F.
      destruct (all_outs c WF o Ho); lia. }
    rewrite E6. cbn [andb]. eexists. reflexivity.
  Qed.

  (** ** c_reuse does not change the schedule, the aliases, the stimulus slots or the observed slots *)
  Section Same.
    Variable so0 so1 : simops.
    Hypothesis Hb0 : build c caps cmin false false = Some so0.
    Hypothesis Hb1 : build c caps cmin true false = Some so1.
    Hypothesis LD : forall l, l < nl -> In l (map s_out ops).      (* every line is driven by an op *)

    Let I0 := build_inv c caps cmin so0 Hb0.
    Let I1 := build_inv_r so1 Hb1.

    Lemma only6f x : ald (st6 c caps cmin) x -> x < ppo.
    Proof.
      intros H. apply (only6 c caps cmin Hcmin) in H.
      destruct H as [A|[A|[A|[(j & Hj & A)|(o & Ho & A)]]]]; try lia. destruct (all_outs c WF o Ho); lia.
    Qed.

    Lemma Elocs0 : so_locs so0 = fst (fst (fold_left (ppo_step c ppo) all_ip (a_locs (st6 c caps cmin), a_caps (st6 c caps cmin), true))).
    Proof. destruct I0 as (_ & _ & _ & _ & _ & E). exact E. Qed.

    Lemma opA_HLStep_outs st o : In o ops ->
      HLStep (fun x => exists o, In o ops /\ x = s_out o) (hl st) (hl (opA tmp stems caps cmin st o)).
    Proof.
      intros Ho. destruct (opA_spec tmp stems caps cmin st o) as [(_ & H & _)|[(_ & _ & H & _)|(_ & cp & _ & H & _)]].
      - left. exact H.
      - left. exact H.
      - right. exists (s_out o), (N.max cmin cp). split; [lia|]. split; [|exact H]. exists o. auto.
    Qed.

    Lemma ald6_iff_ppi i : ald (st6 c caps cmin) (ppi + i) <-> ald (st5 c cmin) (ppi + i).
    Proof.
      assert (G : Grow (fun x => exists o, In o ops /\ x = s_out o) (hl (st5 c cmin)) (hl (st6 c caps cmin))).
      { rewrite st6_eq. apply fold_Grow. intros st o Ho. apply opA_HLStep_outs. exact Ho. }
      destruct G as (_ & _ & M & O). split.
      - intros H. destruct (O _ H) as [H5|(o & Ho & E)]; [exact H5|]. destruct (all_outs c WF o Ho); lia.
      - apply M.
    Qed.

    Lemma ald6r_iff_ppi i : ald st6r (ppi + i) <-> ald (st5 c cmin) (ppi + i).
    Proof.
      destruct I1 as (Hok & _). destruct (main6 Hok) as (K1 & _ & K3 & _). split.
      - intros H. destruct (K3 _ H) as [H5|[_ Ho]]; [exact H5|]. apply in_map_iff in Ho. destruct Ho as (o & E & Ho).
        destruct (all_outs c WF o Ho); lia.
      - intros H. unfold ald. rewrite (K1 _ H). exact H.
    Qed.

    Lemma filter_eq_of_In {A} (f g : A -> bool) l : (forall x, In x (filter f l) <-> In x (filter g l)) -> filter f l = filter g l.
    Proof.
      intros H. apply filter_ext_in. intros a Ha. destruct (f a) eqn:F; destruct (g a) eqn:G; try reflexivity.
      - assert (X : In a (filter g l)) by (apply H; apply filter_In; auto). apply filter_In in X. destruct X; congruence.
      - assert (X : In a (filter f l)) by (apply H; apply filter_In; auto). apply filter_In in X. destruct X; congruence.
    Qed.

    Theorem same_interface_sec :
      so_ops so1 = so_ops so0 /\ so_level_starts so1 = so_level_starts so0 /\
      (forall x, so_alias c so1 x = so_alias c so0 x) /\ so_init so1 = so_init so0 /\ so_final so1 = so_final so0.
    Proof.
      destruct I0 as (Hok0 & Eo0 & Es0 & En0 & El0 & _). destruct I1 as (Hok1 & Eo1 & Es1 & En1 & El1 & EL1 & Est1).
      pose proof (len6 c caps cmin Hcmin) as L0. pose proof (len6r so1 Hb1) as L1.
      split; [congruence|]. split.
      { rewrite Est1. clear - Hb0. rewrite build_eq, stem_copy_id in Hb0.
        destruct (fold_left (ppo_step c ppo) all_ip (a_locs (st6 c caps cmin), a_caps (st6 c caps cmin), true)) as [[l8 c8] ok8].
        destruct (a_ok (st6 c caps cmin) && ok8); [|discriminate]. injection Hb0 as <-. reflexivity. }
      split; [intros x; unfold so_alias, so_ppo; rewrite En0, En1, El0, El1, Es0, Es1; reflexivity|].
      split.
      - unfold so_init, so_ppi. rewrite En0, En1, El0, El1. f_equal. apply filter_eq_of_In. intros x.
        pose proof (init_char _ L1 (only6r so1 Hb1) so1 EL1 En1 El1 Es1 x) as C1.
        pose proof (init_char _ L0 only6f so0 Elocs0 En0 El0 Es0 x) as C0.
        unfold so_init, so_ppi in C0, C1. rewrite En0, El0 in C0. rewrite En1, El1 in C1. cbn [In] in C0, C1.
        split; intros H.
        + assert (X : nl = x \/ In x (filter (fun x0 => match so_loc so1 x0 with Some _ => true | None => false end) (map (fun i => ppi + i) (seq 0 slen)))) by (right; exact H).
          apply C1 in X. destruct X as [->|(i & Hi & -> & Ha)].
          { apply filter_In in H. destruct H as [H _]. apply in_map_iff in H. destruct H as (j & E & _). lia. }
          assert (Y : ppi + i = nl \/ exists i0, i0 < slen /\ ppi + i = ppi + i0 /\ ald (st6 c caps cmin) (ppi + i0)).
          { right. exists i. split; [exact Hi|]. split; [reflexivity|]. apply ald6_iff_ppi. apply ald6r_iff_ppi. exact Ha. }
          apply C0 in Y. destruct Y as [Y|Y]; [lia|exact Y].
        + assert (X : nl = x \/ In x (filter (fun x0 => match so_loc so0 x0 with Some _ => true | None => false end) (map (fun i => ppi + i) (seq 0 slen)))) by (right; exact H).
          apply C0 in X. destruct X as [->|(i & Hi & -> & Ha)].
          { apply filter_In in H. destruct H as [H _]. apply in_map_iff in H. destruct H as (j & E & _). lia. }
          assert (Y : ppi + i = nl \/ exists i0, i0 < slen /\ ppi + i = ppi + i0 /\ ald st6r (ppi + i0)).
          { right. exists i. split; [exact Hi|]. split; [reflexivity|]. apply ald6r_iff_ppi. apply ald6_iff_ppi. exact Ha. }
          apply C1 in Y. destruct Y as [Y|Y]; [lia|exact Y].
      - unfold so_final, so_ppo. rewrite En0, En1, El0, El1. apply filter_eq_of_In. intros x.
        pose proof (final_char _ L1 (only6r so1 Hb1) so1 EL1 En1 El1 Es1 x) as C1.
        pose proof (final_char _ L0 only6f so0 Elocs0 En0 El0 Es0 x) as C0.
        unfold so_final, so_ppo in C0, C1. rewrite En0, El0 in C0. rewrite En1, El1 in C1.
        rewrite C0, C1. split; intros (i & l0 & t & Hi & E & En & _); exists i, l0, t; (split; [exact Hi|]; split; [exact E|]; split; [exact En|]);
          pose proof (ip_ins_lt c WF _ _ _ En) as Hl0; specialize (LD l0 Hl0); apply in_map_iff in LD; destruct LD as (o & Eo & Ho); rewrite <- Eo.
        + apply (allocd6_out c caps cmin WF Hcmin o Hok0 Ho). lia.
        + apply (ald6_out so1 Hb1 o Ho).
    Qed.
  End Same.
End BuildR.

(* ------------------------------------------------------------------------------------------------ *)
(** * The theorems *)

(** C08 with c_reuse: the map of [build _ _ _ true false] passes the ownership certificate *)
Theorem build_map_check_reuse_rd c caps cmin so :
  wf_netlist c -> (0 < cmin)%N -> reads_defined c ->
  build c caps cmin true false = Some so ->
  map_check (so_loc so) (so_alias c so) (so_init so) (so_final so) (so_ops so) = true.
Proof. intros WF Hc RD Hb. exact (build_map_check_reuse_sec c caps cmin WF Hc RD so Hb). Qed.

Theorem build_map_check_reuse c caps cmin so :
  wf_netlist c -> comb_acyclic c -> (0 < cmin)%N -> gates_known c ->
  build c caps cmin true false = Some so ->
  map_check (so_loc so) (so_alias c so) (so_init so) (so_final so) (so_ops so) = true.
Proof.
  intros WF AC Hc GK Hb. apply (build_map_check_reuse_rd c caps cmin so WF Hc); [|exact Hb].
  apply gates_known_reads_defined; assumption.
Qed.

(** the hypothesis [build ... = Some so] is satisfiable whenever the capacity vector covers the lines *)
Theorem build_total_reuse c caps cmin :
  wf_netlist c -> comb_acyclic c -> (0 < cmin)%N -> gates_known c -> length (c_lines c) <= length caps ->
  exists so, build c caps cmin true false = Some so.
Proof.
  intros WF AC Hc GK Hl. apply (build_total_reuse_sec c caps cmin WF Hc); [|exact Hl].
  apply gates_known_reads_defined; assumption.
Qed.

Theorem reuse_same_interface c caps cmin so0 so1 :
  wf_netlist c -> comb_acyclic c -> (0 < cmin)%N -> gates_known c ->
  build c caps cmin false false = Some so0 -> build c caps cmin true false = Some so1 ->
  so_ops so1 = so_ops so0 /\ so_level_starts so1 = so_level_starts so0 /\
  (forall x, so_alias c so1 x = so_alias c so0 x) /\ so_init so1 = so_init so0 /\ so_final so1 = so_final so0.
Proof.
  intros WF AC Hc GK Hb0 Hb1.
  apply (same_interface_sec c caps cmin WF Hc (gates_known_reads_defined c WF AC GK) so0 so1 Hb0 Hb1).
  intros l Hl. apply all_lines_driven; assumption.
Qed.

Lemma iexec_alias_eq {V} (sem : N -> V -> V -> V -> V -> V) a1 a2 : (forall x, a1 x = a2 x) ->
  forall ops (e : @ienv V), iexec sem a1 ops e = iexec sem a2 ops e.
Proof.
  intros H. induction ops as [|o r IH]; intros e; [reflexivity|]. unfold iexec in *. cbn [fold_left].
  rewrite <- IH. f_equal. unfold istep. rewrite !H. reflexivity.
Qed.

(** C06, c_reuse clause: both memory layouts deliver, at every observed slot, the line-level value; hence the same value *)
Theorem reuse_irrelevant {V} (sem : N -> V -> V -> V -> V -> V) (dflt : V) c caps cmin so0 so1 (e : @ienv V) (m0 m1 : @fmem V) :
  wf_netlist c -> comb_acyclic c -> (0 < cmin)%N -> gates_known c ->
  build c caps cmin false false = Some so0 -> build c caps cmin true false = Some so1 ->
  (forall x l, In x (so_init so0) -> so_loc so0 x = Some l -> m0 l = e x) ->
  (forall x l, In x (so_init so1) -> so_loc so1 x = Some l -> m1 l = e x) ->
  forall p, In p (so_final so1) ->
    mread dflt (so_loc so1) (mexec sem dflt (so_loc so1) (so_ops so1) m1) p
    = mread dflt (so_loc so0) (mexec sem dflt (so_loc so0) (so_ops so0) m0) p.
Proof.
  intros WF AC Hc GK Hb0 Hb1 H0 H1 p Hp.
  destruct (reuse_same_interface c caps cmin so0 so1 WF AC Hc GK Hb0 Hb1) as (Eo & _ & Ea & _ & Ef).
  pose proof (build_map_check_gates c caps cmin so0 WF AC Hc GK Hb0) as K0.
  pose proof (build_map_check_reuse c caps cmin so1 WF AC Hc GK Hb1) as K1.
  rewrite (map_check_sound sem dflt _ _ _ _ _ K1 e m1 H1 p Hp).
  rewrite Ef in Hp. rewrite (map_check_sound sem dflt _ _ _ _ _ K0 e m0 H0 p Hp).
  rewrite Eo, (Ea p), (iexec_alias_eq sem _ _ Ea). reflexivity.
Qed.

(** C01 with c_reuse: flat-memory execution through the reused map delivers the line-level value of the line feeding the s_node *)
Theorem end_to_end_reuse {V} (sem : N -> V -> V -> V -> V -> V) (zero : V) c caps cmin so stim (m0 : @fmem V) :
  wf_netlist c -> comb_acyclic c -> (0 < cmin)%N -> gates_known c ->
  build c caps cmin true false = Some so ->
  (forall x l, In x (so_init so) -> so_loc so x = Some l -> m0 l = init_env zero c stim x) ->
  forall p, In p (so_final so) ->
    mread zero (so_loc so) (mexec sem zero (so_loc so) (so_ops so) m0) p
    = iexec sem (fun x => x) (build_ops c false) (init_env zero c stim) (so_alias c so p).
Proof.
  intros WF AC Hc GK Hb Hm p Hp.
  pose proof (build_map_check_reuse c caps cmin so WF AC Hc GK Hb) as K.
  rewrite (map_check_sound sem zero _ _ _ _ _ K (init_env zero c stim) m0 Hm p Hp).
  pose proof (gates_known_reads_defined c WF AC GK) as RD.
  rewrite (so_ops_eq_r c caps cmin so Hb). apply (f_equal (fun f => f (so_alias c so p))).
  apply iexec_alias_ext. intros o x Ho Hx. apply (opnd_alias_r c caps cmin WF Hc RD so Hb o x Ho Hx).
Qed.

(* ------------------------------------------------------------------------------------------------ *)
(** * Example: input 0 -> fork 1 -> {not 2, and 3 pin 1}; not 2 -> and 3 -> not 4 -> DFF 5 -> output 6.
      Five levels; with c_reuse lines 0, 3 and 5 share location 5 and lines 1 and 4 share location 7 (c_len 9 instead of 12). *)
Module ReuseExample.
  Local Open Scope string_scope.
  Definition exR : netlist :=
    {| c_nodes :=
         [ {| n_kind := "input";    n_ins := [];               n_outs := [Some 0] |};
           {| n_kind := "__fork__"; n_ins := [Some 0];         n_outs := [Some 1; Some 2] |};
           {| n_kind := "not";      n_ins := [Some 1];         n_outs := [Some 3] |};
           {| n_kind := "and2";     n_ins := [Some 3; Some 2]; n_outs := [Some 4] |};
           {| n_kind := "not";      n_ins := [Some 4];         n_outs := [Some 5] |};
           {| n_kind := "DFFX1";    n_ins := [Some 5];         n_outs := [Some 6] |};
           {| n_kind := "output";   n_ins := [Some 6];         n_outs := [] |} ];
       c_lines :=
         [ {| l_drv := 0; l_dpin := 0; l_rdr := 1; l_rpin := 0 |};
           {| l_drv := 1; l_dpin := 0; l_rdr := 2; l_rpin := 0 |};
           {| l_drv := 1; l_dpin := 1; l_rdr := 3; l_rpin := 1 |};
           {| l_drv := 2; l_dpin := 0; l_rdr := 3; l_rpin := 0 |};
           {| l_drv := 3; l_dpin := 0; l_rdr := 4; l_rpin := 0 |};
           {| l_drv := 4; l_dpin := 0; l_rdr := 5; l_rpin := 0 |};
           {| l_drv := 5; l_dpin := 0; l_rdr := 6; l_rpin := 0 |} ];
       c_io := [0; 6] |}.

  Lemma exR_wf : wf_netlist exR.
  Proof. apply wf_netlist_b_sound. vm_compute. reflexivity. Qed.

  Lemma exR_acyclic : comb_acyclic exR.
  Proof. apply (acyclic_b_sound exR exR_wf). vm_compute. reflexivity. Qed.

  Lemma exR_gates_known : gates_known exR.
  Proof.
    unfold gates_known. split; [|split].
    - intros n Hn Hi Hf. simpl in Hn. do 7 (destruct n as [|n]; [vm_compute in Hi, Hf |- *; try discriminate|]). lia.
    - intros n Hn Hd k o Hk Ho. simpl in Hn.
      do 7 (destruct n as [|n]; [vm_compute in Hd; first [discriminate|
             do 2 (destruct k as [|k]; [lia|]); destruct k; discriminate]|]). lia.
    - intros n Hn Hi Hf k o Hk Ho. simpl in Hn.
      do 7 (destruct n as [|n]; [vm_compute in Hi, Hf; first [discriminate|
             destruct k as [|k]; [lia|]; destruct k; discriminate]|]). lia.
  Qed.

  (** the published map: index -> location (lines 0..6, zero 7, tmp 8, tmp2 9, PPI 10..12, PPO 13..15) *)
  Example exR_build : option_map (fun so => (so_locs so, so_level_starts so, so_len so)) (build exR (repeat 1%N 7) 1%N true false)
    = Some ([5; 7; 8; 5; 7; 5; 6; 0; 1; 2; 3; -1; 4; -1; 6; 5]%Z, [0; 2; 4; 5; 6], 9%N).
  Proof. vm_compute. reflexivity. Qed.

  Example exR_build_noreuse : option_map (fun so => (so_locs so, so_len so)) (build exR (repeat 1%N 7) 1%N false false)
    = Some ([5; 7; 8; 9; 10; 11; 6; 0; 1; 2; 3; -1; 4; -1; 6; 11]%Z, 12%N).
  Proof. vm_compute. reflexivity. Qed.

  (** two different, non-aliased signals share a location *)
  Example exR_shares so : build exR (repeat 1%N 7) 1%N true false = Some so ->
    exists i j, i <> j /\ i < 7 /\ j < 7 /\ so_alias exR so i = i /\ so_alias exR so j = j /\
                so_loc so i = so_loc so j /\ so_loc so i <> None.
  Proof.
    intros Hb. vm_compute in Hb. injection Hb as <-. exists 0, 3. vm_compute.
    repeat split; try lia; try discriminate.
  Qed.

  (** the theorems instantiated (no computation of the certificate involved) *)
  Example exR_cert_by_theorem so : build exR (repeat 1%N 7) 1%N true false = Some so ->
    map_check (so_loc so) (so_alias exR so) (so_init so) (so_final so) (so_ops so) = true.
  Proof. apply build_map_check_reuse; [exact exR_wf|exact exR_acyclic|reflexivity|exact exR_gates_known]. Qed.

  Example exR_reuse_irrelevant {V} (sem : N -> V -> V -> V -> V -> V) (dflt : V) so0 so1 (e : @ienv V) (m0 m1 : @fmem V) :
    build exR (repeat 1%N 7) 1%N false false = Some so0 -> build exR (repeat 1%N 7) 1%N true false = Some so1 ->
    (forall x l, In x (so_init so0) -> so_loc so0 x = Some l -> m0 l = e x) ->
    (forall x l, In x (so_init so1) -> so_loc so1 x = Some l -> m1 l = e x) ->
    forall p, In p (so_final so1) ->
      mread dflt (so_loc so1) (mexec sem dflt (so_loc so1) (so_ops so1) m1) p
      = mread dflt (so_loc so0) (mexec sem dflt (so_loc so0) (so_ops so0) m0) p.
  Proof. apply reuse_irrelevant; [exact exR_wf|exact exR_acyclic|reflexivity|exact exR_gates_known]. Qed.

  Example exR_observed : option_map (fun so => (so_init so, so_final so, map (so_alias exR so) (so_final so)))
                                    (build exR (repeat 1%N 7) 1%N true false)
    = Some ([7; 10; 12], [14; 15], [6; 5]).
  Proof. vm_compute. reflexivity. Qed.

  (** non-vacuity of [build_map_check_reuse] / [reuse_irrelevant], packaged: a netlist with a flip-flop, a fan-out and five
      levels satisfies every hypothesis, and its reused map stores two different, non-aliased lines at one location *)
  Theorem reuse_nonvacuous : exists c caps cmin so,
    wf_netlist c /\ comb_acyclic c /\ (0 < cmin)%N /\ gates_known c /\ build c caps cmin true false = Some so /\
    exists i j, i <> j /\ i < length (c_lines c) /\ j < length (c_lines c) /\
                so_alias c so i = i /\ so_alias c so j = j /\ so_loc so i = so_loc so j /\ so_loc so i <> None.
  Proof.
    destruct (build exR (repeat 1%N 7) 1%N true false) as [so|] eqn:Hb; [|vm_compute in Hb; discriminate].
    exists exR, (repeat 1%N 7), 1%N, so.
    split; [exact exR_wf|]. split; [exact exR_acyclic|]. split; [reflexivity|]. split; [exact exR_gates_known|].
    split; [exact Hb|]. exact (exR_shares so Hb).
  Qed.
End ReuseExample.

Print Assumptions map_check_intro_nc.
Print Assumptions events_main.
Print Assumptions build_map_check_reuse.
Print Assumptions build_total_reuse.
Print Assumptions reuse_same_interface.
Print Assumptions reuse_irrelevant.
Print Assumptions end_to_end_reuse.
Print Assumptions ReuseExample.exR_shares.
Print Assumptions ReuseExample.exR_cert_by_theorem.
Print Assumptions ReuseExample.exR_reuse_irrelevant.
Print Assumptions ReuseExample.reuse_nonvacuous.
