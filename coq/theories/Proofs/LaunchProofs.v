(** The mock CUDA grid launch covers the guarded rectangle exactly once. *)
From Coq Require Import List Arith Lia Bool.
From KV Require Import Model.Launch.
Import ListNotations.

(** * Generic NoDup lemmas *)
Lemma NoDup_app_disj {A} (l1 l2 : list A) :
  NoDup l1 -> NoDup l2 -> (forall x, In x l1 -> ~ In x l2) -> NoDup (l1 ++ l2).
Proof.
  induction l1 as [|a l1 IH]; intros H1 H2 D; simpl; auto.
  inversion H1; subst. constructor.
  - rewrite in_app_iff. intros [H | H]; [contradiction|]. apply (D a); simpl; auto.
  - apply IH; auto. intros x Hx. apply D; simpl; auto.
Qed.

Lemma NoDup_flat_map {A B} (f : A -> list B) (l : list A) :
  NoDup l ->
  (forall a, In a l -> NoDup (f a)) ->
  (forall a b x, In a l -> In b l -> In x (f a) -> In x (f b) -> a = b) ->
  NoDup (flat_map f l).
Proof.
  induction l as [|a l IH]; intros Hl Hf Hd; simpl; [constructor|].
  inversion Hl; subst. apply NoDup_app_disj.
  - apply Hf; simpl; auto.
  - apply IH; auto.
    + intros; apply Hf; simpl; auto.
    + intros a' b' x Ha Hb; apply Hd; simpl; auto.
  - intros x Hx Hin. apply in_flat_map in Hin. destruct Hin as [b [Hb Hxb]].
    assert (a = b) by (apply (Hd a b x); simpl; auto). subst. contradiction.
Qed.

Lemma NoDup_map_inj {A B} (f : A -> B) (l : list A) :
  (forall a b, f a = f b -> a = b) -> NoDup l -> NoDup (map f l).
Proof.
  intros Hinj; induction 1 as [|a l Hn Hl IH]; simpl; constructor; auto.
  rewrite in_map_iff. intros [b [Hb Hin]]. apply Hinj in Hb. subst. contradiction.
Qed.

Lemma NoDup_list_prod' {A B} (l : list A) (l' : list B) :
  NoDup l -> NoDup l' -> NoDup (list_prod l l').
Proof.
  intros Hl Hl'. induction Hl as [|a l Hn Hl IH]; cbn; [constructor|].
  apply NoDup_app_disj; [| exact IH |].
  - apply NoDup_map_inj; [|exact Hl']. intros x y E. injection E; auto.
  - intros [x y] H1 H2. apply in_map_iff in H1. destruct H1 as [z [E _]]. injection E as -> _.
    apply in_prod_iff in H2. tauto.
Qed.

(** * Arithmetic *)
Lemma div_block g b t : t < b -> (g * b + t) / b = g.
Proof. intros H. symmetry. apply Nat.div_unique with t; auto. lia. Qed.

Lemma mod_block g b t : t < b -> (g * b + t) mod b = t.
Proof. intros H. symmetry. apply Nat.mod_unique with g; auto. lia. Qed.

Lemma div_lt_cdiv x X b : 0 < b -> x < X -> x / b < cdiv X b.
Proof.
  intros Hb Hx. unfold cdiv. apply Nat.div_lt_upper_bound; [lia|].
  pose proof (Nat.div_mod_eq (X + b - 1) b) as E.
  pose proof (Nat.mod_upper_bound (X + b - 1) b) as U.
  assert (Hb' : b <> 0) by lia. specialize (U Hb'). lia.
Qed.

(** * Membership in the launch enumeration *)
Lemma in_launch gx gy bx by_ x y :
  In (x, y) (launch gx gy bx by_) <->
  exists g_x g_y b_x b_y, g_x < gx /\ g_y < gy /\ b_x < bx /\ b_y < by_ /\
                          x = g_x * bx + b_x /\ y = g_y * by_ + b_y.
Proof.
  unfold launch. split.
  - intros H.
    apply in_flat_map in H; destruct H as [g_x [H1 H]].
    apply in_flat_map in H; destruct H as [g_y [H2 H]].
    apply in_flat_map in H; destruct H as [b_x [H3 H]].
    apply in_map_iff in H; destruct H as [b_y [E H4]].
    apply in_seq in H1, H2, H3, H4. inversion E; subst.
    exists g_x, g_y, b_x, b_y. repeat split; lia.
  - intros [g_x [g_y [b_x [b_y [H1 [H2 [H3 [H4 [Ex Ey]]]]]]]]]. subst.
    apply in_flat_map; exists g_x; split; [apply in_seq; lia|].
    apply in_flat_map; exists g_y; split; [apply in_seq; lia|].
    apply in_flat_map; exists b_x; split; [apply in_seq; lia|].
    apply in_map_iff; exists b_y; split; [reflexivity | apply in_seq; lia].
Qed.

Lemma NoDup_launch gx gy bx by_ : NoDup (launch gx gy bx by_).
Proof.
  unfold launch.
  apply NoDup_flat_map; [apply seq_NoDup | |].
  - intros g_x _. apply NoDup_flat_map; [apply seq_NoDup | |].
    + intros g_y _. apply NoDup_flat_map; [apply seq_NoDup | |].
      * intros b_x _. apply NoDup_map_inj; [|apply seq_NoDup].
        intros a b E. inversion E. lia.
      * intros a b [x y] _ _ Ha Hb.
        apply in_map_iff in Ha, Hb. destruct Ha as [u [Eu _]], Hb as [v [Ev _]].
        injection Eu as Ex1 Ey1. injection Ev as Ex2 Ey2. lia.
    + intros a b [x y] _ _ Ha Hb.
      apply in_flat_map in Ha, Hb. destruct Ha as [u [_ Ha]], Hb as [v [_ Hb]].
      apply in_map_iff in Ha, Hb. destruct Ha as [s [Es Hs]], Hb as [t [Et Ht]].
      apply in_seq in Hs, Ht. injection Es as Ex1 Ey1. injection Et as Ex2 Ey2.
      assert (E : (a * by_ + s) / by_ = (b * by_ + t) / by_) by (f_equal; lia).
      rewrite !div_block in E by lia. exact E.
  - intros a b [x y] _ _ Ha Hb.
    apply in_flat_map in Ha, Hb. destruct Ha as [u1 [_ Ha]], Hb as [v1 [_ Hb]].
    apply in_flat_map in Ha, Hb. destruct Ha as [u [Hu Ha]], Hb as [v [Hv Hb]].
    apply in_map_iff in Ha, Hb. destruct Ha as [s [Es _]], Hb as [t [Et _]].
    apply in_seq in Hu, Hv. injection Es as Ex1 Ey1. injection Et as Ex2 Ey2.
    assert (E : (a * bx + u) / bx = (b * bx + v) / bx) by (f_equal; lia).
    rewrite !div_block in E by lia. exact E.
Qed.

(** * Main theorem *)
Theorem threads_cover X Y bx by_ : 0 < bx -> 0 < by_ ->
  NoDup (threads X Y bx by_) /\ (forall x y, In (x, y) (threads X Y bx by_) <-> (x < X /\ y < Y)).
Proof.
  intros Hbx Hby. unfold threads. split.
  - apply NoDup_filter, NoDup_launch.
  - intros x y. rewrite filter_In. simpl fst; simpl snd.
    rewrite andb_true_iff, !Nat.ltb_lt. split; [tauto|].
    intros [Hx Hy]. split; [|auto].
    apply in_launch.
    exists (x / bx), (y / by_), (x mod bx), (y mod by_).
    repeat split.
    + apply div_lt_cdiv; auto.
    + apply div_lt_cdiv; auto.
    + apply Nat.mod_upper_bound; lia.
    + apply Nat.mod_upper_bound; lia.
    + rewrite (Nat.div_mod_eq x bx) at 1. lia.
    + rewrite (Nat.div_mod_eq y by_) at 1. lia.
Qed.

(** each guarded cell is hit by exactly one (grid, block) coordinate: count = X * Y *)
Corollary threads_length X Y bx by_ : 0 < bx -> 0 < by_ ->
  length (threads X Y bx by_) = X * Y.
Proof.
  intros Hbx Hby. destruct (threads_cover X Y bx by_ Hbx Hby) as [ND IN].
  assert (P1 : incl (threads X Y bx by_) (list_prod (seq 0 X) (seq 0 Y))).
  { intros [x y] H. apply IN in H. apply in_prod; apply in_seq; lia. }
  assert (P2 : incl (list_prod (seq 0 X) (seq 0 Y)) (threads X Y bx by_)).
  { intros [x y] H. apply in_prod_iff in H. rewrite !in_seq in H. apply IN. lia. }
  assert (NDp : NoDup (list_prod (seq 0 X) (seq 0 Y))).
  { apply NoDup_list_prod'; apply seq_NoDup. }
  pose proof (NoDup_incl_length ND P1) as L1.
  pose proof (NoDup_incl_length NDp P2) as L2.
  rewrite prod_length, !seq_length in *. lia.
Qed.

Example threads_5_3_4_2 :
  threads 5 3 4 2 =
  [(0,0); (0,1); (1,0); (1,1); (2,0); (2,1); (3,0); (3,1);
   (0,2); (1,2); (2,2); (3,2);
   (4,0); (4,1); (4,2)]
  /\ length (launch (cdiv 5 4) (cdiv 3 2) 4 2) = 32
  /\ NoDup (threads 5 3 4 2)
  /\ (In (4, 2) (threads 5 3 4 2) <-> 4 < 5 /\ 2 < 3)
  /\ ~ In (5, 0) (threads 5 3 4 2).
Proof.
  destruct (threads_cover 5 3 4 2) as [ND IN]; try lia.
  split; [vm_compute; reflexivity|]. split; [vm_compute; reflexivity|].
  split; [exact ND|]. split; [apply IN|]. rewrite IN. lia.
Qed.

Print Assumptions threads_cover.
Print Assumptions threads_length.
