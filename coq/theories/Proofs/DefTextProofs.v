(** Text level of the DEF front end (Model/DefText.v): the scanner takes a whole word as the token [word_tok] says, for any
    blank after it; ignored text between words is invisible; hence every program of token requests -- in particular the DEF
    parser -- runs on a text as on its word list; the parser reads the printed words of a well-formed tree back as the tree. *)
From Coq Require Import List NArith Bool Arith String Ascii Lia.
From KV Require Import Model.DefRoute Model.DefElab Model.DefText Model.DefTextSpec.
From KV Require Proofs.DefElabProofs.
Import ListNotations.
Local Open Scope list_scope.

(* ------------------------------------------------------------------------------------------------ *)
(** * strings *)
Lemma sapp_assoc (a b c : string) : ((a ++ b) ++ c)%string = (a ++ (b ++ c))%string.
Proof. induction a as [|x a IH]; [reflexivity|]. cbn [append]. now rewrite IH. Qed.
Lemma sapp_nil_r (a : string) : (a ++ "")%string = a.
Proof. induction a as [|x a IH]; [reflexivity|]. cbn [append]. now rewrite IH. Qed.
Lemma slen_app : forall a b : string, String.length (a ++ b)%string = String.length a + String.length b.
Proof. induction a as [|x a IH]; intro b; [reflexivity|]. cbn [append String.length]. now rewrite IH. Qed.

Fixpoint sall (p : ascii -> bool) (s : string) : bool :=
  match s with EmptyString => true | String c r => p c && sall p r end.
Lemma nows_sall : forall w, nows w = sall (fun x => negb (is_ws x)) w.
Proof. induction w as [|c w IH]; [reflexivity|]. cbn [nows sall]. now rewrite IH. Qed.
Lemma all_digits_sall : forall w, all_digits w = sall is_digit w.
Proof. induction w as [|c w IH]; [reflexivity|]. cbn [all_digits sall]. now rewrite IH. Qed.
Lemma span_sall : forall p w c0 Y, sall p w = true -> p c0 = false -> span p (w ++ String c0 Y) = (w, String c0 Y).
Proof.
  intros p. induction w as [|c w IH]; intros c0 Y Hw Hc; cbn [append span].
  - now rewrite Hc.
  - cbn [sall] in Hw. apply andb_true_iff in Hw. destruct Hw as [H1 H2]. now rewrite H1, (IH _ _ H2 Hc).
Qed.

(** * characters: the five blanks *)
Lemma ws_cases : forall c, is_ws c = true ->
  c = ascii_of_N 9 \/ c = ascii_of_N 10 \/ c = ascii_of_N 12 \/ c = ascii_of_N 13 \/ c = ascii_of_N 32.
Proof.
  intros c. destruct c as [[|] [|] [|] [|] [|] [|] [|] [|]]; vm_compute; intro H; try discriminate H; tauto.
Qed.
Ltac ws_split c H := destruct (ws_cases c H) as [->|[->|[->|[->| ->]]]].
Lemma ws_not_digit : forall c, is_ws c = true -> is_digit c = false.
Proof. intros c H. ws_split c H; reflexivity. Qed.
Lemma ws_not_nows : forall c, is_ws c = true -> negb (is_ws c) = false.
Proof. intros c H. now rewrite H. Qed.

(* ------------------------------------------------------------------------------------------------ *)
(** * the regular-expression terminals on a whole word followed by a blank *)
Lemma match_id_word : forall w c0 Y, nows w = true -> first_ok w = true -> starts_plus w = false -> is_ws c0 = true ->
  match_id (w ++ String c0 Y) = Some (w, String c0 Y).
Proof.
  intros w c0 Y Hn Hf Hp Hc. destruct w as [|c w]; [discriminate Hf|].
  cbn [first_ok] in Hf. apply andb_true_iff in Hf. destruct Hf as [Hf _]. apply negb_true_iff in Hf.
  cbn [starts_plus] in Hp. unfold match_id. cbn [append]. rewrite Hf, Hp. cbn [orb].
  change (String c (w ++ String c0 Y)) with (String c w ++ String c0 Y)%string.
  rewrite span_sall; [reflexivity | now rewrite <- nows_sall | now rewrite Hc].
Qed.
Lemma match_id_plus : forall w X, starts_plus w = true -> match_id (w ++ X) = None.
Proof.
  intros [|c w] X H; [discriminate H|]. cbn [starts_plus] in H. unfold match_id. cbn [append]. rewrite H.
  now rewrite orb_true_r.
Qed.

Lemma match_exp_ws : forall c0 Y, is_ws c0 = true -> match_exp (String c0 Y) = None.
Proof. intros c0 Y H. ws_split c0 H; reflexivity. Qed.
Lemma match_number_digits : forall w c0 Y, digits1 w = true -> is_ws c0 = true ->
  match_number (w ++ String c0 Y) = Some (w, String c0 Y).
Proof.
  intros w c0 Y Hw Hc. destruct w as [|c w]; [discriminate Hw|]. cbn [digits1] in Hw.
  unfold match_number. rewrite span_sall; [| now rewrite <- all_digits_sall | apply ws_not_digit, Hc].
  rewrite (match_exp_ws _ _ Hc). ws_split c0 Hc; reflexivity.
Qed.
Lemma match_number_nonnum : forall w X, first_ok w = true -> numlike_start w = false -> match_number (w ++ X) = None.
Proof.
  intros [|c w] X Hf Hn; [discriminate Hf|]. cbn [numlike_start] in Hn. apply orb_false_iff in Hn. destruct Hn as [Hn _].
  apply orb_false_iff in Hn. destruct Hn as [Hd Hdot].
  unfold match_number. cbn [append span]. rewrite Hd.
  destruct c as [[|] [|] [|] [|] [|] [|] [|] [|]]; try reflexivity; discriminate Hdot.
Qed.
Lemma match_signed_word : forall w c0 Y, is_int_word true w = true -> is_ws c0 = true ->
  match_signed (w ++ String c0 Y) = Some (w, String c0 Y).
Proof.
  intros w c0 Y Hw Hc. unfold is_int_word in Hw. apply orb_true_iff in Hw. destruct Hw as [Hw|Hw].
  - destruct w as [|c w]; [discriminate Hw|]. unfold match_signed. cbn [append].
    assert (Hs : is_sign c = false).
    { cbn [digits1 all_digits] in Hw. apply andb_true_iff in Hw. destruct Hw as [Hd _]. clear - Hd.
      destruct c as [[|] [|] [|] [|] [|] [|] [|] [|]]; try reflexivity; discriminate Hd. }
    rewrite Hs. change (String c (w ++ String c0 Y)) with (String c w ++ String c0 Y)%string. now apply match_number_digits.
  - cbn [andb] in Hw. destruct w as [|c w]; [discriminate Hw|]. apply andb_true_iff in Hw. destruct Hw as [Hs Hd].
    unfold match_signed. cbn [append]. rewrite Hs, (match_number_digits _ _ _ Hd Hc). reflexivity.
Qed.
Lemma match_signed_nonnum : forall w X, first_ok w = true -> numlike_start w = false -> match_signed (w ++ X) = None.
Proof.
  intros w X Hf Hn. destruct w as [|c w]; [discriminate Hf|].
  assert (Hs : is_sign c = false) by (cbn [numlike_start] in Hn; apply orb_false_iff in Hn; tauto).
  unfold match_signed. cbn [append]. rewrite Hs.
  change (String c (w ++ X)) with (String c w ++ X)%string. now apply match_number_nonnum.
Qed.

Lemma string_body_simple : forall b X, simple_body b = true -> string_body true (b ++ X) = Some (b, X).
Proof.
  induction b as [|c b IH]; intros X H; [discriminate H|].
  destruct b as [|c2 b'].
  - cbn [simple_body] in H. cbn [append string_body]. rewrite H. reflexivity.
  - change (simple_body (String c (String c2 b'))) with (negb (Ascii.eqb c """") && negb (Ascii.eqb c "\") && simple_body (String c2 b')) in H.
    apply andb_true_iff in H. destruct H as [H H3]. apply andb_true_iff in H. destruct H as [H1 H2].
    apply negb_true_iff in H1, H2.
    change ((String c (String c2 b') ++ X)%string) with (String c (String c2 b' ++ X)%string).
    cbn [string_body]. rewrite H1, H2. cbn [andb]. rewrite (IH X H3). reflexivity.
Qed.
Lemma match_string_simple : forall w X, simple_string w = true -> match_string (w ++ X) = Some (w, X).
Proof.
  intros [|c w] X H; [discriminate H|]. unfold simple_string in H.
  destruct c as [[|] [|] [|] [|] [|] [|] [|] [|]]; try discriminate H.
  unfold match_string. cbn [append]. rewrite (string_body_simple _ _ H). reflexivity.
Qed.

Lemma is_nwes_cases : forall a, is_nwes a = true -> a = "N"%char \/ a = "W"%char \/ a = "E"%char \/ a = "S"%char.
Proof. intros a. destruct a as [[|] [|] [|] [|] [|] [|] [|] [|]]; vm_compute; intro H; try discriminate H; tauto. Qed.
Lemma ws_not_nwes : forall c, is_ws c = true -> is_nwes c = false.
Proof. intros c H. ws_split c H; reflexivity. Qed.
Lemma orient_word_cases : forall w, orient_word w = true ->
  (exists a, w = String a EmptyString /\ is_nwes a = true) \/ (exists b, w = String "F" (String b EmptyString) /\ is_nwes b = true).
Proof.
  intros w H. unfold orient_word, orient_words in H. cbn [mem_str existsb] in H.
  repeat (apply orb_true_iff in H; destruct H as [H|H]); try discriminate H; apply String.eqb_eq in H; subst w;
    first [left; eexists; split; [reflexivity | reflexivity] | right; eexists; split; [reflexivity | reflexivity]].
Qed.
Lemma match_orient_word : forall w c0 Y, orient_word w = true -> is_ws c0 = true -> match_orient (w ++ String c0 Y) = Some (w, Y).
Proof.
  intros w c0 Y H Hc. destruct (orient_word_cases w H) as [[a [-> Ha]]|[b [-> Hb]]]; cbn [append match_orient].
  - now rewrite Ha, Hc.
  - change (is_nwes "F") with false. cbn [andb]. change (Ascii.eqb "F" "F") with true. rewrite Hb, Hc. reflexivity.
Qed.
Lemma match_orient_other : forall w c0 Y, nows w = true -> first_ok w = true -> orient_word w = false -> is_ws c0 = true ->
  match_orient (w ++ String c0 Y) = None.
Proof.
  intros w c0 Y Hn Hf Ho Hc. destruct w as [|a w]; [discriminate Hf|].
  cbn [nows] in Hn. apply andb_true_iff in Hn. destruct Hn as [Ha Hn].
  destruct w as [|b w].
  - (* one character *) cbn [append match_orient]. rewrite Hc, (ws_not_nwes _ Hc). rewrite andb_true_r, andb_false_r.
    destruct (is_nwes a) eqn:E; [|reflexivity].
    exfalso. destruct (is_nwes_cases a E) as [->|[->|[->| ->]]]; discriminate Ho.
  - cbn [nows] in Hn. apply andb_true_iff in Hn. destruct Hn as [Hb Hn]. apply negb_true_iff in Hb.
    cbn [append match_orient]. rewrite Hb, andb_false_r.
    destruct (Ascii.eqb a "F" && is_nwes b) eqn:E; [|reflexivity].
    apply andb_true_iff in E. destruct E as [E1 E2]. apply Ascii.eqb_eq in E1. subst a.
    destruct w as [|c w].
    + exfalso. destruct (is_nwes_cases b E2) as [->|[->|[->| ->]]]; discriminate Ho.
    + cbn [nows] in Hn. apply andb_true_iff in Hn. destruct Hn as [Hcw _]. apply negb_true_iff in Hcw.
      cbn [append]. now rewrite Hcw.
Qed.
Lemma match_orient_quote : forall w X, simple_string w = true -> match_orient (w ++ X) = None.
Proof.
  intros [|c w] X H; [discriminate H|]. unfold simple_string in H.
  destruct c as [[|] [|] [|] [|] [|] [|] [|] [|]]; try discriminate H.
  destruct w as [|b w]; [discriminate H|]. cbn [append match_orient]. reflexivity.
Qed.
Lemma match_comment_other : forall w X, first_ok w = true -> match_comment (w ++ X) = None.
Proof.
  intros [|c w] X H; [discriminate H|]. cbn [first_ok] in H. apply andb_true_iff in H. destruct H as [_ H]. apply negb_true_iff in H.
  unfold match_comment. cbn [append]. destruct c as [[|] [|] [|] [|] [|] [|] [|] [|]]; try reflexivity; discriminate H.
Qed.

(** * keywords: the longest keyword that is a prefix; a whole word that is a keyword wins *)
Lemma strip_prefix_app : forall k X, strip_prefix k (k ++ X) = Some X.
Proof. induction k as [|a k IH]; intro X; [reflexivity|]. cbn [append strip_prefix]. now rewrite Ascii.eqb_refl. Qed.
Lemma strip_prefix_word : forall k w c0 Y r, nows k = true -> is_ws c0 = true -> strip_prefix k (w ++ String c0 Y) = Some r ->
  String.length k <= String.length w.
Proof.
  induction k as [|a k IH]; intros w c0 Y r Hk Hc H; [cbn; lia|].
  cbn [nows] in Hk. apply andb_true_iff in Hk. destruct Hk as [Ha Hk]. apply negb_true_iff in Ha.
  destruct w as [|b w].
  - cbn [append strip_prefix] in H. destruct (Ascii.eqb a c0) eqn:E; [|discriminate H]. apply Ascii.eqb_eq in E. subst c0. congruence.
  - cbn [append strip_prefix] in H. destruct (Ascii.eqb a b); [|discriminate H].
    cbn [String.length]. apply le_n_S. eapply IH; eassumption.
Qed.
Lemma strip_prefix_same_len : forall k w X r, String.length k = String.length w -> strip_prefix k (w ++ X) = Some r -> k = w.
Proof.
  induction k as [|a k IH]; intros [|b w] X r Hl H; try discriminate Hl; [reflexivity|].
  cbn [append strip_prefix] in H. destruct (Ascii.eqb a b) eqn:E; [|discriminate H]. apply Ascii.eqb_eq in E. subst b.
  f_equal. eapply IH; [cbn in Hl; lia | eassumption].
Qed.
Lemma best_kw_word : forall ks w c0 Y best, forallb nows ks = true -> is_ws c0 = true ->
  (best = Some (w, String c0 Y) \/ (In w ks /\ match best with None => True | Some (k0, _) => String.length k0 < String.length w end)) ->
  best_kw ks (w ++ String c0 Y) best = Some (w, String c0 Y).
Proof.
  induction ks as [|k ks IH]; intros w c0 Y best Hks Hc Hb.
  - destruct Hb as [Hb|[[] _]]. exact Hb.
  - cbn [forallb] in Hks. apply andb_true_iff in Hks. destruct Hks as [Hk Hks]. cbn [best_kw].
    destruct (strip_prefix k (w ++ String c0 Y)) as [rest|] eqn:E.
    + pose proof (strip_prefix_word _ _ _ _ _ Hk Hc E) as Hlen.
      apply IH; try assumption.
      destruct Hb as [Hb|[Hin Hb]].
      * left. subst best. destruct (Nat.ltb (String.length w) (String.length k)) eqn:L; [apply Nat.ltb_lt in L; lia | reflexivity].
      * destruct (Nat.eq_dec (String.length k) (String.length w)) as [El|Nl].
        -- pose proof (strip_prefix_same_len _ _ _ _ El E) as Ek. subst k. rewrite strip_prefix_app in E. inversion E; subst rest.
           left. destruct best as [[k0 r0]|]; [|reflexivity].
           destruct (Nat.ltb (String.length k0) (String.length w)) eqn:L; [reflexivity | apply Nat.ltb_ge in L; lia].
        -- right. split; [destruct Hin as [Hin|Hin]; [subst k; lia | exact Hin]|].
           destruct best as [[k0 r0]|]; [|lia].
           destruct (Nat.ltb (String.length k0) (String.length k)); lia.
    + apply IH; try assumption. destruct Hb as [Hb|[Hin Hb]]; [left; exact Hb|]. right. split; [|exact Hb].
      destruct Hin as [Hin|Hin]; [|exact Hin]. subst k. rewrite strip_prefix_app in E. discriminate E.
Qed.
Lemma mem_str_In : forall w l, mem_str w l = true -> In w l.
Proof.
  intros w l H. unfold mem_str in H. apply existsb_exists in H. destruct H as [x [Hx E]]. apply String.eqb_eq in E. now subst x.
Qed.

(* ------------------------------------------------------------------------------------------------ *)
(** * the scanner on a whole word *)
Definition tok_rest (t : tok) (c0 : ascii) (Y : string) : string := match t with KOrient _ => Y | _ => String c0 Y end.

Theorem scan_word : forall acc w t c0 Y, word_tok acc w = Some t -> is_ws c0 = true ->
  scan acc (w ++ String c0 Y) = Some (t, tok_rest t c0 Y).
Proof.
  intros acc w t c0 Y H Hc. unfold word_tok in H.
  destruct (wordlike acc w) eqn:Hwl; [|discriminate H]. cbn [negb] in H.
  unfold wordlike in Hwl. apply andb_true_iff in Hwl. destruct Hwl as [Hf Hshape].
  unfold scan.
  (* ORIENTATION *)
  destruct (has TmOrient acc && orient_word w) eqn:E1.
  { apply andb_true_iff in E1. destruct E1 as [Ea Eo]. inversion H; subst t. rewrite Ea, (match_orient_word _ _ _ Eo Hc). reflexivity. }
  assert (Ho : (if has TmOrient acc then match_orient (w ++ String c0 Y) else None) = None).
  { destruct (has TmOrient acc) eqn:Ea; [|reflexivity]. cbn [andb] in E1.
    apply orb_true_iff in Hshape. destruct Hshape as [Hn|Hs].
    - now apply match_orient_other.
    - apply andb_true_iff in Hs. destruct Hs as [_ Hs]. now apply match_orient_quote. }
  rewrite Ho. clear Ho.
  (* SIGNED_NUMBER *)
  destruct (has TmSigned acc && is_int_word true w) eqn:E2.
  { apply andb_true_iff in E2. destruct E2 as [Ea Ei]. inversion H; subst t. rewrite Ea, (match_signed_word _ _ _ Ei Hc). reflexivity. }
  (* NUMBER *)
  destruct (has TmNumber acc && is_int_word false w) eqn:E3.
  { apply andb_true_iff in E3. destruct E3 as [Ea Ei]. inversion H; subst t.
    unfold is_int_word in Ei. cbn [andb] in Ei. rewrite orb_false_r in Ei.
    assert (Hs : (if has TmSigned acc then match_signed (w ++ String c0 Y) else None) = None).
    { destruct (has TmSigned acc) eqn:Es; [|reflexivity]. cbn [andb] in E2. unfold is_int_word in E2. rewrite Ei in E2. discriminate E2. }
    rewrite Hs, Ea, (match_number_digits _ _ _ Ei Hc). reflexivity. }
  destruct ((has TmSigned acc || has TmNumber acc) && numlike_start w) eqn:E4; [discriminate H|].
  assert (Hsg : (if has TmSigned acc then match_signed (w ++ String c0 Y) else None) = None).
  { destruct (has TmSigned acc) eqn:Es; [|reflexivity]. cbn [orb andb] in E4. now apply match_signed_nonnum. }
  assert (Hnm : (if has TmNumber acc then match_number (w ++ String c0 Y) else None) = None).
  { destruct (has TmNumber acc) eqn:Es; [|reflexivity]. rewrite orb_true_r in E4. cbn [andb] in E4. now apply match_number_nonnum. }
  rewrite Hsg, Hnm. clear Hsg Hnm.
  (* STRING *)
  destruct (has TmString acc) eqn:E5.
  { destruct (simple_string w) eqn:Es; [|discriminate H]. inversion H; subst t. rewrite (match_string_simple _ _ Es). reflexivity. }
  rewrite orb_false_r in Hshape.
  (* ID *)
  destruct (has TmId acc && negb (starts_plus w)) eqn:E6.
  { apply andb_true_iff in E6. destruct E6 as [Ea Ep]. apply negb_true_iff in Ep. inversion H; subst t.
    rewrite Ea, (match_id_word _ _ _ Hshape Hf Ep Hc). destruct (mem_str w (embedded acc)); reflexivity. }
  assert (Hid : (if has TmId acc then match_id (w ++ String c0 Y) else None) = None).
  { destruct (has TmId acc) eqn:Ea; [|reflexivity]. cbn [andb] in E6. apply negb_false_iff in E6. now apply match_id_plus. }
  rewrite Hid. clear Hid.
  (* comment, keywords *)
  assert (Hcm : (if has TmComment acc then match_comment (w ++ String c0 Y) else None) = None).
  { destruct (has TmComment acc); [|reflexivity]. now apply match_comment_other. }
  rewrite Hcm. clear Hcm.
  destruct (forallb nows (scanned acc) && mem_str w (scanned acc)) eqn:E7; [|discriminate H].
  apply andb_true_iff in E7. destruct E7 as [Ek Em]. inversion H; subst t.
  rewrite (best_kw_word (scanned acc) w c0 Y None Ek Hc); [reflexivity|].
  right. split; [apply mem_str_In, Em | exact I].
Qed.

Lemma word_tok_first_ok : forall acc w t, word_tok acc w = Some t -> first_ok w = true.
Proof.
  intros acc w t H. unfold word_tok in H. destruct (wordlike acc w) eqn:E; [|discriminate H].
  unfold wordlike in E. apply andb_true_iff in E. tauto.
Qed.

(* ------------------------------------------------------------------------------------------------ *)
(** * ignored text is skipped *)
Lemma skip_comment_body : forall b X, no_newline b = true -> skip_go MComment (b ++ nl ++ X) = skip_go MAfterWs X.
Proof.
  induction b as [|c b IH]; intros X H; [reflexivity|].
  cbn [no_newline] in H. apply andb_true_iff in H. destruct H as [Hc Hb]. apply negb_true_iff in Hc.
  cbn [append skip_go]. rewrite Hc. apply IH, Hb.
Qed.
Lemma ws_not_hash : forall c, is_ws c = true -> Ascii.eqb c "#" = false.
Proof. intros c H. ws_split c H; reflexivity. Qed.
Lemma skip_ign_afterws : forall i X, ign_ok i = true -> skip_go MAfterWs (ign_text i ++ X) = skip_go MAfterWs X.
Proof.
  intros [c|c b] X H; cbn [ign_ok] in H.
  - cbn [ign_text ch append skip_go]. now rewrite (ws_not_hash _ H), H.
  - apply andb_true_iff in H. destruct H as [Hc Hb]. cbn [ign_text append skip_go]. rewrite (ws_not_hash _ Hc), Hc.
    change (Ascii.eqb "#" "#") with true. cbv iota. rewrite sapp_assoc. apply skip_comment_body, Hb.
Qed.
Lemma skip_ign_tok : forall i X, ign_ok i = true -> skip_go MTok (ign_text i ++ X) = skip_go MAfterWs X.
Proof.
  intros [c|c b] X H; cbn [ign_ok] in H.
  - cbn [ign_text ch append skip_go]. now rewrite H.
  - apply andb_true_iff in H. destruct H as [Hc Hb]. cbn [ign_text append skip_go]. rewrite Hc.
    change (Ascii.eqb "#" "#") with true. cbv iota. rewrite sapp_assoc. apply skip_comment_body, Hb.
Qed.
Lemma skip_igns_afterws : forall g X, forallb ign_ok g = true -> skip_go MAfterWs (igns_text g ++ X) = skip_go MAfterWs X.
Proof.
  induction g as [|i g IH]; intros X H; [reflexivity|].
  cbn [forallb] in H. apply andb_true_iff in H. destruct H as [Hi Hg].
  cbn [igns_text]. rewrite sapp_assoc, (skip_ign_afterws _ _ Hi). apply IH, Hg.
Qed.
Lemma skip_word_start : forall m w X, first_ok w = true -> skip_go m (w ++ X) = (w ++ X)%string \/ m = MComment.
Proof.
  intros m [|c w] X H; [discriminate H|]. cbn [first_ok] in H. apply andb_true_iff in H. destruct H as [H1 H2].
  apply negb_true_iff in H1, H2. destruct m; [left | left | right; reflexivity]; cbn [append skip_go]; now rewrite ?H2, H1.
Qed.
(* any ignored text, then a word: the word is where the scanner starts *)
Lemma skip_to_word : forall g w X, forallb ign_ok g = true -> first_ok w = true ->
  skip_go MTok (igns_text g ++ w ++ X) = (w ++ X)%string.
Proof.
  intros [|i g] w X Hg Hf.
  - cbn [igns_text append]. destruct (skip_word_start MTok w X Hf) as [E|E]; [exact E | discriminate E].
  - cbn [forallb] in Hg. apply andb_true_iff in Hg. destruct Hg as [Hi Hg].
    cbn [igns_text]. rewrite sapp_assoc, (skip_ign_tok _ _ Hi), (skip_igns_afterws _ _ Hg).
    destruct (skip_word_start MAfterWs w X Hf) as [E|E]; [exact E | discriminate E].
Qed.

(* the lexer on: ignored text, a whole word, a blank *)
Theorem next_token_word : forall acc g w t c0 Y, forallb ign_ok g = true -> word_tok acc w = Some t -> is_ws c0 = true ->
  next_token acc (igns_text g ++ w ++ String c0 Y) = Some (t, tok_rest t c0 Y).
Proof.
  intros acc g w t c0 Y Hg Hw Hc. unfold next_token.
  pose proof (word_tok_first_ok _ _ _ Hw) as Hf. rewrite (skip_to_word g w _ Hg Hf).
  destruct w as [|c w]; [discriminate Hf|]. cbn [append].
  change (String c (w ++ String c0 Y)) with (String c w ++ String c0 Y)%string. now apply scan_word.
Qed.
(* (b) ignored text in front of a token is invisible to every scanner *)
Theorem next_token_ignores : forall acc g w X, forallb ign_ok g = true -> first_ok w = true ->
  next_token acc (igns_text g ++ w ++ X) = next_token acc (w ++ X).
Proof.
  intros acc g w X Hg Hf. unfold next_token. rewrite (skip_to_word g w X Hg Hf).
  change (w ++ X)%string with (igns_text [] ++ w ++ X)%string at 2. now rewrite (skip_to_word [] w X eq_refl Hf).
Qed.

(* ------------------------------------------------------------------------------------------------ *)
(** * programs of token requests: on a text as on its word list *)
Local Open Scope string_scope.
Local Open Scope list_scope.
Lemma run_bind : forall {A B} (p : P A) (f : A -> P B) s,
  run (pbind p f) s = match run p s with Some (a, s') => run (f a) s' | None => None end.
Proof.
  intros A B p f. induction p as [a| |acc k IH]; intro s; cbn [pbind run]; try reflexivity.
  destruct (next_token acc s) as [[t s']|]; [apply IH | reflexivity].
Qed.
Lemma runs_bind : forall {A B} (p : P A) (f : A -> P B) ws,
  runs (pbind p f) ws = match runs p ws with Some (a, r) => runs (f a) r | None => None end.
Proof.
  intros A B p f. induction p as [a| |acc k IH]; intro ws; cbn [pbind runs]; try reflexivity.
  destruct (wnext acc ws) as [[t r]|]; [apply IH | reflexivity].
Qed.

Lemma tail_rel : forall T ws, Tail T ws -> Rel T ws.
Proof.
  intros T ws H. destruct H as [c Y Hc Hs | c g w T ws Hc Hg Ht].
  - cbn [Rel skip_go]. now rewrite Hc.
  - cbn [Rel]. exists (IgWs c :: g), T. split; [cbn [forallb ign_ok]; now rewrite Hc, Hg|]. split; [|exact Ht].
    cbn [igns_text ign_text ch append]. reflexivity.
Qed.
Lemma sim_step : forall acc s ws t r, Rel s ws -> wnext acc ws = Some (t, r) ->
  exists s', next_token acc s = Some (t, s') /\ Rel s' r.
Proof.
  intros acc s [|w ws] t r HR Hn.
  - cbn [wnext] in Hn. inversion Hn; subst. cbn [Rel] in HR. exists EmptyString. unfold next_token. rewrite HR. split; reflexivity.
  - cbn [Rel] in HR. destruct HR as [g [T [Hg [Es HT]]]]. subst s. cbn [wnext] in Hn.
    destruct (word_tok acc w) as [t0|] eqn:Ew; [|discriminate Hn].
    assert (HTc : exists c Y, T = String c Y /\ is_ws c = true) by (destruct HT; eauto).
    destruct HTc as [c [Y [ET Hc]]]. subst T.
    rewrite (next_token_word acc g w t0 c Y Hg Ew Hc).
    destruct t0 as [|k|v|v|v|v|v]; try (inversion Hn; subst; eexists; split; [reflexivity | apply tail_rel, HT]).
    destruct ws as [|w' ws']; [discriminate Hn|]. inversion Hn; subst. eexists. split; [reflexivity|]. cbn [tok_rest].
    inversion HT as [|c' g' w2 T' ws2 Hc' Hg' HT']; subst. cbn [Rel]. exists g', T'. repeat split; assumption.
Qed.
(* every program reads a text as it reads the word list the text writes *)
Theorem run_sim : forall {A} (p : P A) s ws a r, Rel s ws -> runs p ws = Some (a, r) ->
  exists s', run p s = Some (a, s') /\ Rel s' r.
Proof.
  intros A p. induction p as [a0| |acc k IH]; intros s ws a r HR H; cbn [runs run] in *.
  - inversion H; subst. eauto.
  - discriminate H.
  - destruct (wnext acc ws) as [[t r0]|] eqn:En; [|discriminate H].
    destruct (sim_step _ _ _ _ _ HR En) as [s' [Hs' HR']]. rewrite Hs'. eapply IH; eassumption.
Qed.

(* ------------------------------------------------------------------------------------------------ *)
(** * the parser on word lists: primitives *)
Lemma tok_eqb_eq : forall a b, tok_eqb a b = true -> a = b.
Proof. intros [] [] H; try discriminate H; try reflexivity; cbn in H; apply String.eqb_eq in H; now subst. Qed.
Lemma reads_tok : forall acc w t, reads acc w t = true -> word_tok acc w = Some t.
Proof. intros acc w t H. unfold reads in H. destruct (word_tok acc w) as [t'|]; [|discriminate H]. apply tok_eqb_eq in H. now subst. Qed.

Definition plain (t : tok) : bool := match t with KOrient _ => false | _ => true end.
Lemma runs_next : forall {A} acc (k : tok -> P A) w r t, word_tok acc w = Some t -> plain t = true ->
  runs (Next acc k) (w :: r) = runs (k t) r.
Proof. intros A acc k w r t H Hp. cbn [runs wnext]. rewrite H. destruct t; try reflexivity. discriminate Hp. Qed.
Lemma runs_tk : forall acc w r t, word_tok acc w = Some t -> plain t = true -> runs (tk acc) (w :: r) = Some (t, r).
Proof. intros. unfold tk. erewrite runs_next by eassumption. reflexivity. Qed.
Lemma runs_get_id : forall w r, wf_id w = true -> runs get_id (w :: r) = Some (w, r).
Proof. intros w r H. unfold get_id. erewrite runs_next; [|apply reads_tok, H | reflexivity]. reflexivity. Qed.
Lemma runs_expect : forall acc k r, word_tok acc k = Some (KKw k) -> runs (expect acc k) (k :: r) = Some (tt, r).
Proof. intros acc k r H. unfold expect. erewrite runs_next; [|exact H | reflexivity]. cbn [is_kw]. now rewrite String.eqb_refl. Qed.

Lemma digits1_shape : forall w, digits1 w = true -> first_ok w = true /\ nows w = true /\ orient_word w = false.
Proof.
  intros w H. destruct w as [|c w]; [discriminate H|]. cbn [digits1] in H.
  assert (G : forall v, all_digits v = true -> nows v = true).
  { induction v as [|d v IH]; intro Hv; [reflexivity|]. cbn [all_digits] in Hv. apply andb_true_iff in Hv. destruct Hv as [Hd Hv].
    cbn [nows]. rewrite (IH Hv), andb_true_r. clear - Hd. destruct d as [[|] [|] [|] [|] [|] [|] [|] [|]]; try reflexivity; discriminate Hd. }
  split; [|split; [apply G, H|]].
  - cbn [all_digits] in H. apply andb_true_iff in H. destruct H as [Hd _]. clear - Hd.
    destruct c as [[|] [|] [|] [|] [|] [|] [|] [|]]; try reflexivity; discriminate Hd.
  - cbn [all_digits] in H. apply andb_true_iff in H. destruct H as [Hd _]. clear - Hd.
    unfold orient_word, orient_words. cbn [mem_str existsb].
    destruct c as [[|] [|] [|] [|] [|] [|] [|] [|]]; try discriminate Hd; destruct w; reflexivity.
Qed.
(* an unsigned integer under any accept set with NUMBER (and without STRING) *)
Lemma word_tok_num : forall acc w, has TmNumber acc = true -> digits1 w = true -> word_tok acc w = Some (KNum w).
Proof.
  intros acc w Ha Hw. destruct (digits1_shape w Hw) as [Hf [Hn Ho]]. unfold word_tok, wordlike. rewrite Hf, Hn. cbn [andb orb negb].
  rewrite Ho, andb_false_r. unfold is_int_word. rewrite Hw. cbn [orb]. rewrite Ha. cbn [andb]. destruct (has TmSigned acc); reflexivity.
Qed.
Lemma word_tok_snum : forall w, is_int_word true w = true -> word_tok A_numsig w = Some (KNum w).
Proof.
  intros w Hw. unfold word_tok, wordlike.
  assert (Hs : first_ok w = true /\ nows w = true).
  { unfold is_int_word in Hw. apply orb_true_iff in Hw. destruct Hw as [Hw|Hw]; [destruct (digits1_shape w Hw); tauto|].
    cbn [andb] in Hw. destruct w as [|c w]; [discriminate Hw|]. apply andb_true_iff in Hw. destruct Hw as [Hs Hd].
    destruct (digits1_shape w Hd) as [_ [Hn _]]. cbn [first_ok nows]. rewrite Hn.
    clear - Hs. destruct c as [[|] [|] [|] [|] [|] [|] [|] [|]]; try discriminate Hs; split; reflexivity. }
  destruct Hs as [Hf Hn]. rewrite Hf, Hn. cbn [andb orb negb]. change (has TmOrient A_numsig) with false. cbn [andb].
  change (has TmSigned A_numsig) with true. cbn [andb]. now rewrite Hw.
Qed.
Lemma runs_get_num : forall acc w r, has TmNumber acc = true -> wf_num w = true -> runs (get_num acc) (w :: r) = Some (w, r).
Proof. intros acc w r Ha H. unfold get_num. erewrite runs_next; [|apply word_tok_num; eassumption | reflexivity]. reflexivity. Qed.
Lemma runs_get_snum : forall w r, wf_snum w = true -> runs (get_num A_numsig) (w :: r) = Some (w, r).
Proof. intros w r H. unfold get_num. erewrite runs_next; [|apply word_tok_snum, H | reflexivity]. reflexivity. Qed.
Lemma runs_get_str : forall w r, wf_str w = true -> runs get_str (w :: r) = Some (w, r).
Proof.
  intros w r H. unfold get_str. erewrite runs_next with (t := KStr w); [reflexivity | | reflexivity].
  unfold wf_str in H. unfold word_tok, wordlike. change (has TmString A_string) with true. rewrite H.
  assert (Hf : first_ok w = true) by (destruct w as [|c w]; [discriminate H|]; unfold simple_string in H;
    destruct c as [[|] [|] [|] [|] [|] [|] [|] [|]]; try discriminate H; reflexivity).
  rewrite Hf, orb_true_r. cbn [andb negb]. reflexivity.
Qed.

Ltac kw := vm_compute; reflexivity.

(** ** points and DO .. BY .. STEP *)
Definition w_point_body (p : tpoint) : list string :=
  w_coord (tp_x p) :: w_coord (tp_y p) :: (match tp_z p with Some z => [z] | None => [] end) ++ [")"].
Lemma w_point_eq : forall p, w_point p = "("%string :: w_point_body p.
Proof. reflexivity. Qed.
Lemma runs_coord : forall c r, wf_coord c = true -> runs p_coord (w_coord c :: r) = Some (c, r).
Proof.
  intros [|s] r H; unfold p_coord; cbn [w_coord].
  - erewrite runs_next with (t := KKw "*"); [reflexivity | kw | reflexivity].
  - erewrite runs_next with (t := KNum s); [reflexivity | apply word_tok_num; [reflexivity | exact H] | reflexivity].
Qed.
Lemma runs_point : forall p r, wf_point p = true -> runs p_point (w_point_body p ++ r) = Some (p, r).
Proof.
  intros [x y z] r H. unfold wf_point in H. cbn [tp_x tp_y tp_z] in H. apply andb_true_iff in H. destruct H as [H Hz].
  apply andb_true_iff in H. destruct H as [Hx Hy]. unfold p_point, w_point_body. cbn [tp_x tp_y tp_z app].
  rewrite runs_bind, (runs_coord _ _ Hx), runs_bind, (runs_coord _ _ Hy).
  destruct z as [z|]; cbn [app].
  - erewrite runs_next with (t := KNum z); [|apply word_tok_num; [reflexivity | exact Hz] | reflexivity].
    rewrite runs_bind, runs_expect by kw. reflexivity.
  - erewrite runs_next with (t := KKw ")"); [reflexivity | kw | reflexivity].
Qed.
Lemma runs_do_step : forall d r, wf_do_step d = true -> runs p_do_step (List.tl (w_do_step d) ++ r) = Some (d, r).
Proof.
  intros [n m dx dy] r H. unfold wf_do_step in H. cbn [ds_n ds_m ds_dx ds_dy] in H.
  repeat (apply andb_true_iff in H; destruct H as [H ?]).
  unfold p_do_step, w_do_step, expect_s. cbn [ds_n ds_m ds_dx ds_dy List.tl app].
  rewrite runs_bind, runs_get_num by (reflexivity || assumption).
  rewrite runs_bind, runs_expect by kw.
  rewrite runs_bind, runs_get_num by (reflexivity || assumption).
  rewrite runs_bind, runs_expect by kw.
  rewrite runs_bind, runs_get_snum by assumption.
  rewrite runs_bind, runs_get_snum by assumption. reflexivity.
Qed.

(** ** routing elements: ( point | via )* up to a terminator "+", ";" or "NEW" *)
Definition term_word (w : string) : bool := String.eqb w "+" || String.eqb w ";" || String.eqb w "NEW".
Lemma term_word_cases : forall w, term_word w = true -> w = "+" \/ w = ";" \/ w = "NEW".
Proof.
  intros w H. unfold term_word in H. apply orb_true_iff in H. destruct H as [H|H]; [apply orb_true_iff in H; destruct H as [H|H]|];
    apply String.eqb_eq in H; auto.
Qed.
Definition routing_acc (acc : list term) : Prop := acc = A_pt_end \/ acc = A_via_r \/ acc = A_via_s.
Lemma term_word_tok : forall acc wt, routing_acc acc -> term_word wt = true -> word_tok acc wt = Some (KKw wt).
Proof. intros acc wt [->|[->| ->]] H; destruct (term_word_cases _ H) as [->|[->| ->]]; kw. Qed.
Lemma lpar_tok : forall acc, routing_acc acc -> word_tok acc "(" = Some (KKw "(").
Proof. intros acc [->|[->| ->]]; kw. Qed.
Lemma orient_tok : forall o, orient_word o = true -> word_tok A_via_r o = Some (KOrient o).
Proof.
  intros o H. apply mem_str_In in H. unfold orient_words in H. cbn [In] in H.
  repeat (destruct H as [H|H]; [subst o; kw|]). destruct H.
Qed.

Definition rhead (es : list relem) (wt : string) : tok :=
  match es with [] => KKw wt | RPoint _ :: _ => KKw "(" | RVia nm _ :: _ => KId nm end.
Lemma rhead_plain : forall es wt, plain (rhead es wt) = true.
Proof. intros [|[p|nm o] es] wt; reflexivity. Qed.
Lemma rhead_step : forall acc es wt r, acc = A_pt_end \/ acc = A_via_r -> forallb wf_relem es = true -> term_word wt = true ->
  runs (tk acc) (flat_map w_relem es ++ wt :: r) = Some (rhead es wt, List.tl (flat_map w_relem es ++ wt :: r)).
Proof.
  intros acc es wt r Ha Hes Hwt.
  assert (Hr : routing_acc acc) by (unfold routing_acc; tauto).
  destruct es as [|[p|nm o] es]; cbn [flat_map app rhead List.tl].
  - apply runs_tk; [apply term_word_tok; assumption | reflexivity].
  - cbn [w_relem]. rewrite w_point_eq. cbn [app List.tl]. apply runs_tk; [apply lpar_tok, Hr | reflexivity].
  - cbn [forallb] in Hes. apply andb_true_iff in Hes. destruct Hes as [He _].
    assert (Hv : wf_rvia nm = true) by (destruct o; cbn [wf_relem] in He; [apply andb_true_iff in He; tauto | exact He]).
    unfold wf_rvia in Hv. apply andb_true_iff in Hv. destruct Hv as [H1 H2].
    destruct o as [o|]; cbn [w_relem app List.tl];
      (apply runs_tk; [destruct Ha as [-> | ->]; apply reads_tok; assumption | reflexivity]).
Qed.
Lemma app_cons_not_nil : forall {A} (l : list A) x r, l ++ x :: r <> [].
Proof. intros A [|a l] x r; discriminate. Qed.

Lemma runs_relems : forall es fuel wt r, forallb wf_relem es = true -> List.length (flat_map w_relem es) < fuel -> term_word wt = true ->
  runs (p_relems fuel (rhead es wt)) (List.tl (flat_map w_relem es ++ wt :: r)) = Some ((es, KKw wt), r).
Proof.
  induction es as [|e es IH]; intros fuel wt r Hes Hf Hwt; (destruct fuel as [|f]; [cbn in Hf; lia|]).
  - cbn [flat_map app List.tl rhead p_relems]. destruct (term_word_cases _ Hwt) as [->|[->| ->]]; reflexivity.
  - cbn [forallb] in Hes. apply andb_true_iff in Hes. destruct Hes as [He Hes]. cbn [flat_map] in Hf. rewrite app_length in Hf.
    destruct e as [p|nm o].
    + (* a point *)
      cbn [rhead p_relems is_kw]. change (String.eqb "(" "(") with true. cbv iota.
      cbn [flat_map w_relem] in *. rewrite w_point_eq in *. cbn [app List.tl List.length] in *. rewrite <- !app_assoc.
      rewrite runs_bind, (runs_point _ _ He), runs_bind, (rhead_step A_pt_end es wt r (or_introl eq_refl) Hes Hwt).
      rewrite runs_bind, IH by (assumption || lia). reflexivity.
    + assert (Hv : wf_rvia nm = true) by (destruct o; cbn [wf_relem] in He; [apply andb_true_iff in He; tauto | exact He]).
      cbn [rhead p_relems is_kw]. cbv iota.
      destruct o as [o|]; cbn [flat_map w_relem app List.tl List.length] in *.
      * (* a via with orientation *)
        cbn [wf_relem] in He. apply andb_true_iff in He. destruct He as [_ Ho].
        rewrite runs_bind. unfold tk at 1. cbn [runs wnext]. rewrite (orient_tok _ Ho).
        destruct (flat_map w_relem es ++ wt :: r) as [|w2 rest] eqn:E2; [exfalso; exact (app_cons_not_nil _ _ _ E2)|]. rewrite <- E2.
        cbn [runs]. rewrite runs_bind, (rhead_step A_pt_end es wt r (or_introl eq_refl) Hes Hwt).
        rewrite runs_bind, IH by (assumption || lia). reflexivity.
      * (* a via without orientation: the next token is lexed with the scanner that also knows ORIENTATION *)
        rewrite runs_bind, (rhead_step A_via_r es wt r (or_intror eq_refl) Hes Hwt).
        specialize (IH f wt r Hes ltac:(lia) Hwt). pose proof (rhead_plain es wt) as Hp.
        destruct (rhead es wt) eqn:Eh; try discriminate Hp; rewrite runs_bind, IH; reflexivity.
Qed.

Definition sphead (es : list spelem) (wt : string) : tok :=
  match es with [] => KKw wt | SPPoint _ :: _ => KKw "(" | SPVia nm _ :: _ => KId nm end.
Lemma sphead_step : forall acc es wt r, acc = A_pt_end \/ acc = A_via_s -> forallb wf_spelem es = true -> term_word wt = true ->
  runs (tk acc) (flat_map w_spelem es ++ wt :: r) = Some (sphead es wt, List.tl (flat_map w_spelem es ++ wt :: r)).
Proof.
  intros acc es wt r Ha Hes Hwt.
  assert (Hr : routing_acc acc) by (unfold routing_acc; tauto).
  destruct es as [|[p|nm o] es]; cbn [flat_map app sphead List.tl].
  - apply runs_tk; [apply term_word_tok; assumption | reflexivity].
  - cbn [w_spelem]. rewrite w_point_eq. cbn [app List.tl]. apply runs_tk; [apply lpar_tok, Hr | reflexivity].
  - cbn [forallb] in Hes. apply andb_true_iff in Hes. destruct Hes as [He _].
    assert (Hv : wf_spvia nm = true) by (destruct o; cbn [wf_spelem] in He; [apply andb_true_iff in He; tauto | exact He]).
    unfold wf_spvia in Hv. apply andb_true_iff in Hv. destruct Hv as [H1 H2].
    destruct o as [d|]; cbn [w_spelem w_do_step app List.tl];
      (apply runs_tk; [destruct Ha as [-> | ->]; apply reads_tok; assumption | reflexivity]).
Qed.
Lemma sphead_not_do : forall es wt, term_word wt = true -> is_kw (sphead es wt) "DO" = false.
Proof. intros [|[p|nm o] es] wt H; try reflexivity. cbn [sphead is_kw]. destruct (term_word_cases _ H) as [->|[->| ->]]; reflexivity. Qed.
Lemma runs_spelems : forall es fuel wt r, forallb wf_spelem es = true -> List.length (flat_map w_spelem es) < fuel -> term_word wt = true ->
  runs (p_spelems fuel (sphead es wt)) (List.tl (flat_map w_spelem es ++ wt :: r)) = Some ((es, KKw wt), r).
Proof.
  induction es as [|e es IH]; intros fuel wt r Hes Hf Hwt; (destruct fuel as [|f]; [cbn in Hf; lia|]).
  - cbn [flat_map app List.tl sphead p_spelems]. destruct (term_word_cases _ Hwt) as [->|[->| ->]]; reflexivity.
  - cbn [forallb] in Hes. apply andb_true_iff in Hes. destruct Hes as [He Hes]. cbn [flat_map] in Hf. rewrite app_length in Hf.
    destruct e as [p|nm o].
    + cbn [sphead p_spelems is_kw]. change (String.eqb "(" "(") with true. cbv iota.
      cbn [flat_map w_spelem] in *. rewrite w_point_eq in *. cbn [app List.tl List.length] in *. rewrite <- !app_assoc.
      rewrite runs_bind, (runs_point _ _ He), runs_bind, (sphead_step A_pt_end es wt r (or_introl eq_refl) Hes Hwt).
      rewrite runs_bind, IH by (assumption || lia). reflexivity.
    + cbn [sphead p_spelems is_kw]. cbv iota.
      destruct o as [d|]; cbn [flat_map w_spelem app List.tl List.length] in *.
      * (* a via with DO .. BY .. STEP *)
        cbn [wf_spelem] in He. apply andb_true_iff in He. destruct He as [_ Hd].
        change (w_do_step d) with ("DO" :: List.tl (w_do_step d)) in *. cbn [app List.length] in *.
        rewrite runs_bind, (runs_tk A_via_s "DO" _ (KKw "DO")) by kw.
        cbn [is_kw]. change (String.eqb "DO" "DO") with true. cbv iota. rewrite <- app_assoc.
        rewrite runs_bind, (runs_do_step _ _ Hd), runs_bind, (sphead_step A_pt_end es wt r (or_introl eq_refl) Hes Hwt).
        rewrite ?app_length in Hf. rewrite runs_bind, IH by (assumption || lia). reflexivity.
      * rewrite runs_bind, (sphead_step A_via_s es wt r (or_intror eq_refl) Hes Hwt).
        rewrite (sphead_not_do es wt Hwt). rewrite runs_bind, IH by (assumption || lia). reflexivity.
Qed.

(** ** wires *)
Lemma runs_wire_opt : forall ids r, forallb wf_id ids = true -> List.length ids <= 2 ->
  runs p_wire_opt (w_wire_opt ids ++ "(" :: r) = Some ((ids, KKw "("), r).
Proof.
  intros ids r Hw Hl. unfold p_wire_opt.
  destruct ids as [|a [|b [|c ids]]]; try (cbn in Hl; lia); cbn [w_wire_opt app forallb] in *.
  - rewrite runs_bind, (runs_tk A_wireopt "(" r (KKw "(")) by kw. reflexivity.
  - apply andb_true_iff in Hw. destruct Hw as [Ha _].
    rewrite runs_bind, (runs_tk A_wireopt "TAPERRULE" _ (KKw "TAPERRULE")) by kw.
    cbn [is_kw]. change (String.eqb "TAPER" "TAPERRULE") with false. change (String.eqb "TAPERRULE" "TAPERRULE") with true. cbv iota.
    rewrite !runs_bind, (runs_get_id _ _ Ha), runs_bind, (runs_tk A_lpar_style "(" r (KKw "(")) by kw. reflexivity.
  - apply andb_true_iff in Hw. destruct Hw as [Ha Hb]. apply andb_true_iff in Hb. destruct Hb as [Hb _].
    rewrite runs_bind, (runs_tk A_wireopt "TAPERRULE" _ (KKw "TAPERRULE")) by kw.
    cbn [is_kw]. change (String.eqb "TAPER" "TAPERRULE") with false. change (String.eqb "TAPERRULE" "TAPERRULE") with true. cbv iota.
    rewrite !runs_bind, (runs_get_id _ _ Ha), runs_bind, (runs_tk A_lpar_style "STYLE" _ (KKw "STYLE")) by kw.
    cbn [runs is_kw]. change (String.eqb "STYLE" "STYLE") with true. cbv iota.
    rewrite runs_bind, (runs_get_id _ _ Hb), runs_bind, (runs_tk A_lpar "(" r (KKw "(")) by kw. reflexivity.
Qed.

Theorem runs_rwire : forall w fuel wt r, wf_rwire w = true -> List.length (w_rwire w) < fuel -> term_word wt = true ->
  runs (p_rwire fuel) (w_rwire w ++ wt :: r) = Some ((w, KKw wt), r).
Proof.
  intros [layer ids p es] fuel wt r Hw Hf Hwt. unfold wf_rwire in Hw. cbn [rw_layer rw_opt rw_first rw_rest] in Hw.
  repeat (apply andb_true_iff in Hw; destruct Hw as [Hw ?]). apply Nat.leb_le in H2.
  unfold w_rwire in *. cbn [rw_layer rw_opt rw_first rw_rest] in *. rewrite w_point_eq in *.
  cbn [List.length] in Hf. rewrite ?app_length in Hf. cbn [List.length] in Hf. rewrite ?app_length in Hf.
  unfold p_rwire. cbn [app]. rewrite <- !app_assoc. cbn [app].
  rewrite runs_bind, (runs_get_id _ _ Hw), runs_bind, (runs_wire_opt ids _ H3 H2).
  cbn [is_kw]. change (String.eqb "(" "(") with true. cbv iota.
  rewrite <- ?app_assoc. rewrite runs_bind, (runs_point _ _ H1), runs_bind, (rhead_step A_pt_end es wt r (or_introl eq_refl) H0 Hwt).
  rewrite runs_bind, runs_relems by (assumption || lia).
  destruct es; [discriminate H | reflexivity].
Qed.

Definition ohead (os : list spw_opt) : tok := match os with [] => KKw "(" | _ => KKw "+" end.
Lemma runs_spwire_opts : forall os fuel r, forallb wf_spw_opt os = true -> List.length (flat_map w_spw_opt os) < fuel ->
  runs (p_spwire_opts fuel (ohead os)) (List.tl (flat_map w_spw_opt os ++ "(" :: r)) = Some ((os, KKw "("), r).
Proof.
  induction os as [|o os IH]; intros fuel r Hw Hf; (destruct fuel as [|f]; [cbn in Hf; lia|]).
  - reflexivity.
  - cbn [forallb] in Hw. apply andb_true_iff in Hw. destruct Hw as [Ho Hw]. cbn [flat_map] in Hf. rewrite app_length in Hf.
    cbn [ohead p_spwire_opts is_kw]. change (String.eqb "+" "+") with true. cbv iota.
    assert (Hnext : runs (tk A_lpar_plus) (flat_map w_spw_opt os ++ "(" :: r) =
                    Some (ohead os, List.tl (flat_map w_spw_opt os ++ "(" :: r))).
    { destruct os as [|[v|v] os]; cbn [flat_map w_spw_opt app List.tl ohead]; apply runs_tk; try kw; reflexivity. }
    destruct o as [v|v]; cbn [flat_map w_spw_opt app List.tl List.length wf_spw_opt] in *.
    + rewrite runs_bind, (runs_tk A_spwireopt "SHAPE" _ (KKw "SHAPE")) by kw.
      rewrite runs_bind, (runs_get_id _ _ Ho), runs_bind, Hnext, runs_bind, IH by (assumption || lia). reflexivity.
    + rewrite runs_bind, (runs_tk A_spwireopt "STYLE" _ (KKw "STYLE")) by kw.
      rewrite runs_bind, (runs_get_id _ _ Ho), runs_bind, Hnext, runs_bind, IH by (assumption || lia). reflexivity.
Qed.
Theorem runs_spwire : forall w fuel wt r, wf_spwire w = true -> List.length (w_spwire w) < fuel -> term_word wt = true ->
  runs (p_spwire fuel) (w_spwire w ++ wt :: r) = Some ((w, KKw wt), r).
Proof.
  intros [layer width os p es] fuel wt r Hw Hf Hwt. unfold wf_spwire in Hw. cbn [sw_layer sw_width sw_opts sw_first sw_rest] in Hw.
  repeat (apply andb_true_iff in Hw; destruct Hw as [Hw ?]).
  unfold w_spwire in *. cbn [sw_layer sw_width sw_opts sw_first sw_rest] in *. rewrite w_point_eq in *.
  cbn [List.length] in Hf. rewrite ?app_length in Hf. cbn [List.length] in Hf. rewrite ?app_length in Hf.
  unfold p_spwire. cbn [app]. rewrite <- !app_assoc. cbn [app].
  rewrite runs_bind, (runs_get_id _ _ Hw), runs_bind, (runs_get_num A_number _ _ eq_refl H3).
  assert (Hnext : forall X, runs (tk A_lpar_plus) (flat_map w_spw_opt os ++ "(" :: X) =
                  Some (ohead os, List.tl (flat_map w_spw_opt os ++ "(" :: X))).
  { intro X. destruct os as [|[v|v] os]; cbn [flat_map w_spw_opt app List.tl ohead]; apply runs_tk; try kw; reflexivity. }
  rewrite runs_bind, Hnext, runs_bind, runs_spwire_opts by (assumption || lia).
  cbn [is_kw]. change (String.eqb "(" "(") with true. cbv iota.
  rewrite <- ?app_assoc. rewrite runs_bind, (runs_point _ _ H1), runs_bind, (sphead_step A_pt_end es wt r (or_introl eq_refl) H0 Hwt).
  rewrite runs_bind, runs_spelems by (assumption || lia).
  destruct es; [discriminate H | reflexivity].
Qed.

(** ** net statements: ( net_pin | net_opt | wiring )* ";" *)
Section Items.
  Context {W : Type} (ww : W -> list string) (pw : P (W * tok)) (good : W -> Prop) (optacc : list term) (allowed : wkw -> bool).
  Hypothesis Hpw : forall w wt r, good w -> term_word wt = true -> runs pw (ww w ++ wt :: r) = Some ((w, KKw wt), r).
  Hypothesis Hopt : forall k, word_tok optacc (okw_text k) = Some (KKw (okw_text k)).
  Hypothesis Hwir : forall k, allowed k = true -> word_tok optacc (wkw_text k) = Some (KKw (wkw_text k)).

  Definition nterm (ws : list W) (wt : string) : string := match ws with [] => wt | _ => "NEW" end.
  Lemma nterm_term : forall ws wt, term_word wt = true -> term_word (nterm ws wt) = true.
  Proof. intros [|w ws] wt H; [exact H | reflexivity]. Qed.
  Lemma runs_more_wires : forall ws fuel wt r, Forall good ws -> List.length ws < fuel -> wt = "+" \/ wt = ";" ->
    runs (p_more_wires pw fuel (KKw (nterm ws wt))) (List.tl (flat_map (fun x => "NEW" :: ww x) ws ++ wt :: r)) = Some ((ws, KKw wt), r).
  Proof.
    induction ws as [|w ws IH]; intros fuel wt r Hg Hf Hwt; (destruct fuel as [|f]; [cbn in Hf; lia|]).
    - cbn [nterm p_more_wires flat_map app List.tl is_kw]. destruct Hwt as [-> | ->]; reflexivity.
    - inversion Hg as [|w' ws' Hw Hws]; subst. cbn [nterm p_more_wires is_kw]. change (String.eqb "NEW" "NEW") with true. cbv iota.
      cbn [flat_map app List.tl]. rewrite <- app_assoc.
      assert (E : flat_map (fun x => "NEW" :: ww x) ws ++ wt :: r =
                  nterm ws wt :: List.tl (flat_map (fun x => "NEW" :: ww x) ws ++ wt :: r)) by (destruct ws; reflexivity).
      rewrite E, runs_bind, Hpw; [|exact Hw | apply nterm_term; destruct Hwt as [-> | ->]; reflexivity].
      rewrite runs_bind, IH by (assumption || (cbn in Hf; lia)). reflexivity.
  Qed.

  Definition ihead (its : list (net_item W)) : string := match its with [] => ";" | NIPin _ _ :: _ => "(" | _ => "+" end.
  Definition good_item (it : net_item W) : Prop :=
    match it with
    | NIPin a b => wf_id a = true /\ wf_id b = true
    | NIOpt k v => wf_id v = true
    | NIWires k w ws => Forall good (w :: ws) /\ allowed k = true
    end.
  Lemma ihead_step : forall its r, runs (tk A_lps) (flat_map (w_item ww) its ++ ";" :: r) =
    Some (KKw (ihead its), List.tl (flat_map (w_item ww) its ++ ";" :: r)).
  Proof. intros [|[a b|k v|k w ws] its] r; cbn [flat_map w_item app ihead List.tl]; apply runs_tk; try kw; reflexivity. Qed.
  Lemma okw_of_text : forall k, okw_of (okw_text k) = Some k. Proof. intros []; reflexivity. Qed.
  Lemma okw_of_wkw : forall k, okw_of (wkw_text k) = None. Proof. intros []; reflexivity. Qed.
  Lemma wkw_of_text : forall k, wkw_of (wkw_text k) = Some k. Proof. intros []; reflexivity. Qed.

  Lemma runs_items : forall its fuel b r, Forall good_item its -> pins_first b its = true ->
    List.length (flat_map (w_item ww) its) < fuel ->
    runs (p_items optacc pw fuel (KKw (ihead its))) (List.tl (flat_map (w_item ww) its ++ ";" :: r)) = Some (its, r).
  Proof.
    induction its as [|it its IH]; intros fuel b r Hg Hp Hf; (destruct fuel as [|f]; [cbn in Hf; lia|]).
    - reflexivity.
    - inversion Hg as [|it' its' Hit Hits]; subst. cbn [flat_map] in Hf. rewrite app_length in Hf.
      destruct it as [a c|k v|k w ws]; cbn [ihead p_items is_kw flat_map w_item app List.tl List.length pins_first good_item] in *.
      + destruct Hit as [Ha Hc]. apply andb_true_iff in Hp. destruct Hp as [_ Hp].
        change (String.eqb ";" "(") with false. change (String.eqb "(" "(") with true. cbv iota.
        rewrite runs_bind, (runs_get_id _ _ Ha), runs_bind, (runs_get_id _ _ Hc), runs_bind, runs_expect by kw.
        rewrite runs_bind, ihead_step, runs_bind, (IH f b r Hits Hp) by lia. reflexivity.
      + change (String.eqb ";" "+") with false. change (String.eqb "(" "+") with false. change (String.eqb "+" "+") with true. cbv iota.
        rewrite runs_bind, (runs_tk optacc _ _ _ (Hopt k) eq_refl). rewrite okw_of_text.
        rewrite runs_bind, (runs_get_id _ _ Hit), runs_bind, ihead_step, runs_bind, (IH f b r Hits Hp) by lia. reflexivity.
      + destruct Hit as [Hws Hal]. inversion Hws as [|w' ws' Hw Hws']; subst.
        change (String.eqb ";" "+") with false. change (String.eqb "(" "+") with false. change (String.eqb "+" "+") with true. cbv iota.
        rewrite runs_bind, (runs_tk optacc _ _ _ (Hwir k Hal) eq_refl). rewrite okw_of_wkw, wkw_of_text.
        unfold w_wires. rewrite <- !app_assoc.
        (* after the wiring no connection can follow: the next word is "+" or ";" *)
        assert (Hh : ihead its = "+" \/ ihead its = ";").
        { destruct its as [|[a c|k2 v|k2 w2 ws2] its]; cbn [ihead]; auto. cbn [pins_first] in Hp. discriminate Hp. }
        assert (E : flat_map (w_item ww) its ++ ";" :: r = ihead its :: List.tl (flat_map (w_item ww) its ++ ";" :: r))
          by (destruct its as [|[a c|k2 v|k2 w2 ws2] its]; reflexivity).
        rewrite E.
        assert (E2 : flat_map (fun x => "NEW" :: ww x) ws ++ ihead its :: List.tl (flat_map (w_item ww) its ++ ";" :: r) =
                     nterm ws (ihead its) :: List.tl (flat_map (fun x => "NEW" :: ww x) ws ++ ihead its :: List.tl (flat_map (w_item ww) its ++ ";" :: r)))
          by (destruct ws; reflexivity).
        rewrite E2, runs_bind, Hpw; [|exact Hw | apply nterm_term; destruct Hh as [-> | ->]; reflexivity].
        unfold w_wires in Hf. rewrite !app_length in Hf. cbn [List.length] in Hf.
        assert (Hlen : List.length ws <= List.length (flat_map (fun x => "NEW" :: ww x) ws)).
        { clear. induction ws as [|x ws IHw]; [reflexivity|]. cbn [flat_map List.length app]. rewrite app_length. lia. }
        rewrite runs_bind, runs_more_wires by (assumption || lia).
        rewrite runs_bind, (IH f true r Hits Hp) by lia. reflexivity.
  Qed.
End Items.

(** ** option lists and statement lists *)
Section Opts.
  Context {A : Type} (p_opt : P A) (wo : A -> list string) (good : A -> Prop).
  Hypothesis Hplus : forall o, wo o = "+" :: List.tl (wo o).
  Hypothesis Hp : forall o r, good o -> runs p_opt (List.tl (wo o) ++ r) = Some (o, r).
  Definition opt_head (os : list A) : string := match os with [] => ";" | _ => "+" end.
  Lemma opt_head_step : forall os r, runs (tk A_plus_semi) (flat_map wo os ++ ";" :: r) =
    Some (KKw (opt_head os), List.tl (flat_map wo os ++ ";" :: r)).
  Proof.
    intros [|o os] r; cbn [flat_map app opt_head List.tl]; [apply runs_tk; [kw | reflexivity]|].
    rewrite (Hplus o). cbn [app List.tl]. apply runs_tk; [kw | reflexivity].
  Qed.
  Lemma runs_opts : forall os fuel r, Forall good os -> List.length (flat_map wo os) < fuel ->
    runs (p_opts p_opt fuel (KKw (opt_head os))) (List.tl (flat_map wo os ++ ";" :: r)) = Some (os, r).
  Proof.
    induction os as [|o os IH]; intros fuel r Hg Hf; (destruct fuel as [|f]; [cbn in Hf; lia|]).
    - reflexivity.
    - inversion Hg as [|o' os' Ho Hos]; subst. cbn [flat_map] in Hf. rewrite app_length, (Hplus o) in Hf. cbn [List.length] in Hf.
      cbn [opt_head p_opts is_kw]. change (String.eqb "+" "+") with true. cbv iota.
      cbn [flat_map]. rewrite (Hplus o). cbn [app List.tl]. rewrite <- app_assoc.
      rewrite runs_bind, (Hp o _ Ho), runs_bind, opt_head_step, runs_bind, IH by (assumption || lia). reflexivity.
  Qed.
End Opts.

Section Stmts.
  Context {A : Type} (p_stmt : P A) (wst : A -> list string) (good : A -> Prop) (kw : string).
  Hypothesis Hminus : forall x, wst x = "-" :: List.tl (wst x).
  Hypothesis Hp : forall x r, good x -> runs p_stmt (List.tl (wst x) ++ r) = Some (x, r).
  Hypothesis Hkw : word_tok (A_s kw) kw = Some (KKw kw).
  Definition stmt_head (xs : list A) : string := match xs with [] => "END" | _ => "-" end.
  Lemma stmt_head_step : forall xs r, runs (tk A_end_minus) (flat_map wst xs ++ "END" :: r) =
    Some (KKw (stmt_head xs), List.tl (flat_map wst xs ++ "END" :: r)).
  Proof.
    intros [|x xs] r; cbn [flat_map app stmt_head List.tl]; [apply runs_tk; [kw | reflexivity]|].
    rewrite (Hminus x). cbn [app List.tl]. apply runs_tk; [kw | reflexivity].
  Qed.
  Lemma runs_stmts : forall xs fuel r, Forall good xs -> List.length (flat_map wst xs) < fuel ->
    runs (p_stmts p_stmt kw fuel (KKw (stmt_head xs))) (List.tl (flat_map wst xs ++ "END" :: kw :: r)) = Some (xs, r).
  Proof.
    induction xs as [|x xs IH]; intros fuel r Hg Hf; (destruct fuel as [|f]; [cbn in Hf; lia|]).
    - cbn [stmt_head p_stmts is_kw flat_map app List.tl]. change (String.eqb "-" "END") with false. change (String.eqb "END" "END") with true.
      cbv iota. unfold expect_s. rewrite runs_bind, (runs_expect _ _ _ Hkw). reflexivity.
    - inversion Hg as [|x' xs' Hx Hxs]; subst. cbn [flat_map] in Hf. rewrite app_length, (Hminus x) in Hf. cbn [List.length] in Hf.
      cbn [stmt_head p_stmts is_kw]. change (String.eqb "-" "-") with true. cbv iota.
      cbn [flat_map]. rewrite (Hminus x). cbn [app List.tl]. rewrite <- app_assoc.
      rewrite runs_bind, (Hp x _ Hx), runs_bind, stmt_head_step, runs_bind, IH by (assumption || lia). reflexivity.
  Qed.
  Lemma runs_section : forall n xs fuel r, wf_num n = true -> Forall good xs -> List.length (flat_map wst xs) < fuel ->
    runs (p_section p_stmt kw fuel) (n :: ";" :: flat_map wst xs ++ "END" :: kw :: r) = Some ((n, xs), r).
  Proof.
    intros n xs fuel r Hn Hg Hf. unfold p_section.
    rewrite runs_bind, (runs_get_num A_number _ _ eq_refl Hn), runs_bind, runs_expect by kw.
    rewrite runs_bind, stmt_head_step, runs_bind, runs_stmts by assumption. reflexivity.
  Qed.
End Stmts.

(** ** the statements of the sections *)
Lemma runs_via_opt : forall o r, wf_via_opt o = true -> runs p_via_opt (List.tl (w_via_opt o) ++ r) = Some (o, r).
Proof.
  intros o r H. unfold p_via_opt.
  destruct o as [v|a b|a b c|a b|a b c d|a b|v]; cbn [w_via_opt List.tl app wf_via_opt] in *;
    repeat (apply andb_true_iff in H; destruct H as [H ?]);
    (rewrite runs_bind; erewrite runs_tk; [|kw | reflexivity]); cbn [is_kw String.eqb Ascii.eqb Bool.eqb]; cbv iota;
    repeat (rewrite runs_bind; first [rewrite runs_get_id by assumption | rewrite runs_get_num by (reflexivity || assumption)]); reflexivity.
Qed.
Lemma runs_via_stmt : forall v fuel r, wf_id (vs_name v) = true -> forallb wf_via_opt (vs_opts v) = true ->
  List.length (flat_map w_via_opt (vs_opts v)) < fuel ->
  runs (p_via_stmt fuel) (List.tl (w_stmt (vs_name v) (flat_map w_via_opt (vs_opts v))) ++ r) = Some (v, r).
Proof.
  intros [name os] fuel r Hn Ho Hf. cbn [vs_name vs_opts] in *. unfold p_via_stmt, w_stmt. cbn [List.tl app]. rewrite <- app_assoc. cbn [app].
  rewrite runs_bind, (runs_get_id _ _ Hn), runs_bind, (opt_head_step w_via_opt) by (intros []; reflexivity).
  rewrite runs_bind, (runs_opts p_via_opt w_via_opt (fun o => wf_via_opt o = true)); try assumption; try reflexivity.
  - intros []; reflexivity.
  - intros o r0 Hg. apply runs_via_opt, Hg.
  - apply Forall_forall. intros o Hin. exact (proj1 (forallb_forall _ _) Ho o Hin).
Qed.
Lemma runs_nondef_opt : forall o r, wf_nondef_opt o = true -> runs p_nondef_opt (List.tl (w_nondef_opt o) ++ r) = Some (o, r).
Proof.
  intros o r H. unfold p_nondef_opt, expect_s.
  destruct o as [|id w s|v]; cbn [w_nondef_opt List.tl app wf_nondef_opt] in *;
    repeat (apply andb_true_iff in H; destruct H as [H ?]);
    (rewrite runs_bind; erewrite runs_tk; [|kw | reflexivity]); cbn [is_kw String.eqb Ascii.eqb Bool.eqb]; cbv iota.
  - reflexivity.
  - rewrite runs_bind, runs_get_id by assumption. rewrite runs_bind, runs_expect by kw.
    rewrite runs_bind, runs_get_num by (reflexivity || assumption). rewrite runs_bind, runs_expect by kw.
    rewrite runs_bind, runs_get_num by (reflexivity || assumption). reflexivity.
  - rewrite runs_bind, runs_get_id by assumption. reflexivity.
Qed.
Lemma runs_nondef_stmt : forall v fuel r, wf_id (nds_name v) = true -> forallb wf_nondef_opt (nds_opts v) = true ->
  List.length (flat_map w_nondef_opt (nds_opts v)) < fuel ->
  runs (p_nondef_stmt fuel) (List.tl (w_stmt (nds_name v) (flat_map w_nondef_opt (nds_opts v))) ++ r) = Some (v, r).
Proof.
  intros [name os] fuel r Hn Ho Hf. cbn [nds_name nds_opts] in *. unfold p_nondef_stmt, w_stmt. cbn [List.tl app]. rewrite <- app_assoc. cbn [app].
  rewrite runs_bind, (runs_get_id _ _ Hn), runs_bind, (opt_head_step w_nondef_opt) by (intros []; reflexivity).
  rewrite runs_bind, (runs_opts p_nondef_opt w_nondef_opt (fun o => wf_nondef_opt o = true)); try assumption; try reflexivity.
  - intros []; reflexivity.
  - intros o r0 Hg. apply runs_nondef_opt, Hg.
  - apply Forall_forall. intros o Hin. exact (proj1 (forallb_forall _ _) Ho o Hin).
Qed.
Definition w_comp_body (c : comp_stmt) : list string := cs_kind c :: "+" :: "PLACED" :: w_point (cs_pt c) ++ [cs_orient c].
Lemma runs_comp_stmt : forall c r, wf_id (cs_name c) = true -> wf_id (cs_kind c) = true -> wf_point (cs_pt c) = true -> wf_after_point (cs_orient c) = true ->
  runs p_comp_stmt (List.tl (w_stmt (cs_name c) (w_comp_body c)) ++ r) = Some (c, r).
Proof.
  intros [name kind p o] r Hn Hk Hp Ho. cbn [cs_name cs_kind cs_pt cs_orient] in *. unfold p_comp_stmt, w_stmt, w_comp_body, expect_s.
  cbn [cs_kind cs_pt cs_orient List.tl app]. rewrite w_point_eq. cbn [app]. rewrite <- !app_assoc. cbn [app].
  rewrite runs_bind, (runs_get_id _ _ Hn), runs_bind, (runs_get_id _ _ Hk).
  rewrite runs_bind, runs_expect by kw. rewrite runs_bind, runs_expect by kw. rewrite runs_bind, runs_expect by kw.
  rewrite runs_bind, (runs_point _ _ Hp).
  erewrite runs_next; [|apply reads_tok, Ho | reflexivity]. cbv beta iota. rewrite runs_bind, runs_expect by kw. reflexivity.
Qed.

Lemma runs_pin_opt : forall o nx r, wf_pin_opt o = true -> nx = "+" \/ nx = ";" ->
  runs p_pin_opt (List.tl (w_pin_opt o) ++ nx :: r) = Some ((o, KKw nx), r).
Proof.
  intros o nx r H Hnx. unfold p_pin_opt.
  assert (T1 : runs (tk A_plus_semi) (nx :: r) = Some (KKw nx, r)) by (destruct Hnx as [-> | ->]; apply runs_tk; try kw; reflexivity).
  assert (T2 : runs (tk A_pt_end) (nx :: r) = Some (KKw nx, r)) by (destruct Hnx as [-> | ->]; apply runs_tk; try kw; reflexivity).
  destruct o as [v| |v|v| |id p1 p2|p o]; cbn [w_pin_opt List.tl app wf_pin_opt] in *;
    (rewrite runs_bind; erewrite runs_tk; [|kw | reflexivity]); cbn [is_kw String.eqb Ascii.eqb Bool.eqb]; cbv iota.
  - rewrite runs_bind, runs_get_id by assumption. rewrite runs_bind, T1. reflexivity.
  - rewrite runs_bind, T1. reflexivity.
  - rewrite runs_bind, runs_get_id by assumption. rewrite runs_bind, T1. reflexivity.
  - rewrite runs_bind, runs_get_id by assumption. rewrite runs_bind, T1. reflexivity.
  - rewrite runs_bind, T1. reflexivity.
  - apply andb_true_iff in H. destruct H as [H H2]. apply andb_true_iff in H. destruct H as [H H1].
    rewrite !w_point_eq. cbn [app]. rewrite <- !app_assoc. cbn [app].
    rewrite runs_bind, runs_get_id by assumption. rewrite runs_bind, runs_expect by kw.
    rewrite runs_bind, runs_point by assumption. rewrite runs_bind, runs_expect by kw.
    rewrite runs_bind, runs_point by assumption. rewrite runs_bind, T2. reflexivity.
  - apply andb_true_iff in H. destruct H as [H H0].
    rewrite !w_point_eq. cbn [app]. rewrite <- !app_assoc. cbn [app].
    rewrite runs_bind, runs_expect by kw. rewrite runs_bind, runs_point by assumption.
    erewrite runs_next; [|apply reads_tok; eassumption | reflexivity]. cbv beta iota. rewrite runs_bind, T1. reflexivity.
Qed.
Lemma w_pin_opt_plus : forall o, w_pin_opt o = "+" :: List.tl (w_pin_opt o).
Proof. intros []; reflexivity. Qed.
Lemma runs_pin_opts : forall os fuel r, forallb wf_pin_opt os = true -> List.length (flat_map w_pin_opt os) < fuel ->
  runs (p_pin_opts fuel (KKw (opt_head os))) (List.tl (flat_map w_pin_opt os ++ ";" :: r)) = Some (os, r).
Proof.
  induction os as [|o os IH]; intros fuel r Hw Hf; (destruct fuel as [|f]; [cbn in Hf; lia|]).
  - reflexivity.
  - cbn [forallb] in Hw. apply andb_true_iff in Hw. destruct Hw as [Ho Hw].
    cbn [flat_map] in Hf. rewrite app_length, (w_pin_opt_plus o) in Hf. cbn [List.length] in Hf.
    cbn [opt_head p_pin_opts is_kw]. change (String.eqb "+" "+") with true. cbv iota.
    cbn [flat_map]. rewrite (w_pin_opt_plus o). cbn [app List.tl]. rewrite <- app_assoc.
    assert (E : flat_map w_pin_opt os ++ ";" :: r = opt_head os :: List.tl (flat_map w_pin_opt os ++ ";" :: r)).
    { destruct os as [|o2 os]; [reflexivity|]. cbn [flat_map opt_head]. rewrite (w_pin_opt_plus o2). reflexivity. }
    rewrite E, runs_bind, (runs_pin_opt o (opt_head os)); [|exact Ho | destruct os; cbn; auto].
    rewrite runs_bind, IH by (assumption || lia). reflexivity.
Qed.
Lemma runs_pins_stmt : forall v fuel r, wf_id (ps_name v) = true -> forallb wf_pin_opt (ps_opts v) = true ->
  List.length (flat_map w_pin_opt (ps_opts v)) < fuel ->
  runs (p_pins_stmt fuel) (List.tl (w_stmt (ps_name v) (flat_map w_pin_opt (ps_opts v))) ++ r) = Some (v, r).
Proof.
  intros [name os] fuel r Hn Ho Hf. cbn [ps_name ps_opts] in *. unfold p_pins_stmt, w_stmt. cbn [List.tl app]. rewrite <- app_assoc. cbn [app].
  rewrite runs_bind, (runs_get_id _ _ Hn), runs_bind, (opt_head_step w_pin_opt) by apply w_pin_opt_plus.
  rewrite runs_bind, runs_pin_opts by assumption. reflexivity.
Qed.
Definition w_pinprop (v : string * string * string) : list string := ["-"; "PIN"; fst (fst v); "+"; "PROPERTY"; snd (fst v); snd v; ";"].
Lemma runs_pinprop_stmt : forall v r, wf_id (fst (fst v)) = true -> wf_id (snd (fst v)) = true -> wf_str (snd v) = true ->
  runs p_pinprop_stmt (List.tl (w_pinprop v) ++ r) = Some (v, r).
Proof.
  intros [[a b] c] r Ha Hb Hc. cbn [fst snd] in *. unfold p_pinprop_stmt, w_pinprop, expect_s. cbn [fst snd List.tl app].
  rewrite runs_bind, runs_expect by kw. rewrite runs_bind, (runs_get_id _ _ Ha).
  rewrite runs_bind, runs_expect by kw. rewrite runs_bind, runs_expect by kw.
  rewrite runs_bind, (runs_get_id _ _ Hb), runs_bind, (runs_get_str _ _ Hc). rewrite runs_bind, runs_expect by kw. reflexivity.
Qed.

(** ** design statements *)
Lemma runs_more_points : forall ps fuel r, forallb wf_point ps = true -> List.length (flat_map w_point ps) < fuel ->
  runs (p_more_points fuel) (flat_map w_point ps ++ ";" :: r) = Some (ps, r).
Proof.
  induction ps as [|p ps IH]; intros fuel r Hw Hf; (destruct fuel as [|f]; [cbn in Hf; lia|]).
  - cbn [flat_map app p_more_points]. rewrite runs_bind, (runs_tk A_pt_end ";" r (KKw ";")) by kw. reflexivity.
  - cbn [forallb] in Hw. apply andb_true_iff in Hw. destruct Hw as [Hp Hw].
    cbn [flat_map] in *. rewrite w_point_eq in *. rewrite app_length in Hf. cbn [app List.length] in *. rewrite <- app_assoc.
    cbn [p_more_points]. rewrite runs_bind, (runs_tk A_pt_end "(" _ (KKw "(")) by kw.
    cbn [is_kw]. change (String.eqb "(" "(") with true. cbv iota.
    rewrite runs_bind, (runs_point _ _ Hp), runs_bind, IH by (assumption || lia). reflexivity.
Qed.
Definition w_propdef (ab : string * string) : list string := ["COMPONENTPIN"; fst ab; snd ab; ";"].
Lemma runs_propdefs : forall l fuel r, forallb (fun ab => wf_id (fst ab) && wf_id (snd ab)) l = true -> List.length (flat_map w_propdef l) < fuel ->
  runs (p_propdefs fuel) (flat_map w_propdef l ++ "END" :: "PROPERTYDEFINITIONS" :: r) = Some (l, r).
Proof.
  induction l as [|[a b] l IH]; intros fuel r Hw Hf; (destruct fuel as [|f]; [cbn in Hf; lia|]).
  - cbn [flat_map app p_propdefs]. rewrite runs_bind, (runs_tk A_propdef "END" _ (KKw "END")) by kw.
    cbn [is_kw]. change (String.eqb "COMPONENTPIN" "END") with false. change (String.eqb "END" "END") with true. cbv iota.
    unfold expect_s. rewrite runs_bind, runs_expect by kw. reflexivity.
  - cbn [forallb fst snd] in Hw. apply andb_true_iff in Hw. destruct Hw as [Hab Hw]. apply andb_true_iff in Hab. destruct Hab as [Ha Hb].
    cbn [flat_map w_propdef fst snd app List.length] in *.
    cbn [p_propdefs]. rewrite runs_bind, (runs_tk A_propdef "COMPONENTPIN" _ (KKw "COMPONENTPIN")) by kw.
    cbn [is_kw]. change (String.eqb "COMPONENTPIN" "COMPONENTPIN") with true. cbv iota.
    rewrite runs_bind, (runs_get_id _ _ Ha), runs_bind, (runs_get_id _ _ Hb). rewrite runs_bind, runs_expect by kw.
    rewrite runs_bind, IH by (assumption || lia). reflexivity.
Qed.

(* the keyword a design statement starts with *)
Definition dkw (s : design_stmt) : string :=
  match s with
  | SUnits _ _ _ => "UNITS" | SDiearea _ _ => "DIEAREA" | SRow _ _ _ _ _ _ => "ROW" | STracks _ _ _ _ _ => "TRACKS"
  | SPropdef _ => "PROPERTYDEFINITIONS" | SVias _ _ => "VIAS" | SNondef _ _ _ => "NONDEFAULTRULES" | SComp _ _ => "COMPONENTS"
  | SPins _ _ => "PINS" | SPinprop _ _ => "PINPROPERTIES" | SSpnets _ _ => "SPECIALNETS" | SNets _ _ => "NETS"
  end.
Lemma w_design_stmt_kw : forall s, w_design_stmt s = dkw s :: List.tl (w_design_stmt s).
Proof. intros []; reflexivity. Qed.
Lemma dkw_tok : forall s, word_tok A_design (dkw s) = Some (KKw (dkw s)) /\ String.eqb (dkw s) "END" = false.
Proof. intros []; split; kw. Qed.

Lemma forallb_Forall : forall {A} (f : A -> bool) l, forallb f l = true -> Forall (fun x => f x = true) l.
Proof. intros A f l H. apply Forall_forall. intros x Hin. exact (proj1 (forallb_forall _ _) H x Hin). Qed.
Lemma flat_map_length_le : forall {A B} (f : A -> list B) l x, In x l -> List.length (f x) <= List.length (flat_map f l).
Proof.
  intros A B f. induction l as [|y l IH]; intros x Hin; [destruct Hin|].
  destruct Hin as [E|Hin]; cbn [flat_map]; rewrite app_length; [subst; lia|]. specialize (IH x Hin). lia.
Qed.

Lemma runs_spnet_stmt : forall v fuel r, wf_id (sn_name v) = true -> forallb (wf_item true wf_spwire) (sn_items v) = true ->
  pins_first false (sn_items v) = true -> List.length (flat_map (w_item w_spwire) (sn_items v)) < fuel ->
  runs (p_spnet_stmt fuel) (List.tl (w_stmt (sn_name v) (flat_map (w_item w_spwire) (sn_items v))) ++ r) = Some (v, r).
Proof.
  intros [name its] fuel r Hn Hi Hp Hf. cbn [sn_name sn_items] in *. unfold p_spnet_stmt, w_stmt. cbn [List.tl app]. rewrite <- app_assoc. cbn [app].
  rewrite runs_bind, (runs_get_id _ _ Hn), runs_bind, ihead_step.
  rewrite runs_bind, (runs_items w_spwire (p_spwire fuel) (fun w => wf_spwire w = true /\ List.length (w_spwire w) < fuel) A_spnetopt
                        (fun k => match k with KNoshield => false | _ => true end)) with (b := false); try assumption; try reflexivity.
  - intros w wt r0 [Hw Hl] Hwt. now apply runs_spwire.
  - intros []; kw.
  - intros [] Hk; try discriminate Hk; kw.
  - apply Forall_forall. intros it Hin. pose proof (proj1 (forallb_forall _ _) Hi it Hin) as Hit.
    pose proof (flat_map_length_le (w_item w_spwire) its it Hin) as Hlen.
    destruct it as [a b|k v|k w ws]; cbn [good_item wf_item] in *.
    + apply andb_true_iff in Hit. tauto.
    + exact Hit.
    + apply andb_true_iff in Hit. destruct Hit as [Hws Hk]. split; [|destruct k; try reflexivity; discriminate Hk].
      apply Forall_forall. intros x Hx. split; [exact (proj1 (forallb_forall _ _) Hws x Hx)|].
      cbn [w_item List.length] in Hlen. unfold w_wires in Hlen. rewrite app_length in Hlen.
      destruct Hx as [E|Hx]; [subst; lia|].
      pose proof (flat_map_length_le (fun y => "NEW" :: w_spwire y) ws x Hx) as H2. cbn [List.length] in H2. lia.
Qed.
Lemma runs_net_stmt : forall v fuel r, wf_id (nn_name v) = true -> forallb (wf_item false wf_rwire) (nn_items v) = true ->
  pins_first false (nn_items v) = true -> List.length (flat_map (w_item w_rwire) (nn_items v)) < fuel ->
  runs (p_net_stmt fuel) (List.tl (w_stmt (nn_name v) (flat_map (w_item w_rwire) (nn_items v))) ++ r) = Some (v, r).
Proof.
  intros [name its] fuel r Hn Hi Hp Hf. cbn [nn_name nn_items] in *. unfold p_net_stmt, w_stmt. cbn [List.tl app]. rewrite <- app_assoc. cbn [app].
  rewrite runs_bind, (runs_get_id _ _ Hn), runs_bind, ihead_step.
  rewrite runs_bind, (runs_items w_rwire (p_rwire fuel) (fun w => wf_rwire w = true /\ List.length (w_rwire w) < fuel) A_netopt
                        (fun k => true)) with (b := false); try assumption; try reflexivity.
  - intros w wt r0 [Hw Hl] Hwt. now apply runs_rwire.
  - intros []; kw.
  - intros [] Hk; kw.
  - apply Forall_forall. intros it Hin. pose proof (proj1 (forallb_forall _ _) Hi it Hin) as Hit.
    pose proof (flat_map_length_le (w_item w_rwire) its it Hin) as Hlen.
    destruct it as [a b|k v|k w ws]; cbn [good_item wf_item] in *.
    + apply andb_true_iff in Hit. tauto.
    + exact Hit.
    + apply andb_true_iff in Hit. destruct Hit as [Hws Hk]. split; [|reflexivity].
      apply Forall_forall. intros x Hx. split; [exact (proj1 (forallb_forall _ _) Hws x Hx)|].
      cbn [w_item List.length] in Hlen. unfold w_wires in Hlen. rewrite app_length in Hlen.
      destruct Hx as [E|Hx]; [subst; lia|].
      pose proof (flat_map_length_le (fun y => "NEW" :: w_rwire y) ws x Hx) as H2. cbn [List.length] in H2. lia.
Qed.

Lemma xy_tok : forall d, (String.eqb d "X" || String.eqb d "Y") = true -> word_tok A_xy d = Some (KKw d).
Proof. intros d H. apply orb_true_iff in H. destruct H as [H|H]; apply String.eqb_eq in H; subst; kw. Qed.
Lemma section_words : forall kw n stmts r, List.tl (w_section kw n stmts) ++ r = n :: ";" :: stmts ++ "END" :: kw :: r.
Proof. intros. unfold w_section. cbn [List.tl app]. now rewrite <- app_assoc. Qed.
Lemma section_length : forall kw n stmts, List.length (w_section kw n stmts) = 5 + List.length stmts.
Proof. intros. unfold w_section. cbn [List.length]. rewrite app_length. cbn [List.length]. lia. Qed.

Lemma runs_design_stmt : forall s fuel r, wf_design_stmt s = true -> List.length (w_design_stmt s) < fuel ->
  runs (p_design_stmt fuel (dkw s)) (List.tl (w_design_stmt s) ++ r) = Some (s, r).
Proof.
  intros s fuel r Hw Hf. unfold p_design_stmt, expect_s.
  destruct s as [a b n|p ps|name site x y o d|d a b c l|l|n l|n x l|n l|n l|n l|n l|n l];
    cbn [dkw String.eqb Ascii.eqb Bool.eqb]; cbv iota; cbn [wf_design_stmt] in Hw.
  - (* UNITS *)
    apply andb_true_iff in Hw. destruct Hw as [Hw Hn]. apply andb_true_iff in Hw. destruct Hw as [Ha Hb].
    cbn [w_design_stmt List.tl app].
    rewrite runs_bind, (runs_get_id _ _ Ha), runs_bind, (runs_get_id _ _ Hb), runs_bind, (runs_get_num A_number _ _ eq_refl Hn).
    rewrite runs_bind, runs_expect by kw. reflexivity.
  - (* DIEAREA *)
    cbn [forallb] in Hw. apply andb_true_iff in Hw. destruct Hw as [Hp Hps].
    cbn [w_design_stmt List.tl] in *. rewrite w_point_eq in *. cbn [List.length] in Hf. rewrite !app_length in Hf. cbn [app]. rewrite <- !app_assoc. cbn [app].
    rewrite runs_bind, runs_expect by kw. rewrite runs_bind, (runs_point _ _ Hp), runs_bind, runs_more_points by (assumption || lia). reflexivity.
  - (* ROW *)
    repeat (apply andb_true_iff in Hw; destruct Hw as [Hw ?]).
    cbn [w_design_stmt List.tl]. change (w_do_step d) with ("DO" :: List.tl (w_do_step d)). cbn [app]. rewrite <- !app_assoc. cbn [app].
    rewrite runs_bind, (runs_get_id _ _ Hw), runs_bind, runs_get_id by assumption.
    rewrite runs_bind, runs_get_num by (reflexivity || assumption). rewrite runs_bind, runs_get_num by (reflexivity || assumption).
    rewrite runs_bind, runs_get_id by assumption. rewrite runs_bind, runs_expect by kw.
    rewrite runs_bind, runs_do_step by assumption. rewrite runs_bind, runs_expect by kw. reflexivity.
  - (* TRACKS *)
    repeat (apply andb_true_iff in Hw; destruct Hw as [Hw ?]).
    cbn [w_design_stmt List.tl app].
    erewrite runs_next; [|apply xy_tok, Hw | reflexivity]. cbv beta iota.
    rewrite runs_bind, runs_get_num by (reflexivity || assumption). rewrite runs_bind, runs_expect by kw.
    rewrite runs_bind, runs_get_num by (reflexivity || assumption). rewrite runs_bind, runs_expect by kw.
    rewrite runs_bind, runs_get_num by (reflexivity || assumption). rewrite runs_bind, runs_expect by kw.
    rewrite runs_bind, runs_get_id by assumption. rewrite runs_bind, runs_expect by kw. reflexivity.
  - (* PROPERTYDEFINITIONS *)
    cbn [w_design_stmt List.tl] in *. cbn [List.length] in Hf. rewrite app_length in Hf. rewrite <- app_assoc. cbn [app].
    rewrite runs_bind, (runs_propdefs l) by (assumption || (unfold w_propdef; lia)). reflexivity.
  - (* VIAS *)
    apply andb_true_iff in Hw. destruct Hw as [Hn Hl]. cbn [w_design_stmt] in *. rewrite section_words. rewrite section_length in Hf.
    rewrite runs_bind, (runs_section (p_via_stmt fuel) (fun v => w_stmt (vs_name v) (flat_map w_via_opt (vs_opts v)))
                          (fun v => (wf_id (vs_name v) = true /\ forallb wf_via_opt (vs_opts v) = true) /\
                                    List.length (flat_map w_via_opt (vs_opts v)) < fuel) "VIAS"); try assumption; try reflexivity; try lia.
    + intros v r0 [[H1 H2] H3]. now apply runs_via_stmt.
    + apply Forall_forall. intros v Hin. pose proof (proj1 (forallb_forall _ _) Hl v Hin) as Hv. apply andb_true_iff in Hv. split; [tauto|].
      pose proof (flat_map_length_le (fun v => w_stmt (vs_name v) (flat_map w_via_opt (vs_opts v))) l v Hin) as Hlen.
      unfold w_stmt in Hlen at 1. cbn [List.length] in Hlen. rewrite app_length in Hlen. lia.
  - (* NONDEFAULTRULES *)
    apply andb_true_iff in Hw. destruct Hw as [Hn Hl]. cbn [forallb] in Hl. apply andb_true_iff in Hl. destruct Hl as [Hx Hl].
    apply andb_true_iff in Hx. destruct Hx as [Hx1 Hx2].
    cbn [w_design_stmt] in *. rewrite section_words. rewrite section_length in Hf. cbn [flat_map] in *. rewrite app_length in Hf.
    unfold w_stmt at 1. unfold w_stmt in Hf at 1. cbn [List.length] in Hf. rewrite app_length in Hf. cbn [app List.length] in *. rewrite <- !app_assoc. cbn [app].
    rewrite runs_bind, (runs_get_num A_number _ _ eq_refl Hn). rewrite runs_bind, runs_expect by kw. rewrite runs_bind, runs_expect by kw.
    pose proof (runs_nondef_stmt x fuel) as Hx. unfold w_stmt in Hx at 1. cbn [List.tl app] in Hx.
    assert (Hx' := Hx (flat_map (fun v => w_stmt (nds_name v) (flat_map w_nondef_opt (nds_opts v))) l ++ "END" :: "NONDEFAULTRULES" :: r) Hx1 Hx2 ltac:(lia)).
    rewrite <- app_assoc in Hx'. cbn [app] in Hx'. rewrite runs_bind, Hx'.
    rewrite runs_bind, (stmt_head_step (fun v => w_stmt (nds_name v) (flat_map w_nondef_opt (nds_opts v)))) by (intros; reflexivity).
    rewrite runs_bind, (runs_stmts (p_nondef_stmt fuel) (fun v => w_stmt (nds_name v) (flat_map w_nondef_opt (nds_opts v)))
                          (fun v => (wf_id (nds_name v) = true /\ forallb wf_nondef_opt (nds_opts v) = true) /\
                                    List.length (flat_map w_nondef_opt (nds_opts v)) < fuel) "NONDEFAULTRULES"); try reflexivity; try lia.
    + intros v r0 [[H1 H2] H3]. now apply runs_nondef_stmt.
    + apply Forall_forall. intros v Hin. pose proof (proj1 (forallb_forall _ _) Hl v Hin) as Hv. apply andb_true_iff in Hv. split; [tauto|].
      pose proof (flat_map_length_le (fun v => w_stmt (nds_name v) (flat_map w_nondef_opt (nds_opts v))) l v Hin) as Hlen.
      unfold w_stmt in Hlen at 1. cbn [List.length] in Hlen. rewrite app_length in Hlen. lia.
  - (* COMPONENTS *)
    apply andb_true_iff in Hw. destruct Hw as [Hn Hl]. cbn [w_design_stmt] in *. rewrite section_words. rewrite section_length in Hf.
    rewrite runs_bind, (runs_section p_comp_stmt (fun c => w_stmt (cs_name c) (cs_kind c :: "+" :: "PLACED" :: w_point (cs_pt c) ++ [cs_orient c]))
                          (fun c => wf_id (cs_name c) = true /\ wf_id (cs_kind c) = true /\ wf_point (cs_pt c) = true /\ wf_after_point (cs_orient c) = true) "COMPONENTS");
      try assumption; try reflexivity; try lia.
    + intros c r0 [H1 [H2 [H3 H4]]]. now apply (runs_comp_stmt c r0).
    + apply Forall_forall. intros c Hin. pose proof (proj1 (forallb_forall _ _) Hl c Hin) as Hc.
      repeat (apply andb_true_iff in Hc; destruct Hc as [Hc ?]). tauto.
  - (* PINS *)
    apply andb_true_iff in Hw. destruct Hw as [Hn Hl]. cbn [w_design_stmt] in *. rewrite section_words. rewrite section_length in Hf.
    rewrite runs_bind, (runs_section (p_pins_stmt fuel) (fun v => w_stmt (ps_name v) (flat_map w_pin_opt (ps_opts v)))
                          (fun v => (wf_id (ps_name v) = true /\ forallb wf_pin_opt (ps_opts v) = true) /\
                                    List.length (flat_map w_pin_opt (ps_opts v)) < fuel) "PINS"); try assumption; try reflexivity; try lia.
    + intros v r0 [[H1 H2] H3]. now apply runs_pins_stmt.
    + apply Forall_forall. intros v Hin. pose proof (proj1 (forallb_forall _ _) Hl v Hin) as Hv. apply andb_true_iff in Hv. split; [tauto|].
      pose proof (flat_map_length_le (fun v => w_stmt (ps_name v) (flat_map w_pin_opt (ps_opts v))) l v Hin) as Hlen.
      unfold w_stmt in Hlen at 1. cbn [List.length] in Hlen. rewrite app_length in Hlen. lia.
  - (* PINPROPERTIES *)
    apply andb_true_iff in Hw. destruct Hw as [Hn Hl]. cbn [w_design_stmt] in *. rewrite section_words. rewrite section_length in Hf.
    rewrite runs_bind, (runs_section p_pinprop_stmt (fun v => ["-"; "PIN"; fst (fst v); "+"; "PROPERTY"; snd (fst v); snd v; ";"])
                          (fun v => wf_id (fst (fst v)) = true /\ wf_id (snd (fst v)) = true /\ wf_str (snd v) = true) "PINPROPERTIES");
      try assumption; try reflexivity; try lia.
    + intros v r0 [H1 [H2 H3]]. now apply (runs_pinprop_stmt v r0).
    + apply Forall_forall. intros v Hin. pose proof (proj1 (forallb_forall _ _) Hl v Hin) as Hv.
      repeat (apply andb_true_iff in Hv; destruct Hv as [Hv ?]). tauto.
  - (* SPECIALNETS *)
    apply andb_true_iff in Hw. destruct Hw as [Hn Hl]. cbn [w_design_stmt] in *. rewrite section_words. rewrite section_length in Hf.
    rewrite runs_bind, (runs_section (p_spnet_stmt fuel) (fun v => w_stmt (sn_name v) (flat_map (w_item w_spwire) (sn_items v)))
                          (fun v => (wf_id (sn_name v) = true /\ forallb (wf_item true wf_spwire) (sn_items v) = true /\ pins_first false (sn_items v) = true) /\
                                    List.length (flat_map (w_item w_spwire) (sn_items v)) < fuel) "SPECIALNETS"); try assumption; try reflexivity; try lia.
    + intros v r0 [[H1 [H2 H3]] H4]. now apply runs_spnet_stmt.
    + apply Forall_forall. intros v Hin. pose proof (proj1 (forallb_forall _ _) Hl v Hin) as Hv.
      apply andb_true_iff in Hv. destruct Hv as [Hv H3]. apply andb_true_iff in Hv. split; [tauto|].
      pose proof (flat_map_length_le (fun v => w_stmt (sn_name v) (flat_map (w_item w_spwire) (sn_items v))) l v Hin) as Hlen.
      unfold w_stmt in Hlen at 1. cbn [List.length] in Hlen. rewrite app_length in Hlen. lia.
  - (* NETS *)
    apply andb_true_iff in Hw. destruct Hw as [Hn Hl]. cbn [w_design_stmt] in *. rewrite section_words. rewrite section_length in Hf.
    rewrite runs_bind, (runs_section (p_net_stmt fuel) (fun v => w_stmt (nn_name v) (flat_map (w_item w_rwire) (nn_items v)))
                          (fun v => (wf_id (nn_name v) = true /\ forallb (wf_item false wf_rwire) (nn_items v) = true /\ pins_first false (nn_items v) = true) /\
                                    List.length (flat_map (w_item w_rwire) (nn_items v)) < fuel) "NETS"); try assumption; try reflexivity; try lia.
    + intros v r0 [[H1 [H2 H3]] H4]. now apply runs_net_stmt.
    + apply Forall_forall. intros v Hin. pose proof (proj1 (forallb_forall _ _) Hl v Hin) as Hv.
      apply andb_true_iff in Hv. destruct Hv as [Hv H3]. apply andb_true_iff in Hv. split; [tauto|].
      pose proof (flat_map_length_le (fun v => w_stmt (nn_name v) (flat_map (w_item w_rwire) (nn_items v))) l v Hin) as Hlen.
      unfold w_stmt in Hlen at 1. cbn [List.length] in Hlen. rewrite app_length in Hlen. lia.
Qed.

Lemma runs_design_stmts : forall l fuel r, forallb wf_design_stmt l = true -> List.length (flat_map w_design_stmt l) + 2 < fuel ->
  runs (p_design_stmts fuel) (flat_map w_design_stmt l ++ "END" :: "DESIGN" :: r) = Some (l, r).
Proof.
  induction l as [|s l IH]; intros fuel r Hw Hf; (destruct fuel as [|f]; [lia|]).
  - cbn [flat_map app p_design_stmts]. erewrite runs_next with (t := KKw "END"); [|kw | reflexivity].
    cbv beta iota. change (String.eqb "END" "END") with true. cbv iota. unfold expect_s. rewrite runs_bind, runs_expect by kw. reflexivity.
  - cbn [forallb] in Hw. apply andb_true_iff in Hw. destruct Hw as [Hs Hw]. cbn [flat_map] in *. rewrite app_length in Hf.
    rewrite (w_design_stmt_kw s) in *. cbn [app List.length] in *. rewrite <- app_assoc.
    destruct (dkw_tok s) as [Hk Hne]. cbn [p_design_stmts]. erewrite runs_next; [|exact Hk | reflexivity]. cbv beta iota. rewrite Hne.
    rewrite runs_bind, (runs_design_stmt s f) by (assumption || (rewrite (w_design_stmt_kw s); cbn [List.length]; lia)).
    rewrite runs_bind, IH by (assumption || lia). reflexivity.
Qed.

Definition fkw (f : file_stmt) : string :=
  match f with FVersion _ => "VERSION" | FDividerchar _ => "DIVIDERCHAR" | FBusbitchars _ => "BUSBITCHARS" | FDesign _ _ => "DESIGN" end.
Lemma w_file_stmt_kw : forall f, w_file_stmt f = fkw f :: List.tl (w_file_stmt f).
Proof. intros []; reflexivity. Qed.
Lemma runs_file_stmt : forall x fuel r, wf_file_stmt x = true -> List.length (w_file_stmt x) <= fuel ->
  runs (p_file_stmt fuel (fkw x)) (List.tl (w_file_stmt x) ++ r) = Some (x, r).
Proof.
  intros x fuel r Hw Hf. unfold p_file_stmt. destruct x as [v|v|v|name l]; cbn [fkw String.eqb Ascii.eqb Bool.eqb]; cbv iota;
    cbn [wf_file_stmt w_file_stmt List.tl app] in *.
  - rewrite runs_bind, (runs_get_id _ _ Hw). rewrite runs_bind, runs_expect by kw. reflexivity.
  - rewrite runs_bind, (runs_get_str _ _ Hw). rewrite runs_bind, runs_expect by kw. reflexivity.
  - rewrite runs_bind, (runs_get_str _ _ Hw). rewrite runs_bind, runs_expect by kw. reflexivity.
  - apply andb_true_iff in Hw. destruct Hw as [Hn Hl]. cbn [List.length] in Hf. rewrite app_length in Hf. cbn [List.length] in Hf.
    rewrite <- app_assoc. cbn [app].
    rewrite runs_bind, (runs_get_id _ _ Hn). rewrite runs_bind, runs_expect by kw.
    rewrite runs_bind, runs_design_stmts by (assumption || lia). reflexivity.
Qed.
Definition fhead (fs : list file_stmt) : tok := match fs with [] => KEof | f :: _ => KKw (fkw f) end.
Lemma fhead_step : forall acc fs, acc = A_start \/ acc = A_file ->
  runs (tk acc) (flat_map w_file_stmt fs) = Some (fhead fs, List.tl (flat_map w_file_stmt fs)).
Proof.
  intros acc [|f fs] Ha; [reflexivity|]. cbn [flat_map fhead]. rewrite (w_file_stmt_kw f). cbn [app List.tl].
  apply runs_tk; [|reflexivity]. destruct Ha as [-> | ->]; destruct f; kw.
Qed.
Lemma runs_file_stmts : forall fs fuel, forallb wf_file_stmt fs = true -> List.length (flat_map w_file_stmt fs) < fuel ->
  runs (p_file_stmts fuel (fhead fs)) (List.tl (flat_map w_file_stmt fs)) = Some (fs, []).
Proof.
  induction fs as [|x fs IH]; intros fuel Hw Hf; (destruct fuel as [|f]; [cbn in Hf; lia|]).
  - reflexivity.
  - cbn [forallb] in Hw. apply andb_true_iff in Hw. destruct Hw as [Hx Hw]. cbn [flat_map] in *. rewrite app_length in Hf.
    rewrite (w_file_stmt_kw x) in *. cbn [app List.tl List.length fhead p_file_stmts] in *.
    rewrite runs_bind, (runs_file_stmt x f) by (assumption || (rewrite (w_file_stmt_kw x); cbn [List.length]; lia)).
    rewrite runs_bind, (fhead_step A_file fs (or_intror eq_refl)), runs_bind, IH by (assumption || lia). reflexivity.
Qed.

(* ------------------------------------------------------------------------------------------------ *)
(** * (a) the parser reads the words of a well-formed tree back as the tree *)
Theorem runs_words : forall t fuel, wf_tree t = true -> t_comment t = None -> List.length (words t) < fuel ->
  runs (p_start fuel) (words t) = Some (t, []).
Proof.
  intros [c fs] fuel Hw Hc Hf. cbn [t_comment] in Hc. subst c. unfold wf_tree in Hw. cbn [t_comment t_stmts andb] in Hw.
  unfold words in *. cbn [t_stmts] in *. unfold p_start.
  pose proof (fhead_step A_start fs (or_introl eq_refl)) as Hs. unfold tk in Hs. cbn [runs] in Hs. cbn [runs].
  destruct (wnext A_start (flat_map w_file_stmt fs)) as [[t0 r0]|]; [|discriminate Hs]. inversion Hs; subst t0 r0.
  assert (Hnc : forall c, fhead fs <> KComment c) by (destruct fs; discriminate).
  destruct (fhead fs) eqn:Eh; try (exfalso; eapply Hnc; reflexivity); rewrite <- Eh;
    rewrite runs_bind, runs_file_stmts by assumption; reflexivity.
Qed.

(** the words a program consumes are whole words *)
Lemma runs_consumed : forall {A} (p : P A) ws a r, runs p ws = Some (a, r) ->
  exists pre, ws = pre ++ r /\ Forall (fun w => first_ok w = true) pre.
Proof.
  intros A p. induction p as [a0| |acc k IH]; intros ws a r H; cbn [runs] in H.
  - inversion H; subst. exists []. split; [reflexivity | constructor].
  - discriminate H.
  - destruct (wnext acc ws) as [[t r0]|] eqn:En; [|discriminate H].
    destruct (IH _ _ _ _ H) as [pre [E Hp]].
    destruct ws as [|w ws]; cbn [wnext] in En.
    + inversion En; subst. exists pre. split; assumption.
    + destruct (word_tok acc w) as [t0|] eqn:Ew; [|discriminate En].
      assert (Er : r0 = ws) by (destruct t0; try (inversion En; reflexivity); destruct ws; [discriminate En | inversion En; reflexivity]).
      rewrite Er in E. exists (w :: pre). split; [cbn [app]; now rewrite E|]. constructor; [eapply word_tok_first_ok, Ew | exact Hp].
Qed.
Lemma tail_length : forall T ws, Tail T ws -> Forall (fun w => first_ok w = true) ws -> List.length ws <= String.length T.
Proof.
  intros T ws H. induction H as [c Y Hc Hs | c g w T ws Hc Hg Ht IH]; intro Hf; [cbn; lia|].
  inversion Hf as [|w' ws' Hw Hws]; subst. specialize (IH Hws). cbn [String.length List.length]. rewrite !slen_app.
  destruct w as [|a w]; [discriminate Hw|]. cbn [String.length]. lia.
Qed.
Lemma rel_length : forall s ws, Rel s ws -> Forall (fun w => first_ok w = true) ws -> List.length ws <= String.length s.
Proof.
  intros s [|w ws] HR Hf; [cbn; lia|]. cbn [Rel] in HR. destruct HR as [g [T [Hg [E HT]]]]. subst s.
  inversion Hf as [|w' ws' Hw Hws]; subst. pose proof (tail_length _ _ HT Hws). rewrite !slen_app. cbn [List.length].
  destruct w as [|a w]; [discriminate Hw|]. cbn [String.length]. lia.
Qed.

(* any text that writes the words of a well-formed tree -- any ignored text between them, a blank after each -- parses to the tree *)
Theorem parse_words : forall t s, wf_tree t = true -> t_comment t = None -> Rel s (words t) -> parse_def s = Some t.
Proof.
  intros t s Hw Hc HR.
  pose proof (runs_words t (S (List.length (words t))) Hw Hc (Nat.lt_succ_diag_r _)) as H0.
  destruct (runs_consumed _ _ _ _ H0) as [pre [E Hpre]]. rewrite app_nil_r in E. subst pre.
  pose proof (rel_length _ _ HR Hpre) as Hlen.
  pose proof (runs_words t (S (String.length s)) Hw Hc ltac:(lia)) as H1.
  destruct (run_sim _ _ _ _ _ HR H1) as [s' [Hrun _]]. unfold parse_def. now rewrite Hrun.
Qed.

(* with a leading comment line *)
Lemma skip_afterws_of_tok : forall s, skip_go MTok s = EmptyString -> skip_go MAfterWs s = EmptyString.
Proof.
  intros [|c s] H; [reflexivity|]. cbn [skip_go] in *. destruct (is_ws c) eqn:E; [|discriminate H].
  now rewrite (ws_not_hash _ E).
Qed.
Lemma rel_after_newline : forall s ws, Rel s ws -> Rel (nl ++ s) ws.
Proof.
  intros s [|w ws] HR; cbn [Rel] in *.
  - cbn [nl append skip_go]. change (is_ws (ascii_of_N 10)) with true. cbv iota. apply skip_afterws_of_tok, HR.
  - destruct HR as [g [T [Hg [E HT]]]]. exists (IgWs (ascii_of_N 10) :: g), T. split; [cbn [forallb ign_ok]; exact Hg|]. split; [|exact HT].
    subst s. reflexivity.
Qed.
Lemma match_comment_line : forall b X, no_newline b = true -> match_comment (String "#" b ++ nl ++ X) = Some (String "#" b, (nl ++ X)%string).
Proof.
  intros b X H. unfold match_comment. cbn [append].
  assert (E : span (fun x => negb (is_nl x)) (b ++ nl ++ X) = (b, (nl ++ X)%string)).
  { induction b as [|c b IH]; [reflexivity|]. cbn [no_newline] in H. apply andb_true_iff in H. destruct H as [Hc Hb].
    cbn [append span]. rewrite Hc, (IH Hb). reflexivity. }
  now rewrite E.
Qed.
Theorem parse_words_comment : forall t c s, wf_tree t = true -> t_comment t = Some c -> Rel s (words t) ->
  parse_def (c ++ nl ++ s) = Some t.
Proof.
  intros [c0 fs] c s Hw Hc HR. cbn [t_comment] in Hc. subst c0. unfold wf_tree in Hw. cbn [t_comment t_stmts] in Hw.
  apply andb_true_iff in Hw. destruct Hw as [Hcm Hfs]. unfold words in HR. cbn [t_stmts] in HR.
  destruct c as [|h b]; [discriminate Hcm|]. unfold wf_comment in Hcm.
  destruct h as [[|] [|] [|] [|] [|] [|] [|] [|]]; try discriminate Hcm.
  set (fuel := S (String.length (String "#" b ++ nl ++ s))).
  assert (Hrest : exists s', run (t' <- tk A_file ;; l <- p_file_stmts fuel t' ;; Ret (mkTree (Some (String "#" b)) l)) (nl ++ s) =
                             Some (mkTree (Some (String "#" b)) fs, s')).
  { pose proof (runs_words (mkTree None fs) (S (List.length (flat_map w_file_stmt fs))) Hfs eq_refl (Nat.lt_succ_diag_r _)) as H0.
    destruct (runs_consumed _ _ _ _ H0) as [pre [E Hpre]]. rewrite app_nil_r in E. unfold words in E. cbn [t_stmts] in E. subst pre.
    pose proof (rel_length _ _ HR Hpre) as Hlen.
    assert (Hf : List.length (flat_map w_file_stmt fs) < fuel) by (unfold fuel; rewrite !slen_app; lia).
    assert (Hr : runs (t' <- tk A_file ;; l <- p_file_stmts fuel t' ;; Ret (mkTree (Some (String "#" b)) l)) (flat_map w_file_stmt fs) =
                 Some (mkTree (Some (String "#" b)) fs, [])).
    { rewrite runs_bind, (fhead_step A_file fs (or_intror eq_refl)), runs_bind, runs_file_stmts by assumption. reflexivity. }
    destruct (run_sim _ _ _ _ _ (rel_after_newline _ _ HR) Hr) as [s' [Hrun _]]. exists s'. exact Hrun. }
  destruct Hrest as [s' Hrest]. unfold parse_def. fold fuel. unfold p_start. cbn [run].
  assert (Hn : next_token A_start (String "#" b ++ nl ++ s) = Some (KComment (String "#" b), (nl ++ s)%string)).
  { unfold next_token. cbn [append skip_go]. change (is_ws "#") with false. cbv iota.
    unfold scan. change (has TmOrient A_start) with false. change (has TmSigned A_start) with false. change (has TmNumber A_start) with false.
    change (has TmString A_start) with false. change (has TmId A_start) with false. change (has TmComment A_start) with true. cbv iota.
    change (String "#" (b ++ nl ++ s)) with (String "#" b ++ nl ++ s)%string. now rewrite (match_comment_line b s Hcm). }
  rewrite Hn. cbv beta iota. rewrite Hrest. reflexivity.
Qed.

(* the printer writes every word on its own line: a text of that form *)
Lemma tail_lines : forall ws, Tail (nl ++ lines ws) ws.
Proof.
  induction ws as [|w ws IH]; cbn [lines].
  - apply Tail_nil; reflexivity.
  - change (nl ++ w ++ nl ++ lines ws)%string with (String (ascii_of_N 10) (igns_text [] ++ w ++ (nl ++ lines ws)))%string.
    apply Tail_cons; [reflexivity | reflexivity | exact IH].
Qed.
Lemma rel_lines : forall ws, Rel (lines ws) ws.
Proof.
  intros [|w ws]; [reflexivity|]. cbn [Rel lines]. exists [], (nl ++ lines ws)%string. repeat split. apply tail_lines.
Qed.
Theorem parse_print : forall t, wf_tree t = true -> parse_def (print_def t) = Some t.
Proof.
  intros t Hw. unfold print_def. destruct (t_comment t) as [c|] eqn:Ec.
  - rewrite sapp_assoc. apply parse_words_comment; [exact Hw | exact Ec | apply rel_lines].
  - apply parse_words; [exact Hw | exact Ec | apply rel_lines].
Qed.

(* ------------------------------------------------------------------------------------------------ *)
(** * (c) composition: the callback theorems start from TEXT *)
Theorem def_of_text_words : forall t s, wf_tree t = true -> t_comment t = None -> Rel s (words t) -> def_of_text s = elab t.
Proof. intros t s Hw Hc HR. unfold def_of_text. now rewrite (parse_words t s Hw Hc HR). Qed.
Theorem def_of_text_print : forall t, wf_tree t = true -> def_of_text (print_def t) = elab t.
Proof. intros t Hw. unfold def_of_text. now rewrite (parse_print t Hw). Qed.

(** * what the well-formedness of names means *)
Lemma wf_id_iff : forall w, wf_id w = true <-> nows w = true /\ first_ok w = true /\ starts_plus w = false.
Proof.
  intro w. unfold wf_id, reads, word_tok, wordlike. change (has TmString A_id) with false. change (has TmOrient A_id) with false.
  change (has TmSigned A_id) with false. change (has TmNumber A_id) with false. change (has TmId A_id) with true.
  change (embedded A_id) with (@nil string). change (scanned A_id) with (@nil string). cbn [andb orb mem_str existsb forallb].
  rewrite ?andb_false_r, ?orb_false_r.
  destruct (first_ok w), (nows w), (starts_plus w); cbn [andb negb tok_eqb]; rewrite ?String.eqb_refl; split; intro H; try discriminate H;
    try tauto; destruct H as [? [? ?]]; discriminate.
Qed.
(* a via of a regular wire: additionally not NEW, "(", ";" (retyped by the scanner) and not an orientation *)
Lemma wf_rvia_iff : forall w, wf_rvia w = true <->
  wf_id w = true /\ orient_word w = false /\ mem_str w ["NEW"; "("; ";"] = false.
Proof.
  intro w. rewrite wf_id_iff. unfold wf_rvia, reads, word_tok, wordlike.
  change (has TmString A_pt_end) with false. change (has TmOrient A_pt_end) with false. change (has TmSigned A_pt_end) with false.
  change (has TmNumber A_pt_end) with false. change (has TmId A_pt_end) with true. change (embedded A_pt_end) with ["("; "NEW"; ";"].
  change (has TmString A_via_r) with false. change (has TmOrient A_via_r) with true. change (has TmSigned A_via_r) with false.
  change (has TmNumber A_via_r) with false. change (has TmId A_via_r) with true. change (embedded A_via_r) with ["("; "NEW"; ";"].
  cbn [andb orb]. rewrite ?andb_false_r, ?orb_false_r.
  assert (Em : mem_str w ["("; "NEW"; ";"] = mem_str w ["NEW"; "("; ";"]).
  { unfold mem_str. cbn [existsb]. destruct (String.eqb w "("), (String.eqb w "NEW"), (String.eqb w ";"); reflexivity. }
  rewrite Em.
  destruct (first_ok w), (nows w), (starts_plus w), (orient_word w), (mem_str w ["NEW"; "("; ";"]); cbn [andb negb tok_eqb];
    rewrite ?String.eqb_refl, ?andb_false_r; repeat match goal with |- context [if ?b then _ else _] => destruct b end;
    cbn [tok_eqb andb]; rewrite ?andb_false_r; intuition (try discriminate; try congruence).
Qed.

(** * the hypotheses are satisfiable; corner cases of the real parser (each line was run through lark) *)
Example ex_wf : wf_tree DefElabProofs.ex_tree = true /\ parse_def (print_def DefElabProofs.ex_tree) = Some DefElabProofs.ex_tree.
Proof. split; vm_compute; reflexivity. Qed.
(* the same words, written with other ignored text *)
Definition ex_small : tree :=
  mkTree None [FVersion "5.8"; FDesign "top" [SNets "1" [mkNN "n1" [NIPin "u1" "Z";
    NIWires KRouted (mkRW "M1" [] (mkTP (CNum "10") (CNum "20") None) [RPoint (mkTP CStar (CNum "40") None); RVia "via1" (Some "N"); RVia "via2" None]) []]]]].
Definition ex_small_text : string :=
  "VERSION 5.8 ; # a comment" ++ nl ++ "DESIGN" ++ String (ascii_of_N 9) "top ;" ++ nl ++ nl ++
  "NETS 1 ;  - n1 ( u1 Z ) # another ( comment ;" ++ nl ++ " + ROUTED M1 ( 10 20 ) ( * 40 ) via1 N  via2 ;" ++ String (ascii_of_N 13) nl ++
  "END NETS END DESIGN" ++ nl.
Example ex_small_ok : wf_tree ex_small = true /\ parse_def ex_small_text = Some ex_small /\ parse_def (print_def ex_small) = Some ex_small.
Proof. repeat split; vm_compute; reflexivity. Qed.
Example corner_cases :
  parse_def "" = Some (mkTree None []) /\ parse_def "#c" = Some (mkTree (Some "#c") []) /\ parse_def " #c" = Some (mkTree None []) /\
  parse_def "VERSION 5.8 ;" = Some (mkTree None [FVersion "5.8"]) /\ parse_def "VERSION 5.8;" = None /\
  parse_def "DESIGN d ;ENDDESIGN" = Some (mkTree None [FDesign "d" []]) /\
  parse_def "DESIGN d ; DIEAREA (0 0) ( 10 10 ); END DESIGN" =
    Some (mkTree None [FDesign "d" [SDiearea (mkTP (CNum "0") (CNum "0") None) [mkTP (CNum "10") (CNum "10") None]]]) /\
  parse_def "DESIGN d ; DIEAREA ( 0 0 ) (10 10 ) ; END DESIGN" = None /\
  parse_def "DESIGN d ; ROWS core 0 0 N DO 1 BY 1 STEP 0 0 ; END DESIGN" =
    Some (mkTree None [FDesign "d" [SRow "S" "core" "0" "0" "N" (mkDS "1" "1" "0" "0")]]) /\
  parse_def "DESIGN d ; NETS 1 ; - n + ROUTED M1 ( 0 0 ) N S ; END NETS END DESIGN" =
    Some (mkTree None [FDesign "d" [SNets "1" [mkNN "n" [NIWires KRouted (mkRW "M1" [] (mkTP (CNum "0") (CNum "0") None) [RVia "N" (Some "S")]) []]]]]) /\
  parse_def "DESIGN d ; NETS 1 ; - n + ROUTED M1 ( 0 0 ) via1 N; END NETS END DESIGN" = None /\
  parse_def "DESIGN d ; NETS 1 ; - n + ROUTED M1 ( 0 0 ) NEW ; END NETS END DESIGN" = None /\
  parse_def "DESIGN d ; NETS 1 ; - n + ROUTED M1 ( 0 0 ) v ( u1 Z ) ; END NETS END DESIGN" = None.
Proof. vm_compute. repeat split; reflexivity. Qed.

(** * from the TEXT to the extracted data: every statement written in the text reaches the DefFile exactly once *)
Import DefElabProofs.
Theorem text_components : forall t s d, wf_tree t = true -> t_comment t = None -> Rel s (words t) -> def_of_text s = Some d ->
  NoDup (map cs_name (comps_of t)) -> Forall2 (fun c e => elab_comp c = Some e) (comps_of t) (df_components d).
Proof. intros t s d Hw Hc HR Hd. rewrite (def_of_text_words t s Hw Hc HR) in Hd. now apply components_exactly_once. Qed.
Theorem text_pins : forall t s d, wf_tree t = true -> t_comment t = None -> Rel s (words t) -> def_of_text s = Some d ->
  NoDup (map ps_name (pins_of t)) -> Forall2 (fun c e => elab_pin c = Some e) (pins_of t) (df_pins d).
Proof. intros t s d Hw Hc HR Hd. rewrite (def_of_text_words t s Hw Hc HR) in Hd. now apply pins_exactly_once. Qed.
Theorem text_nets : forall t s d, wf_tree t = true -> t_comment t = None -> Rel s (words t) -> def_of_text s = Some d ->
  NoDup (map nn_name (nets_of t)) -> Forall2 (fun c e => elab_net c = Some e) (nets_of t) (df_nets d).
Proof. intros t s d Hw Hc HR Hd. rewrite (def_of_text_words t s Hw Hc HR) in Hd. now apply nets_exactly_once. Qed.
Theorem text_specialnets : forall t s d, wf_tree t = true -> t_comment t = None -> Rel s (words t) -> def_of_text s = Some d ->
  NoDup (map sn_name (spnets_of t)) -> Forall2 (fun c e => elab_spnet c = Some e) (spnets_of t) (df_specialnets d).
Proof. intros t s d Hw Hc HR Hd. rewrite (def_of_text_words t s Hw Hc HR) in Hd. now apply specialnets_exactly_once. Qed.
Theorem text_rows_tracks : forall t s d, wf_tree t = true -> t_comment t = None -> Rel s (words t) -> def_of_text s = Some d ->
  Forall2 (fun x r => x = Some r) (rows_of t) (df_rows d) /\ Forall2 (fun x r => x = Some r) (tracks_of t) (df_tracks d).
Proof. intros t s d Hw Hc HR Hd. rewrite (def_of_text_words t s Hw Hc HR) in Hd. split; [now apply rows_in_order | now apply tracks_in_order]. Qed.
