(** Cell-library TEXT (Model/TechLibText.v): brace products are itertools.product; distinctness of the expanded names;
    the Coq transcription of TechLib.__init__ applied to the five library source strings (Gen/TechLibTexts.v) yields
    exactly the libraries emitted by the translator's Python re-implementation (Gen/TechLibs.v). *)
From Coq Require Import List NArith Bool Arith String Ascii Lia.
From KV Require Import Model.VerilogElab Model.BenchText Model.TechCell Model.TechLibText Gen.TechLibs Gen.TechLibTexts.
Import ListNotations.
Local Open Scope list_scope.

(** ** lists *)
Lemma NoDup_app_iff {A} (a b : list A) :
  NoDup (a ++ b) <-> NoDup a /\ NoDup b /\ (forall x, In x a -> In x b -> False).
Proof.
  induction a as [|y a IH]; cbn [app].
  - split; [intro H; repeat split; [constructor | exact H | intros x []] | intros [_ [H _]]; exact H].
  - split.
    + intro H. inversion H as [|? ? Hn Hd]; subst. apply IH in Hd. destruct Hd as [Ha [Hb Hdis]].
      repeat split; [constructor; [intro Hi; apply Hn, in_or_app; left; exact Hi | exact Ha] | exact Hb |].
      intros x [E|Hi] Hxb; [subst; apply Hn, in_or_app; right; exact Hxb | exact (Hdis x Hi Hxb)].
    + intros [Ha [Hb Hdis]]. inversion Ha as [|? ? Hn Hd]; subst. constructor.
      * intro Hi. apply in_app_or in Hi. destruct Hi as [Hi|Hi]; [exact (Hn Hi) | exact (Hdis y (or_introl eq_refl) Hi)].
      * apply IH. repeat split; [exact Hd | exact Hb | intros x Hi; apply Hdis; right; exact Hi].
Qed.
Lemma NoDup_map_inj {A B} (f : A -> B) (l : list A) :
  (forall x y, In x l -> In y l -> f x = f y -> x = y) -> NoDup l -> NoDup (map f l).
Proof.
  induction l as [|x l IH]; intros Hinj H; [constructor|].
  inversion H as [|? ? Hn Hd]; subst. cbn [map]. constructor.
  - intro Hi. apply in_map_iff in Hi. destruct Hi as [y [E Hy]].
    assert (y = x) by (apply Hinj; [right; exact Hy | left; reflexivity | exact E]). subst. exact (Hn Hy).
  - apply IH; [|exact Hd]. intros a b Ha Hb. apply Hinj; right; assumption.
Qed.

(** ** itertools.product *)
Section Product.
  Context {A : Type}.
  Implicit Types (p : list A) (ps : list (list A)) (t : list A).

  Lemma product_cons p ps : product (p :: ps) = flat_map (fun x => map (cons x) (product ps)) p.
  Proof. reflexivity. Qed.

  (* membership: one alternative from every part, in order *)
  Lemma in_product : forall ps t, In t (product ps) <-> Forall2 (fun x p => In x p) t ps.
  Proof.
    induction ps as [|p ps IH]; intro t.
    - cbn [product In]. split; [intros [E|[]]; subst; constructor | intro H; inversion H; left; reflexivity].
    - rewrite product_cons, in_flat_map. split.
      + intros [x [Hx Ht]]. apply in_map_iff in Ht. destruct Ht as [t' [E Ht']]. subst t.
        constructor; [exact Hx | apply IH, Ht'].
      + intro H. inversion H as [|x ? t' ? Hx Ht']; subst. exists x. split; [exact Hx|].
        apply in_map_iff. exists t'. split; [reflexivity | apply IH, Ht'].
  Qed.

  Lemma product_length : forall ps, List.length (product ps) = fold_right Nat.mul 1 (map (@List.length A) ps).
  Proof.
    induction ps as [|p ps IH]; [reflexivity|].
    rewrite product_cons. cbn [map fold_right]. rewrite <- IH. clear IH.
    induction p as [|x p IHp]; [reflexivity|].
    cbn [flat_map List.length]. rewrite app_length, map_length, IHp. lia.
  Qed.

  Lemma flat_map_block {B} (f : A -> list B) n : (forall x, List.length (f x) = n) ->
    forall p i j x, nth_error p i = Some x -> j < n -> nth_error (flat_map f p) (i * n + j) = nth_error (f x) j.
  Proof.
    intros Hlen. induction p as [|y p IH]; intros i j x Hi Hj; [destruct i; discriminate Hi|].
    cbn [flat_map]. destruct i as [|i].
    - cbn [nth_error] in Hi. inversion Hi; subst. cbn [Nat.mul Nat.add]. apply nth_error_app1. now rewrite Hlen.
    - cbn [nth_error] in Hi. rewrite nth_error_app2 by (rewrite Hlen; lia).
      rewrite Hlen. replace (S i * n + j - n) with (i * n + j) by lia. apply IH; assumption.
  Qed.

  (* order: the tuple built from the i-th alternative of the first part and the j-th tuple of the remaining parts is at
     position i * (number of remaining tuples) + j -- the rightmost part varies fastest *)
  Theorem product_nth : forall p ps i j x t, nth_error p i = Some x -> nth_error (product ps) j = Some t ->
    nth_error (product (p :: ps)) (i * List.length (product ps) + j) = Some (x :: t).
  Proof.
    intros p ps i j x t Hi Hj. rewrite product_cons.
    rewrite (flat_map_block (fun x => map (cons x) (product ps)) (List.length (product ps))) with (x := x).
    - apply map_nth_error, Hj.
    - intro y. apply map_length.
    - exact Hi.
    - apply nth_error_Some. congruence.
  Qed.

  Theorem NoDup_product : forall ps, Forall (@NoDup A) ps -> NoDup (product ps).
  Proof.
    induction ps as [|p ps IH]; intro H; [repeat constructor; intros []|].
    inversion H as [|? ? Hp Hps]; subst. specialize (IH Hps). rewrite product_cons.
    clear H. induction Hp as [|x p Hn Hd IHp]; [constructor|].
    cbn [flat_map]. apply NoDup_app_iff. repeat split.
    - apply NoDup_map_inj; [|exact IH]. intros a b _ _ E. now inversion E.
    - exact IHp.
    - intros t Ht1 Ht2. apply in_map_iff in Ht1. destruct Ht1 as [t1 [E1 _]]. subst t.
      apply in_flat_map in Ht2. destruct Ht2 as [y [Hy Ht2]]. apply in_map_iff in Ht2. destruct Ht2 as [t2 [E2 _]].
      inversion E2; subst. exact (Hn Hy).
  Qed.

  Lemma product_nonempty : forall ps, Forall (fun p => p <> []) ps -> exists t, In t (product ps).
  Proof.
    induction ps as [|p ps IH]; intro H; [exists []; left; reflexivity|].
    inversion H as [|? ? Hp Hps]; subst. destruct (IH Hps) as [t Ht]. destruct p as [|x p]; [congruence|].
    exists (x :: t). apply in_product. constructor; [left; reflexivity | apply in_product, Ht].
  Qed.

  Theorem NoDup_product_inv : forall ps, Forall (fun p => p <> []) ps -> NoDup (product ps) -> Forall (@NoDup A) ps.
  Proof.
    induction ps as [|p ps IH]; intros Hne H; [constructor|].
    inversion Hne as [|? ? Hp Hps]; subst. rewrite product_cons in H.
    destruct (product_nonempty ps Hps) as [t0 Ht0].
    constructor.
    - clear Hp Hne. induction p as [|x p IHp]; [constructor|].
      cbn [flat_map] in H. apply NoDup_app_iff in H. destruct H as [_ [H2 Hdis]]. constructor; [|apply IHp, H2].
      intro Hx. apply (Hdis (x :: t0)); [apply in_map, Ht0|].
      apply in_flat_map. exists x. split; [exact Hx | apply in_map, Ht0].
    - apply IH; [exact Hps|]. destruct p as [|x p]; [congruence|].
      cbn [flat_map] in H. apply NoDup_app_iff in H. destruct H as [H1 _]. exact (NoDup_map_inv _ _ H1).
  Qed.
End Product.

(** ** names *)
Lemma split_comma_nonempty : forall s, split_comma s <> [].
Proof.
  induction s as [|c s IH]; [discriminate|]. cbn [split_comma].
  destruct (is_char 44 c); [discriminate|]. destruct (split_comma s); [congruence | discriminate].
Qed.
Lemma name_parts_nonempty : forall pat, Forall (fun p => p <> []) (name_parts pat).
Proof.
  intro pat. unfold name_parts. apply Forall_forall. intros p Hp. apply in_map_iff in Hp. destruct Hp as [s [E _]]. subst p.
  destruct s as [|c r]; [discriminate|]. cbn [seg_alts]. destruct (is_char 123 c); [apply split_comma_nonempty | discriminate].
Qed.

(* the names of a pattern are the joined tuples of itertools.product over its parts, in that order *)
Theorem expand_names_product : forall pat,
  expand_names pat = map sconcat (product (name_parts pat)) /\
  List.length (expand_names pat) = fold_right Nat.mul 1 (map (@List.length string) (name_parts pat)) /\
  (forall name, In name (expand_names pat) <->
     exists t, Forall2 (fun x p => In x p) t (name_parts pat) /\ name = sconcat t).
Proof.
  intro pat. unfold expand_names. split; [reflexivity|]. split; [now rewrite map_length, product_length|].
  intro name. rewrite in_map_iff. split.
  - intros [t [E Ht]]. exists t. split; [apply in_product, Ht | now symmetry].
  - intros [t [Ht E]]. exists t. split; [now symmetry | apply in_product, Ht].
Qed.
Theorem expand_names_order : forall pat p ps i j x t, name_parts pat = p :: ps ->
  nth_error p i = Some x -> nth_error (product ps) j = Some t ->
  nth_error (expand_names pat) (i * List.length (product ps) + j) = Some (x ++ sconcat t)%string.
Proof.
  intros pat p ps i j x t E Hi Hj. unfold expand_names. rewrite E.
  apply (map_nth_error sconcat) with (d := x :: t). apply product_nth; assumption.
Qed.

Lemma sapp_cancel_l : forall a b c : string, (a ++ b)%string = (a ++ c)%string -> b = c.
Proof. induction a as [|x a IH]; intros b c H; [exact H|]. cbn [append] in H. inversion H. now apply IH. Qed.
Lemma sapp_nil_r' : forall a : string, (a ++ "")%string = a.
Proof. induction a as [|x a IH]; [reflexivity|]. cbn [append]. now rewrite IH. Qed.
Lemma prefix_free_decodable : forall ps, prefix_free_but_last ps -> decodable ps.
Proof.
  induction ps as [|p ps IH]; intros Hpf t1 t2 H1 H2 E.
  - destruct H1 as [<-|[]], H2 as [<-|[]]. reflexivity.
  - apply in_product in H1, H2. inversion H1 as [|x1 ? r1 ? Hx1 Hr1]; subst. inversion H2 as [|x2 ? r2 ? Hx2 Hr2]; subst.
    cbn [sconcat fold_right] in E. fold (sconcat r1) in E. fold (sconcat r2) in E.
    destruct ps as [|q ps].
    + inversion Hr1; subst. inversion Hr2; subst. cbn in E. rewrite !sapp_nil_r' in E. now subst.
    + destruct Hpf as [Hp Hrest].
      assert (x1 = x2) by (eapply Hp; eassumption). subst x2. apply sapp_cancel_l in E.
      f_equal. apply (IH Hrest); [apply in_product, Hr1 | apply in_product, Hr2 | exact E].
Qed.

(* distinct names <-> distinct alternatives.  "->" always; "<-" exactly when joining is injective (decodable), e.g. when no
   alternative of any part but the last is a prefix of another one of that part; not in general (names_collision_ex) *)
Theorem names_distinct_alternatives : forall pat,
  NoDup (expand_names pat) -> Forall (@NoDup string) (name_parts pat).
Proof.
  intros pat H. unfold expand_names in H. apply NoDup_map_inv in H.
  exact (NoDup_product_inv _ (name_parts_nonempty pat) H).
Qed.
Theorem alternatives_distinct_names : forall pat, decodable (name_parts pat) ->
  (NoDup (expand_names pat) <-> Forall (@NoDup string) (name_parts pat)).
Proof.
  intros pat Hdec. split; [apply names_distinct_alternatives|].
  intro H. unfold expand_names. apply NoDup_map_inj; [exact Hdec | apply NoDup_product, H].
Qed.
Theorem alternatives_distinct_names_prefix_free : forall pat, prefix_free_but_last (name_parts pat) ->
  (NoDup (expand_names pat) <-> Forall (@NoDup string) (name_parts pat)).
Proof. intros pat H. apply alternatives_distinct_names, prefix_free_decodable, H. Qed.
(* tuples (before joining) are distinct iff the alternatives are, unconditionally *)
Theorem tuples_distinct_iff : forall pat,
  NoDup (product (name_parts pat)) <-> Forall (@NoDup string) (name_parts pat).
Proof. intro pat. split; [apply NoDup_product_inv, name_parts_nonempty | apply NoDup_product]. Qed.

Local Open Scope string_scope.
Example names_collision_ex :
  name_parts "{a,ab}{bc,c}" = [["a"; "ab"]; ["bc"; "c"]] /\ Forall (@NoDup string) (name_parts "{a,ab}{bc,c}") /\
  expand_names "{a,ab}{bc,c}" = ["abc"; "ac"; "abbc"; "abc"] /\ ~ NoDup (expand_names "{a,ab}{bc,c}").
Proof.
  split; [vm_compute; reflexivity|]. split.
  - vm_compute. repeat constructor; cbn; intuition discriminate.
  - split; [vm_compute; reflexivity|]. vm_compute. intro H.
    inversion H as [|? ? Hn _]; subst. apply Hn. right. right. left. reflexivity.
Qed.
Lemma names_collision_witness :
  Forall (@NoDup string) (name_parts "{a,ab}{bc,c}") /\ ~ NoDup (expand_names "{a,ab}{bc,c}").
Proof. exact (conj (proj1 (proj2 names_collision_ex)) (proj2 (proj2 (proj2 names_collision_ex)))). Qed.
(* a pattern of the SAED libraries (two brace groups, an empty alternative); the corner cases of the two regular expressions *)
Example expand_ex :
  expand_names "{,AO}DFFARX{1,2}_RVT" = ["DFFARX1_RVT"; "DFFARX2_RVT"; "AODFFARX1_RVT"; "AODFFARX2_RVT"] /\
  name_parts "{,AO}DFFARX{1,2}_RVT" = [[""; "AO"]; ["DFFARX"]; ["1"; "2"]; ["_RVT"]] /\
  name_parts "a{b{c}d" = [["a"]; ["b{c"]; ["d"]] /\ name_parts "{}A{1,2}" = [["}"]; ["1"; "2"]] /\ expand_names "{x" = [""] /\
  expand_names "A{1,,2}" = ["A1"; "A"; "A2"].
Proof. vm_compute. repeat split; reflexivity. Qed.
Example prefix_free_ex : prefix_free_but_last (name_parts "NBUFFX{2,4,8,16,32}") /\ NoDup (expand_names "NBUFFX{2,4,8,16,32}").
Proof.
  assert (H : prefix_free_but_last (name_parts "NBUFFX{2,4,8,16,32}")).
  { change (name_parts "NBUFFX{2,4,8,16,32}") with [["NBUFFX"]; ["2"; "4"; "8"; "16"; "32"]].
    split; [|exact I]. intros x y u v [<-|[]] [<-|[]] _. reflexivity. }
  split; [exact H|]. apply alternatives_distinct_names_prefix_free; [exact H|].
  change (name_parts "NBUFFX{2,4,8,16,32}") with [["NBUFFX"]; ["2"; "4"; "8"; "16"; "32"]].
  repeat constructor; cbn; intuition discriminate.
Qed.
Example split_cells_ex :
  split_cells ("
A{1,2} input(a) output(y) y=BUF1(a) ;
FILL ;  B  x=K() ;; C;
") = [("A{1,2}", " input(a) output(y) y=BUF1(a) "); ("FILL", " "); ("B", "  x=K() ;")].
Proof. vm_compute. reflexivity. Qed.

(** ** the translator's re-implementation agrees with the transcription on the actual library texts *)
Lemma text_GSC180_ok : tcells_of_text text_GSC180 = Some lib_GSC180.
Proof. vm_compute. reflexivity. Qed.
Lemma text_NANGATE_ok : tcells_of_text text_NANGATE = Some lib_NANGATE.
Proof. vm_compute. reflexivity. Qed.
Lemma text_NANGATE_ZN_ok : tcells_of_text text_NANGATE_ZN = Some lib_NANGATE_ZN.
Proof. vm_compute. reflexivity. Qed.
Lemma text_SAED32_ok : tcells_of_text text_SAED32 = Some lib_SAED32.
Proof. vm_compute. reflexivity. Qed.
Lemma text_SAED90_ok : tcells_of_text text_SAED90 = Some lib_SAED90.
Proof. vm_compute. reflexivity. Qed.

Theorem text_matches_translation :
  map fst all_texts = map fst all_libs /\
  forall lib text, In (lib, text) all_texts -> exists cells, In (lib, cells) all_libs /\ tcells_of_text text = Some cells.
Proof.
  split; [reflexivity|]. intros lib text H. unfold all_texts in H. cbn [In] in H.
  repeat (destruct H as [H|H]; [inversion H; subst; clear H|]); try contradiction.
  - exists lib_GSC180. split; [cbn; tauto | exact text_GSC180_ok].
  - exists lib_NANGATE. split; [cbn; tauto | exact text_NANGATE_ok].
  - exists lib_NANGATE_ZN. split; [cbn; tauto | exact text_NANGATE_ZN_ok].
  - exists lib_SAED32. split; [cbn; tauto | exact text_SAED32_ok].
  - exists lib_SAED90. split; [cbn; tauto | exact text_SAED90_ok].
Qed.
