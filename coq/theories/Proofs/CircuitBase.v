(** Basic facts about the list primitives of Model/Circuit.v (GrowingList, IndexList, dicts). *)
From Coq Require Import List Arith Bool String Lia.
From KV Require Import Model.Circuit Model.CircuitInv.
Import ListNotations.
Local Open Scope list_scope.

Ltac inv H := inversion H; subst; clear H.
Ltac dest_eqb :=
  repeat match goal with
         | |- context [Nat.eqb ?a ?b] => destruct (Nat.eqb_spec a b); subst
         | H : context [Nat.eqb ?a ?b] |- _ => destruct (Nat.eqb_spec a b); subst
         end.

(** ** GrowingList *)
Section GL.
Context {A : Type}.
Implicit Types l : list (option A).

Lemma nth_gset : forall l i v q, nth q (gset l i v) None = if Nat.eqb q i then v else nth q l None.
Proof.
  induction l as [|y r IH]; intros i v q.
  - revert q; induction i as [|i IHi]; intros q; simpl.
    + destruct q as [|[|q]]; reflexivity.
    + destruct q as [|q]; simpl; auto. rewrite IHi. destruct (Nat.eqb q i); auto; destruct q; auto.
  - destruct i as [|i]; destruct q as [|q]; simpl; auto.
Qed.

Lemma length_gset : forall l i v, List.length (gset l i v) = Nat.max (List.length l) (S i).
Proof.
  induction l as [|y r IH]; intros i v.
  - induction i as [|i IHi]; simpl; auto.
  - destruct i as [|i]; simpl. rewrite Nat.max_0_r; auto. rewrite IH. reflexivity.
Qed.

Lemma free_index_free : forall l, nth (free_index l) l None = None.
Proof. induction l as [|[y|] r IH]; simpl; auto. Qed.
Lemma free_index_le : forall l, free_index l <= List.length l.
Proof. induction l as [|[y|] r IH]; simpl; lia. Qed.
Lemma free_index_dense : forall l, (forall p, p < List.length l -> nth p l None <> None) -> free_index l = List.length l.
Proof.
  induction l as [|[y|] r IH]; simpl; intros H; auto.
  - f_equal. apply IH. intros p Hp. apply (H (S p)). lia.
  - exfalso. apply (H 0); auto. lia.
Qed.

Lemma nth_remove_nth : forall (l : list (option A)) p q,
  nth q (remove_nth p l) None = if Nat.ltb q p then nth q l None else nth (S q) l None.
Proof.
  induction l as [|y r IH]; intros p q; simpl.
  - destruct (Nat.ltb q p); destruct q; auto.
  - destruct p as [|p]; simpl.
    + destruct q; reflexivity.
    + destruct q as [|q]; simpl; auto. rewrite IH.
      change (Nat.ltb (S q) (S p)) with (Nat.ltb q p). reflexivity.
Qed.
Lemma length_remove_nth : forall (l : list (option A)) p, p < List.length l -> List.length (remove_nth p l) = List.length l - 1.
Proof.
  induction l as [|y r IH]; intros p Hp; simpl in *. lia.
  destruct p as [|p]; simpl. lia. rewrite IH by lia. lia.
Qed.
Lemma remove_nth_gset : forall l p v, p < List.length l -> remove_nth p (gset l p v) = remove_nth p l.
Proof.
  induction l as [|y r IH]; intros p v Hp; simpl in *. lia.
  destruct p as [|p]; simpl; auto. f_equal. apply IH. lia.
Qed.
Lemma nth_some_lt : forall l p (x : A), nth p l None = Some x -> p < List.length l.
Proof.
  intros l p x H. destruct (Nat.lt_ge_cases p (List.length l)); auto.
  rewrite nth_overflow in H by lia. discriminate.
Qed.
Lemma all_none_nth : forall l, all_none l = true <-> (forall p, nth p l None = None).
Proof.
  induction l as [|y r IH]; simpl; split; intros H.
  - intros p; destruct p; auto.
  - auto.
  - apply andb_true_iff in H. destruct H as [H1 H2]. intros p. destruct p; simpl.
    + destruct y; simpl in H1; congruence.
    + apply IH; auto.
  - apply andb_true_iff. split.
    + specialize (H 0). simpl in H. subst. reflexivity.
    + apply IH. intros p. apply (H (S p)).
Qed.
End GL.

(** ** set_nth / IndexList *)
Lemma nth_error_set_nth : forall {A} (l : list A) i v k, i < List.length l ->
  nth_error (set_nth i v l) k = if Nat.eqb k i then Some v else nth_error l k.
Proof.
  induction l as [|y r IH]; intros i v k Hi; simpl in *. lia.
  destruct i as [|i]; destruct k as [|k]; simpl; auto. apply IH. lia.
Qed.
Lemma length_set_nth : forall {A} (l : list A) i v, List.length (set_nth i v l) = List.length l.
Proof. induction l as [|y r IH]; intros i v; simpl; auto. destruct i; simpl; auto. Qed.

Lemma nth_error_In' : forall {A} (l : list A) x, In x l -> exists i, nth_error l i = Some x.
Proof. intros. apply In_nth_error; auto. Qed.

Lemma NoDup_nth_error_inj : forall {A} (l : list A) i j x, NoDup l -> nth_error l i = Some x -> nth_error l j = Some x -> i = j.
Proof.
  intros A l i j x Hnd Hi Hj.
  assert (i < List.length l) by (apply nth_error_Some; congruence).
  rewrite NoDup_nth_error in Hnd. apply Hnd; auto. congruence.
Qed.

Lemma idel_app : forall l0 z i, idel (l0 ++ [z]) i =
  if Nat.eqb i (List.length l0) then Some (l0, None)
  else if Nat.ltb i (List.length l0) then Some (set_nth i z l0, Some z) else None.
Proof.
  intros l0 z i. unfold idel.
  destruct (l0 ++ [z]) eqn:E. { destruct l0; discriminate. }
  rewrite <- E. rewrite app_length. simpl.
  replace (List.length l0 + 1 - 1) with (List.length l0) by lia.
  rewrite removelast_last, last_last. reflexivity.
Qed.

(* what IndexList.__delitem__ does to a duplicate-free list *)
Lemma idel_spec : forall (l : list nat) i x, NoDup l -> nth_error l i = Some x ->
  exists l' rep, idel l i = Some (l', rep) /\
    NoDup l' /\ List.length l' = List.length l - 1 /\
    (forall y, In y l' <-> (In y l /\ y <> x)) /\
    (forall k y, nth_error l' k = Some y ->
        (k <> i /\ nth_error l k = Some y /\ rep <> Some y) \/ (k = i /\ rep = Some y)) /\
    (forall y, rep = Some y -> nth_error l' i = Some y /\ In y l /\ y <> x).
Proof.
  intros l i x Hnd Hi.
  assert (Hlen : i < List.length l) by (apply nth_error_Some; congruence).
  destruct (exists_last (l := l)) as [l0 [z Hl]]. { intros ->. simpl in Hlen. lia. }
  subst l. rewrite idel_app. rewrite app_length in *. simpl in *.
  apply NoDup_remove in Hnd. rewrite app_nil_r in Hnd. destruct Hnd as [Hnd0 Hz].
  destruct (Nat.eqb_spec i (List.length l0)) as [->|Hne].
  - rewrite nth_error_app2 in Hi by lia. rewrite Nat.sub_diag in Hi. simpl in Hi. inv Hi.
    exists l0, None. split; [reflexivity|]. split; [auto|]. split; [lia|]. split; [|split].
    + intros y. split.
      * intros Hy. split. apply in_or_app; auto. intros ->. auto.
      * intros [Hy Hyx]. apply in_app_or in Hy. destruct Hy as [|[|[]]]; congruence.
    + intros k y Hk. left.
      assert (k < List.length l0) by (apply nth_error_Some; congruence).
      split; [lia|]. split. rewrite nth_error_app1 by lia. auto. discriminate.
    + discriminate.
  - assert (Hi0 : i < List.length l0) by lia.
    rewrite nth_error_app1 in Hi by lia.
    destruct (Nat.ltb_spec i (List.length l0)); [|lia].
    assert (Hxz : x <> z). { intros ->. apply Hz. eapply nth_error_In; eauto. }
    assert (Hsn : forall k, nth_error (set_nth i z l0) k = if Nat.eqb k i then Some z else nth_error l0 k)
      by (intros; apply nth_error_set_nth; auto).
    assert (Hin : forall y, In y (set_nth i z l0) <-> (In y (l0 ++ [z]) /\ y <> x)).
    { intros y. split.
      - intros Hy. apply In_nth_error in Hy. destruct Hy as [k Hk]. rewrite Hsn in Hk.
        destruct (Nat.eqb_spec k i).
        + inv Hk. split; auto. apply in_or_app; right; left; auto.
        + split. apply in_or_app; left; eapply nth_error_In; eauto.
          intros ->. apply n. eapply NoDup_nth_error_inj; eauto.
      - intros [Hy Hyx]. apply in_app_or in Hy. destruct Hy as [Hy|[<-|[]]].
        + apply In_nth_error in Hy. destruct Hy as [k Hk].
          assert (k <> i). { intros ->. congruence. }
          apply nth_error_In with (n := k). rewrite Hsn. destruct (Nat.eqb_spec k i); congruence.
        + apply nth_error_In with (n := i). rewrite Hsn. rewrite Nat.eqb_refl. auto. }
    exists (set_nth i z l0), (Some z). split; [reflexivity|]. split; [|split; [|split; [|split]]].
    + (* NoDup *)
      apply NoDup_nth_error. intros a b Ha Hab. rewrite length_set_nth in Ha.
      rewrite !Hsn in Hab.
      destruct (Nat.eqb_spec a i), (Nat.eqb_spec b i); subst; auto.
      * exfalso. apply Hz. eapply nth_error_In. symmetry; eauto.
      * exfalso. apply Hz. eapply nth_error_In. eauto.
      * rewrite NoDup_nth_error in Hnd0. apply Hnd0; auto.
    + rewrite length_set_nth. lia.
    + apply Hin.
    + intros k y Hk. rewrite Hsn in Hk. destruct (Nat.eqb_spec k i).
      * right. inv Hk. auto.
      * left. split; auto. split.
        assert (k < List.length l0) by (apply nth_error_Some; congruence).
        rewrite nth_error_app1 by lia. auto.
        intros Hc. inv Hc. apply Hz. eapply nth_error_In; eauto.
    + intros y Hy. inv Hy. split. rewrite Hsn, Nat.eqb_refl. auto.
      split; auto. apply in_or_app; right; left; auto.
Qed.

(** ** dicts *)
Lemma dget_none : forall d k, dget k d = None <-> ~ In k (map fst d).
Proof.
  induction d as [|[k' v] r IH]; intros k; simpl.
  - split; auto.
  - destruct (String.eqb_spec k k').
    + subst. split. discriminate. intros H. exfalso. apply H. auto.
    + rewrite IH. split. intros H [E|E]; auto. intros H E. apply H. auto.
Qed.
Lemma dget_in : forall d k v, NoDup (map fst d) -> (dget k d = Some v <-> In (k, v) d).
Proof.
  induction d as [|[k' v'] r IH]; intros k v Hnd; simpl.
  - split. discriminate. intros [].
  - inv Hnd. destruct (String.eqb_spec k k').
    + subst. split.
      * intros E. inv E. auto.
      * intros [E|E]. inv E. auto. exfalso. apply H1. apply in_map with (f := fst) in E. auto.
    + rewrite IH by auto. split. auto. intros [E|E]; auto. inv E. congruence.
Qed.
Lemma ddel_spec : forall d k v, NoDup (map fst d) -> In (k, v) d ->
  exists d', ddel k d = Some d' /\ NoDup (map fst d') /\
             (forall s n, In (s, n) d' <-> (In (s, n) d /\ s <> k)) /\ List.length d' = List.length d - 1.
Proof.
  induction d as [|[k' v'] r IH]; intros k v Hnd Hin; simpl in *. destruct Hin.
  inv Hnd. destruct (String.eqb_spec k k').
  - subst. exists r. split; [reflexivity|]. split; [auto|]. split; [|lia].
    intros s n. split.
    + intros H. split. right; auto.
      intros ->. apply H1. apply in_map with (f := fst) in H. auto.
    + intros [[E|E] Hs]; auto. inv E. congruence.
  - destruct Hin as [E|Hin]. inv E; congruence.
    destruct (IH k v H2 Hin) as [d' [Hd [Hnd' [Hi Hl]]]]. rewrite Hd. simpl.
    exists ((k', v') :: d'). split; [reflexivity|]. split; [|split].
    + simpl. constructor; auto. intros Hc. apply H1.
      apply in_map_iff in Hc. destruct Hc as [[s m] [Hs Hm]]. simpl in Hs. subst.
      apply Hi in Hm. destruct Hm as [Hm _]. apply in_map with (f := fst) in Hm. auto.
    + intros s m. split.
      * intros [E|E]. { inv E. split; auto. } apply Hi in E. destruct E as [E1 E2]. split; auto.
      * intros [[E|E] Hs]. inv E. left; auto. right. apply Hi. auto.
    + simpl. rewrite Hl. destruct r; simpl in *. destruct Hin. lia.
Qed.

Lemma mem_In : forall n l, mem n l = true <-> In n l.
Proof.
  intros n l. unfold mem. rewrite existsb_exists. split.
  - intros [x [Hx E]]. apply Nat.eqb_eq in E. subst. auto.
  - intros H. exists n. split; auto. apply Nat.eqb_refl.
Qed.
Lemma is_none_true : forall {A} (o : option A), is_none o = true <-> o = None.
Proof. destruct o; simpl; split; congruence. Qed.
Lemma NoDup_app_single : forall {A} (l : list A) x, NoDup l -> ~ In x l -> NoDup (l ++ [x]).
Proof.
  induction l as [|y r IH]; intros x Hnd Hx; simpl.
  - constructor; auto.
  - inv Hnd. constructor.
    + rewrite in_app_iff. simpl. intros [H|[H|[]]]; auto. subst. apply Hx. left; auto.
    + apply IH; auto. intros H. apply Hx. right; auto.
Qed.

Lemma In_remove_nth : forall {A} (l : list A) p e, In e (remove_nth p l) -> In e l.
Proof.
  induction l as [|y r IH]; intros p e H; simpl in *; auto.
  destruct p as [|p]; simpl in *; auto. destruct H as [H|H]; auto. right. eapply IH; eauto.
Qed.
Lemma NoDup_remove_nth : forall {A} (l : list A) p, NoDup l -> NoDup (remove_nth p l).
Proof.
  induction l as [|y r IH]; intros p H; simpl; auto.
  inv H. destruct p as [|p]; auto. constructor; auto. intros Hc. apply H2. eapply In_remove_nth; eauto.
Qed.
Lemma nth_In_opt : forall {A} (l : list (option A)) q x, nth q l None = Some x -> In (Some x) l.
Proof.
  intros A l q x H. rewrite <- H. apply nth_In. eapply nth_some_lt; eauto.
Qed.
Lemma In_nth_opt : forall {A} (l : list (option A)) e, In e l -> exists q, q < List.length l /\ nth q l None = e.
Proof. intros A l e H. apply In_nth; auto. Qed.
Lemma dict_functional : forall (d : list (string * nat)) k v1 v2,
  NoDup (map fst d) -> In (k, v1) d -> In (k, v2) d -> v1 = v2.
Proof.
  intros d k v1 v2 Hnd H1 H2. apply dget_in in H1; auto. apply dget_in in H2; auto. congruence.
Qed.
