(** The translated source of the DefTransformer callbacks pins_opt, pins_stmt, comp_stmt (Gen/DefCallbacksSrc.v, regenerated from
    /repo's def_file.py on every run) equals the hand transcription Model/DefElab.v (cb_pins_opt, cb_pins_stmt, cb_comp_stmt) on
    EVERY argument list of the model's domain:
      pins_opt   every [pinopt_arg] (keyword token + children as lark / the point callback hand them over)
      pins_stmt  every name and every list of (opt, val) pairs whose attribute names are none of "placed" / "name" / "points"
                 ([pinopt_ok]; every value cb_pins_opt returns satisfies it; the precondition is needed: [pins_stmt_precondition_needed])
      comp_stmt  every name / kind / point / orientation *)
From Coq Require Import List ZArith Bool String Ascii Arith Lia.
From KV Require Import Model.DefRoute Model.DefElab Model.DefRouteSrcLib Model.DefCallbacksSrcLib Gen.DefCallbacksSrc.
Import ListNotations.
Local Open Scope list_scope.
Local Open Scope string_scope.

Lemma pins_opt_source_is_model o :
  DefTransformer_pins_opt_src (enc_pinopt_arg o) = Some (enc_pinopt_val (cb_pins_opt o)).
Proof.
  destruct o; reflexivity.
Qed.

Lemma pinopt_ok_cb o : pinopt_ok (cb_pins_opt o) = true.
Proof. destruct o; reflexivity. Qed.

Definition enc_attrs (d : pdict pinval) : pyobj := map (fun kv => (fst kv, enc_pinval (snd kv))) d.

Lemma pd_set_enc_attrs k v d : pd_set k (enc_pinval v) (enc_attrs d) = enc_attrs (pd_set k v d).
Proof.
  induction d as [|[k' v'] r IH]; [reflexivity|].
  cbn [enc_attrs map pd_set fst snd]. destruct (String.eqb k k'); [reflexivity|].
  cbn [map fst snd]. f_equal. exact IH.
Qed.

Lemma enc_dpin_unfold p :
  enc_dpin p = ("name", PStr (dp_name p)) :: ("points", PList (map enc_pplace (dp_points p))) :: enc_attrs (dp_attrs p).
Proof. reflexivity. Qed.

Lemma pd_set_enc_dpin k v p :
  String.eqb k "name" = false -> String.eqb k "points" = false ->
  pd_set k (enc_pinval v) (enc_dpin p) = enc_dpin (mkDP (dp_name p) (dp_points p) (pd_set k v (dp_attrs p))).
Proof.
  intros Hn Hp. rewrite !enc_dpin_unfold. cbn [dp_name dp_points dp_attrs].
  cbn [pd_set]. rewrite Hn, Hp. rewrite pd_set_enc_attrs. reflexivity.
Qed.

Lemma pins_loop_is_fold opts : forall p,
  forallb pinopt_ok opts = true ->
  DefTransformer_pins_stmt_src_loop1 (map enc_pinopt_val opts) (enc_dpin p) = Some (enc_dpin (fold_left apply_pinopt opts p)).
Proof.
  induction opts as [|o r IH]; intros p Hok; [reflexivity|].
  cbn [forallb] in Hok. apply andb_true_iff in Hok. destruct Hok as [Ho Hr].
  cbn [map fold_left].
  destruct o as [v|k v].
  - cbn [enc_pinopt_val apply_pinopt].
    rewrite <- (IH (mkDP (dp_name p) (dp_points p ++ [v]) (dp_attrs p)) Hr).
    rewrite (enc_dpin_unfold (mkDP _ _ _)). cbn [dp_name dp_points dp_attrs]. rewrite map_app. reflexivity.
  - cbn [enc_pinopt_val apply_pinopt pinopt_ok] in *. cbn [DefTransformer_pins_stmt_src_loop1].
    apply andb_true_iff in Ho. destruct Ho as [Ho Hpt]. apply andb_true_iff in Ho. destruct Ho as [Hpl Hnm].
    apply negb_true_iff in Hpt, Hpl, Hnm.
    change (py_unpack2 (PTup [PStr k; enc_pinval v])) with (Some (PStr k, enc_pinval v)).
    cbv iota beta. change (py_eq (PStr k) (PStr "placed")) with (String.eqb k "placed"). rewrite Hpl.
    cbn [py_setattr existsb]. rewrite (pd_set_enc_dpin k v p Hnm Hpt). apply IH. exact Hr.
Qed.

Lemma fold_pinopt_name opts : forall p, dp_name (fold_left apply_pinopt opts p) = dp_name p.
Proof.
  induction opts as [|o r IH]; intros p; [reflexivity|].
  cbn [fold_left]. rewrite IH. destruct o; reflexivity.
Qed.

Lemma pins_stmt_source_is_model name opts :
  forallb pinopt_ok opts = true ->
  DefTransformer_pins_stmt_src (PList (PStr name :: map enc_pinopt_val opts)) = Some (PStr name, enc_dpin (cb_pins_stmt name opts)).
Proof.
  intros Hok. unfold DefTransformer_pins_stmt_src, cb_pins_stmt.
  change (py_index (PList (PStr name :: map enc_pinopt_val opts)) 0) with (Some (PStr name)).
  cbn [py_value].
  change (DefPin_new (PStr name)) with (enc_dpin (mkDP name [] [])).
  change (py_slice_from (PList (PStr name :: map enc_pinopt_val opts)) 1) with (Some (PList (map enc_pinopt_val opts))).
  cbn [py_seq].
  rewrite (pins_loop_is_fold opts _ Hok).
  rewrite enc_dpin_unfold.
  change (py_getattr (?a :: ?b) "name") with (Some (PStr (dp_name (fold_left apply_pinopt opts (mkDP name [] []))))).
  rewrite fold_pinopt_name. reflexivity.
Qed.

(* the precondition is needed: an attribute pair named 'placed' goes to pin.points in the source, to the attributes in the model *)
Lemma pins_stmt_precondition_needed :
  DefTransformer_pins_stmt_src (PList [PStr "p"; enc_pinopt_val (PAttr "placed" PVEmpty)]) <>
  Some (PStr "p", enc_dpin (cb_pins_stmt "p" [PAttr "placed" PVEmpty])).
Proof. vm_compute. discriminate. Qed.

Lemma comp_stmt_source_is_model name kind p orient :
  DefTransformer_comp_stmt_src (PList [PStr name; PStr kind; enc_rpoint p; PStr orient]) =
  Some (PStr (fst (cb_comp_stmt name kind p orient)), enc_dcomp (snd (cb_comp_stmt name kind p orient))).
Proof. reflexivity. Qed.

Lemma callbacks_source_is_model :
  (forall o, DefTransformer_pins_opt_src (enc_pinopt_arg o) = Some (enc_pinopt_val (cb_pins_opt o))) /\
  (forall o, pinopt_ok (cb_pins_opt o) = true) /\
  (forall name opts, forallb pinopt_ok opts = true ->
     DefTransformer_pins_stmt_src (PList (PStr name :: map enc_pinopt_val opts)) = Some (PStr name, enc_dpin (cb_pins_stmt name opts))) /\
  DefTransformer_pins_stmt_store = "pins" /\
  (forall name kind p orient,
     DefTransformer_comp_stmt_src (PList [PStr name; PStr kind; enc_rpoint p; PStr orient]) =
     Some (PStr (fst (cb_comp_stmt name kind p orient)), enc_dcomp (snd (cb_comp_stmt name kind p orient)))) /\
  DefTransformer_comp_stmt_store = "components".
Proof.
  split; [exact pins_opt_source_is_model|]. split; [exact pinopt_ok_cb|]. split; [exact pins_stmt_source_is_model|].
  split; [reflexivity|]. split; [exact comp_stmt_source_is_model|reflexivity].
Qed.

(* non-vacuity: - VDD + NET VDD + PLACED ( 0 100 ) N + PORT + PLACED ( 500 100 ) S ;   a pin with TWO placements *)
Definition ex_pin_args : list pinopt_arg :=
  [PANet "VDD"; PAPlaced (mkRP (Some 0%Z) (Some 100%Z) None) "N"; PAPort; PAPlaced (mkRP (Some 500%Z) (Some 100%Z) None) "S"].
Lemma ex_pin_two_placements :
  forallb pinopt_ok (map cb_pins_opt ex_pin_args) = true /\
  map DefTransformer_pins_opt_src (map enc_pinopt_arg ex_pin_args) =
    [Some (PTup [PStr "net"; PStr "VDD"]); Some (PTup [PStr "placed"; PTup [PInt 0; PInt 100; PStr "N"]]);
     Some (PTup [PStr "port"; PList []]); Some (PTup [PStr "placed"; PTup [PInt 500; PInt 100; PStr "S"]])] /\
  DefTransformer_pins_stmt_src (PList (PStr "VDD" :: map enc_pinopt_val (map cb_pins_opt ex_pin_args))) =
    Some (PStr "VDD", [("name", PStr "VDD");
                       ("points", PList [PTup [PInt 0; PInt 100; PStr "N"]; PTup [PInt 500; PInt 100; PStr "S"]]);
                       ("net", PStr "VDD"); ("port", PList [])]) /\
  dp_points (cb_pins_stmt "VDD" (map cb_pins_opt ex_pin_args)) = [(Some 0%Z, Some 100%Z, "N"); (Some 500%Z, Some 100%Z, "S")].
Proof. vm_compute. repeat split. Qed.
