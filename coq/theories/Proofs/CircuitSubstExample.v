(** C10, substitute: the hypotheses of C10_substitute_function are satisfiable on a non-trivial instance, and the witness for
    known finding D22 (the exception stated as hypothesis [d22_free_b]). *)
From Coq Require Import List Arith Bool String NArith Lia.
From KV Require Model.Prims Model.Netlist Model.SimOps Model.NetlistSem.
From KV Require Import Model.Circuit Model.CircuitInv Model.CircuitCorr Model.CircuitView Model.CircuitSem Model.CircuitSubstSem
     Proofs.CircuitBase Proofs.CircuitBool Proofs.CircuitSubstCheck.
Import ListNotations.
Local Open Scope string_scope.
Local Open Scope list_scope.

Definition s0_ : string := "u1".
Definition s1_ : string := "MYCELL".
Definition s2_ : string := "pi0".
Definition s3_ : string := "input".
Definition s4_ : string := "pi1".
Definition s5_ : string := "pi2".
Definition s6_ : string := "po0".
Definition s7_ : string := "output".
Definition s8_ : string := "po1".
Definition s9_ : string := "a".
Definition s10_ : string := "__fork__".
Definition s11_ : string := "b".
Definition s12_ : string := "c".
Definition s13_ : string := "y".
Definition s14_ : string := "z".
Definition s15_ : string := "t".
Definition s16_ : string := "OR2".
Definition s17_ : string := "AND2".
Definition s18_ : string := "XOR2".
Definition s19_ : string := "q".
Definition s20_ : string := "DFF".
Definition s21_ : string := "AND3".

(** host: pi0, pi1, pi2 -> u1 (MYCELL) -> po0, po1;
    implementation (bench, 1:1 forks eliminated): input(a,b,c) output(y,z) t=OR2(a,b) y=AND2(t,c) z=XOR2(t,a) q=DFF(y,c)
    -- inputs with fan-out, an output that is read inside, a state element, a fork without readers *)
Definition ex_host : circ := (circ_of_tables (NRC (NR s0_ s1_ 0 (OC (So 0) (OC (So 1) (OC (So 2) ON))) (OC (So 3) (OC (So 4) ON))) (NRC (NR s2_ s3_ 1 ON (OC (So 0) ON)) (NRC (NR s4_ s3_ 2 ON (OC (So 1) ON)) (NRC (NR s5_ s3_ 3 ON (OC (So 2) ON)) (NRC (NR s6_ s7_ 4 (OC (So 3) ON) ON) (NRC (NR s8_ s7_ 5 (OC (So 4) ON) ON) NRN)))))) (LRC (LR 0 (So 1) 0 (So 0) 0) (LRC (LR 1 (So 2) 0 (So 0) 1) (LRC (LR 2 (So 3) 0 (So 0) 2) (LRC (LR 3 (So 0) 0 (So 4) 0) (LRC (LR 4 (So 0) 1 (So 5) 0) LRN))))) (OC (So 1) (OC (So 2) (OC (So 3) (OC (So 4) (OC (So 5) ON)))))).
Definition ex_impl : circ := (circ_of_tables (NRC (NR s9_ s10_ 0 ON (OC (So 1) (OC (So 8) ON))) (NRC (NR s11_ s10_ 1 ON (OC (So 2) ON)) (NRC (NR s12_ s10_ 2 ON (OC (So 5) (OC (So 11) ON))) (NRC (NR s13_ s10_ 3 (OC (So 3) ON) (OC (So 10) ON)) (NRC (NR s14_ s10_ 4 (OC (So 6) ON) ON) (NRC (NR s15_ s16_ 5 (OC (So 1) (OC (So 2) ON)) (OC (So 0) ON)) (NRC (NR s15_ s10_ 6 (OC (So 0) ON) (OC (So 4) (OC (So 7) ON))) (NRC (NR s13_ s17_ 7 (OC (So 4) (OC (So 5) ON)) (OC (So 3) ON)) (NRC (NR s14_ s18_ 8 (OC (So 7) (OC (So 8) ON)) (OC (So 6) ON)) (NRC (NR s19_ s20_ 9 (OC (So 10) (OC (So 11) ON)) (OC (So 9) ON)) (NRC (NR s19_ s10_ 10 (OC (So 9) ON) ON) NRN))))))))))) (LRC (LR 0 (So 5) 0 (So 6) 0) (LRC (LR 1 (So 0) 0 (So 5) 0) (LRC (LR 2 (So 1) 0 (So 5) 1) (LRC (LR 3 (So 7) 0 (So 3) 0) (LRC (LR 4 (So 6) 0 (So 7) 0) (LRC (LR 5 (So 2) 0 (So 7) 1) (LRC (LR 6 (So 8) 0 (So 4) 0) (LRC (LR 7 (So 6) 1 (So 8) 0) (LRC (LR 8 (So 0) 1 (So 8) 1) (LRC (LR 9 (So 9) 0 (So 10) 0) (LRC (LR 10 (So 3) 0 (So 9) 0) (LRC (LR 11 (So 2) 1 (So 9) 1) LRN)))))))))))) (OC (So 0) (OC (So 1) (OC (So 2) (OC (So 3) (OC (So 4) ON)))))).

Definition ex_pre := substitute_pre ex_host 0 ex_impl.
Definition ex_c4 : circ := match ex_pre with Some (c4, _, _) => c4 | None => empty end.
Definition ex_m : list (nat * nat) := match ex_pre with Some (_, _, m) => m | None => [] end.

Lemma ex_pre_eq : substitute_pre ex_host 0 ex_impl = Some (ex_c4, [], ex_m).
Proof.
  unfold ex_c4, ex_m, ex_pre. destruct (substitute_pre ex_host 0 ex_impl) as [[[c4 dl] m]|] eqn:E.
  - assert (Hdl : dl = []). { assert (H : option_map (fun x => snd (fst x)) (substitute_pre ex_host 0 ex_impl) = Some []) by (vm_compute; reflexivity).
      rewrite E in H. simpl in H. congruence. }
    subst. reflexivity.
  - vm_compute in E. discriminate.
Qed.

Theorem substitute_example :
  CInv ex_host /\ IoLive ex_host /\ In 0 (nodes ex_host) /\ is_fork (kind_of ex_host 0) = false /\ io_mem ex_host 0 = false /\
  CInv ex_impl /\ IoLive ex_impl /\ subst_shape_b ex_impl = true /\
  substitute_pre ex_host 0 ex_impl = Some (ex_c4, [], ex_m) /\
  d22_free_b ex_host 0 ex_impl = true /\ all_outs_connected_b ex_host 0 ex_impl = true /\
  subst_glue_b ex_host 0 ex_impl ex_m ex_c4 = true /\
  List.length (nodes ex_host) = 6 /\ List.length (nodes ex_impl) = 11 /\ List.length (nodes ex_c4) = 14 /\
  List.length (lines ex_c4) = 15 /\ List.length ex_m = 9 /\
  s_names ex_c4 = ["pi0"; "pi1"; "pi2"; "po0"; "po1"; "u1~q"].
Proof.
  split. { apply cinv_b_sound. vm_compute. reflexivity. }
  split. { intros e He. assert (H : io_ok_b ex_host = true) by (vm_compute; reflexivity).
           unfold io_ok_b in H. rewrite forallb_forall in H. specialize (H e He). destruct e as [n|]; [|discriminate].
           exists n. split; auto. apply mem_In; auto. }
  split. { apply mem_In. vm_compute. reflexivity. }
  split. { vm_compute. reflexivity. }
  split. { vm_compute. reflexivity. }
  split. { apply cinv_b_sound. vm_compute. reflexivity. }
  split. { intros e He. assert (H : io_ok_b ex_impl = true) by (vm_compute; reflexivity).
           unfold io_ok_b in H. rewrite forallb_forall in H. specialize (H e He). destruct e as [n|]; [|discriminate].
           exists n. split; auto. apply mem_In; auto. }
  split. { vm_compute. reflexivity. }
  split. { exact ex_pre_eq. }
  repeat split; vm_compute; reflexivity.
Qed.

(** ** known finding D22 as a machine-checked witness: without [d22_free_b] the backward clause is false.
    host pi0, pi1 -> u1 -> po0, instance pin 2 unconnected; implementation input(a,b,c) output(z) z=AND3(a,b,c).
    The implementation reads the unconnected pin as 0 (z = 0); the substituted AND3 node has only pins 0 and 1 connected and is
    the gate AND2 for the simulators (arity = highest connected pin): for pi0 = pi1 = 1 the result computes po0 = 1. *)
Definition d22_host : circ := (circ_of_tables (NRC (NR s0_ s1_ 0 (OC (So 0) (OC (So 1) ON)) (OC (So 2) ON)) (NRC (NR s2_ s3_ 1 ON (OC (So 0) ON)) (NRC (NR s4_ s3_ 2 ON (OC (So 1) ON)) (NRC (NR s6_ s7_ 3 (OC (So 2) ON) ON) NRN)))) (LRC (LR 0 (So 1) 0 (So 0) 0) (LRC (LR 1 (So 2) 0 (So 0) 1) (LRC (LR 2 (So 0) 0 (So 3) 0) LRN))) (OC (So 1) (OC (So 2) (OC (So 3) ON)))).
Definition d22_impl : circ := (circ_of_tables (NRC (NR s9_ s10_ 0 ON (OC (So 1) ON)) (NRC (NR s11_ s10_ 1 ON (OC (So 2) ON)) (NRC (NR s12_ s10_ 2 ON (OC (So 3) ON)) (NRC (NR s14_ s10_ 3 (OC (So 0) ON) ON) (NRC (NR s14_ s21_ 4 (OC (So 1) (OC (So 2) (OC (So 3) ON))) (OC (So 0) ON)) NRN))))) (LRC (LR 0 (So 4) 0 (So 3) 0) (LRC (LR 1 (So 0) 0 (So 4) 0) (LRC (LR 2 (So 1) 0 (So 4) 1) (LRC (LR 3 (So 2) 0 (So 4) 2) LRN)))) (OC (So 0) (OC (So 1) (OC (So 2) (OC (So 3) ON))))).
Definition d22_pre := substitute_pre d22_host 0 d22_impl.
Definition d22_c4 : circ := match d22_pre with Some (c4, _, _) => c4 | None => empty end.
Definition d22_m : list (nat * nat) := match d22_pre with Some (_, _, m) => m | None => [] end.
Definition d22_stim : nat -> bool := fun _ => true.
Definition d22_v : nat -> bool := fun _ => true.

Lemma d22_pre_eq : substitute_pre d22_host 0 d22_impl = Some (d22_c4, [], d22_m).
Proof.
  unfold d22_c4, d22_m, d22_pre. destruct (substitute_pre d22_host 0 d22_impl) as [[[c4 dl] m]|] eqn:E.
  - assert (Hdl : dl = []). { assert (H : option_map (fun x => snd (fst x)) (substitute_pre d22_host 0 d22_impl) = Some []) by (vm_compute; reflexivity).
      rewrite E in H. simpl in H. congruence. }
    subst. reflexivity.
  - vm_compute in E. discriminate.
Qed.

Lemma d22_csol : csol NetlistSem.sem_lut false d22_c4 d22_stim d22_v.
Proof.
  intros n Hn. assert (Hm : mem n (nodes d22_c4) = true) by (apply mem_In; exact Hn).
  assert (Hnodes : nodes d22_c4 = [0; 1; 2; 3]) by (vm_compute; reflexivity).
  rewrite Hnodes in Hn. simpl in Hn.
  destruct Hn as [<-|[<-|[<-|[<-|[]]]]]; vm_compute; repeat split; intros; reflexivity.
Qed.

Lemma d22_not_inst_sol : ~ inst_sol NetlistSem.sem_lut false d22_host 0 d22_impl d22_m d22_stim d22_v.
Proof.
  intros [_ [w [Hw Ho]]].
  assert (H4 : In 4 (nodes d22_impl)) by (apply mem_In; vm_compute; reflexivity).
  assert (H0 : In 0 (nodes d22_impl)) by (apply mem_In; vm_compute; reflexivity).
  assert (H1 : In 1 (nodes d22_impl)) by (apply mem_In; vm_compute; reflexivity).
  assert (H2 : In 2 (nodes d22_impl)) by (apply mem_In; vm_compute; reflexivity).
  pose proof (Hw 4 H4) as G4. pose proof (Hw 2 H2) as G2.
  specialize (Ho 0 3 2 eq_refl eq_refl).
  vm_compute in G4. vm_compute in G2. vm_compute in Ho.
  specialize (G4 0 eq_refl). destruct G2 as [G2 _]. specialize (G2 3 eq_refl).
  rewrite G2 in G4. rewrite G4 in Ho.
  destruct (w 1), (w 2); discriminate.
Qed.

Theorem substitute_d22_refuted :
  CInv d22_host /\ IoLive d22_host /\ In 0 (nodes d22_host) /\ is_fork (kind_of d22_host 0) = false /\ io_mem d22_host 0 = false /\
  CInv d22_impl /\ IoLive d22_impl /\ subst_shape_b d22_impl = true /\
  substitute_pre d22_host 0 d22_impl = Some (d22_c4, [], d22_m) /\ substitute d22_host 0 d22_impl = Some d22_c4 /\
  all_outs_connected_b d22_host 0 d22_impl = true /\ subst_glue_b d22_host 0 d22_impl d22_m d22_c4 = true /\
  d22_free_b d22_host 0 d22_impl = false /\
  csol NetlistSem.sem_lut false d22_c4 d22_stim d22_v /\
  ~ inst_sol NetlistSem.sem_lut false d22_host 0 d22_impl d22_m d22_stim d22_v.
Proof.
  split. { apply cinv_b_sound. vm_compute. reflexivity. }
  split. { intros e He. assert (H : io_ok_b d22_host = true) by (vm_compute; reflexivity).
           unfold io_ok_b in H. rewrite forallb_forall in H. specialize (H e He). destruct e as [n|]; [|discriminate].
           exists n. split; auto. apply mem_In; auto. }
  split. { apply mem_In. vm_compute. reflexivity. }
  split. { vm_compute. reflexivity. }
  split. { vm_compute. reflexivity. }
  split. { apply cinv_b_sound. vm_compute. reflexivity. }
  split. { intros e He. assert (H : io_ok_b d22_impl = true) by (vm_compute; reflexivity).
           unfold io_ok_b in H. rewrite forallb_forall in H. specialize (H e He). destruct e as [n|]; [|discriminate].
           exists n. split; auto. apply mem_In; auto. }
  split. { vm_compute. reflexivity. }
  split. { exact d22_pre_eq. }
  split. { rewrite substitute_split, d22_pre_eq. reflexivity. }
  split. { vm_compute. reflexivity. }
  split. { vm_compute. reflexivity. }
  split. { vm_compute. reflexivity. }
  split. { exact d22_csol. }
  exact d22_not_inst_sol.
Qed.
