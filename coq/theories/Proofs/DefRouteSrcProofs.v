(** The translated source of DefWire.wire_points / DefWire.vias / DefNet.wires / DefNet.vias (Gen/DefRouteSrc.v, regenerated
    from /repo's def_file.py on every run) equals the hand model Model/DefRoute.v, on which the routing theorems of
    Proofs/DefRouteProofs.v are stated -- for EVERY routing statement of the model's domain, i.e. for every DefWire object
    whose [points] list is the encoding of a [wire] (first element a fully specified point, later elements points with
    optional '*' / extension value or vias with None / orientation / DO-BY-STEP parameter) and whose width is None or
    something int() reads as an integer.  No further precondition is needed: the translated code never raises there. *)
From Coq Require Import List ZArith Bool String Ascii Arith Lia.
From KV Require Import Model.DefRoute Model.DefElab Model.DefRouteSrcLib Gen.DefRouteSrc.
Import ListNotations.
Local Open Scope list_scope.
Local Open Scope Z_scope.

(* ------------------------------------------------------------------------------------------ *)
(** * vocabulary *)


Lemma py_index_tup0 a l : py_index (PTup (a :: l)) 0 = Some a.
Proof. reflexivity. Qed.
Lemma py_index_tup1 a b l : py_index (PTup (a :: b :: l)) 1 = Some b.
Proof. reflexivity. Qed.
Lemma py_index_list0 a l : py_index (PList (a :: l)) 0 = Some a.
Proof. reflexivity. Qed.

Lemma py_index_last l d : l <> [] -> py_index (PList l) (-1) = Some (last l d).
Proof.
  intros Hne. destruct (exists_last Hne) as [l' [a Hl]]. subst l.
  unfold py_index. cbn [py_seq]. rewrite app_length. cbn [List.length].
  replace (0 <=? -1) with false by reflexivity.
  assert (H : 0 <=? Z.of_nat (List.length l' + 1) + -1 = true) by (apply Z.leb_le; lia).
  rewrite H.
  replace (Z.to_nat (Z.of_nat (List.length l' + 1) + -1)) with (List.length l') by lia.
  rewrite nth_error_app2 by lia. rewrite Nat.sub_diag. cbn. now rewrite last_last.
Qed.

Lemma last_map_enc {A B} (f : A -> B) l d : last (map f l) (f d) = f (last l d).
Proof. induction l as [|a [|b r] IH]; try reflexivity. exact IH. Qed.

Lemma py_range_nat n : py_range (PInt (Z.of_nat n)) = Some (map (fun i => PInt (Z.of_nat i)) (seq 0 n)).
Proof. unfold py_range. now rewrite Nat2Z.id. Qed.

Lemma dd_append_extend {A} k (v : A) d : dd_append k v d = dd_extend k [v] d.
Proof. induction d as [|[k' l] r IH]; cbn; [reflexivity|]. destruct (String.eqb k k'); [reflexivity | now rewrite IH]. Qed.

Lemma pdd_upd_enc {A} (f : A -> pyv) k vs d : pdd_upd (PStr k) (map f vs) (enc_dd f d) = enc_dd f (dd_extend k vs d).
Proof.
  induction d as [|[k' l] r IH]; cbn [enc_dd map pdd_upd dd_extend fst snd]; [reflexivity|].
  cbn [pyv_eqb]. destruct (String.eqb k k').
  - cbn [enc_dd map fst snd]. now rewrite map_app.
  - cbn [enc_dd map fst snd]. f_equal. exact IH.
Qed.

Lemma py_dd_append_enc {A} (f : A -> pyv) k v d :
  py_dd_append (PStr k) (f v) (enc_dd f d) = Some (enc_dd f (dd_append k v d)).
Proof.
  unfold py_dd_append. cbn [py_hashable]. change [f v] with (map f [v]). now rewrite pdd_upd_enc, dd_append_extend.
Qed.

Lemma py_dd_extend_enc {A} (f : A -> pyv) k vs d :
  py_dd_extend (PStr k) (PList (map f vs)) (enc_dd f d) = Some (enc_dd f (dd_extend k vs d)).
Proof. unfold py_dd_extend. cbn [py_hashable py_seq]. now rewrite pdd_upd_enc. Qed.

Lemma enc_oz_not_str o : py_is_str (enc_oz o) = false.
Proof. now destruct o. Qed.

(* `prev[i] if p[i] is None else p[i]` *)
Definition pick (o : option Z) (d : Z) : pyv := PInt (or_else o d).

(* ------------------------------------------------------------------------------------------ *)
(** * DefWire.wire_points *)

Lemma wp_loop_eq : forall rest pts, pts <> [] ->
  DefWire_wire_points_src_loop1 (map enc_elem rest) (PList (map enc_pt pts)) =
  Some (PList (map enc_pt (fold_left wp_step rest pts))).
Proof.
  induction rest as [|e rest IH]; intros pts Hne; [reflexivity|].
  cbn [map fold_left DefWire_wire_points_src_loop1].
  destruct e as [x y ext | nm p]; cbn [enc_elem wp_step].
  - rewrite !py_index_tup0, !py_index_tup1, enc_oz_not_str.
    assert (Hne' : map enc_pt pts <> []) by (destruct pts; [congruence | discriminate]).
    rewrite (py_index_last _ (enc_pt (0, 0, None)) Hne'). rewrite last_map_enc.
    set (prev := last pts (0, 0, None)).
    unfold enc_pt at 1 2. rewrite !py_index_tup0, !py_index_tup1.
    assert (Hres : PTup (PInt (or_else x (px prev)) :: PInt (or_else y (py prev)) :: enc_ext ext) = enc_pt (resolve1 prev x y ext))
      by reflexivity.
    assert (Happ : forall v, py_append (PList (map enc_pt pts)) (enc_pt v) = Some (PList (map enc_pt (pts ++ [v]))))
      by (intros v; cbn [py_append]; now rewrite map_app).
    destruct x as [x|], y as [y|]; cbn [enc_oz py_is_none py_slice_from skipn py_tuple py_seq option_map py_add app or_else] in *;
      rewrite Hres, Happ; apply IH; now destruct pts.
  - rewrite py_index_tup0. cbn [py_is_str]. now apply IH.
Qed.

Theorem wire_points_src_eq (w : wire) (d : dwire_s) : s_points d = enc_points w ->
  DefWire_wire_points_src d = Some (PList (map enc_pt (wire_points w))).
Proof.
  intros Hp. unfold DefWire_wire_points_src. rewrite Hp. unfold enc_points.
  rewrite py_index_list0. cbn [py_slice_from skipn py_seq].
  change (PList [enc_pt (w_first w)]) with (PList (map enc_pt [w_first w])).
  rewrite wp_loop_eq by discriminate.
  unfold wire_points, wire_points_loop. set (pts := fold_left wp_step (w_rest w) [w_first w]).
  cbn [py_len py_gt]. rewrite map_length.
  destruct (1 <? Z.of_nat (List.length pts)) eqn:E1; destruct (1 <? List.length pts)%nat eqn:E2; try reflexivity.
  - apply Z.ltb_lt in E1. apply Nat.ltb_ge in E2. lia.
  - apply Z.ltb_ge in E1. apply Nat.ltb_lt in E2. lia.
Qed.

(* ------------------------------------------------------------------------------------------ *)
(** * DefWire.vias *)

Lemma vias_loop1_eq X Y tl nm dx dy i : forall js vv,
  DefWire_vias_src_loop1 (PTup (PInt X :: PInt Y :: tl)) (PStr nm) (PInt dx) (PInt dy) (PInt (Z.of_nat i))
    (map (fun j => PInt (Z.of_nat j)) js) (enc_dd enc_vplace vv) =
  Some (enc_dd enc_vplace (fold_left (fun d v => dd_append nm v d)
          (map (fun j => (X + Z.of_nat i * dx, Y + Z.of_nat j * dy, "N"%string)) js) vv)).
Proof.
  induction js as [|j js IH]; intros vv; [reflexivity|].
  cbn [map fold_left DefWire_vias_src_loop1]. rewrite py_index_tup0, py_index_tup1. cbn [py_mul py_add].
  change (PTup [PInt (X + Z.of_nat i * dx); PInt (Y + Z.of_nat j * dy); PStr "N"])
    with (enc_vplace (X + Z.of_nat i * dx, Y + Z.of_nat j * dy, "N"%string)).
  rewrite py_dd_append_enc. apply IH.
Qed.

Lemma vias_loop2_eq X Y tl nm m dx dy : forall is vv,
  DefWire_vias_src_loop2 (PTup (PInt X :: PInt Y :: tl)) (PStr nm) (PInt (Z.of_nat m)) (PInt dx) (PInt dy)
    (map (fun i => PInt (Z.of_nat i)) is) (enc_dd enc_vplace vv) =
  Some (enc_dd enc_vplace (fold_left (fun d v => dd_append nm v d)
          (flat_map (fun i => map (fun j => (X + Z.of_nat i * dx, Y + Z.of_nat j * dy, "N"%string)) (seq 0 m)) is) vv)).
Proof.
  induction is as [|i is IH]; intros vv; [reflexivity|].
  cbn [map flat_map DefWire_vias_src_loop2]. rewrite py_range_nat, vias_loop1_eq, fold_left_app. apply IH.
Qed.

Lemma vias_loop3_eq : forall rest X Y tl vv, exists tl',
  DefWire_vias_src_loop3 (map enc_elem rest) (enc_dd enc_vplace vv) (PTup (PInt X :: PInt Y :: tl)) =
  Some (enc_dd enc_vplace (snd (fold_left wv_step rest ((X, Y), vv))),
        PTup (PInt (fst (fst (fold_left wv_step rest ((X, Y), vv)))) :: PInt (snd (fst (fold_left wv_step rest ((X, Y), vv)))) :: tl')).
Proof.
  induction rest as [|e rest IH]; intros X Y tl vv; [exists tl; reflexivity|].
  cbn [map fold_left DefWire_vias_src_loop3].
  destruct e as [x y ext | nm p]; cbn [enc_elem wv_step fst snd].
  - rewrite !py_index_tup0, !py_index_tup1, enc_oz_not_str. cbn [negb].
    destruct (IH (or_else x X) (or_else y Y) [] vv) as [tl' Htl]. exists tl'. rewrite <- Htl.
    destruct x as [x|], y as [y|]; reflexivity.
  - rewrite py_index_tup0. cbn [py_is_str negb py_unpack2 py_seq].
    destruct p as [| o | n m dx dy]; cbn [enc_vparam py_is_tuple place fst snd fold_left].
    + rewrite py_index_tup0, py_index_tup1. cbn [py_or py_truthy].
      change (PTup [PInt X; PInt Y; PStr "N"]) with (enc_vplace (X, Y, "N"%string)).
      rewrite py_dd_append_enc. apply IH.
    + rewrite py_index_tup0, py_index_tup1. unfold py_or, py_truthy.
      replace (PTup [PInt X; PInt Y; if negb (o =? "")%string then PStr o else PStr "N"])
        with (enc_vplace (X, Y, if (o =? "")%string then "N"%string else o)) by (destruct (o =? "")%string; reflexivity).
      rewrite py_dd_append_enc. apply IH.
    + cbn [py_unpack4 py_seq]. rewrite py_range_nat, vias_loop2_eq. unfold expand_array. apply IH.
Qed.

Theorem wire_vias_src_eq (w : wire) (d : dwire_s) : s_points d = enc_points w ->
  DefWire_vias_src d = Some (enc_dd enc_vplace (wire_vias w)).
Proof.
  intros Hp. unfold DefWire_vias_src. rewrite Hp. unfold enc_points.
  rewrite py_index_list0. cbn [py_slice_from skipn py_seq].
  destruct (w_first w) as [[X Y] ext] eqn:Ef. unfold enc_pt. cbn [px py pext fst snd].
  destruct (vias_loop3_eq (w_rest w) X Y (enc_ext ext) []) as [tl' Htl].
  change (@nil (pyv * list pyv)) with (enc_dd enc_vplace []). rewrite Htl.
  unfold wire_vias. now rewrite Ef.
Qed.

(* ------------------------------------------------------------------------------------------ *)
(** * DefNet.wires *)

Lemma width_src (o : option Z) (v : pyv) : width_enc o v ->
  (if py_is_none v then Some PNone else match py_int_v v with None => None | Some t => Some t end) = Some (enc_oz o).
Proof.
  destruct o as [z|]; cbn [width_enc enc_oz]; intros H.
  - rewrite H. destruct v; try reflexivity. discriminate H.
  - now subst v.
Qed.

Lemma net_wires_loop_eq : forall ws ds d, Forall2 wire_enc ws ds ->
  DefNet_wires_src_loop1 ds (enc_dd enc_wseg d) = Some (enc_dd enc_wseg (fold_left nw_step ws d)).
Proof.
  intros ws ds d H. revert d. induction H as [|w s ws ds [Hl [Hw Hp]] _ IH]; intros d; [reflexivity|].
  cbn [fold_left DefNet_wires_src_loop1]. rewrite !(wire_points_src_eq w s Hp). cbn [py_len py_gt]. rewrite map_length.
  unfold nw_step at 2. destruct (wire_points w) as [|p ps] eqn:Ewp.
  - cbn [List.length]. replace (0 <? Z.of_nat 0) with false by reflexivity. apply IH.
  - replace (0 <? Z.of_nat (List.length (p :: ps))) with true by (symmetry; apply Z.ltb_lt; cbn [List.length]; lia).
    rewrite (width_src _ _ Hw), Hl.
    change (PTup [enc_oz (w_width w); PList (map enc_pt (p :: ps))]) with (enc_wseg (w_width w, p :: ps)).
    rewrite py_dd_append_enc. apply IH.
Qed.

Theorem net_wires_src_eq (ws : list wire) (n : dnet_s) : Forall2 wire_enc ws (s_routed n) ->
  DefNet_wires_src n = Some (enc_dd enc_wseg (net_wires ws)).
Proof.
  intros H. unfold DefNet_wires_src. change (@nil (pyv * list pyv)) with (enc_dd enc_wseg []).
  now rewrite (net_wires_loop_eq _ _ _ H).
Qed.

(* ------------------------------------------------------------------------------------------ *)
(** * DefNet.vias *)

Lemma net_vias_loop1_eq : forall (wv d : dd vplace),
  DefNet_vias_src_loop1 (py_dd_items (enc_dd enc_vplace wv)) (enc_dd enc_vplace d) =
  Some (enc_dd enc_vplace (fold_left (fun d' kv => dd_extend (fst kv) (snd kv) d') wv d)).
Proof.
  induction wv as [|[k l] wv IH]; intros d; [reflexivity|].
  cbn [enc_dd py_dd_items map fst snd fold_left DefNet_vias_src_loop1]. rewrite py_dd_extend_enc. apply IH.
Qed.

Lemma net_vias_loop2_eq : forall ws ds d, Forall2 wire_enc ws ds ->
  DefNet_vias_src_loop2 ds (enc_dd enc_vplace d) = Some (enc_dd enc_vplace (fold_left nv_step ws d)).
Proof.
  intros ws ds d H. revert d. induction H as [|w s ws ds [Hl [Hw Hp]] _ IH]; intros d; [reflexivity|].
  cbn [fold_left DefNet_vias_src_loop2]. rewrite (wire_vias_src_eq w s Hp), net_vias_loop1_eq. apply IH.
Qed.

Theorem net_vias_src_eq (ws : list wire) (n : dnet_s) : Forall2 wire_enc ws (s_routed n) ->
  DefNet_vias_src n = Some (enc_dd enc_vplace (net_vias ws)).
Proof.
  intros H. unfold DefNet_vias_src. change (@nil (pyv * list pyv)) with (enc_dd enc_vplace []).
  now rewrite (net_vias_loop2_eq _ _ _ H).
Qed.

(* ------------------------------------------------------------------------------------------ *)
(** * the four properties together; the objects the callbacks build *)

Lemma enc_wire_ok w : wire_enc w (enc_wire w).
Proof. unfold wire_enc, enc_wire. cbn [s_layer s_width s_points]. repeat split. destruct (w_width w); reflexivity. Qed.

Lemma enc_wires_ok ws : Forall2 wire_enc ws (map enc_wire ws).
Proof. induction ws; constructor; [apply enc_wire_ok | assumption]. Qed.

Theorem route_source_is_model :
  (forall w d, wire_enc w d ->
     DefWire_wire_points_src d = Some (PList (map enc_pt (wire_points w))) /\
     DefWire_vias_src d = Some (enc_dd enc_vplace (wire_vias w))) /\
  (forall ws n, Forall2 wire_enc ws (s_routed n) ->
     DefNet_wires_src n = Some (enc_dd enc_wseg (net_wires ws)) /\
     DefNet_vias_src n = Some (enc_dd enc_vplace (net_vias ws))).
Proof.
  split.
  - intros w d [_ [_ Hp]]. split; [now apply wire_points_src_eq | now apply wire_vias_src_eq].
  - intros ws n H. split; [now apply net_wires_src_eq | now apply net_vias_src_eq].
Qed.

Lemma enc_elem_dpoint p : enc_elem (elem_of_dpoint p) = enc_dpoint p.
Proof. now destruct p. Qed.

Lemma route_of_dwire_enc dw w : route_of_dwire dw = Some w -> wire_enc w (enc_dwire dw).
Proof.
  unfold route_of_dwire, enc_dwire. destruct dw as [layer width pts]. cbn [dw_points dw_width dw_layer].
  destruct pts as [|[[[x|] [y|] z] | nm v] rest]; try discriminate.
  assert (Hpts : forall wd, enc_points (mkWire layer wd (x, y, z) (map elem_of_dpoint rest)) =
                            PList (map enc_dpoint (DPt (mkRP (Some x) (Some y) z) :: rest))).
  { intros wd. unfold enc_points. cbn [w_first w_rest map enc_dpoint rp_x rp_y rp_z enc_oz]. rewrite map_map.
    f_equal. f_equal. apply map_ext. apply enc_elem_dpoint. }
  destruct width as [s|].
  - destruct (py_int s) as [wd|] eqn:Ei; [|discriminate]. intros H. injection H as <-.
    repeat split; cbn [s_layer s_width s_points w_layer w_width width_enc py_int_v]; [now rewrite Ei | symmetry; apply Hpts].
  - intros H. injection H as <-. repeat split. symmetry; apply Hpts.
Qed.

Lemma route_of_dwires_enc : forall dws ws, mapM route_of_dwire dws = Some ws -> Forall2 wire_enc ws (map enc_dwire dws).
Proof.
  induction dws as [|dw dws IH]; intros ws H; cbn [mapM] in H.
  - injection H as <-. constructor.
  - destruct (route_of_dwire dw) as [w|] eqn:E1; [|discriminate]. destruct (mapM route_of_dwire dws) as [ws'|]; [|discriminate].
    injection H as <-. constructor; [now apply route_of_dwire_enc | now apply IH].
Qed.

(** the listings of an extracted net (callbacks ; DefRoute, Model/DefElab.v) are what the translated properties return on the
    DefNet object the callbacks build *)
Theorem dnet_source_is_model (n : dnet) (ww : dd wseg) (vv : dd vplace) :
  (dnet_wires n = Some ww -> DefNet_wires_src (enc_dnet n) = Some (enc_dd enc_wseg ww)) /\
  (dnet_vias n = Some vv -> DefNet_vias_src (enc_dnet n) = Some (enc_dd enc_vplace vv)).
Proof.
  unfold dnet_wires, dnet_vias. destruct (mapM route_of_dwire (dnet_routed n)) as [ws|] eqn:E; cbn [option_map]; [|split; discriminate].
  pose proof (route_of_dwires_enc _ _ E) as HF.
  split; intros H; injection H as <-; [now apply net_wires_src_eq | now apply net_vias_src_eq].
Qed.

(* ------------------------------------------------------------------------------------------ *)
(** * non-vacuity: a special-net statement with wildcards, an extension value, a plain via, an oriented via and a via array
      ( 100 200 ) ( * 500 35 ) V12 ( 0 * ) V23 DO 2 BY 3 STEP 10 -20 ; width given as the token text "140" *)
Definition ex_wire : wire :=
  mkWire "M1" (Some 140) (100, 200, None)
    [EPt None (Some 500) (Some 35); EVia "V12" VNone; EPt (Some 0) None None; EVia "V23" (VArray 2 3 10 (-20)); EVia "V12" (VOrient "")].
Definition ex_dwire : dwire_s :=
  mkDWs (PStr "M1") (PStr "140")
    (PList [PTup [PInt 100; PInt 200]; PTup [PNone; PInt 500; PInt 35]; PTup [PStr "V12"; PNone]; PTup [PInt 0; PNone];
            PTup [PStr "V23"; PTup [PInt 2; PInt 3; PInt 10; PInt (-20)]]; PTup [PStr "V12"; PStr ""]]).

Lemma ex_wire_enc : wire_enc ex_wire ex_dwire.
Proof. repeat split. Qed.

Lemma ex_results :
  DefWire_wire_points_src ex_dwire = Some (PList [PTup [PInt 100; PInt 200]; PTup [PInt 100; PInt 500; PInt 35]; PTup [PInt 0; PInt 500]]) /\
  DefWire_vias_src ex_dwire =
    Some [(PStr "V12", [PTup [PInt 100; PInt 500; PStr "N"]; PTup [PInt 0; PInt 500; PStr "N"]]);
          (PStr "V23", [PTup [PInt 0; PInt 500; PStr "N"]; PTup [PInt 0; PInt 480; PStr "N"]; PTup [PInt 0; PInt 460; PStr "N"];
                        PTup [PInt 10; PInt 500; PStr "N"]; PTup [PInt 10; PInt 480; PStr "N"]; PTup [PInt 10; PInt 460; PStr "N"]])] /\
  DefNet_wires_src (mkDNs [ex_dwire; ex_dwire]) =
    Some [(PStr "M1", [PTup [PInt 140; PList [PTup [PInt 100; PInt 200]; PTup [PInt 100; PInt 500; PInt 35]; PTup [PInt 0; PInt 500]]];
                       PTup [PInt 140; PList [PTup [PInt 100; PInt 200]; PTup [PInt 100; PInt 500; PInt 35]; PTup [PInt 0; PInt 500]]]])].
Proof. repeat split. Qed.

Lemma ex_nonvacuous :
  wire_enc ex_wire ex_dwire /\
  DefWire_wire_points_src ex_dwire = Some (PList [PTup [PInt 100; PInt 200]; PTup [PInt 100; PInt 500; PInt 35]; PTup [PInt 0; PInt 500]]) /\
  DefWire_vias_src ex_dwire =
    Some [(PStr "V12", [PTup [PInt 100; PInt 500; PStr "N"]; PTup [PInt 0; PInt 500; PStr "N"]]);
          (PStr "V23", [PTup [PInt 0; PInt 500; PStr "N"]; PTup [PInt 0; PInt 480; PStr "N"]; PTup [PInt 0; PInt 460; PStr "N"];
                        PTup [PInt 10; PInt 500; PStr "N"]; PTup [PInt 10; PInt 480; PStr "N"]; PTup [PInt 10; PInt 460; PStr "N"]])].
Proof. split; [exact ex_wire_enc | split; apply ex_results]. Qed.
