(** C09: the primitive graph edits preserve the consistency invariant. *)
From Coq Require Import List Arith Bool String Lia.
From KV Require Import Model.Circuit Model.CircuitInv Proofs.CircuitBase.
Import ListNotations.
Local Open Scope list_scope.

Ltac unf := unfold NX, out_at, in_at, outs_of, ins_of, kind_of, name_of, upd_node, upd_line,
                   with_nst, with_lst, with_nodes, with_lines, with_io, with_cells, with_forks, fupd in *.

Ltac ceqb := repeat (rewrite ?Nat.eqb_refl; simpl;
                     match goal with |- context [Nat.eqb ?a ?b] => destruct (Nat.eqb_spec a b); subst; try congruence end);
             rewrite ?Nat.eqb_refl; simpl; auto; try congruence.

Lemma NX_mono : forall X c c' n, (forall m, In m (nodes c) -> In m (nodes c')) -> NX X c n -> NX X c' n.
Proof. unfold NX. intros. intuition. Qed.

(** ** the empty circuit *)
Lemma ccore_empty : CCoreX [] empty.
Proof.
  constructor; simpl; unfold NX; simpl; intros;
    try match goal with H : nth_error [] ?i = Some _ |- _ => destruct i; discriminate end;
    try tauto; try constructor; try tauto; intros [[] _].
Qed.
Lemma cinv_empty : CInv empty.
Proof. split. apply ccore_empty. intros n [[]|[]]. Qed.

(** ** Node.__init__ *)
Lemma nidx_nodup : forall X c, CCoreX X c -> NoDup (nodes c).
Proof.
  intros X c H. apply NoDup_nth_error. intros i j Hi Hij.
  destruct (nth_error (nodes c) i) as [n|] eqn:E. 2:{ apply nth_error_None in E. lia. }
  symmetry in Hij. destruct (cc_nidx X c H i n E) as [_ <-].
  destruct (cc_nidx X c H j n Hij) as [_ <-]. reflexivity.
Qed.
Lemma lidx_nodup : forall X c, CCoreX X c -> NoDup (lines c).
Proof.
  intros X c H. apply NoDup_nth_error. intros i j Hi Hij.
  destruct (nth_error (lines c) i) as [n|] eqn:E. 2:{ apply nth_error_None in E. lia. }
  symmetry in Hij. destruct (cc_lidx X c H i n E) as [_ <-].
  destruct (cc_lidx X c H j n Hij) as [_ <-]. reflexivity.
Qed.

Definition name_free (c : circ) (name kind : string) : Prop :=
  (if is_fork kind then dget name (forks c) else dget name (cells c)) = None.

Lemma add_node_some : forall c name kind, name_free c name kind -> exists c', add_node c name kind = Some (c', nnext c).
Proof.
  unfold name_free, add_node. intros c name kind H.
  destruct (is_fork kind); rewrite H; eexists; reflexivity.
Qed.

Lemma add_node_core : forall X c name kind c' id,
  CCoreX X c -> name_free c name kind -> add_node c name kind = Some (c', id) ->
  CCoreX X c' /\ id = nnext c /\ nodes c' = nodes c ++ [id] /\ lines c' = lines c /\ io c' = io c /\
  lst c' = lst c /\ lnext c' = lnext c /\ nnext c' = S (nnext c) /\
  (forall x, x <> id -> nst c' x = nst c x) /\
  nst c' id = mkN name kind (List.length (nodes c)) [] [] true.
Proof.
  intros X c name kind c' id HC Hfree Hadd.
  unfold add_node, name_free in *.
  assert (Hlen : List.length (nodes c ++ [nnext c]) - 1 = List.length (nodes c)).
  { rewrite app_length. simpl. lia. }
  assert (Hfresh : forall n, NX X c n -> n <> nnext c).
  { intros n Hn. apply (cc_nb X c HC) in Hn. lia. }
  destruct (is_fork kind) eqn:Hk; rewrite Hfree in Hadd; simpl in Hadd; inv Hadd; simpl.
  - (* fork *)
    rewrite Hlen.
    split; [|repeat split; auto; try (intros; unfold fupd; destruct (Nat.eqb_spec x (nnext c)); congruence);
              try (unfold fupd; rewrite Nat.eqb_refl; reflexivity)].
    constructor; simpl.
    + unf; simpl. intros n [Hn|Hn]. apply in_app_or in Hn. destruct Hn as [Hn|[<-|[]]]; [|lia].
      assert (n < nnext c) by (apply (cc_nb X c HC); left; auto). lia.
      assert (n < nnext c) by (apply (cc_nb X c HC); right; auto). lia.
    + apply (cc_lb X c HC).
    + intros i n Hi. unfold fupd.
      destruct (Nat.lt_ge_cases i (List.length (nodes c))).
      * rewrite nth_error_app1 in Hi by auto.
        destruct (Nat.eqb_spec n (nnext c)).
        { exfalso. apply (Hfresh n); auto. left. eapply nth_error_In; eauto. }
        apply (cc_nidx X c HC); auto.
      * rewrite nth_error_app2 in Hi by auto.
        destruct (i - List.length (nodes c)) eqn:E; simpl in Hi. 2:{ destruct n0; discriminate. }
        inv Hi. rewrite Nat.eqb_refl. simpl. split; auto. lia.
    + apply (cc_lidx X c HC).
    + intros x Hx. unfold fupd. destruct (Nat.eqb_spec x (nnext c)).
      { exfalso. apply (Hfresh x); auto. right; auto. }
      apply (cc_xdead X c HC); auto.
    + rewrite map_app. simpl. apply NoDup_app_single. apply (cc_forks_nd X c HC). apply dget_none; auto.
    + intros s n. unf; simpl. rewrite in_app_iff. simpl. rewrite in_app_iff. simpl.
      destruct (Nat.eqb_spec n (nnext c)).
      * subst. simpl. split.
        { intros [H|[E|[]]].
          - apply (cc_forks X c HC) in H. destruct H as [H _]. exfalso. apply (Hfresh (nnext c)); auto.
          - inv E. auto. }
        { intros [_ [_ <-]]. right; left; auto. }
      * rewrite (cc_forks X c HC). unf. split.
        { intros [[H1 H2]|[E|[]]]. split; auto. inv E. congruence. }
        { intros [[H1|[E|[]]] H2]. left; auto. congruence. }
    + apply (cc_cells_nd X c HC).
    + intros s n. unf; simpl. rewrite in_app_iff. simpl.
      destruct (Nat.eqb_spec n (nnext c)).
      * subst. simpl. rewrite Hk. split.
        { intros H. apply (cc_cells X c HC) in H. destruct H as [H _]. exfalso. apply (Hfresh (nnext c)); auto. }
        { intros [_ [H _]]. discriminate. }
      * rewrite (cc_cells X c HC). unf. split.
        { intros [H1 H2]. split; auto. }
        { intros [[H1|[E|[]]] H2]. split; auto. congruence. }
    + intros l Hl. destruct (cc_line X c HC l Hl) as [d [r [H1 [H2 [H3 [H4 [H5 H6]]]]]]].
      exists d, r. unf; simpl.
      destruct (Nat.eqb_spec d (nnext c)). { exfalso. apply (Hfresh d); auto. }
      destruct (Nat.eqb_spec r (nnext c)). { exfalso. apply (Hfresh r); auto. }
      repeat split; auto.
      destruct H3; [left; apply in_or_app|right]; auto.
      destruct H4; [left; apply in_or_app|right]; auto.
    + intros n p l Hn Ho. unf; simpl in *.
      destruct (Nat.eqb_spec n (nnext c)).
      * simpl in Ho. destruct p; discriminate.
      * apply (cc_outs X c HC n p l); auto. unf.
        destruct Hn as [Hn|Hn]; auto. apply in_app_or in Hn. destruct Hn as [|[|[]]]; auto. congruence.
    + intros n p l Hn Ho. unf; simpl in *.
      destruct (Nat.eqb_spec n (nnext c)).
      * simpl in Ho. destruct p; discriminate.
      * apply (cc_ins X c HC n p l); auto. unf.
        destruct Hn as [Hn|Hn]; auto. apply in_app_or in Hn. destruct Hn as [|[|[]]]; auto. congruence.
  - (* cell *)
    rewrite Hlen.
    split; [|repeat split; auto; try (intros; unfold fupd; destruct (Nat.eqb_spec x (nnext c)); congruence);
              try (unfold fupd; rewrite Nat.eqb_refl; reflexivity)].
    constructor; simpl.
    + unf; simpl. intros n [Hn|Hn]. apply in_app_or in Hn. destruct Hn as [Hn|[<-|[]]]; [|lia].
      assert (n < nnext c) by (apply (cc_nb X c HC); left; auto). lia.
      assert (n < nnext c) by (apply (cc_nb X c HC); right; auto). lia.
    + apply (cc_lb X c HC).
    + intros i n Hi. unfold fupd.
      destruct (Nat.lt_ge_cases i (List.length (nodes c))).
      * rewrite nth_error_app1 in Hi by auto.
        destruct (Nat.eqb_spec n (nnext c)).
        { exfalso. apply (Hfresh n); auto. left. eapply nth_error_In; eauto. }
        apply (cc_nidx X c HC); auto.
      * rewrite nth_error_app2 in Hi by auto.
        destruct (i - List.length (nodes c)) eqn:E; simpl in Hi. 2:{ destruct n0; discriminate. }
        inv Hi. rewrite Nat.eqb_refl. simpl. split; auto. lia.
    + apply (cc_lidx X c HC).
    + intros x Hx. unfold fupd. destruct (Nat.eqb_spec x (nnext c)).
      { exfalso. apply (Hfresh x); auto. right; auto. }
      apply (cc_xdead X c HC); auto.
    + apply (cc_forks_nd X c HC).
    + intros s n. unf; simpl. rewrite in_app_iff. simpl.
      destruct (Nat.eqb_spec n (nnext c)).
      * subst. simpl. rewrite Hk. split.
        { intros H. apply (cc_forks X c HC) in H. destruct H as [H _]. exfalso. apply (Hfresh (nnext c)); auto. }
        { intros [_ [H _]]. discriminate. }
      * rewrite (cc_forks X c HC). unf. split.
        { intros [H1 H2]. split; auto. }
        { intros [[H1|[E|[]]] H2]. split; auto. congruence. }
    + rewrite map_app. simpl. apply NoDup_app_single. apply (cc_cells_nd X c HC). apply dget_none; auto.
    + intros s n. unf; simpl. rewrite in_app_iff. simpl. rewrite in_app_iff. simpl.
      destruct (Nat.eqb_spec n (nnext c)).
      * subst. simpl. split.
        { intros [H|[E|[]]].
          - apply (cc_cells X c HC) in H. destruct H as [H _]. exfalso. apply (Hfresh (nnext c)); auto.
          - inv E. auto. }
        { intros [_ [_ <-]]. right; left; auto. }
      * rewrite (cc_cells X c HC). unf. split.
        { intros [[H1 H2]|[E|[]]]. split; auto. inv E. congruence. }
        { intros [[H1|[E|[]]] H2]. left; auto. congruence. }
    + intros l Hl. destruct (cc_line X c HC l Hl) as [d [r [H1 [H2 [H3 [H4 [H5 H6]]]]]]].
      exists d, r. unf; simpl.
      destruct (Nat.eqb_spec d (nnext c)). { exfalso. apply (Hfresh d); auto. }
      destruct (Nat.eqb_spec r (nnext c)). { exfalso. apply (Hfresh r); auto. }
      repeat split; auto.
      destruct H3; [left; apply in_or_app|right]; auto.
      destruct H4; [left; apply in_or_app|right]; auto.
    + intros n p l Hn Ho. unf; simpl in *.
      destruct (Nat.eqb_spec n (nnext c)).
      * simpl in Ho. destruct p; discriminate.
      * apply (cc_outs X c HC n p l); auto. unf.
        destruct Hn as [Hn|Hn]; auto. apply in_app_or in Hn. destruct Hn as [|[|[]]]; auto. congruence.
    + intros n p l Hn Ho. unf; simpl in *.
      destruct (Nat.eqb_spec n (nnext c)).
      * simpl in Ho. destruct p; discriminate.
      * apply (cc_ins X c HC n p l); auto. unf.
        destruct Hn as [Hn|Hn]; auto. apply in_app_or in Hn. destruct Hn as [|[|[]]]; auto. congruence.
Qed.

Lemma add_node_dense : forall X c name kind c' id,
  CCoreX X c -> ForkDenseX X c -> name_free c name kind -> add_node c name kind = Some (c', id) -> ForkDenseX X c'.
Proof.
  intros X c name kind c' id HC HD Hfree Hadd.
  destruct (add_node_core X c name kind c' id HC Hfree Hadd) as [HC' [-> [Hn [_ [_ [_ [_ [_ [Hst Hnew]]]]]]]]].
  intros n Hn' Hk p Hp. unf.
  destruct (Nat.eq_dec n (nnext c)) as [->|Hne].
  - rewrite Hnew in Hp. simpl in Hp. lia.
  - rewrite Hst in * by auto. apply (HD n); auto. unf.
    destruct Hn' as [Hn'|Hn']; auto. rewrite Hn in Hn'. apply in_app_or in Hn'. destruct Hn' as [|[|[]]]; auto. congruence.
Qed.

(** ** Line.__init__ : a generic "connect a new line" transition *)
Lemma add_line_generic : forall X c c' d r dpin rpin id,
  CCoreX X c -> NX X c d -> NX X c r -> out_at c d dpin = None -> in_at c r rpin = None -> id = lnext c ->
  nnext c' = nnext c -> lnext c' = S id -> nodes c' = nodes c -> lines c' = lines c ++ [id] ->
  forks c' = forks c -> cells c' = cells c ->
  (forall x, n_name (nst c' x) = n_name (nst c x)) -> (forall x, n_kind (nst c' x) = n_kind (nst c x)) ->
  (forall x, n_index (nst c' x) = n_index (nst c x)) -> (forall x, n_alive (nst c' x) = n_alive (nst c x)) ->
  (forall x, n_outs (nst c' x) = if Nat.eqb x d then gset (n_outs (nst c d)) dpin (Some id) else n_outs (nst c x)) ->
  (forall x, n_ins (nst c' x) = if Nat.eqb x r then gset (n_ins (nst c r)) rpin (Some id) else n_ins (nst c x)) ->
  (forall x, x <> id -> lst c' x = lst c x) ->
  lst c' id = mkL (List.length (lines c)) (Some d) dpin (Some r) rpin true ->
  CCoreX X c'.
Proof.
  intros X c c' d r dpin rpin id HC Hd Hr Hfd Hfr -> Hnn Hln Hnodes Hlines Hforks Hcells Hname Hkind Hidx Halive Houts Hins Hlst Hnew.
  assert (Hfresh : forall l, In l (lines c) -> l <> lnext c).
  { intros l Hl. apply (cc_lb X c HC) in Hl. lia. }
  assert (HNX : forall n, NX X c' n <-> NX X c n). { intros n. unfold NX. rewrite Hnodes. tauto. }
  assert (Hoa : forall n p, out_at c' n p = if Nat.eqb n d && Nat.eqb p dpin then Some (lnext c) else out_at c n p).
  { intros n p. unf. rewrite Houts. destruct (Nat.eqb_spec n d); simpl; auto. subst. rewrite nth_gset. reflexivity. }
  assert (Hia : forall n p, in_at c' n p = if Nat.eqb n r && Nat.eqb p rpin then Some (lnext c) else in_at c n p).
  { intros n p. unf. rewrite Hins. destruct (Nat.eqb_spec n r); simpl; auto. subst. rewrite nth_gset. reflexivity. }
  constructor.
  - intros n Hn. rewrite Hnn. apply (cc_nb X c HC). apply HNX; auto.
  - intros l Hl. rewrite Hln. rewrite Hlines in Hl. apply in_app_or in Hl. destruct Hl as [Hl|[<-|[]]]; [|lia].
    apply (cc_lb X c HC) in Hl. lia.
  - intros i n Hi. rewrite Halive, Hidx. rewrite Hnodes in Hi. apply (cc_nidx X c HC); auto.
  - intros i l Hi. rewrite Hlines in Hi.
    destruct (Nat.lt_ge_cases i (List.length (lines c))).
    + rewrite nth_error_app1 in Hi by auto. rewrite Hlst. apply (cc_lidx X c HC); auto.
      apply Hfresh. eapply nth_error_In; eauto.
    + rewrite nth_error_app2 in Hi by auto.
      destruct (i - List.length (lines c)) eqn:E; simpl in Hi. 2:{ destruct n; discriminate. }
      inv Hi. rewrite Hnew. simpl. split; auto. lia.
  - intros x Hx. rewrite Halive. apply (cc_xdead X c HC); auto.
  - rewrite Hforks. apply (cc_forks_nd X c HC).
  - intros s n. rewrite Hforks, Hnodes. unf. rewrite Hkind, Hname. apply (cc_forks X c HC).
  - rewrite Hcells. apply (cc_cells_nd X c HC).
  - intros s n. rewrite Hcells, Hnodes. unf. rewrite Hkind, Hname. apply (cc_cells X c HC).
  - intros l Hl. rewrite Hlines in Hl. apply in_app_or in Hl. destruct Hl as [Hl|[<-|[]]].
    + rewrite Hlst by (apply Hfresh; auto).
      destruct (cc_line X c HC l Hl) as [d0 [r0 [H1 [H2 [H3 [H4 [H5 H6]]]]]]].
      exists d0, r0. rewrite !HNX. repeat split; auto.
      * rewrite Hoa. destruct (Nat.eqb_spec d0 d); simpl; auto. destruct (Nat.eqb_spec (l_dpin (lst c l)) dpin); simpl; auto.
        subst. congruence.
      * rewrite Hia. destruct (Nat.eqb_spec r0 r); simpl; auto. destruct (Nat.eqb_spec (l_rpin (lst c l)) rpin); simpl; auto.
        subst. congruence.
    + rewrite Hnew. simpl. exists d, r. rewrite !HNX. repeat split; auto.
      * rewrite Hoa. rewrite !Nat.eqb_refl. reflexivity.
      * rewrite Hia. rewrite !Nat.eqb_refl. reflexivity.
  - intros n p l Hn Ho. rewrite Hoa in Ho. rewrite Hlines.
    destruct (Nat.eqb_spec n d); simpl in Ho; [destruct (Nat.eqb_spec p dpin); simpl in Ho|].
    + inv Ho. rewrite Hnew. simpl. split; auto. apply in_or_app; right; left; auto.
    + apply (cc_outs X c HC) in Ho; [|apply HNX; auto]. destruct Ho as [H1 H2].
      rewrite Hlst by (apply Hfresh; auto). split; auto. apply in_or_app; auto.
    + apply (cc_outs X c HC) in Ho; [|apply HNX; auto]. destruct Ho as [H1 H2].
      rewrite Hlst by (apply Hfresh; auto). split; auto. apply in_or_app; auto.
  - intros n p l Hn Ho. rewrite Hia in Ho. rewrite Hlines.
    destruct (Nat.eqb_spec n r); simpl in Ho; [destruct (Nat.eqb_spec p rpin); simpl in Ho|].
    + inv Ho. rewrite Hnew. simpl. split; auto. apply in_or_app; right; left; auto.
    + apply (cc_ins X c HC) in Ho; [|apply HNX; auto]. destruct Ho as [H1 H2].
      rewrite Hlst by (apply Hfresh; auto). split; auto. apply in_or_app; auto.
    + apply (cc_ins X c HC) in Ho; [|apply HNX; auto]. destruct Ho as [H1 H2].
      rewrite Hlst by (apply Hfresh; auto). split; auto. apply in_or_app; auto.
Qed.

Definition pin_of (l : list (option nat)) (p : option nat) : nat := match p with Some q => q | None => free_index l end.

Lemma add_line_facts : forall c d dp r rp,
  let c' := fst (add_line c d dp r rp) in
  let dpin := pin_of (outs_of c d) dp in let rpin := pin_of (ins_of c r) rp in
  snd (add_line c d dp r rp) = lnext c /\
  nnext c' = nnext c /\ lnext c' = S (lnext c) /\ nodes c' = nodes c /\ lines c' = lines c ++ [lnext c] /\
  forks c' = forks c /\ cells c' = cells c /\ io c' = io c /\
  (forall x, n_name (nst c' x) = n_name (nst c x)) /\ (forall x, n_kind (nst c' x) = n_kind (nst c x)) /\
  (forall x, n_index (nst c' x) = n_index (nst c x)) /\ (forall x, n_alive (nst c' x) = n_alive (nst c x)) /\
  (forall x, n_outs (nst c' x) = if Nat.eqb x d then gset (n_outs (nst c d)) dpin (Some (lnext c)) else n_outs (nst c x)) /\
  (forall x, n_ins (nst c' x) = if Nat.eqb x r then gset (n_ins (nst c r)) rpin (Some (lnext c)) else n_ins (nst c x)) /\
  (forall x, x <> lnext c -> lst c' x = lst c x) /\
  lst c' (lnext c) = mkL (List.length (lines c)) (Some d) dpin (Some r) rpin true.
Proof.
  intros c d dp r rp. unfold add_line, pin_of. simpl.
  assert (Hlen : List.length (lines c ++ [lnext c]) - 1 = List.length (lines c)).
  { rewrite app_length. simpl. lia. }
  rewrite Hlen.
  repeat split; auto.
  1-6: intros x; unf; simpl; ceqb.
  - intros x Hx; unfold fupd; ceqb.
  - unfold fupd; ceqb.
Qed.

Lemma add_line_core : forall X c d dp r rp,
  CCoreX X c -> NX X c d -> NX X c r ->
  (forall p, dp = Some p -> out_at c d p = None) -> (forall p, rp = Some p -> in_at c r p = None) ->
  CCoreX X (fst (add_line c d dp r rp)).
Proof.
  intros X c d dp r rp HC Hd Hr Hdp Hrp.
  pose proof (add_line_facts c d dp r rp) as F. cbv zeta in F.
  destruct F as [_ [F1 [F2 [F3 [F4 [F5 [F6 [_ [F7 [F8 [F9 [F10 [F11 [F12 [F13 F14]]]]]]]]]]]]]]].
  eapply (add_line_generic X c _ d r (pin_of (outs_of c d) dp) (pin_of (ins_of c r) rp) (lnext c)); eauto.
  - destruct dp; simpl; auto. apply free_index_free.
  - destruct rp; simpl; auto. apply free_index_free.
Qed.

Lemma add_line_dense : forall X c d dp r rp,
  ForkDenseX X c -> NX X c d ->
  (forall p, dp = Some p -> is_fork (kind_of c d) = true -> p = List.length (outs_of c d)) ->
  ForkDenseX X (fst (add_line c d dp r rp)).
Proof.
  intros X c d dp r rp HD Hd Hdp.
  pose proof (add_line_facts c d dp r rp) as F. cbv zeta in F.
  destruct F as [_ [F1 [F2 [F3 [F4 [F5 [F6 [_ [F7 [F8 [F9 [F10 [F11 [F12 [F13 F14]]]]]]]]]]]]]]].
  intros n Hn Hk p Hp. unf. rewrite F11 in *. rewrite F8 in Hk. rewrite F3 in Hn.
  destruct (Nat.eqb_spec n d).
  - subst n. rewrite nth_gset. rewrite length_gset in Hp.
    assert (Hpin : pin_of (n_outs (nst c d)) dp = List.length (n_outs (nst c d))).
    { destruct dp; simpl. apply Hdp; auto. apply free_index_dense. intros q Hq. apply (HD d); auto. }
    rewrite Hpin in *. destruct (Nat.eqb_spec p (List.length (n_outs (nst c d)))). discriminate.
    apply (HD d); auto. unf. lia.
  - apply (HD n); auto.
Qed.

(** ** Line.remove *)
Definition same_frame (c c' : circ) : Prop :=
  nst c' = nst c /\ nnext c' = nnext c /\ lnext c' = lnext c /\ nodes c' = nodes c /\ lines c' = lines c /\
  io c' = io c /\ forks c' = forks c /\ cells c' = cells c.

Lemma renumber_spec : forall o c i, (forall e, In e o -> e <> None) -> NoDup o ->
  exists c', renumber c o i = Some c' /\ same_frame c c' /\
    (forall x, l_index (lst c' x) = l_index (lst c x) /\ l_drv (lst c' x) = l_drv (lst c x) /\
               l_rdr (lst c' x) = l_rdr (lst c x) /\ l_rpin (lst c' x) = l_rpin (lst c x) /\
               l_alive (lst c' x) = l_alive (lst c x)) /\
    (forall x, ~ In (Some x) o -> l_dpin (lst c' x) = l_dpin (lst c x)) /\
    (forall q x, nth_error o q = Some (Some x) -> l_dpin (lst c' x) = i + q).
Proof.
  induction o as [|e o IH]; intros c i Hsome Hnd; simpl.
  - exists c. split; auto. split. { unfold same_frame; repeat split; auto. }
    split; auto. split; auto. intros q x Hq. destruct q; discriminate.
  - destruct e as [l2|]. 2:{ exfalso. apply (Hsome None); auto. left; auto. }
    inv Hnd.
    destruct (IH (upd_line c l2 (fun x => lset_dpin x i)) (S i)) as [c' [Hr [Hf [Hfld [Hnot Hpos]]]]]; auto.
    { intros e He. apply Hsome. right; auto. }
    exists c'. split; auto. split.
    { unfold same_frame in *. simpl in Hf. auto. }
    split; [|split].
    + intros x. destruct (Hfld x) as [A1 [A2 [A3 [A4 A5]]]]. rewrite A1, A2, A3, A4, A5.
      unf; simpl. destruct (Nat.eqb_spec x l2); subst; simpl; auto.
    + intros x Hx. rewrite Hnot. 2:{ intros Hc. apply Hx. right; auto. }
      unf; simpl. destruct (Nat.eqb_spec x l2); subst; simpl; auto. exfalso. apply Hx. left; auto.
    + intros q x Hq. destruct q as [|q]; simpl in Hq.
      * inv Hq. rewrite Hnot by auto. unf; simpl. rewrite Nat.eqb_refl. simpl. lia.
      * rewrite (Hpos q x Hq). lia.
Qed.

(* generic "disconnect and unlist a line" transition; [outs'] is the driver's new output list *)
Lemma remove_line_generic : forall X c c' l d r i lines' rep outs',
  CCoreX X c -> nth_error (lines c) i = Some l ->
  l_drv (lst c l) = Some d -> l_rdr (lst c l) = Some r ->
  idel (lines c) i = Some (lines', rep) -> lines c' = lines' ->
  nnext c' = nnext c -> lnext c' = lnext c -> nodes c' = nodes c -> forks c' = forks c -> cells c' = cells c ->
  (forall x, n_name (nst c' x) = n_name (nst c x)) -> (forall x, n_kind (nst c' x) = n_kind (nst c x)) ->
  (forall x, n_index (nst c' x) = n_index (nst c x)) -> (forall x, n_alive (nst c' x) = n_alive (nst c x)) ->
  (forall x, n_outs (nst c' x) = if Nat.eqb x d then outs' else n_outs (nst c x)) ->
  (forall x, n_ins (nst c' x) = if Nat.eqb x r then gset (n_ins (nst c r)) (l_rpin (lst c l)) None else n_ins (nst c x)) ->
  (forall x, x <> l -> l_drv (lst c' x) = l_drv (lst c x) /\ l_rdr (lst c' x) = l_rdr (lst c x) /\
                       l_rpin (lst c' x) = l_rpin (lst c x) /\ l_alive (lst c' x) = l_alive (lst c x) /\
                       l_index (lst c' x) = if oeq rep (Some x) then i else l_index (lst c x)) ->
  (forall q x, nth q outs' None = Some x -> x <> l /\ (exists q0, out_at c d q0 = Some x) /\ l_dpin (lst c' x) = q) ->
  (forall q0 x, out_at c d q0 = Some x -> x <> l -> exists q, nth q outs' None = Some x) ->
  (forall x, x <> l -> (forall q0, out_at c d q0 <> Some x) -> l_dpin (lst c' x) = l_dpin (lst c x)) ->
  CCoreX X c'.
Proof.
  intros X c c' l d r i lines' rep outs' HC Hi Hdrv Hrdr Hidel Hlines Hnn Hln Hnodes Hforks Hcells
         Hname Hkind Hidx Halive Houts Hins Hlst P1 P2 P3.
  pose proof (lidx_nodup X c HC) as Hnd.
  destruct (idel_spec (lines c) i l Hnd Hi) as [l2 [rep2 [E [Hnd' [Hlen' [Hin' [Hnth' Hrep']]]]]]].
  rewrite Hidel in E. inv E.
  assert (Hl : In l (lines c)) by (eapply nth_error_In; eauto).
  destruct (cc_line X c HC l Hl) as [d0 [r0 [H1 [H2 [Hdx [Hrx [Hout Hinn]]]]]]].
  rewrite Hdrv in H1. inv H1. rewrite Hrdr in H2. inv H2.
  assert (HNX : forall n, NX X c' n <-> NX X c n). { intros n. unfold NX. rewrite Hnodes. tauto. }
  assert (Hia : forall n p, in_at c' n p = if Nat.eqb n r0 && Nat.eqb p (l_rpin (lst c l)) then None else in_at c n p).
  { intros n p. unf. rewrite Hins. destruct (Nat.eqb_spec n r0); simpl; auto. subst. rewrite nth_gset. reflexivity. }
  assert (Hoa : forall n p, n <> d0 -> out_at c' n p = out_at c n p).
  { intros n p Hn. unf. rewrite Houts. destruct (Nat.eqb_spec n d0); congruence. }
  assert (Hoa' : forall p, out_at c' d0 p = nth p outs' None).
  { intros p. unf. rewrite Houts. rewrite Nat.eqb_refl. reflexivity. }
  constructor.
  - intros n Hn. rewrite Hnn. apply (cc_nb X c HC). apply HNX; auto.
  - intros x Hx. apply Hin' in Hx. rewrite Hln. apply (cc_lb X c HC). tauto.
  - intros k n Hk. rewrite Halive, Hidx. rewrite Hnodes in Hk. apply (cc_nidx X c HC); auto.
  - intros k x Hk. 
    assert (Hxl : x <> l). { apply nth_error_In in Hk. apply Hin' in Hk. tauto. }
    destruct (Hlst x Hxl) as [_ [_ [_ [A4 A5]]]]. rewrite A4, A5.
    destruct (Hnth' k x Hk) as [[Hki [Hkx Hrx']]|[Hki Hrx']].
    + destruct (cc_lidx X c HC k x Hkx) as [B1 B2]. split; auto.
      destruct rep2 as [y|]; simpl; auto. destruct (Nat.eqb_spec y x); auto. congruence.
    + subst. simpl. rewrite Nat.eqb_refl. split; auto.
      destruct (Hrep' x eq_refl) as [_ [Hx _]]. apply In_nth_error in Hx. destruct Hx as [j Hj].
      apply (cc_lidx X c HC j x Hj).
  - intros x Hx. rewrite Halive. apply (cc_xdead X c HC); auto.
  - rewrite Hforks. apply (cc_forks_nd X c HC).
  - intros s n. rewrite Hforks, Hnodes. unf. rewrite Hkind, Hname. apply (cc_forks X c HC).
  - rewrite Hcells. apply (cc_cells_nd X c HC).
  - intros s n. rewrite Hcells, Hnodes. unf. rewrite Hkind, Hname. apply (cc_cells X c HC).
  - intros x Hx. apply Hin' in Hx. destruct Hx as [Hx Hxl].
    destruct (Hlst x Hxl) as [A1 [A2 [A3 _]]]. rewrite A1, A2, A3.
    destruct (cc_line X c HC x Hx) as [d1 [r1 [H1 [H2 [H3 [H4 [H5 H6]]]]]]].
    exists d1, r1. rewrite !HNX. repeat split; auto.
    + destruct (Nat.eq_dec d1 d0) as [->|Hne].
      * destruct (P2 _ _ H5 Hxl) as [q Hq]. destruct (P1 _ _ Hq) as [_ [_ ->]]. rewrite Hoa'. auto.
      * rewrite Hoa by auto. rewrite P3; auto.
        intros q0 Hq0. apply (cc_outs X c HC) in Hq0; auto. destruct Hq0 as [_ [Hq0 _]]. congruence.
    + rewrite Hia. destruct (Nat.eqb_spec r1 r0); simpl; auto.
      destruct (Nat.eqb_spec (l_rpin (lst c x)) (l_rpin (lst c l))); simpl; auto.
      subst. rewrite e0 in H6. congruence.
  - intros n p x Hn Ho. apply HNX in Hn.
    destruct (Nat.eq_dec n d0) as [->|Hne].
    + rewrite Hoa' in Ho. destruct (P1 _ _ Ho) as [Hxl [[q0 Hq0] Hdp]].
      destruct (cc_outs X c HC _ _ _ Hn Hq0) as [B1 [B2 B3]].
      destruct (Hlst x Hxl) as [A1 _]. rewrite A1. split; auto. apply Hin'. auto.
    + rewrite Hoa in Ho by auto.
      destruct (cc_outs X c HC _ _ _ Hn Ho) as [B1 [B2 B3]].
      assert (Hxl : x <> l) by (intros ->; congruence).
      destruct (Hlst x Hxl) as [A1 _]. rewrite A1. split; [apply Hin'; auto|]. split; auto.
      rewrite P3; auto. intros q0 Hq0. apply (cc_outs X c HC) in Hq0; auto. destruct Hq0 as [_ [Hq0 _]]. congruence.
  - intros n p x Hn Ho. apply HNX in Hn. rewrite Hia in Ho.
    destruct (Nat.eqb_spec n r0); simpl in Ho; [destruct (Nat.eqb_spec p (l_rpin (lst c l))); simpl in Ho; [discriminate|]|].
    + subst. destruct (cc_ins X c HC _ _ _ Hn Ho) as [B1 [B2 B3]].
      assert (Hxl : x <> l) by (intros ->; congruence).
      destruct (Hlst x Hxl) as [_ [A2 [A3 _]]]. rewrite A2, A3. split; auto. apply Hin'. auto.
    + destruct (cc_ins X c HC _ _ _ Hn Ho) as [B1 [B2 B3]].
      assert (Hxl : x <> l) by (intros ->; congruence).
      destruct (Hlst x Hxl) as [_ [A2 [A3 _]]]. rewrite A2, A3. split; auto. apply Hin'. auto.
Qed.

Lemma del_line_at_spec : forall c i lines' rep, idel (lines c) i = Some (lines', rep) ->
  exists c', del_line_at c i = Some c' /\ lines c' = lines' /\ nst c' = nst c /\ nnext c' = nnext c /\
    lnext c' = lnext c /\ nodes c' = nodes c /\ io c' = io c /\ forks c' = forks c /\ cells c' = cells c /\
    (forall x, l_drv (lst c' x) = l_drv (lst c x) /\ l_dpin (lst c' x) = l_dpin (lst c x) /\
               l_rdr (lst c' x) = l_rdr (lst c x) /\ l_rpin (lst c' x) = l_rpin (lst c x) /\
               l_alive (lst c' x) = l_alive (lst c x) /\
               l_index (lst c' x) = if oeq rep (Some x) then i else l_index (lst c x)).
Proof.
  intros c i lines' rep H. unfold del_line_at. rewrite H.
  destruct rep as [y|]; eexists; (split; [reflexivity|]); simpl; repeat split; auto.
  all: unf; simpl; destruct (Nat.eqb_spec x y); subst; simpl; auto.
  - rewrite Nat.eqb_refl. auto.
  - destruct (Nat.eqb_spec y x); congruence.
Qed.

Lemma del_node_at_spec : forall c i nodes' rep, idel (nodes c) i = Some (nodes', rep) ->
  exists c', del_node_at c i = Some c' /\ nodes c' = nodes' /\ lst c' = lst c /\ nnext c' = nnext c /\
    lnext c' = lnext c /\ lines c' = lines c /\ io c' = io c /\ forks c' = forks c /\ cells c' = cells c /\
    (forall x, n_name (nst c' x) = n_name (nst c x) /\ n_kind (nst c' x) = n_kind (nst c x) /\
               n_ins (nst c' x) = n_ins (nst c x) /\ n_outs (nst c' x) = n_outs (nst c x) /\
               n_alive (nst c' x) = n_alive (nst c x) /\
               n_index (nst c' x) = if oeq rep (Some x) then i else n_index (nst c x)).
Proof.
  intros c i nodes' rep H. unfold del_node_at. rewrite H.
  destruct rep as [y|]; eexists; (split; [reflexivity|]); simpl; repeat split; auto.
  all: unf; simpl; destruct (Nat.eqb_spec x y); subst; simpl; auto.
  - rewrite Nat.eqb_refl. auto.
  - destruct (Nat.eqb_spec y x); congruence.
Qed.

Definition outs_after_remove (c : circ) (d : nat) (dpin : nat) : list (option nat) :=
  if is_fork (kind_of c d) then remove_nth dpin (outs_of c d) else gset (outs_of c d) dpin None.

Lemma outs_nodup : forall X c n, CCoreX X c -> NX X c n ->
  (forall p, p < List.length (outs_of c n) -> out_at c n p <> None) -> NoDup (outs_of c n).
Proof.
  intros X c n HC Hn Hd. apply NoDup_nth with (d := None). intros i j Hi Hj E.
  destruct (nth i (outs_of c n) None) as [x|] eqn:Ei. 2:{ exfalso. apply (Hd i); auto. }
  symmetry in E.
  destruct (cc_outs X c HC n i x Hn Ei) as [_ [_ A]].
  destruct (cc_outs X c HC n j x Hn E) as [_ [_ B]]. congruence.
Qed.

Lemma line_remove_core : forall X c l, CCoreX X c -> In l (lines c) ->
  (forall d, l_drv (lst c l) = Some d -> is_fork (kind_of c d) = true ->
             forall p, p < List.length (outs_of c d) -> out_at c d p <> None) ->
  exists c' d r, line_remove c l = Some c' /\ l_drv (lst c l) = Some d /\ l_rdr (lst c l) = Some r /\ CCoreX X c' /\
    nnext c' = nnext c /\ lnext c' = lnext c /\ nodes c' = nodes c /\ forks c' = forks c /\ cells c' = cells c /\ io c' = io c /\
    (forall y, In y (lines c') <-> In y (lines c) /\ y <> l) /\
    (forall x, n_name (nst c' x) = n_name (nst c x) /\ n_kind (nst c' x) = n_kind (nst c x) /\
               n_index (nst c' x) = n_index (nst c x) /\ n_alive (nst c' x) = n_alive (nst c x)) /\
    (forall x, n_outs (nst c' x) = if Nat.eqb x d then outs_after_remove c d (l_dpin (lst c l)) else n_outs (nst c x)) /\
    (forall x, n_ins (nst c' x) = if Nat.eqb x r then gset (ins_of c r) (l_rpin (lst c l)) None else n_ins (nst c x)) /\
    (forall x, x <> l -> l_drv (lst c' x) = l_drv (lst c x) /\ l_rdr (lst c' x) = l_rdr (lst c x) /\
                         l_rpin (lst c' x) = l_rpin (lst c x)) /\
    l_alive (lst c' l) = false.
Proof.
  intros X c l HC Hl Hdense.
  pose proof (lidx_nodup X c HC) as Hnd.
  destruct (In_nth_error _ _ Hl) as [i Hi].
  destruct (cc_lidx X c HC i l Hi) as [Halive Hidx].
  destruct (cc_line X c HC l Hl) as [d [r [Hd [Hr [Hdx [Hrx [Hout Hin]]]]]]].
  destruct (idel_spec (lines c) i l Hnd Hi) as [lines' [rep [Hidel [Hnd' [Hlen' [Hin' [Hnth' Hrep']]]]]]].
  assert (Hdp : l_dpin (lst c l) < List.length (outs_of c d)) by (eapply nth_some_lt; eauto).
  unfold line_remove. rewrite Hd, Hr, Halive, Hidx.
  set (dpin := l_dpin (lst c l)) in *. set (rpin := l_rpin (lst c l)) in *.
  set (c1 := upd_node c d (fun x => nset_outs x (gset (n_outs x) dpin None))).
  assert (Hk1 : kind_of c1 d = kind_of c d). { unfold c1. unf; simpl. rewrite Nat.eqb_refl. reflexivity. }
  assert (Ho1 : outs_of c1 d = gset (outs_of c d) dpin None). { unfold c1. unf; simpl. rewrite Nat.eqb_refl. reflexivity. }
  rewrite Hk1.
  (* the driver part yields c2 *)
  assert (Hs1 : exists c2,
     (if is_fork (kind_of c d)
      then renumber (upd_node c1 d (fun x => nset_outs x (remove_nth dpin (outs_of c1 d)))) (remove_nth dpin (outs_of c1 d)) 0
      else Some c1) = Some c2 /\
     nnext c2 = nnext c /\ lnext c2 = lnext c /\ nodes c2 = nodes c /\ lines c2 = lines c /\ io c2 = io c /\
     forks c2 = forks c /\ cells c2 = cells c /\
     (forall x, n_name (nst c2 x) = n_name (nst c x) /\ n_kind (nst c2 x) = n_kind (nst c x) /\
                n_index (nst c2 x) = n_index (nst c x) /\ n_alive (nst c2 x) = n_alive (nst c x) /\
                n_ins (nst c2 x) = n_ins (nst c x)) /\
     (forall x, n_outs (nst c2 x) = if Nat.eqb x d then outs_after_remove c d dpin else n_outs (nst c x)) /\
     (forall x, l_index (lst c2 x) = l_index (lst c x) /\ l_drv (lst c2 x) = l_drv (lst c x) /\
                l_rdr (lst c2 x) = l_rdr (lst c x) /\ l_rpin (lst c2 x) = l_rpin (lst c x) /\
                l_alive (lst c2 x) = l_alive (lst c x)) /\
     (forall q x, nth q (outs_after_remove c d dpin) None = Some x -> l_dpin (lst c2 x) = q) /\
     (forall x, (forall q0, out_at c d q0 <> Some x) -> l_dpin (lst c2 x) = l_dpin (lst c x))).
  { unfold outs_after_remove. destruct (is_fork (kind_of c d)) eqn:Hfk.
    - rewrite Ho1. rewrite remove_nth_gset by auto.
      set (o := remove_nth dpin (outs_of c d)).
      pose proof (outs_nodup X c d HC Hdx (Hdense d Hd Hfk)) as Hnd_o.
      destruct (renumber_spec o (upd_node c1 d (fun x => nset_outs x o)) 0) as [c2 [Hren [Hframe [Hfld [Hnot Hpos]]]]].
      { intros e He. apply In_remove_nth in He. apply In_nth_opt in He. destruct He as [q [Hq <-]].
        apply (Hdense d Hd Hfk); auto. }
      { apply NoDup_remove_nth; auto. }
      destruct Hframe as [G1 [G2 [G3 [G4 [G5 [G6 [G7 G8]]]]]]].
      exists c2. split; auto. rewrite G2, G3, G4, G5, G6, G7, G8. simpl.
      repeat split; auto; try solve [intros; rewrite G1; unfold c1; unf; simpl; ceqb]; try solve [intros; apply Hfld].
      + intros q x Hq. rewrite (Hpos q x). lia.
        rewrite (nth_error_nth' o None (nth_some_lt o q x Hq)). rewrite Hq. reflexivity.
      + intros x Hx. rewrite Hnot. reflexivity.
        intros Hc. apply In_remove_nth in Hc. apply In_nth_opt in Hc. destruct Hc as [q0 [_ Hq0]]. apply (Hx q0). auto.
    - exists c1. split; auto. unfold c1. simpl.
      repeat split; auto; try solve [intros; unf; simpl; ceqb].
      intros q x Hq. unf. rewrite nth_gset in Hq. destruct (Nat.eqb_spec q dpin). discriminate.
      destruct (cc_outs X c HC d q x Hdx Hq) as [_ [_ A]]. auto. }
  destruct Hs1 as [c2 [Hs1 [E1 [E2 [E3 [E4 [E5 [E6 [E7 [Enf [Eouts [Elf [Epos Enot]]]]]]]]]]]]].
  rewrite Hs1.
  set (c3 := upd_node c2 r (fun x => nset_ins x (gset (n_ins x) rpin None))).
  assert (Hl3 : lines c3 = lines c) by (unfold c3; simpl; auto).
  destruct (del_line_at_spec c3 i lines' rep) as [c4 [Hdel [D1 [D2 [D3 [D4 [D5 [D6 [D7 [D8 Dl]]]]]]]]]].
  { rewrite Hl3. auto. }
  rewrite Hdel.
  eexists. exists d, r. split; [reflexivity|]. split; auto. split; auto.
  set (c5 := upd_line c4 l _).
  assert (Hnst5 : nst c5 = nst c3) by (unfold c5; simpl; auto).
  assert (Hnf : forall x, n_name (nst c5 x) = n_name (nst c x) /\ n_kind (nst c5 x) = n_kind (nst c x) /\
                          n_index (nst c5 x) = n_index (nst c x) /\ n_alive (nst c5 x) = n_alive (nst c x)).
  { intros x. rewrite Hnst5. destruct (Enf x) as [A1 [A2 [A3 [A4 A5]]]]. unfold c3. unf; simpl.
    destruct (Nat.eqb_spec x r); subst; simpl; auto. }
  assert (Houts5 : forall x, n_outs (nst c5 x) = if Nat.eqb x d then outs_after_remove c d dpin else n_outs (nst c x)).
  { intros x. rewrite Hnst5. rewrite <- Eouts. unfold c3. unf; simpl. destruct (Nat.eqb_spec x r); subst; simpl; auto. }
  assert (Hins5 : forall x, n_ins (nst c5 x) = if Nat.eqb x r then gset (ins_of c r) rpin None else n_ins (nst c x)).
  { intros x. rewrite Hnst5. unfold c3. unf; simpl. destruct (Enf r) as [_ [_ [_ [_ A5]]]].
    destruct (Nat.eqb_spec x r); subst; simpl; auto. rewrite A5. auto. destruct (Enf x) as [_ [_ [_ [_ A6]]]]. auto. }
  assert (Hlst5 : forall x, x <> l -> l_drv (lst c5 x) = l_drv (lst c x) /\ l_rdr (lst c5 x) = l_rdr (lst c x) /\
                       l_rpin (lst c5 x) = l_rpin (lst c x) /\ l_alive (lst c5 x) = l_alive (lst c x) /\
                       l_index (lst c5 x) = (if oeq rep (Some x) then i else l_index (lst c x)) /\
                       l_dpin (lst c5 x) = l_dpin (lst c2 x)).
  { intros x Hx. unfold c5. unf; simpl. destruct (Nat.eqb_spec x l); [congruence|].
    destruct (Dl x) as [B1 [B2 [B3 [B4 [B5 B6]]]]]. destruct (Elf x) as [C1 [C2 [C3 [C4 C5]]]].
    rewrite B1, B2, B3, B4, B5, B6. unfold c3. simpl. rewrite C1, C2, C3, C4, C5. repeat split; auto. }
  assert (Hnn5 : nnext c5 = nnext c) by (unfold c5; simpl; rewrite D3; unfold c3; simpl; auto).
  assert (Hln5 : lnext c5 = lnext c) by (unfold c5; simpl; rewrite D4; unfold c3; simpl; auto).
  assert (Hnodes5 : nodes c5 = nodes c) by (unfold c5; simpl; rewrite D5; unfold c3; simpl; auto).
  assert (Hforks5 : forks c5 = forks c) by (unfold c5; simpl; rewrite D7; unfold c3; simpl; auto).
  assert (Hcells5 : cells c5 = cells c) by (unfold c5; simpl; rewrite D8; unfold c3; simpl; auto).
  assert (Hio5 : io c5 = io c) by (unfold c5; simpl; rewrite D6; unfold c3; simpl; auto).
  assert (Hlines5 : lines c5 = lines') by (unfold c5; simpl; auto).
  assert (P1 : forall q x, nth q (outs_after_remove c d dpin) None = Some x ->
               x <> l /\ (exists q0, out_at c d q0 = Some x) /\ l_dpin (lst c5 x) = q).
  { intros q x Hq.
    assert (Hxl : x <> l /\ exists q0, out_at c d q0 = Some x).
    { unfold outs_after_remove in Hq. destruct (is_fork (kind_of c d)) eqn:Hfk.
      - rewrite nth_remove_nth in Hq. destruct (Nat.ltb_spec q dpin).
        + split; [|exists q; auto]. intros ->. destruct (cc_outs X c HC d q l Hdx Hq) as [_ [_ A]]. unfold dpin in *. lia.
        + split; [|exists (S q); auto]. intros ->. destruct (cc_outs X c HC d (S q) l Hdx Hq) as [_ [_ A]]. unfold dpin in *. lia.
      - rewrite nth_gset in Hq. destruct (Nat.eqb_spec q dpin). discriminate.
        split; [|exists q; auto]. intros ->. destruct (cc_outs X c HC d q l Hdx Hq) as [_ [_ A]]. unfold dpin in *. lia. }
    destruct Hxl as [Hxl Hex]. split; auto. split; auto.
    destruct (Hlst5 x Hxl) as [_ [_ [_ [_ [_ A6]]]]]. rewrite A6. apply Epos; auto. }
  assert (P2 : forall q0 x, out_at c d q0 = Some x -> x <> l -> exists q, nth q (outs_after_remove c d dpin) None = Some x).
  { intros q0 x Hq0 Hxl. unfold outs_after_remove. destruct (is_fork (kind_of c d)) eqn:Hfk.
    + destruct (cc_outs X c HC d q0 x Hdx Hq0) as [_ [_ A]].
      assert (q0 <> dpin). { intros ->. unfold out_at in *. congruence. }
      destruct (Nat.ltb_spec q0 dpin).
      * exists q0. rewrite nth_remove_nth. destruct (Nat.ltb_spec q0 dpin); [auto|lia].
      * exists (q0 - 1). rewrite nth_remove_nth. destruct (Nat.ltb_spec (q0 - 1) dpin); [lia|].
        replace (S (q0 - 1)) with q0 by lia. auto.
    + exists q0. rewrite nth_gset. destruct (Nat.eqb_spec q0 dpin); auto. subst. unfold out_at in *. congruence. }
  assert (P3 : forall x, x <> l -> (forall q0, out_at c d q0 <> Some x) -> l_dpin (lst c5 x) = l_dpin (lst c x)).
  { intros x Hxl Hx. destruct (Hlst5 x Hxl) as [_ [_ [_ [_ [_ A6]]]]]. rewrite A6. apply Enot; auto. }
  assert (HC5 : CCoreX X c5).
  { apply (remove_line_generic X c c5 l d r i lines' rep (outs_after_remove c d dpin) HC Hi Hd Hr Hidel Hlines5
             Hnn5 Hln5 Hnodes5 Hforks5 Hcells5
             (fun x => proj1 (Hnf x)) (fun x => proj1 (proj2 (Hnf x))) (fun x => proj1 (proj2 (proj2 (Hnf x))))
             (fun x => proj2 (proj2 (proj2 (Hnf x)))) Houts5 Hins5); auto.
    intros x Hx. destruct (Hlst5 x Hx) as [A1 [A2 [A3 [A4 [A5 A6]]]]]. auto. }
  split; auto.
  repeat split; auto; try apply Hnf; try (apply Hlst5; auto).
  - apply (Hin' y). rewrite <- Hlines5. auto.
  - apply (Hin' y). rewrite <- Hlines5. auto.
  - intros Hy. change (lines c5) with (lines c4). rewrite D1. apply Hin'. auto.
  - unfold c5. unf; simpl. rewrite Nat.eqb_refl. reflexivity.
Qed.

Lemma line_remove_dense : forall X c c' d dpin,
  ForkDenseX X c -> nodes c' = nodes c -> (forall x, n_kind (nst c' x) = n_kind (nst c x)) ->
  (forall x, n_outs (nst c' x) = if Nat.eqb x d then outs_after_remove c d dpin else n_outs (nst c x)) ->
  ForkDenseX X c'.
Proof.
  intros X c c' d dpin HD Hnodes Hkind Houts n Hn Hk p Hp. unf. rewrite Houts in *. rewrite Hkind in Hk. rewrite Hnodes in Hn.
  destruct (Nat.eqb_spec n d).
  - subst n. unfold outs_after_remove in *. unf. rewrite Hk in *.
    destruct (Nat.lt_ge_cases dpin (List.length (n_outs (nst c d)))).
    + rewrite length_remove_nth in Hp by auto. rewrite nth_remove_nth.
      destruct (Nat.ltb_spec p dpin); apply (HD d); auto; unf; lia.
    + assert (E : forall (l : list (option nat)) q, List.length l <= q -> remove_nth q l = l).
      { clear. induction l as [|y r IH]; intros q Hq; simpl; auto. destruct q; simpl in *. lia. f_equal. apply IH. lia. }
      rewrite E in * by auto. apply (HD d); auto.
  - apply (HD n); auto.
Qed.

(** ** Node.remove *)
Lemma ccore_shrink : forall X X' c, CCoreX X c -> (forall y, In y X' -> In y X) ->
  (forall y, In y X -> In y X' \/ ((forall p, out_at c y p = None) /\ (forall p, in_at c y p = None))) ->
  CCoreX X' c.
Proof.
  intros X X' c HC Hsub Hpins.
  assert (HNX : forall y, NX X' c y -> NX X c y). { unfold NX. intros y [H|H]; auto. }
  constructor; try (apply HC).
  - intros n Hn. apply (cc_nb X c HC); auto.
  - intros x Hx. apply (cc_xdead X c HC); auto.
  - intros l Hl. destruct (cc_line X c HC l Hl) as [d [r [H1 [H2 [H3 [H4 [H5 H6]]]]]]].
    exists d, r. repeat split; auto.
    + destruct H3 as [H3|H3]. left; auto. destruct (Hpins d H3) as [H|[H _]]. right; auto. rewrite H in H5. discriminate.
    + destruct H4 as [H4|H4]. left; auto. destruct (Hpins r H4) as [H|[_ H]]. right; auto. rewrite H in H6. discriminate.
  - intros n p l Hn. apply (cc_outs X c HC); auto.
  - intros n p l Hn. apply (cc_ins X c HC); auto.
Qed.

Lemma dense_shrink : forall X X' c, ForkDenseX X c -> (forall y, In y X' -> In y X) -> ForkDenseX X' c.
Proof. intros X X' c HD Hsub n [Hn|Hn]; apply HD; unfold NX; auto. Qed.

Lemma node_remove_core : forall X c n, CCoreX X c -> In n (nodes c) ->
  exists c', node_remove c n = Some c' /\ CCoreX (n :: X) c' /\
    nnext c' = nnext c /\ lnext c' = lnext c /\ lines c' = lines c /\ lst c' = lst c /\ io c' = io c /\
    (forall y, In y (nodes c') <-> In y (nodes c) /\ y <> n) /\
    (forall x, n_name (nst c' x) = n_name (nst c x) /\ n_kind (nst c' x) = n_kind (nst c x) /\
               n_ins (nst c' x) = n_ins (nst c x) /\ n_outs (nst c' x) = n_outs (nst c x)) /\
    List.length (nodes c') = List.length (nodes c) - 1 /\
    (forall x, n_alive (nst c' x) = if Nat.eqb x n then false else n_alive (nst c x)).
Proof.
  intros X c n HC Hn.
  pose proof (nidx_nodup X c HC) as Hnd.
  destruct (In_nth_error _ _ Hn) as [i Hi].
  destruct (cc_nidx X c HC i n Hi) as [Halive Hidx].
  destruct (idel_spec (nodes c) i n Hnd Hi) as [nodes' [rep [Hidel [Hnd' [Hlen' [Hin' [Hnth' Hrep']]]]]]].
  destruct (del_node_at_spec c i nodes' rep Hidel) as [c1 [Hdel [D1 [D2 [D3 [D4 [D5 [D6 [D7 [D8 Dn]]]]]]]]]].
  unfold node_remove. rewrite Halive, Hidx, Hdel.
  (* the dictionary entry *)
  assert (Hdict : exists c2,
    (if is_fork (n_kind (nst c n))
     then option_map (with_forks c1) (ddel (n_name (nst c n)) (forks c1))
     else option_map (with_cells c1) (ddel (n_name (nst c n)) (cells c1))) = Some c2 /\
    nst c2 = nst c1 /\ nnext c2 = nnext c /\ lnext c2 = lnext c /\ nodes c2 = nodes' /\ lines c2 = lines c /\
    lst c2 = lst c /\ io c2 = io c /\
    NoDup (map fst (forks c2)) /\ NoDup (map fst (cells c2)) /\
    (forall s m, In (s, m) (forks c2) <-> (In m nodes' /\ is_fork (kind_of c m) = true /\ name_of c m = s)) /\
    (forall s m, In (s, m) (cells c2) <-> (In m nodes' /\ is_fork (kind_of c m) = false /\ name_of c m = s))).
  { destruct (is_fork (n_kind (nst c n))) eqn:Hfk.
    - assert (Hin : In (n_name (nst c n), n) (forks c)). { apply (cc_forks X c HC). auto. }
      destruct (ddel_spec (forks c) _ _ (cc_forks_nd X c HC) Hin) as [f' [Hdd [Hndf [Hif _]]]].
      assert (F1 : forall s m, In (s, m) f' <-> In m nodes' /\ is_fork (kind_of c m) = true /\ name_of c m = s).
      { intros s m. split.
        - intros H. apply Hif in H. destruct H as [H Hs]. apply (cc_forks X c HC) in H. destruct H as [H [H' H'']].
          split; auto. apply Hin'. split; auto. intros ->. unf. congruence.
        - intros [H1 [H2 H3]]. apply Hin' in H1. destruct H1 as [H1 Hmn]. apply Hif. split.
          + apply (cc_forks X c HC). auto.
          + intros Hs. apply Hmn. subst s.
            assert (In (name_of c m, m) (forks c)) by (apply (cc_forks X c HC); auto).
            unf. rewrite Hs in H. apply (dict_functional (forks c) (n_name (nst c n)) m n (cc_forks_nd X c HC) H Hin). }
      assert (F2 : forall s m, In (s, m) (cells c) <-> In m nodes' /\ is_fork (kind_of c m) = false /\ name_of c m = s).
      { intros s m. rewrite (cc_cells X c HC). rewrite Hin'. split; [|tauto].
        intros [H [H' H'']]. split; auto. split; auto. intros ->. unf. congruence. }
      rewrite D7, Hdd. simpl. eexists. split; [reflexivity|]. simpl. rewrite D8.
      do 7 (split; [auto|]). split; [auto|]. split; [apply (cc_cells_nd X c HC)|]. split; auto.
    - assert (Hin : In (n_name (nst c n), n) (cells c)). { apply (cc_cells X c HC). auto. }
      destruct (ddel_spec (cells c) _ _ (cc_cells_nd X c HC) Hin) as [f' [Hdd [Hndf [Hif _]]]].
      assert (F1 : forall s m, In (s, m) f' <-> In m nodes' /\ is_fork (kind_of c m) = false /\ name_of c m = s).
      { intros s m. split.
        - intros H. apply Hif in H. destruct H as [H Hs]. apply (cc_cells X c HC) in H. destruct H as [H [H' H'']].
          split; auto. apply Hin'. split; auto. intros ->. unf. congruence.
        - intros [H1 [H2 H3]]. apply Hin' in H1. destruct H1 as [H1 Hmn]. apply Hif. split.
          + apply (cc_cells X c HC). auto.
          + intros Hs. apply Hmn. subst s.
            assert (In (name_of c m, m) (cells c)) by (apply (cc_cells X c HC); auto).
            unf. rewrite Hs in H. apply (dict_functional (cells c) (n_name (nst c n)) m n (cc_cells_nd X c HC) H Hin). }
      assert (F2 : forall s m, In (s, m) (forks c) <-> In m nodes' /\ is_fork (kind_of c m) = true /\ name_of c m = s).
      { intros s m. rewrite (cc_forks X c HC). rewrite Hin'. split; [|tauto].
        intros [H [H' H'']]. split; auto. split; auto. intros ->. unf. congruence. }
      rewrite D8, Hdd. simpl. eexists. split; [reflexivity|]. simpl. rewrite D7.
      do 7 (split; [auto|]). split; [apply (cc_forks_nd X c HC)|]. split; [auto|]. split; auto. }
  destruct Hdict as [c2 [Hc2 [E1 [E2 [E3 [E4 [E5 [E6 [E7 [E8 [E9 [E10 E11]]]]]]]]]]]].
  rewrite Hc2. eexists. split; [reflexivity|].
  set (c3 := upd_node c2 n (fun r => nset_alive r false)).
  assert (Hnf : forall x, n_name (nst c3 x) = n_name (nst c x) /\ n_kind (nst c3 x) = n_kind (nst c x) /\
               n_ins (nst c3 x) = n_ins (nst c x) /\ n_outs (nst c3 x) = n_outs (nst c x) /\
               n_index (nst c3 x) = (if oeq rep (Some x) then i else n_index (nst c x)) /\
               n_alive (nst c3 x) = if Nat.eqb x n then false else n_alive (nst c x)).
  { intros x. unfold c3. unf; simpl. rewrite E1. destruct (Dn x) as [A1 [A2 [A3 [A4 [A5 A6]]]]].
    destruct (Dn n) as [B1 [B2 [B3 [B4 [B5 B6]]]]].
    destruct (Nat.eqb_spec x n); subst; simpl; repeat split; auto. }
  assert (HNX : forall y, NX (n :: X) c3 y <-> NX X c y).
  { intros y. unfold NX. change (nodes c3) with (nodes c2). rewrite E4. simpl. rewrite Hin'.
    split. intros [[H _]|[<-|H]]; auto. intros [H|H]; auto. destruct (Nat.eq_dec n y); auto. }
  split.
  - constructor.
    + intros y Hy. change (nnext c3) with (nnext c2). rewrite E2. apply (cc_nb X c HC). apply HNX; auto.
    + change (lines c3) with (lines c2). change (lnext c3) with (lnext c2). rewrite E5, E3. apply (cc_lb X c HC).
    + intros k y Hk. change (nodes c3) with (nodes c2) in Hk. rewrite E4 in Hk.
      destruct (Hnf y) as [_ [_ [_ [_ [A5 A6]]]]]. rewrite A5, A6.
      assert (Hyn : y <> n). { apply nth_error_In in Hk. apply Hin' in Hk. tauto. }
      destruct (Nat.eqb_spec y n); [congruence|].
      destruct (Hnth' k y Hk) as [[Hki [Hky Hry]]|[Hki Hry]].
      * destruct (cc_nidx X c HC k y Hky) as [B1 B2]. split; auto.
        destruct rep as [z|]; simpl; auto. destruct (Nat.eqb_spec z y); auto. congruence.
      * subst. simpl. rewrite Nat.eqb_refl. split; auto.
        destruct (Hrep' y eq_refl) as [_ [Hy _]]. apply In_nth_error in Hy. destruct Hy as [j Hj].
        apply (cc_nidx X c HC j y Hj).
    + change (lines c3) with (lines c2). change (lst c3) with (lst c2). rewrite E5, E6. apply (cc_lidx X c HC).
    + intros x Hx. destruct (Hnf x) as [_ [_ [_ [_ [_ A6]]]]]. rewrite A6.
      destruct (Nat.eqb_spec x n); auto. destruct Hx as [Hx|Hx]. congruence. apply (cc_xdead X c HC); auto.
    + apply E8.
    + intros s m. change (forks c3) with (forks c2). change (nodes c3) with (nodes c2). rewrite E4. unf.
      destruct (Hnf m) as [A1 [A2 _]]. rewrite A1, A2. apply E10.
    + apply E9.
    + intros s m. change (cells c3) with (cells c2). change (nodes c3) with (nodes c2). rewrite E4. unf.
      destruct (Hnf m) as [A1 [A2 _]]. rewrite A1, A2. apply E11.
    + intros l Hl. change (lines c3) with (lines c2) in Hl. change (lst c3) with (lst c2). rewrite E5 in Hl. rewrite E6.
      destruct (cc_line X c HC l Hl) as [d [r [H1 [H2 [H3 [H4 [H5 H6]]]]]]].
      exists d, r. rewrite !HNX. unf. destruct (Hnf d) as [_ [_ [_ [A4 _]]]]. destruct (Hnf r) as [_ [_ [A3 _]]].
      rewrite A4, A3. repeat split; auto.
    + intros y p l Hy Ho. apply HNX in Hy. change (lines c3) with (lines c2). change (lst c3) with (lst c2). rewrite E5, E6.
      unf. destruct (Hnf y) as [_ [_ [_ [A4 _]]]]. rewrite A4 in Ho. apply (cc_outs X c HC y p l); auto.
    + intros y p l Hy Ho. apply HNX in Hy. change (lines c3) with (lines c2). change (lst c3) with (lst c2). rewrite E5, E6.
      unf. destruct (Hnf y) as [_ [_ [A3 _]]]. rewrite A3 in Ho. apply (cc_ins X c HC y p l); auto.
  - change (nnext c3) with (nnext c2). change (lnext c3) with (lnext c2). change (lines c3) with (lines c2).
    change (lst c3) with (lst c2). change (io c3) with (io c2). change (nodes c3) with (nodes c2).
    rewrite E2, E3, E4, E5, E6, E7. repeat split; auto; try apply Hnf; try (apply Hin'; auto).
Qed.

(** ** io_nodes[...] = n does not touch the graph *)
Lemma ccore_with_io : forall X c v, CCoreX X c -> CCoreX X (with_io c v).
Proof. intros X c v HC. destruct HC. constructor; assumption. Qed.
Lemma dense_with_io : forall X c v, ForkDenseX X c -> ForkDenseX X (with_io c v).
Proof. intros X c v HD. exact HD. Qed.

(** ** the primitive edits under "well-formed use" *)
Definition primitive (o : op) : bool :=
  match o with
  | AddNode _ _ | AddLine _ _ _ _ | RemoveLine _ | RemoveNode _ | SetIO _ _ | GetOrAddFork _ => true
  | _ => false
  end.

Lemma add_node_inv : forall c name kind, CInv c -> name_free c name kind ->
  exists c' id, add_node c name kind = Some (c', id) /\ CInv c'.
Proof.
  intros c name kind [HC HD] Hfree.
  destruct (add_node_some c name kind Hfree) as [c' Hadd].
  exists c', (nnext c). split; auto. split.
  - apply (add_node_core [] c name kind c' (nnext c) HC Hfree Hadd).
  - apply (add_node_dense [] c name kind c' (nnext c) HC HD Hfree Hadd).
Qed.

Lemma add_line_inv : forall c d dp r rp, CInv c -> In d (nodes c) -> In r (nodes c) ->
  (forall p, dp = Some p -> out_at c d p = None /\ (is_fork (kind_of c d) = true -> p = List.length (outs_of c d))) ->
  (forall p, rp = Some p -> in_at c r p = None) ->
  CInv (fst (add_line c d dp r rp)).
Proof.
  intros c d dp r rp [HC HD] Hd Hr Hdp Hrp. split.
  - apply add_line_core; auto; try (left; auto). intros p Hp. apply Hdp; auto.
  - apply add_line_dense; auto. left; auto. intros p Hp. apply Hdp; auto.
Qed.

Lemma line_remove_inv : forall c l, CInv c -> In l (lines c) -> exists c', line_remove c l = Some c' /\ CInv c'.
Proof.
  intros c l [HC HD] Hl.
  destruct (line_remove_core [] c l HC Hl) as [c' [d [r [Hrm [Hd [Hr [HC' [F1 [F2 [F3 [F4 [F5 [F6 [F7 [F8 [F9 [F10 [F11 F12]]]]]]]]]]]]]]]]]].
  { intros d Hd Hfk. apply (HD d); auto. destruct (cc_line [] c HC l Hl) as [d0 [r0 [H1 [_ [H3 _]]]]]. congruence. }
  exists c'. split; auto. split; auto.
  eapply (line_remove_dense [] c c' d); eauto. intros x. apply F8.
Qed.

Lemma node_remove_inv : forall c n, CInv c -> In n (nodes c) ->
  (forall p, out_at c n p = None) -> (forall p, in_at c n p = None) ->
  exists c', node_remove c n = Some c' /\ CInv c'.
Proof.
  intros c n [HC HD] Hn Ho Hi.
  destruct (node_remove_core [] c n HC Hn) as [c' [Hrm [HC' [F1 [F2 [F3 [F4 [F5 [F6 [F7 F8]]]]]]]]]].
  exists c'. split; auto. split.
  - apply (ccore_shrink [n] [] c' HC'). intros y []. intros y [<-|[]]. right. unf.
    destruct (F7 n) as [_ [_ [A3 A4]]]. rewrite A3, A4. auto.
  - intros y [Hy|[]] Hk p Hp. unf. destruct (F7 y) as [_ [A2 [_ A4]]]. rewrite A2 in Hk. rewrite A4 in *.
    apply (HD y); auto. left. apply F6 in Hy. tauto.
Qed.

Theorem step_inv_primitive : forall c o, CInv c -> primitive o = true -> pre c o = true ->
  exists c', step c o = Some c' /\ CInv c'.
Proof.
  intros c o HI Hprim Hpre. destruct o; try discriminate; simpl in *.
  - (* AddNode *)
    apply is_none_true in Hpre.
    destruct (add_node_inv c name kind HI Hpre) as [c' [id [Hadd HI']]].
    exists c'. rewrite Hadd. auto.
  - (* AddLine *)
    rewrite !andb_true_iff in Hpre. destruct Hpre as [[[Hd Hr] Hdp] Hrp].
    apply mem_In in Hd. apply mem_In in Hr.
    eexists. split; [reflexivity|]. apply add_line_inv; auto.
    + intros p ->. rewrite andb_true_iff in Hdp. destruct Hdp as [A B]. apply is_none_true in A. split; auto.
      intros Hfk. rewrite Hfk in B. apply Nat.eqb_eq in B. auto.
    + intros p ->. apply is_none_true in Hrp. auto.
  - (* RemoveLine *)
    apply mem_In in Hpre. apply line_remove_inv; auto.
  - (* RemoveNode *)
    rewrite !andb_true_iff in Hpre. destruct Hpre as [[[Hn Hi] Ho] _]. apply mem_In in Hn.
    apply node_remove_inv; auto.
    + intros p. apply all_none_nth; auto.
    + intros p. apply all_none_nth; auto.
  - (* SetIO *)
    eexists. split; [reflexivity|]. destruct HI as [HC HD]. split.
    apply ccore_with_io; auto. apply dense_with_io; auto.
  - (* GetOrAddFork *)
    unfold get_or_add_fork. destruct (dget name (forks c)) eqn:E.
    + exists c. auto.
    + destruct (add_node_inv c name FORK HI) as [c' [id [Hadd HI']]]. { unfold name_free. simpl. auto. }
      exists c'. rewrite Hadd. auto.
Qed.

(** ** lifting a one-step theorem to histories *)
Lemma history_lift : forall (supported : op -> bool),
  (forall c o, CInv c -> supported o = true -> pre c o = true -> exists c', step c o = Some c' /\ CInv c') ->
  forall ops c, CInv c -> forallb supported ops = true -> hist_pre c ops = true ->
  exists c', run_from c ops = Some c' /\ CInv c'.
Proof.
  intros supported Hstep. induction ops as [|o ops IH]; intros c HI Hs Hp; simpl in *.
  - exists c. auto.
  - apply andb_true_iff in Hs. destruct Hs as [Hs1 Hs2].
    apply andb_true_iff in Hp. destruct Hp as [Hp1 Hp2].
    destruct (Hstep c o HI Hs1 Hp1) as [c' [Hc' HI']]. rewrite Hc' in *. apply IH; auto.
Qed.

(** ** non-vacuity: a concrete 12-step history that meets every precondition; step 9 removes the line on pin 0 of a
    three-output fork (squeeze: the other two lines are renumbered) and line 3 takes over index 0 (swap-with-last);
    step 11 removes node 1 and the last node takes over its index. *)
Definition example_history : list op :=
  [ AddNode "a" FORK; AddNode "g" "AND2"; AddNode "b" FORK; AddNode "h" "OR2";
    AddLine 0 None 1 None; AddLine 0 (Some 1) 3 (Some 1); AddLine 0 None 3 None; AddLine 1 None 2 None;
    RemoveLine 0; RemoveLine 3; RemoveNode 1; SetIO 0 0 ]%string.

Lemma example_history_pre : hist_pre empty example_history = true.
Proof. vm_compute. reflexivity. Qed.
Lemma example_history_primitive : forallb primitive example_history = true.
Proof. reflexivity. Qed.

Example example_history_inv : exists c, run_hist example_history = Some c /\ CInv c.
Proof.
  apply (history_lift primitive step_inv_primitive example_history empty cinv_empty
           example_history_primitive example_history_pre).
Qed.

(* what the history does: node "h" (id 3) now has index 1; the fork's remaining lines sit on pins 0 and 1;
   line ids 1, 2 have indices 1, 0 *)
Example example_history_effect :
  option_map (fun c => (nodes c, map (fun n => n_index (nst c n)) (nodes c), lines c,
                        map (fun l => (l_index (lst c l), l_dpin (lst c l))) (lines c), outs_of c 0))
             (run_hist example_history)
  = Some ([0; 3; 2], [0; 1; 2], [2; 1], [(0, 1); (1, 0)], [Some 1; Some 2]).
Proof. vm_compute. reflexivity. Qed.
