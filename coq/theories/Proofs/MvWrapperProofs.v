(** C12, array layer: the public wrappers mv_not / mv_or / mv_and / mv_xor (Model/MvWrappers.v) are the documented algebra
    element by element for arrays of ANY shape under numpy broadcasting; out= receives exactly that; exact success condition. *)
From Coq Require Import List Arith Bool Lia.
From KV Require Import Model.Encodings Model.NdArray Model.MvWrappers Proofs.EncodingsBits Proofs.NdArrayProofs.
Import ListNotations.
Local Open Scope list_scope.

(** * the primitives on tabulated arrays *)
Lemma ufunc2_tab f s F t G b : broadcast2 s t = Some b ->
  ufunc2 f (tabulate s F) (tabulate t G) = Some (tabulate b (fun k => f (F (boff s b k)) (G (boff t b k)))).
Proof.
  intros H. unfold ufunc2. cbn [nd_shape tabulate]. rewrite H. f_equal. apply tabulate_ext. intros k Hk.
  destruct (broadcast2_bc_to _ _ _ H) as [A [B _]].
  rewrite !bget_tabulate by assumption. reflexivity.
Qed.

Lemma broadcast2_absorb s t b : broadcast2 s t = Some b -> broadcast2 b t = Some b.
Proof. intros H. apply bc_to_broadcast2. apply (broadcast2_bc_to _ _ _ H). Qed.

Lemma putmask_tab o H m Mk v : size m = size o ->
  putmask (tabulate o H) (tabulate m Mk) v = Some (tabulate o (fun k => if Mk k =? 0 then H k else v)).
Proof.
  intros E. unfold putmask. cbn [nd_shape tabulate]. rewrite E, Nat.eqb_refl. f_equal. apply tabulate_ext. intros k Hk.
  rewrite !at_tabulate by lia. reflexivity.
Qed.

Lemma ufunc2_out_tab_where f s F t G m W o H :
  bc_to s o = true -> bc_to t o = true -> bc_to m o = true ->
  ufunc2_out f (tabulate s F) (tabulate t G) (Some (tabulate m W)) (tabulate o H) =
  Some (tabulate o (fun k => if negb (W (boff m o k) =? 0) then f (F (boff s o k)) (G (boff t o k)) else H k)).
Proof.
  intros A B C. unfold ufunc2_out. cbn [nd_shape tabulate opt_shape forallb]. rewrite A, B, C. cbn [andb].
  f_equal. apply tabulate_ext. intros k Hk. unfold where_at.
  rewrite !bget_tabulate by assumption. rewrite at_tabulate by exact Hk. reflexivity.
Qed.

Lemma ufunc2_out_tab f s F t G o H :
  bc_to s o = true -> bc_to t o = true ->
  ufunc2_out f (tabulate s F) (tabulate t G) None (tabulate o H) =
  Some (tabulate o (fun k => f (F (boff s o k)) (G (boff t o k)))).
Proof.
  intros A B. unfold ufunc2_out. cbn [nd_shape tabulate opt_shape forallb]. rewrite A, B. cbn [andb].
  f_equal. apply tabulate_ext. intros k Hk. unfold where_at.
  rewrite !bget_tabulate by assumption. reflexivity.
Qed.

Lemma unk_mask_tab s F : unk_mask (tabulate s F) = Some (tabulate s (fun k => unk_s (F k))).
Proof.
  unfold unk_mask, eqc. rewrite !nd_map_tabulate. rewrite (ufunc2_tab _ _ _ _ _ s (broadcast2_refl s)).
  f_equal. apply tabulate_ext. intros k Hk. rewrite boff_id by exact Hk. reflexivity.
Qed.

Lemma acc_unk_tab s F t G b : broadcast2 s t = Some b ->
  acc_unk false (tabulate s F) (tabulate t G) =
  Some (tabulate b (fun k => Nat.lor (Nat.lor (F (boff s b k)) (b2 (G (boff t b k) =? UNKNOWN))) (b2 (G (boff t b k) =? UNASSIGNED)))).
Proof.
  intros H. unfold acc_unk, eqc. rewrite !nd_map_tabulate. rewrite (ufunc2_tab _ _ _ _ _ b H). cbn [obind].
  rewrite (ufunc2_tab _ _ _ _ _ b (broadcast2_absorb _ _ _ H)).
  f_equal. apply tabulate_ext. intros k Hk. rewrite boff_id by exact Hk. reflexivity.
Qed.

(** * success conditions, as functions of the shapes only *)
Definition bin_ok (s1 s2 so : shape) : bool :=
  match broadcast2 s1 s2 with
  | Some b => (size b =? size so) && (bc_to s1 so && bc_to s2 so)
  | None => false
  end.
Definition not_ok (s so : shape) : bool := bc_to s so && (size s =? size so).

(** * the kernels on tabulated operands: success *)
Ltac pointwise b so k :=
  repeat rewrite (boff_id so k) by assumption;
  repeat rewrite (boff_id b k) by lia;
  repeat rewrite (boff_same_size b so k) by assumption;
  repeat rewrite <- (boff_resize _ b so k) by (first [assumption | apply bc_to_length; assumption]).

Section Kernels.
  Variables (out : nd) (s1 s2 b : shape) (F1 F2 : nat -> nat).
  Let so := nd_shape out.
  Hypothesis Hb : broadcast2 s1 s2 = Some b.
  Hypothesis Hsz : size b = size so.
  Hypothesis H1 : bc_to s1 so = true.
  Hypothesis H2 : bc_to s2 so = true.

  Lemma k_mv_or_tab :
    k_mv_or false out (tabulate s1 F1) (tabulate s2 F2) =
    Some (tabulate so (fun k => or_s (F1 (boff s1 so k)) (F2 (boff s2 so k)))).
  Proof.
    pose proof (bc_to_join _ _ _ _ Hb H1 H2) as H3. destruct (broadcast2_bc_to _ _ _ Hb) as [B1 [B2 _]].
    unfold k_mv_or. rewrite unk_mask_tab. cbn [obind]. rewrite (acc_unk_tab _ _ _ _ b Hb). cbn [obind].
    unfold acc_or, eqc. cbn [andb]. rewrite !nd_map_tabulate. rewrite (ufunc2_tab _ _ _ _ _ b Hb). cbn [obind].
    unfold nd_fill. fold so. rewrite putmask_tab by exact Hsz. cbn [obind].
    unfold lnot. rewrite nd_map_tabulate.
    do 2 (rewrite ufunc2_out_tab_where by (first [apply bc_to_refl | assumption]); cbn [obind]).
    rewrite (ufunc2_tab _ _ _ _ _ b (broadcast2_refl b)). cbn [obind].
    rewrite putmask_tab by exact Hsz.
    f_equal. apply tabulate_ext. intros k Hk.
    pointwise b so k. reflexivity.
  Qed.

  Lemma k_mv_and_tab :
    k_mv_and false out (tabulate s1 F1) (tabulate s2 F2) =
    Some (tabulate so (fun k => and_s (F1 (boff s1 so k)) (F2 (boff s2 so k)))).
  Proof.
    pose proof (bc_to_join _ _ _ _ Hb H1 H2) as H3. destruct (broadcast2_bc_to _ _ _ Hb) as [B1 [B2 _]].
    unfold k_mv_and. rewrite unk_mask_tab. cbn [obind]. rewrite (acc_unk_tab _ _ _ _ b Hb). cbn [obind].
    unfold acc_or, eqc. cbn [andb]. rewrite !nd_map_tabulate. rewrite (ufunc2_tab _ _ _ _ _ b Hb). cbn [obind].
    unfold nd_fill. fold so. rewrite putmask_tab by exact Hsz. cbn [obind].
    unfold lnot. rewrite nd_map_tabulate.
    do 4 (rewrite ufunc2_out_tab_where by (first [apply bc_to_refl | assumption]); cbn [obind]).
    rewrite (ufunc2_tab _ _ _ _ _ b (broadcast2_refl b)). cbn [obind].
    rewrite putmask_tab by exact Hsz.
    f_equal. apply tabulate_ext. intros k Hk.
    pointwise b so k. reflexivity.
  Qed.

  Lemma k_mv_xor_tab :
    k_mv_xor false out (tabulate s1 F1) (tabulate s2 F2) =
    Some (tabulate so (fun k => xor_s (F1 (boff s1 so k)) (F2 (boff s2 so k)))).
  Proof.
    pose proof (bc_to_join _ _ _ _ Hb H1 H2) as H3. destruct (broadcast2_bc_to _ _ _ Hb) as [B1 [B2 _]].
    unfold k_mv_xor. rewrite unk_mask_tab. cbn [obind]. rewrite (acc_unk_tab _ _ _ _ b Hb). cbn [obind].
    rewrite !nd_map_tabulate. unfold nd_fill. fold so.
    do 4 (rewrite ufunc2_out_tab by (first [apply bc_to_refl | assumption]); cbn [obind]).
    rewrite putmask_tab by exact Hsz.
    f_equal. apply tabulate_ext. intros k Hk.
    pointwise b so k. reflexivity.
  Qed.
End Kernels.

Lemma k_mv_not_tab out s F : bc_to s (nd_shape out) = true -> size s = size (nd_shape out) ->
  k_mv_not out (tabulate s F) = Some (tabulate (nd_shape out) (fun k => not_s (F (boff s (nd_shape out) k)))).
Proof.
  intros H E. unfold k_mv_not, ufunc2_out. cbn [nd_shape tabulate opt_shape forallb scalar0 app].
  rewrite H, bc_to_nil. cbn [andb obind]. unfold eqc. rewrite nd_map_tabulate. rewrite putmask_tab by exact E.
  f_equal. apply tabulate_ext. intros k Hk. unfold where_at.
  rewrite bget_tabulate by assumption.
  change (NdA [] [3]) with (scalar0 3). rewrite bget_scalar0.
  rewrite (boff_same_size s (nd_shape out) k) by assumption. reflexivity.
Qed.

(** * inversion: a call that succeeds tells the shapes *)
Lemma obind_some {A B} (o : option A) (f : A -> option B) r : obind o f = Some r -> exists a, o = Some a /\ f a = Some r.
Proof. destruct o as [a|]; cbn [obind]; [intros H; exists a; split; [reflexivity | exact H] | discriminate]. Qed.

Lemma ufunc2_inv f a b r : ufunc2 f a b = Some r -> broadcast2 (nd_shape a) (nd_shape b) = Some (nd_shape r).
Proof. unfold ufunc2. destruct (broadcast2 (nd_shape a) (nd_shape b)); [intros [= <-]; reflexivity | discriminate]. Qed.

Lemma ufunc2_out_inv f a b w out r : ufunc2_out f a b w out = Some r ->
  nd_shape r = nd_shape out /\ bc_to (nd_shape a) (nd_shape out) = true /\ bc_to (nd_shape b) (nd_shape out) = true.
Proof.
  unfold ufunc2_out. cbn [forallb].
  destruct (bc_to (nd_shape a) (nd_shape out)); [|discriminate].
  destruct (bc_to (nd_shape b) (nd_shape out)); [|discriminate]. cbn [andb].
  destruct (forallb (fun s => bc_to s (nd_shape out)) (opt_shape w)); [|discriminate].
  intros [= <-]. repeat split.
Qed.

Lemma putmask_inv out m v r : putmask out m v = Some r ->
  nd_shape r = nd_shape out /\ size (nd_shape m) = size (nd_shape out).
Proof.
  unfold putmask. destruct (size (nd_shape m) =? size (nd_shape out)) eqn:E; [|discriminate].
  intros [= <-]. split; [reflexivity | apply Nat.eqb_eq; exact E].
Qed.

Lemma unk_mask_inv x r : unk_mask x = Some r -> nd_shape r = nd_shape x.
Proof.
  unfold unk_mask. intros H. apply ufunc2_inv in H. cbn [nd_shape eqc nd_map] in H.
  rewrite broadcast2_refl in H. injection H as H. symmetry. exact H.
Qed.

Lemma acc_unk_inv au0 x2 r : acc_unk false au0 x2 = Some r -> broadcast2 (nd_shape au0) (nd_shape x2) = Some (nd_shape r).
Proof.
  unfold acc_unk. intros H. apply obind_some in H. destruct H as [t [E1 E2]].
  apply ufunc2_inv in E1. apply ufunc2_inv in E2. cbn [nd_shape eqc nd_map] in E1, E2.
  rewrite (broadcast2_absorb _ _ _ E1) in E2. injection E2 as E2. rewrite <- E2. exact E1.
Qed.

Lemma bin_ok_intro s1 s2 so b : broadcast2 s1 s2 = Some b -> size b = size so -> bc_to s1 so = true -> bc_to s2 so = true ->
  bin_ok s1 s2 so = true.
Proof. intros H E A B. unfold bin_ok. rewrite H, E, Nat.eqb_refl, A, B. reflexivity. Qed.

Lemma k_mv_or_inv out x1 x2 r : k_mv_or false out x1 x2 = Some r -> bin_ok (nd_shape x1) (nd_shape x2) (nd_shape out) = true.
Proof.
  unfold k_mv_or. intros H.
  apply obind_some in H. destruct H as [au0 [E0 H]]. apply unk_mask_inv in E0.
  apply obind_some in H. destruct H as [au [E1 H]]. apply acc_unk_inv in E1. rewrite E0 in E1.
  apply obind_some in H. destruct H as [ao [E2 H]]. unfold acc_or in E2. cbn [andb] in E2. apply ufunc2_inv in E2. cbn [nd_shape eqc nd_map] in E2.
  apply obind_some in H. destruct H as [o1 [E3 H]]. apply putmask_inv in E3. cbn [nd_shape nd_fill tabulate] in E3. destruct E3 as [S3 Z3].
  apply obind_some in H. destruct H as [o2 [E4 H]]. apply ufunc2_out_inv in E4. destruct E4 as [S4 [_ A4]].
  apply obind_some in H. destruct H as [o3 [E5 H]]. apply ufunc2_out_inv in E5. destruct E5 as [S5 [_ A5]].
  rewrite S3 in A4. rewrite S4, S3 in A5.
  exact (bin_ok_intro _ _ _ _ E2 Z3 A4 A5).
Qed.

Lemma k_mv_and_inv out x1 x2 r : k_mv_and false out x1 x2 = Some r -> bin_ok (nd_shape x1) (nd_shape x2) (nd_shape out) = true.
Proof.
  unfold k_mv_and. intros H.
  apply obind_some in H. destruct H as [au0 [E0 H]]. apply unk_mask_inv in E0.
  apply obind_some in H. destruct H as [au [E1 H]]. apply acc_unk_inv in E1. rewrite E0 in E1.
  apply obind_some in H. destruct H as [az [E2 H]]. unfold acc_or in E2. cbn [andb] in E2. apply ufunc2_inv in E2. cbn [nd_shape eqc nd_map] in E2.
  apply obind_some in H. destruct H as [o1 [E3 H]]. apply putmask_inv in E3. cbn [nd_shape nd_fill tabulate] in E3. destruct E3 as [S3 Z3].
  apply obind_some in H. destruct H as [o2 [E4 H]]. apply ufunc2_out_inv in E4. destruct E4 as [S4 [_ A4]].
  apply obind_some in H. destruct H as [o3 [E5 H]]. apply ufunc2_out_inv in E5. destruct E5 as [S5 _].
  apply obind_some in H. destruct H as [o4 [E6 H]]. apply ufunc2_out_inv in E6. destruct E6 as [S6 [_ A6]].
  cbn [nd_shape nd_map] in A4, A6. rewrite S3 in A4. rewrite S5, S4, S3 in A6.
  exact (bin_ok_intro _ _ _ _ E2 Z3 A4 A6).
Qed.

Lemma k_mv_xor_inv out x1 x2 r : k_mv_xor false out x1 x2 = Some r -> bin_ok (nd_shape x1) (nd_shape x2) (nd_shape out) = true.
Proof.
  unfold k_mv_xor. intros H.
  apply obind_some in H. destruct H as [au0 [E0 H]]. apply unk_mask_inv in E0.
  apply obind_some in H. destruct H as [au [E1 H]]. apply acc_unk_inv in E1. rewrite E0 in E1.
  apply obind_some in H. destruct H as [o1 [E3 H]]. apply ufunc2_out_inv in E3. destruct E3 as [S3 [_ A3]].
  apply obind_some in H. destruct H as [o2 [E4 H]]. apply ufunc2_out_inv in E4. destruct E4 as [S4 _].
  apply obind_some in H. destruct H as [o3 [E5 H]]. apply ufunc2_out_inv in E5. destruct E5 as [S5 [_ A5]].
  apply obind_some in H. destruct H as [o4 [E6 H]]. apply ufunc2_out_inv in E6. destruct E6 as [S6 _].
  apply putmask_inv in H. destruct H as [_ Z].
  cbn [nd_shape nd_map nd_fill tabulate] in *. rewrite S4, S3 in A5. rewrite S6, S5, S4, S3 in Z.
  exact (bin_ok_intro _ _ _ _ E1 Z A3 A5).
Qed.

Lemma k_mv_not_inv out x r : k_mv_not out x = Some r -> not_ok (nd_shape x) (nd_shape out) = true.
Proof.
  unfold k_mv_not. intros H. apply obind_some in H. destruct H as [o [E H]].
  apply ufunc2_out_inv in E. destruct E as [S1 [A _]]. apply putmask_inv in H. destruct H as [_ Z].
  cbn [nd_shape eqc nd_map] in Z. rewrite S1 in Z. unfold not_ok. rewrite A, Z, Nat.eqb_refl. reflexivity.
Qed.

(** * the kernels, exactly: for all operand and out shapes *)
Theorem kernel2_exact op out x1 x2 : nd_wf x1 -> nd_wf x2 ->
  kernel2 op false out x1 x2 =
  if bin_ok (nd_shape x1) (nd_shape x2) (nd_shape out)
  then Some (tabulate (nd_shape out) (fun k => elem2 op (bget x1 (nd_shape out) k) (bget x2 (nd_shape out) k)))
  else None.
Proof.
  intros W1 W2. destruct (bin_ok (nd_shape x1) (nd_shape x2) (nd_shape out)) eqn:E.
  - unfold bin_ok in E. destruct (broadcast2 (nd_shape x1) (nd_shape x2)) as [b|] eqn:Hb; [|discriminate].
    apply andb_true_iff in E. destruct E as [Z E]. apply andb_true_iff in E. destruct E as [A B]. apply Nat.eqb_eq in Z.
    transitivity (kernel2 op false out (tabulate (nd_shape x1) (at_ x1)) (tabulate (nd_shape x2) (at_ x2))).
    { rewrite <- !nd_eta by assumption. reflexivity. }
    destruct op; cbn [kernel2 elem2]; unfold bget.
    + apply (k_mv_or_tab out _ _ b); assumption.
    + apply (k_mv_and_tab out _ _ b); assumption.
    + apply (k_mv_xor_tab out _ _ b); assumption.
  - destruct (kernel2 op false out x1 x2) as [r|] eqn:K; [|reflexivity].
    destruct op; cbn [kernel2] in K;
      [apply k_mv_or_inv in K | apply k_mv_and_inv in K | apply k_mv_xor_inv in K]; congruence.
Qed.

Theorem k_mv_not_exact out x : nd_wf x ->
  k_mv_not out x =
  if not_ok (nd_shape x) (nd_shape out)
  then Some (tabulate (nd_shape out) (fun k => not_s (bget x (nd_shape out) k))) else None.
Proof.
  intros W. destruct (not_ok (nd_shape x) (nd_shape out)) eqn:E.
  - unfold not_ok in E. apply andb_true_iff in E. destruct E as [A Z]. apply Nat.eqb_eq in Z.
    transitivity (k_mv_not out (tabulate (nd_shape x) (at_ x))).
    { rewrite <- nd_eta by assumption. reflexivity. }
    unfold bget. apply k_mv_not_tab; assumption.
  - destruct (k_mv_not out x) as [r|] eqn:K; [|reflexivity]. apply k_mv_not_inv in K. congruence.
Qed.

(** * the wrappers *)
Lemma bin_ok_self s1 s2 b : broadcast2 s1 s2 = Some b -> bin_ok s1 s2 b = true.
Proof. intros H. destruct (broadcast2_bc_to _ _ _ H) as [A [B _]]. exact (bin_ok_intro _ _ _ _ H eq_refl A B). Qed.

(** out=None: the result has the broadcast shape and is the element-wise function; incompatible shapes raise *)
Theorem mvw_bin_fresh op junk x1 x2 : nd_wf x1 -> nd_wf x2 ->
  mvw_bin false op junk x1 x2 None =
  match broadcast2 (nd_shape x1) (nd_shape x2) with
  | Some b => Some (tabulate b (fun k => elem2 op (bget x1 b k) (bget x2 b k)))
  | None => None
  end.
Proof.
  intros W1 W2. unfold mvw_bin. destruct (broadcast2 (nd_shape x1) (nd_shape x2)) as [b|] eqn:Hb; cbn [option_map obind]; [|reflexivity].
  rewrite kernel2_exact by assumption. change (nd_shape (np_empty junk b)) with b.
  rewrite (bin_ok_self _ _ _ Hb). reflexivity.
Qed.

(** out=o: o receives the element-wise function of the operands stretched to o's shape -- or the call raises *)
Theorem mvw_bin_out op junk x1 x2 o : nd_wf x1 -> nd_wf x2 ->
  mvw_bin false op junk x1 x2 (Some o) =
  if bin_ok (nd_shape x1) (nd_shape x2) (nd_shape o)
  then Some (tabulate (nd_shape o) (fun k => elem2 op (bget x1 (nd_shape o) k) (bget x2 (nd_shape o) k)))
  else None.
Proof. intros W1 W2. unfold mvw_bin. cbn [obind]. apply kernel2_exact; assumption. Qed.

Theorem mvw_not_exact junk x out : nd_wf x ->
  mvw_not junk x out =
  let so := match out with Some o => nd_shape o | None => nd_shape x end in
  if not_ok (nd_shape x) so then Some (tabulate so (fun k => not_s (bget x so k))) else None.
Proof.
  intros W. unfold mvw_not. rewrite k_mv_not_exact by exact W. destruct out as [o|]; reflexivity.
Qed.

Lemma not_ok_self s : not_ok s s = true.
Proof. unfold not_ok. rewrite bc_to_refl, Nat.eqb_refl. reflexivity. Qed.
