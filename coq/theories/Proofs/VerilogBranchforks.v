(** C11 (e): requesting branch forks only inserts forks.  The two elaborations [elab_module m lib false] and
    [elab_module m lib true] share everything up to pass 1.5; pass 2 and the output loop run in lockstep on the named
    views ([nodesK], [edges] of Model/VerilogModule.v) and are related by [BfRel]. *)
From Coq Require Import List ZArith NArith Bool String Ascii Arith Lia.
From KV Require Import Model.Circuit Model.CircuitInv Model.VerilogModule Proofs.CircuitBase Proofs.CircuitProofs
     Proofs.VerilogModuleProofs.
Import ListNotations.
Local Open Scope list_scope.

(** ** how the named view grows *)
Lemma key_of_eq : forall c c' x, n_name (nst c' x) = n_name (nst c x) -> n_kind (nst c' x) = n_kind (nst c x) ->
  key_of c' x = key_of c x.
Proof. intros c c' x H1 H2. unfold key_of, name_of, kind_of. rewrite H1, H2. reflexivity. Qed.

Lemma view_add_node : forall c name kind c' id, CInv c -> add_node c name kind = Some (c', id) ->
  nodesK c' = nodesK c ++ [((name, is_fork kind), kind)] /\ edges c' = edges c.
Proof.
  intros c name kind c' id HI Hadd.
  destruct (add_node_spec c name kind c' id HI Hadd) as [HI1 [E1 [-> [N1 [N2 [N3 [N4 [N5 [N6 [N7 [N8 _]]]]]]]]]]].
  assert (Hold : forall n, In n (nodes c) -> nst c' n = nst c n).
  { intros n Hn. apply N7. apply cinv_node_lt in Hn; auto. lia. }
  split.
  - unfold nodesK. rewrite N3, map_app. f_equal.
    + apply map_ext_in. intros n Hn. unfold key_of, name_of, kind_of. rewrite Hold; auto.
    + simpl. unfold key_of, name_of, kind_of. rewrite N8. reflexivity.
  - unfold edges. rewrite N4. apply map_ext_in. intros l Hl. unfold edge_of. rewrite N6.
    destruct HI as [HC HD]. destruct (cc_line [] c HC l Hl) as [d [r [A1 [A2 [[A3|[]] [[A4|[]] _]]]]]].
    rewrite A1, A2. simpl. unfold key_of, name_of, kind_of. rewrite !Hold; auto.
Qed.

Lemma view_add_line : forall c d dp r rp, CInv c ->
  let c' := fst (add_line c d dp r rp) in
  nodesK c' = nodesK c /\
  edges c' = edges c ++ [(key_of c d, pin_of (outs_of c d) dp, key_of c r, pin_of (ins_of c r) rp)] /\
  (forall x, key_of c' x = key_of c x).
Proof.
  intros c d dp r rp HI c'.
  pose proof (add_line_facts c d dp r rp) as F. cbv zeta in F. fold c' in F.
  destruct F as [_ [F1 [F2 [F3 [F4 [F5 [F6 [F0 [F7 [F8 [F9 [F10 [F11 [F12 [F13 F14]]]]]]]]]]]]]]].
  clearbody c'.
  assert (Hk : forall x, key_of c' x = key_of c x) by (intros x; apply key_of_eq; auto).
  split; [|split; auto].
  - unfold nodesK. rewrite F3. apply map_ext. intros n. rewrite Hk. unfold kind_of. rewrite F8. reflexivity.
  - unfold edges. rewrite F4, map_app. f_equal.
    + apply map_ext_in. intros l Hl. unfold edge_of. rewrite F13 by (apply cinv_line_lt in Hl; auto; lia).
      destruct (l_drv (lst c l)), (l_rdr (lst c l)); simpl; rewrite ?Hk; reflexivity.
    + simpl. unfold edge_of. rewrite F14. simpl. rewrite !Hk. reflexivity.
Qed.

Lemma view_new_fork : forall c d dp name c' f, CInv c -> In d (nodes c) -> new_fork_from c d dp name = Some (c', f) ->
  nodesK c' = nodesK c ++ [((name, true), FORK)] /\
  edges c' = edges c ++ [(key_of c d, pin_of (outs_of c d) dp, (name, true), 0)].
Proof.
  intros c d dp name c' f HI Hd H. unfold new_fork_from in H.
  destruct (add_node c name FORK) as [[c1 f1]|] eqn:Hadd; [|discriminate].
  destruct (view_add_node c name FORK c1 f1 HI Hadd) as [V1 V2].
  destruct (add_node_spec c name FORK c1 f1 HI Hadd) as [HI1 [E1 [-> [N1 [N2 [N3 [N4 [N5 [N6 [N7 [N8 _]]]]]]]]]]].
  destruct (view_add_line c1 d dp (nnext c) None HI1) as [W1 [W2 _]].
  remember (fst (add_line c1 d dp (nnext c) None)) as c2 eqn:Hc2. injection H as <- <-.
  assert (Hdne : d <> nnext c) by (apply cinv_node_lt in Hd; auto; lia).
  assert (Hst : nst c1 d = nst c d) by (apply N7; auto).
  split. rewrite W1, V1. reflexivity.
  rewrite W2, V2. f_equal. f_equal.
  unfold key_of, name_of, kind_of, outs_of, ins_of. rewrite Hst, N8. reflexivity.
Qed.

(** ** pin shapes *)
Definition isS {A} (o : option A) : bool := match o with Some _ => true | None => false end.
Lemma free_index_shape : forall {A B} (l1 : list (option A)) (l2 : list (option B)),
  map isS l1 = map isS l2 -> free_index l1 = free_index l2.
Proof.
  intros A B. induction l1 as [|x l1 IH]; intros [|y l2] H; simpl in *; try discriminate; auto.
  injection H as H1 H2. destruct x, y; simpl in *; try discriminate; auto.
Qed.
Lemma shape_gset : forall {A B} (l1 : list (option A)) (l2 : list (option B)) i a b,
  map isS l1 = map isS l2 -> map isS (gset l1 i (Some a)) = map isS (gset l2 i (Some b)).
Proof.
  intros A B. induction l1 as [|x l1 IH]; intros [|y l2] i a b H; simpl in H; try discriminate.
  - induction i as [|i IHi]; simpl; auto. f_equal. apply IHi.
  - injection H as H1 H2. destruct i; simpl. f_equal; auto. f_equal; auto.
Qed.
Lemma fork_free_index : forall c f, CInv c -> In f (nodes c) -> is_fork (kind_of c f) = true ->
  free_index (outs_of c f) = List.length (outs_of c f).
Proof.
  intros c f [HC HD] Hf Hk. apply free_index_dense. intros p Hp. apply (HD f); auto. left; auto.
Qed.

(** ** '~' *)
Lemma has_tilde_app : forall a b, has_tilde (a ++ b)%string = has_tilde a || has_tilde b.
Proof. induction a as [|x a IH]; intros b; simpl; auto. rewrite IH. apply orb_assoc. Qed.
Lemma branch_name_tilde : forall f i p, has_tilde (branch_name f i p) = true.
Proof. intros. unfold branch_name. rewrite has_tilde_app. simpl. apply orb_true_r. Qed.
Lemma uint_no_tilde : forall u, has_tilde (DecimalString.NilEmpty.string_of_uint u) = false.
Proof. induction u; simpl; auto. Qed.
Lemma dec_no_tilde : forall z, has_tilde (VE.dec z) = false.
Proof.
  intros z. unfold VE.dec, DecimalString.NilZero.string_of_uint.
  destruct (N.to_uint (Z.to_N z)); try apply uint_no_tilde. reflexivity.
Qed.
Lemma get_no_tilde : forall s n ch, String.get n s = Some ch -> has_tilde s = false -> Ascii.eqb ch "~"%char = false.
Proof.
  induction s as [|a s IH]; intros n ch H Ht; simpl in *. discriminate.
  apply orb_false_iff in Ht. destruct Ht as [H1 H2]. destruct n. inv H. auto. eauto.
Qed.
Lemma const_name_no_tilde : forall ch k, Ascii.eqb ch "~"%char = false -> has_tilde (const_name ch k) = false.
Proof.
  intros ch k H. unfold const_name, chr. rewrite !has_tilde_app. simpl. rewrite H, dec_no_tilde. reflexivity.
Qed.

(** ** the lockstep relation between the run without (F) and with (T) branch forks *)
Definition CorrF (cF cT : circ) (a b : nat) : Prop := exists s, dget s (forks cF) = Some a /\ dget s (forks cT) = Some b.
Definition CorrC (cF cT : circ) (a b : nat) : Prop := exists s, dget s (cells cF) = Some a /\ dget s (cells cT) = Some b.

Record Rel (cF cT : circ) : Prop := mkRel {
  r_view : BfRel (nodesK cF, edges cF) (nodesK cT, edges cT);
  r_forks : forall s, has_tilde s = false -> (dget s (forks cF) = None <-> dget s (forks cT) = None);
  r_sub : forall s, dget s (forks cF) <> None -> dget s (forks cT) <> None;
  r_cells : forall s, dget s (cells cF) = None <-> dget s (cells cT) = None;
  r_fshape : forall a b, CorrF cF cT a b -> List.length (outs_of cF a) = List.length (outs_of cT b);
  r_cshape : forall a b, CorrC cF cT a b -> kind_of cF a = kind_of cT b /\ map isS (ins_of cF a) = map isS (ins_of cT b) }.

Lemma corr_app : forall (dF dT : list (string * nat)) s k a b x y,
  dget s (dF ++ [(k, a)]) = Some x -> dget s (dT ++ [(k, b)]) = Some y -> dget k dF = None -> dget k dT = None ->
  (dget s dF = Some x /\ dget s dT = Some y) \/ (s = k /\ x = a /\ y = b).
Proof.
  intros dF dT s k a b x y H1 H2 K1 K2. rewrite dget_app1 in H1, H2.
  destruct (String.eqb_spec s k) as [->|Hne].
  - rewrite K1 in H1. rewrite K2 in H2. inv H1. inv H2. auto.
  - destruct (dget s dF); [|discriminate]. destruct (dget s dT); [|discriminate]. auto.
Qed.
Lemma dget_app_none_iff : forall (dF dT : list (string * nat)) s k a b,
  (dget s dF = None <-> dget s dT = None) -> (dget s (dF ++ [(k, a)]) = None <-> dget s (dT ++ [(k, b)]) = None).
Proof.
  intros dF dT s k a b H. rewrite !dget_app1. destruct (dget s dF), (dget s dT).
  - split; discriminate.
  - destruct H as [_ H]. specialize (H eq_refl). discriminate.
  - destruct H as [H _]. specialize (H eq_refl). discriminate.
  - destruct (String.eqb s k); split; auto; discriminate.
Qed.
Lemma corrF_key : forall cF cT a b, CInv cF -> CInv cT -> CorrF cF cT a b ->
  key_of cF a = key_of cT b /\ In a (nodes cF) /\ In b (nodes cT) /\ is_fork (kind_of cF a) = true /\ is_fork (kind_of cT b) = true.
Proof.
  intros cF cT a b HF HT [s [A B]]. destruct (cinv_fork_get cF s a HF A) as [A1 [A2 A3]].
  destruct (cinv_fork_get cT s b HT B) as [B1 [B2 B3]]. unfold key_of. rewrite A2, A3, B2, B3. auto.
Qed.
Lemma corrC_key : forall cF cT a b, CInv cF -> CInv cT -> CorrC cF cT a b ->
  key_of cF a = key_of cT b /\ In a (nodes cF) /\ In b (nodes cT) /\ is_fork (kind_of cF a) = false /\ is_fork (kind_of cT b) = false.
Proof.
  intros cF cT a b HF HT [s [A B]]. destruct (cinv_cell_get cF s a HF A) as [A1 [A2 A3]].
  destruct (cinv_cell_get cT s b HT B) as [B1 [B2 B3]]. unfold key_of. rewrite A2, A3, B2, B3. auto.
Qed.
(* corresponding nodes determine each other *)
Lemma corrF_fun : forall cF cT a b x y, CInv cF -> CInv cT -> CorrF cF cT a b -> CorrF cF cT x y -> (x = a <-> y = b).
Proof.
  intros cF cT a b x y HF HT [s [A B]] [t [C D]].
  destruct (cinv_fork_get cF s a HF A) as [_ [_ A3]]. destruct (cinv_fork_get cT s b HT B) as [_ [_ B3]].
  destruct (cinv_fork_get cF t x HF C) as [_ [_ C3]]. destruct (cinv_fork_get cT t y HT D) as [_ [_ D3]].
  split; intros ->.
  - assert (t = s) by congruence. subst t. congruence.
  - assert (t = s) by congruence. subst t. congruence.
Qed.
Lemma corrC_fun : forall cF cT a b x y, CInv cF -> CInv cT -> CorrC cF cT a b -> CorrC cF cT x y -> (x = a <-> y = b).
Proof.
  intros cF cT a b x y HF HT [s [A B]] [t [C D]].
  destruct (cinv_cell_get cF s a HF A) as [_ [_ A3]]. destruct (cinv_cell_get cT s b HT B) as [_ [_ B3]].
  destruct (cinv_cell_get cF t x HF C) as [_ [_ C3]]. destruct (cinv_cell_get cT t y HT D) as [_ [_ D3]].
  split; intros ->.
  - assert (t = s) by congruence. subst t. congruence.
  - assert (t = s) by congruence. subst t. congruence.
Qed.
Lemma key_not_in : forall c s, CInv c -> dget s (forks c) = None -> ~ In (s, true) (map fst (nodesK c)).
Proof.
  intros c s HI H Hin. unfold nodesK in Hin. rewrite map_map in Hin. simpl in Hin. apply in_map_iff in Hin.
  destruct Hin as [n [E Hn]]. unfold key_of in E. injection E as E1 E2.
  rewrite <- E1 in H. rewrite cinv_fork_named in H; auto. discriminate.
Qed.

Lemma Rel_refl : forall c, Rel c c.
Proof.
  intros c. constructor; try tauto. constructor.
  - intros a b [s [A B]]. congruence.
  - intros a b [s [A B]]. assert (a = b) by congruence. subst. auto.
Qed.

(* the same node is created in both runs *)
Lemma L_node : forall cF cT name kind cF' a cT' b, CInv cF -> CInv cT -> Rel cF cT ->
  add_node cF name kind = Some (cF', a) -> add_node cT name kind = Some (cT', b) -> Rel cF' cT'.
Proof.
  intros cF cT name kind cF' a cT' b HF HT [R1 R2 R3 R4 R5 R6] HaF HaT.
  destruct (view_add_node cF name kind cF' a HF HaF) as [VF1 VF2].
  destruct (view_add_node cT name kind cT' b HT HaT) as [VT1 VT2].
  destruct (add_node_spec cF name kind cF' a HF HaF) as [HF' [EF [-> [F1 [F2 [F3 [F4 [F5 [F6 [F7 [F8 [F9 [F10 F11]]]]]]]]]]]]].
  destruct (add_node_spec cT name kind cT' b HT HaT) as [HT' [ET [-> [T1 [T2 [T3 [T4 [T5 [T6 [T7 [T8 [T9 [T10 T11]]]]]]]]]]]]].
  unfold name_free in F9, T9.
  assert (HoldF : forall x, x < nnext cF -> nst cF' x = nst cF x) by (intros x Hx; apply F7; lia).
  assert (HoldT : forall x, x < nnext cT -> nst cT' x = nst cT x) by (intros x Hx; apply T7; lia).
  constructor.
  - rewrite VF1, VF2, VT1, VT2. apply BR_node. auto.
  - intros s Hs. rewrite F10, T10. destruct (is_fork kind); auto. apply dget_app_none_iff; auto.
  - intros s. rewrite F10, T10. destruct (is_fork kind); auto. rewrite !dget_app1. specialize (R3 s).
    destruct (dget s (forks cF)), (dget s (forks cT)); auto; try congruence.
    + intros _. exfalso. apply R3; congruence.
    + destruct (String.eqb s name); auto. discriminate.
  - intros s. rewrite F11, T11. destruct (is_fork kind); auto. apply dget_app_none_iff; auto.
  - intros x y [s [A B]]. rewrite F10 in A. rewrite T10 in B. destruct (is_fork kind) eqn:Hk.
    + destruct (corr_app _ _ _ _ _ _ _ _ A B F9 T9) as [[A' B']|[-> [-> ->]]].
      * unfold outs_of. rewrite HoldF, HoldT. apply R5. exists s. auto.
        apply cinv_node_lt; auto. apply (cinv_fork_get cT s y HT B'). apply cinv_node_lt; auto. apply (cinv_fork_get cF s x HF A').
      * unfold outs_of. rewrite F8, T8. reflexivity.
    + unfold outs_of. rewrite HoldF, HoldT. apply R5. exists s. auto.
      apply cinv_node_lt; auto. apply (cinv_fork_get cT s y HT B). apply cinv_node_lt; auto. apply (cinv_fork_get cF s x HF A).
  - intros x y [s [A B]]. rewrite F11 in A. rewrite T11 in B. destruct (is_fork kind) eqn:Hk.
    + unfold kind_of, ins_of. rewrite HoldF, HoldT. apply R6. exists s. auto.
      apply cinv_node_lt; auto. apply (cinv_cell_get cT s y HT B). apply cinv_node_lt; auto. apply (cinv_cell_get cF s x HF A).
    + destruct (corr_app _ _ _ _ _ _ _ _ A B F9 T9) as [[A' B']|[-> [-> ->]]].
      * unfold kind_of, ins_of. rewrite HoldF, HoldT. apply R6. exists s. auto.
        apply cinv_node_lt; auto. apply (cinv_cell_get cT s y HT B'). apply cinv_node_lt; auto. apply (cinv_cell_get cF s x HF A').
      * unfold kind_of, ins_of. rewrite F8, T8. simpl. auto.
Qed.

(* a new fork read from corresponding cells (constant cells) *)
Lemma L_newfork : forall cF cT d d' name cF' f cT' f', CInv cF -> CInv cT -> Rel cF cT -> CorrC cF cT d d' ->
  free_index (outs_of cF d) = free_index (outs_of cT d') ->
  new_fork_from cF d None name = Some (cF', f) -> new_fork_from cT d' None name = Some (cT', f') -> Rel cF' cT'.
Proof.
  intros cF cT d d' name cF' f cT' f' HF HT [R1 R2 R3 R4 R5 R6] HC Hpin HnF HnT.
  destruct (corrC_key cF cT d d' HF HT HC) as [K1 [K2 [K3 [K4 K5]]]].
  destruct (view_new_fork cF d None name cF' f HF K2 HnF) as [VF1 VF2].
  destruct (view_new_fork cT d' None name cT' f' HT K3 HnT) as [VT1 VT2].
  assert (HdpF : forall p, @None nat = Some p -> out_at cF d p = None /\ is_fork (kind_of cF d) = false) by (intros; discriminate).
  assert (HdpT : forall p, @None nat = Some p -> out_at cT d' p = None /\ is_fork (kind_of cT d') = false) by (intros; discriminate).
  destruct (new_fork_spec cF d None name cF' f HF K2 HdpF HnF)
    as [HF' [EF [-> [F1 [F2 [F3 [F4 [F5 [F6 [F7 [F8 [F9 [F10 [F11 [F12 [F13 [F14 F15]]]]]]]]]]]]]]]]].
  destruct (new_fork_spec cT d' None name cT' f' HT K3 HdpT HnT)
    as [HT' [ET [-> [T1 [T2 [T3 [T4 [T5 [T6 [T7 [T8 [T9 [T10 [T11 [T12 [T13 [T14 T15]]]]]]]]]]]]]]]]].
  constructor.
  - rewrite VF1, VF2, VT1, VT2. simpl. rewrite K1, Hpin. apply BR_edge. apply BR_node. auto.
  - intros s Hs. rewrite F7, T7. apply dget_app_none_iff; auto.
  - intros s. rewrite F7, T7, !dget_app1. specialize (R3 s).
    destruct (dget s (forks cF)), (dget s (forks cT)); auto; try congruence.
    + intros _. exfalso. apply R3; congruence.
    + destruct (String.eqb s name); auto. discriminate.
  - intros s. rewrite F8, T8. auto.
  - intros x y [s [A B]]. rewrite F7 in A. rewrite T7 in B.
    destruct (corr_app _ _ _ _ _ _ _ _ A B F6 T6) as [[A' B']|[-> [-> ->]]].
    + destruct (cinv_fork_get cF s x HF A') as [X1 [X2 _]]. destruct (cinv_fork_get cT s y HT B') as [Y1 [Y2 _]].
      assert (x <> nnext cF) by (apply cinv_node_lt in X1; auto; lia).
      assert (y <> nnext cT) by (apply cinv_node_lt in Y1; auto; lia).
      rewrite F15, T15 by auto.
      destruct (Nat.eqb_spec x d). subst; congruence. destruct (Nat.eqb_spec y d'). subst; congruence.
      apply R5. exists s. auto.
    + rewrite F13, T13. reflexivity.
  - intros x y [s [A B]]. rewrite F8 in A. rewrite T8 in B.
    destruct (cinv_cell_get cF s x HF A) as [X1 [X2 _]]. destruct (cinv_cell_get cT s y HT B) as [Y1 [Y2 _]].
    assert (Hx : x < nnext cF) by (apply cinv_node_lt; auto). assert (Hy : y < nnext cT) by (apply cinv_node_lt; auto).
    rewrite (ext_kind cF cF'), (ext_kind cT cT') by auto. rewrite F14, T14 by lia. apply R6. exists s. auto.
Qed.

(* a line from corresponding forks to corresponding cells, both pins implicit (output ports) *)
Lemma L_outline : forall cF cT a b n n', CInv cF -> CInv cT -> Rel cF cT -> CorrF cF cT a b -> CorrC cF cT n n' ->
  Rel (fst (add_line cF a None n None)) (fst (add_line cT b None n' None)).
Proof.
  intros cF cT a b n n' HF HT [R1 R2 R3 R4 R5 R6] HA HN.
  destruct (corrF_key cF cT a b HF HT HA) as [KA1 [KA2 [KA3 [KA4 KA5]]]].
  destruct (corrC_key cF cT n n' HF HT HN) as [KN1 [KN2 [KN3 [KN4 KN5]]]].
  destruct (view_add_line cF a None n None HF) as [VF1 [VF2 _]].
  destruct (view_add_line cT b None n' None HT) as [VT1 [VT2 _]].
  pose proof (add_line_facts cF a None n None) as F. cbv zeta in F.
  destruct F as [_ [_ [_ [_ [_ [F5 [F6 [_ [_ [F8 [_ [_ [F11 [F12 _]]]]]]]]]]]]]].
  pose proof (add_line_facts cT b None n' None) as T. cbv zeta in T.
  destruct T as [_ [_ [_ [_ [_ [T5 [T6 [_ [_ [T8 [_ [_ [T11 [T12 _]]]]]]]]]]]]]].
  set (cF' := fst (add_line cF a None n None)) in *. set (cT' := fst (add_line cT b None n' None)) in *.
  clearbody cF' cT'.
  assert (Hdp : pin_of (outs_of cF a) None = pin_of (outs_of cT b) None).
  { unfold pin_of. rewrite (fork_free_index cF a), (fork_free_index cT b); auto. }
  assert (Hrp : pin_of (ins_of cF n) None = pin_of (ins_of cT n') None).
  { unfold pin_of. apply free_index_shape. apply (R6 n n' HN). }
  constructor.
  - rewrite VF1, VF2, VT1, VT2. rewrite KA1, KN1, Hdp, Hrp. apply BR_edge. auto.
  - intros s Hs. rewrite F5, T5. auto.
  - intros s. rewrite F5, T5. auto.
  - intros s. rewrite F6, T6. auto.
  - intros x y HC. pose proof HC as [s [A B]]. rewrite F5 in A. rewrite T5 in B.
    assert (HC0 : CorrF cF cT x y) by (exists s; auto).
    unfold outs_of. rewrite F11, T11. fold (outs_of cF a) (outs_of cT b) (outs_of cF x) (outs_of cT y).
    destruct (corrF_fun cF cT a b x y HF HT HA HC0) as [G1 G2].
    destruct (Nat.eqb_spec x a); destruct (Nat.eqb_spec y b); try (exfalso; tauto).
    + rewrite !length_gset. unfold pin_of in *. rewrite Hdp. rewrite (R5 a b HA). reflexivity.
    + apply R5; auto.
  - intros x y HC. pose proof HC as [s [A B]]. rewrite F6 in A. rewrite T6 in B.
    assert (HC0 : CorrC cF cT x y) by (exists s; auto).
    unfold kind_of, ins_of. rewrite F8, T8, F12, T12. fold (kind_of cF x) (kind_of cT y) (ins_of cF n) (ins_of cT n') (ins_of cF x) (ins_of cT y).
    destruct (R6 x y HC0) as [Q1 Q2]. split; auto.
    destruct (corrC_fun cF cT n n' x y HF HT HN HC0) as [G1 G2].
    destruct (Nat.eqb_spec x n); destruct (Nat.eqb_spec y n'); try (exfalso; tauto); auto.
    unfold pin_of in *. rewrite Hrp. apply shape_gset. apply (R6 n n' HN).
Qed.

(* the reader line of pass 2: directly from the fork (F), through a new branch fork (T) *)
Lemma L_reader : forall cF cT a b n n' bname cT1 bb idx, CInv cF -> CInv cT -> Rel cF cT ->
  CorrF cF cT a b -> CorrC cF cT n n' ->
  new_fork_from cT b None bname = Some (cT1, bb) -> has_tilde bname = true ->
  Rel (fst (add_line cF a None n (Some idx))) (fst (add_line cT1 bb None n' (Some idx))).
Proof.
  intros cF cT a b n n' bname cT1 bb idx HF HT [R1 R2 R3 R4 R5 R6] HA HN Hnew Htilde.
  destruct (corrF_key cF cT a b HF HT HA) as [KA1 [KA2 [KA3 [KA4 KA5]]]].
  destruct (corrC_key cF cT n n' HF HT HN) as [KN1 [KN2 [KN3 [KN4 KN5]]]].
  destruct (view_add_line cF a None n (Some idx) HF) as [VF1 [VF2 _]].
  destruct (view_new_fork cT b None bname cT1 bb HT KA3 Hnew) as [VT1 VT2].
  assert (Hdp : forall p, @None nat = Some p -> out_at cT b p = None /\ is_fork (kind_of cT b) = false) by (intros; discriminate).
  destruct (new_fork_spec cT b None bname cT1 bb HT KA3 Hdp Hnew)
    as [HT1 [ET [-> [T1 [T2 [T3 [T4 [T5 [T6 [T7 [T8 [T9 [T10 [T11 [T12 [T13 [T14 T15]]]]]]]]]]]]]]]]].
  destruct (view_add_line cT1 (nnext cT) None n' (Some idx) HT1) as [WT1 [WT2 _]].
  pose proof (add_line_facts cF a None n (Some idx)) as F. cbv zeta in F.
  destruct F as [_ [_ [_ [_ [_ [F5 [F6 [_ [_ [F8 [_ [_ [F11 [F12 _]]]]]]]]]]]]]].
  pose proof (add_line_facts cT1 (nnext cT) None n' (Some idx)) as T. cbv zeta in T.
  destruct T as [_ [_ [_ [_ [_ [U5 [U6 [_ [_ [U8 [_ [_ [U11 [U12 _]]]]]]]]]]]]]].
  set (cF' := fst (add_line cF a None n (Some idx))) in *.
  set (cT' := fst (add_line cT1 (nnext cT) None n' (Some idx))) in *. clearbody cF' cT'.
  assert (Hn'lt : n' < nnext cT) by (apply cinv_node_lt; auto).
  assert (Hpin : pin_of (outs_of cF a) None = pin_of (outs_of cT b) None).
  { unfold pin_of. rewrite (fork_free_index cF a), (fork_free_index cT b); auto. }
  assert (Hkb : key_of cT1 (nnext cT) = (bname, true)).
  { unfold key_of. rewrite T10, T11. reflexivity. }
  assert (Hkn : key_of cT1 n' = key_of cT n').
  { unfold key_of. rewrite (ext_name cT cT1), (ext_kind cT cT1); auto. }
  constructor.
  - rewrite VF1, VF2, WT1, WT2, VT1, VT2. rewrite <- app_assoc. simpl.
    rewrite Hkb, Hkn, T13. simpl. rewrite KA1, KN1. unfold pin_of in Hpin. rewrite Hpin.
    apply BR_branch; auto. apply key_not_in; auto.
  - intros s Hs. rewrite F5, U5, T7, dget_app1. specialize (R2 s Hs).
    destruct (String.eqb_spec s bname) as [->|Hne]. congruence.
    destruct (dget s (forks cT)); auto.
  - intros s Hs. rewrite F5 in Hs. rewrite U5, T7, dget_app1. specialize (R3 s Hs). destruct (dget s (forks cT)); congruence.
  - intros s. rewrite F6, U6, T8. auto.
  - intros x y [s [A B]]. rewrite F5 in A. rewrite U5, T7, dget_app1 in B.
    assert (B0 : dget s (forks cT) = Some y).
    { destruct (dget s (forks cT)) eqn:E; auto. exfalso. apply (R3 s); congruence. }
    assert (HC0 : CorrF cF cT x y) by (exists s; auto).
    destruct (cinv_fork_get cT s y HT B0) as [Y1 _].
    assert (Hyne : y <> nnext cT) by (apply cinv_node_lt in Y1; auto; lia).
    unfold outs_of at 1 2. rewrite F11, U11. fold (outs_of cF a) (outs_of cF x).
    destruct (Nat.eqb_spec y (nnext cT)). congruence.
    fold (outs_of cT1 y). rewrite T15 by auto.
    destruct (corrF_fun cF cT a b x y HF HT HA HC0) as [G1 G2].
    destruct (Nat.eqb_spec x a); destruct (Nat.eqb_spec y b); try (exfalso; tauto).
    + rewrite !length_gset. unfold pin_of in *. rewrite Hpin. rewrite (R5 a b HA). reflexivity.
    + apply R5; auto.
  - intros x y [s [A B]]. rewrite F6 in A. rewrite U6, T8 in B.
    assert (HC0 : CorrC cF cT x y) by (exists s; auto).
    destruct (cinv_cell_get cT s y HT B) as [Y1 _].
    assert (Hylt : y < nnext cT) by (apply cinv_node_lt; auto).
    unfold kind_of, ins_of. rewrite F8, U8, F12, U12.
    fold (kind_of cF x) (kind_of cT1 y) (ins_of cF n) (ins_of cT1 n') (ins_of cF x) (ins_of cT1 y).
    rewrite (ext_kind cT cT1) by auto. rewrite !T14 by lia.
    destruct (R6 x y HC0) as [Q1 Q2]. split; auto.
    destruct (corrC_fun cF cT n n' x y HF HT HN HC0) as [G1 G2].
    destruct (Nat.eqb_spec x n); destruct (Nat.eqb_spec y n'); try (exfalso; tauto); auto.
    unfold pin_of. apply shape_gset. apply (R6 n n' HN).
Qed.

Section Lock.
Variable m : vmodule.
Variable lib : tlib_pins.
Let decls := decls_of m.
Let stmts := m_stmts m.
Let items := VE.io_items decls.
Hypothesis Hinj : LibInj lib.
Hypothesis Hnf : LibNoFork lib.
Hypothesis Hpnd : PinsNoDup m.
(* no '~' in the signals on reader pins and in the declared bit names *)
Hypothesis NT1 : forall kind name pins p s0, In (VInst kind name pins) stmts -> In (p, VE.SOne s0) pins -> has_tilde s0 = false.
Hypothesis NT2 : forall kd x, In kd decls -> In x (VE.decl_names (snd kd)) -> has_tilde x = false.

Lemma p2_const_lock : forall cF cT k s0 cF1 kF1 sF cT1 kT1 sT, CInv cF -> CInv cT -> Rel cF cT -> has_tilde s0 = false ->
  p2_const (cF, k) s0 = Some ((cF1, kF1), sF) -> p2_const (cT, k) s0 = Some ((cT1, kT1), sT) ->
  Rel cF1 cT1 /\ kF1 = kT1 /\ sF = sT /\ has_tilde sF = false /\ CInv cF1 /\ CInv cT1 /\ ext cF cF1 /\ ext cT cT1.
Proof.
  intros cF cT k s0 cF1 kF1 sF cT1 kT1 sT HF HT HR Hs0 H1 H2. unfold p2_const in H1, H2. cbn [fst snd] in H1, H2.
  destruct (is_const s0) eqn:Hc.
  - destruct (String.get 3 s0) as [ch|] eqn:Hch; [|discriminate].
    destruct (add_node cF (const_name ch k) (const_kind ch)) as [[cFa cn]|] eqn:HaF; [|discriminate].
    destruct (add_node cT (const_name ch k) (const_kind ch)) as [[cTa cn']|] eqn:HaT; [|discriminate].
    destruct (new_fork_from cFa cn None (const_name ch k)) as [[cF2 f]|] eqn:HnF; [|discriminate].
    destruct (new_fork_from cTa cn' None (const_name ch k)) as [[cT2 f']|] eqn:HnT; [|discriminate].
    injection H1 as <- <- <-. injection H2 as <- <- <-.
    pose proof (L_node cF cT _ _ cFa cn cTa cn' HF HT HR HaF HaT) as HRa.
    destruct (add_node_spec cF _ _ cFa cn HF HaF) as [HFa [EFa [-> [_ [_ [F3 [_ [_ [_ [_ [F8 [F9 [_ F11]]]]]]]]]]]]].
    destruct (add_node_spec cT _ _ cTa cn' HT HaT) as [HTa [ETa [-> [_ [_ [T3 [_ [_ [_ [_ [T8 [T9 [_ T11]]]]]]]]]]]]].
    unfold name_free in F9, T9. rewrite const_kind_nofork in *.
    assert (HC : CorrC cFa cTa (nnext cF) (nnext cT)).
    { exists (const_name ch k). rewrite F11, T11, !dget_app1, F9, T9, String.eqb_refl. auto. }
    assert (Hpin : free_index (outs_of cFa (nnext cF)) = free_index (outs_of cTa (nnext cT))).
    { unfold outs_of. rewrite F8, T8. reflexivity. }
    pose proof (L_newfork cFa cTa _ _ _ cF2 f cT2 f' HFa HTa HRa HC Hpin HnF HnT) as HR2.
    assert (HinF : In (nnext cF) (nodes cFa)) by (rewrite F3; apply in_or_app; right; left; auto).
    assert (HinT : In (nnext cT) (nodes cTa)) by (rewrite T3; apply in_or_app; right; left; auto).
    assert (Hdp : forall c x p, @None nat = Some p -> out_at c x p = None /\ is_fork (kind_of c x) = false) by (intros; discriminate).
    destruct (new_fork_spec cFa _ None _ cF2 f HFa HinF (Hdp _ _) HnF) as [HF2 [EF2 _]].
    destruct (new_fork_spec cTa _ None _ cT2 f' HTa HinT (Hdp _ _) HnT) as [HT2 [ET2 _]].
    split; auto. split; auto. split; auto. split. apply const_name_no_tilde. eapply get_no_tilde; eauto.
    split; auto. split; auto. split; eapply ext_trans; eauto.
  - injection H1 as <- <- <-. injection H2 as <- <- <-.
    split; auto. split; auto. split; auto. split; auto. split; auto. split; auto. split; apply ext_refl.
Qed.

Lemma p2_resolve_lock : forall cF cT s cF2 fF cT2 fT, CInv cF -> CInv cT -> Rel cF cT -> has_tilde s = false ->
  p2_resolve decls cF s = Some (cF2, fF) -> p2_resolve decls cT s = Some (cT2, fT) ->
  Rel cF2 cT2 /\ CorrF cF2 cT2 fF fT /\ CInv cF2 /\ CInv cT2 /\ ext cF cF2 /\ ext cT cT2.
Proof.
  intros cF cT s cF2 fF cT2 fT HF HT HR Hs H1 H2. unfold p2_resolve in H1, H2.
  assert (Hnew : dget s (forks cF) = None -> dget s (forks cT) = None ->
            add_node cF s FORK = Some (cF2, fF) -> add_node cT s FORK = Some (cT2, fT) ->
            Rel cF2 cT2 /\ CorrF cF2 cT2 fF fT /\ CInv cF2 /\ CInv cT2 /\ ext cF cF2 /\ ext cT cT2).
  { intros A B HaF HaT.
    destruct (add_node_spec cF _ _ cF2 fF HF HaF) as [HF2 [EF2 [-> [_ [_ [_ [_ [_ [_ [_ [_ [_ [F10 _]]]]]]]]]]]]].
    destruct (add_node_spec cT _ _ cT2 fT HT HaT) as [HT2 [ET2 [-> [_ [_ [_ [_ [_ [_ [_ [_ [_ [T10 _]]]]]]]]]]]]].
    change (is_fork FORK) with true in *.
    split. apply (L_node cF cT s FORK cF2 (nnext cF) cT2 (nnext cT)); auto. split; auto.
    exists s. rewrite F10, T10, !dget_app1, A, B, String.eqb_refl. auto. }
  pose proof (r_forks cF cT HR s Hs) as Hag.
  destruct (dget s (forks cF)) as [f1|] eqn:A; destruct (dget s (forks cT)) as [f2|] eqn:B.
  - injection H1 as <- <-. injection H2 as <- <-. split; auto. split. exists s; auto. split; auto. split; auto. split; apply ext_refl.
  - exfalso. destruct Hag as [_ Hag]. specialize (Hag eq_refl). discriminate.
  - exfalso. destruct Hag as [Hag _]. specialize (Hag eq_refl). discriminate.
  - destruct (VE.dget s decls) as [dcl|] eqn:Hd; [|apply Hnew; auto].
    destruct (VE.decl_names dcl) as [|x [|y r]] eqn:Hn; [apply Hnew; auto| |apply Hnew; auto].
    assert (Hx : has_tilde x = false) by (apply (NT2 (s, dcl) x (ve_dget_in _ _ _ Hd)); simpl; rewrite Hn; left; auto).
    pose proof (r_forks cF cT HR x Hx) as Hagx.
    destruct (dget x (forks cF)) as [g1|] eqn:A'; destruct (dget x (forks cT)) as [g2|] eqn:B'.
    + injection H1 as <- <-. injection H2 as <- <-. split; auto. split. exists x; auto. split; auto. split; auto. split; apply ext_refl.
    + exfalso. destruct Hagx as [_ Hagx]. specialize (Hagx eq_refl). discriminate.
    + exfalso. destruct Hagx as [Hagx _]. specialize (Hagx eq_refl). discriminate.
    + apply Hnew; auto.
Qed.

Lemma p2_pin_lock : forall N cF cT k kind name pins p s cF' kF' cT' kT', CInv cF -> CInv cT ->
  Static m lib N cF -> Static m lib N cT -> In (VInst kind name pins) stmts -> In (p, s) pins -> Rel cF cT ->
  p2_pin lib decls false kind name (cF, k) (p, s) = Some (cF', kF') ->
  p2_pin lib decls true kind name (cT, k) (p, s) = Some (cT', kT') ->
  Rel cF' cT' /\ kF' = kT'.
Proof.
  intros N cF cT k kind name pins p s cF' kF' cT' kT' HF HT [_ [SF2 SF3]] [_ [ST2 _]] Hin Hp HR H1 H2.
  destruct (SF3 kind name pins p s Hin Hp) as [[idx o] Hlp].
  assert (Hk : is_fork kind = false) by (eapply lib_pin_nofork; eauto).
  destruct (lib_pin_name lib _ _ _ Hlp) as [pn ->].
  destruct (SF2 kind name pins Hin Hk) as [nF [HnF [_ HkF]]].
  destruct (ST2 kind name pins Hin Hk) as [nT [HnT [_ HkT]]].
  unfold p2_pin in H1, H2. cbn [fst snd] in H1, H2. rewrite HnF, HkF, Hlp in H1. rewrite HnT, HkT, Hlp in H2.
  destruct o.
  - injection H1 as <- <-. injection H2 as <- <-. auto.
  - destruct s as [s0|]; [|discriminate].
    assert (Hs0 : has_tilde s0 = false) by (eapply NT1; eauto).
    destruct (p2_const (cF, k) s0) as [[[cF1 kF1] sF]|] eqn:HcF; [|discriminate].
    destruct (p2_const (cT, k) s0) as [[[cT1 kT1] sT]|] eqn:HcT; [|discriminate].
    destruct (p2_const_lock cF cT k s0 cF1 kF1 sF cT1 kT1 sT HF HT HR Hs0 HcF HcT)
      as [HR1 [-> [-> [HsF [HF1 [HT1 [EF1 ET1]]]]]]].
    destruct (p2_resolve decls cF1 sT) as [[cF2 fF]|] eqn:HrF; [|discriminate].
    destruct (p2_resolve decls cT1 sT) as [[cT2 fT]|] eqn:HrT; [|discriminate].
    destruct (p2_resolve_lock cF1 cT1 sT cF2 fF cT2 fT HF1 HT1 HR1 HsF HrF HrT) as [HR2 [HCf [HF2 [HT2 [EF2 ET2]]]]].
    destruct (new_fork_from cT2 fT None (branch_name (name_of cT2 fT) (name_of cT2 nT) pn)) as [[cT3 bb]|] eqn:Hbr; [|discriminate].
    cbv beta iota in H1, H2.
    remember (fst (add_line cF2 fF None nF (Some idx))) as cF4 eqn:E4.
    remember (fst (add_line cT3 bb None nT (Some idx))) as cT4 eqn:E5.
    injection H1 as <- <-. injection H2 as <- <-. split; auto. subst cF4 cT4.
    apply (L_reader cF2 cT2 fF fT nF nT (branch_name (name_of cT2 fT) (name_of cT2 nT) pn) cT3 bb idx); auto.
    + exists name. split. apply (ex_cells cF1 cF2 EF2). apply (ex_cells cF cF1 EF1). auto.
      apply (ex_cells cT1 cT2 ET2). apply (ex_cells cT cT1 ET1). auto.
    + apply branch_name_tilde.
Qed.

Lemma fold_opt_prefix2 : forall {A A' B} (f : A -> B -> option A) (g : A' -> B -> option A')
  (I : list B -> A -> A' -> Prop) l a b a' b',
  I [] a b ->
  (forall pre x post a0 b0 a1 b1, l = pre ++ x :: post -> I pre a0 b0 -> f a0 x = Some a1 -> g b0 x = Some b1 ->
                                  I (pre ++ [x]) a1 b1) ->
  fold_opt f l a = Some a' -> fold_opt g l b = Some b' -> I l a' b'.
Proof.
  intros A A' B f g I l a b a' b' H0 Hstep.
  assert (G : forall post pre a0 b0, l = pre ++ post -> I pre a0 b0 ->
                fold_opt f post a0 = Some a' -> fold_opt g post b0 = Some b' -> I l a' b').
  { induction post as [|x post IH]; intros pre a0 b0 Hl Hpre Hf Hg; simpl in Hf, Hg.
    - inv Hf. inv Hg. rewrite app_nil_r. auto.
    - destruct (f a0 x) as [a1|] eqn:E1; [|discriminate]. destruct (g b0 x) as [b1|] eqn:E2; [|discriminate].
      apply (IH (pre ++ [x]) a1 b1); auto.
      + rewrite <- app_assoc. auto.
      + eapply Hstep; eauto. }
  intros Hf Hg. apply (G l [] a b); auto.
Qed.

Lemma p2_pins_lock : forall N Din0 cF0 cT0 k0 kind name pins cF' kF' cT' kT',
  EI m lib N Din0 cF0 -> EI m lib N Din0 cT0 -> N <= nnext cF0 -> N <= nnext cT0 ->
  Static m lib N cF0 -> Static m lib N cT0 -> In (VInst kind name pins) stmts -> NoDup (map fst pins) ->
  (forall pn, In (PName pn) (map fst pins) -> ~ In (name, pn) Din0) -> Rel cF0 cT0 ->
  fold_opt (p2_pin lib decls false kind name) pins (cF0, k0) = Some (cF', kF') ->
  fold_opt (p2_pin lib decls true kind name) pins (cT0, k0) = Some (cT', kT') ->
  EI m lib N (Din0 ++ pin_names name pins) cF' /\ EI m lib N (Din0 ++ pin_names name pins) cT' /\
  ext cF0 cF' /\ ext cT0 cT' /\ Rel cF' cT' /\ kF' = kT' /\ io cF' = io cF0 /\ io cT' = io cT0.
Proof.
  intros N Din0 cF0 cT0 k0 kind name pins cF' kF' cT' kT' EF0 ET0 HNF HNT HSF HST Hin Hnd Hnot HR HfF HfT.
  set (I := fun (pre : list (pinkey * VE.sig)) (x y : est) =>
    EI m lib N (Din0 ++ pin_names name pre) (fst x) /\ EI m lib N (Din0 ++ pin_names name pre) (fst y) /\
    ext cF0 (fst x) /\ ext cT0 (fst y) /\ Rel (fst x) (fst y) /\ snd x = snd y /\ io (fst x) = io cF0 /\ io (fst y) = io cT0).
  assert (HI : I pins (cF', kF') (cT', kT')).
  { apply (fold_opt_prefix2 (p2_pin lib decls false kind name) (p2_pin lib decls true kind name) I pins (cF0, k0) (cT0, k0)); auto.
    - unfold I. simpl. rewrite app_nil_r. split; auto. split; auto. split. apply ext_refl. split. apply ext_refl. auto.
    - intros pre [p s] post [cF kF] [cT kT] [cF1 kF1] [cT1 kT1] Hpins [I1 [I2 [I3 [I4 [I5 [I6 [I7 I8]]]]]]] HsF HsT.
      simpl in I1, I2, I3, I4, I5, I6, I7, I8. subst kT.
      pose proof (ei_cinv _ _ _ _ _ EF0) as HCF0. pose proof (ei_cinv _ _ _ _ _ ET0) as HCT0.
      pose proof (ei_cinv _ _ _ _ _ I1) as HCF. pose proof (ei_cinv _ _ _ _ _ I2) as HCT.
      assert (HNcF : N <= nnext cF) by (pose proof (ex_nn cF0 cF I3); lia).
      assert (HNcT : N <= nnext cT) by (pose proof (ex_nn cT0 cT I4); lia).
      assert (HScF : Static m lib N cF) by (apply (Static_mono m lib N cF0 cF); auto).
      assert (HScT : Static m lib N cT) by (apply (Static_mono m lib N cT0 cT); auto).
      assert (Hp : In (p, s) pins) by (rewrite Hpins; apply in_or_app; right; left; auto).
      assert (Hn : forall pn, p = PName pn -> ~ In (name, pn) (Din0 ++ pin_names name pre)).
      { intros pn -> Hc. apply in_app_or in Hc. destruct Hc as [Hc|Hc].
        - apply (Hnot pn); auto. rewrite Hpins. rewrite map_app. apply in_or_app. right. left. auto.
        - apply pin_names_in in Hc. destruct Hc as [_ Hc].
          rewrite Hpins in Hnd. rewrite map_app in Hnd. simpl in Hnd.
          eapply (NoDup_app_disj (map fst pre) (PName pn :: map fst post) (PName pn)); eauto. left; auto. }
      destruct (p2_pin_spec m lib Hinj Hnf false N _ cF kF kind name pins p s cF1 kF1 I1 HNcF HScF Hin Hp Hn HsF)
        as [A1 [A2 [A3 _]]].
      destruct (p2_pin_spec m lib Hinj Hnf true N _ cT kF kind name pins p s cT1 kT1 I2 HNcT HScT Hin Hp Hn HsT)
        as [B1 [B2 [B3 _]]].
      destruct (p2_pin_lock N cF cT kF kind name pins p s cF1 kF1 cT1 kT1 HCF HCT HScF HScT Hin Hp I5 HsF HsT) as [C1 C2].
      unfold I. simpl. rewrite pin_names_app, app_assoc. split; auto. split; auto.
      split. apply (ext_trans cF0 cF cF1); auto. split. apply (ext_trans cT0 cT cT1); auto.
      split; auto. split; auto. split; congruence. }
  destruct HI as [I1 [I2 [I3 [I4 [I5 [I6 [I7 I8]]]]]]]. simpl in *. tauto.
Qed.

Lemma p2_stmts_lock : forall N c3 k3 cF' kF' cT' kT', EI m lib N [] c3 -> N <= nnext c3 -> Static m lib N c3 ->
  fold_opt (p2_stmt lib decls false) stmts (c3, k3) = Some (cF', kF') ->
  fold_opt (p2_stmt lib decls true) stmts (c3, k3) = Some (cT', kT') ->
  EI m lib N (din stmts) cF' /\ EI m lib N (din stmts) cT' /\ ext c3 cF' /\ ext c3 cT' /\ Rel cF' cT' /\
  io cF' = io c3 /\ io cT' = io c3.
Proof.
  intros N c3 k3 cF' kF' cT' kT' E3 HN3 HS3 HfF HfT.
  set (I := fun (pre : list vstmt) (x y : est) =>
    EI m lib N (din pre) (fst x) /\ EI m lib N (din pre) (fst y) /\
    ext c3 (fst x) /\ ext c3 (fst y) /\ Rel (fst x) (fst y) /\ snd x = snd y /\ io (fst x) = io c3 /\ io (fst y) = io c3).
  assert (HI : I stmts (cF', kF') (cT', kT')).
  { apply (fold_opt_prefix2 (p2_stmt lib decls false) (p2_stmt lib decls true) I stmts (c3, k3) (c3, k3)); auto.
    - unfold I. simpl. split; auto. split; auto. split. apply ext_refl. split. apply ext_refl. split; auto. apply Rel_refl.
    - intros pre x post [cF kF] [cT kT] [cF1 kF1] [cT1 kT1] Hst [I1 [I2 [I3 [I4 [I5 [I6 [I7 I8]]]]]]] HsF HsT.
      simpl in I1, I2, I3, I4, I5, I6, I7, I8. subst kT.
      pose proof (ei_cinv _ _ _ _ _ E3) as HC3.
      assert (Hsame : cF1 = cF -> cT1 = cT -> kF1 = kT1 -> din (pre ++ [x]) = din pre -> I (pre ++ [x]) (cF1, kF1) (cT1, kT1)).
      { intros -> -> -> Hd. unfold I. simpl. rewrite Hd. tauto. }
      destruct x as [ds|kind name pins|lhs rhs]; simpl in HsF, HsT.
      + injection HsF as <- <-. injection HsT as <- <-. apply Hsame; auto. rewrite din_app. simpl. apply app_nil_r.
      + assert (Hin : In (VInst kind name pins) stmts) by (fold stmts in Hst; rewrite Hst; apply in_or_app; right; left; auto).
        assert (HNcF : N <= nnext cF) by (pose proof (ex_nn c3 cF I3); lia).
        assert (HNcT : N <= nnext cT) by (pose proof (ex_nn c3 cT I4); lia).
        assert (HScF : Static m lib N cF) by (apply (Static_mono m lib N c3 cF); auto).
        assert (HScT : Static m lib N cT) by (apply (Static_mono m lib N c3 cT); auto).
        assert (Hn : forall pn, In (PName pn) (map fst pins) -> ~ In (name, pn) (din pre)).
        { intros pn Hpn Hc. destruct HS3 as [S1 [S2 S3]].
          apply din_in in Hc. destruct Hc as [k' [pins' [Hc1 Hc2]]].
          apply in_map_iff in Hc2. destruct Hc2 as [[p' s'] [E' Hc2]]. simpl in E'. subst p'.
          apply in_map_iff in Hpn. destruct Hpn as [[p'' s''] [E'' Hpn]]. simpl in E''. subst p''.
          assert (Hin' : In (VInst k' name pins') stmts) by (fold stmts in Hst; rewrite Hst; apply in_or_app; auto).
          destruct (S3 k' name pins' _ _ Hin' Hc2) as [io' Hio']. apply (lib_pin_nofork lib Hnf) in Hio'.
          destruct (S3 kind name pins _ _ Hin Hpn) as [io'' Hio'']. apply (lib_pin_nofork lib Hnf) in Hio''.
          unfold stmts in Hst. rewrite Hst in S1. rewrite inst_names_app in S1.
          eapply (NoDup_app_disj _ _ name S1).
          - eapply inst_names_in; eauto.
          - eapply inst_names_in. left. reflexivity. auto. }
        destruct (p2_pins_lock N (din pre) cF cT kF kind name pins cF1 kF1 cT1 kT1 I1 I2 HNcF HNcT HScF HScT Hin
                    (Hpnd kind name pins Hin) Hn I5 HsF HsT) as [A1 [A2 [A3 [A4 [A5 [A6 [A7 A8]]]]]]].
        unfold I. simpl. rewrite din_app. simpl. rewrite app_nil_r. split; auto. split; auto.
        split. apply (ext_trans c3 cF cF1); auto. split. apply (ext_trans c3 cT cT1); auto.
        split; auto. split; auto. split; congruence.
      + injection HsF as <- <-. injection HsT as <- <-. apply Hsame; auto. rewrite din_app. simpl. apply app_nil_r. }
  destruct HI as [I1 [I2 [I3 [I4 [I5 [I6 [I7 I8]]]]]]]. simpl in *. tauto.
Qed.

Lemma items_names : forall (d : list (string * VE.decl)) nm k, In (nm, k) (VE.io_items d) ->
  exists kd, In kd d /\ In nm (VE.decl_names (snd kd)).
Proof.
  intros d nm k H. unfold VE.io_items in H. apply in_flat_map in H. destruct H as [kd [H1 H2]].
  exists kd. split; auto. destruct (VE.is_io (snd kd)); [|destruct H2].
  apply in_map_iff in H2. destruct H2 as [x [E Hx]]. injection E as <- _. auto.
Qed.

Lemma out_item_lock : forall cF cT it cF' cT', In it items -> CInv cF -> CInv cT -> Rel cF cT ->
  out_item cF it = Some cF' -> out_item cT it = Some cT' ->
  CInv cF' /\ CInv cT' /\ Rel cF' cT' /\ io cF' = io cF /\ io cT' = io cT.
Proof.
  intros cF cT [nm k] cF' cT' Hit HF HT HR H1 H2. unfold out_item in H1, H2. cbv beta iota zeta delta [fst snd] in H1, H2.
  destruct k; try (injection H1 as <-; injection H2 as <-; auto).
  destruct (items_names decls nm _ Hit) as [kd [K1 K2]].
  assert (Hnm : has_tilde nm = false) by (eapply NT2; eauto).
  assert (Hnm0 : has_tilde (nm ++ "[0]") = false) by (rewrite has_tilde_app, Hnm; reflexivity).
  pose proof (r_forks cF cT HR nm Hnm) as G1. pose proof (r_forks cF cT HR _ Hnm0) as G2.
  assert (Hsame : forall fn, has_tilde fn = false ->
            match dget fn (forks cF) with
            | Some f => match dget nm (cells cF) with Some n => Some (let (y, _) := add_line cF f None n None in y) | None => None end
            | None => None end = Some cF' ->
            match dget fn (forks cT) with
            | Some f => match dget nm (cells cT) with Some n => Some (let (y, _) := add_line cT f None n None in y) | None => None end
            | None => None end = Some cT' ->
            CInv cF' /\ CInv cT' /\ Rel cF' cT' /\ io cF' = io cF /\ io cT' = io cT).
  { intros fn Hn' A B.
    destruct (dget fn (forks cF)) as [fF|] eqn:A1; [|discriminate]. destruct (dget nm (cells cF)) as [nF|] eqn:A2; [|discriminate].
    destruct (dget fn (forks cT)) as [fT|] eqn:B1; [|discriminate]. destruct (dget nm (cells cT)) as [nT|] eqn:B2; [|discriminate].
    change (let (y, _) := add_line cF fF None nF None in y) with (fst (add_line cF fF None nF None)) in A.
    change (let (y, _) := add_line cT fT None nT None in y) with (fst (add_line cT fT None nT None)) in B.
    assert (HCf : CorrF cF cT fF fT) by (exists fn; auto). assert (HCn : CorrC cF cT nF nT) by (exists nm; auto).
    pose proof (L_outline cF cT fF fT nF nT HF HT HR HCf HCn) as HR'.
    destruct (corrF_key cF cT fF fT HF HT HCf) as [_ [P1 [P2 _]]]. destruct (corrC_key cF cT nF nT HF HT HCn) as [_ [P3 [P4 _]]].
    assert (Hno : forall (c : circ) (x : nat) p, @None nat = Some p -> out_at c x p = None /\ is_fork (kind_of c x) = false) by (intros; discriminate).
    assert (Hni : forall (c : circ) (x : nat) p, @None nat = Some p -> in_at c x p = None) by (intros; discriminate).
    destruct (add_line_spec cF fF None nF None HF P1 P3 (Hno _ _) (Hni _ _)) as [HF' _].
    destruct (add_line_spec cT fT None nT None HT P2 P4 (Hno _ _) (Hni _ _)) as [HT' _].
    pose proof (add_line_facts cF fF None nF None) as F. cbv zeta in F. destruct F as [_ [_ [_ [_ [_ [_ [_ [F0 _]]]]]]]].
    pose proof (add_line_facts cT fT None nT None) as T. cbv zeta in T. destruct T as [_ [_ [_ [_ [_ [_ [_ [T0 _]]]]]]]].
    remember (fst (add_line cF fF None nF None)) as xF. remember (fst (add_line cT fT None nT None)) as xT.
    injection A as <-. injection B as <-. auto. }
  destruct (dget nm (forks cF)) as [f1|] eqn:A; destruct (dget nm (forks cT)) as [f2|] eqn:B.
  - apply (Hsame nm Hnm); auto.
  - exfalso. destruct G1 as [_ G1]. specialize (G1 eq_refl). discriminate.
  - exfalso. destruct G1 as [G1 _]. specialize (G1 eq_refl). discriminate.
  - destruct (dget (nm ++ "[0]") (forks cF)) as [g1|] eqn:A'; destruct (dget (nm ++ "[0]") (forks cT)) as [g2|] eqn:B'.
    + apply (Hsame (nm ++ "[0]")%string Hnm0); auto.
    + exfalso. destruct G2 as [_ G2]. specialize (G2 eq_refl). discriminate.
    + exfalso. destruct G2 as [G2 _]. specialize (G2 eq_refl). discriminate.
    + injection H1 as <-. injection H2 as <-. auto.
Qed.

(** (e) for every module that both settings accept *)
Theorem branchforks_only_forks : forall cF cT, elab_module m lib false = Some cF -> elab_module m lib true = Some cT ->
  BfRel (nodesK cF, edges cF) (nodesK cT, edges cT) /\ io cF = io cT.
Proof.
  intros cF cT HeF HeT. unfold elab_module in HeF, HeT.
  destruct (elab_readers m lib false) as [[c4F k4F]|] eqn:H4F; [|discriminate].
  destruct (elab_readers m lib true) as [[c4T k4T]|] eqn:H4T; [|discriminate].
  unfold elab_readers in H4F, H4T. destruct (elab_assigns m lib) as [[c3 k3]|] eqn:H3; [|discriminate].
  unfold elab_assigns in H3. destruct (elab_ports m lib) as [c2|] eqn:H2; [|discriminate].
  unfold elab_ports in H2.
  destruct (VE.port_name_lists (m_ports m) (decls_of m)) as [nls|] eqn:Hnls; [|discriminate].
  destruct (elab_pass1 m lib) as [c1|] eqn:H1; [|discriminate].
  fold decls in HeF, HeT, H4F, H4T, H3, H2. fold stmts in H4F, H4T, H3. fold items in HeF, HeT, H2.
  destruct (pass1_spec m lib Hinj Hnf Hpnd c1 H1) as [P1 [P2 [P3 [P4 [P5 [P6 P7]]]]]].
  set (N := nnext c1).
  pose proof (ei_cinv _ _ _ _ _ (P1 N)) as HCI1.
  assert (HS1 : Static m lib N c1).
  { split; auto. split; auto. intros kind name pins Hin Hk. destruct (P5 kind name pins Hin Hk) as [n [A B]].
    exists n. split; auto. split; auto. apply cinv_node_lt; auto. apply (cinv_cell_get c1 name n HCI1 A). }
  destruct (ports_spec m lib (VE.positions_of nls) c1 c2 (P1 N) P2 H2) as [Q1 [Q2 _]].
  assert (HN2 : N <= nnext c2) by (apply (ex_nn c1 c2 Q2)).
  destruct (asg_loop_spec m lib N _ c2 0 _ c3 k3 (Nat.lt_succ_diag_r _) Q1 HN2 H3) as [R1 [R2 _]].
  assert (HN3 : N <= nnext c3) by (pose proof (ex_nn c2 c3 R2); lia).
  assert (HS3 : Static m lib N c3).
  { apply (Static_mono m lib N c1 c3); auto. eapply ext_trans; eauto. }
  destruct (p2_stmts_lock N c3 k3 c4F k4F c4T k4T R1 HN3 HS3 H4F H4T) as [T1 [T2 [T3 [T4 [T5 [T6 T7]]]]]].
  set (I := fun (pre : list (string * VE.skind)) (x y : circ) => CInv x /\ CInv y /\ Rel x y /\ io x = io c3 /\ io y = io c3).
  assert (HI : I items cF cT).
  { apply (fold_opt_prefix2 out_item out_item I items c4F c4T); auto.
    - unfold I. split. apply (ei_cinv _ _ _ _ _ T1). split. apply (ei_cinv _ _ _ _ _ T2). auto.
    - intros pre x post a0 b0 a1 b1 Hit [I1 [I2 [I3 [I4 I5]]]] Ha Hb.
      assert (Hin : In x items) by (rewrite Hit; apply in_or_app; right; left; auto).
      destruct (out_item_lock a0 b0 x a1 b1 Hin I1 I2 I3 Ha Hb) as [J1 [J2 [J3 [J4 J5]]]].
      unfold I. split; auto. split; auto. split; auto. split; congruence. }
  destruct HI as [I1 [I2 [I3 [I4 I5]]]]. split. apply (r_view _ _ I3). congruence.
Qed.
End Lock.

Lemma no_tilde_sound : forall m, no_tilde_b m = true ->
  (forall kind name pins p s0, In (VInst kind name pins) (m_stmts m) -> In (p, VE.SOne s0) pins -> has_tilde s0 = false) /\
  (forall kd x, In kd (decls_of m) -> In x (VE.decl_names (snd kd)) -> has_tilde x = false).
Proof.
  intros m H. unfold no_tilde_b in H. apply andb_true_iff in H. destruct H as [H1 H2].
  rewrite forallb_forall in H1, H2. split.
  - intros kind name pins p s0 Hin Hp. specialize (H1 _ Hin). simpl in H1. rewrite forallb_forall in H1.
    specialize (H1 _ Hp). simpl in H1. apply negb_true_iff in H1. auto.
  - intros kd x Hin Hx. specialize (H2 _ Hin). rewrite forallb_forall in H2. specialize (H2 _ Hx).
    apply negb_true_iff in H2. auto.
Qed.

Theorem module_branchforks : forall m lib cF cT, lib_ok_b lib = true -> pins_nodup_b m = true -> no_tilde_b m = true ->
  elab_module m lib false = Some cF -> elab_module m lib true = Some cT ->
  BfRel (nodesK cF, edges cF) (nodesK cT, edges cT) /\ io cF = io cT.
Proof.
  intros m lib cF cT Hl Hp Ht. destruct (lib_ok_sound lib Hl) as [L1 L2]. destruct (no_tilde_sound m Ht) as [T1 T2].
  apply (branchforks_only_forks m lib L1 L2 (pins_nodup_sound m Hp) T1 T2).
Qed.

(** ** what [BfRel] says as sets: the same nodes plus forks, the same lines except that a line may be split in two
    through one of the added forks; as many added forks as added lines *)
Definition split_of (e : edge) (b : string) (NT : list (nkey * string)) (ET : list edge) : Prop :=
  let '(f, j, n, idx) := e in In (f, j, (b, true), 0) ET /\ In ((b, true), 0, n, idx) ET /\ In ((b, true), FORK) NT.

Lemma bfrel_sets : forall x y, BfRel x y ->
  (forall k, In k (fst x) -> In k (fst y)) /\
  (forall k, In k (fst y) -> In k (fst x) \/ exists b e, k = ((b, true), FORK) /\ In e (snd x) /\ split_of e b (fst y) (snd y)) /\
  (forall e, In e (snd x) -> In e (snd y) \/ exists b, split_of e b (fst y) (snd y)) /\
  (forall e, In e (snd y) -> In e (snd x) \/
     exists f j b n idx, In (f, j, n, idx) (snd x) /\ split_of (f, j, n, idx) b (fst y) (snd y) /\
                         (e = (f, j, (b, true), 0) \/ e = ((b, true), 0, n, idx))) /\
  List.length (fst y) + List.length (snd x) = List.length (fst x) + List.length (snd y).
Proof.
  assert (Hmono : forall e b NT ET NT' ET', split_of e b NT ET -> (forall k, In k NT -> In k NT') ->
                    (forall k, In k ET -> In k ET') -> split_of e b NT' ET').
  { intros [[[f j] n] idx] b NT ET NT' ET' [A [B C]] H1 H2. unfold split_of. auto. }
  intros x y H. induction H as [N E|NF EF NT ET k H IH|NF EF NT ET e H IH|NF EF NT ET f j b n idx H IH Hb]; cbn [fst snd] in *.
  - repeat split; auto.
  - destruct IH as [I1 [I2 [I3 [I4 I5]]]].
    assert (Hn : forall z, In z NT -> In z (NT ++ [k])) by (intros; apply in_or_app; auto).
    split; [|split; [|split; [|split]]].
    + intros z Hz. apply in_app_or in Hz. apply in_or_app. destruct Hz; auto.
    + intros z Hz. apply in_app_or in Hz. destruct Hz as [Hz|[<-|[]]].
      * destruct (I2 z Hz) as [A|[b0 [e0 [A [B C]]]]]. left. apply in_or_app; auto.
        right. exists b0, e0. split; auto. split; auto. eapply Hmono; eauto.
      * left. apply in_or_app. right. left. auto.
    + intros z Hz. destruct (I3 z Hz) as [A|[b0 A]]; auto. right. exists b0. eapply Hmono; eauto.
    + intros z Hz. destruct (I4 z Hz) as [A|[f0 [j0 [b0 [n0 [idx0 [A [B C]]]]]]]]; auto.
      right. exists f0, j0, b0, n0, idx0. split; auto. split; auto. eapply Hmono; eauto.
    + rewrite !app_length. simpl. lia.
  - destruct IH as [I1 [I2 [I3 [I4 I5]]]].
    assert (He : forall z, In z ET -> In z (ET ++ [e])) by (intros; apply in_or_app; auto).
    split; [|split; [|split; [|split]]].
    + auto.
    + intros z Hz. destruct (I2 z Hz) as [A|[b0 [e0 [A [B C]]]]]; auto.
      right. exists b0, e0. split; auto. split. apply in_or_app; auto. eapply Hmono; eauto.
    + intros z Hz. apply in_app_or in Hz. destruct Hz as [Hz|[<-|[]]].
      * destruct (I3 z Hz) as [A|[b0 A]]. left. apply in_or_app; auto. right. exists b0. eapply Hmono; eauto.
      * left. apply in_or_app. right. left. auto.
    + intros z Hz. apply in_app_or in Hz. destruct Hz as [Hz|[<-|[]]].
      * destruct (I4 z Hz) as [A|[f0 [j0 [b0 [n0 [idx0 [A [B C]]]]]]]]. left. apply in_or_app; auto.
        right. exists f0, j0, b0, n0, idx0. split. apply in_or_app; auto. split; auto. eapply Hmono; eauto.
      * left. apply in_or_app. right. left. auto.
    + rewrite !app_length. simpl. lia.
  - destruct IH as [I1 [I2 [I3 [I4 I5]]]].
    assert (Hn : forall z, In z NT -> In z (NT ++ [((b, true), FORK)])) by (intros; apply in_or_app; auto).
    assert (He : forall z, In z ET -> In z (ET ++ [(f, j, (b, true), 0); ((b, true), 0, n, idx)])) by (intros; apply in_or_app; auto).
    assert (Hnew : split_of (f, j, n, idx) b (NT ++ [((b, true), FORK)]) (ET ++ [(f, j, (b, true), 0); ((b, true), 0, n, idx)])).
    { unfold split_of. split. apply in_or_app. right. left. auto. split. apply in_or_app. right. right. left. auto.
      apply in_or_app. right. left. auto. }
    split; [|split; [|split; [|split]]].
    + auto.
    + intros z Hz. apply in_app_or in Hz. destruct Hz as [Hz|[<-|[]]].
      * destruct (I2 z Hz) as [A|[b0 [e0 [A [B C]]]]]; auto.
        right. exists b0, e0. split; auto. split. apply in_or_app; auto. eapply Hmono; eauto.
      * right. exists b, (f, j, n, idx). split; auto. split; auto. apply in_or_app. right. left. auto.
    + intros z Hz. apply in_app_or in Hz. destruct Hz as [Hz|[<-|[]]].
      * destruct (I3 z Hz) as [A|[b0 A]]. left. apply in_or_app; auto. right. exists b0. eapply Hmono; eauto.
      * right. exists b. auto.
    + intros z Hz. apply in_app_or in Hz. destruct Hz as [Hz|Hz].
      * destruct (I4 z Hz) as [A|[f0 [j0 [b0 [n0 [idx0 [A [B C]]]]]]]]. left. apply in_or_app; auto.
        right. exists f0, j0, b0, n0, idx0. split. apply in_or_app; auto. split; auto. eapply Hmono; eauto.
      * right. exists f, j, b, n, idx. split. apply in_or_app. right. left. auto. split; auto.
        destruct Hz as [<-|[<-|[]]]; auto.
    + rewrite !app_length. simpl. lia.
Qed.

From KV Require Import Proofs.VerilogModuleExamples.
Example ex_branchforks : no_tilde_b ex_mod = true /\
  exists cF cT, elab_module ex_mod ex_lib false = Some cF /\ elab_module ex_mod ex_lib true = Some cT /\
    BfRel (nodesK cF, edges cF) (nodesK cT, edges cT) /\
    List.length (nodesK cT) = List.length (nodesK cF) + 4 /\ List.length (edges cT) = List.length (edges cF) + 4.
Proof.
  assert (Ht : no_tilde_b ex_mod = true) by (vm_compute; reflexivity). split; auto.
  assert (HF : exists c, elab_module ex_mod ex_lib false = Some c /\ List.length (nodes c) = 20 /\ List.length (lines c) = 16).
  { vm_compute. eexists. repeat split. }
  assert (HT : exists c, elab_module ex_mod ex_lib true = Some c /\ List.length (nodes c) = 24 /\ List.length (lines c) = 20).
  { vm_compute. eexists. repeat split. }
  destruct HF as [cF [HF [F1 F2]]]. destruct HT as [cT [HT [T1 T2]]]. exists cF, cT. split; auto. split; auto.
  split. apply (module_branchforks ex_mod ex_lib cF cT); auto; vm_compute; reflexivity.
  unfold nodesK, edges. rewrite !map_length. lia.
Qed.
