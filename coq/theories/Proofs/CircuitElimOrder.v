(** C10: a sufficient condition for eliminate_1to1_forks to keep the ORDER of the state elements (and hence s_nodes):
    every flip-flop / latch precedes, in Circuit.nodes, every fork that the loop removes.  (Node.remove moves the LAST
    node into the hole; the order of the state elements changes only when that last node is a state element and another
    state element sits behind the hole.) *)
From Coq Require Import List Arith Bool String NArith Lia.
From KV Require Import Model.Circuit Model.CircuitInv Model.CircuitView Model.CircuitSem
     Proofs.CircuitBase Proofs.CircuitProofs Proofs.CircuitCopy Proofs.CircuitElim Proofs.CircuitHistory
     Proofs.CircuitViewProofs Proofs.CircuitElimSem.
Import ListNotations.
Local Open Scope list_scope.

(** ** which list Node.remove leaves behind (no invariant needed) *)
Lemma renumber_nodes : forall o c i c', renumber c o i = Some c' -> nodes c' = nodes c.
Proof.
  induction o as [|[l|] r IH]; intros c i c' H; simpl in H.
  - injection H as <-. reflexivity.
  - apply IH in H. exact H.
  - discriminate.
Qed.
Lemma del_line_at_nodes : forall c i c', del_line_at c i = Some c' -> nodes c' = nodes c.
Proof.
  intros c i c' H. unfold del_line_at in H. destruct (idel (lines c) i) as [[l' [rep|]]|]; try discriminate;
    injection H as <-; reflexivity.
Qed.
Lemma line_remove_nodes : forall c l c', line_remove c l = Some c' -> nodes c' = nodes c.
Proof.
  intros c l c' H. unfold line_remove in H.
  set (L := lst c l) in *.
  destruct (match l_drv L with
            | Some d => _
            | None => Some c end) as [c2|] eqn:E1; [|discriminate].
  assert (H2 : nodes c2 = nodes c).
  { destruct (l_drv L) as [d|]; [|injection E1 as <-; reflexivity].
    destruct (is_fork _); [|injection E1 as <-; reflexivity].
    apply renumber_nodes in E1. exact E1. }
  set (c3 := match l_rdr L with Some r => _ | None => c2 end) in *.
  assert (H3 : nodes c3 = nodes c2) by (unfold c3; destruct (l_rdr L); reflexivity).
  destruct (if l_alive L then del_line_at c3 (l_index L) else Some c3) as [c4|] eqn:E4; [|discriminate].
  assert (H4 : nodes c4 = nodes c3).
  { destruct (l_alive L); [apply del_line_at_nodes in E4; exact E4|injection E4 as <-; reflexivity]. }
  injection H as <-. simpl. congruence.
Qed.
Lemma node_remove_nodes : forall c n c1, n_alive (nst c n) = true -> node_remove c n = Some c1 ->
  exists l' rep, idel (nodes c) (n_index (nst c n)) = Some (l', rep) /\ nodes c1 = l'.
Proof.
  intros c n c1 Ha H. unfold node_remove in H. rewrite Ha in H. unfold del_node_at in H.
  destruct (idel (nodes c) (n_index (nst c n))) as [[l' rep]|]; [|discriminate].
  exists l', rep. split; auto.
  destruct rep as [rep|].
  - destruct (is_fork _).
    + destruct (ddel _ _); simpl in H; [|discriminate]. injection H as <-. reflexivity.
    + destruct (ddel _ _); simpl in H; [|discriminate]. injection H as <-. reflexivity.
  - destruct (is_fork _).
    + destruct (ddel _ _); simpl in H; [|discriminate]. injection H as <-. reflexivity.
    + destruct (ddel _ _); simpl in H; [|discriminate]. injection H as <-. reflexivity.
Qed.
Lemma elim_one_nodes : forall c n c', elim_one c n = Some c' ->
  c' = c \/ exists c1, node_remove c n = Some c1 /\ nodes c' = nodes c1.
Proof.
  intros c n c' H. unfold elim_one in H.
  destruct (in_ios c n); [injection H as <-; left; reflexivity|].
  destruct (outs_of c n) as [|oo [|oo2 orest]]; try (injection H as <-; left; reflexivity).
  destruct (ins_of c n) as [|[inl|] itl]; try (injection H as <-; left; reflexivity).
  destruct oo as [out|]; [|discriminate].
  destruct (node_remove c n) as [c1|] eqn:E1; [|discriminate].
  destruct (line_remove c1 out) as [c2|] eqn:E2; [|discriminate].
  destruct (l_rdr (lst c out)) as [rd|]; [|discriminate].
  injection H as <-. right. exists c1. split; auto. simpl. apply (line_remove_nodes _ _ _ E2).
Qed.

(** ** list facts *)
Lemma filter_set_nth : forall (P : nat -> bool) l i z, i < List.length l -> P z = false -> P (nth i l 0) = false ->
  filter P (set_nth i z l) = filter P l.
Proof.
  intros P l. induction l as [|y r IH]; intros i z Hi Hz Hn; simpl in *. lia.
  destruct i as [|i]; simpl.
  - rewrite Hz, Hn. reflexivity.
  - rewrite IH by (auto; lia). reflexivity.
Qed.

Lemma state_first_b_sound : forall c, state_first_b c = true -> state_first c.
Proof.
  intros c H i j s f Hi Hj Hs Hf. unfold state_first_b in H. cbv zeta in H.
  pose proof (Proofs.CircuitBool.forallb_i_spec _ _ _ H i s Hi) as H1. simpl in H1. rewrite Hs in H1. simpl in H1.
  pose proof (Proofs.CircuitBool.forallb_i_spec _ _ _ H1 j (removable c f) (map_nth_error (removable c) j (nodes c) Hj)) as H2.
  simpl in H2. rewrite Hf in H2. simpl in H2.
  apply Nat.ltb_lt in H2. exact H2.
Qed.

(** ** one iteration keeps s_nodes (as ids, in order) and the condition *)
Lemma elim_one_order : forall c n c', CInv c -> IoLive c -> ElimOK c -> In n (nodes c) -> is_fork (kind_of c n) = true ->
  state_first c -> elim_one c n = Some c' -> CInv c' -> IoLive c' ->
  s_node_ids c' = s_node_ids c /\ state_first c' /\ (forall x, name_of c' x = name_of c x).
Proof.
  intros c n c' HI HL HOK Hn Hfk HSF He HI' HL'.
  destruct (elim_one_frame c n c' HI HOK Hn Hfk He) as [->|HF]. { split; auto. }
  pose proof (elim_frame_keep c c' n Hfk HF) as [K1 K2 K3 K4 K5].
  destruct HF as [out [inl [tl [R [p [F1 [F2 [F3 [F4 [F5 [F6 [F7 [F8 [F9 [F10 [F11 [F12 [F13 [F14 [F15 F16]]]]]]]]]]]]]]]]]]]].
  pose proof HI as [HC _]. pose proof HI' as [HC' _].
  destruct (elim_one_nodes c n c' He) as [->|[c1 [Hrm Hnodes]]]. { split; auto. }
  destruct (In_nth_error _ _ Hn) as [i Hi]. destruct (cc_nidx [] c HC i n Hi) as [Halive Hidx].
  destruct (node_remove_nodes c n c1 Halive Hrm) as [l' [rep [Hidel Hl']]]. rewrite Hidx in Hidel.
  rewrite Hl' in Hnodes. clear Hl' Hrm c1.
  assert (Hrem_n : removable c n = true).
  { unfold removable. rewrite Hfk, F10, F1. reflexivity. }
  destruct (fork_not_dff c n Hfk) as [Hnd Hnl].
  assert (Hst_n : node_is_state c n = false) by (unfold node_is_state; rewrite Hnd, Hnl; reflexivity).
  (* predicates are unchanged on the surviving nodes *)
  assert (Hstate : forall x, node_is_state c' x = node_is_state c x).
  { intros x. unfold node_is_state, node_is_dff, node_is_latch. destruct (K2 x) as [_ ->]. reflexivity. }
  assert (Hrem : forall x, x <> n -> removable c' x = removable c x).
  { intros x Hx. unfold removable. destruct (K2 x) as [_ ->].
    rewrite (in_ios_ext c c' x K1). 2:{ intros y. apply F14. }
    unfold outs_of. rewrite (F15 x Hx). reflexivity. }
  assert (Hlen : i < List.length (nodes c)) by (apply nth_error_Some; congruence).
  destruct (exists_last (l := nodes c)) as [l0 [z Hl]]. { intros E. rewrite E in Hlen. simpl in Hlen. lia. }
  rewrite Hl in Hidel. rewrite idel_app in Hidel.
  assert (Hfilt : forall P : nat -> bool, (forall x, node_is_state c x = false -> P x = false) ->
            filter P (nodes c') = filter P (nodes c) /\
            (forall k y, nth_error (nodes c') k = Some y ->
               (k <> i /\ nth_error (nodes c) k = Some y) \/ (k = i /\ node_is_state c y = false /\ i < List.length l0))).
  { intros P HP.
    destruct (Nat.eqb_spec i (List.length l0)) as [Ei|Ei].
    - injection Hidel as <- _. rewrite Hnodes, Hl.
      assert (z = n). { rewrite Hl in Hi. rewrite nth_error_app2 in Hi by lia. rewrite Ei, Nat.sub_diag in Hi. simpl in Hi. congruence. }
      subst z. split.
      + rewrite filter_app. simpl. rewrite (HP n Hst_n). rewrite app_nil_r. reflexivity.
      + intros k y Hk. left. assert (k < List.length l0) by (apply nth_error_Some; congruence).
        split; [lia|]. rewrite nth_error_app1 by lia. exact Hk.
    - rewrite Hl, app_length in Hlen. simpl in Hlen. assert (Hi0 : i < List.length l0) by lia.
      destruct (Nat.ltb_spec i (List.length l0)); [|lia].
      injection Hidel as <- _. rewrite Hnodes.
      assert (Hzpos : nth_error (nodes c) (List.length l0) = Some z).
      { rewrite Hl. rewrite nth_error_app2 by lia. rewrite Nat.sub_diag. reflexivity. }
      assert (Hz : node_is_state c z = false).
      { destruct (node_is_state c z) eqn:E; auto. pose proof (HSF _ _ z n Hzpos Hi E Hrem_n). lia. }
      assert (Hni : nth i l0 0 = n).
      { rewrite Hl in Hi. rewrite nth_error_app1 in Hi by lia. apply nth_error_nth. exact Hi. }
      split.
      + rewrite Hl, filter_app. simpl. rewrite (HP z Hz). rewrite app_nil_r.
        apply filter_set_nth; auto. rewrite Hni. apply HP; auto.
      + intros k y Hk. rewrite nth_error_set_nth in Hk by lia. destruct (Nat.eqb_spec k i).
        * right. injection Hk as <-. auto.
        * left. split; auto. rewrite Hl. assert (k < List.length l0) by (apply nth_error_Some; congruence).
          rewrite nth_error_app1 by lia. exact Hk. }
  assert (Hd : forall x, node_is_state c x = false -> node_is_dff c x = false).
  { intros x. unfold node_is_state. destruct (node_is_dff c x); simpl; congruence. }
  assert (Hla : forall x, node_is_state c x = false -> node_is_latch c x = false).
  { intros x. unfold node_is_state. destruct (node_is_latch c x); simpl; [rewrite orb_true_r|]; congruence. }
  destruct (Hfilt (node_is_dff c) Hd) as [Fd Hpos]. destruct (Hfilt (node_is_latch c) Hla) as [Fl _].
  split; [|split].
  - rewrite (s_node_ids_spec c HC HL), (s_node_ids_spec c' HC' HL').
    assert (Eio : io_ids c' = io_ids c) by (unfold io_ids; rewrite K1; reflexivity).
    rewrite Eio. f_equal. f_equal.
    + rewrite <- Fd. apply filter_ext. intros x. unfold node_is_dff. destruct (K2 x) as [_ ->]. reflexivity.
    + rewrite <- Fl. apply filter_ext. intros x. unfold node_is_latch. destruct (K2 x) as [_ ->]. reflexivity.
  - intros i' j' s f Hs Hf Hss Hrf. rewrite Hstate in Hss.
    assert (Hfn : f <> n). { intros ->. apply nth_error_In in Hf. apply F12 in Hf. tauto. }
    rewrite (Hrem f Hfn) in Hrf.
    destruct (Hpos i' s Hs) as [[Hi' Hs']|[_ [Hc _]]]; [|congruence].
    destruct (Hpos j' f Hf) as [[Hj' Hf']|[Hj' _]].
    + apply (HSF i' j' s f); auto.
    + subst j'. apply (HSF i' i s n); auto.
  - intros x. apply K2.
Qed.

Lemma elim_fold_order : forall rest c c', CInv c -> IoLive c -> ElimOK c -> NoDup rest -> state_first c ->
  (forall m, In m rest -> In m (nodes c) /\ is_fork (kind_of c m) = true) ->
  fold_opt elim_one rest c = Some c' -> s_node_ids c' = s_node_ids c /\ (forall x, name_of c' x = name_of c x).
Proof.
  induction rest as [|n rest IH]; intros c c' HI HL HOK Hnd HSF Hall Hf; simpl in Hf.
  - injection Hf as <-. auto.
  - inversion Hnd as [|? ? Hnin Hnd']; subst. destruct (Hall n (or_introl eq_refl)) as [Hn Hfk].
    destruct (elim_one_inv c n HI HOK Hn Hfk) as [c1 [Hc1 [HI1 [HOK1 [Hkeep Hio1]]]]].
    rewrite Hc1 in Hf. pose proof (Hio1 HL) as HL1.
    destruct (elim_one_order c n c1 HI HL HOK Hn Hfk HSF Hc1 HI1 HL1) as [A [B C]].
    destruct (IH c1 c' HI1 HL1 HOK1 Hnd' B) as [D E]; auto.
    + intros m Hm. destruct (Hall m (or_intror Hm)) as [P Q].
      assert (Hmn : m <> n) by (intros ->; auto).
      destruct (Hkeep m Hmn P) as [P' Q']. rewrite Q'. auto.
    + split. congruence. intros x. rewrite E. apply C.
Qed.

Theorem eliminate_order_kept : forall c c', CInv c -> IoLive c -> elim_ok_b c = true -> state_first c ->
  eliminate_1to1 c = Some c' -> s_node_ids c' = s_node_ids c /\ s_names c' = s_names c.
Proof.
  intros c c' HI HL Hok HSF He. pose proof HI as [HC HD]. unfold eliminate_1to1 in He.
  assert (Hvals : forall m, In m (map snd (forks c)) -> In m (nodes c) /\ is_fork (kind_of c m) = true).
  { intros m Hm. apply in_map_iff in Hm. destruct Hm as [[s m'] [E Hin]]. simpl in E. subst m'.
    apply (cc_forks [] c HC) in Hin. tauto. }
  destruct (elim_fold_order (map snd (forks c)) c c' HI HL) as [A B]; auto.
  - intros m Hm Hfk Hio Hlen.
    unfold elim_ok_b in Hok. rewrite forallb_forall in Hok.
    assert (Hin : In m (map snd (forks c))).
    { apply in_map_iff. exists (name_of c m, m). split; auto. apply (cc_forks [] c HC). auto. }
    specialize (Hok m Hin). rewrite Hio, Hlen in Hok. simpl in Hok.
    intros l tl Hl. rewrite Hl in Hok. exact Hok.
  - apply (dict_values_nodup (forks c) (name_of c)). apply (cc_forks_nd [] c HC).
    intros s m H. apply (cc_forks [] c HC) in H. tauto.
  - split; auto. unfold s_names. rewrite A. apply map_ext. exact B.
Qed.

(** the condition is satisfiable with forks that ARE removed: nodes [i, d1, o, f, f2], i -> f -> d1 -> f2 -> o *)
Definition kept_history : list op :=
  [AddNode "i" "input"; AddNode "d1" "DFF"; AddNode "o" "output"; AddNode "f" FORK; AddNode "f2" FORK;
   AddLine 0 None 3 None; AddLine 3 None 1 None; AddLine 1 None 4 None; AddLine 4 None 2 None; SetIO 0 0; SetIO 1 2].
Definition kept_c : circ := match run_hist kept_history with Some c => c | None => empty end.
Definition kept_c' : circ := match eliminate_1to1 kept_c with Some c => c | None => empty end.
Lemma kept_example :
  run_hist kept_history = Some kept_c /\ hist_pre empty kept_history = true /\
  CInv kept_c /\ IoLive kept_c /\ elim_ok_b kept_c = true /\ state_first kept_c /\ eliminate_1to1 kept_c = Some kept_c' /\
  List.length (nodes kept_c) = 5 /\ List.length (nodes kept_c') = 3 /\ s_names kept_c' = ["i"; "o"; "d1"]%string.
Proof.
  split. { unfold kept_c. destruct (run_hist kept_history) eqn:E; [reflexivity|vm_compute in E; discriminate]. }
  split. { vm_compute. reflexivity. }
  split. { apply Proofs.CircuitBool.cinv_b_sound. vm_compute. reflexivity. }
  split. { apply io_live_of_ok. vm_compute. reflexivity. }
  split. { vm_compute. reflexivity. }
  split. { apply state_first_b_sound. vm_compute. reflexivity. }
  split. { unfold kept_c'. destruct (eliminate_1to1 kept_c) eqn:E; [reflexivity|vm_compute in E; discriminate]. }
  split. { vm_compute. reflexivity. } split; vm_compute; reflexivity.
Qed.

(** ** D38 (fixed): forks without driver are left alone.  Nodes [i, f, s, t, g, w, o, j]: i -> f -> g -> w -> o, the forks s (never
    connected at its input: ins = []) and t (its input line j -> t was removed: ins = [None]) drive pins 1 and 2 of g.  s and t are
    forks outside the interface with exactly one reader and no driver -- what substitute / resolve_tlib_cells leave behind for an
    unconnected instance input once the clean-up has removed the other readers.  The loop removes f and w and keeps s and t; the
    loop before the fix ([eliminate_1to1_old]: `in_line = n.ins[0]`) raised on the same circuit. *)
Definition stub_history : list op :=
  [AddNode "i" "input"; AddNode "f" FORK; AddNode "s" FORK; AddNode "t" FORK; AddNode "g" "NAND3"; AddNode "w" FORK;
   AddNode "o" "output"; AddNode "j" "input";
   AddLine 0 None 1 None; AddLine 1 None 4 (Some 0); AddLine 2 None 4 (Some 1); AddLine 7 None 3 None; AddLine 3 None 4 (Some 2);
   AddLine 4 None 5 None; AddLine 5 None 6 None; RemoveLine 3; SetIO 0 0; SetIO 1 6].
Definition stub_c : circ := match run_hist stub_history with Some c => c | None => empty end.
Definition stub_c' : circ := match eliminate_1to1 stub_c with Some c => c | None => empty end.
Definition driverless_1to1 (c : circ) (n : nat) : bool :=
  mem n (nodes c) && is_fork (kind_of c n) && negb (in_ios c n) && Nat.eqb (List.length (outs_of c n)) 1 &&
  match ins_of c n with Some _ :: _ => false | _ => true end.
Lemma driverless_fork_kept :
  run_hist stub_history = Some stub_c /\ hist_pre empty (stub_history ++ [Eliminate1to1; Eliminate1to1]) = true /\
  CInv stub_c /\ IoLive stub_c /\ elim_ok_b stub_c = true /\
  ins_of stub_c 2 = [] /\ ins_of stub_c 3 = [None] /\ driverless_1to1 stub_c 2 = true /\ driverless_1to1 stub_c 3 = true /\
  eliminate_1to1 stub_c = Some stub_c' /\ CInv stub_c' /\ IoLive stub_c' /\
  map (name_of stub_c) (nodes stub_c) = ["i"; "f"; "s"; "t"; "g"; "w"; "o"; "j"]%string /\
  map (name_of stub_c') (nodes stub_c') = ["i"; "j"; "s"; "t"; "g"; "o"]%string /\
  driverless_1to1 stub_c' 2 = true /\ driverless_1to1 stub_c' 3 = true /\
  ins_of stub_c' 2 = ins_of stub_c 2 /\ outs_of stub_c' 2 = outs_of stub_c 2 /\
  ins_of stub_c' 3 = ins_of stub_c 3 /\ outs_of stub_c' 3 = outs_of stub_c 3 /\
  List.length (lines stub_c) = 6 /\ List.length (lines stub_c') = 4 /\ s_names stub_c' = s_names stub_c /\
  option_map canon (eliminate_1to1 stub_c') = Some (canon stub_c') /\
  eliminate_1to1_old stub_c = None.
Proof.
  assert (Hc : CInv stub_c) by (apply Proofs.CircuitBool.cinv_b_sound; vm_compute; reflexivity).
  assert (Hl : IoLive stub_c) by (apply io_live_of_ok; vm_compute; reflexivity).
  assert (Hok : elim_ok_b stub_c = true) by (vm_compute; reflexivity).
  assert (He : eliminate_1to1 stub_c = Some stub_c').
  { unfold stub_c'. destruct (eliminate_1to1 stub_c) eqn:E; [reflexivity|vm_compute in E; discriminate]. }
  split. { unfold stub_c. destruct (run_hist stub_history) eqn:E; [reflexivity|vm_compute in E; discriminate]. }
  split. { vm_compute. reflexivity. }
  split; [exact Hc|]. split; [exact Hl|]. split; [exact Hok|].
  split. { vm_compute. reflexivity. } split. { vm_compute. reflexivity. }
  split. { vm_compute. reflexivity. } split. { vm_compute. reflexivity. }
  split; [exact He|].
  split. { apply Proofs.CircuitBool.cinv_b_sound. vm_compute. reflexivity. }
  split. { apply io_live_of_ok. vm_compute. reflexivity. }
  split. { vm_compute. reflexivity. } split. { vm_compute. reflexivity. }
  split. { vm_compute. reflexivity. } split. { vm_compute. reflexivity. }
  split. { vm_compute. reflexivity. } split. { vm_compute. reflexivity. }
  split. { vm_compute. reflexivity. } split. { vm_compute. reflexivity. }
  split. { vm_compute. reflexivity. } split. { vm_compute. reflexivity. }
  split. { vm_compute. reflexivity. } split. { vm_compute. reflexivity. }
  vm_compute. reflexivity.
Qed.
