(** C10: resolve_tlib_cells as ONE theorem over its loop.

    [rsol lib M c stim v] (Model/CircuitResolveSem.v): [v] solves [c] with EVERY node of a library kind read through its implementation.
    One iteration ([resolve_step]): for a live instance [u] of a library kind, the result [c1] of substitute has the same [rsol]
    solutions as [c] -- the instance [u] has moved from "read through its implementation" into the netlist, all OTHER library
    instances are still read through theirs (Proofs/CircuitResolveGlue.v for the state before the clean-up, Proofs/CircuitResolveDang.v
    for the clean-up, which may delete unresolved library instances).  The loop ([resolve_loop]) iterates this along the node
    snapshot, skipping removed instances as the code does; when it ends no node of a library kind is left, so [rsol] is [csol]. *)
From Coq Require Import List Arith Bool String NArith Lia.
From KV Require Model.Prims Model.Netlist Model.NetlistWf Model.SimOps Model.NetlistSem Model.AllocCheck Proofs.SemProofs Proofs.WfCheck.
From KV Require Import Model.Circuit Model.CircuitInv Model.CircuitView Model.CircuitSem Model.CircuitSubstSem Model.CircuitSubstSem2
     Model.CircuitResolveSem
     Proofs.CircuitBase Proofs.CircuitProofs Proofs.CircuitBool Proofs.CircuitViewProofs Proofs.CircuitDangling Proofs.CircuitSubstInv
     Proofs.CircuitElimSem Proofs.CircuitSubstSem Proofs.CircuitSubstSemGen Proofs.CircuitSubstCheck Proofs.CircuitDanglingSem
     Proofs.CircuitSubstGlue Proofs.CircuitSubstMain Proofs.CircuitResolve Proofs.CircuitResolveDang Proofs.CircuitResolveGlue.
Import ListNotations.
Local Open Scope list_scope.

(** ** node ids are never reused: [nnext] does not decrease *)
Lemma fold_opt_mu : forall (A B : Type) (mu : A -> nat) (f : A -> B -> option A),
  (forall a x a', f a x = Some a' -> mu a <= mu a') -> forall l a a', fold_opt f l a = Some a' -> mu a <= mu a'.
Proof.
  intros A B mu f H l. induction l as [|x l IH]; intros a a' E; simpl in E.
  - injection E as <-. lia.
  - destruct (f a x) as [a1|] eqn:E1; [|discriminate]. pose proof (H _ _ _ E1). pose proof (IH _ _ E). lia.
Qed.
Lemma fold_opt_mu_eq : forall (A B : Type) (mu : A -> nat) (f : A -> B -> option A),
  (forall a x a', f a x = Some a' -> mu a' = mu a) -> forall l a a', fold_opt f l a = Some a' -> mu a' = mu a.
Proof.
  intros A B mu f H l. induction l as [|x l IH]; intros a a' E; simpl in E.
  - injection E as <-. reflexivity.
  - destruct (f a x) as [a1|] eqn:E1; [|discriminate]. rewrite (IH _ _ E). eauto.
Qed.

Lemma add_node_nn : forall c name kind c' id, add_node c name kind = Some (c', id) -> nnext c' = S (nnext c).
Proof.
  intros c name kind c' id H. unfold add_node in H.
  destruct (is_fork kind); [destruct (dget name (forks c))|destruct (dget name (cells c))]; try discriminate;
    injection H as <- _; reflexivity.
Qed.
Lemma node_remove_nn : forall c n c', node_remove c n = Some c' -> nnext c' = nnext c.
Proof.
  intros c n c' H. unfold node_remove in H. destruct (n_alive (nst c n)); [|injection H as <-; reflexivity].
  destruct (del_node_at c (n_index (nst c n))) as [c1|] eqn:E1; [|discriminate].
  assert (N1 : nnext c1 = nnext c).
  { unfold del_node_at in E1. destruct (idel (nodes c) (n_index (nst c n))) as [[l' [rep|]]|]; try discriminate;
      injection E1 as <-; reflexivity. }
  destruct (is_fork (n_kind (nst c n))).
  - destruct (ddel (n_name (nst c n)) (forks c1)); simpl in H; [|discriminate]. injection H as <-. exact N1.
  - destruct (ddel (n_name (nst c n)) (cells c1)); simpl in H; [|discriminate]. injection H as <-. exact N1.
Qed.
Lemma renumber_nn : forall o c i c', renumber c o i = Some c' -> nnext c' = nnext c.
Proof.
  induction o as [|[l|] o IH]; intros c i c' H; simpl in H.
  - injection H as <-. reflexivity.
  - rewrite (IH _ _ _ H). reflexivity.
  - discriminate.
Qed.
Lemma line_remove_nn : forall c l c', line_remove c l = Some c' -> nnext c' = nnext c.
Proof.
  intros c l c' H. unfold line_remove in H.
  match type of H with match ?s with _ => _ end = _ => destruct s as [c2|] eqn:E2; [|discriminate] end.
  assert (N2 : nnext c2 = nnext c).
  { destruct (l_drv (lst c l)) as [d|]; [|injection E2 as <-; reflexivity].
    match type of E2 with (if ?b then _ else _) = _ => destruct b end.
    - rewrite (renumber_nn _ _ _ _ E2). reflexivity.
    - injection E2 as <-. reflexivity. }
  match type of H with match ?s with _ => _ end = _ => destruct s as [c4|] eqn:E4; [|discriminate] end.
  injection H as <-. cbn [upd_line with_lst nnext].
  destruct (l_alive (lst c l)).
  - unfold del_line_at in E4.
    match type of E4 with match ?s with _ => _ end = _ => destruct s as [[l' [rep|]]|]; try discriminate end;
      injection E4 as <-; cbn [with_lines upd_line with_lst nnext]; destruct (l_rdr (lst c l)); exact N2.
  - injection E4 as <-. destruct (l_rdr (lst c l)); exact N2.
Qed.
Lemma remove_dangling_nn : forall fuel c root c', remove_dangling fuel c root = Some c' -> nnext c' = nnext c.
Proof.
  induction fuel as [|fuel IH]; intros c root c' H; simpl in H. discriminate.
  destruct (somes (outs_of c root)); [|injection H as <-; reflexivity].
  destruct (io_mem c root); [injection H as <-; reflexivity|].
  destruct (all_somes _) as [drivers|]; [|discriminate].
  destruct (node_remove c root) as [c1|] eqn:E1; [|discriminate].
  destruct (fold_opt line_remove (somes (ins_of c root)) c1) as [c2|] eqn:E2; [|discriminate].
  pose proof (fold_opt_mu_eq circ nat nnext (remove_dangling fuel) IH drivers c2 c' H) as P1.
  pose proof (fold_opt_mu_eq circ nat nnext line_remove line_remove_nn (somes (ins_of c root)) c1 c2 E2) as P2.
  pose proof (node_remove_nn c root c1 E1). congruence.
Qed.
Lemma cleanup_nn : forall dl c4 c', cleanup dl c4 = Some c' -> nnext c' = nnext c4.
Proof.
  intros dl c4 c' H. unfold cleanup in H.
  apply (fold_opt_mu_eq circ nat nnext (fun c' d => remove_dangling (dangling_fuel c') c' d)) with (l := dl); auto.
  intros a x a' E. eapply remove_dangling_nn; eauto.
Qed.
Lemma substitute_pre_nn : forall c u impl c4 dl m, substitute_pre c u impl = Some (c4, dl, m) -> nnext c <= nnext c4.
Proof.
  intros c u impl c4 dl m H. unfold substitute_pre in H.
  destruct (all_somes (io impl)) as [ios|]; [|discriminate].
  match type of H with match ?s with _ => _ end = _ => destruct s as [desig|]; [|discriminate] end.
  match type of H with (if ?b then _ else _) = _ => destruct b; [discriminate|] end.
  match type of H with match ?s with _ => _ end = _ => destruct s as [st0|] eqn:E0; [|discriminate] end.
  assert (N0 : nnext c <= nnext (fst st0)).
  { destruct desig as [dc|].
    - injection E0 as <-. simpl. lia.
    - destruct (node_remove c u) as [c0|] eqn:Er; simpl in E0; [|discriminate]. injection E0 as <-. simpl.
      rewrite (node_remove_nn _ _ _ Er). lia. }
  match type of H with match ?s with _ => _ end = _ => destruct s as [[c1 m1]|] eqn:E1; [|discriminate] end.
  assert (N1 : nnext (fst st0) <= nnext c1).
  { apply (fold_opt_mu _ _ (fun st : circ * list (nat * nat) => nnext (fst st)) _) in E1; auto.
    intros [a ma] x [a' ma'] E. unfold subst_add_nodes in E. simpl.
    repeat match type of E with
           | (if ?b then _ else _) = _ => destruct b
           | match ?s with _ => _ end = _ => destruct s eqn:?
           end; try discriminate; try (injection E as <- _; lia);
      match goal with Ha : add_node _ _ _ = Some _ |- _ => apply add_node_nn in Ha end; injection E as <- _; lia. }
  match type of H with match ?s with _ => _ end = _ => destruct s as [c2|] eqn:E2; [|discriminate] end.
  assert (N2 : nnext c2 = nnext c1).
  { apply (fold_opt_mu_eq _ _ nnext _) in E2; auto.
    intros a x a' E. unfold subst_add_line in E.
    repeat match type of E with match ?s with _ => _ end = _ => destruct s end; injection E as <-; reflexivity. }
  match type of H with match ?s with _ => _ end = _ => destruct s as [c3|] eqn:E3; [|discriminate] end.
  assert (N3 : nnext c3 = nnext c2).
  { apply (fold_opt_mu_eq _ _ nnext _) in E3; auto.
    intros a [inn oll] a' E. unfold subst_conn_in in E.
    repeat match type of E with match ?s with _ => _ end = _ => destruct s end; try discriminate; injection E as <-; reflexivity. }
  match type of H with match ?s with _ => _ end = _ => destruct s as [[c4' dl']|] eqn:E4; [|discriminate] end.
  injection H as <- _ _.
  assert (N4 : nnext c4' = nnext c3).
  { apply (fold_opt_mu_eq _ _ (fun st : circ * list nat => nnext (fst st)) _) in E4; auto.
    intros [a da] [ol oll] [a' da'] E. unfold subst_conn_out in E. simpl.
    repeat match type of E with
           | (if ?b then _ else _) = _ => destruct b
           | match ?s with _ => _ end = _ => destruct s
           end; try discriminate; injection E as <- _; reflexivity. }
  simpl in *. lia.
Qed.
Lemma substitute_nn : forall c u impl c', substitute c u impl = Some c' -> nnext c <= nnext c'.
Proof.
  intros c u impl c' H. destruct (substitute_pre_success c u impl c' H) as [c4 [dl [m [A B]]]].
  rewrite (cleanup_nn _ _ _ B). eapply substitute_pre_nn; eauto.
Qed.

(** ** what the boolean hypotheses on the library table say *)
Lemma lib_ok_sem_impl : forall lib k impl, lib_ok_sem_b lib = true -> tlib_get k lib = Some impl ->
  CInv impl /\ IoLive impl /\ subst_shape_b impl = true /\ pure_ports_b impl = true /\
  (forall x, In x (nodes impl) -> tlib_get (kind_of impl x) lib = None) /\ is_fork k = false.
Proof.
  intros lib k impl H Hk. unfold lib_ok_sem_b in H. rewrite !andb_true_iff in H. destruct H as [[H1 H2] H3].
  destruct (tlib_get_in _ _ _ Hk) as [k' Hin].
  rewrite forallb_forall in H3. specialize (H3 _ Hin). simpl in H3. unfold lib_impl_ok_b in H3. rewrite !andb_true_iff in H3.
  destruct H3 as [[[A B] C] D].
  unfold lib_flat_b in H2. rewrite forallb_forall in H2. specialize (H2 _ Hin). simpl in H2. rewrite forallb_forall in H2.
  split. apply cinv_b_sound; auto. split. apply CircuitSubstInv.io_live_of_ok; auto. split; auto. split; auto.
  split. { intros x Hx. apply is_none_true. apply H2; auto. }
  eapply lib_kind_nofork; eauto.
Qed.
Lemma lib_ok_sem_keys : forall lib, lib_ok_sem_b lib = true -> lib_keys_ok_b lib = true.
Proof. intros lib H. unfold lib_ok_sem_b in H. rewrite !andb_true_iff in H. tauto. Qed.

(** ** the host hypothesis as a proposition *)
Definition HostOk (lib : list (string * circ)) (c : circ) : Prop :=
  forall n impl, In n (nodes c) -> tlib_get (kind_of c n) lib = Some impl -> io_mem c n = false /\ d22_free_b c n impl = true.
Lemma resolve_host_ok_b_sound : forall c lib, resolve_host_ok_b c lib = true -> HostOk lib c.
Proof.
  intros c lib H n impl Hn Hk. unfold resolve_host_ok_b in H. rewrite forallb_forall in H. specialize (H n Hn). rewrite Hk in H.
  apply andb_true_iff in H. destruct H as [A B]. apply negb_true_iff in A. auto.
Qed.
Lemma d22_free_ins : forall c c' n impl, ins_of c' n = ins_of c n -> d22_free_b c' n impl = d22_free_b c n impl.
Proof. intros c c' n impl H. unfold d22_free_b. rewrite H. reflexivity. Qed.
Lemma io_mem_io : forall c c' n, io c' = io c -> io_mem c' n = io_mem c n.
Proof. intros c c' n H. unfold io_mem. rewrite H. reflexivity. Qed.

Section Loop.
Context {V : Type} (sem : BinNums.N -> V -> V -> V -> V -> V) (zero : V).
Hypothesis Hbuf : forall x a b d, sem (SimOps.lutv "BUF1") x a b d = x.
Variable lib : list (string * circ).
Hypothesis Hlib : lib_ok_sem_b lib = true.
Hypothesis Htotal : lib_total sem zero lib.
Let Hkeys : lib_keys_ok_b lib = true := lib_ok_sem_keys lib Hlib.

(* [rsol] looks at [M] only at the nodes of a library kind *)
Lemma rsol_M_ext : forall M M' c stim v,
  (forall n, In n (nodes c) -> tlib_get (kind_of c n) lib <> None -> M n = M' n) ->
  rsol sem zero lib M c stim v -> rsol sem zero lib M' c stim v.
Proof.
  intros M M' c stim v H Hs n Hn. specialize (Hs n Hn). unfold rnode_ok in *.
  destruct (tlib_get (kind_of c n) lib) eqn:E; auto. rewrite <- (H n Hn); auto. congruence.
Qed.
Lemma rsol_csol : forall M c stim v, (forall n, In n (nodes c) -> tlib_get (kind_of c n) lib = None) ->
  (rsol sem zero lib M c stim v <-> csol sem zero c stim v).
Proof.
  intros M c stim v H. split; intros Hs n Hn; specialize (Hs n Hn); unfold rnode_ok in *; rewrite (H n Hn) in *; exact Hs.
Qed.

(** *** one iteration *)
Definition StepR (M : nat -> list (nat * nat)) (c : circ) (u : nat) (c' : circ) : Prop :=
  CInv c' /\ IoLive c' /\ io c' = io c /\ nnext c <= nnext c' /\ name_of c' u = name_of c u /\
  (forall n, In n (nodes c') ->
     (In n (nodes c) /\ n <> u /\ name_of c' n = name_of c n /\ kind_of c' n = kind_of c n /\ ins_of c' n = ins_of c n) \/
     (tlib_get (kind_of c' n) lib = None /\ (n = u \/ nnext c <= n))) /\
  (forall stim v, rsol sem zero lib M c stim v ->
     exists v', rsol sem zero lib M c' stim v' /\
                forall n k, In n (nodes c) -> n <> u -> In n (nodes c') -> obs zero c' v' n k = obs zero c v n k) /\
  (forall stim v', rsol sem zero lib M c' stim v' ->
     exists v, rsol sem zero lib M c stim v /\
               forall n k, In n (nodes c) -> n <> u -> In n (nodes c') -> obs zero c' v' n k = obs zero c v n k).

Theorem resolve_step : forall c u impl c4 dl m c' M,
  CInv c -> IoLive c -> In u (nodes c) -> tlib_get (kind_of c u) lib = Some impl ->
  io_mem c u = false -> d22_free_b c u impl = true ->
  substitute_pre c u impl = Some (c4, dl, m) -> cleanup dl c4 = Some c' -> M u = m ->
  StepR M c u c'.
Proof.
  intros c u impl c4 dl m c' M HI HL Hu Hku Hport Hd22 Hpre Hcl HMu.
  destruct (lib_ok_sem_impl lib _ impl Hlib Hku) as [HII [HIL [Hshape [Hpure [Hflat Hcell]]]]].
  destruct (substitute_pre_glue c u impl c4 dl m HI Hu Hcell Hport HII HIL Hshape (pure_ports_b_sound impl Hpure) Hpre)
    as [HI4 [HL4 [HG Hdl]]]. specialize (HL4 HL).
  pose proof (subst_shape_forks impl Hshape) as Hforks.
  destruct (cleanup_rsol sem zero lib M Hkeys Htotal dl c4 c' HI4 HL4 Hdl Hcl) as [HI' [HL' HD]].
  destruct HD as [D1 D2 D3 D4 D5 D6 D7 D8].
  pose proof (glue_r_fwd sem zero Hbuf c u impl m c4 HI HL Hu Hport HII HIL Hforks HI4 HL4 HG Hd22 lib M Hkeys Hflat Hku HMu) as Gf.
  pose proof (glue_r_bwd sem zero Hbuf c u impl m c4 HI HL Hu Hport HII HIL Hforks HI4 HL4 HG Hd22 lib M Hkeys Hflat Hku HMu) as Gb.
  split; [exact HI'|]. split; [exact HL'|]. split. { rewrite D1. exact (sg_io _ _ _ _ _ HG). }
  split. { rewrite (cleanup_nn _ _ _ Hcl). eapply substitute_pre_nn; eauto. }
  split. { destruct (D2 u) as [A _]. rewrite A. exact (sg_uname _ _ _ _ _ HG). }
  split.
  { intros n Hn. pose proof (D3 n Hn) as Hn4. destruct (D2 n) as [N1 N2]. destruct (D5 n Hn) as [_ I5].
    apply (sg_nodes _ _ _ _ _ HG) in Hn4. destruct Hn4 as [[A B]|[x Hx]].
    - left. destruct (sg_host _ _ _ _ _ HG n A B) as [K [Nm [I _]]]. split; auto. split; auto.
      split. congruence. split; congruence.
    - right. split.
      + rewrite N2. apply (gr_copy_plain c u impl m c4 HG lib Hkeys Hflat x n Hx).
      + destruct (sg_rng _ _ _ _ _ HG x n Hx) as [_ [_ R]]. exact R. }
  split.
  - intros stim v Hs. destruct (Gf stim v Hs) as [v4 [S4 Hv4]]. exists v4. split; [apply D7; exact S4|].
    intros n k Hn Hne Hn2. rewrite <- (obs_host V zero c u impl m c4 v v4 HI HG Hv4 n k Hn Hne). symmetry.
    destruct (D5 n Hn2) as [_ E]. apply (obs_keep zero c4 c' v4 v4 n k HI' Hn2 E). auto.
  - intros stim v' Hs. destruct (D8 stim v' Hs) as [v4 [S4 Hag]]. exists v4. split; [apply Gb; exact S4|].
    intros n k Hn Hne Hn2. rewrite <- (obs_host V zero c u impl m c4 v4 v4 HI HG (fun l _ => eq_refl) n k Hn Hne). symmetry.
    destruct (D5 n Hn2) as [_ E]. apply (obs_keep zero c4 c' v4 v' n k HI' Hn2 E). exact Hag.
Qed.

(** *** the loop *)
Definition Keep (c c' : circ) (n : nat) : Prop := In n (nodes c) /\ In n (nodes c') /\ tlib_get (kind_of c n) lib = None.

Definition LoopR (ns : list nat) (c c' : circ) : Prop :=
  CInv c' /\ IoLive c' /\ io c' = io c /\ nnext c <= nnext c' /\
  (forall n, In n (nodes c') ->
     (In n (nodes c) /\ name_of c' n = name_of c n /\
      (tlib_get (kind_of c n) lib = None \/ ~ In n ns -> kind_of c' n = kind_of c n) /\
      (tlib_get (kind_of c n) lib <> None -> In n ns -> tlib_get (kind_of c' n) lib = None)) \/
     (nnext c <= n /\ tlib_get (kind_of c' n) lib = None)) /\
  exists M,
    (forall stim v, rsol sem zero lib M c stim v ->
       exists v', rsol sem zero lib M c' stim v' /\ forall n k, Keep c c' n -> obs zero c' v' n k = obs zero c v n k) /\
    (forall stim v', rsol sem zero lib M c' stim v' ->
       exists v, rsol sem zero lib M c stim v /\ forall n k, Keep c c' n -> obs zero c' v' n k = obs zero c v n k).

Lemma resolve_loop : forall ns c c', CInv c -> IoLive c -> NoDup ns -> (forall x, In x ns -> Known c x) -> HostOk lib c ->
  (forall n, In n (nodes c) -> tlib_get (kind_of c n) lib <> None -> In n ns) ->
  fold_opt (resolve_one lib) ns c = Some c' -> LoopR ns c c'.
Proof.
  induction ns as [|n0 ns IH]; intros c c' HI HL Hnd HK Hhost Hcov Hf; cbn [fold_opt] in Hf.
  - injection Hf as <-. split; auto. split; auto. split; auto. split; auto. split.
    + intros n Hn. left. split; auto. split; auto. split; auto. intros A B. exfalso. apply (Hcov n Hn A).
    + exists (fun _ => []). split; intros stim v Hs; exists v; auto.
  - inv Hnd. rename H1 into Hn0. rename H2 into Hnd.
    assert (HKt : forall x, In x ns -> Known c x) by (intros x Hx; apply HK; right; auto).
    (* the two ways of skipping a snapshot node *)
    assert (Hskip : (~ In n0 (nodes c) \/ tlib_get (kind_of c n0) lib = None) ->
                    fold_opt (resolve_one lib) ns c = Some c' -> LoopR (n0 :: ns) c c').
    { intros Hwhy Hf'.
      assert (Hcov' : forall n, In n (nodes c) -> tlib_get (kind_of c n) lib <> None -> In n ns).
      { intros n Hn A. destruct (Hcov n Hn A) as [<-|B]; auto. destruct Hwhy; contradiction. }
      destruct (IH c c' HI HL Hnd HKt Hhost Hcov' Hf') as [A1 [A2 [A3 [A4 [A5 A6]]]]].
      split; auto. split; auto. split; auto. split; auto. split; auto.
      intros n Hn. destruct (A5 n Hn) as [[B1 [B2 [B3 B4]]]|B]; [left|right; exact B].
      split; auto. split; auto. split.
      - intros [C|C]; apply B3; auto. right. intros D. apply C. right; auto.
      - intros C _. apply B4; auto. }
    unfold resolve_one at 1 in Hf. destruct (n_alive (nst c n0)) eqn:Ea.
    2:{ apply Hskip; auto. left. intros Hin. apply In_nth_error in Hin. destruct Hin as [i Hi].
        destruct (cc_nidx [] c (proj1 HI) i n0 Hi) as [A _]. congruence. }
    assert (Hu : In n0 (nodes c)).
    { destruct (HK n0 (or_introl eq_refl)) as [A|[_ [A _]]]; auto. congruence. }
    unfold resolve_one_old in Hf. destruct (tlib_get (kind_of c n0) lib) as [impl|] eqn:Hku.
    2:{ apply Hskip; auto. }
    destruct (substitute c n0 impl) as [c1|] eqn:Hs; [|discriminate].
    destruct (Hhost n0 impl Hu Hku) as [Hport Hd22].
    destruct (lib_ok_sem_impl lib _ impl Hlib Hku) as [HII [HIL [Hshape [Hpure [Hflat Hcell]]]]].
    destruct (substitute_pre_success c n0 impl c1 Hs) as [c4 [dl [m [Hpre Hcl]]]].
    destruct (substitute_core c n0 impl c1 HI Hu Hcell Hport HII HIL Hshape Hs) as [_ [_ HK1]].
    assert (Hstep : forall M, M n0 = m -> StepR M c n0 c1).
    { intros M HM. eapply resolve_step; eauto. }
    destruct (Hstep (fun _ => m) eq_refl) as [HI1 [HL1 [Hio1 [Hnn1 [Hname1 [Hprov1 _]]]]]].
    assert (HK1' : forall x, In x ns -> Known c1 x).
    { intros x Hx. apply HK1. intros ->. auto. apply HK. right; auto. }
    assert (Hhost1 : HostOk lib c1).
    { intros n impl' Hn Hk. destruct (Hprov1 n Hn) as [[A [B [_ [K I]]]]|[A _]]; [|congruence].
      rewrite K in Hk. destruct (Hhost n impl' A Hk) as [P Q]. split.
      - rewrite (io_mem_io c c1 n Hio1). exact P.
      - rewrite (d22_free_ins c c1 n impl' I). exact Q. }
    assert (Hcov1 : forall n, In n (nodes c1) -> tlib_get (kind_of c1 n) lib <> None -> In n ns).
    { intros n Hn Hk. destruct (Hprov1 n Hn) as [[A [B [_ [K _]]]]|[A _]]; [|congruence].
      rewrite K in Hk. destruct (Hcov n A Hk) as [<-|C]; auto. congruence. }
    destruct (IH c1 c' HI1 HL1 Hnd HK1' Hhost1 Hcov1 Hf) as [A1 [A2 [A3 [A4 [A5 [M' [Af Ab]]]]]]].
    split; auto. split; auto. split. congruence. split. lia.
    (* provenance of the nodes of the result *)
    assert (Hprov : forall n, In n (nodes c') ->
       (In n (nodes c) /\ name_of c' n = name_of c n /\
        (tlib_get (kind_of c n) lib = None \/ ~ In n (n0 :: ns) -> kind_of c' n = kind_of c n) /\
        (tlib_get (kind_of c n) lib <> None -> In n (n0 :: ns) -> tlib_get (kind_of c' n) lib = None)) \/
       (nnext c <= n /\ tlib_get (kind_of c' n) lib = None)).
    { intros n Hn. destruct (A5 n Hn) as [[B1 [B2 [B3 B4]]]|[B1 B2]].
      - destruct (Hprov1 n B1) as [[C1 [C2 [C3 [C4 C5]]]]|[C1 [->|C2]]].
        + left. split; auto. split. congruence. split.
          * intros [D|D]; rewrite <- C4; apply B3; [left; congruence|right; intros E; apply D; right; auto].
          * intros D [E|E]; [congruence|]. apply B4; auto. congruence.
        + left. split; auto. split. congruence. split.
          * intros [D|D]; [congruence|]. exfalso. apply D. left; auto.
          * intros _ _. rewrite (B3 (or_introl C1)). exact C1.
        + right. split; auto. rewrite (B3 (or_introl C1)). exact C1.
      - right. split; auto. lia. }
    split; [exact Hprov|].
    (* the instance map: this instance's node map, the later instances' from the rest of the loop *)
    set (M := fun n => if Nat.eqb n n0 then m else M' n).
    assert (HMn0 : M n0 = m) by (unfold M; rewrite Nat.eqb_refl; reflexivity).
    assert (HMext1 : forall n, In n (nodes c1) -> tlib_get (kind_of c1 n) lib <> None -> M n = M' n).
    { intros n Hn Hk. unfold M. destruct (Nat.eqb_spec n n0) as [->|]; auto. exfalso. apply Hn0. apply Hcov1; auto. }
    assert (HMext' : forall n, In n (nodes c') -> tlib_get (kind_of c' n) lib <> None -> M n = M' n).
    { intros n Hn Hk. unfold M. destruct (Nat.eqb_spec n n0) as [->|]; auto. exfalso.
      destruct (Hprov n0 Hn) as [[_ [_ [_ B4]]]|[_ B]]; [|congruence]. apply Hk. apply B4. congruence. left; auto. }
    assert (HMsym1 : forall n, In n (nodes c1) -> tlib_get (kind_of c1 n) lib <> None -> M' n = M n)
      by (intros; symmetry; auto).
    assert (HMsym' : forall n, In n (nodes c') -> tlib_get (kind_of c' n) lib <> None -> M' n = M n)
      by (intros; symmetry; auto).
    destruct (Hstep M HMn0) as [_ [_ [_ [_ [_ [_ [Sf Sb]]]]]]].
    (* a kept node is kept by both halves *)
    assert (Hkeep : forall n, Keep c c' n -> n <> n0 /\ In n (nodes c1) /\ Keep c1 c' n).
    { intros n [K1 [K2 K3]].
      assert (Hne : n <> n0) by (intros ->; congruence).
      assert (Hn1 : In n (nodes c1)).
      { destruct (A5 n K2) as [[B _]|[B _]]; auto. pose proof (cc_nb [] c (proj1 HI) n (or_introl K1)). lia. }
      split; auto. split; auto. split; auto. split; auto.
      destruct (Hprov1 n Hn1) as [[_ [_ [_ [K _]]]]|[A _]]; congruence. }
    exists M. split.
    + intros stim v Hr. destruct (Sf stim v Hr) as [v1 [R1 O1]].
      destruct (Af stim v1 (rsol_M_ext M M' c1 stim v1 HMext1 R1)) as [v' [R' O']].
      exists v'. split. { apply (rsol_M_ext M' M c' stim v' HMsym' R'). }
      intros n k Hk. destruct (Hkeep n Hk) as [Hne [Hn1 Hk1]]. rewrite (O' n k Hk1). apply O1; auto. apply Hk.
    + intros stim v' Hr. destruct (Ab stim v' (rsol_M_ext M M' c' stim v' HMext' Hr)) as [v1 [R1 O1]].
      destruct (Sb stim v1 (rsol_M_ext M' M c1 stim v1 HMsym1 R1)) as [v [R O]].
      exists v. split; auto.
      intros n k Hk. destruct (Hkeep n Hk) as [Hne [Hn1 Hk1]]. rewrite (O1 n k Hk1). apply O; auto. apply Hk.
Qed.

(** *** the theorem *)
Theorem resolve_function : forall c c', CInv c -> IoLive c -> resolve_host_ok_b c lib = true ->
  resolve_tlib c lib = Some c' ->
  CInv c' /\ IoLive c' /\ io c' = io c /\
  (forall n, In n (nodes c') -> tlib_get (kind_of c' n) lib = None) /\
  (forall n, In n (nodes c') ->
     (In n (nodes c) /\ name_of c' n = name_of c n /\ (tlib_get (kind_of c n) lib = None -> kind_of c' n = kind_of c n)) \/
     nnext c <= n) /\
  exists M,
    (forall stim v, rsol sem zero lib M c stim v ->
       exists v', csol sem zero c' stim v' /\ forall n k, Keep c c' n -> obs zero c' v' n k = obs zero c v n k) /\
    (forall stim v', csol sem zero c' stim v' ->
       exists v, rsol sem zero lib M c stim v /\ forall n k, Keep c c' n -> obs zero c' v' n k = obs zero c v n k).
Proof.
  intros c c' HI HL Hhost Hr. unfold resolve_tlib in Hr.
  destruct (resolve_loop (nodes c) c c' HI HL (nidx_nodup [] c (proj1 HI)) (fun x Hx => or_introl Hx)
                         (resolve_host_ok_b_sound c lib Hhost) (fun n Hn _ => Hn) Hr) as [A1 [A2 [A3 [A4 [A5 [M [Af Ab]]]]]]].
  assert (Hnone : forall n, In n (nodes c') -> tlib_get (kind_of c' n) lib = None).
  { intros n Hn. destruct (A5 n Hn) as [[B1 [B2 [B3 B4]]]|[_ B]]; auto.
    destruct (tlib_get (kind_of c n) lib) eqn:E.
    - apply B4; auto. congruence.
    - rewrite (B3 (or_introl eq_refl)). exact E. }
  split; auto. split; auto. split; auto. split; auto. split.
  { intros n Hn. destruct (A5 n Hn) as [[B1 [B2 [B3 B4]]]|[B _]]; auto. left. split; auto. }
  exists M. split.
  - intros stim v Hs. destruct (Af stim v Hs) as [v' [R O]]. exists v'. split; auto. apply (rsol_csol M c' stim v' Hnone). exact R.
  - intros stim v' Hs. apply Ab. apply (rsol_csol M c' stim v' Hnone). exact Hs.
Qed.
End Loop.

(** ** the implementation has a solution for every stimulus when its view is combinationally acyclic (the scheduler theorem of C01) *)
Lemma impl_total_b_sound : forall V (sem : BinNums.N -> V -> V -> V -> V -> V) (zero : V) impl,
  CInv impl -> IoLive impl -> impl_total_b impl = true -> impl_total sem zero impl.
Proof.
  intros V sem zero impl HI HL Hb st.
  pose proof (view_wf impl HI HL) as Hwf.
  assert (Hac : NetlistWf.comb_acyclic (view impl)) by (apply (WfCheck.acyclic_b_sound _ Hwf); exact Hb).
  pose proof (SemProofs.build_ops_solution sem zero (view impl) (stim_by_pos impl st) Hwf Hac) as Hs.
  set (W := AllocCheck.iexec sem (fun x => x) (SimOps.build_ops (view impl) false)
                            (NetlistSem.init_env zero (view impl) (stim_by_pos impl st))) in *.
  exists (val_by_id impl W).
  apply (csol_view sem zero impl HI HL st (stim_by_pos impl st) (val_by_id impl W) W); [| |exact Hs].
  - intros n p Hn E. pose proof (iface_corr impl HI HL n Hn) as H. rewrite E in H. destruct H as [_ H].
    unfold stim_by_pos. rewrite H. reflexivity.
  - intros l Hl. reflexivity.
Qed.
Lemma lib_total_b_sound : forall V (sem : BinNums.N -> V -> V -> V -> V -> V) (zero : V) lib,
  lib_ok_sem_b lib = true -> lib_total_b lib = true -> lib_total sem zero lib.
Proof.
  intros V sem zero lib Hlib Ht k impl Hk.
  destruct (lib_ok_sem_impl lib k impl Hlib Hk) as [HI [HL _]].
  destruct (tlib_get_in _ _ _ Hk) as [k' Hin]. unfold lib_total_b in Ht. rewrite forallb_forall in Ht.
  apply impl_total_b_sound; auto. exact (Ht _ Hin).
Qed.

(** ** the statement with every hypothesis a boolean *)
Theorem resolve_function_checked : forall V (sem : BinNums.N -> V -> V -> V -> V -> V) (zero : V),
  (forall x a b d, sem (SimOps.lutv "BUF1") x a b d = x) ->
  forall lib c c', lib_ok_sem_b lib = true -> lib_total_b lib = true ->
  cinv_b c = true -> io_ok_b c = true -> resolve_host_ok_b c lib = true -> resolve_tlib c lib = Some c' ->
  CInv c' /\ IoLive c' /\ io c' = io c /\
  (forall n, In n (nodes c') -> tlib_get (kind_of c' n) lib = None) /\
  (forall n, In n (nodes c') ->
     (In n (nodes c) /\ name_of c' n = name_of c n /\ (tlib_get (kind_of c n) lib = None -> kind_of c' n = kind_of c n)) \/
     nnext c <= n) /\
  exists M,
    (forall stim v, rsol sem zero lib M c stim v ->
       exists v', csol sem zero c' stim v' /\ forall n k, Keep lib c c' n -> obs zero c' v' n k = obs zero c v n k) /\
    (forall stim v', csol sem zero c' stim v' ->
       exists v, rsol sem zero lib M c stim v /\ forall n k, Keep lib c c' n -> obs zero c' v' n k = obs zero c v n k).
Proof.
  intros V sem zero Hbuf lib c c' Hlib Ht Hc Hio Hhost Hr.
  apply (resolve_function sem zero Hbuf lib Hlib (lib_total_b_sound V sem zero lib Hlib Ht) c c'); auto.
  apply cinv_b_sound; auto. apply CircuitSubstInv.io_live_of_ok; auto.
Qed.
Print Assumptions resolve_function_checked.

(** ** the ports are among the nodes at which both sides observe the same values *)
Lemma resolve_ports_kept : forall lib c c', IoLive c -> IoLive c' -> io c' = io c -> resolve_host_ok_b c lib = true ->
  forall n, In (Some n) (io c) -> Keep lib c c' n.
Proof.
  intros lib c c' HL HL' Hio Hhost n Hn.
  destruct (HL _ Hn) as [n1 [E1 H1]]. injection E1 as <-.
  assert (Hn' : In (Some n) (io c')) by (rewrite Hio; exact Hn).
  destruct (HL' _ Hn') as [n2 [E2 H2]]. injection E2 as <-.
  split; auto. split; auto.
  destruct (tlib_get (kind_of c n) lib) as [impl|] eqn:E; auto. exfalso.
  destruct (resolve_host_ok_b_sound c lib Hhost n impl H1 E) as [A _].
  assert (B : io_mem c n = true).
  { unfold io_mem. apply existsb_exists. exists (Some n). split; auto. apply Nat.eqb_refl. }
  congruence.
Qed.

(** ** the trace version of the loop (what the check evaluates) is the loop *)
Lemma resolve_trace_fold : forall t ns c,
  option_map fst (resolve_trace t ns c) = fold_opt (resolve_one t) ns c.
Proof.
  intros t ns. induction ns as [|n ns IH]; intros c; cbn [resolve_trace fold_opt]; auto.
  unfold resolve_one at 1. destruct (n_alive (nst c n)); auto.
  unfold resolve_one_old. destruct (tlib_get (kind_of c n) t) as [impl|]; auto.
  rewrite substitute_split. destruct (substitute_pre c n impl) as [[[c4 dl] m]|]; auto.
  destruct (cleanup dl c4) as [c1|]; auto.
  rewrite <- IH. destruct (resolve_trace t ns c1) as [[c' tr]|]; reflexivity.
Qed.

(** ** non-vacuity: two different library cells in one host -- u2 (CELLB: a buffer) drives input A of u1 (CELLA: Y = AND2(A,B),
    Z = INV1(Y)), whose output Z is unconnected: the loop substitutes u1 (the clean-up removes the inverter), then u2 *)
Local Open Scope string_scope.
Definition rex_host : circ :=
  host_of [ AddNode "u1" "CELLA"; AddNode "u2" "CELLB"; AddNode "i0" FORK; AddNode "i1" FORK;
            AddLine 2 None 1 (Some 0); AddLine 1 (Some 0) 0 (Some 0); AddLine 3 None 0 (Some 1);
            AddNode "o0" FORK; AddLine 0 (Some 0) 4 None; SetIO 0 2; SetIO 1 3; SetIO 2 4 ].
Definition rex_lib : list (string * circ) := [("CELLA", impl_two); ("CELLB", impl_buf)].
Definition rex_result : option circ := resolve_tlib rex_host rex_lib.

Example resolve_example_sem :
  cinv_b rex_host = true /\ io_ok_b rex_host = true /\ lib_ok_sem_b rex_lib = true /\ lib_total_b rex_lib = true /\
  resolve_host_ok_b rex_host rex_lib = true /\
  all_outs_connected_b rex_host 0 impl_two = false /\
  option_map (fun c' => (map (fun n => (name_of c' n, kind_of c' n)) (nodes c'), List.length (lines c'), io c')) rex_result
  = Some ([("u1", "AND2"); ("u2", "BUF1"); ("i0", FORK); ("i1", FORK); ("o0", FORK); ("u1~Y", FORK)], 5, io rex_host) /\
  option_map (fun r => List.length (snd r)) (resolve_trace rex_lib (nodes rex_host) rex_host) = Some 2.
Proof. vm_compute. repeat split; reflexivity. Qed.
