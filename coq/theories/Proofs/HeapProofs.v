(** Proofs about sim.Heap (C08): invariant preservation, freshness, disjointness, high-water mark.

    Architecture: a heap satisfying [HInv] is represented by a list of blocks [(size, is_free)] in
    address order ([Rep]).  [alloc] and [free] are characterised on that representation. *)
From Coq Require Import List NArith Bool Arith Lia Sorted.
From KV Require Import Model.Heap Model.HeapInv.
Import ListNotations.
Local Open Scope N_scope.

(* ------------------------------------------------------------------------------------------ *)
(** * Block lists *)

Notation block := (N * bool)%type.

Fixpoint total (bl : list block) : N :=
  match bl with [] => 0 | (sz, _) :: r => sz + total r end.
Fixpoint chunks_of (s : N) (bl : list block) : list (N * N) :=
  match bl with [] => [] | (sz, _) :: r => (s, sz) :: chunks_of (s + sz) r end.
Fixpoint released_of (s : N) (bl : list block) : list N :=
  match bl with
  | [] => []
  | (sz, true) :: r => s :: released_of (s + sz) r
  | (sz, false) :: r => released_of (s + sz) r
  end.
Fixpoint used_of (s : N) (bl : list block) : list (N * N) :=
  match bl with
  | [] => []
  | (sz, true) :: r => used_of (s + sz) r
  | (sz, false) :: r => (s, sz) :: used_of (s + sz) r
  end.
(** [ok pf bl nf]: sizes positive, no two adjacent free blocks, where the block before [bl] is free
    iff [pf] and the block after is free iff [nf] *)
Fixpoint ok (pf : bool) (bl : list block) (nf : bool) : Prop :=
  match bl with
  | [] => pf && nf = false
  | (sz, f) :: r => 0 < sz /\ pf && f = false /\ ok f r nf
  end.
Definition pos (bl : list block) : Prop := Forall (fun b : block => 0 < fst b) bl.

Lemma total_app a b : total (a ++ b) = total a + total b.
Proof.
  induction a as [|[sz f] a IH]; cbn [total app]; [lia | rewrite IH; lia].
Qed.

Lemma chunks_of_app a : forall s b,
  chunks_of s (a ++ b) = chunks_of s a ++ chunks_of (s + total a) b.
Proof.
  induction a as [|[sz f] a IH]; intros s b; cbn [chunks_of total app].
  - rewrite N.add_0_r. reflexivity.
  - rewrite IH, N.add_assoc. reflexivity.
Qed.

Lemma released_of_app a : forall s b,
  released_of s (a ++ b) = released_of s a ++ released_of (s + total a) b.
Proof.
  induction a as [|[sz f] a IH]; intros s b; cbn [released_of total app].
  - rewrite N.add_0_r. reflexivity.
  - destruct f; rewrite IH, N.add_assoc; reflexivity.
Qed.

Lemma used_of_app a : forall s b,
  used_of s (a ++ b) = used_of s a ++ used_of (s + total a) b.
Proof.
  induction a as [|[sz f] a IH]; intros s b; cbn [used_of total app].
  - rewrite N.add_0_r. reflexivity.
  - destruct f; rewrite IH, N.add_assoc; reflexivity.
Qed.

Lemma pos_app a b : pos (a ++ b) <-> pos a /\ pos b.
Proof. apply Forall_app. Qed.

Lemma pos_cons sz f r : pos ((sz, f) :: r) <-> 0 < sz /\ pos r.
Proof.
  unfold pos. split.
  - intros H. inversion H; subst. auto.
  - intros [H1 H2]. constructor; auto.
Qed.

Lemma ok_app a : forall pf sz f b nf,
  ok pf (a ++ (sz, f) :: b) nf <-> ok pf a f /\ 0 < sz /\ ok f b nf.
Proof.
  induction a as [|[sz0 f0] a IH]; intros; cbn [ok app].
  - tauto.
  - rewrite IH. tauto.
Qed.

Lemma ok_pos bl : forall pf nf, ok pf bl nf -> pos bl.
Proof.
  induction bl as [|[sz f] r IH]; intros pf nf H.
  - constructor.
  - cbn [ok] in H. destruct H as (H1 & _ & H2). apply pos_cons. eauto.
Qed.

Lemma chunks_of_bound bl : forall s l sz, pos bl -> In (l, sz) (chunks_of s bl) ->
  s <= l /\ 0 < sz /\ l + sz <= s + total bl.
Proof.
  induction bl as [|[sz0 f] r IH]; intros s l sz Hp Hin; cbn [chunks_of total] in *.
  - destruct Hin.
  - apply pos_cons in Hp. destruct Hp as [Hp0 Hp].
    destruct Hin as [Hin|Hin].
    + inversion Hin; subst. lia.
    + apply IH in Hin; auto. lia.
Qed.

Lemma chunks_of_fst_bound bl : forall s l, In l (map fst (chunks_of s bl)) -> s <= l.
Proof.
  induction bl as [|[sz0 f] r IH]; intros s l Hin; cbn [chunks_of map fst] in *.
  - destruct Hin.
  - destruct Hin as [Hin|Hin]; [lia|]. apply IH in Hin. lia.
Qed.

Lemma released_of_bound bl : forall s l, pos bl -> In l (released_of s bl) ->
  s <= l /\ l < s + total bl.
Proof.
  induction bl as [|[sz0 f] r IH]; intros s l Hp Hin; cbn [released_of total] in *.
  - destruct Hin.
  - apply pos_cons in Hp. destruct Hp as [Hp0 Hp].
    destruct f.
    + destruct Hin as [Hin|Hin]; [lia|]. apply IH in Hin; auto. lia.
    + apply IH in Hin; auto. lia.
Qed.

Lemma released_of_lb bl : forall s l, In l (released_of s bl) -> s <= l.
Proof.
  induction bl as [|[sz0 f] r IH]; intros s l Hin; cbn [released_of] in *.
  - destruct Hin.
  - destruct f.
    + destruct Hin as [Hin|Hin]; [lia|]. apply IH in Hin; auto. lia.
    + apply IH in Hin; auto. lia.
Qed.

Lemma used_In_chunks bl : forall s p, In p (used_of s bl) -> In p (chunks_of s bl).
Proof.
  induction bl as [|[sz0 f] r IH]; intros s p Hin; cbn [used_of chunks_of] in *.
  - destruct Hin.
  - destruct f.
    + right. auto.
    + destruct Hin as [Hin|Hin]; [left; auto | right; auto].
Qed.

Lemma released_In_chunks bl : forall s l, In l (released_of s bl) -> In l (map fst (chunks_of s bl)).
Proof.
  induction bl as [|[sz0 f] r IH]; intros s p Hin; cbn [released_of chunks_of map fst] in *.
  - destruct Hin.
  - destruct f.
    + destruct Hin as [Hin|Hin]; [left; auto | right; auto].
    + right. auto.
Qed.

Lemma chunks_of_split bl : forall s l sz, In (l, sz) (chunks_of s bl) ->
  exists pre f post, bl = pre ++ (sz, f) :: post /\ l = s + total pre.
Proof.
  induction bl as [|[sz0 f0] r IH]; intros s l sz Hin; cbn [chunks_of] in *.
  - destruct Hin.
  - destruct Hin as [Hin|Hin].
    + inversion Hin; subst. exists [], f0, r. cbn [app total]. split; [reflexivity | lia].
    + apply IH in Hin. destruct Hin as (pre & f & post & -> & ->).
      exists ((sz0, f0) :: pre), f, post. cbn [app total]. split; [reflexivity | lia].
Qed.

Lemma used_of_split bl : forall s l sz, In (l, sz) (used_of s bl) ->
  exists pre post, bl = pre ++ (sz, false) :: post /\ l = s + total pre.
Proof.
  induction bl as [|[sz0 f0] r IH]; intros s l sz Hin; cbn [used_of] in *.
  - destruct Hin.
  - destruct f0.
    + apply IH in Hin. destruct Hin as (pre & post & -> & ->).
      exists ((sz0, true) :: pre), post. cbn [app total]. split; [reflexivity | lia].
    + destruct Hin as [Hin|Hin].
      * inversion Hin; subst. exists [], r. cbn [app total]. split; [reflexivity | lia].
      * apply IH in Hin. destruct Hin as (pre & post & -> & ->).
        exists ((sz0, false) :: pre), post. cbn [app total]. split; [reflexivity | lia].
Qed.

Lemma used_of_mid pre sz post s :
  In (s + total pre, sz) (used_of s (pre ++ (sz, false) :: post)).
Proof.
  rewrite used_of_app. apply in_or_app. right. cbn [used_of]. left. reflexivity.
Qed.

Lemma released_at pre sz f post s : pos (pre ++ (sz, f) :: post) ->
  (In (s + total pre) (released_of s (pre ++ (sz, f) :: post)) <-> f = true).
Proof.
  intros Hp. apply pos_app in Hp. destruct Hp as [Hp1 Hp2].
  apply pos_cons in Hp2. destruct Hp2 as [Hsz Hp2].
  rewrite released_of_app, in_app_iff. split.
  - intros [H|H].
    + apply released_of_bound in H; auto. lia.
    + destruct f; auto. cbn [released_of] in H. apply released_of_lb in H. lia.
  - intros ->. right. cbn [released_of]. left. reflexivity.
Qed.

(* ------------------------------------------------------------------------------------------ *)
(** * Association-list lemmas *)

Definition keys_lt (k : N) (m : list (N * N)) : Prop := Forall (fun p => fst p < k) m.
Definition keys_gt (k : N) (m : list (N * N)) : Prop := Forall (fun p => k < fst p) m.

Lemma lookup_mid a : forall k v b, keys_lt k a -> lookup k (a ++ (k, v) :: b) = Some v.
Proof.
  induction a as [|[k' v'] a IH]; intros k v b H; cbn [lookup app].
  - rewrite N.eqb_refl. reflexivity.
  - inversion H; subst. cbn [fst] in *. destruct (N.eqb_spec k k'); [lia|]. apply IH; auto.
Qed.

Lemma remove_mid a : forall k v b, keys_lt k a -> remove k (a ++ (k, v) :: b) = a ++ b.
Proof.
  induction a as [|[k' v'] a IH]; intros k v b H; cbn [remove app].
  - rewrite N.eqb_refl. reflexivity.
  - inversion H; subst. cbn [fst] in *. destruct (N.eqb_spec k k'); [lia|]. rewrite IH; auto.
Qed.

Lemma insert_mid a : forall k v v' b, keys_lt k a -> insert k v (a ++ (k, v') :: b) = a ++ (k, v) :: b.
Proof.
  induction a as [|[k0 v0] a IH]; intros k v v' b H; cbn [insert app].
  - destruct (N.ltb_spec k k); [lia|]. rewrite N.eqb_refl. reflexivity.
  - inversion H; subst. cbn [fst] in *.
    destruct (N.ltb_spec k k0); [lia|]. destruct (N.eqb_spec k k0); [lia|]. rewrite IH; auto.
Qed.

Lemma insert_new a : forall k v b, keys_lt k a -> keys_gt k b -> insert k v (a ++ b) = a ++ (k, v) :: b.
Proof.
  induction a as [|[k0 v0] a IH]; intros k v b H1 H2; cbn [insert app].
  - destruct b as [|[k1 v1] b]; cbn [insert]; [reflexivity|].
    inversion H2; subst. cbn [fst] in *. destruct (N.ltb_spec k k1); [reflexivity | lia].
  - inversion H1; subst. cbn [fst] in *.
    destruct (N.ltb_spec k k0); [lia|]. destruct (N.eqb_spec k k0); [lia|]. rewrite IH; auto.
Qed.

Lemma chunks_keys_lt bl : forall s, pos bl -> keys_lt (s + total bl) (chunks_of s bl).
Proof.
  intros s Hp. apply Forall_forall. intros [l sz] Hin. apply chunks_of_bound in Hin; auto.
  cbn [fst]. lia.
Qed.

Lemma chunks_keys_gt bl : forall s k, k < s -> keys_gt k (chunks_of s bl).
Proof.
  intros s k Hk. apply Forall_forall. intros [l sz] Hin.
  apply (in_map fst) in Hin. apply chunks_of_fst_bound in Hin. cbn [fst] in *. lia.
Qed.

Lemma lookup_In bl : forall s l sz, pos bl -> In (l, sz) (chunks_of s bl) ->
  lookup l (chunks_of s bl) = Some sz.
Proof.
  intros s l sz Hp Hin. apply chunks_of_split in Hin. destruct Hin as (pre & f & post & -> & ->).
  apply pos_app in Hp. destruct Hp as [Hp _].
  rewrite chunks_of_app. cbn [chunks_of]. apply lookup_mid. apply chunks_keys_lt; auto.
Qed.

(* ------------------------------------------------------------------------------------------ *)
(** * Representation and equivalence with [HInv] *)

Definition Rep (h : heap) (bl : list block) : Prop :=
  ok false bl true /\ chunks h = chunks_of 0 bl /\ released h = released_of 0 bl /\
  cur h = total bl /\ cur h <= mx h.

Lemma tiles_chunks_of bl : forall s, pos bl -> tiles s (chunks_of s bl) (s + total bl).
Proof.
  induction bl as [|[sz f] r IH]; intros s Hp; cbn [tiles chunks_of total].
  - lia.
  - apply pos_cons in Hp. destruct Hp as [Hsz Hp]. repeat split; auto.
    rewrite N.add_assoc. apply IH; auto.
Qed.

Lemma released_sorted bl : forall s, pos bl -> StronglySorted N.lt (released_of s bl).
Proof.
  induction bl as [|[sz f] r IH]; intros s Hp; cbn [released_of].
  - constructor.
  - apply pos_cons in Hp. destruct Hp as [Hsz Hp]. destruct f; auto.
    constructor; auto. apply Forall_forall. intros x Hx. apply released_of_lb in Hx. lia.
Qed.

Lemma Rep_HInv h bl : Rep h bl -> HInv h.
Proof.
  intros (Hok & Hch & Hrel & Hcur & Hmx).
  pose proof (ok_pos _ _ _ Hok) as Hp.
  unfold HInv, is_chunk. rewrite Hch, Hrel, Hcur. repeat split; auto.
  - pose proof (tiles_chunks_of bl 0 Hp) as H. rewrite N.add_0_l in H. exact H.
  - apply released_sorted; auto.
  - intros l. apply released_In_chunks.
  - apply chunks_of_split in H. destruct H as (pre & f & post & -> & ->).
    assert (f = true) as -> by (apply (released_at pre sz f post 0); auto).
    apply ok_app in Hok. destruct Hok as (_ & _ & Hok).
    destruct post as [|[nsz nf] post]; cbn [ok] in Hok; [discriminate|].
    destruct Hok as (Hnsz & Hnf & _). cbn in Hnf. subst nf.
    intros Hin.
    assert (H1 : pre ++ (sz, true) :: (nsz, false) :: post = (pre ++ [(sz, true)]) ++ (nsz, false) :: post)
      by (rewrite <- app_assoc; reflexivity).
    rewrite H1 in Hin, Hp.
    assert (H2 : 0 + total pre + sz = 0 + total (pre ++ [(sz, true)]))
      by (rewrite total_app; cbn [total]; lia).
    rewrite H2 in Hin. apply released_at in Hin; auto. discriminate.
  - apply chunks_of_split in H. destruct H as (pre & f & post & -> & ->).
    assert (f = true) as -> by (apply (released_at pre sz f post 0); auto).
    apply ok_app in Hok. destruct Hok as (_ & _ & Hok).
    destruct post as [|[nsz nf] post]; cbn [ok] in Hok; [discriminate|].
    destruct Hok as (Hnsz & _ & _).
    rewrite total_app. cbn [total]. lia.
  - rewrite <- Hcur. exact Hmx.
Qed.

(** from HInv to a block list *)
Definition mem (l : N) (rel : list N) : bool := existsb (N.eqb l) rel.

Lemma mem_In l rel : mem l rel = true <-> In l rel.
Proof.
  unfold mem. rewrite existsb_exists. split.
  - intros (x & Hx & He). apply N.eqb_eq in He. subst. auto.
  - intros H. exists l. split; auto. apply N.eqb_refl.
Qed.

Definition blocks_of (ch : list (N * N)) (rel : list N) : list block :=
  map (fun p => (snd p, mem (fst p) rel)) ch.

Lemma blocks_of_chunks rel ch : forall s stop, tiles s ch stop -> chunks_of s (blocks_of ch rel) = ch.
Proof.
  induction ch as [|[l sz] r IH]; intros s stop Ht; cbn [blocks_of map chunks_of fst snd].
  - reflexivity.
  - cbn [tiles] in Ht. destruct Ht as (-> & Hsz & Ht). f_equal. eapply IH; eauto.
Qed.

Lemma blocks_of_total rel ch : forall s stop, tiles s ch stop -> s + total (blocks_of ch rel) = stop.
Proof.
  induction ch as [|[l sz] r IH]; intros s stop Ht; cbn [blocks_of map total fst snd].
  - cbn [tiles] in Ht. lia.
  - cbn [tiles] in Ht. destruct Ht as (-> & Hsz & Ht). apply IH in Ht. fold (blocks_of r rel). lia.
Qed.

Lemma blocks_of_released rel ch : forall s stop, tiles s ch stop ->
  released_of s (blocks_of ch rel) = filter (fun l => mem l rel) (map fst ch).
Proof.
  induction ch as [|[l sz] r IH]; intros s stop Ht; cbn [blocks_of map released_of fst snd filter].
  - reflexivity.
  - cbn [tiles] in Ht. destruct Ht as (-> & Hsz & Ht). fold (blocks_of r rel).
    destruct (mem s rel); [f_equal|]; eapply IH; eauto.
Qed.

Lemma tiles_fst_lb ch : forall s stop l, tiles s ch stop -> In l (map fst ch) -> s <= l.
Proof.
  induction ch as [|[l0 sz] r IH]; intros s stop l Ht Hin; cbn [map fst tiles] in *.
  - destruct Hin.
  - destruct Ht as (-> & Hsz & Ht). destruct Hin as [Hin|Hin]; [lia|].
    apply (IH _ _ _ Ht) in Hin. lia.
Qed.

Lemma tiles_sorted ch : forall s stop, tiles s ch stop -> StronglySorted N.lt (map fst ch).
Proof.
  induction ch as [|[l0 sz] r IH]; intros s stop Ht; cbn [map fst tiles] in *.
  - constructor.
  - destruct Ht as (-> & Hsz & Ht). constructor; eauto.
    apply Forall_forall. intros x Hx. apply (tiles_fst_lb _ _ _ _ Ht) in Hx. lia.
Qed.

Lemma filter_sorted (f : N -> bool) l : StronglySorted N.lt l -> StronglySorted N.lt (filter f l).
Proof.
  induction 1 as [|a l Hs IH Hf]; cbn [filter].
  - constructor.
  - destruct (f a); auto. constructor; auto.
    rewrite Forall_forall in *. intros x Hx. apply filter_In in Hx. apply Hf. tauto.
Qed.

Lemma sorted_ext a : forall b, StronglySorted N.lt a -> StronglySorted N.lt b ->
  (forall x, In x a <-> In x b) -> a = b.
Proof.
  induction a as [|x a IH]; intros b Ha Hb Hab.
  - destruct b as [|y b]; auto. exfalso. apply (Hab y). left. reflexivity.
  - destruct b as [|y b]; [exfalso; apply (Hab x); left; reflexivity|].
    inversion Ha as [|? ? Ha' Hfa]; subst. inversion Hb as [|? ? Hb' Hfb]; subst.
    rewrite Forall_forall in Hfa, Hfb.
    assert (x = y).
    { destruct (proj1 (Hab x) (or_introl eq_refl)) as [E|E]; auto.
      destruct (proj2 (Hab y) (or_introl eq_refl)) as [E'|E']; auto.
      apply Hfa in E'. apply Hfb in E. lia. }
    subst y. f_equal. apply IH; auto.
    intros z. split; intros Hz.
    + destruct (proj1 (Hab z) (or_intror Hz)) as [E|E]; auto. subst z. apply Hfa in Hz. lia.
    + destruct (proj2 (Hab z) (or_intror Hz)) as [E|E]; auto. subst z. apply Hfb in Hz. lia.
Qed.

Lemma blocks_of_ok rel stop ch : forall s pf, tiles s ch stop ->
  (forall l sz, In (l, sz) ch -> In l rel -> ~ In (l + sz) rel /\ l + sz <> stop) ->
  (pf = true -> ~ In s rel /\ s <> stop) ->
  ok pf (blocks_of ch rel) true.
Proof.
  induction ch as [|[l sz] r IH]; intros s pf Ht Hco Hpf; cbn [blocks_of map ok fst snd].
  - cbn [tiles] in Ht. destruct pf; auto. exfalso. destruct Hpf; auto.
  - cbn [tiles] in Ht. destruct Ht as (-> & Hsz & Ht). fold (blocks_of r rel).
    split; auto. split.
    + destruct pf; auto. destruct (mem s rel) eqn:E; auto. apply mem_In in E.
      exfalso. destruct Hpf; auto.
    + eapply IH; eauto.
      * intros l' sz' Hin. apply Hco. right. auto.
      * intros E. apply mem_In in E. apply Hco; auto. left. reflexivity.
Qed.

Lemma HInv_Rep h : HInv h -> exists bl, Rep h bl.
Proof.
  intros (Ht & Hs & Hsub & Hco & Hmx).
  exists (blocks_of (chunks h) (released h)). unfold Rep. repeat split; auto.
  - eapply blocks_of_ok; eauto. discriminate.
  - symmetry. eapply blocks_of_chunks; eauto.
  - erewrite blocks_of_released; eauto. apply sorted_ext; auto.
    + apply filter_sorted. eapply tiles_sorted; eauto.
    + intros x. rewrite filter_In, mem_In. split; [|tauto]. intros Hx. split; auto. apply Hsub; auto.
  - pose proof (blocks_of_total (released h) _ _ _ Ht). lia.
Qed.

(* ------------------------------------------------------------------------------------------ *)
(** * Helper forms at start address 0 *)

Lemma chunks0_app a b : chunks_of 0 (a ++ b) = chunks_of 0 a ++ chunks_of (total a) b.
Proof. rewrite chunks_of_app, N.add_0_l. reflexivity. Qed.
Lemma released0_app a b : released_of 0 (a ++ b) = released_of 0 a ++ released_of (total a) b.
Proof. rewrite released_of_app, N.add_0_l. reflexivity. Qed.
Lemma used0_app a b : used_of 0 (a ++ b) = used_of 0 a ++ used_of (total a) b.
Proof. rewrite used_of_app, N.add_0_l. reflexivity. Qed.
Lemma chunks0_keys_lt bl : pos bl -> keys_lt (total bl) (chunks_of 0 bl).
Proof. intros Hp. pose proof (chunks_keys_lt bl 0 Hp) as H. rewrite N.add_0_l in H. exact H. Qed.

Lemma used0_mid pre sz post : In (total pre, sz) (used_of 0 (pre ++ (sz, false) :: post)).
Proof. rewrite used0_app. apply in_or_app. right. cbn [used_of]. left. reflexivity. Qed.

Lemma ok_weaken_nf bl : forall pf nf, ok pf bl nf -> ok pf bl false.
Proof.
  induction bl as [|[sz f] r IH]; intros pf nf H; cbn [ok] in *.
  - apply andb_false_r.
  - destruct H as (H1 & H2 & H3). eauto.
Qed.

Lemma ok_weaken_pf bl : forall pf nf, ok pf bl nf -> ok false bl nf.
Proof.
  destruct bl as [|[sz f] r]; intros pf nf H; cbn [ok] in *.
  - reflexivity.
  - destruct H as (H1 & H2 & H3). auto.
Qed.

(* ------------------------------------------------------------------------------------------ *)
(** * Live chunks on the representation *)

Lemma live_used_gen bl : forall s l, pos bl ->
  (In l (map fst (chunks_of s bl)) /\ ~ In l (released_of s bl)) <-> In l (map fst (used_of s bl)).
Proof.
  induction bl as [|[sz f] r IH]; intros s l Hp; cbn [chunks_of released_of used_of map fst].
  - cbn [In]. tauto.
  - apply pos_cons in Hp. destruct Hp as [Hsz Hp]. specialize (IH (s + sz) l Hp).
    destruct f; cbn [In map fst].
    + split.
      * intros [[H1|H1] H2]; [exfalso; apply H2; left; auto|]. apply IH. split; auto.
      * intros H. apply IH in H. destruct H as [H1 H2]. split; [right; auto|].
        intros [E|E]; auto. subst l. apply chunks_of_fst_bound in H1. lia.
    + split.
      * intros [[H1|H1] H2]; [left; auto | right; apply IH; auto].
      * intros [H|H].
        -- subst. split; [left; auto|]. intros E. apply released_of_lb in E. lia.
        -- apply IH in H. destruct H. split; auto.
Qed.

Lemma in_map_fst_iff (L : list (N * N)) l : In l (map fst L) <-> exists sz, In (l, sz) L.
Proof.
  rewrite in_map_iff. split.
  - intros ([a b] & E & H). cbn [fst] in E. subst. eauto.
  - intros (sz & H). exists (l, sz). auto.
Qed.

Lemma live_iff h bl l : Rep h bl -> (live h l <-> exists sz, In (l, sz) (used_of 0 bl)).
Proof.
  intros (Hok & Hch & Hrel & Hcur & Hmx).
  unfold live, is_chunk. rewrite Hch, Hrel, <- in_map_fst_iff.
  apply live_used_gen. eapply ok_pos; eauto.
Qed.

Lemma size_used h bl l sz : Rep h bl -> In (l, sz) (used_of 0 bl) -> size_of h l = sz.
Proof.
  intros (Hok & Hch & Hrel & Hcur & Hmx) Hin.
  unfold size_of. rewrite Hch. rewrite (lookup_In bl 0 l sz); auto.
  - eapply ok_pos; eauto.
  - apply used_In_chunks; auto.
Qed.

Lemma live_sized h bl l : Rep h bl -> live h l -> In (l, size_of h l) (used_of 0 bl).
Proof.
  intros HR Hl. pose proof Hl as Hl'. rewrite (live_iff h bl l HR) in Hl'. destruct Hl' as (sz & Hin).
  rewrite (size_used h bl l sz); auto.
Qed.

Lemma chunks_disjoint bl : forall s a sa b sb, pos bl ->
  In (a, sa) (chunks_of s bl) -> In (b, sb) (chunks_of s bl) -> a <> b ->
  a + sa <= b \/ b + sb <= a.
Proof.
  induction bl as [|[sz f] r IH]; intros s a sa b sb Hp Ha Hb Hab; cbn [chunks_of] in *.
  - destruct Ha.
  - apply pos_cons in Hp. destruct Hp as [Hsz Hp].
    destruct Ha as [Ha|Ha]; destruct Hb as [Hb|Hb].
    + inversion Ha; inversion Hb; subst. congruence.
    + inversion Ha; subst. apply (in_map fst) in Hb. apply chunks_of_fst_bound in Hb.
      cbn [fst] in Hb. left. lia.
    + inversion Hb; subst. apply (in_map fst) in Ha. apply chunks_of_fst_bound in Ha.
      cbn [fst] in Ha. right. lia.
    + eapply IH; eauto.
Qed.

(* ------------------------------------------------------------------------------------------ *)
(** * Basic theorems *)

Theorem hinit_inv : HInv hinit.
Proof.
  apply (Rep_HInv hinit []). unfold Rep. cbn. repeat split; auto. lia.
Qed.

Theorem live_disjoint h a b : HInv h -> live h a -> live h b -> a <> b ->
  a + size_of h a <= b \/ b + size_of h b <= a.
Proof.
  intros HI Ha Hb Hab. destruct (HInv_Rep h HI) as (bl & HR).
  pose proof (live_sized h bl a HR Ha) as Ha'. pose proof (live_sized h bl b HR Hb) as Hb'.
  destruct HR as (Hok & _).
  eapply (chunks_disjoint bl 0); eauto using used_In_chunks. eapply ok_pos; eauto.
Qed.

Theorem live_in_range h a : HInv h -> live h a -> 0 < size_of h a /\ a + size_of h a <= cur h.
Proof.
  intros HI Ha. destruct (HInv_Rep h HI) as (bl & HR).
  pose proof (live_sized h bl a HR Ha) as Ha'.
  destruct HR as (Hok & _ & _ & Hcur & _).
  apply used_In_chunks in Ha'. apply chunks_of_bound in Ha'; [|eapply ok_pos; eauto].
  rewrite Hcur. lia.
Qed.

(* ------------------------------------------------------------------------------------------ *)
(** * alloc *)

Definition rest (n sz : N) : list block := if sz =? n then [] else [(sz - n, true)].

Lemma total_rest n sz : n <= sz -> n + total (rest n sz) = sz.
Proof.
  intros H. unfold rest. destruct (N.eqb_spec sz n); cbn [total]; lia.
Qed.

Lemma used_rest s n sz : used_of s (rest n sz) = [].
Proof. unfold rest. destruct (sz =? n); reflexivity. Qed.

Lemma snoc_assoc {A} (a : list A) x b : a ++ x :: b = (a ++ [x]) ++ b.
Proof. rewrite <- app_assoc. reflexivity. Qed.

Lemma total_snoc a sz f : total (a ++ [(sz, f)]) = total a + sz.
Proof. rewrite total_app. cbn [total]. lia. Qed.

Lemma lookup_block bl1 sz f r : pos bl1 -> lookup (total bl1) (chunks_of 0 (bl1 ++ (sz, f) :: r)) = Some sz.
Proof.
  intros Hp. rewrite chunks0_app. cbn [chunks_of]. apply lookup_mid. apply chunks0_keys_lt; auto.
Qed.

Lemma insert_end a k v : keys_lt k a -> insert k v a = a ++ [(k, v)].
Proof.
  intros H. rewrite <- (app_nil_r a) at 1. apply insert_new; auto. constructor.
Qed.

Lemma alloc_scan_spec n (Hn : 0 < n) : forall bl2 bl1 before, pos (bl1 ++ bl2) ->
  alloc_scan n (chunks_of 0 (bl1 ++ bl2)) before (released_of (total bl1) bl2) = None \/
  exists pre sz post, bl2 = pre ++ (sz, true) :: post /\ n <= sz /\
    alloc_scan n (chunks_of 0 (bl1 ++ bl2)) before (released_of (total bl1) bl2) =
    Some (total bl1 + total pre, chunks_of 0 (bl1 ++ pre ++ (n, false) :: rest n sz ++ post),
          rev before ++ released_of (total bl1) (pre ++ (n, false) :: rest n sz ++ post)).
Proof.
  induction bl2 as [|[sz f] r IH]; intros bl1 before Hp.
  - left. reflexivity.
  - pose proof Hp as Hp'. apply pos_app in Hp'. destruct Hp' as [Hp1 Hp2].
    apply pos_cons in Hp2. destruct Hp2 as [Hsz Hp2].
    destruct f.
    + cbn [released_of alloc_scan]. rewrite lookup_block; auto.
      destruct (N.eqb_spec sz n) as [E|E].
      * right. subst sz. exists [], n, r. split; [reflexivity|]. split; [lia|].
        unfold rest. rewrite N.eqb_refl. cbn [app total released_of].
        rewrite N.add_0_r. rewrite !chunks0_app. cbn [chunks_of]. reflexivity.
      * destruct (N.ltb_spec n sz) as [L|L].
        -- right. exists [], sz, r. split; [reflexivity|]. split; [lia|].
           unfold rest. destruct (N.eqb_spec sz n); [lia|]. cbn [app total released_of].
           rewrite N.add_0_r. rewrite !chunks0_app. cbn [chunks_of].
           replace (total bl1 + n + (sz - n)) with (total bl1 + sz) by lia.
           f_equal. f_equal. f_equal.
           rewrite insert_mid by (apply chunks0_keys_lt; auto).
           rewrite (snoc_assoc (chunks_of 0 bl1)). rewrite insert_new.
           ++ rewrite <- app_assoc. reflexivity.
           ++ apply Forall_app. split.
              ** eapply Forall_impl; [|apply chunks0_keys_lt; eauto]. cbn beta. intros; lia.
              ** constructor; [cbn [fst]; lia | constructor].
           ++ apply chunks_keys_gt. lia.
        -- specialize (IH (bl1 ++ [(sz, true)]) (total bl1 :: before)).
           rewrite <- snoc_assoc, total_snoc in IH. specialize (IH Hp).
           destruct IH as [IH | (pre & sz' & post & -> & Hle & IH)]; [left; exact IH|].
           right. exists ((sz, true) :: pre), sz', post. split; [reflexivity|]. split; auto.
           rewrite IH. cbn [total app rev released_of]. rewrite <- !app_assoc. cbn [app].
           rewrite N.add_assoc. reflexivity.
    + cbn [released_of].
      specialize (IH (bl1 ++ [(sz, false)]) before).
      rewrite <- snoc_assoc, total_snoc in IH. specialize (IH Hp).
      destruct IH as [IH | (pre & sz' & post & -> & Hle & IH)]; [left; exact IH|].
      right. exists ((sz, false) :: pre), sz', post. split; [reflexivity|]. split; auto.
      rewrite IH. cbn [total app rev released_of]. rewrite <- !app_assoc. cbn [app].
      rewrite N.add_assoc. reflexivity.
Qed.

Lemma alloc_rep h bl n : Rep h bl -> 0 < n ->
  exists pre post',
    Rep (snd (alloc h n)) (pre ++ (n, false) :: post') /\
    fst (alloc h n) = total pre /\
    used_of 0 bl = used_of 0 pre ++ used_of (total pre + n) post' /\
    mx (snd (alloc h n)) = N.max (mx h) (cur (snd (alloc h n))).
Proof.
  intros (Hok & Hch & Hrel & Hcur & Hmx) Hn.
  pose proof (ok_pos _ _ _ Hok) as Hp.
  unfold alloc. rewrite Hch, Hrel.
  pose proof (alloc_scan_spec n Hn bl [] [] Hp) as HS. cbn [app total rev] in HS.
  destruct HS as [HS | (pre & sz & post & E & Hle & HS)]; rewrite HS; cbn [fst snd cur mx].
  - exists bl, []. split; [|split; [|split]].
    + unfold Rep. cbn [chunks released cur mx]. split; [|split; [|split; [|split]]].
      * apply ok_app. split; [eapply ok_weaken_nf; eauto|]. split; auto. reflexivity.
      * rewrite Hcur. rewrite insert_end by (apply chunks0_keys_lt; auto).
        rewrite chunks0_app. reflexivity.
      * rewrite released0_app. cbn [released_of]. rewrite app_nil_r. reflexivity.
      * rewrite total_snoc. lia.
      * lia.
    + auto.
    + cbn [used_of]. rewrite app_nil_r. reflexivity.
    + reflexivity.
  - subst bl. exists pre, (rest n sz ++ post).
    apply ok_app in Hok. destruct Hok as (Hok1 & Hsz & Hok2).
    split; [|split; [|split]].
    + unfold Rep. cbn [chunks released cur mx]. split; [|split; [|split; [|split]]].
      * apply ok_app. split; [eapply ok_weaken_nf; eauto|]. split; auto.
        unfold rest. destruct (N.eqb_spec sz n); cbn [app ok].
        -- eapply ok_weaken_pf; eauto.
        -- split; [lia|]. split; auto.
      * reflexivity.
      * reflexivity.
      * rewrite Hcur. rewrite !total_app. cbn [total]. rewrite total_app.
        pose proof (total_rest n sz Hle). lia.
      * auto.
    + lia.
    + rewrite !used0_app. cbn [used_of]. rewrite used_of_app, used_rest. cbn [app].
      pose proof (total_rest n sz Hle) as Ht.
      replace (total pre + n + total (rest n sz)) with (total pre + sz) by lia. reflexivity.
    + lia.
Qed.

Theorem alloc_inv h n : HInv h -> 0 < n -> HInv (snd (alloc h n)).
Proof.
  intros HI Hn. destruct (HInv_Rep h HI) as (bl & HR).
  destruct (alloc_rep h bl n HR Hn) as (pre & post' & HR' & _).
  eapply Rep_HInv; eauto.
Qed.

Lemma alloc_mx h n : HInv h -> 0 < n ->
  mx (snd (alloc h n)) = N.max (mx h) (cur (snd (alloc h n))).
Proof.
  intros HI Hn. destruct (HInv_Rep h HI) as (bl & HR).
  destruct (alloc_rep h bl n HR Hn) as (pre & post' & _ & _ & _ & H). exact H.
Qed.

Theorem alloc_fresh h n : HInv h -> 0 < n ->
  let loc := fst (alloc h n) in let h' := snd (alloc h n) in
  live h' loc /\ size_of h' loc = n /\ loc + n <= mx h' /\
  (forall l, live h l -> live h' l /\ size_of h' l = size_of h l /\ (loc + n <= l \/ l + size_of h l <= loc)) /\
  (forall l, live h' l -> l = loc \/ live h l).
Proof.
  intros HI Hn loc h'. destruct (HInv_Rep h HI) as (bl & HR).
  destruct (alloc_rep h bl n HR Hn) as (pre & post' & HR' & Hloc & Hu & _).
  fold h' in HR'. fold loc in Hloc.
  pose proof (Rep_HInv _ _ HR') as HI'.
  assert (Hp' : pos (pre ++ (n, false) :: post')) by (destruct HR' as (Hok' & _); eapply ok_pos; eauto).
  pose proof Hp' as Hp''. apply pos_app in Hp''. destruct Hp'' as [Hppre _].
  assert (Hmid : In (loc, n) (used_of 0 (pre ++ (n, false) :: post')))
    by (rewrite Hloc; apply used0_mid).
  assert (Hlive : live h' loc) by (apply (live_iff h' _ loc HR'); eauto).
  assert (Hsize : size_of h' loc = n) by (eapply size_used; eauto).
  split; [auto|]. split; [auto|]. split.
  { pose proof (live_in_range h' loc HI' Hlive) as [_ H]. rewrite Hsize in H.
    pose proof (proj2 (proj2 (proj2 (proj2 HI')))) as Hmx'. cbv beta in Hmx'. lia. }
  split.
  - intros l Hl. pose proof (live_sized h bl l HR Hl) as Hin.
    rewrite Hu in Hin. apply in_app_or in Hin.
    assert (Hin' : In (l, size_of h l) (used_of 0 (pre ++ (n, false) :: post'))).
    { rewrite used0_app. cbn [used_of]. apply in_or_app.
      destruct Hin as [Hin|Hin]; [left; auto | right; right; auto]. }
    split; [apply (live_iff h' _ l HR'); eauto|].
    split; [eapply size_used; eauto|].
    destruct Hin as [Hin|Hin].
    + right. apply used_In_chunks in Hin. apply chunks_of_bound in Hin; auto. lia.
    + left. apply used_In_chunks in Hin. apply (in_map fst) in Hin.
      apply chunks_of_fst_bound in Hin. cbn [fst] in Hin. lia.
  - intros l Hl. apply (live_iff h' _ l HR') in Hl. destruct Hl as (sz & Hin).
    rewrite used0_app in Hin. cbn [used_of] in Hin. apply in_app_or in Hin.
    destruct Hin as [Hin|[Hin|Hin]].
    + right. apply (live_iff h bl l HR). exists sz. rewrite Hu. apply in_or_app. left; auto.
    + left. injection Hin as E1 E2. rewrite <- E1. symmetry. exact Hloc.
    + right. apply (live_iff h bl l HR). exists sz. rewrite Hu. apply in_or_app. right; auto.
Qed.

(* ------------------------------------------------------------------------------------------ *)
(** * Normalisation of block lists: coalesce adjacent free blocks, trim trailing free blocks *)

Definition comb (b : block) (Y : list block) : list block :=
  match b with
  | (sz, false) => (sz, false) :: Y
  | (sz, true) =>
      match Y with
      | [] => []
      | (sz2, true) :: Y' => (sz + sz2, true) :: Y'
      | (_, false) :: _ => (sz, true) :: Y
      end
  end.
Definition norm (bl : list block) : list block := fold_right comb [] bl.

Definition mk (bl : list block) (m : N) : heap :=
  {| chunks := chunks_of 0 bl; released := released_of 0 bl; cur := total bl; mx := m |}.

Lemma norm_cons b r : norm (b :: r) = comb b (norm r).
Proof. reflexivity. Qed.

Lemma norm_app a b : norm (a ++ b) = fold_right comb (norm b) a.
Proof. unfold norm. apply fold_right_app. Qed.

Lemma norm_congr a b b' : norm b = norm b' -> norm (a ++ b) = norm (a ++ b').
Proof. intros H. rewrite !norm_app, H. reflexivity. Qed.

Lemma norm_ok Y : forall pf, ok pf Y true -> norm Y = Y.
Proof.
  induction Y as [|[sz f] r IH]; intros pf H; [reflexivity|].
  cbn [ok] in H. destruct H as (Hsz & _ & H). rewrite norm_cons, (IH f H).
  destruct f; [|reflexivity].
  destruct r as [|[s2 f2] r]; cbn [ok] in H; [discriminate|].
  destruct H as (_ & H & _). cbn in H. subst f2. reflexivity.
Qed.

Lemma used_comb b Y s : used_of s (comb b Y) = used_of s (b :: Y).
Proof.
  destruct b as [sz [|]]; [|reflexivity].
  destruct Y as [|[s2 [|]] Y]; cbn [comb used_of]; try reflexivity.
  rewrite N.add_assoc. reflexivity.
Qed.

Lemma used_norm bl : forall s, used_of s (norm bl) = used_of s bl.
Proof.
  induction bl as [|[sz f] r IH]; intros s; [reflexivity|].
  rewrite norm_cons, used_comb. destruct f; cbn [used_of]; rewrite IH; reflexivity.
Qed.

Lemma total_comb b Y : total (comb b Y) <= total (b :: Y).
Proof.
  destruct b as [sz [|]]; [|cbn [comb total]; lia].
  destruct Y as [|[s2 [|]] Y]; cbn [comb total]; lia.
Qed.

Lemma total_norm bl : total (norm bl) <= total bl.
Proof.
  induction bl as [|[sz f] r IH]; [cbn; lia|].
  rewrite norm_cons. pose proof (total_comb (sz, f) (norm r)) as H. cbn [total] in *. lia.
Qed.

Lemma Rep_mk bl m : ok false bl true -> total bl <= m -> Rep (mk bl m) bl.
Proof. intros H1 H2. unfold Rep, mk. cbn [chunks released cur mx]. auto. Qed.

Lemma Rep_eq h bl : Rep h bl -> h = mk bl (mx h).
Proof.
  intros (_ & Hch & Hrel & Hcur & _). destruct h as [c r cu m]. cbn [chunks released cur mx] in *.
  subst. reflexivity.
Qed.

(* ------------------------------------------------------------------------------------------ *)
(** * List position lemmas for the released list *)

Lemma list_last_case {A} (l : list A) : l = [] \/ exists l' x, l = l' ++ [x].
Proof. induction l using rev_ind; [left; reflexivity | right; eauto]. Qed.

Lemma bisect_app x a : forall b, Forall (fun y => y <= x) a -> (forall y, In y b -> x < y) ->
  bisect x (a ++ b) = length a.
Proof.
  induction a as [|a0 a IH]; intros b Ha Hb; cbn [app bisect length].
  - destruct b as [|y b]; cbn [bisect]; auto. destruct (N.leb_spec y x); auto.
    specialize (Hb y (or_introl eq_refl)). lia.
  - inversion Ha; subst. destruct (N.leb_spec a0 x); [|lia]. f_equal. apply IH; auto.
Qed.

Lemma nth_error_len {A} (a b : list A) : nth_error (a ++ b) (length a) = nth_error b 0.
Proof. induction a; cbn [app length nth_error]; auto. Qed.

Lemma set_nth_len {A} (a : list A) v y b : set_nth (length a) v (a ++ y :: b) = a ++ v :: b.
Proof. induction a; cbn [length app set_nth]; [reflexivity | f_equal; auto]. Qed.

Lemma insert_at_len {A} (a : list A) v b : insert_at (length a) v (a ++ b) = a ++ v :: b.
Proof. induction a; cbn [length app insert_at]; [reflexivity | f_equal; auto]. Qed.

Lemma remove_nth_len {A} (a : list A) y b : remove_nth (length a) (a ++ y :: b) = a ++ b.
Proof. induction a; cbn [length app remove_nth]; [reflexivity | f_equal; auto]. Qed.

Lemma length_snoc {A} (a : list A) x : length (a ++ [x]) = S (length a).
Proof. rewrite app_length. cbn [length]. apply Nat.add_1_r. Qed.

Lemma released_lookup bl p tail : pos bl -> In p (released_of 0 bl) ->
  exists ps, lookup p (chunks_of 0 bl ++ tail) = Some ps /\ p + ps <= total bl.
Proof.
  intros Hp Hin. apply released_In_chunks in Hin. apply in_map_fst_iff in Hin.
  destruct Hin as (ps & Hin). exists ps.
  pose proof (chunks_of_bound bl 0 p ps Hp Hin) as Hb.
  apply chunks_of_split in Hin. destruct Hin as (a & f & b & -> & ->).
  apply pos_app in Hp. destruct Hp as [Hpa _].
  split; [|lia]. rewrite N.add_0_l, chunks0_app. cbn [chunks_of]. rewrite <- app_assoc. cbn [app].
  apply lookup_mid. apply chunks0_keys_lt; auto.
Qed.

(* ------------------------------------------------------------------------------------------ *)
(** * free, decomposed *)

Definition tail_part (chs : list (N * N)) (rel : list N) (c m loc size : N) : option heap :=
  let ch := remove loc chs in
  let c1 := c - size in
  match rev rel with
  | prev :: rrest =>
      let ps := match lookup prev ch with Some s => s | None => 0 end in
      if prev + ps =? c1
      then Some {| chunks := remove prev ch; released := rev rrest; cur := c1 - ps; mx := m |}
      else Some {| chunks := ch; released := rel; cur := c1; mx := m |}
  | [] => Some {| chunks := ch; released := rel; cur := c1; mx := m |}
  end.

Definition stage2 (c m loc : N) (idx : nat) (ch1 : list (N * N)) (size1 : N) (rel1 : list N) : option heap :=
  match idx with
  | O => Some {| chunks := ch1; released := rel1; cur := c; mx := m |}
  | S pidx =>
      match nth_error rel1 pidx with
      | Some prev =>
          let ps := match lookup prev ch1 with Some s => s | None => 0 end in
          if prev + ps =? loc
          then Some {| chunks := insert prev (size1 + ps) (remove loc ch1); released := remove_nth idx rel1;
                       cur := c; mx := m |}
          else Some {| chunks := ch1; released := rel1; cur := c; mx := m |}
      | None => Some {| chunks := ch1; released := rel1; cur := c; mx := m |}
      end
  end.

Definition mid_part (chs : list (N * N)) (rel : list N) (c m loc size : N) : option heap :=
  let idx := bisect loc rel in
  let next_free := match nth_error rel idx with Some nx => loc + size =? nx | None => false end in
  if next_free then
    let ns := match lookup (loc + size) chs with Some s => s | None => 0 end in
    stage2 c m loc idx (insert loc (size + ns) (remove (loc + size) chs)) (size + ns) (set_nth idx loc rel)
  else stage2 c m loc idx chs size (insert_at idx loc rel).

Lemma free_unfold h loc :
  free h loc =
  match lookup loc (chunks h) with
  | None => None
  | Some size =>
      if loc + size =? cur h then tail_part (chunks h) (released h) (cur h) (mx h) loc size
      else mid_part (chunks h) (released h) (cur h) (mx h) loc size
  end.
Proof.
  unfold free, tail_part, mid_part, stage2.
  destruct (lookup loc (chunks h)) as [size|]; [|reflexivity].
  destruct (loc + size =? cur h); [reflexivity|].
  destruct (match nth_error (released h) (bisect loc (released h)) with
            | Some nx => loc + size =? nx | None => false end); reflexivity.
Qed.

Lemma mk_eq c r cu m bl : c = chunks_of 0 bl -> r = released_of 0 bl -> cu = total bl ->
  {| chunks := c; released := r; cur := cu; mx := m |} = mk bl m.
Proof. intros -> -> ->. reflexivity. Qed.

Lemma tail_part_spec pre sz m : ok false pre false -> 0 < sz ->
  exists bl',
    tail_part (chunks_of 0 (pre ++ [(sz, false)])) (released_of 0 pre) (total pre + sz) m (total pre) sz
      = Some (mk bl' m) /\
    ok false bl' true /\ norm bl' = norm (pre ++ [(sz, true)]).
Proof.
  intros Hok Hsz. pose proof (ok_pos _ _ _ Hok) as Hp.
  unfold tail_part. cbv zeta.
  rewrite chunks0_app. cbn [chunks_of]. rewrite remove_mid by (apply chunks0_keys_lt; auto).
  rewrite app_nil_r, N.add_sub.
  destruct (list_last_case pre) as [->|(pre' & [psz pf] & ->)].
  - exists []. cbn. repeat split; reflexivity.
  - apply ok_app in Hok. destruct Hok as (Hok' & Hpsz & _).
    pose proof (ok_pos _ _ _ Hok') as Hp'.
    destruct pf.
    + exists pre'. rewrite released0_app. cbn [released_of]. rewrite rev_unit.
      rewrite lookup_block by auto. rewrite total_snoc, N.eqb_refl.
      split; [|split; auto].
      * f_equal. apply mk_eq.
        -- rewrite chunks0_app. cbn [chunks_of]. rewrite remove_mid by (apply chunks0_keys_lt; auto).
           apply app_nil_r.
        -- apply rev_involutive.
        -- apply N.add_sub.
      * rewrite <- app_assoc. transitivity (norm (pre' ++ [])); [rewrite app_nil_r; reflexivity|].
        apply norm_congr. reflexivity.
    + exists (pre' ++ [(psz, false)]).
      assert (Hok2 : ok false (pre' ++ [(psz, false)]) true).
      { apply ok_app. repeat split; auto. }
      split; [|split; auto].
      * rewrite released0_app. cbn [released_of]. rewrite app_nil_r.
        assert (Hgoal : forall X : option heap,
                   X = Some {| chunks := chunks_of 0 (pre' ++ [(psz, false)]);
                               released := released_of 0 pre'; cur := total (pre' ++ [(psz, false)]);
                               mx := m |} -> X = Some (mk (pre' ++ [(psz, false)]) m)).
        { intros X ->. f_equal. apply mk_eq; auto.
          rewrite released0_app. cbn [released_of]. rewrite app_nil_r. reflexivity. }
        apply Hgoal.
        destruct (list_last_case (released_of 0 pre')) as [E|(R & p & E)]; rewrite E.
        -- reflexivity.
        -- rewrite rev_unit.
           destruct (released_lookup pre' p (chunks_of (total pre') [(psz, false)]) Hp') as (ps & Hlk & Hle).
           { rewrite E. apply in_or_app. right. left. reflexivity. }
           rewrite chunks0_app, Hlk, total_snoc.
           destruct (N.eqb_spec (p + ps) (total pre' + psz)); [lia|]. reflexivity.
      * rewrite (norm_ok _ _ Hok2). rewrite norm_app. cbn. symmetry. apply (norm_ok _ _ Hok2).
Qed.

Lemma chunks_flag pre sz f f' post :
  chunks_of 0 (pre ++ (sz, f) :: post) = chunks_of 0 (pre ++ (sz, f') :: post).
Proof. rewrite !chunks0_app. reflexivity. Qed.

Lemma stage2_spec pre size1 post1 m c :
  ok false pre false -> 0 < size1 -> ok true post1 true ->
  c = total (pre ++ (size1, true) :: post1) ->
  exists bl',
    stage2 c m (total pre) (length (released_of 0 pre))
      (chunks_of 0 (pre ++ (size1, true) :: post1)) size1 (released_of 0 (pre ++ (size1, true) :: post1))
      = Some (mk bl' m) /\
    ok false bl' true /\ norm bl' = norm (pre ++ (size1, true) :: post1).
Proof.
  intros Hok Hs1 Hok1 Hc. pose proof (ok_pos _ _ _ Hok) as Hp.
  (* the "no merge with predecessor" outcome *)
  assert (Hsame : ok false pre true ->
    exists bl', Some {| chunks := chunks_of 0 (pre ++ (size1, true) :: post1);
                        released := released_of 0 (pre ++ (size1, true) :: post1); cur := c; mx := m |}
                = Some (mk bl' m) /\
    ok false bl' true /\ norm bl' = norm (pre ++ (size1, true) :: post1)).
  { intros Hok'. exists (pre ++ (size1, true) :: post1). split; [|split; auto].
    - f_equal. apply mk_eq; auto.
    - apply ok_app. auto. }
  destruct (list_last_case pre) as [->|(pre' & [psz pf] & ->)].
  - cbn [released_of length stage2]. apply Hsame. reflexivity.
  - apply ok_app in Hok. destruct Hok as (Hok' & Hpsz & _).
    pose proof (ok_pos _ _ _ Hok') as Hp'.
    destruct pf.
    + clear Hsame. exists (pre' ++ (psz + size1, true) :: post1).
      assert (Hok2 : ok false (pre' ++ (psz + size1, true) :: post1) true).
      { apply ok_app. repeat split; auto. lia. }
      split; [|split; auto].
      * rewrite (released0_app pre'). cbn [released_of]. rewrite length_snoc. cbn [stage2].
        rewrite <- !snoc_assoc. rewrite released0_app. cbn [released_of].
        rewrite (snoc_assoc (released_of 0 pre')) at 1. rewrite <- app_assoc.
        rewrite nth_error_len. cbn [app nth_error].
        rewrite lookup_block by auto. rewrite total_snoc, N.eqb_refl.
        f_equal. apply mk_eq.
        -- rewrite !chunks0_app. cbn [chunks_of].
           rewrite (snoc_assoc (chunks_of 0 pre')). rewrite remove_mid.
           ++ rewrite <- app_assoc. cbn [app]. rewrite insert_mid by (apply chunks0_keys_lt; auto).
              rewrite (N.add_comm size1 psz), N.add_assoc. reflexivity.
           ++ apply Forall_app. split.
              ** eapply Forall_impl; [|apply chunks0_keys_lt; eauto]. cbn beta. intros; lia.
              ** constructor; [cbn [fst]; lia | constructor].
        -- rewrite released0_app. cbn [released_of].
           rewrite (snoc_assoc (released_of 0 pre')).
           rewrite <- (length_snoc (released_of 0 pre') (total pre')).
           rewrite remove_nth_len. rewrite <- app_assoc. cbn [app].
           rewrite N.add_assoc. reflexivity.
        -- rewrite Hc, !total_app. cbn [total]. lia.
      * rewrite <- snoc_assoc. apply norm_congr. rewrite !norm_cons.
        assert (E : norm post1 = post1) by (eapply norm_ok; eauto). rewrite E.
        destruct post1 as [|[s3 f3] p3]; cbn [ok] in Hok1; [discriminate|].
        destruct Hok1 as (_ & Hf3 & _). cbn in Hf3. subst f3. reflexivity.
    + assert (Hok2 : ok false (pre' ++ [(psz, false)]) true).
      { apply ok_app. repeat split; auto. }
      specialize (Hsame Hok2). destruct Hsame as (bl' & He1 & He2 & He3).
      exists bl'. split; [|split; auto]. rewrite <- He1. clear He1 He2 He3.
      assert (EL : released_of 0 (pre' ++ [(psz, false)]) = released_of 0 pre').
      { rewrite released0_app. cbn [released_of]. apply app_nil_r. }
      rewrite EL.
      destruct (list_last_case (released_of 0 pre')) as [E|(R & p & E)].
      * rewrite E. cbn [length stage2]. reflexivity.
      * rewrite E. rewrite length_snoc. cbn [stage2].
        rewrite (released0_app (pre' ++ [(psz, false)])).
        rewrite EL, E. rewrite <- !app_assoc. rewrite nth_error_len. cbn [app nth_error].
        destruct (released_lookup pre' p
                    (chunks_of (total pre') ((psz, false) :: (size1, true) :: post1)) Hp')
          as (ps & Hlk & Hle).
        { rewrite E. apply in_or_app. right. left. reflexivity. }
        rewrite (chunks0_app pre'). rewrite Hlk.
        rewrite total_snoc.
        destruct (N.eqb_spec (p + ps) (total pre' + psz)); [lia|]. reflexivity.
Qed.

Lemma lookup_block2 pre sz f nsz nf r : pos pre -> 0 < sz ->
  lookup (total pre + sz) (chunks_of 0 (pre ++ (sz, f) :: (nsz, nf) :: r)) = Some nsz.
Proof.
  intros Hp Hsz. rewrite snoc_assoc, <- (total_snoc pre sz f). apply lookup_block.
  apply pos_app. split; auto. apply pos_cons. split; auto. constructor.
Qed.

Lemma mid_part_spec pre sz nsz nf post' m :
  ok false pre false -> 0 < sz -> ok false ((nsz, nf) :: post') true ->
  exists bl',
    mid_part (chunks_of 0 (pre ++ (sz, false) :: (nsz, nf) :: post'))
             (released_of 0 (pre ++ (sz, false) :: (nsz, nf) :: post'))
             (total (pre ++ (sz, false) :: (nsz, nf) :: post')) m (total pre) sz = Some (mk bl' m) /\
    ok false bl' true /\ norm bl' = norm (pre ++ (sz, true) :: (nsz, nf) :: post').
Proof.
  intros Hok Hsz Hokp. pose proof (ok_pos _ _ _ Hok) as Hp.
  cbn [ok] in Hokp. destruct Hokp as (Hnsz & _ & Hokp').
  unfold mid_part. cbv zeta.
  assert (ER : released_of 0 (pre ++ (sz, false) :: (nsz, nf) :: post') =
               released_of 0 pre ++ released_of (total pre + sz) ((nsz, nf) :: post'))
    by (rewrite released0_app; reflexivity).
  rewrite ER.
  assert (Hidx : bisect (total pre) (released_of 0 pre ++ released_of (total pre + sz) ((nsz, nf) :: post'))
                 = length (released_of 0 pre)).
  { apply bisect_app.
    - apply Forall_forall. intros y Hy. apply released_of_bound in Hy; auto. lia.
    - intros y Hy. apply released_of_lb in Hy. lia. }
  rewrite Hidx, nth_error_len.
  destruct nf.
  - cbn [released_of nth_error]. rewrite N.eqb_refl.
    rewrite lookup_block2 by auto.
    destruct (stage2_spec pre (sz + nsz) post' m (total (pre ++ (sz, false) :: (nsz, true) :: post')))
      as (bl' & H1 & H2 & H3); auto; try lia.
    { rewrite !total_app. cbn [total]. lia. }
    exists bl'. split; [|split; auto].
    + rewrite <- H1. f_equal.
      * rewrite !chunks0_app. cbn [chunks_of].
        rewrite (snoc_assoc (chunks_of 0 pre)). rewrite remove_mid.
        -- rewrite <- app_assoc. cbn [app]. rewrite insert_mid by (apply chunks0_keys_lt; auto).
           rewrite N.add_assoc. reflexivity.
        -- apply Forall_app. split.
           ++ eapply Forall_impl; [|apply chunks0_keys_lt; eauto]. cbn beta. intros; lia.
           ++ constructor; [cbn [fst]; lia | constructor].
      * rewrite set_nth_len. rewrite released0_app. cbn [released_of]. rewrite N.add_assoc. reflexivity.
    + rewrite H3. apply norm_congr. rewrite !norm_cons.
      assert (E : norm post' = post') by (eapply norm_ok; eauto). rewrite E.
      destruct post' as [|[s3 f3] p3]; cbn [ok] in Hokp'; [discriminate|].
      destruct Hokp' as (_ & Hf3 & _). cbn in Hf3. subst f3. reflexivity.
  - assert (Hnf : match nth_error (released_of (total pre + sz) ((nsz, false) :: post')) 0 with
                  | Some nx => total pre + sz =? nx | None => false end = false).
    { cbn [released_of].
      destruct (released_of (total pre + sz + nsz) post') as [|y B'] eqn:EB; [reflexivity|].
      cbn [nth_error]. destruct (N.eqb_spec (total pre + sz) y); [|reflexivity].
      assert (Hy : In y (released_of (total pre + sz + nsz) post')) by (rewrite EB; left; reflexivity).
      apply released_of_lb in Hy. lia. }
    rewrite Hnf.
    destruct (stage2_spec pre sz ((nsz, false) :: post') m (total (pre ++ (sz, false) :: (nsz, false) :: post')))
      as (bl' & H1 & H2 & H3); auto.
    { cbn [ok]. auto. }
    { rewrite !total_app. reflexivity. }
    exists bl'. split; [|split; auto].
    rewrite <- H1. f_equal.
    + apply chunks_flag.
    + rewrite insert_at_len. rewrite released0_app. reflexivity.
Qed.

Lemma free_rep h pre sz post : Rep h (pre ++ (sz, false) :: post) ->
  free h (total pre) = Some (mk (norm (pre ++ (sz, true) :: post)) (mx h)) /\
  ok false (norm (pre ++ (sz, true) :: post)) true /\
  total (norm (pre ++ (sz, true) :: post)) <= cur h.
Proof.
  intros (Hok & Hch & Hrel & Hcur & Hmx).
  pose proof Hok as Hok'. apply ok_app in Hok'. destruct Hok' as (Hokpre & Hsz & Hokpost).
  pose proof (ok_pos _ _ _ Hokpre) as Hp.
  assert (Htot : total (norm (pre ++ (sz, true) :: post)) <= cur h).
  { rewrite Hcur. pose proof (total_norm (pre ++ (sz, true) :: post)) as H.
    rewrite total_app in *. cbn [total] in *. exact H. }
  assert (Hmain : exists bl', free h (total pre) = Some (mk bl' (mx h)) /\ ok false bl' true /\
                              norm bl' = norm (pre ++ (sz, true) :: post)).
  { rewrite free_unfold, Hch, lookup_block by auto. rewrite Hcur, Hrel.
    destruct post as [|[nsz nf] post'].
    - rewrite total_snoc, N.eqb_refl. rewrite released0_app. cbn [released_of]. rewrite app_nil_r.
      apply tail_part_spec; auto.
    - assert (Hnsz : 0 < nsz) by (cbn [ok] in Hokpost; tauto).
      destruct (N.eqb_spec (total pre + sz) (total (pre ++ (sz, false) :: (nsz, nf) :: post'))) as [E|E].
      { rewrite total_app in E. cbn [total] in E. lia. }
      apply mid_part_spec; auto. }
  destruct Hmain as (bl' & H1 & H2 & H3).
  rewrite (norm_ok _ _ H2) in H3. subst bl'. auto.
Qed.

(* ------------------------------------------------------------------------------------------ *)
(** * free: main theorems *)

Lemma live_split h bl loc : Rep h bl -> live h loc ->
  exists pre sz post, bl = pre ++ (sz, false) :: post /\ loc = total pre.
Proof.
  intros HR Hl. apply (live_iff h bl loc HR) in Hl. destruct Hl as (sz & Hin).
  apply used_of_split in Hin. destruct Hin as (pre & post & -> & ->).
  exists pre, sz, post. split; [reflexivity | lia].
Qed.

Lemma free_rep' h bl loc : Rep h bl -> live h loc ->
  exists pre sz post, bl = pre ++ (sz, false) :: post /\ loc = total pre /\
    free h loc = Some (mk (norm (pre ++ (sz, true) :: post)) (mx h)) /\
    Rep (mk (norm (pre ++ (sz, true) :: post)) (mx h)) (norm (pre ++ (sz, true) :: post)).
Proof.
  intros HR Hl. destruct (live_split h bl loc HR Hl) as (pre & sz & post & -> & ->).
  exists pre, sz, post. destruct (free_rep h pre sz post HR) as (H1 & H2 & H3).
  repeat split; auto. apply Rep_mk; auto.
  destruct HR as (_ & _ & _ & _ & Hmx). lia.
Qed.

Theorem free_inv h loc : HInv h -> live h loc -> exists h', free h loc = Some h' /\ HInv h'.
Proof.
  intros HI Hl. destruct (HInv_Rep h HI) as (bl & HR).
  destruct (free_rep' h bl loc HR Hl) as (pre & sz & post & _ & _ & Hf & HR').
  eexists. split; [exact Hf|]. eapply Rep_HInv; eauto.
Qed.

Theorem free_live h loc h' : HInv h -> live h loc -> free h loc = Some h' ->
  (forall l, live h' l <-> (live h l /\ l <> loc)) /\
  (forall l, live h' l -> size_of h' l = size_of h l) /\ mx h' = mx h.
Proof.
  intros HI Hl Hfree. destruct (HInv_Rep h HI) as (bl & HR).
  destruct (free_rep' h bl loc HR Hl) as (pre & sz & post & -> & -> & Hf & HR').
  rewrite Hf in Hfree. injection Hfree as <-.
  set (X := norm (pre ++ (sz, true) :: post)) in *.
  assert (Hp : pos (pre ++ (sz, false) :: post)) by (destruct HR as (Hok & _); eapply ok_pos; eauto).
  pose proof Hp as Hp'. apply pos_app in Hp'. destruct Hp' as [Hppre Hp'].
  apply pos_cons in Hp'. destruct Hp' as [Hsz Hppost].
  assert (HU' : used_of 0 X = used_of 0 pre ++ used_of (total pre + sz) post).
  { unfold X. rewrite used_norm, used0_app. reflexivity. }
  assert (HU : used_of 0 (pre ++ (sz, false) :: post) =
               used_of 0 pre ++ (total pre, sz) :: used_of (total pre + sz) post).
  { rewrite used0_app. reflexivity. }
  assert (Hsub : forall l s, In (l, s) (used_of 0 X) -> In (l, s) (used_of 0 (pre ++ (sz, false) :: post))).
  { intros l s. rewrite HU', HU, !in_app_iff. cbn [In]. tauto. }
  split; [|split; [|reflexivity]].
  - intros l. rewrite (live_iff _ _ l HR'), (live_iff _ _ l HR). split.
    + intros (s & Hin). split; [eauto|].
      rewrite HU' in Hin. apply in_app_or in Hin. destruct Hin as [Hin|Hin].
      * apply used_In_chunks in Hin. apply chunks_of_bound in Hin; auto. lia.
      * apply used_In_chunks in Hin. apply (in_map fst) in Hin. apply chunks_of_fst_bound in Hin.
        cbn [fst] in Hin. lia.
    + intros ((s & Hin) & Hne). exists s. rewrite HU in Hin. rewrite HU'.
      apply in_app_or in Hin. apply in_or_app. destruct Hin as [Hin|[Hin|Hin]]; auto.
      injection Hin as E1 E2. congruence.
  - intros l Hl'. apply (live_iff _ _ l HR') in Hl'. destruct Hl' as (s & Hin).
    rewrite (size_used _ _ l s HR' Hin). symmetry. apply (size_used _ _ l s HR). auto.
Qed.

Lemma free_cur_mx h loc h' : HInv h -> live h loc -> free h loc = Some h' ->
  HInv h' /\ mx h' = mx h.
Proof.
  intros HI Hl Hf. destruct (free_inv h loc HI Hl) as (h'' & Hf' & HI').
  rewrite Hf in Hf'. injection Hf' as <-. split; auto.
  apply (free_live h loc h' HI Hl Hf).
Qed.

(* ------------------------------------------------------------------------------------------ *)
(** * Histories *)

Theorem high_water ops : forall h m h' m', HInv h -> mx h = m -> well_used ops h ->
  hrun_max ops h m = Some (h', m') -> mx h' = m' /\ HInv h'.
Proof.
  induction ops as [|[s|l] r IH]; intros h m h' m' HI Hm Hw Hrun; cbn [hrun_max well_used] in *.
  - injection Hrun as <- <-. auto.
  - destruct Hw as [Hs Hw].
    eapply IH; [| |exact Hw|exact Hrun].
    + apply alloc_inv; auto.
    + rewrite alloc_mx; auto. rewrite Hm. reflexivity.
  - destruct Hw as [Hl Hw]. destruct (free h l) as [h1|] eqn:Hf; [|contradiction].
    destruct (free_cur_mx h l h1 HI Hl Hf) as [HI1 Hmx1].
    eapply IH; [exact HI1| |exact Hw|exact Hrun].
    rewrite Hmx1, Hm. destruct HI1 as (_ & _ & _ & _ & Hle). lia.
Qed.

Lemma history_inv_gen ops : forall h tr0, HInv h -> well_used ops h ->
  exists h' tr, hrun ops h tr0 = Some (h', tr) /\ HInv h'.
Proof.
  induction ops as [|[s|l] r IH]; intros h tr0 HI Hw; cbn [hrun well_used] in *.
  - eauto.
  - destruct Hw as [Hs Hw]. destruct (alloc h s) as [loc h1] eqn:Ha.
    assert (E : h1 = snd (alloc h s)) by (rewrite Ha; reflexivity). subst h1.
    apply IH; auto. apply alloc_inv; auto.
  - destruct Hw as [Hl Hw]. destruct (free h l) as [h1|] eqn:Hf; [|contradiction].
    destruct (free_cur_mx h l h1 HI Hl Hf) as [HI1 _]. apply IH; auto.
Qed.

Theorem history_inv ops : forall h, HInv h -> well_used ops h ->
  exists h' tr, hrun ops h [] = Some (h', tr) /\ HInv h'.
Proof. intros h. apply history_inv_gen. Qed.

(* ------------------------------------------------------------------------------------------ *)
(** * Order of frees is irrelevant *)

(** mark the block starting at address [loc] as free *)
Fixpoint mark (s loc : N) (bl : list block) : list block :=
  match bl with
  | [] => []
  | (sz, f) :: r => (sz, f || (loc =? s)) :: mark (s + sz) loc r
  end.

Lemma mark_lt bl : forall s loc, loc < s -> mark s loc bl = bl.
Proof.
  induction bl as [|[sz f] r IH]; intros s loc H; cbn [mark]; [reflexivity|].
  destruct (N.eqb_spec loc s); [lia|]. rewrite orb_false_r, IH by lia. reflexivity.
Qed.

Lemma mark_ge bl : forall s loc, pos bl -> s + total bl <= loc -> mark s loc bl = bl.
Proof.
  induction bl as [|[sz f] r IH]; intros s loc Hp H; cbn [mark]; [reflexivity|].
  apply pos_cons in Hp. destruct Hp as [Hsz Hp]. cbn [total] in H.
  destruct (N.eqb_spec loc s); [lia|]. rewrite orb_false_r, IH by (auto; lia). reflexivity.
Qed.

Lemma mark_app a : forall s loc b, mark s loc (a ++ b) = mark s loc a ++ mark (s + total a) loc b.
Proof.
  induction a as [|[sz f] a IH]; intros s loc b; cbn [mark app total].
  - rewrite N.add_0_r. reflexivity.
  - rewrite IH, N.add_assoc. reflexivity.
Qed.

Lemma mark_mid pre sz post : pos (pre ++ (sz, false) :: post) ->
  mark 0 (total pre) (pre ++ (sz, false) :: post) = pre ++ (sz, true) :: post.
Proof.
  intros Hp. apply pos_app in Hp. destruct Hp as [Hp1 Hp2].
  apply pos_cons in Hp2. destruct Hp2 as [Hsz Hp2].
  rewrite mark_app, N.add_0_l. rewrite mark_ge by (auto; lia). cbn [mark].
  rewrite N.eqb_refl, mark_lt by lia. reflexivity.
Qed.

Lemma mark_comm bl : forall s a b, mark s a (mark s b bl) = mark s b (mark s a bl).
Proof.
  induction bl as [|[sz f] r IH]; intros s a b; cbn [mark]; [reflexivity|].
  rewrite IH. f_equal. f_equal. destruct f, (a =? s), (b =? s); reflexivity.
Qed.

Lemma comb_comb sz s2 Z : comb (sz + s2, true) Z = comb (sz, true) (comb (s2, true) Z).
Proof.
  destruct Z as [|[s3 [|]] Z']; cbn [comb]; try reflexivity. rewrite N.add_assoc. reflexivity.
Qed.

Lemma comb_mark sz f Y s b :
  norm (mark s b (comb (sz, f) Y)) = comb (sz, f || (b =? s)) (norm (mark (s + sz) b Y)).
Proof.
  destruct f.
  - destruct Y as [|[s2 [|]] Y']; cbn [comb mark orb].
    + reflexivity.
    + rewrite !norm_cons. rewrite N.add_assoc. apply comb_comb.
    + rewrite norm_cons. reflexivity.
  - cbn [comb mark orb]. rewrite norm_cons. reflexivity.
Qed.

Lemma norm_mark_norm x : forall s b, norm (mark s b (norm x)) = norm (mark s b x).
Proof.
  induction x as [|[sz f] r IH]; intros s b; [reflexivity|].
  rewrite norm_cons, comb_mark. cbn [mark]. rewrite norm_cons, IH. reflexivity.
Qed.

Lemma free_mark h bl loc : Rep h bl -> live h loc ->
  free h loc = Some (mk (norm (mark 0 loc bl)) (mx h)) /\
  Rep (mk (norm (mark 0 loc bl)) (mx h)) (norm (mark 0 loc bl)).
Proof.
  intros HR Hl. destruct (free_rep' h bl loc HR Hl) as (pre & sz & post & -> & -> & Hf & HR').
  rewrite mark_mid; auto. destruct HR as (Hok & _). eapply ok_pos; eauto.
Qed.

Theorem free_commute h a b ha hb hab hba : HInv h -> live h a -> live h b -> a <> b ->
  free h a = Some ha -> free ha b = Some hab -> free h b = Some hb -> free hb a = Some hba -> hab = hba.
Proof.
  intros HI Ha Hb Hab Fa Fab Fb Fba. destruct (HInv_Rep h HI) as (bl & HR).
  destruct (free_mark h bl a HR Ha) as (Fa' & HRa).
  destruct (free_mark h bl b HR Hb) as (Fb' & HRb).
  assert (Hba : live ha b) by (apply (free_live h a ha HI Ha Fa); auto).
  assert (Hab' : live hb a) by (apply (free_live h b hb HI Hb Fb); auto).
  rewrite Fa in Fa'. injection Fa' as ->. rewrite Fb in Fb'. injection Fb' as ->.
  destruct (free_mark _ _ b HRa Hba) as (Fab' & _).
  destruct (free_mark _ _ a HRb Hab') as (Fba' & _).
  rewrite Fab in Fab'. injection Fab' as ->. rewrite Fba in Fba'. injection Fba' as ->.
  cbn [mx mk]. rewrite !norm_mark_norm, mark_comm. reflexivity.
Qed.

(* ------------------------------------------------------------------------------------------ *)
(** * Non-vacuity: a concrete history exercising split, both coalescing directions and tail trim *)

Definition example_ops : list hop :=
  [HAlloc 4; HAlloc 4; HAlloc 4; HAlloc 4;   (* 0 4 8 12, cur = 16 *)
   HFree 4;                                   (* plain release *)
   HFree 8;                                   (* coalesce with the free predecessor: (4,8) free *)
   HAlloc 2;                                  (* split (4,8) into used (4,2) and free (6,6) *)
   HFree 4;                                   (* coalesce with the free successor: (4,8) free *)
   HFree 12].                                 (* tail trim, dropping the free predecessor: cur = 4 *)

Example example_well_used : well_used example_ops hinit.
Proof.
  vm_compute.
  repeat split; try (intros H; repeat (destruct H as [H|H]; try discriminate H); assumption); auto 10.
Qed.

Example example_run :
  hrun example_ops hinit [] =
  Some ({| chunks := [(0, 4)]; released := []; cur := 4; mx := 16 |}, [0; 4; 8; 12; 4]).
Proof. vm_compute. reflexivity. Qed.

Example example_high_water :
  hrun_max example_ops hinit 0 = Some ({| chunks := [(0, 4)]; released := []; cur := 4; mx := 16 |}, 16).
Proof. vm_compute. reflexivity. Qed.

Print Assumptions hinit_inv.
Print Assumptions alloc_inv.
Print Assumptions free_inv.
Print Assumptions alloc_fresh.
Print Assumptions free_live.
Print Assumptions live_disjoint.
Print Assumptions live_in_range.
Print Assumptions high_water.
Print Assumptions history_inv.
Print Assumptions free_commute.
Print Assumptions example_well_used.
