(** C10, resolve_tlib_cells over its loop, part 1: remove_dangling_nodes / the clean-up of substitute preserve the solutions of a circuit
    in which the nodes of a library kind are read THROUGH THEIR IMPLEMENTATIONS ([rsol] of Model/CircuitResolveSem.v).

    The recursion of Proofs/CircuitDanglingSem.v is repeated for an arbitrary reflexive, transitive relation that holds across one
    level ([DangFrame]); the relation used here is [DangR] = [DangSem] with [rsol] in the place of [csol].  New in the backward
    direction: a removed line that was driven by a library instance takes the value of the implementation's output, for ONE solution
    of the implementation chosen per instance (finite choice over the node list); a removed library instance (no connected output)
    needs a solution of its implementation to exist at all ([lib_total]). *)
From Coq Require Import List Arith Bool String NArith Lia.
From KV Require Model.Prims Model.Netlist Model.SimOps Model.NetlistSem Gen.SimTables.
From KV Require Import Model.Circuit Model.CircuitInv Model.CircuitView Model.CircuitSem Model.CircuitSubstSem Model.CircuitResolveSem
     Proofs.CircuitBase Proofs.CircuitProofs Proofs.CircuitViewProofs Proofs.CircuitDangling Proofs.CircuitElimSem
     Proofs.CircuitDanglingSem.
Import ListNotations.
Local Open Scope list_scope.

(** ** the recursion, for any relation *)
Section DangRel.
Variable R : circ -> circ -> Prop.
Hypothesis Rrefl : forall c, R c c.
Hypothesis Rtrans : forall a b c, R a b -> R b c -> R a c.
Hypothesis Rframe : forall c c2 root, CInv c -> IoLive c -> CInv c2 -> IoLive c2 -> DangFrame c c2 root -> R c c2.

Lemma remove_dangling_rel : forall fuel c root c', CInv c -> IoLive c -> Known c root -> List.length (lines c) < fuel ->
  remove_dangling fuel c root = Some c' ->
  CInv c' /\ IoLive c' /\ List.length (lines c') <= List.length (lines c) /\ (forall x, Known c x -> Known c' x) /\ R c c'.
Proof.
  induction fuel as [|fuel IH]; intros c root c' HI HL HK Hfuel Hrd. lia.
  assert (Hsame : c' = c -> CInv c' /\ IoLive c' /\ List.length (lines c') <= List.length (lines c) /\
                            (forall x, Known c x -> Known c' x) /\ R c c').
  { intros ->. split; auto. }
  simpl in Hrd.
  destruct (somes (outs_of c root)) as [|o1 orest] eqn:Ho.
  2:{ apply Hsame. congruence. }
  destruct (io_mem c root) eqn:Hport.
  { apply Hsame. congruence. }
  destruct HK as [Hroot|Hdet].
  2:{ destruct Hdet as [D1 [D2 [D3 D4]]].
    assert (Hi : somes (ins_of c root) = []).
    { destruct (somes (ins_of c root)) as [|x r] eqn:E; auto. exfalso.
      assert (Hx : In x (somes (ins_of c root))) by (rewrite E; left; auto).
      apply somes_In in Hx. apply In_nth_opt in Hx. destruct Hx as [q [_ Hq]]. unfold in_at in D4. rewrite D4 in Hq. discriminate. }
    rewrite Hi in Hrd. simpl in Hrd. unfold node_remove in Hrd. rewrite D2 in Hrd. simpl in Hrd. apply Hsame. congruence. }
  destruct (dangling_step c root HI Hroot Ho Hport) as
      [drivers [c1 [c2 [Q1 [Q2 [Q3 [HI2 [HL2 [HK2 [Hlen2 [Hcase [Hdr2 HF]]]]]]]]]]]].
  rewrite Q1, Q2, Q3 in Hrd. specialize (HL2 HL).
  pose proof (Rframe c c2 root HI HL HI2 HL2 HF) as HS2.
  destruct Hcase as [->|Hlt].
  { simpl in Hrd. injection Hrd as <-. split; auto. }
  assert (Hrec : forall ds c3 c'', CInv c3 -> IoLive c3 -> List.length (lines c3) <= List.length (lines c2) ->
            (forall d, In d ds -> Known c3 d) -> fold_opt (remove_dangling fuel) ds c3 = Some c'' ->
            CInv c'' /\ IoLive c'' /\ List.length (lines c'') <= List.length (lines c3) /\
            (forall x, Known c3 x -> Known c'' x) /\ R c3 c'').
  { induction ds as [|d ds IHds]; intros c3 c'' HI3 HL3 Hl3 Hk3 Hfold; simpl in Hfold.
    - injection Hfold as <-. split; auto.
    - destruct (remove_dangling fuel c3 d) as [c4|] eqn:E4; [|discriminate].
      assert (Hfuel3 : List.length (lines c3) < fuel) by lia.
      destruct (IH c3 d c4 HI3 HL3 (Hk3 d (or_introl eq_refl)) Hfuel3 E4) as [HI4 [HL4 [Hl4 [Hk4 HS4]]]].
      destruct (IHds c4 c'' HI4 HL4) as [HI5 [HL5 [Hl5 [Hk5 HS5]]]]; auto. lia.
      { intros d' Hd'. apply Hk4. apply Hk3. right; auto. }
      split; auto. split; auto. split. lia. split; auto. eapply Rtrans; eauto. }
  destruct (Hrec drivers c2 c' HI2 HL2 (le_n _)) as [HI' [HL' [Hl' [Hk' HS']]]]; auto.
  { intros d Hd. left. apply Hdr2. auto. }
  split; auto. split; auto. split. lia. split; auto. eapply Rtrans; eauto.
Qed.

Lemma cleanup_rel : forall dl c4 c', CInv c4 -> IoLive c4 -> (forall d, In d dl -> Known c4 d) ->
  cleanup dl c4 = Some c' -> CInv c' /\ IoLive c' /\ (forall x, Known c4 x -> Known c' x) /\ R c4 c'.
Proof.
  unfold cleanup. induction dl as [|d dl IHdl]; intros c4 c' HI HL Hk Hfold; cbn [fold_opt] in Hfold.
  - injection Hfold as <-. split; auto.
  - destruct (remove_dangling (dangling_fuel c4) c4 d) as [c5|] eqn:E5; [|discriminate].
    assert (Hfuel : List.length (lines c4) < dangling_fuel c4).
    { unfold dangling_fuel. pose proof (lines_le_lnext [] c4 (proj1 HI)). lia. }
    destruct (remove_dangling_rel _ c4 d c5 HI HL (Hk d (or_introl eq_refl)) Hfuel E5) as [HI5 [HL5 [_ [Hk5 HS5]]]].
    destruct (IHdl c5 c' HI5 HL5) as [HI' [HL' [Hk' HS']]]; auto.
    { intros d' Hd'. apply Hk5. apply Hk. right; auto. }
    split; auto. split; auto. split; auto. eapply Rtrans; eauto.
Qed.
End DangRel.

(** ** finite choice *)
Lemma fin_choice : forall (A : Type) (dflt : A) (P : nat -> A -> Prop) (l : list nat),
  (forall d, In d l -> exists w, P d w) -> exists W : nat -> A, forall d, In d l -> P d (W d).
Proof.
  intros A dflt P l. induction l as [|d l IH]; intros H.
  - exists (fun _ => dflt). intros d [].
  - destruct (H d (or_introl eq_refl)) as [w Hw]. destruct IH as [W HW]. { intros d' Hd'. apply H. right; auto. }
    exists (fun x => if Nat.eqb x d then w else W x). intros d' Hd'.
    destruct (Nat.eqb_spec d' d) as [->|Hne]; auto. destruct Hd' as [->|Hd']; [congruence|]. auto.
Qed.

(** ** [inst_ok] depends on the pins of the node and the values on them only *)
Section RSol.
Context {V : Type} (sem : BinNums.N -> V -> V -> V -> V -> V) (zero : V).

Lemma csol_stim_ext : forall impl (st st' : nat -> V) w, (forall x, st x = st' x) ->
  csol sem zero impl st w -> csol sem zero impl st' w.
Proof. intros impl st st' w H Hs x Hx. specialize (Hs x Hx). unfold cnode_ok in *. rewrite <- H. exact Hs. Qed.

Lemma inst_stim_xfer : forall c c' n impl m stim (v v' : nat -> V),
  ins_of c' n = ins_of c n -> (forall j, NetlistSem.pinv zero v' (ins_of c n) j = NetlistSem.pinv zero v (ins_of c n) j) ->
  forall x, inst_stim zero c n impl m stim v x = inst_stim zero c' n impl m stim v' x.
Proof. intros c c' n impl m stim v v' Hi Hp x. unfold inst_stim. rewrite Hi. destruct (index_of x (impl_ins impl)); auto. Qed.

Lemma inst_ok_xfer : forall c c' n impl m stim (v v' : nat -> V),
  ins_of c' n = ins_of c n -> (forall j, NetlistSem.pinv zero v' (ins_of c n) j = NetlistSem.pinv zero v (ins_of c n) j) ->
  (forall k ll, nth k (outs_of c' n) None = Some ll -> exists ll0, nth k (outs_of c n) None = Some ll0 /\ v' ll = v ll0) ->
  inst_ok sem zero c n impl m stim v -> inst_ok sem zero c' n impl m stim v'.
Proof.
  intros c c' n impl m stim v v' Hi Hp Ho [w [Hw Hout]]. exists w. split.
  - eapply csol_stim_ext; [|exact Hw]. apply inst_stim_xfer; auto.
  - intros k o ll Hk Hll. destruct (Ho k ll Hll) as [ll0 [A B]]. rewrite B. eapply Hout; eauto.
Qed.

Variable lib : list (string * circ).
Variable M : nat -> list (nat * nat).
Hypothesis Hkeys : lib_keys_ok_b lib = true.
Hypothesis Htotal : lib_total sem zero lib.

Lemma lib_kind_nofork : forall k impl, tlib_get k lib = Some impl -> is_fork k = false.
Proof.
  intros k impl H. destruct (is_fork k) eqn:E; auto. apply fork_kind in E. subst k.
  unfold lib_keys_ok_b in Hkeys. rewrite H in Hkeys. discriminate.
Qed.

(** what remove_dangling_nodes maintains, with library kinds read through their implementations *)
Record DangR (c c' : circ) : Prop := mkDR {
  dr_io : io c' = io c;
  dr_nk : forall x, name_of c' x = name_of c x /\ kind_of c' x = kind_of c x;
  dr_nodes : forall n, In n (nodes c') -> In n (nodes c);
  dr_lines : forall l, In l (lines c') -> In l (lines c);
  dr_if : forall n, In n (nodes c') -> ciface c' n = ciface c n /\ ins_of c' n = ins_of c n;
  dr_gone : forall n, In n (nodes c) -> ~ In n (nodes c') -> ~ In (Some n) (io c);
  dr_fwd : forall stim v, rsol sem zero lib M c stim v -> rsol sem zero lib M c' stim v;
  dr_bwd : forall stim v', rsol sem zero lib M c' stim v' ->
             exists v, rsol sem zero lib M c stim v /\ forall l, In l (lines c') -> v l = v' l
}.

Lemma dang_r_refl : forall c, DangR c c.
Proof.
  intros c. constructor.
  - reflexivity.
  - intros x. split; reflexivity.
  - auto.
  - auto.
  - intros n Hn. split; reflexivity.
  - intros n A B. contradiction.
  - auto.
  - intros stim v' H. exists v'. auto.
Qed.

Lemma dang_r_trans : forall a b c, DangR a b -> DangR b c -> DangR a c.
Proof.
  intros a b c [A1 A2 A3 A4 A5 A6 A7 A8] [B1 B2 B3 B4 B5 B6 B7 B8]. constructor.
  - congruence.
  - intros x. destruct (A2 x) as [P Q]. destruct (B2 x) as [P' Q']. split; congruence.
  - auto.
  - auto.
  - intros n Hn. destruct (B5 n Hn) as [P Q]. destruct (A5 n (B3 n Hn)) as [P' Q']. split; congruence.
  - intros n Hn Hn'. destruct (in_dec Nat.eq_dec n (nodes b)) as [Hb|Hb].
    + rewrite <- A1. apply B6; auto.
    + apply A6; auto.
  - auto.
  - intros stim v'' H. destruct (B8 stim v'' H) as [v' [H1 H2]]. destruct (A8 stim v' H1) as [v [H3 H4]].
    exists v. split; auto. intros l Hl. rewrite H4 by auto. apply H2; auto.
Qed.

(** one level, forward *)
Lemma dang_r_frame_fwd : forall c c2 root, CInv c -> IoLive c -> CInv c2 -> IoLive c2 -> DangFrame c c2 root ->
  forall stim v, rsol sem zero lib M c stim v -> rsol sem zero lib M c2 stim v.
Proof.
  intros c c2 root HI HL HI2 HL2 HF stim v Hs n Hn.
  destruct (dang_frame_struct c c2 root HI HL HI2 HL2 HF) as [S1 [S2 [S3 [S4 [S5 S6]]]]].
  destruct HF as [F1 F2 F3 F4 F5 F6 F7 F8 F9 F10].
  destruct (S5 n Hn) as [Hif Hins]. destruct (S2 n) as [_ Hk].
  pose proof (Hs n (S3 n Hn)) as Hnode. unfold rnode_ok in *. rewrite Hk.
  destruct (tlib_get (kind_of c n) lib) as [impl|] eqn:Et.
  - revert Hnode. apply inst_ok_xfer; auto.
    intros k ll Hq. destruct (F9 n k ll Hq) as [k' [Hq' Hk']]. exists ll. split; auto.
    rewrite <- (Hk' (lib_kind_nofork _ _ Et)). exact Hq'.
  - unfold cnode_ok in *. rewrite Hif, Hk, Hins.
    apply (gate_ok_outs_sub sem zero _ _ (outs_of c n)); [|exact Hnode].
    intros k o Hq. rewrite pin_nth in Hq. destruct (F9 n k o Hq) as [k' [Hq' Hk']].
    exists k'. rewrite pin_nth. split; auto.
Qed.

(** one level, backward *)
Lemma dang_r_frame_bwd : forall c c2 root, CInv c -> IoLive c -> CInv c2 -> IoLive c2 -> DangFrame c c2 root ->
  forall stim v', rsol sem zero lib M c2 stim v' ->
  exists v, rsol sem zero lib M c stim v /\ forall l, In l (lines c2) -> v l = v' l.
Proof.
  intros c c2 root HI HL HI2 HL2 HF stim v' Hs.
  destruct (dang_frame_struct c c2 root HI HL HI2 HL2 HF) as [S1 [S2 [S3 [S4 [S5 S6]]]]].
  destruct HF as [F1 F2 F3 F4 F5 F6 F7 F8 F9 F10].
  pose proof HI as [HC _]. pose proof HI2 as [HC2 _].
  set (ls := somes (ins_of c root)) in *.
  (* one solution of the implementation per library instance of c2 *)
  set (Q := fun d (w : nat -> V) =>
              match tlib_get (kind_of c d) lib with
              | Some impl => csol sem zero impl (inst_stim zero c2 d impl (M d) stim v') w /\
                             forall k o ll, nth_error (impl_outs impl) k = Some o -> nth k (outs_of c2 d) None = Some ll ->
                                            v' ll = obs zero impl w o 0
              | None => True
              end).
  destruct (fin_choice (nat -> V) (fun _ => zero) Q (nodes c2)) as [W HW].
  { intros d Hd. unfold Q. pose proof (Hs d Hd) as Hd2. unfold rnode_ok in Hd2. destruct (S2 d) as [_ Hk]. rewrite Hk in Hd2.
    destruct (tlib_get (kind_of c d) lib) as [impl|]; [exact Hd2|]. exists (fun _ => zero). exact I. }
  set (ifc := fun d => if ciface c d then Some (stim d) else None).
  set (dem := fun l => match l_drv (lst c l) with
                       | Some d =>
                           match tlib_get (kind_of c d) lib with
                           | Some impl => match nth_error (impl_outs impl) (l_dpin (lst c l)) with
                                          | Some o => obs zero impl (W d) o 0 | None => zero end
                           | None => match gate_out sem zero (kind_of c d) (ins_of c d) (ifc d) v' (l_dpin (lst c l)) with
                                     | Some x => x | None => zero end
                           end
                       | None => zero end).
  set (v := fun l => if mem l ls then dem l else v' l).
  assert (Hv_keep : forall l, ~ In l ls -> v l = v' l).
  { intros l Hl. unfold v. rewrite (mem_false l ls Hl). reflexivity. }
  assert (Hls_rdr : forall l, In l ls -> l_rdr (lst c l) = Some root).
  { intros l Hl. unfold ls in Hl. apply somes_In in Hl. apply In_nth_opt in Hl. destruct Hl as [q [_ Hq]].
    destruct (cc_ins [] c HC root q l (or_introl F1) Hq) as [_ [B _]]. exact B. }
  assert (Hpv : forall n, In n (nodes c) -> n <> root ->
                forall j, NetlistSem.pinv zero v (ins_of c n) j = NetlistSem.pinv zero v' (ins_of c n) j).
  { intros n Hn Hne j. unfold NetlistSem.pinv. destruct (SimOps.pin (ins_of c n) j) as [i|] eqn:E; auto.
    apply Hv_keep. intros Hi. rewrite pin_in_at in E.
    destruct (cc_ins [] c HC n j i (or_introl Hn) E) as [_ [B _]]. rewrite (Hls_rdr i Hi) in B. congruence. }
  (* a surviving line at out pin k of a surviving non-fork node is at the same pin in c2 *)
  assert (Hsurv : forall n k o, In n (nodes c) -> out_at c n k = Some o -> ~ In o ls ->
                  exists p, out_at c2 n p = Some o /\ (is_fork (kind_of c n) = false -> p = k)).
  { intros n k o Hn Hq Hnot.
    destruct (cc_outs [] c HC n k o (or_introl Hn) Hq) as [Ho_in [Ho_d Ho_p]].
    assert (Ho2 : In o (lines c2)) by (apply F6; auto).
    destruct (cc_line [] c2 HC2 o Ho2) as [d' [r' [E1 [_ [_ [_ [E5 _]]]]]]].
    rewrite (F10 o Hnot), Ho_d in E1. injection E1 as <-.
    exists (l_dpin (lst c2 o)). split; auto. intros Hnf.
    destruct (F9 n _ o E5) as [k' [Hq' Hk']].
    destruct (cc_outs [] c HC n k' o (or_introl Hn) Hq') as [_ [_ Hp']].
    assert (Hkk : k' = k) by congruence. rewrite <- Hkk. symmetry. apply Hk'. exact Hnf. }
  exists v. split.
  - intros n Hn. unfold rnode_ok. destruct (tlib_get (kind_of c n) lib) as [impl|] eqn:Et.
    + (* a library instance *)
      destruct (Nat.eq_dec n root) as [->|Hne].
      * destruct (Htotal _ _ Et (inst_stim zero c root impl (M root) stim v)) as [w Hw]. exists w. split; auto.
        intros k o ll _ Hq. fold (out_at c root k) in Hq. rewrite F2 in Hq. discriminate.
      * assert (Hn2 : In n (nodes c2)) by (apply F5; auto).
        pose proof (HW n Hn2) as HQ. unfold Q in HQ. rewrite Et in HQ. destruct HQ as [Hw Hout].
        destruct (S5 n Hn2) as [_ Hins].
        exists (W n). split.
        -- eapply csol_stim_ext; [|exact Hw]. intros x. symmetry. apply inst_stim_xfer; auto. intros j. symmetry. apply Hpv; auto.
        -- intros k o ll Hk Hq. destruct (cc_outs [] c HC n k ll (or_introl Hn) Hq) as [Ho_in [Ho_d Ho_p]].
           destruct (mem ll ls) eqn:Eo.
           ++ unfold v. rewrite Eo. unfold dem. rewrite Ho_d, Et, Ho_p, Hk. reflexivity.
           ++ assert (Hnot : ~ In ll ls). { intros H. apply mem_In in H. congruence. }
              rewrite (Hv_keep ll Hnot).
              destruct (Hsurv n k ll Hn Hq Hnot) as [p [Hp Hpk]]. rewrite (Hpk (lib_kind_nofork _ _ Et)) in Hp.
              apply (Hout k o ll Hk Hp).
    + (* an ordinary node: as in Proofs/CircuitDanglingSem.dang_frame_bwd *)
      unfold cnode_ok. fold (ifc n). apply gate_ok_iff. intros k o Hq x Hx.
      rewrite pin_out_at in Hq.
      destruct (Nat.eq_dec n root) as [->|Hne]. { rewrite F2 in Hq. discriminate. }
      assert (Hn2 : In n (nodes c2)) by (apply F5; auto).
      rewrite (gate_out_ext sem zero _ _ _ v v' k (Hpv n Hn Hne)) in Hx.
      destruct (cc_outs [] c HC n k o (or_introl Hn) Hq) as [Ho_in [Ho_d Ho_p]].
      destruct (mem o ls) eqn:Eo.
      * unfold v. rewrite Eo. unfold dem. rewrite Ho_d, Et, Ho_p, Hx. reflexivity.
      * assert (Hnot : ~ In o ls). { intros H. apply mem_In in H. congruence. }
        rewrite (Hv_keep o Hnot).
        destruct (Hsurv n k o Hn Hq Hnot) as [p [Hp Hpk]].
        pose proof (Hs n Hn2) as Hnode. unfold rnode_ok in Hnode. destruct (S2 n) as [_ Hk]. rewrite Hk, Et in Hnode.
        unfold cnode_ok in Hnode.
        destruct (S5 n Hn2) as [Hif Hins]. rewrite Hif, Hk, Hins in Hnode. fold (ifc n) in Hnode.
        rewrite gate_ok_iff in Hnode. apply (Hnode p o). { rewrite pin_out_at. exact Hp. }
        destruct (is_fork (kind_of c n)) eqn:Efk.
        -- rewrite (gate_out_fork sem zero _ _ _ v' p k Efk). exact Hx.
        -- rewrite (Hpk eq_refl). exact Hx.
  - intros l Hl. apply Hv_keep. apply F6 in Hl. tauto.
Qed.

Lemma dang_r_frame : forall c c2 root, CInv c -> IoLive c -> CInv c2 -> IoLive c2 -> DangFrame c c2 root -> DangR c c2.
Proof.
  intros c c2 root HI HL HI2 HL2 HF.
  destruct (dang_frame_struct c c2 root HI HL HI2 HL2 HF) as [S1 [S2 [S3 [S4 [S5 S6]]]]].
  constructor; auto.
  - exact (dang_r_frame_fwd c c2 root HI HL HI2 HL2 HF).
  - exact (dang_r_frame_bwd c c2 root HI HL HI2 HL2 HF).
Qed.

(** the clean-up of substitute *)
Theorem cleanup_rsol : forall dl c4 c', CInv c4 -> IoLive c4 -> (forall d, In d dl -> In d (nodes c4)) ->
  cleanup dl c4 = Some c' -> CInv c' /\ IoLive c' /\ DangR c4 c'.
Proof.
  intros dl c4 c' HI HL Hdl Hcl.
  destruct (cleanup_rel DangR dang_r_refl dang_r_trans dang_r_frame dl c4 c' HI HL) as [A [B [_ D]]]; auto.
  intros d Hd. left. auto.
Qed.
End RSol.
