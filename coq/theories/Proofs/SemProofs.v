(** The scheduler's op list computes a solution of the per-node equations of Model/NetlistSem.v:
    S1 [build_ops_solution]  executing [build_ops c false] from [init_env] yields a [solution];
    S2 [build_ops_ssa]       the op list is in single-assignment topological form ([ssa_topo]);
    S3 [solution_unique]     solutions are unique on all lines, under the side conditions listed there.
       CORRECTED statement: the one originally proposed ([unique_claim], i.e. without the hypothesis that gates
       drive lines from output pin 0 only) is FALSE, see [Counter.unique_claim_false]. *)
From Coq Require Import List NArith ZArith Bool Arith Lia String Permutation.
From KV Require Import Model.Prims Model.Netlist Model.NetlistWf Model.Heap Model.SimOps Model.AllocCheck Model.NetlistSem
     Gen.SimTables Proofs.TopoProofs Proofs.AllocProofs.
Import List.
Import ListNotations.
Local Open Scope list_scope.

(* ------------------------------------------------------------------------------------------------ *)
(** * Generic list lemmas *)

Lemma app_split_mid {B} : forall (u w pre : list B) o post,
  u ++ w = pre ++ o :: post ->
  (exists b, u = pre ++ o :: b /\ post = b ++ w) \/ (exists a, pre = u ++ a /\ w = a ++ o :: post).
Proof.
  induction u as [|h u IH]; intros w pre o post E.
  - right. exists pre. auto.
  - destruct pre as [|p pre].
    + simpl in E. injection E as -> E. left. exists u. auto.
    + simpl in E. injection E as -> E. destruct (IH _ _ _ _ E) as [(b & -> & ->)|(a & -> & ->)].
      * left. exists b. auto.
      * right. exists a. auto.
Qed.

Lemma flat_map_split {A B} (f : A -> list B) : forall l pre o post,
  flat_map f l = pre ++ o :: post ->
  exists l1 x l2 a b, l = l1 ++ x :: l2 /\ f x = a ++ o :: b /\
     pre = flat_map f l1 ++ a /\ post = b ++ flat_map f l2.
Proof.
  induction l as [|x r IH]; intros pre o post E.
  - destruct pre; discriminate.
  - simpl in E. destruct (app_split_mid _ _ _ _ _ E) as [(b & Ex & ->)|(a & -> & Er)].
    + exists [], x, r, pre, b. auto.
    + destruct (IH _ _ _ Er) as (l1 & y & l2 & a' & b & -> & Ey & -> & ->).
      exists (x :: l1), y, l2, a', b. simpl. rewrite app_assoc. auto.
Qed.

Lemma NoDup_app_disj {A} (l1 l2 : list A) x : NoDup (l1 ++ l2) -> In x l1 -> In x l2 -> False.
Proof.
  induction l1 as [|a l1 IH]; intros Hnd H1 H2; [destruct H1|].
  simpl in Hnd. inversion Hnd as [|? ? Hna Hnd']; subst. destruct H1 as [->|H1].
  - apply Hna. apply in_or_app. right. exact H2.
  - apply IH; assumption.
Qed.

Lemma somes_cons_some {A} (y : A) t : somes (Some y :: t) = y :: somes t.
Proof. reflexivity. Qed.
Lemma somes_cons_none {A} (t : list (option A)) : somes (None :: t) = somes t.
Proof. reflexivity. Qed.

Lemma somes_tl {A} (l : list (option A)) x : In x (somes (tl l)) -> In x (somes l).
Proof.
  destruct l as [|[y|] t]; simpl tl; auto. rewrite somes_cons_some. intros H. right. exact H.
Qed.

Lemma pin_nth l k x : pin l k = Some x <-> nth_error l k = Some (Some x).
Proof.
  unfold pin. destruct (nth_error l k) as [[y|]|]; split; intros H; try discriminate; congruence.
Qed.

Lemma pin_somes l k x : pin l k = Some x -> In x (somes l).
Proof. intros H. apply pin_nth in H. apply in_somes. eauto. Qed.

Lemma pin_S a l k : pin (a :: l) (S k) = pin l k.
Proof. reflexivity. Qed.

Lemma pin_or_cases l k d :
  (exists x, pin l k = Some x /\ pin_or l k d = x) \/ (pin l k = None /\ pin_or l k d = d).
Proof. unfold pin_or. destruct (pin l k) as [x|]; [left; eauto|right; auto]. Qed.

Lemma last_pos_none x : forall l i acc, last_pos x l i acc = None -> acc = None /\ ~ In x l.
Proof.
  induction l as [|y r IH]; intros i acc H; simpl in H.
  - auto.
  - apply IH in H. destruct H as [H1 H2]. destruct (Nat.eqb x y) eqn:E; [discriminate|].
    apply Nat.eqb_neq in E. split; [exact H1|]. intros [H|H]; [congruence|contradiction].
Qed.

(* ------------------------------------------------------------------------------------------------ *)
(** * Line-level execution on lists in which later ops do not disturb an op's output and operands *)

Section Exec.
  Context {V : Type} (sem : N -> V -> V -> V -> V -> V).
  Notation ex := (iexec sem (fun x : nat => x)).

  Lemma iexec_cons o r (e : @ienv V) : ex (o :: r) e = ex r (istep sem (fun x => x) e o).
  Proof. reflexivity. Qed.

  Lemma iexec_notin : forall ops (e : @ienv V) k, ~ In k (map s_out ops) -> ex ops e k = e k.
  Proof.
    induction ops as [|o r IH]; intros e k H; [reflexivity|].
    rewrite iexec_cons, IH.
    - unfold istep, iupd. destruct (Nat.eqb k (s_out o)) eqn:E; [|reflexivity].
      apply Nat.eqb_eq in E. exfalso. apply H. left. auto.
    - intros Hin. apply H. right. exact Hin.
  Qed.

  Lemma iexec_final pre o post (e : @ienv V) :
    ~ In (s_out o) (map s_out post) ->
    (forall x, In x [s_i0 o; s_i1 o; s_i2 o; s_i3 o] -> x <> s_out o /\ ~ In x (map s_out post)) ->
    ex (pre ++ o :: post) e (s_out o) =
    sem (s_lut o) (ex (pre ++ o :: post) e (s_i0 o)) (ex (pre ++ o :: post) e (s_i1 o))
                  (ex (pre ++ o :: post) e (s_i2 o)) (ex (pre ++ o :: post) e (s_i3 o)).
  Proof.
    intros Ho Hr. rewrite (iexec_app sem (fun x => x) pre (o :: post) e).
    set (e1 := ex pre e). rewrite iexec_cons.
    assert (R : forall x, In x [s_i0 o; s_i1 o; s_i2 o; s_i3 o] ->
              ex post (istep sem (fun x => x) e1 o) x = e1 x).
    { intros x Hx. destruct (Hr x Hx) as [N1 N2]. rewrite iexec_notin by exact N2.
      unfold istep, iupd. apply Nat.eqb_neq in N1. rewrite N1. reflexivity. }
    rewrite (R (s_i0 o)), (R (s_i1 o)), (R (s_i2 o)), (R (s_i3 o)) by (cbn [In]; tauto).
    rewrite iexec_notin by exact Ho. unfold istep, iupd. rewrite Nat.eqb_refl. reflexivity.
  Qed.
End Exec.

(** Prop version of [ssa_topo] (identity aliasing), strengthened: an op does not read its own output *)
Fixpoint ssa_p (scratch : nat) (ops : list sop) : Prop :=
  match ops with
  | [] => True
  | o :: r =>
      (s_out o = scratch \/ ~ In (s_out o) (map s_out r)) /\
      (forall x, In x [s_i0 o; s_i1 o; s_i2 o; s_i3 o] ->
         x <> scratch /\ x <> s_out o /\ ~ In x (map s_out r)) /\
      ssa_p scratch r
  end.

Lemma ssa_p_of_splits scratch : forall ops,
  (forall pre o post, ops = pre ++ o :: post ->
     (s_out o = scratch \/ ~ In (s_out o) (map s_out post)) /\
     (forall x, In x [s_i0 o; s_i1 o; s_i2 o; s_i3 o] ->
        x <> scratch /\ x <> s_out o /\ ~ In x (map s_out post))) ->
  ssa_p scratch ops.
Proof.
  induction ops as [|o r IH]; intros H; [exact I|].
  destruct (H [] o r eq_refl) as [H1 H2]. cbn [ssa_p]. split; [exact H1|]. split; [exact H2|].
  apply IH. intros pre o' post E. apply (H (o :: pre) o' post). rewrite E. reflexivity.
Qed.

Lemma stemmed_repeat len i : stemmed (repeat (-1)%Z len) i = i.
Proof. unfold stemmed. rewrite nth_repeat. reflexivity. Qed.

Lemma not_in_existsb x l : ~ In x l -> existsb (Nat.eqb x) l = false.
Proof.
  intros H. apply existsb_false_forall. intros y Hy. apply Nat.eqb_neq. intros ->. contradiction.
Qed.

Lemma ssa_p_topo len scratch : forall ops, ssa_p scratch ops -> ssa_topo (repeat (-1)%Z len) scratch ops = true.
Proof.
  induction ops as [|o r IH]; intros H; [reflexivity|].
  cbn [ssa_p] in H. destruct H as (H1 & H2 & H3). cbn [ssa_topo].
  rewrite (IH H3), andb_true_r. apply andb_true_iff. split.
  - destruct H1 as [H1|H1].
    + apply Nat.eqb_eq in H1. rewrite H1. reflexivity.
    + rewrite (not_in_existsb _ _ H1). apply orb_true_r.
  - apply forallb_forall. intros x Hx. unfold reads in Hx. cbn [map] in Hx.
    rewrite !stemmed_repeat in Hx. destruct (H2 x Hx) as (N1 & _ & N3).
    apply Nat.eqb_neq in N1. rewrite N1, (not_in_existsb _ _ N3). reflexivity.
Qed.

(* ------------------------------------------------------------------------------------------------ *)
(** * The ops of one node *)

Definition mkop l o a b cc d := {| s_lut := l; s_out := o; s_i0 := a; s_i1 := b; s_i2 := cc; s_i3 := d |}.

Definition iface_ops (nl : nat) (nd : node) (pos : nat) : list sop :=
  let inp := nl + 3 + pos in
  (match pin (n_outs nd) 0 with Some o => [mkop (lutv "BUF1") o inp nl nl nl] | None => [] end) ++
  (if is_dff nd then
     match pin (n_outs nd) 1 with Some o => [mkop (lutv "INV1") o inp nl nl nl] | None => [] end
   else map (fun o => mkop (lutv "BUF1") o inp nl nl nl) (somes (tl (n_outs nd)))).

Definition gate_ops (nl : nat) (nd : node) : list sop :=
  let o0 := pin_or (n_outs nd) 0 (nl + 1) in
  let i0 := pin_or (n_ins nd) 0 nl in let i1 := pin_or (n_ins nd) 1 nl in
  let i2 := pin_or (n_ins nd) 2 nl in let i3 := pin_or (n_ins nd) 3 nl in
  if is_fork nd then map (fun o => mkop (lutv "BUF1") o i0 i1 i2 i3) (somes (n_outs nd))
  else match select_lut kind_prefixes (n_kind nd) (Nat.eqb i2 nl) (Nat.eqb i3 nl) with
       | Some sp => [mkop sp o0 i0 i1 i2 i3]
       | None => []
       end.

Definition fops (c : netlist) : nat -> list sop :=
  node_ops c (s_nodes c) false (length (c_lines c)) (length (c_lines c) + 1) (length (c_lines c) + 3).

Lemma build_ops_eq c : build_ops c false = flat_map (fops c) (topo_order c).
Proof. reflexivity. Qed.

Lemma fops_eq c n :
  fops c n = match iface_pos c n with
             | Some pos => iface_ops (length (c_lines c)) (get_node c n) pos
             | None => gate_ops (length (c_lines c)) (get_node c n)
             end.
Proof. reflexivity. Qed.

Lemma in_iface_ops nl nd pos o : In o (iface_ops nl nd pos) ->
  In (s_out o) (somes (n_outs nd)) /\ s_i0 o = nl + 3 + pos /\ s_i1 o = nl /\ s_i2 o = nl /\ s_i3 o = nl.
Proof.
  unfold iface_ops. cbv zeta. intros H. apply in_app_or in H. destruct H as [H|H].
  - destruct (pin (n_outs nd) 0) as [x|] eqn:E; [|destruct H]. destruct H as [<-|[]].
    cbn. split; [eapply pin_somes; exact E|auto].
  - destruct (is_dff nd).
    + destruct (pin (n_outs nd) 1) as [x|] eqn:E; [|destruct H]. destruct H as [<-|[]].
      cbn. split; [eapply pin_somes; exact E|auto].
    + apply in_map_iff in H. destruct H as (x & <- & Hx). cbn. split; [apply somes_tl; exact Hx|auto].
Qed.

Lemma map_out_mk {A} (g : A -> sop) (h : A -> nat) l : (forall x, s_out (g x) = h x) -> map s_out (map g l) = map h l.
Proof. intros H. rewrite map_map. apply map_ext. exact H. Qed.

Lemma nodup_iface_ops nl nd pos :
  NoDup (somes (n_outs nd)) ->
  (forall x, pin (n_outs nd) 0 = Some x -> pin (n_outs nd) 1 = Some x -> False) ->
  NoDup (map s_out (iface_ops nl nd pos)).
Proof.
  intros Hnd Hne. unfold iface_ops. cbv zeta. rewrite map_app. destruct (is_dff nd).
  - destruct (pin (n_outs nd) 0) as [x|] eqn:E0; destruct (pin (n_outs nd) 1) as [y|] eqn:E1; cbn.
    + constructor; [|constructor; [intros []|constructor]]. intros [H|[]]. subst y. eapply Hne; eauto.
    + constructor; [intros []|constructor].
    + constructor; [intros []|constructor].
    + constructor.
  - rewrite (map_out_mk _ (fun o => o)) by reflexivity. rewrite map_id.
    destruct (n_outs nd) as [|[y|] t]; cbn; exact Hnd.
Qed.

Lemma in_gate_ops nl nd o : In o (gate_ops nl nd) ->
  (In (s_out o) (somes (n_outs nd)) \/ s_out o = nl + 1) /\
  (forall x, In x [s_i0 o; s_i1 o; s_i2 o; s_i3 o] -> x = nl \/ In x (somes (n_ins nd))).
Proof.
  assert (P : forall k, pin_or (n_ins nd) k nl = nl \/ In (pin_or (n_ins nd) k nl) (somes (n_ins nd))).
  { intros k. destruct (pin_or_cases (n_ins nd) k nl) as [(x & E1 & E2)|(E1 & E2)]; rewrite E2; auto.
    right. eapply pin_somes; exact E1. }
  assert (Q : forall x, In x [pin_or (n_ins nd) 0 nl; pin_or (n_ins nd) 1 nl; pin_or (n_ins nd) 2 nl; pin_or (n_ins nd) 3 nl] ->
              x = nl \/ In x (somes (n_ins nd))).
  { intros x [<-|[<-|[<-|[<-|[]]]]]; apply P. }
  unfold gate_ops. cbv zeta. intros H. destruct (is_fork nd).
  - apply in_map_iff in H. destruct H as (x & <- & Hx). cbn [mkop s_out s_i0 s_i1 s_i2 s_i3]. auto.
  - destruct (select_lut _ _ _ _) as [sp|]; [|destruct H]. destruct H as [<-|[]].
    cbn [mkop s_out s_i0 s_i1 s_i2 s_i3]. split; [|exact Q].
    destruct (pin_or_cases (n_outs nd) 0 (nl + 1)) as [(x & E1 & E2)|(E1 & E2)]; rewrite E2; auto.
    left. eapply pin_somes; exact E1.
Qed.

Lemma nodup_gate_ops nl nd : NoDup (somes (n_outs nd)) -> NoDup (map s_out (gate_ops nl nd)).
Proof.
  intros Hnd. unfold gate_ops. cbv zeta. destruct (is_fork nd).
  - rewrite (map_out_mk _ (fun o => o)) by reflexivity. rewrite map_id. exact Hnd.
  - destruct (select_lut _ _ _ _); cbn; [constructor; [intros []|constructor]|constructor].
Qed.

(* ------------------------------------------------------------------------------------------------ *)
(** * The op list of a well-formed acyclic netlist *)

Lemma fork_not_seq nd : String.eqb (n_kind nd) "__fork__" = true -> is_seq nd = false.
Proof.
  intros H. apply String.eqb_eq in H. unfold is_seq, is_dff, is_latch. rewrite H. vm_compute. reflexivity.
Qed.

Section Core.
  Variable c : netlist.
  Hypothesis WF : wf_netlist c.
  Notation nl := (length (c_lines c)).
  Notation NN := (length (c_nodes c)).
  Notation drv l := (l_drv (get_line c l)).
  Notation rdr l := (l_rdr (get_line c l)).

  Lemma iface_none_not_seq n : n < NN -> iface_pos c n = None -> is_seq (get_node c n) = false.
  Proof.
    intros Hn Hi. unfold iface_pos in Hi. destruct (port_wire (get_node c n)) eqn:Ep.
    - unfold port_wire in Ep. apply andb_true_iff in Ep. apply fork_not_seq. tauto.
    - apply last_pos_none in Hi. destruct Hi as [_ Hi].
      destruct (is_seq (get_node c n)) eqn:Es; [|reflexivity]. exfalso. apply Hi.
      unfold s_nodes. apply in_or_app. right. apply in_or_app.
      unfold is_seq in Es. apply orb_true_iff in Es. destruct Es as [Es|Es]; [left|right];
        apply (in_find_idx _ dnode); exists n; auto.
  Qed.

  Lemma pin01_distinct n x : n < NN ->
    pin (n_outs (get_node c n)) 0 = Some x -> pin (n_outs (get_node c n)) 1 = Some x -> False.
  Proof.
    intros Hn H0 H1. apply pin_nth in H0, H1. destruct WF as (_ & W2 & _).
    destruct (W2 _ _ _ Hn H0) as (_ & _ & E0). destruct (W2 _ _ _ Hn H1) as (_ & _ & E1). congruence.
  Qed.

  Lemma fops_out n o : n < NN -> In o (fops c n) ->
    (s_out o < nl /\ drv (s_out o) = n) \/ s_out o = nl + 1.
  Proof.
    intros Hn H. rewrite fops_eq in H.
    assert (X : In (s_out o) (somes (n_outs (get_node c n))) \/ s_out o = nl + 1).
    { destruct (iface_pos c n).
      - left. apply (in_iface_ops _ _ _ _ H).
      - apply (in_gate_ops _ _ _ H). }
    destruct X as [X|X]; [left|right; exact X]. apply (wf_in_outs c WF n _ Hn). exact X.
  Qed.

  Lemma fops_reads n o x : n < NN -> In o (fops c n) -> In x [s_i0 o; s_i1 o; s_i2 o; s_i3 o] ->
    x = nl \/ nl + 3 <= x \/ (iface_pos c n = None /\ x < nl /\ rdr x = n).
  Proof.
    intros Hn H Hx. rewrite fops_eq in H. destruct (iface_pos c n) as [p|].
    - apply in_iface_ops in H. destruct H as (_ & E0 & E1 & E2 & E3).
      rewrite E0, E1, E2, E3 in Hx. cbn [In] in Hx. lia.
    - apply in_gate_ops in H. destruct H as [_ H]. destruct (H x Hx) as [E|E]; [auto|].
      right. right. split; [reflexivity|]. apply (wf_in_ins c WF n _ Hn). exact E.
  Qed.

  Lemma fops_nodup n : n < NN -> NoDup (map s_out (fops c n)).
  Proof.
    intros Hn. rewrite fops_eq. pose proof (NoDup_outs c WF n Hn) as Hnd. destruct (iface_pos c n).
    - apply nodup_iface_ops; [exact Hnd|]. intros x. apply pin01_distinct. exact Hn.
    - apply nodup_gate_ops. exact Hnd.
  Qed.

  Lemma topo_split_drivers T1 n T2 d : topo_order c = T1 ++ n :: T2 -> is_source c n = false ->
    In d (drivers c n) -> In d T1.
  Proof.
    intros E Hs Hd. destruct (topo_final c WF) as (v & acc & rest & E1 & I & _).
    apply (ordered_split c acc (I_ord c _ _ _ I) T1 n T2); [rewrite <- E1; exact E|exact Hs|exact Hd].
  Qed.

  Lemma in_outs_flat T y : In y (map s_out (flat_map (fops c) T)) ->
    exists m o, In m T /\ In o (fops c m) /\ s_out o = y.
  Proof.
    intros H. apply in_map_iff in H. destruct H as (o & E & Ho). apply in_flat_map in Ho.
    destruct Ho as (m & Hm & Ho). eauto.
  Qed.

  Lemma core pre o post : build_ops c false = pre ++ o :: post ->
    (s_out o = nl + 1 \/ ~ In (s_out o) (map s_out post)) /\
    (forall x, In x [s_i0 o; s_i1 o; s_i2 o; s_i3 o] ->
       x <> nl + 1 /\ x <> s_out o /\ ~ In x (map s_out post)).
  Proof.
    intros E. rewrite build_ops_eq in E. apply flat_map_split in E.
    destruct E as (T1 & n & T2 & a & b & ET & En & -> & ->).
    destruct (topo_nodup c WF) as [Hnd Hlt]. rewrite ET in Hnd, Hlt.
    assert (Hn : n < NN) by (apply Hlt; apply in_or_app; right; left; reflexivity).
    assert (Ho : In o (fops c n)) by (rewrite En; apply in_or_app; right; left; reflexivity).
    pose proof (NoDup_remove_2 _ _ _ Hnd) as HnT.
    assert (Hlater : forall y, In y (map s_out (b ++ flat_map (fops c) T2)) ->
              y = nl + 1 \/ (y < nl /\ (In (drv y) T2 \/ (drv y = n /\ In y (map s_out b))))).
    { intros y Hy. rewrite map_app in Hy. apply in_app_or in Hy. destruct Hy as [Hy|Hy].
      - pose proof Hy as Hy'. apply in_map_iff in Hy. destruct Hy as (o' & <- & Ho').
        assert (Ho2 : In o' (fops c n)) by (rewrite En; apply in_or_app; right; right; exact Ho').
        destruct (fops_out n o' Hn Ho2) as [[H1 H2]|H1]; auto.
      - apply in_outs_flat in Hy. destruct Hy as (m & o' & Hm & Ho' & <-).
        assert (HmN : m < NN) by (apply Hlt; apply in_or_app; right; right; exact Hm).
        destruct (fops_out m o' HmN Ho') as [[H1 H2]|H1]; auto. right. split; [exact H1|]. left. rewrite H2. exact Hm. }
    pose proof (fops_out n o Hn Ho) as Hout.
    split.
    - destruct Hout as [[H1 H2]|H1]; [right|left; exact H1]. intros Hin.
      destruct (Hlater _ Hin) as [H|(_ & [H|[_ H]])].
      + lia.
      + rewrite H2 in H. apply HnT. apply in_or_app. right. exact H.
      + pose proof (fops_nodup n Hn) as Hnd2. rewrite En, map_app in Hnd2. cbn [map] in Hnd2.
        apply NoDup_remove_2 in Hnd2. apply Hnd2. apply in_or_app. right. exact H.
    - intros x Hx. destruct (fops_reads n o x Hn Ho Hx) as [Hz|[Hz|(Hi & Hxl & Hr)]].
      + split; [lia|]. split; [lia|]. intros Hin. destruct (Hlater _ Hin) as [H|(H & _)]; lia.
      + split; [lia|]. split; [lia|]. intros Hin. destruct (Hlater _ Hin) as [H|(H & _)]; lia.
      + assert (Hsom : In x (somes (n_ins (get_node c n)))) by (apply (wf_in_ins c WF n x Hn); auto).
        assert (Hsrc : is_source c n = false).
        { unfold is_source. rewrite (iface_none_not_seq n Hn Hi), orb_false_r. apply Nat.eqb_neq.
          rewrite connected_somes. destruct (somes (n_ins (get_node c n))); [destruct Hsom|discriminate]. }
        assert (Hd : In (drv x) T1).
        { apply (topo_split_drivers T1 n T2 (drv x) ET Hsrc). unfold drivers.
          apply (in_map (fun l => l_drv (get_line c l))). exact Hsom. }
        assert (Hdn : drv x <> n).
        { intros E. apply HnT. apply in_or_app. left. rewrite <- E. exact Hd. }
        assert (HdT2 : ~ In (drv x) T2).
        { intros H. apply (NoDup_app_disj _ _ _ Hnd Hd). right. exact H. }
        split; [lia|]. split.
        * intros E. destruct Hout as [[H1 H2]|H1]; [|lia]. rewrite <- E in H2. contradiction.
        * intros Hin. destruct (Hlater _ Hin) as [H|(_ & [H|[H _]])]; [lia|contradiction|contradiction].
  Qed.

  Lemma build_ops_ssa_p : ssa_p (nl + 1) (build_ops c false).
  Proof. apply ssa_p_of_splits. intros pre o post E. exact (core pre o post E). Qed.

  Lemma all_outs o : In o (build_ops c false) -> s_out o < nl \/ s_out o = nl + 1.
  Proof.
    rewrite build_ops_eq. intros H. apply in_flat_map in H. destruct H as (m & Hm & Ho).
    destruct (topo_nodup c WF) as [_ Hlt]. destruct (fops_out m o (Hlt m Hm) Ho) as [[H _]|H]; auto.
  Qed.
End Core.

Theorem build_ops_ssa c :
  wf_netlist c -> comb_acyclic c ->
  ssa_topo (repeat (-1)%Z (length (c_lines c) + 3 + 2 * length (s_nodes c))) (length (c_lines c) + 1) (build_ops c false) = true.
Proof. intros WF _. apply ssa_p_topo. apply build_ops_ssa_p. exact WF. Qed.

(* ------------------------------------------------------------------------------------------------ *)
(** * S1 *)

Section Sol.
  Context {V : Type} (sem : N -> V -> V -> V -> V -> V) (zero : V).
  Variable c : netlist.
  Variable stim : nat -> V.
  Hypothesis WF : wf_netlist c.
  Hypothesis AC : comb_acyclic c.
  Notation nl := (length (c_lines c)).
  Notation NN := (length (c_nodes c)).
  Let v := iexec sem (fun x => x) (build_ops c false) (init_env zero c stim).

  Lemma v_unwritten k : nl <= k -> k <> nl + 1 -> v k = init_env zero c stim k.
  Proof.
    intros H1 H2. unfold v. apply iexec_notin. intros Hin. apply in_map_iff in Hin.
    destruct Hin as (o & E & Ho). destruct (all_outs c WF o Ho); lia.
  Qed.

  Lemma v_zero : v nl = zero.
  Proof.
    rewrite v_unwritten by lia. unfold init_env.
    destruct (Nat.leb (nl + 3) nl) eqn:E; [apply Nat.leb_le in E; lia|reflexivity].
  Qed.

  Lemma v_ppi p : v (nl + 3 + p) = stim p.
  Proof.
    rewrite v_unwritten by lia. unfold init_env.
    destruct (Nat.leb (nl + 3) (nl + 3 + p)) eqn:E; [|apply Nat.leb_gt in E; lia].
    f_equal. lia.
  Qed.

  Lemma v_pin l k : v (pin_or l k nl) = pinv zero v l k.
  Proof. unfold pin_or, pinv. destruct (pin l k); [reflexivity|apply v_zero]. Qed.

  Lemma op_final o : In o (build_ops c false) -> s_out o <> nl + 1 ->
    v (s_out o) = sem (s_lut o) (v (s_i0 o)) (v (s_i1 o)) (v (s_i2 o)) (v (s_i3 o)).
  Proof.
    intros Ho Hs. apply in_split in Ho. destruct Ho as (pre & post & E).
    destruct (core c WF pre o post E) as [[H1|H1] H2]; [contradiction|].
    unfold v. rewrite E. apply iexec_final; [exact H1|].
    intros x Hx. destruct (H2 x Hx) as (_ & A & B). auto.
  Qed.

  Lemma in_build n o : n < NN -> In o (fops c n) -> In o (build_ops c false).
  Proof.
    intros Hn Ho. rewrite build_ops_eq. apply in_flat_map. exists n. split; [|exact Ho].
    apply (Permutation_in _ (Permutation_sym (topo_complete c WF AC))). apply in_seq. lia.
  Qed.

  Lemma out_lt n k o : n < NN -> pin (n_outs (get_node c n)) k = Some o -> o < nl.
  Proof. intros Hn H. apply pin_somes in H. apply (wf_in_outs c WF n o Hn) in H. tauto. Qed.

  Lemma in_lt n k x : n < NN -> pin (n_ins (get_node c n)) k = Some x -> x < nl.
  Proof. intros Hn H. apply pin_somes in H. apply (wf_in_ins c WF n x Hn) in H. tauto. Qed.

  Lemma unconn_eqb n k : n < NN ->
    Nat.eqb (pin_or (n_ins (get_node c n)) k nl) nl = negb (is_some (pin (n_ins (get_node c n)) k)).
  Proof.
    intros Hn. unfold pin_or. destruct (pin (n_ins (get_node c n)) k) as [x|] eqn:E; cbn [is_some negb].
    - apply Nat.eqb_neq. pose proof (in_lt n k x Hn E). lia.
    - apply Nat.eqb_refl.
  Qed.

  Lemma node_ok_exec n : n < NN -> node_ok sem zero c stim v n.
  Proof.
    intros Hn. unfold node_ok. cbv zeta. pose proof (fops_eq c n) as Ef.
    set (nd := get_node c n) in *.
    assert (Fin : forall o, In o (fops c n) -> s_out o < nl ->
              v (s_out o) = sem (s_lut o) (v (s_i0 o)) (v (s_i1 o)) (v (s_i2 o)) (v (s_i3 o))).
    { intros o Ho Hl. apply op_final; [apply (in_build n o Hn Ho)|lia]. }
    destruct (iface_pos c n) as [p|] eqn:Ei.
    - assert (G : forall l o, In (mkop l o (nl + 3 + p) nl nl nl) (fops c n) -> o < nl ->
                v o = sem l (stim p) zero zero zero).
      { intros l o Ho Hl. pose proof (Fin _ Ho Hl) as F. cbn [mkop s_out s_lut s_i0 s_i1 s_i2 s_i3] in F.
        rewrite v_ppi, v_zero in F. exact F. }
      split.
      + intros o Ho. apply G; [|apply (out_lt n 0 o Hn Ho)].
        rewrite Ef. unfold iface_ops. cbv zeta. fold nd in Ho. rewrite Ho.
        apply in_or_app. left. left. reflexivity.
      + destruct (is_dff nd) eqn:Ed.
        * intros o Ho. apply G; [|apply (out_lt n 1 o Hn Ho)].
          rewrite Ef. unfold iface_ops. cbv zeta. rewrite Ed. fold nd in Ho. rewrite Ho.
          apply in_or_app. right. left. reflexivity.
        * intros k o Hk Ho. apply G; [|apply (out_lt n k o Hn Ho)].
          rewrite Ef. unfold iface_ops. cbv zeta. rewrite Ed.
          apply in_or_app. right.
          apply (in_map (fun o0 => mkop (lutv "BUF1") o0 (nl + 3 + p) nl nl nl)).
          destruct k as [|k]; [lia|]. fold nd in Ho. destruct (n_outs nd) as [|a t].
          -- unfold pin in Ho. destruct k; discriminate.
          -- rewrite pin_S in Ho. cbn [tl]. eapply pin_somes. exact Ho.
    - assert (G : forall l o, In (mkop l o (pin_or (n_ins nd) 0 nl) (pin_or (n_ins nd) 1 nl)
                                       (pin_or (n_ins nd) 2 nl) (pin_or (n_ins nd) 3 nl)) (fops c n) -> o < nl ->
                v o = sem l (pinv zero v (n_ins nd) 0) (pinv zero v (n_ins nd) 1)
                            (pinv zero v (n_ins nd) 2) (pinv zero v (n_ins nd) 3)).
      { intros l o Ho Hl. pose proof (Fin _ Ho Hl) as F. cbn [mkop s_out s_lut s_i0 s_i1 s_i2 s_i3] in F.
        rewrite !v_pin in F. exact F. }
      destruct (is_fork nd) eqn:Ek.
      + intros k o Ho. apply G; [|apply (out_lt n k o Hn Ho)].
        rewrite Ef. unfold gate_ops. cbv zeta. rewrite Ek.
        apply (in_map (fun o0 => mkop (lutv "BUF1") o0 _ _ _ _)). eapply pin_somes. exact Ho.
      + pose proof (unconn_eqb n 2 Hn) as U2. pose proof (unconn_eqb n 3 Hn) as U3. fold nd in U2, U3.
        destruct (select_lut kind_prefixes (n_kind nd) (negb (is_some (pin (n_ins nd) 2)))
                             (negb (is_some (pin (n_ins nd) 3)))) as [sp|] eqn:Es; [|exact I].
        intros o Ho. apply G; [|apply (out_lt n 0 o Hn Ho)].
        rewrite Ef. unfold gate_ops. cbv zeta. rewrite Ek, U2, U3, Es.
        fold nd in Ho. assert (Eo : pin_or (n_outs nd) 0 (nl + 1) = o) by (unfold pin_or; rewrite Ho; reflexivity).
        rewrite Eo. left. reflexivity.
  Qed.
End Sol.

Theorem build_ops_solution {V} (sem : N -> V -> V -> V -> V -> V) (zero : V) c stim :
  wf_netlist c -> comb_acyclic c ->
  solution sem zero c stim (iexec sem (fun x => x) (build_ops c false) (init_env zero c stim)).
Proof. intros WF AC n Hn. apply node_ok_exec; assumption. Qed.

(* ------------------------------------------------------------------------------------------------ *)
(** * S3: uniqueness.
    The statement as first proposed (without [Hgate1] below) is false: [node_ok] constrains only output pin 0 of a
    gate, so a line driven from pin >= 1 of a gate is free.  [Counter] is a concrete refutation; the corrected
    theorem adds the hypothesis that gates (non-interface, non-fork nodes) drive no line from an output pin >= 1. *)

Definition unique_claim : Prop :=
  forall (V : Type) (sem : N -> V -> V -> V -> V -> V) (zero : V) c stim v1 v2,
  wf_netlist c -> comb_acyclic c ->
  (forall n, n < length (c_nodes c) -> iface_pos c n = None -> is_fork (get_node c n) = false ->
     select_lut kind_prefixes (n_kind (get_node c n)) (negb (is_some (pin (n_ins (get_node c n)) 2)))
                (negb (is_some (pin (n_ins (get_node c n)) 3))) <> None) ->
  (forall n, n < length (c_nodes c) -> is_dff (get_node c n) = true -> forall k o, 2 <= k -> pin (n_outs (get_node c n)) k = Some o -> False) ->
  solution sem zero c stim v1 -> solution sem zero c stim v2 ->
  forall l, l < length (c_lines c) -> v1 l = v2 l.

Module Counter.
  (** an AND gate with two output pins, both read by an output port *)
  Definition cx : netlist :=
    {| c_nodes := [ {| n_kind := "and";    n_ins := [];               n_outs := [Some 0; Some 1] |};
                    {| n_kind := "output"; n_ins := [Some 0; Some 1]; n_outs := [] |} ];
       c_lines := [ {| l_drv := 0; l_dpin := 0; l_rdr := 1; l_rpin := 0 |};
                    {| l_drv := 0; l_dpin := 1; l_rdr := 1; l_rpin := 1 |} ];
       c_io := [1] |}.
  Definition st (_ : nat) := false.
  Definition va (_ : nat) := false.
  Definition vb (l : nat) := Nat.eqb l 1.

  (** both valuations pass the executable check, yet differ on line 1 *)
  Example cx_both : (solution_b Bool.eqb sem_lut false cx st va, solution_b Bool.eqb sem_lut false cx st vb, va 1, vb 1)
                    = (true, true, false, true).
  Proof. vm_compute. reflexivity. Qed.

  Lemma cx_wf : wf_netlist cx.
  Proof.
    unfold wf_netlist. split; [|split].
    - intros l Hl. simpl in Hl. do 2 (destruct l as [|l]; [vm_compute; repeat split; lia|]). lia.
    - intros n k l Hn H. simpl in Hn.
      do 2 (destruct n as [|n];
            [repeat (destruct k as [|k]; simpl in H; try discriminate);
             inversion H; subst; vm_compute; repeat split; lia|]).
      lia.
    - intros n k l Hn H. simpl in Hn.
      do 2 (destruct n as [|n];
            [repeat (destruct k as [|k]; simpl in H; try discriminate);
             inversion H; subst; vm_compute; repeat split; lia|]).
      lia.
  Qed.

  Lemma cx_acyclic : comb_acyclic cx.
  Proof.
    exists (fun n => n). intros l Hl _. simpl in Hl.
    do 2 (destruct l as [|l]; [vm_compute; lia|]). lia.
  Qed.

  Lemma cx_sol (v : nat -> bool) : v 0 = false -> solution sem_lut false cx st v.
  Proof.
    intros H0 n Hn. simpl in Hn. destruct n as [|[|n]]; [| |lia].
    - vm_compute. intros o E. injection E as <-. exact H0.
    - vm_compute. split.
      + intros o E. discriminate.
      + intros k o _ E. destruct k as [|[|k]]; discriminate.
  Qed.

  Theorem unique_claim_false : ~ unique_claim.
  Proof.
    intros H.
    specialize (H bool sem_lut false cx st va vb cx_wf cx_acyclic).
    assert (E : va 1 = vb 1); [|vm_compute in E; discriminate].
    apply H.
    - intros n Hn Hi _. simpl in Hn. destruct n as [|[|n]]; [| |lia].
      + vm_compute. discriminate.
      + vm_compute in Hi. discriminate.
    - intros n Hn Hd. simpl in Hn. destruct n as [|[|n]]; [| |lia]; vm_compute in Hd; discriminate.
    - apply cx_sol. reflexivity.
    - apply cx_sol. reflexivity.
    - simpl. lia.
  Qed.
End Counter.

Theorem solution_unique {V} (sem : N -> V -> V -> V -> V -> V) (zero : V) c stim v1 v2 :
  wf_netlist c -> comb_acyclic c ->
  (forall n, n < length (c_nodes c) -> iface_pos c n = None -> is_fork (get_node c n) = false ->
     select_lut kind_prefixes (n_kind (get_node c n)) (negb (is_some (pin (n_ins (get_node c n)) 2)))
                (negb (is_some (pin (n_ins (get_node c n)) 3))) <> None) ->
  (forall n, n < length (c_nodes c) -> is_dff (get_node c n) = true -> forall k o, 2 <= k -> pin (n_outs (get_node c n)) k = Some o -> False) ->
  (* added: a gate drives lines from output pin 0 only *)
  (forall n, n < length (c_nodes c) -> iface_pos c n = None -> is_fork (get_node c n) = false ->
     forall k o, 1 <= k -> pin (n_outs (get_node c n)) k = Some o -> False) ->
  solution sem zero c stim v1 -> solution sem zero c stim v2 ->
  forall l, l < length (c_lines c) -> v1 l = v2 l.
Proof.
  intros WF [rank Hr] Hsel Hdff Hgate1 S1 S2.
  assert (H : forall k l, l < length (c_lines c) -> rank (l_drv (get_line c l)) < k -> v1 l = v2 l).
  { induction k as [|k IH]; intros l Hl Hk; [lia|].
    pose proof (wf_drv_lt c WF l Hl) as Hd.
    assert (Hp : pin (n_outs (get_node c (l_drv (get_line c l)))) (l_dpin (get_line c l)) = Some l).
    { apply pin_nth. destruct WF as (W1 & _). pose proof (W1 l Hl) as W. cbv zeta in W. tauto. }
    set (d := l_drv (get_line c l)) in *. set (dp := l_dpin (get_line c l)) in *.
    pose proof (S1 d Hd) as N1. pose proof (S2 d Hd) as N2. unfold node_ok in N1, N2. cbv zeta in N1, N2.
    destruct (iface_pos c d) as [p|] eqn:Ei.
    - destruct N1 as [A1 B1], N2 as [A2 B2]. destruct dp as [|dp].
      + rewrite (A1 l Hp), (A2 l Hp). reflexivity.
      + destruct (is_dff (get_node c d)) eqn:Ed.
        * destruct dp as [|dp].
          -- rewrite (B1 l Hp), (B2 l Hp). reflexivity.
          -- exfalso. apply (Hdff d Hd Ed (S (S dp)) l); [lia|exact Hp].
        * rewrite (B1 (S dp) l), (B2 (S dp) l) by (try lia; exact Hp). reflexivity.
    - assert (Pv : forall j, pinv zero v1 (n_ins (get_node c d)) j = pinv zero v2 (n_ins (get_node c d)) j).
      { intros j. unfold pinv. destruct (pin (n_ins (get_node c d)) j) as [x|] eqn:Ex; [|reflexivity].
        apply pin_somes in Ex. apply (wf_in_ins c WF d x Hd) in Ex. destruct Ex as [Hx Er].
        apply IH; [exact Hx|]. pose proof (Hr x Hx) as R. rewrite Er in R.
        specialize (R (iface_none_not_seq c d Hd Ei)). lia. }
      destruct (is_fork (get_node c d)) eqn:Ek.
      + rewrite (N1 dp l Hp), (N2 dp l Hp), !Pv. reflexivity.
      + pose proof (Hsel d Hd Ei Ek) as Hs.
        destruct (select_lut kind_prefixes (n_kind (get_node c d)) _ _) as [sp|]; [|congruence].
        destruct dp as [|dp].
        * rewrite (N1 l Hp), (N2 l Hp), !Pv. reflexivity.
        * exfalso. apply (Hgate1 d Hd Ei Ek (S dp) l); [lia|exact Hp]. }
  intros l Hl. apply (H (S (rank (l_drv (get_line c l)))) l Hl). lia.
Qed.

(* ------------------------------------------------------------------------------------------------ *)
(** * Example: input 0 -> fork 1 -> both branches reconverge at AO21 gate 2 (middle pin unconnected) -> DFF 3,
      whose Q drives output port 4 and whose QN drives output port 5. *)
Module SemExample.
  Definition ex6 : netlist :=
    {| c_nodes :=
         [ {| n_kind := "input";    n_ins := [];                     n_outs := [Some 0] |};
           {| n_kind := "__fork__"; n_ins := [Some 0];               n_outs := [Some 1; Some 2] |};
           {| n_kind := "AO21";     n_ins := [Some 1; None; Some 2]; n_outs := [Some 3] |};
           {| n_kind := "DFFX1";    n_ins := [Some 3];               n_outs := [Some 4; Some 5] |};
           {| n_kind := "output";   n_ins := [Some 4];               n_outs := [] |};
           {| n_kind := "output";   n_ins := [Some 5];               n_outs := [] |} ];
       c_lines :=
         [ {| l_drv := 0; l_dpin := 0; l_rdr := 1; l_rpin := 0 |};
           {| l_drv := 1; l_dpin := 0; l_rdr := 2; l_rpin := 0 |};
           {| l_drv := 1; l_dpin := 1; l_rdr := 2; l_rpin := 2 |};
           {| l_drv := 2; l_dpin := 0; l_rdr := 3; l_rpin := 0 |};
           {| l_drv := 3; l_dpin := 0; l_rdr := 4; l_rpin := 0 |};
           {| l_drv := 3; l_dpin := 1; l_rdr := 5; l_rpin := 0 |} ];
       c_io := [0; 4; 5] |}.

  Lemma ex6_wf : wf_netlist ex6.
  Proof.
    unfold wf_netlist. split; [|split].
    - intros l Hl. simpl in Hl. do 6 (destruct l as [|l]; [vm_compute; repeat split; lia|]). lia.
    - intros n k l Hn H. simpl in Hn.
      do 6 (destruct n as [|n];
            [repeat (destruct k as [|k]; simpl in H; try discriminate);
             inversion H; subst; vm_compute; repeat split; lia|]).
      lia.
    - intros n k l Hn H. simpl in Hn.
      do 6 (destruct n as [|n];
            [repeat (destruct k as [|k]; simpl in H; try discriminate);
             inversion H; subst; vm_compute; repeat split; lia|]).
      lia.
  Qed.

  Lemma ex6_acyclic : comb_acyclic ex6.
  Proof.
    exists (fun n => nth n [0; 1; 2; 0; 1; 1] 0). intros l Hl Hseq. simpl in Hl.
    do 6 (destruct l as [|l]; [vm_compute in Hseq |- *; try discriminate; lia|]). lia.
  Qed.

  (** s_nodes = [0; 4; 5; 3]: zero slot 6, tmp 7, PPI slots 9 (input), 10, 11 (outputs), 12 (DFF) *)
  Example ex6_ops : map (fun o => (s_lut o, s_out o, [s_i0 o; s_i1 o; s_i2 o; s_i3 o])) (build_ops ex6 false) =
    [ (lutv "BUF1", 0, [9; 6; 6; 6]);      (* input port drives line 0 from its PPI slot *)
      (lutv "BUF1", 4, [12; 6; 6; 6]);     (* DFF Q *)
      (lutv "INV1", 5, [12; 6; 6; 6]);     (* DFF QN *)
      (lutv "BUF1", 1, [0; 6; 6; 6]);      (* fork branches *)
      (lutv "BUF1", 2, [0; 6; 6; 6]);
      (lutv "AO21", 3, [1; 6; 2; 6]) ].    (* unconnected middle pin reads the zero slot *)
  Proof. vm_compute. reflexivity. Qed.

  (** S1 instantiated: in any value domain, for any stimulus *)
  Example ex6_solution {V} (sem : N -> V -> V -> V -> V -> V) (zero : V) (stim : nat -> V) :
    solution sem zero ex6 stim (iexec sem (fun x => x) (build_ops ex6 false) (init_env zero ex6 stim)).
  Proof. exact (build_ops_solution sem zero ex6 stim ex6_wf ex6_acyclic). Qed.

  (** what that says for the gate and the flip-flop, spelled out *)
  Example ex6_gate {V} (sem : N -> V -> V -> V -> V -> V) (zero : V) (stim : nat -> V) :
    let v := iexec sem (fun x => x) (build_ops ex6 false) (init_env zero ex6 stim) in
    v 3 = sem (lutv "AO21") (v 1) zero (v 2) zero /\
    v 4 = sem (lutv "BUF1") (stim 3) zero zero zero /\ v 5 = sem (lutv "INV1") (stim 3) zero zero zero.
  Proof.
    intros v. pose proof (ex6_solution sem zero stim) as S. fold v in S.
    pose proof (S 2 ltac:(simpl; lia)) as G. pose proof (S 3 ltac:(simpl; lia)) as D.
    vm_compute in G, D. destruct D as [D0 D1].
    split; [apply G; reflexivity|]. split; [apply D0; reflexivity|apply D1; reflexivity].
  Qed.

  Example ex6_ssa : ssa_topo (repeat (-1)%Z (6 + 3 + 2 * 4)) 7 (build_ops ex6 false) = true.
  Proof. exact (build_ops_ssa ex6 ex6_wf ex6_acyclic). Qed.

  Example ex6_check : sol2_case ex6 [true; false; false; true] = true.
  Proof. vm_compute. reflexivity. Qed.
End SemExample.

Print Assumptions build_ops_solution.
Print Assumptions build_ops_ssa.
Print Assumptions solution_unique.
Print Assumptions Counter.unique_claim_false.
Print Assumptions SemExample.ex6_solution.
Print Assumptions SemExample.ex6_gate.
