(** C15, part 1: bits, bytes, transposition, mv <-> bp round trips, generic pack/unpack, popcount. *)
From Coq Require Import List ZArith NArith Bool Arith Lia.
From KV Require Import Model.Encodings.
Import ListNotations.
Local Open Scope list_scope.

(** * lists *)
Lemma map_nth_seq {A} (l : list A) (d : A) : map (fun j => nth j l d) (seq 0 (List.length l)) = l.
Proof.
  induction l as [|a l IH]; simpl; [reflexivity|].
  f_equal. rewrite <- seq_shift, map_map. exact IH.
Qed.

Lemma map_seq_nth_map {A B} (f : A -> B) (l : list A) (d : A) n :
  n = List.length l -> map (fun j => f (nth j l d)) (seq 0 n) = map f l.
Proof. intros ->. rewrite <- (map_map (fun j => nth j l d) f), map_nth_seq. reflexivity. Qed.

Lemma nth_map_lt {A B} (f : A -> B) (l : list A) (d : A) (e : B) j :
  j < List.length l -> nth j (map f l) e = f (nth j l d).
Proof. intros H. rewrite (nth_indep _ e (f d)) by (rewrite map_length; exact H). apply map_nth. Qed.

Lemma map_const_repeat {A B} (h : A -> B) (c : B) (l : list A) :
  (forall x, In x l -> h x = c) -> map h l = repeat c (List.length l).
Proof.
  induction l; simpl; intros H; [reflexivity|]. rewrite H by (left; reflexivity). f_equal. apply IHl. intros; apply H; right; assumption.
Qed.

Lemma nth_app_repeat {A} (l : list A) (d : A) q j : List.length l <= j -> nth j (l ++ repeat d q) d = d.
Proof.
  intros H. rewrite app_nth2 by lia. destruct (Nat.lt_ge_cases (j - List.length l) q).
  - apply nth_repeat.
  - apply nth_overflow. rewrite repeat_length. lia.
Qed.

(** * transposition *)
Lemma transp_length {A} (d : A) c M : List.length (transp d c M) = c.
Proof. unfold transp. rewrite map_length, seq_length. reflexivity. Qed.

Lemma transp_rows {A} (d : A) c M : Forall (fun r => List.length r = List.length M) (transp d c M).
Proof. unfold transp. apply Forall_forall. intros r H. apply in_map_iff in H. destruct H as [j [<- _]]. apply map_length. Qed.

Lemma transp_transp {A} (d : A) c (M : list (list A)) :
  Forall (fun r => List.length r = c) M -> transp d (List.length M) (transp d c M) = M.
Proof.
  intros H. unfold transp at 1.
  transitivity (map (fun i => nth i M []) (seq 0 (List.length M))); [|apply map_nth_seq].
  apply map_ext_in. intros i Hi. apply in_seq in Hi.
  unfold transp. rewrite map_map.
  erewrite map_ext_in.
  2:{ intros j Hj. rewrite (nth_map_lt _ M [] d i) by lia. reflexivity. }
  assert (List.length (nth i M []) = c) as L.
  { rewrite Forall_forall in H. apply H. apply nth_In. lia. }
  rewrite <- L. apply map_nth_seq.
Qed.

(** * bits of a nat *)
Lemma nbits_length n x : List.length (nbits n x) = n.
Proof. revert x; induction n; simpl; intros; [reflexivity|]. rewrite IHn; reflexivity. Qed.

Lemma nbits_testbit n x : nbits n x = map (Nat.testbit x) (seq 0 n).
Proof.
  revert x; induction n; intros x; [reflexivity|].
  simpl. f_equal. rewrite <- seq_shift, map_map. rewrite IHn. reflexivity.
Qed.

Lemma odd_b2n_double b k : Nat.odd (Nat.b2n b + 2 * k) = b.
Proof. rewrite Nat.odd_add_mul_2. destruct b; reflexivity. Qed.
Lemma div2_b2n_double b k : Nat.div2 (Nat.b2n b + 2 * k) = k.
Proof.
  destruct b; simpl Nat.b2n.
  - replace (1 + 2 * k) with (S (2 * k)) by lia. apply Nat.div2_succ_double.
  - apply Nat.div2_double.
Qed.

Lemma testbit_nat_of_bits l j : Nat.testbit (nat_of_bits l) j = nth j l false.
Proof.
  revert j; induction l as [|b r IH]; intros j.
  - simpl. rewrite Nat.bits_0. destruct j; reflexivity.
  - destruct j; cbn [nat_of_bits nth Nat.testbit].
    + apply odd_b2n_double.
    + rewrite div2_b2n_double. apply IH.
Qed.

Lemma nbits_nat_of_bits l k : nbits (List.length l + k) (nat_of_bits l) = l ++ repeat false k.
Proof.
  rewrite nbits_testbit. rewrite seq_app, map_app. f_equal.
  - erewrite map_ext. 2:{ intros j. apply testbit_nat_of_bits. } apply map_nth_seq.
  - simpl. rewrite <- (seq_length k (List.length l)) at 2. apply map_const_repeat.
    intros j Hj. apply in_seq in Hj. rewrite testbit_nat_of_bits. apply nth_overflow. lia.
Qed.

Lemma nat_of_bits_lt l : nat_of_bits l < 2 ^ List.length l.
Proof. induction l as [|b r IH]; simpl; [lia|]. destruct b; simpl Nat.b2n; lia. Qed.

Lemma nat_of_bits_nbits n x : x < 2 ^ n -> nat_of_bits (nbits n x) = x.
Proof.
  revert x; induction n; intros x H; simpl in *.
  - lia.
  - pose proof (Nat.div2_odd x) as E. rewrite IHn.
    + lia.
    + assert (2 * Nat.div2 x <= x) by lia. lia.
Qed.

Lemma nat_of_bits_app_false l k : nat_of_bits (l ++ repeat false k) = nat_of_bits l.
Proof.
  induction l; simpl.
  - induction k; simpl; lia.
  - rewrite IHl. reflexivity.
Qed.

(** * little-endian byte packing *)
Lemma list8_ind {A} (P : list A -> Prop) :
  P [] ->
  (forall l, l <> [] -> List.length l < 8 -> P l) ->
  (forall b0 b1 b2 b3 b4 b5 b6 b7 r, P r -> P (b0 :: b1 :: b2 :: b3 :: b4 :: b5 :: b6 :: b7 :: r)) ->
  forall l, P l.
Proof.
  intros H0 Hs H8 l.
  assert (forall n l, List.length l <= n -> P l) as G.
  { clear l. induction n; intros l Hl.
    - destruct l; [exact H0 | simpl in Hl; lia].
    - destruct l as [|b0 [|b1 [|b2 [|b3 [|b4 [|b5 [|b6 [|b7 r]]]]]]]]; try exact H0;
        try (apply Hs; [discriminate | simpl; lia]).
      apply H8. apply IHn. simpl in Hl. lia. }
  apply (G (List.length l)). lia.
Qed.

Lemma packbits_short l : l <> [] -> List.length l < 8 -> np_packbits_le l = [nat_of_bits l].
Proof.
  intros Hn Hl.
  destruct l as [|b0 [|b1 [|b2 [|b3 [|b4 [|b5 [|b6 [|b7 r]]]]]]]]; try reflexivity.
  - congruence.
  - simpl in Hl. lia.
Qed.

Definition padlen (n : nat) : nat := 8 * cdiv n 8 - n.
Lemma cdiv_add8 n : cdiv (8 + n) 8 = S (cdiv n 8).
Proof.
  unfold cdiv. replace (8 + n + 8 - 1) with (1 * 8 + (n + 8 - 1)) by lia.
  rewrite Nat.div_add_l by lia. reflexivity.
Qed.
Lemma cdiv_small n : 0 < n -> n <= 8 -> cdiv n 8 = 1.
Proof.
  intros. unfold cdiv. symmetry. apply (Nat.div_unique (n + 8 - 1) 8 1 (n - 1)); lia.
Qed.
Lemma cdiv_0 : cdiv 0 8 = 0.
Proof. reflexivity. Qed.
Lemma padlen_add8 n : padlen (8 + n) = padlen n.
Proof. unfold padlen. rewrite cdiv_add8. lia. Qed.
Lemma padlen_small n : 0 < n -> n <= 8 -> padlen n = 8 - n.
Proof. intros. unfold padlen. rewrite cdiv_small by lia. lia. Qed.
Lemma cdiv_mul8 n : cdiv (8 * n) 8 = n.
Proof.
  unfold cdiv. symmetry. destruct n; [reflexivity|].
  apply (Nat.div_unique (8 * S n + 8 - 1) 8 (S n) 7); lia.
Qed.

Lemma packbits_length l : List.length (np_packbits_le l) = cdiv (List.length l) 8.
Proof.
  induction l using list8_ind.
  - reflexivity.
  - rewrite packbits_short by assumption. rewrite cdiv_small; [reflexivity| |lia].
    destruct l; [congruence | simpl; lia].
  - cbn [np_packbits_le List.length]. rewrite IHl.
    change (S (S (S (S (S (S (S (S (List.length l))))))))) with (8 + List.length l). rewrite cdiv_add8. reflexivity.
Qed.

(** unpacking what was packed gives the bits back, zero-padded to whole bytes *)
Lemma unpack_pack_le l : np_unpackbits_le (np_packbits_le l) = l ++ repeat false (padlen (List.length l)).
Proof.
  induction l using list8_ind.
  - reflexivity.
  - rewrite packbits_short by assumption. unfold np_unpackbits_le. cbn [flat_map]. rewrite app_nil_r.
    rewrite padlen_small; [| destruct l; [congruence | simpl; lia] | lia].
    replace 8 with (List.length l + (8 - List.length l)) at 1 by lia. apply nbits_nat_of_bits.
  - cbn [np_packbits_le]. unfold np_unpackbits_le in *. cbn [flat_map]. rewrite IHl.
    change (List.length (b0 :: b1 :: b2 :: b3 :: b4 :: b5 :: b6 :: b7 :: l)) with (8 + List.length l).
    rewrite padlen_add8.
    change 8 with (List.length [b0; b1; b2; b3; b4; b5; b6; b7] + 0) at 1.
    rewrite nbits_nat_of_bits. simpl. reflexivity.
Qed.

Lemma pack_unpack_le bytes : Forall (fun b => b < 256) bytes -> np_packbits_le (np_unpackbits_le bytes) = bytes.
Proof.
  induction 1 as [|b r Hb Hr IH]; [reflexivity|].
  unfold np_unpackbits_le in *. cbn [flat_map].
  remember (nbits 8 b) as l8 eqn:E.
  assert (List.length l8 = 8) as L by (subst; apply nbits_length).
  destruct l8 as [|b0 [|b1 [|b2 [|b3 [|b4 [|b5 [|b6 [|b7 [|]]]]]]]]]; simpl in L; try lia.
  cbn [app np_packbits_le]. rewrite IH. f_equal. rewrite E. apply nat_of_bits_nbits. exact Hb.
Qed.

(** lane j of the packed bytes: bit (j mod 8) of byte (j / 8) -- little-endian bit order *)
Lemma packbits_lane l j : Nat.testbit (nth (j / 8) (np_packbits_le l) 0) (j mod 8) = nth j l false.
Proof.
  revert j. induction l using list8_ind; intros j.
  - replace (nth (j / 8) (np_packbits_le []) 0) with 0 by (cbn [np_packbits_le]; destruct (j / 8); reflexivity).
    rewrite Nat.bits_0. destruct j; reflexivity.
  - rewrite packbits_short by assumption.
    destruct (Nat.lt_ge_cases j 8) as [Hj|Hj].
    + rewrite Nat.div_small, Nat.mod_small by lia. simpl nth. apply testbit_nat_of_bits.
    + assert (1 <= j / 8) by (apply Nat.div_le_lower_bound; lia).
      rewrite (nth_overflow [_]) by (cbn [List.length]; lia). rewrite Nat.bits_0. symmetry. apply nth_overflow. lia.
  - cbn [np_packbits_le].
    destruct (Nat.lt_ge_cases j 8) as [Hj|Hj].
    + rewrite Nat.div_small, Nat.mod_small by lia. cbn [nth]. rewrite testbit_nat_of_bits.
      do 8 (destruct j as [|j]; [reflexivity|]). lia.
    + replace j with ((j - 8) + 1 * 8) at 1 2 by lia.
      rewrite Nat.div_add, Nat.mod_add by lia. rewrite Nat.add_1_r. cbn [nth]. rewrite IHl.
      replace j with (S (S (S (S (S (S (S (S (j - 8))))))))) at 2 by lia. reflexivity.
Qed.
