(** The extended separation condition [ops_sepx_b] of Proofs/LogicSimLoopN.v holds for EVERY build() result (all four option
    combinations), INCLUDING circuits with gates without output line: such an op row carries s_out = tmp_idx (HB of the allocator
    invariant: an op output is tmp_idx or a fresh circuit line), so its output location IS c_locs[tmp_idx]; every other op is separated
    as in Proofs/LogicSimSepBuild.v (same proof, the hypothesis "no gate without output line" dropped).  Hence the memory-level source
    ties of the m == 8 / m == 4 loops with and without callback hold for every build() result. *)
From Coq Require Import List ZArith NArith Bool Arith Lia String.
From KV Require Import Model.Prims Model.Logic Model.Netlist Model.NetlistWf Model.Heap Model.SimOps Model.SimOpsCert Model.LogicSimModel
     Proofs.EndToEnd Proofs.ReuseProofs Proofs.ReuseStrip Proofs.LogicSimGlue Proofs.LogicSimDriversProofs Proofs.LogicSimLoop8 Proofs.LogicSimLoopN.
Import ListNotations.
Local Open Scope list_scope.

Section SepGX.
  Variable c : netlist.
  Variable caps : list N.
  Variable cmin : N.
  Variable reuse strip : bool.
  Hypothesis WF : wf_netlist c.
  Hypothesis Hcmin : (0 < cmin)%N.
  Notation nl := (List.length (c_lines c)).
  Notation slen := (List.length (s_nodes c)).
  Notation ppi := (nl + 3).
  Notation ppo := (nl + 3 + slen).
  Notation len := (nl + 3 + slen + slen).
  Notation tmp := (nl + 1).
  Notation tmp2 := (nl + 2).
  Notation ops := (build_ops c strip).
  Variable stems : list Z.
  Hypothesis Hst : build_stems c strip len = Some stems.
  Notation al := (stemmed stems).
  Hypothesis HD1 : forall x, nl <= x -> al x = x.
  Hypothesis HD2 : forall x, x < nl -> al x < nl /\ al (al x) = al x.
  Hypothesis HA : forall pre o post, ops = pre ++ o :: post -> forall x, In x (opnds o) ->
    x < ppo /\ (al x = nl \/ (exists n p, NetlistSem.iface_pos c n = Some p /\ al x = ppi + p /\ 0 < List.length (n_outs (get_node c n))) \/
                (al x < nl /\ In (al x) (map s_out pre))).
  Hypothesis HB : forall pre o post, ops = pre ++ o :: post ->
    s_out o = tmp \/ (s_out o < nl /\ al (s_out o) = s_out o /\ ~ In (s_out o) (map s_out pre)).
  Variable so : simops.
  Hypothesis Hb : build c caps cmin reuse strip = Some so.

  Notation s4 := (st4g c cmin strip stems).
  Notation s5 := (st5g c cmin strip stems).
  Notation s6 := (st6g c caps cmin reuse strip stems).

  Let Hok : a_ok s6 = true := proj1 (build_inv_g c caps cmin reuse strip stems Hst so Hb).
  Let Eops : so_ops so = ops := proj1 (proj2 (build_inv_g c caps cmin reuse strip stems Hst so Hb)).
  Let Enl : so_nlines so = nl := proj1 (proj2 (proj2 (proj2 (build_inv_g c caps cmin reuse strip stems Hst so Hb)))).
  Let M6 := main6g c caps cmin reuse strip WF Hcmin stems HD1 HD2 HA HB Hok.
  Let SL := so_loc_g c caps cmin reuse strip WF Hcmin stems Hst HD1 HD2 HA HB so Hb.
  Let A56 := ald56g c caps cmin reuse strip WF Hcmin stems Hst HD1 HD2 HA HB so Hb.

  Lemma K1 x : ald s5 x -> locZ s6 x = locZ s5 x.
  Proof. apply M6. Qed.
  Lemma G3 x y : ald s5 x -> ald s5 y -> locZ s5 x = locZ s5 y -> x = y.
  Proof. destruct (fold5g c cmin strip Hcmin stems) as ((_ & _ & G & _) & _). apply G. Qed.

  Lemma ald5_tmp2 : ald s5 tmp2.
  Proof.
    apply (fold5g c cmin strip Hcmin stems). change (ald (st3g c cmin strip stems) tmp2). unfold st3g. apply ald_alloc_slot_new.
    rewrite !len_alloc_slot. unfold st0g. cbn [a_locs]. rewrite repeat_length. lia.
  Qed.

  (** pinned indices (allocated before the level loop) are pairwise apart in the published map *)
  Lemma pinned_apart x y : ald s5 x -> ald s5 y -> x <> y -> locZ s6 x <> locZ s6 y.
  Proof. intros Hx Hy N E. rewrite (K1 x Hx), (K1 y Hy) in E. apply N. apply (G3 x y Hx Hy E). Qed.

  Lemma Pg_tmp2 : (0 < Pg c cmin strip stems tmp2)%Z.
  Proof.
    unfold Pg. unfold st5g.
    destruct (iface_fold_ref_g c cmin Hcmin stems (combine (seq 0 slen) (s_nodes c)) s4) as (_ & Hm & _).
    specialize (Hm tmp2). destruct (ref3g c cmin strip Hcmin stems HD1 HD2 HA) as [L3 N3].
    assert (E4 : refZ s4 tmp2 = (cntR stems tmp2 ops + 1)%Z).
    { unfold st4g. rewrite !refZ_pinref, !lenref_pinref, L3, N3.
      replace (Nat.eqb tmp2 nl) with false by (symmetry; apply Nat.eqb_neq; lia).
      replace (Nat.eqb tmp2 tmp) with false by (symmetry; apply Nat.eqb_neq; lia).
      rewrite Nat.eqb_refl. replace (Nat.ltb tmp2 len) with true by (symmetry; apply Nat.ltb_lt; lia). cbn [andb]. lia. }
    lia.
  Qed.

  Lemma locF_neq x y : ald s6 x -> locZ s6 x <> locZ s6 y -> forall l l', locF s6 x = Some l -> locF s6 y = Some l' -> l <> l'.
  Proof. intros _ N l l' Ex Ey E. subst l'. apply N. apply (locF_eq0 s6 x y l Ex Ey). Qed.

  (** an op output is apart from every pinned index with a positive pin count, in particular from tmp and tmp2 *)
  Lemma out_apart_pinned o x : In o ops -> ald s5 x -> (0 < Pg c cmin strip stems x)%Z -> x <> s_out o -> locZ s6 x <> locZ s6 (s_out o).
  Proof.
    intros Ho Hx Hp N. apply in_split in Ho. destruct Ho as (pre & post & E).
    destruct M6 as (_ & _ & _ & K4 & _). apply (K4 pre o post E x N); [left; exact Hx|left; exact Hp].
  Qed.

  Lemma Pg_tmp : (0 < Pg c cmin strip stems tmp)%Z.
  Proof. apply (ref5g c cmin strip WF Hcmin stems HD1 HD2 HA). Qed.

  (** what an operand of an op is: the zero slot, a PPI slot, or the output of an earlier op -- and where it lives *)
  Lemma operand_facts pre o post x : ops = pre ++ o :: post -> s_out o < nl -> In x (opnds o) ->
    x < ppo /\ al x <> s_out o /\ al x <> tmp /\ al x <> tmp2 /\ ald s6 (al x) /\
    locZ s6 (al x) <> locZ s6 (s_out o) /\ locZ s6 (al x) <> locZ s6 tmp /\ locZ s6 (al x) <> locZ s6 tmp2.
  Proof.
    intros E Hol Hx. destruct (HA pre o post E x Hx) as (Hlt & Hcl).
    assert (Ho : In o ops) by (rewrite E; apply in_or_app; right; left; reflexivity).
    destruct M6 as (_ & _ & _ & K4 & _).
    assert (Hrd : In (al x) (flat_map (rd stems) (o :: post))).
    { cbn [flat_map]. apply in_or_app. left. unfold rd. apply in_map. exact Hx. }
    split; [exact Hlt|].
    destruct Hcl as [Ez|[(n & p & Hi & Ep & Hno)|(Hl & Hw)]].
    - pose proof (ald5g_zero c cmin strip Hcmin stems) as Hz. rewrite Ez.
      split; [lia|]. split; [lia|]. split; [lia|]. split; [apply A56; exact Hz|]. split.
      + apply (K4 pre o post E nl); [lia|left; exact Hz|right; rewrite <- Ez; exact Hrd].
      + split; apply pinned_apart; try exact Hz; try lia; [apply (ald5g_tmp c cmin strip Hcmin stems)|apply ald5_tmp2].
    - pose proof (ald5g_ppi c cmin strip Hcmin stems n p Hi Hno) as Hz. rewrite Ep.
      split; [lia|]. split; [lia|]. split; [lia|]. split; [apply A56; exact Hz|]. split.
      + apply (K4 pre o post E (ppi + p)); [lia|left; exact Hz|right; rewrite <- Ep; exact Hrd].
      + split; apply pinned_apart; try exact Hz; try lia; [apply (ald5g_tmp c cmin strip Hcmin stems)|apply ald5_tmp2].
    - destruct (HB pre o post E) as [Ht|(_ & _ & Hnin)]; [lia|].
      assert (Nx : al x <> s_out o) by (intros Eq; apply Hnin; rewrite <- Eq; exact Hw).
      split; [exact Nx|]. split; [lia|]. split; [lia|].
      apply in_map_iff in Hw. destruct Hw as (o' & Eo' & Ho').
      assert (Ho'' : In o' ops) by (rewrite E; apply in_or_app; left; exact Ho').
      split; [rewrite <- Eo'; apply (ald6g_out c caps cmin reuse strip WF Hcmin stems Hst HD1 HD2 HA HB so Hb o' Ho'')|].
      split.
      + apply (K4 pre o post E (al x) Nx); [right; split; [lia|apply in_map_iff; exists o'; auto]|right; exact Hrd].
      + assert (Hl' : s_out o' < nl) by (rewrite Eo'; exact Hl). rewrite <- Eo'. split; intros Eq; symmetry in Eq; revert Eq.
        * apply (out_apart_pinned o' tmp Ho'' (ald5g_tmp c cmin strip Hcmin stems) Pg_tmp). lia.
        * apply (out_apart_pinned o' tmp2 Ho'' ald5_tmp2 Pg_tmp2). lia.
  Qed.

  Theorem ops_sepx_g : ops_sepx_b so = true.
  Proof.
    unfold ops_sepx_b. rewrite Enl, Eops.
    pose proof (ald5g_tmp c cmin strip Hcmin stems) as Ht. pose proof ald5_tmp2 as Ht2.
    rewrite (SL tmp) by lia. rewrite (SL tmp2) by lia. rewrite (HD1 tmp) by lia. rewrite (HD1 tmp2) by lia.
    pose proof (A56 _ Ht) as Ht6. pose proof (A56 _ Ht2) as Ht26.
    destruct (locF s6 tmp) as [lt0|] eqn:E0; [|exfalso; apply (locF_ald0 cmin Hcmin s6 tmp) in Ht6; congruence].
    destruct (locF s6 tmp2) as [lt1|] eqn:E1; [|exfalso; apply (locF_ald0 cmin Hcmin s6 tmp2) in Ht26; congruence].
    assert (N01 : lt0 <> lt1).
    { apply (locF_neq tmp tmp2 Ht6); [|exact E0|exact E1]. apply pinned_apart; [exact Ht|exact Ht2|lia]. }
    apply andb_true_iff. split; [apply negb_true_iff, Nat.eqb_neq; exact N01|].
    apply forallb_forall. intros o Ho. unfold op_sepx_b. apply orb_true_iff.
    pose proof Ho as Ho1. apply in_split in Ho1. destruct Ho1 as (pre0 & post0 & E00).
    destruct (HB pre0 o post0 E00) as [Etmp|(Hol & _)].
    { (* gate without output line: the op row's output field is tmp_idx, its location is c_locs[tmp_idx] *)
      right. rewrite Etmp. rewrite (SL tmp) by lia. rewrite (HD1 tmp) by lia. rewrite E0, Nat.eqb_refl. reflexivity. }
    left. unfold op_sep_b.
    pose proof (out_al c caps cmin reuse strip WF Hcmin stems Hst HD1 HD2 HA HB so Hb o Ho) as Hoa.
    pose proof (ald6g_out c caps cmin reuse strip WF Hcmin stems Hst HD1 HD2 HA HB so Hb o Ho) as Hao.
    rewrite (SL (s_out o)) by lia. rewrite Hoa.
    destruct (locF s6 (s_out o)) as [lo|] eqn:Elo; [|exfalso; apply (locF_ald0 cmin Hcmin s6 (s_out o)) in Hao; congruence].
    assert (No0 : lo <> lt0).
    { intros Eq. symmetry in Eq. revert Eq. apply (locF_neq tmp (s_out o) Ht6); [|exact E0|exact Elo].
      apply (out_apart_pinned o tmp Ho Ht Pg_tmp). lia. }
    assert (No1 : lo <> lt1).
    { intros Eq. symmetry in Eq. revert Eq. apply (locF_neq tmp2 (s_out o) Ht26); [|exact E1|exact Elo].
      apply (out_apart_pinned o tmp2 Ho Ht2 Pg_tmp2). lia. }
    apply andb_true_iff. split; [apply andb_true_iff; split; apply negb_true_iff, Nat.eqb_neq; assumption|].
    apply forallb_forall. intros x Hx. change (In x (opnds o)) in Hx.
    pose proof Ho as Ho2. apply in_split in Ho2. destruct Ho2 as (pre & post & E).
    destruct (operand_facts pre o post x E Hol Hx) as (Hlt & _ & _ & _ & Hax & L1 & L2 & L3).
    rewrite (SL x Hlt).
    destruct (locF s6 (al x)) as [l|] eqn:El; [|exfalso; apply (locF_ald0 cmin Hcmin s6 (al x)) in Hax; congruence].
    apply andb_true_iff. split; [apply andb_true_iff; split|]; apply negb_true_iff, Nat.eqb_neq.
    - apply (locF_neq (al x) (s_out o) Hax L1 l lo El Elo).
    - apply (locF_neq (al x) tmp Hax L2 l lt0 El E0).
    - apply (locF_neq (al x) tmp2 Hax L3 l lt1 El E1).
  Qed.
End SepGX.

Theorem build_ops_sepx c caps cmin reuse strip so :
  wf_netlist c -> comb_acyclic c -> (0 < cmin)%N -> gates_known c -> (strip = true -> KV.Proofs.ReuseStrip.forks_ok c) ->
  build c caps cmin reuse strip = Some so -> ops_sepx_b so = true.
Proof.
  intros WF AC Hc GK FK Hb. destruct strip.
  - destruct (build_stems c true (List.length (c_lines c) + 3 + List.length (s_nodes c) + List.length (s_nodes c))) as [stems|] eqn:Hst.
    + pose proof (gates_known_reads_defined_t c stems WF AC GK (FK eq_refl) Hst) as RDt.
      apply (ops_sepx_g c caps cmin reuse true WF Hc stems Hst (ws_HD1 c WF stems Hst) (ws_HD2 c WF AC stems Hst)
               (ws_HA c WF AC stems Hst RDt cmin Hc) (ws_HB c WF AC stems Hst) so Hb).
    + exfalso. unfold build in Hb. cbv zeta in Hb. rewrite Hst in Hb. discriminate.
  - pose proof (gates_known_reads_defined c WF AC GK) as RD.
    apply (ops_sepx_g c caps cmin reuse false WF Hc _ (ns_Hst c) (ns_HD1 c) (ns_HD2 c)
             (ns_HA c WF cmin Hc RD) (ns_HB c WF) so Hb).
Qed.

(* ------------------------------------------------------------------------------------------------------------------ *)
(** * The memory-level source ties for EVERY build() result (no hypothesis on the ops) *)
Section BuildX.
  Variables (c : netlist) (caps : list N) (cmin : N) (reuse strip : bool) (so : simops).
  Hypothesis WF : wf_netlist c.
  Hypothesis AC : comb_acyclic c.
  Hypothesis CM : (0 < cmin)%N.
  Hypothesis GK : gates_known c.
  Hypothesis FK : strip = true -> KV.Proofs.ReuseStrip.forks_ok c.
  Hypothesis Hb : build c caps cmin reuse strip = Some so.
  Variable m : list code.
  Hypothesis Hm : List.length m = N.to_nat (so_len so).

  Let HS : ops_sepx_b so = true := build_ops_sepx c caps cmin reuse strip so WF AC CM GK FK Hb.
  Let HK : ops_known so := build_ops_known_so c caps cmin reuse strip so WF AC CM GK FK Hb.
  Lemma build_locs_ok : locs_ok so (List.length m).
  Proof. destruct (build_glue c caps cmin reuse strip so WF AC CM GK FK Hb) as (_ & _ & _ & HL & _). rewrite Hm. exact HL. Qed.

  Theorem build_cprop8_cb_source_is_model M f cb : cb_rel8 f cb ->
    exists lt0 lt1, so_loc so (so_nlines so + 1) = Some lt0 /\ so_loc so (so_nlines so + 2) = Some lt1 /\ lt0 <> lt1 /\
      (agree8 lt0 lt1 M m ->
       let r := KV.Model.LogicSimDrvPrelude.c_prop_src KV.Gen.LogicSimDriversSrc.loop_prop_cpu KV.Gen.LogicSimDriversSrc.loop_cprop2_cb
                  KV.Gen.LogicSimDriversSrc.loop_cprop4 KV.Gen.LogicSimDriversSrc.loop_cprop8 8 (so_locs so) (so_nlines so)
                  (Z.of_nat (so_nlines so + 1)) (Z.of_nat (so_nlines so + 2)) (Some f) (map row_of (so_ops so)) M in
       agree8 lt0 lt1 (fst r) (c_prop_cb Zero sem8 cb so m) /\ map fst (snd r) = cb_lines so).
  Proof. intros Hf. exact (cprop8_cb_source_is_model so m M f cb HS HK build_locs_ok Hf). Qed.

  Theorem build_cprop8_source_is_model_x M :
    exists lt0 lt1, so_loc so (so_nlines so + 1) = Some lt0 /\ so_loc so (so_nlines so + 2) = Some lt1 /\ lt0 <> lt1 /\
      (agree8 lt0 lt1 M m ->
       agree8 lt0 lt1 (fst (KV.Model.LogicSimDrvPrelude.c_prop_src KV.Gen.LogicSimDriversSrc.loop_prop_cpu KV.Gen.LogicSimDriversSrc.loop_cprop2_cb
                              KV.Gen.LogicSimDriversSrc.loop_cprop4 KV.Gen.LogicSimDriversSrc.loop_cprop8 8 (so_locs so) (so_nlines so)
                              (Z.of_nat (so_nlines so + 1)) (Z.of_nat (so_nlines so + 2)) None (map row_of (so_ops so)) M))
              (c_prop Zero sem8 so m)).
  Proof. exact (cprop8_source_is_model_x so m M HS build_locs_ok). Qed.

  Theorem build_cprop4_source_is_model M : inv4 m ->
    exists lt0 lt1, so_loc so (so_nlines so + 1) = Some lt0 /\ so_loc so (so_nlines so + 2) = Some lt1 /\ lt0 <> lt1 /\
      (agree4 lt0 lt1 M m ->
       agree4 lt0 lt1 (fst (KV.Model.LogicSimDrvPrelude.c_prop_src KV.Gen.LogicSimDriversSrc.loop_prop_cpu KV.Gen.LogicSimDriversSrc.loop_cprop2_cb
                              KV.Gen.LogicSimDriversSrc.loop_cprop4 KV.Gen.LogicSimDriversSrc.loop_cprop8 4 (so_locs so) (so_nlines so)
                              (Z.of_nat (so_nlines so + 1)) (Z.of_nat (so_nlines so + 2)) None (map row_of (so_ops so)) M))
              (c_prop Zero sem8 so m) /\
       inv4 (c_prop Zero sem8 so m)).
  Proof. intros HI. exact (cprop4_source_is_model so m M HS build_locs_ok HI). Qed.

  Theorem build_cprop4_cb_source_is_model M f cb : inv4 m -> cb_rel4 f cb ->
    exists lt0 lt1, so_loc so (so_nlines so + 1) = Some lt0 /\ so_loc so (so_nlines so + 2) = Some lt1 /\ lt0 <> lt1 /\
      (agree4 lt0 lt1 M m ->
       let r := KV.Model.LogicSimDrvPrelude.c_prop_src KV.Gen.LogicSimDriversSrc.loop_prop_cpu KV.Gen.LogicSimDriversSrc.loop_cprop2_cb
                  KV.Gen.LogicSimDriversSrc.loop_cprop4 KV.Gen.LogicSimDriversSrc.loop_cprop8 4 (so_locs so) (so_nlines so)
                  (Z.of_nat (so_nlines so + 1)) (Z.of_nat (so_nlines so + 2)) (Some f) (map row_of (so_ops so)) M in
       agree4 lt0 lt1 (fst r) (c_prop_cb Zero sem8 cb so m) /\ map fst (snd r) = cb_lines so /\ inv4 (c_prop_cb Zero sem8 cb so m)).
  Proof. intros HI Hf. exact (cprop4_cb_source_is_model so m M f cb HS HK build_locs_ok HI Hf). Qed.
End BuildX.
