(** C09: remove_dangling_nodes preserves the consistency invariant. *)
From Coq Require Import List Arith Bool String Lia.
From KV Require Import Model.Circuit Model.CircuitInv Proofs.CircuitBase Proofs.CircuitProofs.
Import ListNotations.
Local Open Scope list_scope.

Lemma somes_In : forall {A} (l : list (option A)) x, In x (somes l) <-> In (Some x) l.
Proof.
  induction l as [|[y|] r IH]; intros x; simpl.
  - tauto.
  - rewrite IH. split; intros [H|H]; auto. left; congruence. inv H. left; auto.
  - rewrite IH. split; auto. intros [H|H]; auto. discriminate.
Qed.
Lemma somes_nil_nth : forall {A} (l : list (option A)), somes l = [] -> forall p, nth p l None = None.
Proof.
  intros A l H p. destruct (nth p l None) as [x|] eqn:E; auto.
  assert (In x (somes l)). { apply somes_In. eapply nth_In_opt; eauto. } rewrite H in H0. destruct H0.
Qed.
Lemma somes_nodup : forall {A} (l : list (option A)),
  (forall i j x, nth i l None = Some x -> nth j l None = Some x -> i = j) -> NoDup (somes l).
Proof.
  induction l as [|[y|] r IH]; intros H; simpl.
  - constructor.
  - constructor.
    + intros Hin. apply somes_In in Hin. apply In_nth_opt in Hin. destruct Hin as [q [_ Hq]].
      specialize (H 0 (S q) y eq_refl Hq). discriminate.
    + apply IH. intros i j x Hi Hj. specialize (H (S i) (S j) x Hi Hj). lia.
  - apply IH. intros i j x Hi Hj. specialize (H (S i) (S j) x Hi Hj). lia.
Qed.

(** removing several lines in a row *)
Lemma remove_lines_fold : forall ls X c, CCoreX X c -> ForkDenseX X c -> NoDup ls -> (forall l, In l ls -> In l (lines c)) ->
  exists c', fold_opt line_remove ls c = Some c' /\ CCoreX X c' /\ ForkDenseX X c' /\
    nnext c' = nnext c /\ lnext c' = lnext c /\ nodes c' = nodes c /\ io c' = io c /\
    (forall y, In y (lines c') <-> In y (lines c) /\ ~ In y ls) /\
    (forall x, n_name (nst c' x) = n_name (nst c x) /\ n_kind (nst c' x) = n_kind (nst c x) /\
               n_alive (nst c' x) = n_alive (nst c x)) /\
    (forall x, ~ NX X c x -> n_outs (nst c' x) = n_outs (nst c x) /\ n_ins (nst c' x) = n_ins (nst c x)) /\
    (forall x, ~ In x ls -> l_drv (lst c' x) = l_drv (lst c x) /\ l_rdr (lst c' x) = l_rdr (lst c x)).
Proof.
  induction ls as [|l ls IH]; intros X c HC HD Hnd Hin; simpl.
  - exists c. split; auto. split; auto. split; auto. repeat split; auto; tauto.
  - inv Hnd.
    destruct (line_remove_core X c l HC (Hin l (or_introl eq_refl))) as
        [c1 [d [r [Hrm [Hd [Hr [HC1 [F1 [F2 [F3 [F4 [F5 [F6 [F7 [F8 [F9 [F10 [F11 F12]]]]]]]]]]]]]]]]]].
    { intros d Hd Hfk. apply (HD d); auto.
      destruct (cc_line X c HC l (Hin l (or_introl eq_refl))) as [d0 [r0 [A1 [_ [A3 _]]]]]. congruence. }
    rewrite Hrm.
    assert (HD1 : ForkDenseX X c1).
    { eapply (line_remove_dense X c c1 d); eauto. intros x. apply F8. }
    destruct (IH X c1 HC1 HD1 H2) as [c' [Hf [HC' [HD' [G1 [G2 [G3 [G4 [G5 [G6 [G7 G8]]]]]]]]]]].
    { intros x Hx. apply F7. split. apply Hin; right; auto. intros ->. auto. }
    exists c'. split; auto. split; auto. split; auto.
    destruct (cc_line X c HC l (Hin l (or_introl eq_refl))) as [d0 [r0 [A1 [A2 [A3 [A4 _]]]]]].
    rewrite Hd in A1. inv A1. rewrite Hr in A2. inv A2.
    split; [congruence|]. split; [congruence|]. split; [congruence|]. split; [congruence|].
    split; [|split; [|split]].
    + intros y. rewrite G5, F7. split.
      * intros [[A B] C]. split; auto. intros [E|E]; [subst; tauto|tauto].
      * intros [A B]. split; [split|]; auto; tauto.
    + intros x. destruct (G6 x) as [B1 [B2 B3]]. destruct (F8 x) as [C1 [C2 [_ C3]]]. repeat split; congruence.
    + intros x Hx.
      assert (Hx1 : ~ NX X c1 x). { unfold NX in *. rewrite F3. auto. }
      destruct (G7 x Hx1) as [B1 B2]. rewrite B1, B2. rewrite F9, F10.
      destruct (Nat.eqb_spec x d0); [subst; contradiction|]. destruct (Nat.eqb_spec x r0); [subst; contradiction|]. auto.
    + intros x Hx.
      assert (Hxl : x <> l) by (intros ->; apply Hx; left; auto).
      destruct (G8 x) as [B1 B2]. { intros Hc. apply Hx. right; auto. }
      destruct (F11 x Hxl) as [C1 [C2 _]]. split; congruence.
Qed.

(** a node that is out of the circuit and fully disconnected *)
Definition Detached (c : circ) (x : nat) : Prop :=
  ~ In x (nodes c) /\ n_alive (nst c x) = false /\ (forall p, out_at c x p = None) /\ (forall p, in_at c x p = None).
Definition Known (c : circ) (x : nat) : Prop := In x (nodes c) \/ Detached c x.

Lemma lines_le_lnext : forall X c, CCoreX X c -> List.length (lines c) <= lnext c.
Proof.
  intros X c HC. rewrite <- (seq_length (lnext c) 0). apply NoDup_incl_length. apply (lidx_nodup X c HC).
  intros l Hl. apply in_seq. apply (cc_lb X c HC) in Hl. lia.
Qed.

Lemma remove_dangling_inv : forall fuel c root, CInv c -> Known c root -> List.length (lines c) < fuel ->
  exists c', remove_dangling fuel c root = Some c' /\ CInv c' /\ List.length (lines c') <= List.length (lines c) /\
    (forall x, Known c x -> Known c' x) /\ (IoLive c -> IoLive c').
Proof.
  induction fuel as [|fuel IH]; intros c root HI HK Hfuel. lia.
  pose proof HI as [HC HD]. simpl.
  destruct (somes (outs_of c root)) as [|o1 orest] eqn:Ho.
  2:{ exists c. split; [reflexivity|]. split; [exact HI|]. split; auto. }
  pose proof (somes_nil_nth _ Ho) as Hout_none.
  destruct (io_mem c root) eqn:Hport.
  { exists c. split; [reflexivity|]. split; [exact HI|]. split; auto. }
  destruct HK as [Hroot|Hdet].
  2:{ (* already removed and disconnected: nothing happens *)
    destruct Hdet as [D1 [D2 [D3 D4]]].
    assert (Hi : somes (ins_of c root) = []).
    { destruct (somes (ins_of c root)) as [|x r] eqn:E; auto. exfalso.
      assert (In x (somes (ins_of c root))) by (rewrite E; left; auto).
      apply somes_In in H. apply In_nth_opt in H. destruct H as [q [_ Hq]]. unfold in_at in D4. rewrite D4 in Hq. discriminate. }
    rewrite Hi. simpl. unfold node_remove. rewrite D2. simpl. exists c. split; [reflexivity|]. split; [exact HI|]. split; auto. }
  remember (somes (ins_of c root)) as ls eqn:Els.
  assert (Hls : forall l, In l ls -> In l (lines c) /\ l_rdr (lst c l) = Some root).
  { intros l Hl. rewrite Els in Hl. apply somes_In in Hl. apply In_nth_opt in Hl. destruct Hl as [q [_ Hq]].
    destruct (cc_ins [] c HC root q l (or_introl Hroot) Hq) as [A [B _]]. auto. }
  assert (Hls_nd : NoDup ls).
  { rewrite Els. apply somes_nodup. intros i j x Hi Hj.
    destruct (cc_ins [] c HC root i x (or_introl Hroot) Hi) as [_ [_ A]].
    destruct (cc_ins [] c HC root j x (or_introl Hroot) Hj) as [_ [_ B]]. congruence. }
  (* the drivers *)
  assert (Hdrv : exists drivers, all_somes (map (fun l => l_drv (lst c l)) ls) = Some drivers /\
            forall d, In d drivers -> In d (nodes c) /\ d <> root).
  { clear Hls_nd Els. induction ls as [|l r IHr]; simpl.
    - exists []. split; auto. intros d [].
    - destruct (Hls l (or_introl eq_refl)) as [A B].
      destruct (cc_line [] c HC l A) as [d0 [r0 [E1 [E2 [[E3|[]] [_ [E5 _]]]]]]].
      rewrite E1. destruct IHr as [ds [Hds Hall]]. { intros x Hx. apply Hls. right; auto. }
      rewrite Hds. simpl. exists (d0 :: ds). split; auto. intros d [<-|Hd]; auto. split; auto.
      intros ->. unfold out_at in E5. rewrite Hout_none in E5. discriminate. }
  destruct Hdrv as [drivers [Hdrivers Hdr_in]]. rewrite Hdrivers.
  (* root.remove() *)
  destruct (node_remove_core [] c root HC Hroot) as [c1 [Hrm1 [HC1 [N1 [N2 [N3 [N4 [N5 [N6 [N7 N8]]]]]]]]]].
  rewrite Hrm1.
  assert (HD1 : ForkDenseX [root] c1).
  { intros y Hy Hk p Hp. unf. destruct (N7 y) as [_ [A2 [_ A4]]]. rewrite A2 in Hk. rewrite A4 in *.
    apply (HD y); auto. left. destruct Hy as [Hy|[<-|[]]]; auto. apply N6 in Hy. tauto. }
  (* the lines into root *)
  destruct (remove_lines_fold ls [root] c1 HC1 HD1 Hls_nd) as [c2 [Hf [HC2 [HD2 [G1 [G2 [G3 [G4 [G5 [G6 [G7 G8]]]]]]]]]]].
  { intros l Hl. rewrite N3. apply Hls; auto. }
  rewrite Hf.
  (* root is now fully disconnected *)
  assert (Hroot_out : forall p, out_at c2 root p = None).
  { intros p. destruct (out_at c2 root p) as [x|] eqn:E; auto. exfalso.
    destruct (cc_outs _ c2 HC2 root p x (or_intror (or_introl eq_refl)) E) as [A [B _]].
    apply G5 in A. destruct A as [A A']. rewrite N3 in A.
    destruct (G8 x A') as [B1 _]. rewrite N4 in B1. rewrite B1 in B.
    destruct (cc_line [] c HC x A) as [d0 [r0 [E1 [_ [_ [_ [E5 _]]]]]]]. rewrite E1 in B. inv B.
    unfold out_at in E5. rewrite Hout_none in E5. discriminate. }
  assert (Hroot_in : forall p, in_at c2 root p = None).
  { intros p. destruct (in_at c2 root p) as [x|] eqn:E; auto. exfalso.
    destruct (cc_ins _ c2 HC2 root p x (or_intror (or_introl eq_refl)) E) as [A [B _]].
    apply G5 in A. destruct A as [A A']. rewrite N3 in A.
    destruct (G8 x A') as [_ B1]. rewrite N4 in B1. rewrite B1 in B.
    destruct (cc_line [] c HC x A) as [d0 [r0 [_ [E2 [_ [_ [_ E6]]]]]]]. rewrite E2 in B. inv B.
    apply A'. apply somes_In. eapply nth_In_opt. exact E6. }
  assert (HI2 : CInv c2).
  { split.
    - apply (ccore_shrink [root] [] c2 HC2). intros y []. intros y [<-|[]]. right. auto.
    - apply (dense_shrink [root] [] c2 HD2). intros y []. }
  assert (Hnodes2 : forall y, In y (nodes c2) <-> In y (nodes c) /\ y <> root).
  { intros y. rewrite G3. apply N6. }
  assert (Hlen2 : List.length (lines c2) <= List.length (lines c)).
  { apply NoDup_incl_length. apply (lidx_nodup _ c2 HC2). intros y Hy. apply G5 in Hy. rewrite N3 in Hy. tauto. }
  assert (Hknown2 : forall x, Known c x -> Known c2 x).
  { intros x [Hx|[D1 [D2 [D3 D4]]]].
    - destruct (Nat.eq_dec x root) as [->|Hne].
      + right. split. { intros H. apply Hnodes2 in H. tauto. }
        split. { apply (cc_xdead _ c2 HC2). left; auto. } auto.
      + left. apply Hnodes2. auto.
    - assert (Hxr : x <> root) by (intros ->; auto).
      assert (Hx1 : ~ NX [root] c1 x).
      { intros [H|[H|[]]]. apply N6 in H. tauto. congruence. }
      destruct (G7 x Hx1) as [A1 A2]. destruct (N7 x) as [_ [_ [B1 B2]]].
      right. split. { intros H. apply Hnodes2 in H. tauto. }
      split.
      { destruct (G6 x) as [_ [_ A3]]. rewrite A3.
        destruct N8 as [_ N9]. rewrite N9. destruct (Nat.eqb_spec x root); auto. }
      split; intros p; unf; [rewrite A1, B2|rewrite A2, B1]; auto. }
  assert (Hio2 : IoLive c -> IoLive c2).
  { intros HL e He. rewrite G4, N5 in He. destruct (HL e He) as [m [-> Hm]]. exists m. split; auto.
    apply Hnodes2. split; auto. intros ->.
    assert (io_mem c root = true); [|congruence].
    unfold io_mem. apply existsb_exists. exists (Some root). split; auto. apply Nat.eqb_refl. }
  assert (Hcase : drivers = [] \/ List.length (lines c2) < fuel).
  { destruct ls as [|l0 lr].
    - simpl in Hdrivers. inv Hdrivers. left; auto.
    - right.
      assert (In l0 (lines c) /\ ~ In l0 (lines c2)).
      { split. apply Hls. left; auto. intros H. apply G5 in H. destruct H as [_ H]. apply H. left; auto. }
      assert (List.length (lines c2) < List.length (lines c)).
      { destruct H as [A B].
        assert (Hincl : incl (l0 :: lines c2) (lines c)).
        { intros y [<-|Hy]; auto. apply G5 in Hy. rewrite N3 in Hy. tauto. }
        apply NoDup_incl_length in Hincl. simpl in Hincl. lia.
        constructor; auto. apply (lidx_nodup _ c2 HC2). }
      lia. }
  destruct Hcase as [->|Hfuel2].
  { simpl. exists c2. split; [reflexivity|]. split; [exact HI2|]. split; auto. }
  (* the recursion over the drivers *)
  assert (Hrec : forall ds c3, CInv c3 -> List.length (lines c3) <= List.length (lines c2) -> (forall d, In d ds -> Known c3 d) ->
            (forall x, Known c2 x -> Known c3 x) -> (IoLive c2 -> IoLive c3) ->
            exists c', fold_opt (remove_dangling fuel) ds c3 = Some c' /\ CInv c' /\
                       List.length (lines c') <= List.length (lines c2) /\ (forall x, Known c2 x -> Known c' x) /\
                       (IoLive c2 -> IoLive c')).
  { induction ds as [|d ds IHds]; intros c3 HI3 Hl3 Hk3 Hkk Hio3; simpl.
    - exists c3. auto.
    - assert (Hfuel3 : List.length (lines c3) < fuel) by lia.
      destruct (IH c3 d HI3 (Hk3 d (or_introl eq_refl)) Hfuel3) as [c4 [H4 [HI4 [Hl4 [Hk4 Hio4]]]]].
      rewrite H4. apply IHds; auto. lia.
      intros d' Hd'. apply Hk4. apply Hk3. right; auto. }
  destruct (Hrec drivers c2 HI2 (le_n _)) as [c' [Hc' [HI' [Hl' [Hk' Hio']]]]]; auto.
  { intros d Hd. left. apply Hnodes2. apply Hdr_in. auto. }
  exists c'. split; auto. split; auto. split. lia. split; auto.
Qed.

Theorem remove_dangling_step : forall c n, CInv c -> In n (nodes c) ->
  exists c', remove_dangling (dangling_fuel c) c n = Some c' /\ CInv c' /\ (IoLive c -> IoLive c').
Proof.
  intros c n HI Hn. destruct (remove_dangling_inv (dangling_fuel c) c n HI (or_introl Hn)) as [c' [A [B [_ [_ C]]]]].
  - unfold dangling_fuel. pose proof (lines_le_lnext [] c (proj1 HI)). lia.
  - exists c'. auto.
Qed.
