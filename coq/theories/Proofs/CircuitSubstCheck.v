(** C10: the boolean checker [subst_glue_b] is sound for the record [SubstGlue]; [substitute] = [substitute_pre] + [cleanup];
    with all instance outputs connected nothing is cleaned up. *)
From Coq Require Import List Arith Bool String Lia.
From KV Require Import Model.Circuit Model.CircuitInv Model.CircuitView Model.CircuitSem Model.CircuitCorr Model.CircuitSubstSem.
From KV Require Import Proofs.CircuitBase Proofs.CircuitProofs Proofs.CircuitBool Proofs.CircuitSubstInv.
Import ListNotations.
Local Open Scope list_scope.

(** ** small facts *)
Lemma olist_eqb_eq : forall a b, olist_eqb a b = true -> a = b.
Proof.
  unfold olist_eqb. induction a as [|x a IH]; intros [|y b] H; simpl in H; try discriminate; auto.
  apply andb_true_iff in H. destruct H as [H1 H2]. f_equal; auto.
  destruct x as [x|], y as [y|]; simpl in H1; try discriminate; auto. apply Nat.eqb_eq in H1. congruence.
Qed.

Lemma mget_In : forall m x y, mget x m = Some y -> In (x, y) m.
Proof.
  induction m as [|[a b] m IH]; intros x y H; simpl in H. discriminate.
  destruct (Nat.eqb_spec x a).
  - inv H. left; auto.
  - right; auto.
Qed.
Lemma In_mget : forall m x y, NoDup (map fst m) -> In (x, y) m -> mget x m = Some y.
Proof.
  induction m as [|[a b] m IH]; intros x y Hnd H; simpl in *. destruct H.
  inv Hnd. destruct H as [H|H].
  - inv H. rewrite Nat.eqb_refl. reflexivity.
  - destruct (Nat.eqb_spec x a).
    + subst. exfalso. apply H2. apply in_map_iff. exists (a, y). split; auto.
    + apply IH; auto.
Qed.
Lemma snd_inj : forall (m : list (nat * nat)) x x' y, NoDup (map snd m) -> In (x, y) m -> In (x', y) m -> x = x'.
Proof.
  induction m as [|[a b] m IH]; intros x x' y Hnd H H'; simpl in *. destruct H.
  inv Hnd. destruct H as [H|H], H' as [H'|H'].
  - congruence.
  - inv H. exfalso. apply H2. apply in_map_iff. exists (x', y). split; auto.
  - inv H'. exfalso. apply H2. apply in_map_iff. exists (x, y). split; auto.
  - eapply IH; eauto.
Qed.

Lemma forallb_seq0 : forall (f : nat -> bool) n p, forallb f (seq 0 n) = true -> p < n -> f p = true.
Proof. intros f n p H Hp. rewrite forallb_forall in H. apply H. apply in_seq. lia. Qed.

(** ** (1) the checker decides the record *)
(* the only field the checker does not cover by itself: [sg_pure] for a listed implementation line WITHOUT a driver
   ([glue_copied_b] answers [true] for such a line).  A consistent implementation has no such line (impl_line). *)
Theorem subst_glue_b_sound_gen : forall c u impl m c4,
  (forall l, In l (lines impl) -> l_drv (lst impl l) <> None) ->
  subst_glue_b c u impl m c4 = true -> SubstGlue c u impl m c4.
Proof.
  intros c u impl m c4 Hdrv H. unfold subst_glue_b in H. rewrite !andb_true_iff in H.
  destruct H as [[[[[[[[[[[G1 G2] G3] G4] G5] G6] G7] G8] G9] G10] G11] G12].
  apply olist_eqb_eq in G1. apply nodupb_sound in G2. apply nodupb_sound in G3.
  rewrite forallb_forall in G4, G5, G6, G7, G8, G10, G11, G12. apply String.eqb_eq in G9.
  assert (Hm : forall x y, mget x m = Some y ->
            In x (nodes impl) /\ In y (nodes c4) /\ (y = u \/ nnext c <= y)).
  { intros x y E. apply mget_In in E. specialize (G4 _ E). simpl in G4. rewrite !andb_true_iff in G4.
    destruct G4 as [[A B] C]. apply mem_In in A. apply mem_In in B. repeat split; auto.
    apply orb_true_iff in C. destruct C as [C|C]; [left; apply Nat.eqb_eq; auto | right; apply Nat.leb_le; auto]. }
  assert (Hcp : forall l, In l (lines impl) -> glue_copied_b c impl m c4 l = true) by auto.
  constructor.
  - (* io *) exact G1.
  - (* inj *) intros x x' y E E'. apply mget_In in E. apply mget_In in E'. eapply snd_inj; eauto.
  - (* rng *) exact Hm.
  - (* dom *) intros x Hx E. specialize (G5 _ Hx). rewrite E in G5. apply andb_true_iff in G5. destruct G5 as [A B].
    split; auto. apply negb_true_iff in B. auto.
  - (* nodes *) intros y. split.
    + intros Hy. specialize (G6 _ Hy). apply orb_true_iff in G6. destruct G6 as [A|A].
      * apply andb_true_iff in A. destruct A as [A B]. left. split. apply mem_In; auto.
        apply negb_true_iff in B. apply Nat.eqb_neq in B. auto.
      * right. apply mem_In in A. apply in_map_iff in A. destruct A as [[x y'] [E Hin]]. simpl in E. subst y'.
        exists x. apply In_mget; auto.
    + intros [[Hy Hne]|[x E]].
      * specialize (G7 _ Hy). apply orb_true_iff in G7. destruct G7 as [A|A].
        { apply Nat.eqb_eq in A. congruence. }
        rewrite !andb_true_iff in A. destruct A as [[[[A _] _] _] _]. apply mem_In; auto.
      * apply (Hm _ _ E).
  - (* host *) intros y Hy Hne. specialize (G7 _ Hy). apply orb_true_iff in G7. destruct G7 as [A|A].
    { apply Nat.eqb_eq in A. congruence. }
    rewrite !andb_true_iff in A. destruct A as [[[[_ A] B] C] D].
    apply String.eqb_eq in A. apply String.eqb_eq in B. apply olist_eqb_eq in C. apply olist_eqb_eq in D. auto.
  - (* kind *) intros x y E. apply mget_In in E. specialize (G8 _ E). simpl in G8. rewrite !andb_true_iff in G8.
    destruct G8 as [[A _] _]. apply String.eqb_eq in A. auto.
  - (* name *) intros x y E Hne. apply mget_In in E. specialize (G8 _ E). simpl in G8. rewrite !andb_true_iff in G8.
    destruct G8 as [[_ A] _]. apply orb_true_iff in A. destruct A as [A|A].
    + apply Nat.eqb_eq in A. congruence.
    + apply String.eqb_eq in A. auto.
  - (* uname *) exact G9.
  - (* ins *) intros x y p E. apply mget_In in E. specialize (G8 _ E). simpl in G8. rewrite !andb_true_iff in G8.
    destruct G8 as [_ A]. unfold glue_pins_b in A. apply andb_true_iff in A. destruct A as [A _].
    destruct (lt_dec p (S (Nat.max (List.length (ins_of c4 y)) (List.length (ins_of impl x))))) as [Hp|Hp].
    + apply oeq_true. apply (forallb_seq0 _ _ p A Hp).
    + unfold exp_in, in_at. rewrite (nth_overflow (ins_of c4 y)) by lia. rewrite (nth_overflow (ins_of impl x)) by lia.
      destruct (Nat.eqb_spec p 0); [lia|]. rewrite andb_false_r. reflexivity.
  - (* outs *) intros x y p E. apply mget_In in E. specialize (G8 _ E). simpl in G8. rewrite !andb_true_iff in G8.
    destruct G8 as [_ A]. unfold glue_pins_b in A. apply andb_true_iff in A. destruct A as [_ A].
    destruct (lt_dec p (S (Nat.max (List.length (outs_of c4 y)) (List.length (outs_of impl x))))) as [Hp|Hp].
    + apply oeq_true. apply (forallb_seq0 _ _ p A Hp).
    + unfold exp_out, out_at. rewrite (nth_overflow (outs_of c4 y)) by lia. rewrite (nth_overflow (outs_of impl x)) by lia.
      destruct (Nat.eqb_spec p (List.length (outs_of impl x))); [lia|]. rewrite andb_false_r. reflexivity.
  - (* copied *) intros l d r d' r' Hl Ed Er Emd Emr. specialize (Hcp _ Hl). unfold glue_copied_b in Hcp.
    rewrite Ed, Er, Emd, Emr in Hcp. destruct (out_at c4 d' (l_dpin (lst impl l))) as [z|]; [|discriminate].
    apply andb_true_iff in Hcp. destruct Hcp as [A B]. apply Nat.leb_le in A. apply oeq_true in B. exists z. auto.
  - (* lines *) intros z Hz. apply mem_In. auto.
  - (* outdrv *) intros o Ho E. specialize (G12 _ Ho). rewrite E in G12. discriminate.
  - (* pure *) intros l r Hl Er Emr. specialize (Hcp _ Hl). unfold glue_copied_b in Hcp.
    destruct (l_drv (lst impl l)) as [d|] eqn:Ed; [|exfalso; apply (Hdrv l Hl); auto].
    rewrite Er, Emr in Hcp. destruct (mget d m); [|discriminate]. apply Nat.eqb_eq. auto.
  - (* nofeed *) intros l d r Hl Ed Er Emd Emr. specialize (Hcp _ Hl). unfold glue_copied_b in Hcp.
    rewrite Ed, Er, Emd, Emr in Hcp. discriminate.
Qed.

(* with a consistent implementation the extra hypothesis holds *)
Theorem subst_glue_b_sound_cc : forall c u impl m c4, CCoreX [] impl ->
  subst_glue_b c u impl m c4 = true -> SubstGlue c u impl m c4.
Proof.
  intros c u impl m c4 HIC. apply subst_glue_b_sound_gen. intros l Hl E.
  destruct (impl_line impl HIC l Hl) as [d [r [E1 _]]]. congruence.
Qed.
Corollary subst_glue_b_sound_cinv : forall c u impl m c4, CInv impl ->
  subst_glue_b c u impl m c4 = true -> SubstGlue c u impl m c4.
Proof. intros c u impl m c4 [HIC _]. apply subst_glue_b_sound_cc; auto. Qed.

(* the statement WITHOUT the extra hypothesis is false: an implementation whose only listed line has no driver, a reader that
   is not mapped, and reader pin 1 passes the checker ([glue_copied_b] = true on it) but violates [sg_pure] *)
Definition cex_impl : circ :=
  mkC (fun _ => dead_node) 0 (fun _ => mkL 0 None 0 (Some 0) 1 true) 1 [] [0] [] [] [].
Lemma subst_glue_b_not_sound_unconditionally :
  subst_glue_b empty 0 cex_impl [] empty = true /\ ~ SubstGlue empty 0 cex_impl [] empty.
Proof.
  split. reflexivity.
  intros G. pose proof (sg_pure _ _ _ _ _ G 0 0 (or_introl eq_refl) eq_refl eq_refl) as A. discriminate.
Qed.

(** ** (2) substitute = substitute_pre ; cleanup *)
Lemma substitute_split : forall c u impl,
  substitute c u impl = match substitute_pre c u impl with Some (c4, dl, m) => cleanup dl c4 | None => None end.
Proof.
  intros c u impl. unfold substitute, substitute_gen, substitute_pre, cleanup.
  destruct (all_somes (io impl)) as [ios|]; [|reflexivity]. cbv zeta.
  match goal with |- match ?d with _ => _ end = _ => destruct d as [desig|] end; [|reflexivity].
  match goal with |- (if ?b then _ else _) = _ => destruct b end; [reflexivity|].
  match goal with |- match ?d with _ => _ end = _ => destruct d as [st0|] end; [|reflexivity].
  match goal with |- match ?d with _ => _ end = _ => destruct d as [[c1 m]|] end; [|reflexivity].
  match goal with |- match ?d with _ => _ end = _ => destruct d as [c2|] end; [|reflexivity].
  match goal with |- match ?d with _ => _ end = _ => destruct d as [c3|] end; [|reflexivity].
  match goal with |- match ?d with _ => _ end = _ => destruct d as [[c4 dl]|] end; reflexivity.
Qed.

(** ** (4) *)
Lemma substitute_pre_success : forall c u impl c', substitute c u impl = Some c' ->
  exists c4 dl m, substitute_pre c u impl = Some (c4, dl, m) /\ cleanup dl c4 = Some c'.
Proof.
  intros c u impl c' H. rewrite substitute_split in H.
  destruct (substitute_pre c u impl) as [[[c4 dl] m]|]; [|discriminate]. exists c4, dl, m. auto.
Qed.

(** ** (3) all instance outputs connected: nothing to clean up *)
Lemma conn_out_dl : forall impl m z c dl c' dl',
  (forall p, In p z -> snd p <> None) ->
  fold_opt (subst_conn_out true impl m) z (c, dl) = Some (c', dl') -> dl' = dl.
Proof.
  induction z as [|[ol oll] z IH]; intros c dl c' dl' Hz H; cbn [fold_opt] in H.
  - inv H. reflexivity.
  - destruct (subst_conn_out true impl m (c, dl) (ol, oll)) as [[c1 dl1]|] eqn:E; [|discriminate].
    assert (dl1 = dl).
    { unfold subst_conn_out in E. destruct ol as [l|]; [|discriminate].
      destruct oll as [ll|]; [|exfalso; apply (Hz (Some l, None)); [left|]; auto].
      destruct (l_rdr (lst impl l)) as [r|]; [|discriminate].
      match type of E with match ?t with _ => _ end = _ => destruct t as [[dn pin]|] end; [|discriminate].
      inv E. reflexivity. }
    subst dl1. apply (IH c1 dl c' dl'); auto. intros p Hp. apply Hz. right; auto.
Qed.

Lemma In_zip_snd : forall {A B} (a : list A) (b : list B) p, In p (zip a b) -> In (snd p) b.
Proof.
  induction a as [|x a IH]; intros [|y b] p H; simpl in H; try contradiction.
  destruct H as [H|H]. subst p. left; auto. right. apply IH; auto.
Qed.

Lemma io_ids_all_somes : forall impl ios, all_somes (io impl) = Some ios -> io_ids impl = ios.
Proof.
  intros impl ios H. apply all_somes_map in H. unfold io_ids. rewrite H, map_map. apply map_id.
Qed.

Lemma pad_all_some : forall (l : list (option nat)) n,
  List.length (pad l n) = n -> (forall k, k < n -> nth k l None <> None) -> forall e, In e (pad l n) -> e <> None.
Proof.
  intros l n Hlen Hk e He. unfold pad in *. rewrite app_length, repeat_length in Hlen.
  assert (Hge : n <= List.length l).
  { destruct (le_lt_dec n (List.length l)) as [A|A]; auto. exfalso. apply (Hk (List.length l) A). apply nth_overflow. lia. }
  replace (n - List.length l) with 0 in He by lia. simpl in He. rewrite app_nil_r in He.
  destruct (In_nth_opt _ _ He) as [q [Hq E]]. subst e. apply Hk. lia.
Qed.

(* IoLive impl is not needed: the success of substitute_pre already says that io impl has no gap *)
Lemma all_outs_no_cleanup_gen : forall c u impl c4 dl m,
  all_outs_connected_b c u impl = true -> substitute_pre c u impl = Some (c4, dl, m) -> dl = [].
Proof.
  intros c u impl c4 dl m Hall H. unfold substitute_pre in H.
  destruct (all_somes (io impl)) as [ios|] eqn:Eios; [|discriminate]. cbv zeta in H.
  pose proof (io_ids_all_somes _ _ Eios) as Hids.
  match type of H with match ?d with _ => _ end = _ => destruct d as [desig|] end; [|discriminate].
  match type of H with (if negb ?b then _ else _) = _ => destruct b eqn:Elen end; [|discriminate]. simpl negb in H. cbv iota in H.
  match type of H with match ?d with _ => _ end = _ => destruct d as [st0|] end; [|discriminate].
  match type of H with match ?d with _ => _ end = _ => destruct d as [[c1 m1]|] end; [|discriminate].
  match type of H with match ?d with _ => _ end = _ => destruct d as [c2|] end; [|discriminate].
  match type of H with match ?d with _ => _ end = _ => destruct d as [c3|] end; [|discriminate].
  match type of H with match ?d with _ => _ end = _ => destruct d as [[c4' dl']|] eqn:E4 end; [|discriminate].
  injection H as Hc Hd Hm'. rewrite <- Hd. eapply conn_out_dl; [|exact E4].
  intros p Hp. apply In_zip_snd in Hp. revert Hp.
  apply andb_true_iff in Elen. destruct Elen as [_ Elen]. apply Nat.eqb_eq in Elen.
  apply pad_all_some; auto.
  intros k Hk E. rewrite map_length in Hk. unfold all_outs_connected_b in Hall.
  assert (Hk' : k < List.length (impl_outs impl)). { unfold impl_outs. rewrite Hids. exact Hk. }
  pose proof (forallb_seq0 _ _ k Hall Hk') as A. simpl in A. rewrite E in A. discriminate.
Qed.

Lemma all_outs_no_cleanup : forall c u impl c4 dl m, IoLive impl ->
  all_outs_connected_b c u impl = true -> substitute_pre c u impl = Some (c4, dl, m) -> dl = [].
Proof. intros c u impl c4 dl m _. apply all_outs_no_cleanup_gen. Qed.

Print Assumptions subst_glue_b_sound_gen.
Print Assumptions subst_glue_b_sound_cc.
Print Assumptions substitute_split.
Print Assumptions substitute_pre_success.
Print Assumptions all_outs_no_cleanup.
