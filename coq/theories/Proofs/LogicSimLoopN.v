(** Source tie of the multi-valued evaluation loops of LogicSim.c_prop at MEMORY level, generic in the number of planes:
    the translated loop (m == 4: two planes, m == 8: three planes; with and without callback) over the op rows of a SimOps result
    = c_prop / c_prop_cb of the compared model (Model/LogicSimModel.v, sem8 = documented operator composition) at every memory
    location OUTSIDE the two scratch locations c_locs[tmp_idx], c_locs[tmp2_idx].  Generalises Proofs/LogicSimLoop8.v in three directions:

    * callback: after the statements of the branch the callback is shown the view c[c_locs[o0]] iff the op's output field is a circuit
      line; what it leaves there is what the model's callback returns (relation cb_rel between a callback on planes and one on values);
    * m == 4: c has TWO planes per location (self.c = zeros((c_len, mdim, nbytes)), mdim = 2): there is no third plane in the signal
      memory at all.  The third plane exists only in s[k, pos, 0:3]: s_to_c copies s[0, :, :mdim] (plane 2 is not read), c_to_s writes
      s[1, :, :mdim] (plane 2 of s[1] keeps what it held).  The model memory holds 8-valued codes; the invariant "every value of the model
      memory is is4" (inv) makes firstn 2 (code_bits v) a faithful image and is preserved by every step (chain4_branch);
    * gates WITHOUT output line (s_out = tmp_idx: c[o0] and c[t0] are the same view): every statement of every branch writes only c[o0],
      c[t0] or c[t1] (dbu), i.e. only the two scratch locations, whatever numpy does with the overlapping views; the model's step writes
      c_locs[tmp_idx] only.  So outside the scratch locations neither side changes anything ([op_sepx_b]: separated, OR the output
      location is one of the two scratch locations). *)
From Coq Require Import List ZArith NArith Bool Arith Lia String.
From KV Require Import Model.Bits Model.Logic Model.Prims Model.OpSem Model.Netlist Model.SimOps Model.SimOpsCert
     Model.LogicSimModel Model.WaveDrvPrelude Model.LogicSimDrvPrelude Gen.SimTables Gen.LogicOps Gen.LogicSimDispatch Gen.LogicSimDriversSrc
     Proofs.LogicSweep Proofs.Dispatch Proofs.LogicSimGlue Proofs.LogicSimDriversProofs Proofs.LogicSimLoop8.
Import ListNotations.
Local Open Scope list_scope.

(* ------------------------------------------------------------------------------------------------------------------ *)
(** * A branch writes only where its destinations point *)
Lemma fold_exec_other mdim (loc : slot -> Z) (nl : slot -> nat) : forall body M,
  (forall st, In st body -> loc (stmt_dst st) = Z.of_nat (nl (stmt_dst st))) ->
  let M' := fold_left (exec_stmt mdim loc) body M in
  List.length M' = List.length M /\
  forall l d, (forall st, In st body -> l <> nl (stmt_dst st)) -> nth l M' d = nth l M d.
Proof.
  induction body as [|st r IH]; intros M HD; cbv zeta; [split; reflexivity|]. cbn [fold_left].
  assert (E : exec_stmt mdim loc M st = mset M (nl (stmt_dst st)) (stmt_val (fun s => mrd mdim M (loc s)) st)).
  { unfold exec_stmt. rewrite (HD st (or_introl eq_refl)). apply mwr_nat. }
  rewrite E. destruct (IH (mset M (nl (stmt_dst st)) (stmt_val (fun s => mrd mdim M (loc s)) st))) as [A B].
  { intros st' Hs. apply HD. right. exact Hs. }
  cbv zeta in A, B. split; [rewrite A; apply mset_length|].
  intros l d Hl. rewrite B by (intros st' Hs; apply Hl; right; exact Hs).
  rewrite nth_mset. pose proof (Hl st (or_introl eq_refl)) as N. apply Nat.eqb_neq in N. rewrite N. reflexivity.
Qed.

(** the m == 4 branch of every known opcode also writes c[o0] *)
Theorem chain4_branch_w tbl : (tbl = disp4 \/ tbl = disp4_cb) ->
  forall l p, prim_of_lut l = Some p ->
  exists body, chain_find (l_chain loop_cprop4) (Z.of_N l) = Some body /\ dbu [] body = true /\ In So0 (map stmt_dst body) /\
    forall a b c d, is4 a = true -> is4 b = true -> is4 c = true -> is4 d = true ->
      reg_exec body (opdN 2 a b c d) So0 = firstn 2 (code_bits (spec_prim p a b c d)) /\ is4 (spec_prim p a b c d) = true.
Proof.
  intros Ht l p Hp. pose proof (prim_of_lut_lut_of l p Hp) as Hl. unfold lut_of in Hl.
  assert (H : chainN_chk 2 codes4 (l_chain loop_cprop4) tbl (prim_name p, l) = true).
  { destruct Ht as [-> | ->]; [pose proof chain4_ok as H | pose proof chain4_cb_ok as H]; rewrite forallb_forall in H; exact (H _ (assoc_in _ _ _ Hl)). }
  unfold chainN_chk in H. cbn [fst snd] in H.
  destruct (chain_find (l_chain loop_cprop4) (Z.of_N l)) as [body|]; [|discriminate].
  destruct (dispatch4_spec tbl Ht p) as [g [Hg Hrun]]. rewrite Hg in H.
  apply andb_true_iff in H. destruct H as [H Hs]. apply andb_true_iff in H. destruct H as [Hd Hw].
  exists body. split; [reflexivity|]. split; [exact Hd|]. split.
  - apply existsb_exists in Hw. destruct Hw as (st & Hin & E). apply slot_eqb_eq in E. rewrite E. apply in_map. exact Hin.
  - intros a b c d Ha Hb Hc Hdd.
    rewrite forallb_forall in Hs. specialize (Hs _ (in_codes4 a Ha)). rewrite forallb_forall in Hs. specialize (Hs _ (in_codes4 b Hb)).
    rewrite forallb_forall in Hs. specialize (Hs _ (in_codes4 c Hc)). rewrite forallb_forall in Hs. specialize (Hs _ (in_codes4 d Hdd)).
    apply bools_eqb_eq in Hs. rewrite Hs. apply (Hrun a b c d Ha Hb Hc Hdd).
Qed.

(* ------------------------------------------------------------------------------------------------------------------ *)
(** * Separation, extended to ops that write a scratch location *)
Definition op_sepx_b (so : simops) (lt0 lt1 : nat) (o : sop) : bool :=
  op_sep_b so lt0 lt1 o ||
  match so_loc so (s_out o) with Some lo => Nat.eqb lo lt0 || Nat.eqb lo lt1 | None => false end.
Definition ops_sepx_b (so : simops) : bool :=
  match so_loc so (so_nlines so + 1), so_loc so (so_nlines so + 2) with
  | Some lt0, Some lt1 => negb (Nat.eqb lt0 lt1) && forallb (op_sepx_b so lt0 lt1) (so_ops so)
  | _, _ => false
  end.

Lemma op_sep_sepx so lt0 lt1 o : op_sep_b so lt0 lt1 o = true -> op_sepx_b so lt0 lt1 o = true.
Proof. intros H. unfold op_sepx_b. rewrite H. reflexivity. Qed.
Lemma ops_sep_sepx so : ops_sep_b so = true -> ops_sepx_b so = true.
Proof.
  unfold ops_sep_b, ops_sepx_b. destruct (so_loc so (so_nlines so + 1)); [|intros H; exact H].
  destruct (so_loc so (so_nlines so + 2)); [|intros H; exact H]. intros H.
  apply andb_true_iff in H. destruct H as [H1 H2]. rewrite H1. cbn [andb].
  rewrite forallb_forall in *. intros o Ho. apply op_sep_sepx. apply H2. exact Ho.
Qed.
Lemma op_sepx_located so lt0 lt1 o : op_sepx_b so lt0 lt1 o = true -> exists lo, so_loc so (s_out o) = Some lo.
Proof.
  unfold op_sepx_b, op_sep_b. destruct (so_loc so (s_out o)) as [lo|]; [exists lo; reflexivity|]. cbn. discriminate.
Qed.

(* ------------------------------------------------------------------------------------------------------------------ *)
(** * Generic in the number of planes *)
Section LoopN.
  Variable mdim : nat.
  Variable emb : code -> planes.
  Variable pb : code -> bool.                       (* the sub-domain of the values that occur (m == 4: is4; m == 8: all) *)
  Variable L : loop_src.
  Variable tn : bool.
  Hypothesis HL : std_shape L (Some (std_cb tn)).
  Hypothesis Hg : guards_known (l_chain L) = true.
  Hypothesis emb_opd : forall c, pb c = true -> firstn mdim (code_bits c) = emb c.
  Hypothesis pb_zero : pb Zero = true.
  Hypothesis branch : forall l p, prim_of_lut l = Some p ->
    exists body, chain_find (l_chain L) (Z.of_N l) = Some body /\ dbu [] body = true /\ In So0 (map stmt_dst body) /\
      forall a b c d, pb a = true -> pb b = true -> pb c = true -> pb d = true ->
        reg_exec body (opdN mdim a b c d) So0 = emb (spec_prim p a b c d) /\ pb (spec_prim p a b c d) = true.

  Definition agreeN (lt0 lt1 : nat) (M : smem) (m : list code) : Prop :=
    List.length M = List.length m /\ forall l, l <> lt0 -> l <> lt1 -> nth l M (pdflt mdim) = emb (nth l m Zero).
  Definition invN (m : list code) : Prop := forall l, pb (nth l m Zero) = true.

  Lemma invN_mset m lo v : invN m -> pb v = true -> invN (mset m lo v).
  Proof. intros H Hv l. rewrite nth_mset. destruct (Nat.eqb l lo && Nat.ltb lo (List.length m)); [exact Hv|apply H]. Qed.
  Lemma invN_rd so m x : invN m -> pb (rd Zero so m x) = true.
  Proof. intros H. unfold rd. destruct (loc_of so x); [apply H|exact pb_zero]. Qed.

  (** the model's steps keep the sub-domain *)
  Lemma prop1_inv so m o : invN m -> invN (prop1 Zero sem8 so m o).
  Proof.
    intros H. unfold prop1. destruct (prim_of_lut (s_lut o)) as [p|] eqn:Ep; [|exact H].
    destruct (loc_of so (s_out o)) as [lo|]; [|exact H]. apply invN_mset; [exact H|].
    destruct (branch _ _ Ep) as (body & _ & _ & _ & Hv). apply Hv; apply invN_rd; exact H.
  Qed.
  Lemma prop1_cb_inv cb so m o : (forall k v, pb v = true -> pb (cb k v) = true) -> invN m -> invN (prop1_cb Zero sem8 cb so m o).
  Proof.
    intros Hcb H. unfold prop1_cb. destruct (prim_of_lut (s_lut o)) as [p|] eqn:Ep; [|exact H].
    destruct (loc_of so (s_out o)) as [lo|]; [|exact H]. apply invN_mset; [exact H|].
    destruct (branch _ _ Ep) as (body & _ & _ & _ & Hv).
    assert (Hs : pb (sem8 p (rd Zero so m (s_i0 o)) (rd Zero so m (s_i1 o)) (rd Zero so m (s_i2 o)) (rd Zero so m (s_i3 o))) = true)
      by (apply Hv; apply invN_rd; exact H).
    destruct (Nat.ltb (s_out o) (so_nlines so)); [apply Hcb|]; exact Hs.
  Qed.
  Lemma c_prop_inv so m : invN m -> invN (c_prop Zero sem8 so m).
  Proof. unfold c_prop. revert m. induction (so_ops so) as [|o r IH]; intros m H; [exact H|]. cbn [fold_left]. apply IH, prop1_inv, H. Qed.
  Lemma c_prop_cb_inv cb so m : (forall k v, pb v = true -> pb (cb k v) = true) -> invN m -> invN (c_prop_cb Zero sem8 cb so m).
  Proof. intros Hcb. unfold c_prop_cb. revert m. induction (so_ops so) as [|o r IH]; intros m H; [exact H|]. cbn [fold_left]. apply IH, prop1_cb_inv; assumption. Qed.

  Variable so : simops.
  Variables lt0 lt1 : nat.
  Hypothesis Hne : lt0 <> lt1.

  Definition iter_mem (M : smem) (o : sop) : smem :=
    match chain_find (l_chain L) (field (l_hdr L) (row_of o) is_hop) with
    | Some body => fold_left (exec_stmt mdim (post_of L (so_locs so) (Z.of_nat lt0) (Z.of_nat lt1) (row_of o))) body M
    | None => M
    end.
  Lemma iter_nocb nl M tr o : iter_src mdim L (so_locs so) nl (Z.of_nat lt0) (Z.of_nat lt1) None (M, tr) (row_of o) = (iter_mem M o, tr).
  Proof. unfold iter_src, iter_mem. destruct (l_cb L); reflexivity. Qed.

  (** one iteration without callback *)
  Lemma bodyN_model o m M : agreeN lt0 lt1 M m -> invN m -> locs_ok so (List.length m) -> (lt0 < List.length m)%nat -> (lt1 < List.length m)%nat ->
    op_sepx_b so lt0 lt1 o = true -> agreeN lt0 lt1 (iter_mem M o) (prop1 Zero sem8 so m o).
  Proof.
    intros [AL AV] HI HB Ht0 Ht1 Hsepx. unfold iter_mem. rewrite (std_op L _ o HL). unfold prop1.
    change (loc_of so (s_out o)) with (so_loc so (s_out o)).
    destruct (prim_of_lut (s_lut o)) as [p|] eqn:Ep.
    2:{ rewrite (guards_none _ _ Hg Ep). split; assumption. }
    destruct (branch _ _ Ep) as (body & Hf & Hd & Hw & Hv). rewrite Hf.
    unfold op_sepx_b in Hsepx. destruct (op_sep_b so lt0 lt1 o) eqn:Hsep.
    - (* separated: as in Proofs/LogicSimLoop8.v *)
      clear Hsepx. unfold op_sep_b in Hsep. destruct (so_loc so (s_out o)) as [lo|] eqn:Elo; [|discriminate Hsep].
      apply andb_true_iff in Hsep. destruct Hsep as [Hsep Hins]. apply andb_true_iff in Hsep. destruct Hsep as [N0 N1].
      apply negb_true_iff, Nat.eqb_neq in N0, N1. cbn [forallb] in Hins.
      assert (Hin : forall x, In x [s_i0 o; s_i1 o; s_i2 o; s_i3 o] -> exists l, so_loc so x = Some l /\ l <> lo /\ l <> lt0 /\ l <> lt1).
      { intros x Hx.
        assert (Hb : match so_loc so x with Some l => negb (Nat.eqb l lo) && negb (Nat.eqb l lt0) && negb (Nat.eqb l lt1) | None => false end = true).
        { repeat (apply andb_true_iff in Hins; destruct Hins as [?H Hins]). destruct Hx as [<-|[<-|[<-|[<-|[]]]]]; assumption. }
        destruct (so_loc so x) as [l|]; [|discriminate Hb]. exists l. split; [reflexivity|].
        apply andb_true_iff in Hb. destruct Hb as [Hb B3]. apply andb_true_iff in Hb. destruct Hb as [B1 B2].
        apply negb_true_iff, Nat.eqb_neq in B1, B2, B3. auto. }
      destruct (Hin (s_i0 o)) as (l0 & E0 & A0 & B0 & C0); [cbn; auto|].
      destruct (Hin (s_i1 o)) as (l1 & E1 & A1 & B1 & C1); [cbn; auto|].
      destruct (Hin (s_i2 o)) as (l2 & E2 & A2 & B2 & C2); [cbn; auto|].
      destruct (Hin (s_i3 o)) as (l3 & E3 & A3 & B3 & C3); [cbn; auto 6|].
      set (nloc := fun s => match s with So0 => lo | Si0 => l0 | Si1 => l1 | Si2 => l2 | Si3 => l3 | St0 => lt0 | St1 => lt1 end).
      rewrite (fold_exec_loc_ext mdim _ (fun s => Z.of_nat (nloc s))).
      2:{ intros s. rewrite (std_post L _ _ _ _ o s HL). destruct s; cbn [nloc sidx]; try reflexivity; apply zrd_loc; assumption. }
      assert (sepW : forall d s, isW d = true -> s <> d -> nloc s <> nloc d).
      { intros d s Hd' Hs. destruct d; try discriminate Hd'; destruct s; cbn [nloc]; try congruence; auto. }
      assert (Hlo : (lo < List.length m)%nat) by (apply (HB _ _ Elo)).
      destruct (mem_reg mdim nloc sepW body M (dbu_dstW _ _ Hd)) as (A & B & C).
      { intros d Hd'. rewrite AL. destruct d; try discriminate Hd'; cbn [nloc]; assumption. }
      cbv zeta in A, B, C.
      set (M' := fold_left (exec_stmt mdim (fun s => Z.of_nat (nloc s))) body M) in *.
      set (a := rd Zero so m (s_i0 o)). set (b := rd Zero so m (s_i1 o)). set (c := rd Zero so m (s_i2 o)). set (d := rd Zero so m (s_i3 o)).
      assert (Pa : pb a = true) by (apply invN_rd; exact HI). assert (Pb : pb b = true) by (apply invN_rd; exact HI).
      assert (Pc : pb c = true) by (apply invN_rd; exact HI). assert (Pd : pb d = true) by (apply invN_rd; exact HI).
      assert (Eo : nth lo M' (pdflt mdim) = emb (sem8 p a b c d)).
      { change lo with (nloc So0). rewrite B.
        rewrite (dbu_agree body [] _ (opdN mdim a b c d) Hd).
        - apply Hv; assumption.
        - intros s [Hs|[]]. destruct s; try discriminate Hs; cbn [nloc opdN];
            [rewrite (emb_opd a Pa), (AV l0 B0 C0)|rewrite (emb_opd b Pb), (AV l1 B1 C1)|rewrite (emb_opd c Pc), (AV l2 B2 C2)|rewrite (emb_opd d Pd), (AV l3 B3 C3)];
            unfold a, b, c, d, rd; change (loc_of so) with (so_loc so);
            [rewrite E0|rewrite E1|rewrite E2|rewrite E3]; reflexivity.
        - right. right. exact Hw. }
      split; [rewrite A, mset_length; exact AL|].
      intros l Hl0 Hl1. rewrite nth_mset. destruct (Nat.eqb l lo) eqn:El.
      + apply Nat.eqb_eq in El. subst l. apply Nat.ltb_lt in Hlo. rewrite Hlo. cbn [andb]. exact Eo.
      + cbn [andb]. apply Nat.eqb_neq in El. rewrite C; [apply AV; assumption|].
        intros d' Hd'. destruct d'; try discriminate Hd'; cbn [nloc]; assumption.
    - (* the output location is a scratch location: every statement writes a scratch location only *)
      cbn [orb] in Hsepx. destruct (so_loc so (s_out o)) as [lo|] eqn:Elo; [|discriminate Hsepx].
      assert (Hsc : lo = lt0 \/ lo = lt1).
      { apply orb_true_iff in Hsepx. destruct Hsepx as [H|H]; apply Nat.eqb_eq in H; auto. }
      set (nl := fun s => match s with So0 => lo | St0 => lt0 | St1 => lt1 | _ => 0%nat end).
      pose proof (dbu_dstW _ _ Hd) as HW. rewrite Forall_forall in HW.
      destruct (fold_exec_other mdim (post_of L (so_locs so) (Z.of_nat lt0) (Z.of_nat lt1) (row_of o)) nl body M) as [A B].
      { intros st Hs. specialize (HW st Hs). rewrite (std_post L _ _ _ _ o _ HL).
        destruct (stmt_dst st); try discriminate HW; cbn [nl sidx]; try reflexivity. apply zrd_loc. exact Elo. }
      cbv zeta in A, B. split; [rewrite A, mset_length; exact AL|].
      intros l Hl0 Hl1. rewrite B.
      + rewrite nth_mset. assert (N : Nat.eqb l lo = false) by (apply Nat.eqb_neq; destruct Hsc; congruence).
        rewrite N. cbn [andb]. apply AV; assumption.
      + intros st Hs. specialize (HW st Hs). destruct (stmt_dst st); try discriminate HW; cbn [nl]; [destruct Hsc; congruence|assumption|assumption].
  Qed.

  (** the loop without callback *)
  Theorem loopN_is_model nl : forall ops m M, (forall o, In o ops -> op_sepx_b so lt0 lt1 o = true) ->
    locs_ok so (List.length m) -> (lt0 < List.length m)%nat -> (lt1 < List.length m)%nat -> agreeN lt0 lt1 M m -> invN m ->
    forall tr,
    agreeN lt0 lt1 (fst (fold_left (iter_src mdim L (so_locs so) nl (Z.of_nat lt0) (Z.of_nat lt1) None) (map row_of ops) (M, tr)))
           (fold_left (prop1 Zero sem8 so) ops m).
  Proof.
    induction ops as [|o r IH]; intros m M HS HB H0 H1 HA HI tr; [exact HA|]. cbn [map fold_left].
    rewrite iter_nocb. apply IH.
    - intros o' Ho'. apply HS. right. exact Ho'.
    - rewrite prop1_length. exact HB.
    - rewrite prop1_length. exact H0.
    - rewrite prop1_length. exact H1.
    - apply bodyN_model; try assumption. apply HS. left. reflexivity.
    - apply prop1_inv. exact HI.
  Qed.

  (** the callback on planes shows the callback on values (on the sub-domain) *)
  Definition cb_relN (f : callback) (cb : nat -> code -> code) : Prop :=
    forall k v, pb v = true -> f k (emb v) = emb (cb k v) /\ pb (cb k v) = true.

  Lemma agree_mset_cb f cb k lo M m : cb_relN f cb -> agreeN lt0 lt1 M m -> invN m -> (lo < List.length m)%nat ->
    agreeN lt0 lt1 (mset M lo (f k (nth lo M (pdflt mdim)))) (mset m lo (cb k (nth lo m Zero))).
  Proof.
    intros Hf [AL AV] HI Hlo. split; [rewrite !mset_length; exact AL|].
    intros l Hl0 Hl1. rewrite !nth_mset, AL. destruct (Nat.eqb l lo) eqn:El.
    - apply Nat.eqb_eq in El. subst l. apply Nat.ltb_lt in Hlo. rewrite Hlo. cbn [andb].
      rewrite (AV lo Hl0 Hl1). apply (Hf k _ (HI lo)).
    - cbn [andb]. apply AV; assumption.
  Qed.

  Lemma prop1_cb_as cb o m p lo : prim_of_lut (s_lut o) = Some p -> so_loc so (s_out o) = Some lo -> (lo < List.length m)%nat ->
    prop1_cb Zero sem8 cb so m o =
    if Nat.ltb (s_out o) (so_nlines so)
    then mset (prop1 Zero sem8 so m o) lo (cb (s_out o) (nth lo (prop1 Zero sem8 so m o) Zero))
    else prop1 Zero sem8 so m o.
  Proof.
    intros Ep Elo Hlo. unfold prop1_cb, prop1. change (loc_of so (s_out o)) with (so_loc so (s_out o)). rewrite Ep, Elo.
    destruct (Nat.ltb (s_out o) (so_nlines so)); [|reflexivity].
    rewrite nth_mset, Nat.eqb_refl. apply Nat.ltb_lt in Hlo. rewrite Hlo. cbn [andb]. rewrite mset_mset. reflexivity.
  Qed.

  (** the loop with a callback: memory outside the scratch locations and call sequence *)
  Theorem loopN_cb_is_model f cb : cb_relN f cb -> forall ops m M, (forall o, In o ops -> op_sepx_b so lt0 lt1 o = true) ->
    (forall o, In o ops -> prim_of_lut (s_lut o) <> None) ->
    locs_ok so (List.length m) -> (lt0 < List.length m)%nat -> (lt1 < List.length m)%nat -> agreeN lt0 lt1 M m -> invN m ->
    forall tr,
    agreeN lt0 lt1 (fst (fold_left (iter_src mdim L (so_locs so) (so_nlines so) (Z.of_nat lt0) (Z.of_nat lt1) (Some f)) (map row_of ops) (M, tr)))
           (fold_left (prop1_cb Zero sem8 cb so) ops m).
  Proof.
    intros Hf. induction ops as [|o r IH]; intros m M HS HK HB H0 H1 HA HI tr; [exact HA|]. cbn [map fold_left].
    rewrite (iter_cb_structure mdim L tn _ _ _ _ f M tr o HL). cbv zeta. rewrite iter_nocb. cbn [fst].
    pose proof (HS o (or_introl eq_refl)) as Hsx. destruct (op_sepx_located _ _ _ _ Hsx) as [lo Elo].
    assert (Hlo : (lo < List.length m)%nat) by (apply (HB _ _ Elo)).
    destruct (prim_of_lut (s_lut o)) as [p|] eqn:Ep; [|exfalso; apply (HK o (or_introl eq_refl)); exact Ep].
    pose proof (bodyN_model o m M HA HI HB H0 H1 Hsx) as HA1. pose proof (prop1_inv so m o HI) as HI1.
    assert (HA2 : agreeN lt0 lt1
              (fst (if Nat.ltb (s_out o) (so_nlines so)
                    then (mwr (iter_mem M o) (zrd (-1) (so_locs so) (Z.of_nat (s_out o)))
                              (f (s_out o) (mrd mdim (iter_mem M o) (zrd (-1) (so_locs so) (Z.of_nat (s_out o))))),
                          tr ++ [(s_out o, mrd mdim (iter_mem M o) (zrd (-1) (so_locs so) (Z.of_nat (s_out o))))])
                    else (iter_mem M o, tr)))
              (prop1_cb Zero sem8 cb so m o)).
    { rewrite (prop1_cb_as cb o m p lo Ep Elo Hlo). destruct (Nat.ltb (s_out o) (so_nlines so)); cbn [fst]; [|exact HA1].
      rewrite (zrd_loc so _ _ Elo), mwr_nat, mrd_nat. apply agree_mset_cb; try assumption. rewrite prop1_length. exact Hlo. }
    assert (Hlen : List.length (prop1_cb Zero sem8 cb so m o) = List.length m).
    { unfold prop1_cb. destruct (prim_of_lut (s_lut o)); [|reflexivity]. destruct (loc_of so (s_out o)); [apply mset_length|reflexivity]. }
    destruct (Nat.ltb (s_out o) (so_nlines so)); cbn [fst] in HA2; apply IH; try (rewrite Hlen; assumption); try exact HA2;
      try (intros o' Ho'; first [apply HS | apply HK]; right; exact Ho');
      apply prop1_cb_inv; [intros k v Hv; apply (Hf k v Hv)|exact HI| intros k v Hv; apply (Hf k v Hv)|exact HI].
  Qed.
End LoopN.

(* ------------------------------------------------------------------------------------------------------------------ *)
(** * Instances *)
Definition emb4 (c : code) : planes := firstn 2 (code_bits c).
Definition all8 (c : code) : bool := true.

Definition agree4 := agreeN 2 emb4.
Definition inv4 (m : list code) : Prop := forall l, is4 (nth l m Zero) = true.
Definition cb_rel8 (f : callback) (cb : nat -> code -> code) : Prop := forall k v, f k (emb8 v) = emb8 (cb k v).
Definition cb_rel4 (f : callback) (cb : nat -> code -> code) : Prop :=
  forall k v, is4 v = true -> f k (emb4 v) = emb4 (cb k v) /\ is4 (cb k v) = true.

Lemma agree8_N lt0 lt1 M m : agree8 lt0 lt1 M m <-> agreeN 3 emb8 lt0 lt1 M m.
Proof. unfold agree8, agreeN. tauto. Qed.

Lemma firstn3_bits_all c : all8 c = true -> firstn 3 (code_bits c) = emb8 c.
Proof. intros _. apply firstn3_bits. Qed.

Lemma branch8 : forall l p, prim_of_lut l = Some p ->
  exists body, chain_find (l_chain loop_cprop8) (Z.of_N l) = Some body /\ dbu [] body = true /\ In So0 (map stmt_dst body) /\
    forall a b c d, all8 a = true -> all8 b = true -> all8 c = true -> all8 d = true ->
      reg_exec body (opdN 3 a b c d) So0 = emb8 (spec_prim p a b c d) /\ all8 (spec_prim p a b c d) = true.
Proof.
  intros l p Hp. destruct (chain8_branch_w disp8 (or_introl eq_refl) l p Hp) as (body & A & B & C & D).
  exists body. repeat (split; [assumption|]). intros a b c d _ _ _ _. split; [apply D|reflexivity].
Qed.
Lemma branch4 : forall l p, prim_of_lut l = Some p ->
  exists body, chain_find (l_chain loop_cprop4) (Z.of_N l) = Some body /\ dbu [] body = true /\ In So0 (map stmt_dst body) /\
    forall a b c d, is4 a = true -> is4 b = true -> is4 c = true -> is4 d = true ->
      reg_exec body (opdN 2 a b c d) So0 = emb4 (spec_prim p a b c d) /\ is4 (spec_prim p a b c d) = true.
Proof. exact (chain4_branch_w disp4 (or_introl eq_refl)). Qed.

Lemma inv8_all m : invN all8 m. Proof. intros l. reflexivity. Qed.

(** skeleton of c_prop around the loops: which loop runs, t0 / t1 read from c_locs *)
Lemma skel8 so cb rows M lt0 lt1 : so_loc so (so_nlines so + 1) = Some lt0 -> so_loc so (so_nlines so + 2) = Some lt1 ->
  c_prop_src loop_prop_cpu loop_cprop2_cb loop_cprop4 loop_cprop8 8 (so_locs so) (so_nlines so)
    (Z.of_nat (so_nlines so + 1)) (Z.of_nat (so_nlines so + 2)) cb rows M
  = run_loop 3 loop_cprop8 (so_locs so) (so_nlines so) (Z.of_nat lt0) (Z.of_nat lt1) cb rows M.
Proof.
  intros E0 E1.
  change (c_prop_src loop_prop_cpu loop_cprop2_cb loop_cprop4 loop_cprop8 8 (so_locs so) (so_nlines so)
            (Z.of_nat (so_nlines so + 1)) (Z.of_nat (so_nlines so + 2)) cb rows M)
    with (run_loop 3 loop_cprop8 (so_locs so) (so_nlines so) (zrd (-1) (so_locs so) (Z.of_nat (so_nlines so + 1)))
            (zrd (-1) (so_locs so) (Z.of_nat (so_nlines so + 2))) cb rows M).
  rewrite (zrd_loc so _ _ E0), (zrd_loc so _ _ E1). reflexivity.
Qed.
Lemma skel4 so cb rows M lt0 lt1 : so_loc so (so_nlines so + 1) = Some lt0 -> so_loc so (so_nlines so + 2) = Some lt1 ->
  c_prop_src loop_prop_cpu loop_cprop2_cb loop_cprop4 loop_cprop8 4 (so_locs so) (so_nlines so)
    (Z.of_nat (so_nlines so + 1)) (Z.of_nat (so_nlines so + 2)) cb rows M
  = run_loop 2 loop_cprop4 (so_locs so) (so_nlines so) (Z.of_nat lt0) (Z.of_nat lt1) cb rows M.
Proof.
  intros E0 E1.
  change (c_prop_src loop_prop_cpu loop_cprop2_cb loop_cprop4 loop_cprop8 4 (so_locs so) (so_nlines so)
            (Z.of_nat (so_nlines so + 1)) (Z.of_nat (so_nlines so + 2)) cb rows M)
    with (run_loop 2 loop_cprop4 (so_locs so) (so_nlines so) (zrd (-1) (so_locs so) (Z.of_nat (so_nlines so + 1)))
            (zrd (-1) (so_locs so) (Z.of_nat (so_nlines so + 2))) cb rows M).
  rewrite (zrd_loc so _ _ E0), (zrd_loc so _ _ E1). reflexivity.
Qed.

Lemma sepx_split so : ops_sepx_b so = true ->
  exists lt0 lt1, so_loc so (so_nlines so + 1) = Some lt0 /\ so_loc so (so_nlines so + 2) = Some lt1 /\ lt0 <> lt1 /\
    forall o, In o (so_ops so) -> op_sepx_b so lt0 lt1 o = true.
Proof.
  unfold ops_sepx_b. destruct (so_loc so (so_nlines so + 1)) as [lt0|]; [|discriminate].
  destruct (so_loc so (so_nlines so + 2)) as [lt1|]; [|discriminate]. intros H.
  apply andb_true_iff in H. destruct H as [Hne HS]. apply negb_true_iff, Nat.eqb_neq in Hne. rewrite forallb_forall in HS.
  exists lt0, lt1. auto.
Qed.

(** m == 8 WITH callback (C16): memory outside the scratch locations = c_prop_cb of the model, call sequence = cb_lines *)
Theorem cprop8_cb_source_is_model so m M f cb : ops_sepx_b so = true -> ops_known so -> locs_ok so (List.length m) -> cb_rel8 f cb ->
  exists lt0 lt1, so_loc so (so_nlines so + 1) = Some lt0 /\ so_loc so (so_nlines so + 2) = Some lt1 /\ lt0 <> lt1 /\
    (agree8 lt0 lt1 M m ->
     let r := c_prop_src loop_prop_cpu loop_cprop2_cb loop_cprop4 loop_cprop8 8 (so_locs so) (so_nlines so)
                (Z.of_nat (so_nlines so + 1)) (Z.of_nat (so_nlines so + 2)) (Some f) (map row_of (so_ops so)) M in
     agree8 lt0 lt1 (fst r) (c_prop_cb Zero sem8 cb so m) /\ map fst (snd r) = cb_lines so).
Proof.
  intros HS HK HB Hf. destruct (sepx_split so HS) as (lt0 & lt1 & E0 & E1 & Hne & HO).
  exists lt0, lt1. repeat (split; [assumption|]). intros HA. cbv zeta. rewrite (skel8 so _ _ _ lt0 lt1 E0 E1). split.
  - assert (Hf' : cb_relN emb8 all8 f cb) by (intros k v _; split; [apply Hf|reflexivity]).
    exact (loopN_cb_is_model 3 emb8 all8 loop_cprop8 true shape_8 guards_8_ok firstn3_bits_all eq_refl branch8 so lt0 lt1 Hne f cb Hf'
             (so_ops so) m M HO HK HB (HB _ _ E0) (HB _ _ E1) HA (inv8_all m) []).
  - unfold run_loop, cb_lines. rewrite (callback_call_sequence 3 loop_cprop8 true _ _ _ _ f shape_8). reflexivity.
Qed.

(** m == 8 without callback, INCLUDING gates without output line *)
Theorem cprop8_source_is_model_x so m M : ops_sepx_b so = true -> locs_ok so (List.length m) ->
  exists lt0 lt1, so_loc so (so_nlines so + 1) = Some lt0 /\ so_loc so (so_nlines so + 2) = Some lt1 /\ lt0 <> lt1 /\
    (agree8 lt0 lt1 M m ->
     agree8 lt0 lt1 (fst (c_prop_src loop_prop_cpu loop_cprop2_cb loop_cprop4 loop_cprop8 8 (so_locs so) (so_nlines so)
                            (Z.of_nat (so_nlines so + 1)) (Z.of_nat (so_nlines so + 2)) None (map row_of (so_ops so)) M))
            (c_prop Zero sem8 so m)).
Proof.
  intros HS HB. destruct (sepx_split so HS) as (lt0 & lt1 & E0 & E1 & Hne & HO).
  exists lt0, lt1. repeat (split; [assumption|]). intros HA. rewrite (skel8 so _ _ _ lt0 lt1 E0 E1).
  exact (loopN_is_model 3 emb8 all8 loop_cprop8 true shape_8 guards_8_ok firstn3_bits_all eq_refl branch8 so lt0 lt1 Hne (so_nlines so)
           (so_ops so) m M HO HB (HB _ _ E0) (HB _ _ E1) HA (inv8_all m) []).
Qed.

(** m == 4 (two planes per location), without and with callback *)
Theorem cprop4_source_is_model so m M : ops_sepx_b so = true -> locs_ok so (List.length m) -> inv4 m ->
  exists lt0 lt1, so_loc so (so_nlines so + 1) = Some lt0 /\ so_loc so (so_nlines so + 2) = Some lt1 /\ lt0 <> lt1 /\
    (agree4 lt0 lt1 M m ->
     agree4 lt0 lt1 (fst (c_prop_src loop_prop_cpu loop_cprop2_cb loop_cprop4 loop_cprop8 4 (so_locs so) (so_nlines so)
                            (Z.of_nat (so_nlines so + 1)) (Z.of_nat (so_nlines so + 2)) None (map row_of (so_ops so)) M))
            (c_prop Zero sem8 so m) /\
     inv4 (c_prop Zero sem8 so m)).
Proof.
  intros HS HB HI. destruct (sepx_split so HS) as (lt0 & lt1 & E0 & E1 & Hne & HO).
  exists lt0, lt1. repeat (split; [assumption|]). intros HA. rewrite (skel4 so _ _ _ lt0 lt1 E0 E1). split.
  - exact (loopN_is_model 2 emb4 is4 loop_cprop4 true shape_4 guards_4_ok (fun c _ => eq_refl) eq_refl branch4 so lt0 lt1 Hne (so_nlines so)
             (so_ops so) m M HO HB (HB _ _ E0) (HB _ _ E1) HA HI []).
  - apply (c_prop_inv 2 emb4 is4 loop_cprop4 eq_refl branch4 so m HI).
Qed.

Theorem cprop4_cb_source_is_model so m M f cb : ops_sepx_b so = true -> ops_known so -> locs_ok so (List.length m) -> inv4 m -> cb_rel4 f cb ->
  exists lt0 lt1, so_loc so (so_nlines so + 1) = Some lt0 /\ so_loc so (so_nlines so + 2) = Some lt1 /\ lt0 <> lt1 /\
    (agree4 lt0 lt1 M m ->
     let r := c_prop_src loop_prop_cpu loop_cprop2_cb loop_cprop4 loop_cprop8 4 (so_locs so) (so_nlines so)
                (Z.of_nat (so_nlines so + 1)) (Z.of_nat (so_nlines so + 2)) (Some f) (map row_of (so_ops so)) M in
     agree4 lt0 lt1 (fst r) (c_prop_cb Zero sem8 cb so m) /\ map fst (snd r) = cb_lines so /\ inv4 (c_prop_cb Zero sem8 cb so m)).
Proof.
  intros HS HK HB HI Hf. destruct (sepx_split so HS) as (lt0 & lt1 & E0 & E1 & Hne & HO).
  exists lt0, lt1. repeat (split; [assumption|]). intros HA. cbv zeta. rewrite (skel4 so _ _ _ lt0 lt1 E0 E1). split; [|split].
  - exact (loopN_cb_is_model 2 emb4 is4 loop_cprop4 true shape_4 guards_4_ok (fun c _ => eq_refl) eq_refl branch4 so lt0 lt1 Hne f cb Hf
             (so_ops so) m M HO HK HB (HB _ _ E0) (HB _ _ E1) HA HI []).
  - unfold run_loop, cb_lines. rewrite (callback_call_sequence 2 loop_cprop4 true _ _ _ _ f shape_4). reflexivity.
  - apply (c_prop_cb_inv 2 emb4 is4 loop_cprop4 eq_refl branch4 cb so m); [intros k v Hv; apply (Hf k v Hv)|exact HI].
Qed.

(** one iteration, m == 8, extended: separated op rows and op rows that write a scratch location *)
Theorem body8x_model : forall so lt0 lt1, lt0 <> lt1 -> forall o m M,
  agree8 lt0 lt1 M m -> locs_ok so (List.length m) -> (lt0 < List.length m)%nat -> (lt1 < List.length m)%nat ->
  op_sepx_b so lt0 lt1 o = true ->
  agree8 lt0 lt1
    (match chain_find (l_chain loop_cprop8) (field (l_hdr loop_cprop8) (row_of o) is_hop) with
     | Some body => fold_left (exec_stmt 3 (post_of loop_cprop8 (so_locs so) (Z.of_nat lt0) (Z.of_nat lt1) (row_of o))) body M
     | None => M
     end)
    (prop1 Zero sem8 so m o).
Proof.
  intros so lt0 lt1 Hne o m M HA HB H0 H1 HS.
  exact (bodyN_model 3 emb8 all8 loop_cprop8 true shape_8 guards_8_ok firstn3_bits_all eq_refl branch8 so lt0 lt1 Hne o m M HA (inv8_all m) HB H0 H1 HS).
Qed.
