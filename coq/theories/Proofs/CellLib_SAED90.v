(** C10, library clause: the exhaustive sweeps over lib_SAED90 (regenerated from techlib.py on every run), evaluated by the
    kernel's VM once each (vm_cast_no_check: the only evaluation is the one at Qed).  Nothing but Properties/C10Lib.v depends
    on this file. *)
From Coq Require Import List Bool String.
From KV Require Import Model.TechCell Model.CellCircuit Gen.TechLibs.

Lemma SAED90_all : lib_all_fast lib_SAED90 d15_none = true.
Proof. vm_cast_no_check (eq_refl true). Qed.
Lemma SAED90_one : lib_one_fast lib_SAED90 d15_none = true.
Proof. vm_cast_no_check (eq_refl true). Qed.
Lemma SAED90_noout : lib_noout_fast lib_SAED90 = true.
Proof. vm_cast_no_check (eq_refl true). Qed.
Lemma SAED90_all_refuted : lib_all_refuted lib_SAED90 d15_none = true.
Proof. vm_cast_no_check (eq_refl true). Qed.
Lemma SAED90_one_refuted : lib_one_refuted lib_SAED90 d15_none = true.
Proof. vm_cast_no_check (eq_refl true). Qed.
Lemma SAED90_noout_refuted : lib_noout_refuted lib_SAED90 = true.
Proof. vm_cast_no_check (eq_refl true). Qed.

(* instances inside and outside the exceptions exist *)
Lemma SAED90_has_seq : lib_has lib_SAED90 (wit_seq d15_none) = true.
Proof. vm_cast_no_check (eq_refl true). Qed.
Lemma SAED90_has_comb : lib_has lib_SAED90 (wit_comb d15_none) = true.
Proof. vm_cast_no_check (eq_refl true). Qed.
Lemma SAED90_has_d22 : lib_has lib_SAED90 wit_d22 = true.
Proof. vm_cast_no_check (eq_refl true). Qed.
