(** Pointwise equality of circuit states ([ceq], Model/CircuitPrimsSrcLib.v): an equivalence, respected by the graph invariant
    and by the primitive edit operations of the hand model Model/Circuit.v (so a history may be continued on either side). *)
From Coq Require Import List Arith Bool String Lia.
From KV Require Import Model.Circuit Model.CircuitInv Model.CircuitPrimsSrcLib.
Import ListNotations.
Local Open Scope list_scope.

Lemma ceq_refl c : ceq c c.
Proof. unfold ceq. repeat split; reflexivity. Qed.
Lemma ceq_sym a b : ceq a b -> ceq b a.
Proof. intros (H1 & H2 & H3 & H4 & H5 & H6 & H7 & H8 & H9). unfold ceq. repeat split; intros; symmetry; auto. Qed.
Lemma ceq_trans a b c : ceq a b -> ceq b c -> ceq a c.
Proof.
  intros (H1 & H2 & H3 & H4 & H5 & H6 & H7 & H8 & H9) (G1 & G2 & G3 & G4 & G5 & G6 & G7 & G8 & G9).
  unfold ceq. repeat split; intros; etransitivity; eauto.
Qed.

Lemma oceq_refl x : oceq x x.
Proof. destruct x; simpl; [apply ceq_refl | exact I]. Qed.
Lemma oceq_trans x y z : oceq x y -> oceq y z -> oceq x z.
Proof. destruct x, y, z; simpl; try tauto. apply ceq_trans. Qed.
Lemma oceq_id_fst x y : oceq_id x y -> oceq (option_map fst x) (option_map fst y).
Proof. destruct x as [[a i]|], y as [[b j]|]; simpl; tauto. Qed.

(** ** the invariant only looks at a state through its fields and store entries *)
Lemma CInv_ceq a b : ceq a b -> CInv a -> CInv b.
Proof.
  intros (Hn & Hnn & Hl & Hln & Hno & Hli & Hio & Hce & Hfo) [HC HF].
  split.
  - destruct HC as [F1 F2 F3 F4 F5 F6 F7 F8 F9 F10 F11 F12].
    constructor; unfold NX, out_at, in_at, outs_of, ins_of, kind_of, name_of in *; intros;
      rewrite <- ?Hn, <- ?Hl, <- ?Hnn, <- ?Hln, <- ?Hno, <- ?Hli, <- ?Hce, <- ?Hfo in *; eauto.
    destruct (F10 _ H) as (d & r & A). exists d, r. rewrite <- ?Hn. exact A.
  - unfold ForkDenseX, NX, out_at, outs_of, kind_of in *. intros n.
    rewrite <- ?Hn, <- ?Hno. apply HF.
Qed.
Lemma IoLive_ceq a b : ceq a b -> IoLive a -> IoLive b.
Proof.
  intros (Hn & Hnn & Hl & Hln & Hno & Hli & Hio & Hce & Hfo) H. unfold IoLive in *. rewrite <- Hio, <- Hno. exact H.
Qed.

(** ** building blocks *)
Ltac ceq_split H := destruct H as (Hn & Hnn & Hl & Hln & Hno & Hli & Hio & Hce & Hfo).
Ltac ceq_auto :=
  unfold ceq; cbn; repeat split; intros; unfold fupd;
  repeat match goal with |- context [Nat.eqb ?x ?k] => destruct (Nat.eqb x k) end;
  try reflexivity; try congruence; auto.

Lemma upd_node_ceq a b n g : ceq a b -> ceq (upd_node a n g) (upd_node b n g).
Proof. intros H. ceq_split H. ceq_auto. Qed.
Lemma upd_line_ceq a b l g : ceq a b -> ceq (upd_line a l g) (upd_line b l g).
Proof. intros H. ceq_split H. ceq_auto. Qed.
Lemma with_nodes_ceq a b v : ceq a b -> ceq (with_nodes a v) (with_nodes b v).
Proof. intros H. ceq_split H. ceq_auto. Qed.
Lemma with_lines_ceq a b v : ceq a b -> ceq (with_lines a v) (with_lines b v).
Proof. intros H. ceq_split H. ceq_auto. Qed.
Lemma with_io_ceq a b v : ceq a b -> ceq (with_io a v) (with_io b v).
Proof. intros H. ceq_split H. ceq_auto. Qed.
Lemma with_cells_ceq a b v : ceq a b -> ceq (with_cells a v) (with_cells b v).
Proof. intros H. ceq_split H. ceq_auto. Qed.
Lemma with_forks_ceq a b v : ceq a b -> ceq (with_forks a v) (with_forks b v).
Proof. intros H. ceq_split H. ceq_auto. Qed.

(** ** the primitive operations respect [ceq] *)
Lemma add_node_ceq a b name kind : ceq a b -> oceq_id (add_node a name kind) (add_node b name kind).
Proof.
  intros H. ceq_split H. unfold add_node. rewrite Hnn, Hfo, Hce.
  destruct (is_fork kind).
  - destruct (dget name (forks b)); [exact I|]. split; [|reflexivity]. cbn. rewrite Hno. ceq_auto.
  - destruct (dget name (cells b)); [exact I|]. split; [|reflexivity]. cbn. rewrite Hno. ceq_auto.
Qed.

Lemma del_node_at_ceq a b i : ceq a b -> oceq (del_node_at a i) (del_node_at b i).
Proof.
  intros H. unfold del_node_at. assert (Hno : nodes a = nodes b) by apply H. rewrite Hno.
  destruct (idel (nodes b) i) as [[l' [rep|]]|]; simpl; auto.
  - apply with_nodes_ceq. now apply upd_node_ceq.
  - now apply with_nodes_ceq.
Qed.
Lemma del_line_at_ceq a b i : ceq a b -> oceq (del_line_at a i) (del_line_at b i).
Proof.
  intros H. unfold del_line_at. assert (Hli : lines a = lines b) by apply H. rewrite Hli.
  destruct (idel (lines b) i) as [[l' [rep|]]|]; simpl; auto.
  - apply with_lines_ceq. now apply upd_line_ceq.
  - now apply with_lines_ceq.
Qed.

Lemma node_remove_ceq a b n : ceq a b -> oceq (node_remove a n) (node_remove b n).
Proof.
  intros H. unfold node_remove. assert (Hn : nst a n = nst b n) by apply H. rewrite Hn.
  destruct (n_alive (nst b n)); [|exact H].
  pose proof (del_node_at_ceq a b (n_index (nst b n)) H) as Hd.
  destruct (del_node_at a (n_index (nst b n))) as [a1|], (del_node_at b (n_index (nst b n))) as [b1|]; simpl in Hd;
    try contradiction; [|exact I].
  assert (Hfo : forks a1 = forks b1) by apply Hd. assert (Hce : cells a1 = cells b1) by apply Hd.
  rewrite Hfo, Hce. destruct (is_fork (n_kind (nst b n))).
  - destruct (ddel (n_name (nst b n)) (forks b1)); simpl; [|exact I]. apply upd_node_ceq. now apply with_forks_ceq.
  - destruct (ddel (n_name (nst b n)) (cells b1)); simpl; [|exact I]. apply upd_node_ceq. now apply with_cells_ceq.
Qed.

Lemma renumber_ceq : forall o a b i, ceq a b -> oceq (renumber a o i) (renumber b o i).
Proof.
  induction o as [|[l|] o IH]; intros a b i H; simpl; [exact H | | exact I].
  apply IH. now apply upd_line_ceq.
Qed.

Lemma line_remove_ceq a b l : ceq a b -> oceq (line_remove a l) (line_remove b l).
Proof.
  intros H. unfold line_remove. assert (HL : lst a l = lst b l) by apply H. rewrite HL.
  set (L := lst b l).
  assert (Hs1 : oceq
    match l_drv L with
    | Some d => let c1 := upd_node a d (fun x => nset_outs x (gset (n_outs x) (l_dpin L) None)) in
                if is_fork (kind_of c1 d)
                then let o := remove_nth (l_dpin L) (outs_of c1 d) in renumber (upd_node c1 d (fun x => nset_outs x o)) o 0
                else Some c1
    | None => Some a
    end
    match l_drv L with
    | Some d => let c1 := upd_node b d (fun x => nset_outs x (gset (n_outs x) (l_dpin L) None)) in
                if is_fork (kind_of c1 d)
                then let o := remove_nth (l_dpin L) (outs_of c1 d) in renumber (upd_node c1 d (fun x => nset_outs x o)) o 0
                else Some c1
    | None => Some b
    end).
  { destruct (l_drv L) as [d|]; [|exact H]. cbv zeta.
    pose proof (upd_node_ceq a b d (fun x => nset_outs x (gset (n_outs x) (l_dpin L) None)) H) as H1.
    set (a1 := upd_node a d _) in *. set (b1 := upd_node b d _) in *.
    assert (Hd : nst a1 d = nst b1 d) by apply H1. unfold kind_of, outs_of. rewrite Hd.
    destruct (is_fork (n_kind (nst b1 d))); [|exact H1]. apply renumber_ceq. now apply upd_node_ceq. }
  cbv zeta in Hs1.
  match goal with |- oceq (match ?x with _ => _ end) (match ?y with _ => _ end) => destruct x as [a2|], y as [b2|] end;
    simpl in Hs1; try contradiction; [|exact I].
  assert (H3 : ceq (match l_rdr L with
                    | Some r => upd_node a2 r (fun x => nset_ins x (gset (n_ins x) (l_rpin L) None))
                    | None => a2 end)
                   (match l_rdr L with
                    | Some r => upd_node b2 r (fun x => nset_ins x (gset (n_ins x) (l_rpin L) None))
                    | None => b2 end)).
  { destruct (l_rdr L); [now apply upd_node_ceq | exact Hs1]. }
  set (a3 := match l_rdr L with Some _ => _ | None => a2 end) in *.
  set (b3 := match l_rdr L with Some _ => _ | None => b2 end) in *.
  destruct (l_alive L).
  - pose proof (del_line_at_ceq a3 b3 (l_index L) H3) as H4.
    destruct (del_line_at a3 (l_index L)) as [a4|], (del_line_at b3 (l_index L)) as [b4|]; simpl in H4; try contradiction;
      [|exact I].
    simpl. now apply upd_line_ceq.
  - simpl. now apply upd_line_ceq.
Qed.

Lemma add_line_ceq a b d dp r rp : ceq a b ->
  ceq (fst (add_line a d dp r rp)) (fst (add_line b d dp r rp)) /\ snd (add_line a d dp r rp) = snd (add_line b d dp r rp).
Proof.
  intros H. unfold add_line, outs_of, ins_of. cbv zeta. cbn [fst snd].
  ceq_split H. rewrite (Hn d), (Hn r), Hln, Hli. split; [|reflexivity].
  apply upd_node_ceq. apply upd_node_ceq. ceq_auto.
Qed.

Lemma get_or_add_fork_ceq a b name : ceq a b -> oceq_id (get_or_add_fork a name) (get_or_add_fork b name).
Proof.
  intros H. unfold get_or_add_fork. assert (Hfo : forks a = forks b) by apply H. rewrite Hfo.
  destruct (dget name (forks b)); [split; [exact H | reflexivity]|]. now apply add_node_ceq.
Qed.

Definition prim_op (o : op) : bool :=
  match o with
  | AddNode _ _ | AddLine _ _ _ _ | RemoveLine _ | RemoveNode _ | SetIO _ _ | GetOrAddFork _ => true
  | _ => false
  end.

Theorem step_prim_ceq a b o : prim_op o = true -> ceq a b -> oceq (step a o) (step b o).
Proof.
  intros Hp H. destruct o; try discriminate; simpl.
  - apply oceq_id_fst. now apply add_node_ceq.
  - apply (add_line_ceq a b d dp r rp H).
  - now apply line_remove_ceq.
  - now apply node_remove_ceq.
  - unfold set_io. assert (Hio : io a = io b) by apply H. rewrite Hio. now apply with_io_ceq.
  - apply oceq_id_fst. now apply get_or_add_fork_ceq.
Qed.
