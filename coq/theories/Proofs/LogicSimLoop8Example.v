(** Non-vacuity of the list-memory source tie of the 8-valued loop: the exR instance (fork, reconvergence, flip-flop; c_reuse and
    strip_forks on) passes the separation check, and the translated m == 8 loop is run on a concrete memory. *)
From Coq Require Import List ZArith NArith Bool Arith Lia String.
From KV Require Import Model.Logic Model.Prims Model.Netlist Model.NetlistWf Model.SimOps Model.SimOpsCert Model.LogicSimModel
     Model.LogicSimDrvPrelude Gen.LogicSimDriversSrc Proofs.ReuseProofs Proofs.LogicSimGlue Proofs.LogicSimDriversProofs Proofs.LogicSimLoop8.
Import ListNotations.
Local Open Scope list_scope.
Import ReuseExample GlueExample.

Definition exM8 : list code := [One; Rise; Zero; Fall; Unk; One; NP; Una; PP].

Example loop8_example : exists so lt0 lt1,
  build exR (repeat 1%N 10) 1%N true true = Some so /\ ops_sep_b so = true /\ locs_ok so (List.length exM8) /\
  so_loc so (so_nlines so + 1) = Some lt0 /\ so_loc so (so_nlines so + 2) = Some lt1 /\
  (2 <= List.length (so_ops so))%nat /\
  agree8 lt0 lt1 (fst (c_prop_src loop_prop_cpu loop_cprop2_cb loop_cprop4 loop_cprop8 8 (so_locs so) (so_nlines so)
                         (Z.of_nat (so_nlines so + 1)) (Z.of_nat (so_nlines so + 2)) None (map row_of (so_ops so)) (map emb8 exM8)))
         (c_prop Zero sem8 so exM8) /\
  c_prop Zero sem8 so exM8 <> exM8.
Proof.
  destruct (build exR (repeat 1%N 10) 1%N true true) as [so|] eqn:Hb; [|vm_compute in Hb; discriminate Hb].
  assert (HS : ops_sep_b so = true) by (vm_compute in Hb; injection Hb as <-; vm_compute; reflexivity).
  assert (HB : locs_ok so (List.length exM8)).
  { destruct exR_hyps as (WF & AC & GK & FO).
    destruct (build_glue exR _ 1%N true true so WF AC eq_refl GK (fun _ => FO) Hb) as (_ & _ & _ & HL & _).
    assert (E : N.to_nat (so_len so) = List.length exM8) by (vm_compute in Hb; injection Hb as <-; reflexivity).
    rewrite <- E. exact HL. }
  pose proof (cprop8_source_is_model so exM8 (map emb8 exM8) HS HB) as T.
  destruct (so_loc so (so_nlines so + 1)) as [lt0|] eqn:E0; [|destruct T].
  destruct (so_loc so (so_nlines so + 2)) as [lt1|] eqn:E1; [|destruct T].
  exists so, lt0, lt1. split; [reflexivity|]. split; [exact HS|]. split; [exact HB|]. split; [exact E0|]. split; [exact E1|].
  split; [vm_compute in Hb; injection Hb as <-; vm_compute; lia|]. split.
  - apply T. split; [apply map_length|]. intros l _ _. unfold emb8. change (pdflt 3) with (code_bits Zero). apply map_nth.
  - vm_compute in Hb. injection Hb as <-. vm_compute. discriminate.
Qed.

(** the hypotheses of the build-level theorem (Proofs/LogicSimSepBuild.v) are satisfiable: exR, both options on *)
Example build_hyps_example :
  wf_netlist exR /\ comb_acyclic exR /\ KV.Proofs.EndToEnd.gates_known exR /\ KV.Proofs.ReuseStrip.forks_ok exR /\
  (forall o, In o (build_ops exR true) -> s_out o < List.length (c_lines exR)) /\
  (3 <= List.length (build_ops exR true)) /\
  exists so, build exR (repeat 1%N 10) 1%N true true = Some so.
Proof.
  destruct exR_hyps as (WF & AC & GK & FO). repeat (split; [assumption|]).
  split; [|split; [vm_compute; lia|]].
  - assert (H : forallb (fun o => Nat.ltb (s_out o) (List.length (c_lines exR))) (build_ops exR true) = true) by (vm_compute; reflexivity).
    intros o Ho. rewrite forallb_forall in H. apply Nat.ltb_lt. apply H. exact Ho.
  - destruct (build exR (repeat 1%N 10) 1%N true true) as [so|] eqn:Hb; [exists so; reflexivity|vm_compute in Hb; discriminate Hb].
Qed.
