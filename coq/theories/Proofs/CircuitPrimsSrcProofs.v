(** The translated source of the graph primitives of circuit.py (Gen/CircuitPrimsSrc.v, regenerated from /repo on every
    run) equals the hand model Model/Circuit.v on EVERY state (no invariant, no precondition is needed: the hand model
    follows the code also where it raises).  States are compared with [ceq] (stores pointwise); where the translated
    code and the hand model even produce the same term the statement is a plain equation. *)
From Coq Require Import List Arith Bool String ZArith Lia.
From KV Require Import Model.Circuit Model.CircuitInv Model.CircuitPrimsSrcLib Gen.CircuitPrimsSrc.
Import ListNotations.
Local Open Scope list_scope.

(* ------------------------------------------------------------------------------------------ *)
(** * vocabulary *)

Lemma py_idx_nat n : py_idx (Z.of_nat n) = Some n.
Proof.
  unfold py_idx. destruct (Z.of_nat n <? 0)%Z eqn:E; [apply Z.ltb_lt in E; lia|]. now rewrite Nat2Z.id.
Qed.

Lemma length_set_nth {A} (l : list A) : forall n v, List.length (set_nth n v l) = List.length l.
Proof. induction l as [|y r IH]; intros [|n] v; simpl; auto. Qed.

Lemma gset_as_set_nth {A} (l : list (option A)) : forall i v,
  gset l i v = set_nth i v (l ++ repeat None (S i - List.length l)).
Proof.
  induction l as [|y r IH]; intros i v.
  - simpl List.length. rewrite Nat.sub_0_r. simpl app. induction i as [|i IHi]; [reflexivity|].
    simpl. f_equal. exact IHi.
  - destruct i as [|i].
    + simpl. now rewrite app_nil_r.
    + simpl. f_equal. apply IH.
Qed.

Lemma gset_length_gt {A} (l : list (option A)) : forall i v, i < List.length (gset l i v).
Proof.
  induction l as [|y r IH]; intros i v.
  - induction i as [|i IHi]; simpl; [lia|]. simpl in IHi. lia.
  - destruct i as [|i]; simpl; [lia|]. specialize (IH i v). lia.
Qed.

Theorem growing_setitem_src_eq l i v : GrowingList_setitem_src l (Z.of_nat i) v = Some (gset l i v).
Proof.
  unfold GrowingList_setitem_src. cbv beta zeta. rewrite py_idx_nat. unfold py_len, py_extend, py_repeat_none, py_lset.
  rewrite gset_as_set_nth.
  destruct (Z.of_nat (List.length l) <=? Z.of_nat i)%Z eqn:E.
  - apply Z.leb_le in E.
    replace (Z.to_nat (Z.of_nat i + 1 - Z.of_nat (List.length l))) with (S i - List.length l) by lia.
    assert (H : Nat.ltb i (List.length (l ++ repeat None (S i - List.length l))) = true).
    { apply Nat.ltb_lt. rewrite app_length, repeat_length. lia. }
    rewrite H. reflexivity.
  - apply Z.leb_gt in E.
    assert (H : Nat.ltb i (List.length l) = true) by (apply Nat.ltb_lt; lia).
    rewrite H. replace (S i - List.length l) with 0 by lia. simpl repeat. now rewrite app_nil_r.
Qed.

Lemma next_enum_free (l : list (option nat)) : forall i d,
  d = (i + Z.of_nat (List.length l))%Z ->
  py_next_enum (fun x => py_is_none x) l i d = (i + Z.of_nat (free_index l))%Z.
Proof.
  induction l as [|[y|] r IH]; intros i d Hd; simpl.
  - simpl in Hd. lia.
  - rewrite (IH (i + 1)%Z d); [lia|]. simpl List.length in Hd. lia.
  - lia.
Qed.

Theorem growing_free_index_src_eq l : GrowingList_free_index_src l = Some (Z.of_nat (free_index l)).
Proof.
  unfold GrowingList_free_index_src. f_equal. rewrite (next_enum_free l 0 (py_len l)); [lia | unfold py_len; lia].
Qed.

Lemma py_pop_last {A} (l : list A) d : l <> [] -> py_pop l = Some (last l d, removelast l).
Proof.
  intros Hn. unfold py_pop. rewrite (app_removelast_last d Hn) at 1. rewrite rev_app_distr. simpl.
  now rewrite rev_involutive.
Qed.

Lemma remove_nth_last {A} (l : list A) : remove_nth (List.length l - 1) l = removelast l.
Proof.
  induction l as [|y r IH]; [reflexivity|]. destruct r as [|z r']; [reflexivity|].
  replace (List.length (y :: z :: r') - 1) with (S (List.length (z :: r') - 1)) by (simpl; lia).
  change (y :: remove_nth (List.length (z :: r') - 1) (z :: r') = y :: removelast (z :: r')). now rewrite IH.
Qed.

Lemma py_dset_fresh k v d : dget k d = None -> py_dset k v d = d ++ [(k, v)].
Proof.
  induction d as [|[k' v'] r IH]; simpl; intros H; [reflexivity|].
  destruct (String.eqb k k'); [discriminate|]. now rewrite IH.
Qed.

(* ------------------------------------------------------------------------------------------ *)
(** * IndexList.__delitem__ *)

Lemma idel_src_gen (l : list nat) (i : nat) :
  match idel l i with
  | None => (Z.of_nat i =? Z.of_nat (List.length l) - 1)%Z = true /\ py_ldel i l = None
            \/ (Z.of_nat i =? Z.of_nat (List.length l) - 1)%Z = false /\
               (py_pop l = None \/ exists rep l', py_pop l = Some (rep, l') /\ py_lset i rep l' = None)
  | Some (l', None) => (Z.of_nat i =? Z.of_nat (List.length l) - 1)%Z = true /\ py_ldel i l = Some l'
  | Some (l', Some rep) => (Z.of_nat i =? Z.of_nat (List.length l) - 1)%Z = false /\
                           exists l0, py_pop l = Some (rep, l0) /\ py_lset i rep l0 = Some l'
  end.
Proof.
  unfold idel. destruct l as [|a l0] eqn:El.
  - right. split; [apply Z.eqb_neq; simpl; lia|]. left. reflexivity.
  - rewrite <- El. assert (Hn : l <> []) by (rewrite El; discriminate).
    assert (Hlen : List.length l = S (List.length (removelast l))).
    { rewrite (app_removelast_last 0 Hn) at 1. rewrite app_length. simpl. lia. }
    destruct (Nat.eqb i (List.length l - 1)) eqn:E.
    + apply Nat.eqb_eq in E. split; [apply Z.eqb_eq; lia|].
      unfold py_ldel. assert (H : Nat.ltb i (List.length l) = true) by (apply Nat.ltb_lt; lia). rewrite H. f_equal.
      subst i. apply remove_nth_last.
    + apply Nat.eqb_neq in E. destruct (Nat.ltb i (List.length l - 1)) eqn:E2.
      * split; [apply Z.eqb_neq; lia|]. exists (removelast l). split; [now apply py_pop_last|].
        unfold py_lset. apply Nat.ltb_lt in E2.
        assert (H : Nat.ltb i (List.length (removelast l)) = true) by (apply Nat.ltb_lt; lia). now rewrite H.
      * right. split; [apply Z.eqb_neq; lia|]. right. exists (last l 0), (removelast l). split; [now apply py_pop_last|].
        unfold py_lset. apply Nat.ltb_ge in E2.
        assert (H : Nat.ltb i (List.length (removelast l)) = false) by (apply Nat.ltb_ge; lia). now rewrite H.
Qed.

Theorem indexlist_delitem_nodes_src_eq c i : IndexList_delitem_nodes_src c (Z.of_nat i) = del_node_at c i.
Proof.
  unfold IndexList_delitem_nodes_src, del_node_at. cbv beta zeta. rewrite !py_idx_nat. unfold py_len.
  pose proof (idel_src_gen (nodes c) i) as H.
  destruct (idel (nodes c) i) as [[l' [rep|]]|].
  - destruct H as (E & l0 & Hp & Hs). rewrite E, Hp. cbn [with_nodes nodes set_n_index upd_node with_nst]. rewrite Hs. reflexivity.
  - destruct H as (E & Hd). rewrite E, Hd. reflexivity.
  - destruct H as [(E & Hd) | (E & [Hp | (rep & l0 & Hp & Hs)])].
    + rewrite E, Hd. reflexivity.
    + rewrite E, Hp. reflexivity.
    + rewrite E, Hp. cbn [with_nodes nodes set_n_index upd_node with_nst]. rewrite Hs. reflexivity.
Qed.

Theorem indexlist_delitem_lines_src_eq c i : IndexList_delitem_lines_src c (Z.of_nat i) = del_line_at c i.
Proof.
  unfold IndexList_delitem_lines_src, del_line_at. cbv beta zeta. rewrite !py_idx_nat. unfold py_len.
  pose proof (idel_src_gen (lines c) i) as H.
  destruct (idel (lines c) i) as [[l' [rep|]]|].
  - destruct H as (E & l0 & Hp & Hs). rewrite E, Hp. cbn [with_lines lines set_l_index upd_line with_lst]. rewrite Hs. reflexivity.
  - destruct H as (E & Hd). rewrite E, Hd. reflexivity.
  - destruct H as [(E & Hd) | (E & [Hp | (rep & l0 & Hp & Hs)])].
    + rewrite E, Hd. reflexivity.
    + rewrite E, Hp. reflexivity.
    + rewrite E, Hp. cbn [with_lines lines set_l_index upd_line with_lst]. rewrite Hs. reflexivity.
Qed.

(* ------------------------------------------------------------------------------------------ *)
(** * Node.remove *)

Lemma del_node_at_attrs c i c1 : del_node_at c i = Some c1 ->
  (forall x, n_kind (nst c1 x) = n_kind (nst c x) /\ n_name (nst c1 x) = n_name (nst c x) /\
             n_alive (nst c1 x) = n_alive (nst c x)) /\ forks c1 = forks c /\ cells c1 = cells c.
Proof.
  unfold del_node_at. destruct (idel (nodes c) i) as [[l' [rep|]]|]; intros H; inversion H; subst; clear H.
  - split; [|split; reflexivity]. intros x. cbn. unfold fupd. destruct (Nat.eqb x rep) eqn:E; [|auto].
    apply Nat.eqb_eq in E. subst. auto.
  - split; [|split; reflexivity]. intros x. cbn. auto.
Qed.

Theorem node_remove_src_eq c n : Node_remove_src c n = node_remove c n.
Proof.
  unfold Node_remove_src, node_remove. cbv beta zeta.
  destruct (n_alive (nst c n)) eqn:Ha; [|reflexivity].
  rewrite indexlist_delitem_nodes_src_eq.
  destruct (del_node_at c (n_index (nst c n))) as [c1|] eqn:Hd; [|reflexivity].
  destruct (del_node_at_attrs _ _ _ Hd) as (Hx & Hf & Hc). destruct (Hx n) as (Hk & Hn & Hal).
  rewrite Hk, Hn, Hal, Ha. unfold is_fork, FORK, py_ddel.
  destruct (String.eqb (n_kind (nst c n)) "__fork__").
  - destruct (ddel (n_name (nst c n)) (forks c1)); reflexivity.
  - destruct (ddel (n_name (nst c n)) (cells c1)); reflexivity.
Qed.

(* ------------------------------------------------------------------------------------------ *)
(** * Node.__init__ *)

Theorem node_init_default_kind_eq : Node_init_default_kind = FORK.
Proof. reflexivity. Qed.

Ltac proj_simpl :=
  cbn [nst nnext lst lnext nodes lines io cells forks with_nst with_lst with_nodes with_lines with_io with_cells with_forks
       upd_node upd_line set_n_name set_n_kind set_n_index set_n_ins set_n_outs set_n_circuit
       set_l_index set_l_driver set_l_driver_pin set_l_reader set_l_reader_pin set_l_circuit].

Ltac ceq_fields :=
  unfold ceq; repeat split; try reflexivity;
  intros x; cbn; unfold fupd; rewrite ?Nat.eqb_refl; cbn;
  repeat match goal with |- context [Nat.eqb x ?k] => destruct (Nat.eqb x k) eqn:?; cbn end; try reflexivity.

Theorem node_init_src_eq c name kind : oceq_id (Node_init_src c name kind) (add_node c name kind).
Proof.
  unfold Node_init_src, add_node, new_node. cbv beta zeta iota. unfold is_fork, FORK, py_din.
  destruct (String.eqb kind "__fork__").
  - cbn [forks]. destruct (dget name (forks c)) eqn:Hg; cbn [negb]; [exact I|].
    rewrite (py_dset_fresh _ _ _ Hg). unfold py_len, py_append. proj_simpl.
    rewrite !app_length. simpl List.length.
    replace (Z.of_nat (List.length (nodes c) + 1) - 1)%Z with (Z.of_nat (List.length (nodes c))) by lia.
    rewrite py_idx_nat. replace (List.length (nodes c) + 1 - 1) with (List.length (nodes c)) by lia.
    split; [|reflexivity]. ceq_fields.
  - cbn [cells]. destruct (dget name (cells c)) eqn:Hg; cbn [negb]; [exact I|].
    rewrite (py_dset_fresh _ _ _ Hg). unfold py_len, py_append. proj_simpl.
    rewrite !app_length. simpl List.length.
    replace (Z.of_nat (List.length (nodes c) + 1) - 1)%Z with (Z.of_nat (List.length (nodes c))) by lia.
    rewrite py_idx_nat. replace (List.length (nodes c) + 1 - 1) with (List.length (nodes c)) by lia.
    split; [|reflexivity]. ceq_fields.
Qed.

(* ------------------------------------------------------------------------------------------ *)
(** * Line.remove *)

Lemma line_remove_loop_eq self : forall it c i, Line_remove_src_loop1 c self it (Z.of_nat i) = renumber c it i.
Proof.
  induction it as [|[l|] it IH]; intros c i; [reflexivity | | reflexivity].
  cbn [Line_remove_src_loop1 renumber]. rewrite py_idx_nat.
  replace (Z.of_nat i + 1)%Z with (Z.of_nat (S i)) by lia. apply IH.
Qed.

Lemma renumber_attrs : forall o c i c', renumber c o i = Some c' ->
  nst c' = nst c /\ nnext c' = nnext c /\ lnext c' = lnext c /\ nodes c' = nodes c /\ lines c' = lines c /\ io c' = io c /\
  cells c' = cells c /\ forks c' = forks c /\
  forall x, l_index (lst c' x) = l_index (lst c x) /\ l_drv (lst c' x) = l_drv (lst c x) /\ l_rdr (lst c' x) = l_rdr (lst c x) /\
            l_rpin (lst c' x) = l_rpin (lst c x) /\ l_alive (lst c' x) = l_alive (lst c x).
Proof.
  induction o as [|[l|] o IH]; intros c i c' H; simpl in H; [inversion H; subst; repeat split; reflexivity | | discriminate].
  destruct (IH _ _ _ H) as (H1 & H2 & H3 & H4 & H5 & H6 & H7 & H8 & H9).
  repeat split; try assumption; destruct (H9 x) as (A & B & C & D & E); cbn in *; unfold fupd in *;
    destruct (Nat.eqb x l) eqn:Ex; try assumption; apply Nat.eqb_eq in Ex; subst; assumption.
Qed.

(* the part of Line.remove behind the driver block, as a function of the state the driver block leaves *)
Definition lr_tail (L : lineR) (l : nat) (c2 : circ) : option circ :=
  let c3 := match l_rdr L with
            | None => c2
            | Some r => upd_node c2 r (fun x => nset_ins x (gset (n_ins x) (l_rpin L) None))
            end in
  let s4 := if l_alive L then del_line_at c3 (l_index L) else Some c3 in
  match s4 with
  | None => None
  | Some c4 => Some (upd_line c4 l (fun x => lset_alive (lset_rdr (lset_drv x None (l_dpin x)) None (l_rpin x)) false))
  end.

Lemma nst_set_n_outs_same c n v : nst (set_n_outs c n v) n = nset_outs (nst c n) v.
Proof. unfold set_n_outs, upd_node. cbn. unfold fupd. now rewrite Nat.eqb_refl. Qed.
Lemma nst_set_n_ins_same c n v : nst (set_n_ins c n v) n = nset_ins (nst c n) v.
Proof. unfold set_n_ins, upd_node. cbn. unfold fupd. now rewrite Nat.eqb_refl. Qed.

Lemma line_remove_split c l :
  line_remove c l =
  match (match l_drv (lst c l) with
         | None => Some c
         | Some d =>
             let c1 := set_n_outs c d (gset (n_outs (nst c d)) (l_dpin (lst c l)) None) in
             if String.eqb (n_kind (nst c1 d)) "__fork__" then
               let o := remove_nth (l_dpin (lst c l)) (n_outs (nst c1 d)) in
               renumber (set_n_outs c1 d o) o 0
             else Some c1
         end) with
  | None => None
  | Some c2 => lr_tail (lst c l) l c2
  end.
Proof. reflexivity. Qed.

Theorem line_remove_src_eq c l : oceq (Line_remove_src c l) (line_remove c l).
Proof.
  cbv delta [Line_remove_src]. cbv beta.
  lazymatch goal with |- oceq (let k1 := ?F in @?B k1) _ => set (k1 := F) end. cbv zeta.
  assert (Hk1 : forall c2, l_rdr (lst c2 l) = l_rdr (lst c l) -> l_rpin (lst c2 l) = l_rpin (lst c l) ->
                           l_alive (lst c2 l) = l_alive (lst c l) -> l_index (lst c2 l) = l_index (lst c l) ->
                           oceq (k1 c2) (lr_tail (lst c l) l c2)).
  { intros c2 H1 H2 H3 H4. unfold k1, lr_tail. cbv beta zeta. rewrite H1, H2.
    destruct (l_rdr (lst c l)) as [r|]; cbn [py_is_none negb].
    - rewrite growing_setitem_src_eq. unfold set_n_ins at 1 2 3 4 5. unfold upd_node. proj_simpl. rewrite H3, H4.
      destruct (l_alive (lst c l)).
      + rewrite indexlist_delitem_lines_src_eq.
        destruct (del_line_at _ _) as [c4|]; [|exact I]. ceq_fields.
      + ceq_fields.
    - rewrite H3, H4. destruct (l_alive (lst c l)).
      + rewrite indexlist_delitem_lines_src_eq.
        destruct (del_line_at _ _) as [c4|]; [|exact I]. ceq_fields.
      + ceq_fields. }
  clearbody k1. rewrite line_remove_split.
  destruct (l_drv (lst c l)) as [d|] eqn:Hd; cbn [py_is_none negb]; [|apply Hk1; reflexivity].
  rewrite growing_setitem_src_eq. cbv zeta.
  set (o1 := gset (n_outs (nst c d)) (l_dpin (lst c l)) None).
  set (c1 := set_n_outs c d o1).
  assert (Hl1 : lst c1 = lst c) by reflexivity.
  assert (Hn1 : nst c1 d = nset_outs (nst c d) o1) by apply nst_set_n_outs_same.
  rewrite !Hl1, !Hd, !Hn1. cbn [n_kind n_outs nset_outs].
  destruct (String.eqb (n_kind (nst c d)) "__fork__"); [|apply Hk1; rewrite Hl1; reflexivity].
  rewrite py_idx_nat. unfold py_ldel.
  assert (Hlt : Nat.ltb (l_dpin (lst c l)) (List.length o1) = true) by (apply Nat.ltb_lt; apply gset_length_gt).
  rewrite Hlt.
  set (o := remove_nth (l_dpin (lst c l)) o1).
  set (c2 := set_n_outs c1 d o).
  assert (Hl2 : lst c2 = lst c) by reflexivity.
  assert (Hn2 : nst c2 d = nset_outs (nst c1 d) o) by apply nst_set_n_outs_same.
  rewrite !Hl2, !Hd, !Hn2. cbn [n_outs nset_outs].
  change 0%Z with (Z.of_nat 0). rewrite line_remove_loop_eq.
  destruct (renumber c2 o 0) as [c3|] eqn:Hr; [|exact I].
  destruct (renumber_attrs _ _ _ _ Hr) as (_ & _ & _ & _ & _ & _ & _ & _ & H9).
  destruct (H9 l) as (A & _ & C & D & E). rewrite Hl2 in *. apply Hk1; assumption.
Qed.

(* ------------------------------------------------------------------------------------------ *)
(** * Line.__init__ *)

Ltac rec_simpl :=
  cbn [l_index l_drv l_dpin l_rdr l_rpin l_alive lset_index lset_drv lset_dpin lset_rdr lset_alive dead_line
       n_name n_kind n_index n_ins n_outs n_alive nset_name nset_kind nset_index nset_ins nset_outs nset_alive dead_node].

Lemma fupd_same {A} (f : nat -> A) k v : fupd f k v k = v.
Proof. unfold fupd. now rewrite Nat.eqb_refl. Qed.
Lemma fupd_other {A} (f : nat -> A) k v x : x <> k -> fupd f k v x = f x.
Proof. unfold fupd. intros H. apply Nat.eqb_neq in H. now rewrite H. Qed.
Lemma lst_upd_line_same c l g : lst (upd_line c l g) l = g (lst c l).
Proof. unfold upd_line. cbn. apply fupd_same. Qed.
Lemma lst_upd_line_other c l g x : x <> l -> lst (upd_line c l g) x = lst c x.
Proof. unfold upd_line. cbn. apply fupd_other. Qed.
Lemma lst_upd_node c n g : lst (upd_node c n g) = lst c.
Proof. reflexivity. Qed.
Lemma nst_upd_line c l g : nst (upd_line c l g) = nst c.
Proof. reflexivity. Qed.
Lemma lines_upd_line c l g : lines (upd_line c l g) = lines c.
Proof. reflexivity. Qed.
Lemma lst_with_lines c v : lst (with_lines c v) = lst c.
Proof. reflexivity. Qed.
Lemma nst_with_lines c v : nst (with_lines c v) = nst c.
Proof. reflexivity. Qed.
Lemma lines_with_lines c v : lines (with_lines c v) = v.
Proof. reflexivity. Qed.
Lemma py_idx_len_append {A} (l : list A) x : py_idx (py_len (py_append l x) - 1) = Some (List.length l).
Proof.
  unfold py_len, py_append. rewrite app_length. simpl List.length.
  replace (Z.of_nat (List.length l + 1) - 1)%Z with (Z.of_nat (List.length l)) by lia. apply py_idx_nat.
Qed.
Lemma length_append_pred {A} (l : list A) x : List.length (l ++ [x]) - 1 = List.length l.
Proof. rewrite app_length. simpl. lia. Qed.
#[local] Hint Rewrite @fupd_same lst_upd_line_same lst_upd_node nst_upd_line lines_upd_line lst_with_lines nst_with_lines
  lines_with_lines @py_idx_len_append @length_append_pred py_idx_nat growing_setitem_src_eq growing_free_index_src_eq : csrc.

Ltac src_step :=
  repeat first [ progress autorewrite with csrc
               | progress cbn [lst nst lines nodes io cells forks nnext lnext fst snd]
               | progress rec_simpl
               | progress cbv iota ].

Theorem line_init_src_eq c d dp r rp :
  oceq_id (Line_init_src c (pin_arg d dp) (pin_arg r rp)) (Some (add_line c d dp r rp)).
Proof.
  unfold Line_init_src, new_line, pin_arg, add_line, outs_of, ins_of. cbv beta zeta iota.
  unfold set_l_circuit, set_l_index, set_l_driver, set_l_driver_pin, set_l_reader, set_l_reader_pin, set_n_outs, set_n_ins.
  destruct dp as [dp|], rp as [rp|]; src_step.
  all: (split; [|reflexivity]).
  all: unfold ceq; repeat split; try reflexivity.
  all: try (intros x; unfold upd_node;
            repeat first [ progress autorewrite with csrc | progress cbn [nst with_nst] ]; reflexivity).
  all: intros x; rewrite !lst_upd_node; destruct (Nat.eq_dec x (lnext c)) as [->|Hne];
       [ src_step; reflexivity
       | rewrite !lst_upd_line_other by assumption; rewrite lst_with_lines; rewrite !lst_upd_line_other by assumption;
         cbn [lst]; rewrite !fupd_other by assumption; reflexivity ].
Qed.

(* ------------------------------------------------------------------------------------------ *)
(** * summary (C09_prims_source_is_model) *)

Theorem prims_source_is_model :
  (forall l i v, GrowingList_setitem_src l (Z.of_nat i) v = Some (gset l i v)) /\
  (forall l, GrowingList_free_index_src l = Some (Z.of_nat (free_index l))) /\
  (forall c i, IndexList_delitem_nodes_src c (Z.of_nat i) = del_node_at c i) /\
  (forall c i, IndexList_delitem_lines_src c (Z.of_nat i) = del_line_at c i) /\
  (Node_init_default_kind = FORK /\
   forall c name kind, oceq_id (Node_init_src c name kind) (add_node c name kind)) /\
  (forall c n, Node_remove_src c n = node_remove c n) /\
  (forall c d dp r rp, oceq_id (Line_init_src c (pin_arg d dp) (pin_arg r rp)) (Some (add_line c d dp r rp))) /\
  (forall c l, oceq (Line_remove_src c l) (line_remove c l)).
Proof.
  split; [exact growing_setitem_src_eq|]. split; [exact growing_free_index_src_eq|].
  split; [exact indexlist_delitem_nodes_src_eq|]. split; [exact indexlist_delitem_lines_src_eq|].
  split; [split; [exact node_init_default_kind_eq | exact node_init_src_eq]|].
  split; [exact node_remove_src_eq|]. split; [exact line_init_src_eq | exact line_remove_src_eq].
Qed.
