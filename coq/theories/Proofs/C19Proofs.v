(** C19: pins and datasheet functions of all built-in library cells (finite, exhaustive). *)
From Coq Require Import List NArith Bool Arith String.
From KV Require Import Model.Prims Model.TechCell Model.TechlibSpec Gen.TechLibs.
Import ListNotations.
Local Open Scope list_scope.

Definition lib_struct_ok (cells : list tcell) : bool :=
  forallb cell_struct_ok cells && nodup_str (flat_map t_names cells).
Definition lib_fn_ok (lib : string) (cells : list tcell) : bool :=
  forallb (fun c => forallb (cell_fn_ok lib c) (t_names c)) cells.
Definition lib_ok (lc : string * list tcell) : bool := lib_struct_ok (snd lc) && lib_fn_ok (fst lc) (snd lc).
Lemma all_ok_true : forallb lib_ok all_libs = true.
Proof. vm_compute. reflexivity. Qed.
Lemma all_ok_forall : forall lc, In lc all_libs -> lib_ok lc = true.
Proof. exact (proj1 (forallb_forall lib_ok all_libs) all_ok_true). Qed.

Lemma nodup_str_sound l : nodup_str l = true -> NoDup l.
Proof.
  induction l as [|x r IH]; intro H; [constructor|].
  cbn [nodup_str] in H. apply andb_true_iff in H. destruct H as [H1 H2].
  constructor; [|apply IH; exact H2].
  intro Hin. apply negb_true_iff in H1.
  assert (E : existsb (String.eqb x) r = true) by (apply existsb_exists; exists x; split; [exact Hin | apply String.eqb_refl]).
  congruence.
Qed.

Section Facts.
  Variables (lib : string) (cells : list tcell) (c : tcell).
  Hypothesis Hlib : In (lib, cells) all_libs.
  Hypothesis Hc : In c cells.

  Lemma lib_facts : lib_struct_ok cells = true /\ lib_fn_ok lib cells = true.
  Proof.
    pose proof (all_ok_forall _ Hlib) as H. unfold lib_ok in H. cbn [fst snd] in H. apply andb_true_iff in H. exact H.
  Qed.

  (* every pin listed exactly once; every name expands; every output defined; operands defined *)
  Theorem pins_once : NoDup (t_ins c ++ t_outs c) /\ t_names c <> [] /\
    (forall o, In o (t_outs c) -> exists k a, find_gate (t_gates c) o = Some (k, a)).
  Proof.
    destruct lib_facts as [Hs _]. unfold lib_struct_ok in Hs. apply andb_true_iff in Hs. destruct Hs as [Hs _].
    rewrite forallb_forall in Hs. specialize (Hs _ Hc). unfold cell_struct_ok in Hs.
    repeat (apply andb_true_iff in Hs; destruct Hs as [Hs ?]).
    split; [apply nodup_str_sound; exact Hs|]. split.
    - intro E. rewrite E in *. discriminate.
    - intros o Ho.
      match goal with Hx : forallb (fun o0 => existsb _ (t_gates c)) (t_outs c) = true |- _ =>
        rewrite forallb_forall in Hx; specialize (Hx _ Ho); apply existsb_exists in Hx; destruct Hx as [[[o' k] a] [Hin Heq]] end.
      cbn [fst] in Heq. apply String.eqb_eq in Heq. subst o'.
      clear - Hin. induction (t_gates c) as [|[[o2 k2] a2] r IH]; [destruct Hin|].
      cbn [find_gate]. destruct (String.eqb o2 o) eqn:E; [eexists; eexists; reflexivity|].
      destruct Hin as [Hin|Hin]; [inversion Hin; subst; rewrite String.eqb_refl in E; discriminate | apply IH; exact Hin].
  Qed.

  (* no name is defined twice within a library *)
  Theorem names_unique : NoDup (flat_map t_names cells).
  Proof.
    destruct lib_facts as [Hs _]. unfold lib_struct_ok in Hs. apply andb_true_iff in Hs. destruct Hs as [_ Hs].
    apply nodup_str_sound. exact Hs.
  Qed.

  (* datasheet function: for every name of a purely combinational cell that belongs to a family, all input rows *)
  Theorem cell_function name f : In name (t_names c) -> cell_is_seq c = false -> family_of lib name = Some f ->
    List.length (t_ins c) = n_inputs f /\
    forall row, List.length row = List.length (t_ins c) -> forall o, In o (t_outs c) ->
      exists v, eval_out c row o = Some v /\ family_fn lib f row o (List.length (t_outs c)) = Some v.
  Proof.
    intros Hn Hseq Hf. destruct lib_facts as [_ Hfn]. unfold lib_fn_ok in Hfn.
    rewrite forallb_forall in Hfn. specialize (Hfn _ Hc). rewrite forallb_forall in Hfn. specialize (Hfn _ Hn).
    unfold cell_fn_ok in Hfn. rewrite Hseq, Hf in Hfn. apply andb_true_iff in Hfn. destruct Hfn as [Hlen Hrows].
    split; [apply Nat.eqb_eq; exact Hlen|].
    intros row Hrow o Ho. rewrite forallb_forall in Hrows.
    assert (Hin : In row (rows (List.length (t_ins c)))).
    { rewrite <- Hrow. clear. induction row as [|b r IH]; [left; reflexivity|].
      cbn [List.length rows]. apply in_flat_map. exists r. split; [exact IH|]. destruct b; cbn; tauto. }
    specialize (Hrows _ Hin). rewrite forallb_forall in Hrows. specialize (Hrows _ Ho).
    unfold opt_bool_eqb in Hrows.
    destruct (eval_out c row o) as [x|]; [|discriminate].
    destruct (family_fn lib f row o (List.length (t_outs c))) as [y|]; [|discriminate].
    apply eqb_prop in Hrows. subst. exists y. split; reflexivity.
  Qed.
End Facts.
