(** C13 / C03 under strip_forks: what the accumulation buffer of the STRIPPED run holds, in terms of the UNSTRIPPED line-level
    waveforms.  Proofs/WaveSimGlue.v [wavesim_model_alias] characterises w_abuf only as the alias run [wacc_alias] of the stripped
    schedule.  Here:
      A1 [wacc_alias_counts_final]   in a single-assignment alias run every op reads its operands as they are AT THE END, so the
                                     accumulation is a sum over the ops of the counts computed from the final environment;
      A2 [strip_operands]            under the hypotheses of Proofs/WaveStrip.v the final stripped environment holds, at the stem
                                     of every operand, the UNSTRIPPED waveform of that operand;
      A3 [wavesim_model_activity_strip]  w_abuf of the compared model with strip_forks = the accumulation, over the ops the
                                     stripped schedule KEEPS, of the transition counts of each op evaluated on the unstripped line
                                     waveforms = weighted edges of the unstripped waveform of the op's output line.  The fork ops
                                     are not in the stripped schedule: an a_ctrl row attached to a fork BRANCH line is attached to
                                     no op and accumulates nothing ([strip_branch_row_lost]: witness). *)
From Coq Require Import List ZArith NArith Bool Arith Lia String.
From KV Require Import Model.Prims Model.Netlist Model.NetlistWf Model.Heap Model.SimOps Model.AllocCheck Model.SimOpsCert Model.NetlistSem
     Model.NetlistSemGen Model.CycleSem Model.Time Model.WaveEval Model.WaveSpec Model.WaveOps Model.CaptureSpec Model.WaveAcc Model.WaveStripModel
     Model.WaveGlue Model.WaveSimModel Gen.SimTables
     Proofs.TopoProofs Proofs.WaveCore Proofs.WaveEquiv Proofs.WaveCircuit Proofs.WaveCircuit2 Proofs.WaveAccProofs Proofs.WaveStrip
     Proofs.SemProofs Proofs.SemCompose Proofs.SemGen Proofs.EndToEnd Proofs.ReuseProofs Proofs.ReuseStrip Proofs.WfCheck Proofs.CycleProofs
     Proofs.OptionsCheck Proofs.LogicSimGlue Proofs.WaveRegion Proofs.WaveSimGlue.
Import List.
Import ListNotations.
Local Open Scope list_scope.

(* ------------------------------------------------------------------ *)
(** * A1: accumulation of a single-assignment alias run, from the final environment *)

Section AccCnt.
  Variable actrl : list (Z * Z * Z).
  (** ops i, i+1, ...: op k adds the weighted counts [cnt o] to its accumulator *)
  Fixpoint acc_cnt (i : nat) (ops : list sop) (cnt : sop -> nat * nat) (ab : list Z) : list Z :=
    match ops with
    | [] => ab
    | o :: r => acc_cnt (S i) r cnt (acc_add actrl ab i (cnt o))
    end.

  Lemma acc_cnt_ext cnt cnt' : forall ops i ab, (forall o, In o ops -> cnt o = cnt' o) -> acc_cnt i ops cnt ab = acc_cnt i ops cnt' ab.
  Proof.
    induction ops as [|o r IH]; intros i ab H; [reflexivity|]. cbn [acc_cnt]. rewrite (H o (or_introl eq_refl)).
    apply IH. intros o' Ho'. apply H. right. exact Ho'.
  Qed.

  Lemma acc_cnt_length cnt : forall ops i ab, length (acc_cnt i ops cnt ab) = length ab.
  Proof. induction ops as [|o r IH]; intros i ab; [reflexivity|]. cbn [acc_cnt]. rewrite IH. apply acc_add_length. Qed.

  (** per accumulator: the start value plus the weighted counts of all ops *)
  Lemma acc_cnt_nth cnt : forall ops i ab a, a < length ab ->
    nth a (acc_cnt i ops cnt ab) 0%Z
    = (nth a ab 0 + zsum (map (fun io : nat * sop => weight actrl (fst io) a (cnt (snd io))) (combine (seq i (length ops)) ops)))%Z.
  Proof.
    induction ops as [|o r IH]; intros i ab a Ha; [cbn; lia|].
    cbn [acc_cnt length seq combine map zsum fold_right fst snd].
    rewrite IH by (rewrite acc_add_length; exact Ha). rewrite nth_acc_add by exact Ha. unfold zsum. lia.
  Qed.
End AccCnt.

Section AliasFinal.
  Variable delays : nat -> dtab.
  Variable cap : nat -> nat.
  Variable actrl : list (Z * Z * Z).
  Variable al : nat -> nat.

  Lemma wexec_alias_notin : forall ops (e : wenv) k, ~ In k (map s_out ops) -> wexec_alias delays cap al ops e k = e k.
  Proof. intros ops e k H. rewrite wexec_alias_gexec. apply gexec_notin. exact H. Qed.

  (** single assignment through the alias: no op reads its own output, nor an index that a later op writes *)
  Definition reads_final (ops : list sop) : Prop :=
    forall pre o post, ops = pre ++ o :: post ->
      forall x, In x [s_i0 o; s_i1 o; s_i2 o; s_i3 o] -> al x <> s_out o /\ ~ In (al x) (map s_out post).

  Lemma reads_final_tl o r : reads_final (o :: r) -> reads_final r.
  Proof. intros H pre o' post E. apply (H (o :: pre) o' post). rewrite E. reflexivity. Qed.

  Theorem wacc_alias_counts_final : forall ops i (e : wenv) ab, reads_final ops ->
    snd (wacc_alias_from delays cap actrl al i ops e ab)
    = acc_cnt actrl i ops (wop_alias_counts delays cap al (wexec_alias delays cap al ops e)) ab.
  Proof.
    induction ops as [|o r IH]; intros i e ab H; [reflexivity|].
    cbn [wacc_alias_from acc_cnt]. rewrite (IH (S i) _ _ (reads_final_tl o r H)).
    change (wexec_alias delays cap al (o :: r) e) with (wexec_alias delays cap al r (wstep_alias delays cap al e o)).
    set (EF := wexec_alias delays cap al r (wstep_alias delays cap al e o)).
    assert (R : forall x, In x [s_i0 o; s_i1 o; s_i2 o; s_i3 o] -> EF (al x) = e (al x)).
    { intros x Hx. destruct (H [] o r eq_refl x Hx) as [N1 N2]. unfold EF. rewrite wexec_alias_notin by exact N2.
      unfold wstep_alias, wupd. destruct (Nat.eqb (al x) (s_out o)) eqn:E; [apply Nat.eqb_eq in E; contradiction|reflexivity]. }
    assert (C : wop_alias_counts delays cap al EF o = wop_alias_counts delays cap al e o).
    { unfold wop_alias_counts. rewrite !R by (cbn [In]; tauto). reflexivity. }
    rewrite C. reflexivity.
  Qed.
End AliasFinal.

(* ------------------------------------------------------------------ *)
(** * A2 / A3: the stripped run of every build result *)

Section StripActivity.
  Variable c : netlist.
  Variable caps : list N.
  Variable delays : list dtab.
  Variable actrl : list (Z * Z * Z).
  Variable s : list (bool * time * bool).
  Variable extra : list (nat * list time).
  Notation nl := (length (c_lines c)).
  Let dl := dl_of delays.
  Let cp := lcap nl caps.
  Let e0 := wenv0 c s extra.
  Let opsU := build_ops c false.
  Let opsS := build_ops c true.
  Let eu := wexec dl cp opsU e0.
  Hypothesis WF : wf_netlist c.
  Hypothesis AC : comb_acyclic c.
  Hypothesis GK : gates_known c.
  Hypothesis FO : forks_ok c.
  Hypothesis FS : forks_single c.
  Hypothesis HI : wave_inputs_ok c dl (stim_wave s extra).
  Hypothesis SS : strip_side c dl cp eu.
  Variable stems : list Z.
  Hypothesis Hst : build_stems c true (std_len c) = Some stems.
  Notation al := (stemmed stems).
  Let EF := wexec_alias dl cp al opsS e0.

  Let Hlen : nl <= std_len c. Proof. unfold std_len. lia. Qed.
  Let Hd : good_delays dl. Proof. apply HI. Qed.
  Let Hc : good_caps cp. Proof. apply good_caps_lcap. Qed.
  Let Hw0 : forall j, wf_wave (e0 j). Proof. apply wenv0_wf. apply HI. Qed.
  Lemma eu_wf_all k : wf_wave (eu k).
  Proof. apply (wave_circuit_settles dl cp opsU e0 Hd Hc Hw0 k). Qed.

  (** A2: the final stripped environment at the stem of any operand = the unstripped waveform of the operand *)
  Lemma strip_operands pre o post x : opsS = pre ++ o :: post -> In x [s_i0 o; s_i1 o; s_i2 o; s_i3 o] -> EF (al x) = eu x.
  Proof.
    intros E Hx. destruct (core_t c WF AC (std_len c) stems Hlen Hst pre o post E) as [_ H2].
    destruct (H2 x Hx) as (N1 & _ & _).
    destruct (Nat.lt_ge_cases x nl) as [Hl|Hl].
    - destruct HI as (_ & Hdz & Hwf). destruct GK as (G1 & G2 & G3).
      unfold EF, eu, e0, opsS, opsU, wenv0.
      apply (wave_strip_forks_irrelevant dl cp c (stim_wave s extra) (std_len c) stems Hd Hc Hwf (stim_wave_normal s extra) Hdz WF AC
               Hlen Hst (fun n Hn Hi Hf => proj1 (FO n Hn Hi Hf)) G1 G2 G3 FS SS x Hl).
    - rewrite (alias_ge c WF (std_len c) stems Hlen Hst x Hl) in *.
      transitivity (init_env wzero c (stim_wave s extra) x).
      + apply (gE_unwritten (wsem dl cp) wzero c (stim_wave s extra) stems x).
        intros o' Ho' Eo. destruct (gouts_t c WF o' Ho'); lia.
      + symmetry. apply (gv_unwritten (wsem dl cp) wzero c (stim_wave s extra) WF x Hl N1).
  Qed.

  Lemma strip_reads_final : reads_final al opsS.
  Proof.
    intros pre o post E x Hx. destruct (core_t c WF AC (std_len c) stems Hlen Hst pre o post E) as [_ H2].
    destruct (H2 x Hx) as (_ & A & B). auto.
  Qed.

  (** the counts of a kept op in the final stripped environment are those of the op evaluated on the unstripped line waveforms *)
  Lemma strip_counts o : In o opsS -> wop_alias_counts dl cp al EF o = wop_counts dl cp eu o.
  Proof.
    intros Ho. apply in_split in Ho. destruct Ho as (pre & post & E).
    unfold wop_alias_counts, wop_counts, wop_res. cbn [map].
    rewrite !(strip_operands pre o post _ E) by (cbn [In]; tauto). reflexivity.
  Qed.

  (** a kept op that writes a line: evaluated on the unstripped waveforms it returns the unstripped waveform of that line *)
  Lemma kept_op_fixpoint o : In o opsS -> s_out o <> nl + 1 -> wop dl cp eu o = eu (s_out o).
  Proof.
    intros Ho Hs. destruct (in_build_t_inv c WF o Ho) as (m & Hm & Hom & _).
    pose proof (in_build c WF AC m o Hm Hom) as HoU.
    symmetry. exact (gop_final (wsem dl cp) wzero c (stim_wave s extra) WF o HoU Hs).
  Qed.

  Theorem wacc_alias_strip ab :
    wacc_alias dl cp actrl al opsS e0 ab = acc_cnt actrl 0 opsS (wop_counts dl cp eu) ab.
  Proof.
    unfold wacc_alias. rewrite (wacc_alias_counts_final dl cp actrl al opsS 0 e0 ab strip_reads_final).
    apply acc_cnt_ext. intros o Ho. apply strip_counts. exact Ho.
  Qed.

  (** the scratch slot (output-less gates) does not accumulate: what SimOps builds when a_ctrl has one row per line *)
  Definition scratch_off : Prop :=
    forall i o, nth_error opsS i = Some o -> s_out o = nl + 1 -> (fst (fst (actrl_at actrl i)) < 0)%Z.

  Lemma in_combine_seq_nth : forall (ops : list sop) i k o, In (k, o) (combine (seq i (length ops)) ops) -> nth_error ops (k - i) = Some o /\ i <= k.
  Proof.
    induction ops as [|o' r IH]; intros i k o H; [destruct H|]. cbn [length seq combine] in H. destruct H as [E|H].
    - inversion E; subst. rewrite Nat.sub_diag. split; [reflexivity|lia].
    - destruct (IH (S i) k o H) as [H1 H2]. split; [|lia]. replace (k - i) with (S (k - S i)) by lia. exact H1.
  Qed.

  Theorem acc_cnt_strip_final ab a : a < length ab -> scratch_off ->
    nth a (acc_cnt actrl 0 opsS (wop_counts dl cp eu) ab) 0%Z = (nth a ab 0 + wsa_final actrl 0 opsS eu a)%Z.
  Proof.
    intros Ha Hoff. rewrite acc_cnt_nth by exact Ha. f_equal. unfold wsa_final. f_equal. apply map_ext_in.
    intros [k o] Hin. cbn [fst snd]. destruct (in_combine_seq_nth opsS 0 k o Hin) as [Hn _]. rewrite Nat.sub_0_r in Hn.
    destruct (Nat.eq_dec (s_out o) (nl + 1)) as [Es|Es].
    - rewrite !weight_off by (apply (Hoff k o Hn Es)). reflexivity.
    - rewrite (wop_counts_edges dl cp Hd Hc eu o eu_wf_all), (kept_op_fixpoint o (nth_error_In _ _ Hn) Es). reflexivity.
  Qed.
End StripActivity.

(** A3 in closed form.  strip_forks = True, any c_reuse: the compared memory-level model is total and its accumulation buffer is
    (1) the accumulation, over the ops of the STRIPPED schedule (the fork ops are not among them), of the transition counts each
        op returns when evaluated on the UNSTRIPPED line-level waveforms;
    (2) if the scratch slot does not accumulate: accumulator a = the weighted rising / falling transitions of the UNSTRIPPED
        waveform of the output line of every kept op that accumulates into a. *)
Theorem wavesim_model_activity_strip c caps reuse delays actrl abuf_len s extra tcap :
  wf_netlist c -> comb_acyclic c -> gates_known c -> length (c_lines c) <= length caps -> extra_ok c extra ->
  let dl := dl_of delays in let cp := lcap (length (c_lines c)) caps in let e0 := wenv0 c s extra in
  let eu := wexec dl cp (build_ops c false) e0 in
  build_stems c true (std_len c) <> None -> forks_ok c -> forks_single c ->
  wave_inputs_ok c dl (stim_wave s extra) -> strip_side c dl cp eu ->
  exists r, wsim_case c caps reuse true delays actrl abuf_len s extra tcap = Some r /\
    w_abuf r = acc_cnt actrl 0 (build_ops c true) (wop_counts dl cp eu) (repeat 0%Z abuf_len) /\
    (scratch_off c actrl -> forall a, a < abuf_len -> nth a (w_abuf r) 0%Z = wsa_final actrl 0 (build_ops c true) eu a).
Proof.
  intros WF AC GK Hcaps Hex dl cp e0 eu Hne FO FS HI SS.
  pose proof (wavesim_model_alias c caps reuse true delays actrl abuf_len s extra tcap WF AC GK (fun _ => FO) Hcaps Hex) as X.
  cbv zeta in X. destruct (build_stems c true (std_len c)) as [stems|] eqn:Hst; [|congruence].
  destruct X as (r & H1 & _ & H3). exists r. split; [exact H1|].
  assert (E : w_abuf r = acc_cnt actrl 0 (build_ops c true) (wop_counts dl cp eu) (repeat 0%Z abuf_len)).
  { rewrite H3. apply (wacc_alias_strip c caps delays actrl s extra WF AC GK FO FS HI SS stems Hst). }
  split; [exact E|]. intros Hoff a Ha. rewrite E.
  pose proof (acc_cnt_strip_final c caps delays actrl s extra WF AC HI (repeat 0%Z abuf_len) a) as X.
  rewrite repeat_length, nth_repeat_any in X. apply (X Ha Hoff).
Qed.

(** the stripped schedule contains NO op that writes a branch line of a stripped fork: SimOps attaches a_ctrl[line] to the op that
    writes the line, so the a_ctrl row of such a branch is attached to no op *)
Theorem strip_branch_no_op c n ol : wf_netlist c -> n < List.length (c_nodes c) -> iface_pos c n = None -> is_fork (get_node c n) = true ->
  In ol (somes (n_outs (get_node c n))) -> forall o, In o (build_ops c true) -> s_out o <> ol.
Proof.
  intros WF Hn Hi Hf Hol o Ho Eo. apply (TopoProofs.wf_in_outs c WF n ol Hn) in Hol. destruct Hol as [Hl Hd].
  destruct (in_build_t_inv c WF o Ho) as (m & Hm & Hom & Hns).
  destruct (fops_out c WF m o Hm Hom) as [[_ H2]|H2]; [|lia].
  rewrite Eo, Hd in H2. subst m. apply Hns. auto.
Qed.

(* ------------------------------------------------------------------ *)
(** * Executable form: what a cases file evaluates per case (appended to Proofs/WaveSimGlue.v [wglue_case])
    3: (strip_forks on, inside the proved domain) accumulation over the KEPT ops of the counts on the unstripped waveforms = the
       implementation's abuf
    4: (..., scratch slot not accumulating) weighted edges of the unstripped output-line waveforms of the kept ops = abuf *)
Definition scratch_off_b (c : netlist) (actrl : list (Z * Z * Z)) : bool :=
  forallb (fun io : nat * sop => negb (Nat.eqb (s_out (snd io)) (length (c_lines c) + 1)) || (fst (fst (actrl_at actrl (fst io))) <? 0)%Z)
          (combine (seq 0 (length (build_ops c true))) (build_ops c true)).

Lemma nth_error_in_combine_seq : forall (ops : list sop) i k o, nth_error ops k = Some o -> In (i + k, o) (combine (seq i (length ops)) ops).
Proof.
  induction ops as [|o' r IH]; intros i k o H; [destruct k; discriminate|]. cbn [length seq combine]. destruct k as [|k].
  - injection H as <-. left. f_equal. lia.
  - right. replace (i + S k) with (S i + k) by lia. apply IH. exact H.
Qed.

Lemma scratch_off_b_sound c actrl : scratch_off_b c actrl = true -> scratch_off c actrl.
Proof.
  unfold scratch_off_b, scratch_off. rewrite forallb_forall. intros H i o Hn Hs.
  specialize (H (i, o) (nth_error_in_combine_seq _ 0 i o Hn)). cbn [fst snd] in H. rewrite Hs, Nat.eqb_refl in H. cbn [negb orb] in H.
  apply Z.ltb_lt. exact H.
Qed.

Definition wglue_case_strip (c : netlist) (caps : list N) (strip : bool) (delays : list dtab) (actrl : list (Z * Z * Z)) (abuf_len : nat)
           (s : list (bool * time * bool)) (extra : list (nat * list time)) (tcap : time)
           (exp_capt : list (option (bool * time * time * bool * bool * bool))) (exp_abuf : list Z) : list bool :=
  let hy := wglue_hyps_b c caps strip delays s extra in
  let dl := dl_of delays in let cp := lcap (length (c_lines c)) caps in let e0 := wenv0 c s extra in
  let eu := wexec dl cp (build_ops c false) e0 in
  wglue_case c caps strip delays actrl abuf_len s extra tcap exp_capt exp_abuf ++
  [ negb hy || negb strip ||
      Corr.list_eqb Z.eqb (acc_cnt actrl 0 (build_ops c true) (wop_counts dl cp eu) (repeat 0%Z abuf_len)) exp_abuf;
    negb hy || negb strip || negb (scratch_off_b c actrl) ||
      Corr.list_eqb Z.eqb (map (wsa_final actrl 0 (build_ops c true) eu) (seq 0 abuf_len)) exp_abuf ].

(** the theorem with its hypotheses discharged by evaluation *)
Theorem wavesim_model_activity_strip_b c caps reuse delays actrl abuf_len s extra tcap :
  wglue_hyps_b c caps true delays s extra = true ->
  let dl := dl_of delays in let cp := lcap (length (c_lines c)) caps in let e0 := wenv0 c s extra in
  let eu := wexec dl cp (build_ops c false) e0 in
  exists r, wsim_case c caps reuse true delays actrl abuf_len s extra tcap = Some r /\
    w_abuf r = acc_cnt actrl 0 (build_ops c true) (wop_counts dl cp eu) (repeat 0%Z abuf_len) /\
    (scratch_off_b c actrl = true -> forall a, a < abuf_len -> nth a (w_abuf r) 0%Z = wsa_final actrl 0 (build_ops c true) eu a).
Proof.
  intros H. destruct (wglue_hyps_b_sound c caps true delays s extra H) as (WF & AC & GK & Hc & Hex & HS).
  destruct (HS eq_refl) as (F1 & F2 & F3 & F4 & F5). cbv zeta.
  destruct (wavesim_model_activity_strip c caps reuse delays actrl abuf_len s extra tcap WF AC GK Hc Hex F1 F2 F3 F4 F5) as (r & R1 & R2 & R3).
  exists r. split; [exact R1|]. split; [exact R2|]. intros Hb. apply R3. apply scratch_off_b_sound. exact Hb.
Qed.

(* ------------------------------------------------------------------ *)
(** * Instance: the hypotheses hold on the netlist of WaveStrip.StripWaveExample; the a_ctrl row of a fork branch is lost *)

Module StripAccExample.
  Import StripWaveExample WaveGlueExample.
  (** per-LINE accumulation table as a user writes it: line 1 (the stem) -> accumulator 0, line 2 (a fork BRANCH) -> accumulator 1,
      line 4 (the and-gate) -> accumulator 2; rise weight 1, fall weight 1 *)
  Definition aline (l : nat) : Z * Z * Z :=
    match l with 1 => (0, 1, 1)%Z | 2 => (1, 1, 1)%Z | 4 => (2, 1, 1)%Z | _ => (-1, 0, 0)%Z end.
  (** SimOps attaches to every op the row of its output line *)
  Definition actrl_of (ops : list sop) : list (Z * Z * Z) := map (fun o => aline (s_out o)) ops.

  Example cxw_strip_hyps :
    wf_netlist cxw /\ comb_acyclic cxw /\ gates_known cxw /\ length (c_lines cxw) <= length (repeat 8%N 6) /\ extra_ok cxw ex /\
    build_stems cxw true (std_len cxw) <> None /\ forks_ok cxw /\ forks_single cxw /\
    wave_inputs_ok cxw (dl_of dls) (stim_wave ss ex) /\
    strip_side cxw (dl_of dls) (lcap 6 (repeat 8%N 6)) (wexec (dl_of dls) (lcap 6 (repeat 8%N 6)) (build_ops cxw false) (wenv0 cxw ss ex)) /\
    scratch_off cxw (actrl_of (build_ops cxw true)).
  Proof.
    destruct (wglue_hyps_b_sound cxw (repeat 8%N 6) true dls ss ex (cxw_hyps true)) as (A & B & C & D & E & F).
    destruct (F eq_refl) as (F1 & F2 & F3 & F4 & F5). repeat (split; [assumption|]).
    intros i o Hn Hs. exfalso.
    assert (Hall : forallb (fun o => negb (Nat.eqb (s_out o) 7)) (build_ops cxw true) = true) by (vm_compute; reflexivity).
    rewrite forallb_forall in Hall. specialize (Hall o (nth_error_In _ _ Hn)). change (length (c_lines cxw) + 1) with 7 in Hs.
    rewrite Hs in Hall. discriminate Hall.
  Qed.

  (** unstripped: the branch accumulator (1) counts the three transitions of the branch waveform; stripped: it stays 0, the
      stem accumulator (0) and the gate accumulator (2) are the same in both runs *)
  Example strip_branch_row_lost :
    option_map w_abuf (wsim_case cxw (repeat 8%N 6) false false dls (actrl_of (build_ops cxw false)) 3 ss ex (Fin 30)) = Some [3; 3; 3]%Z /\
    option_map w_abuf (wsim_case cxw (repeat 8%N 6) false true dls (actrl_of (build_ops cxw true)) 3 ss ex (Fin 30)) = Some [3; 0; 3]%Z /\
    map (wsa_final (actrl_of (build_ops cxw true)) 0 (build_ops cxw true)
           (wexec (dl_of dls) (lcap 6 (repeat 8%N 6)) (build_ops cxw false) (wenv0 cxw ss ex))) [0; 1; 2] = [3; 0; 3]%Z.
  Proof. vm_compute. repeat split; reflexivity. Qed.
End StripAccExample.

Print Assumptions wavesim_model_activity_strip.
Print Assumptions wavesim_model_activity_strip_b.
Print Assumptions StripAccExample.cxw_strip_hyps.
