(** C12 / C15 on the shape-polymorphic array model: mv_to_bp / bp_to_mv of Model/MvWrappers.v at any rank are
    lossless (round trip = zero padding of the pattern axis to a multiple of eight) and follow the axis convention
    (plane k = bit k of the code, pattern j = bit (j mod 8) of byte (j / 8)); swap_last2 is validated against the
    multi-index reading out[l, j, i] = in[l, i, j]. *)
From Coq Require Import List Arith Bool Lia.
From KV Require Import Model.Encodings Model.NdArray Model.MvWrappers Proofs.EncodingsBits Proofs.EncodingsBp.
Import ListNotations. Local Open Scope list_scope.

Definition codes_lt (n : nat) (l : list nat) : Prop := Forall (fun v => v < n) l.

(** * lists: firstn / skipn / nth *)
Lemma nth_firstn_lt {A} (d : A) n : forall j l, j < n -> nth j (firstn n l) d = nth j l d.
Proof.
  induction n as [|n IH]; intros j l Hj; [lia|].
  destruct l as [|x l]; [reflexivity|]. destruct j as [|j]; [reflexivity|].
  cbn [firstn nth]. apply IH. lia.
Qed.

Lemma nth_skipn_add {A} (d : A) m : forall j l, nth j (skipn m l) d = nth (m + j) l d.
Proof.
  induction m as [|m IH]; intros j l; [reflexivity|].
  destruct l as [|x l]; [destruct j; reflexivity|]. cbn [skipn Nat.add nth]. apply IH.
Qed.

Lemma skipn_add {A} m : forall k (l : list A), skipn (m + k) l = skipn k (skipn m l).
Proof.
  induction m as [|m IH]; intros k l; [reflexivity|].
  destruct l as [|x l]; [cbn [Nat.add skipn]; destruct k; reflexivity|]. cbn [Nat.add skipn]. apply IH.
Qed.

Lemma Forall_firstn {A} (P : A -> Prop) n : forall l, Forall P l -> Forall P (firstn n l).
Proof.
  induction n as [|n IH]; intros l H; [constructor|].
  destruct H as [|x l Hx Hl]; [constructor|]. cbn [firstn]. constructor; [exact Hx | apply IH; exact Hl].
Qed.

Lemma Forall_skipn {A} (P : A -> Prop) n : forall l, Forall P l -> Forall P (skipn n l).
Proof.
  induction n as [|n IH]; intros l H; [exact H|].
  destruct H as [|x l Hx Hl]; [constructor|]. cbn [skipn]. apply IH; exact Hl.
Qed.

(** * lists: flat_map / concat *)
Lemma flat_map_ext_in {A B} (f g : A -> list B) l : (forall x, In x l -> f x = g x) -> flat_map f l = flat_map g l.
Proof.
  induction l as [|x l IH]; intros H; [reflexivity|]. cbn [flat_map].
  rewrite (H x) by (left; reflexivity). f_equal. apply IH. intros y Hy. apply H. right. exact Hy.
Qed.

Lemma flat_map_concat {A B} (f : A -> list B) (l : list (list A)) : flat_map f (concat l) = flat_map (flat_map f) l.
Proof.
  induction l as [|x l IH]; [reflexivity|]. cbn [concat flat_map]. rewrite flat_map_app, IH. reflexivity.
Qed.

Lemma flat_map_flat_map {A B C} (f : B -> list C) (g : A -> list B) l :
  flat_map f (flat_map g l) = flat_map (fun x => flat_map f (g x)) l.
Proof.
  induction l as [|x l IH]; [reflexivity|]. cbn [flat_map]. rewrite flat_map_app, IH. reflexivity.
Qed.

Lemma concat_flat_map {A B} (g : A -> list (list B)) l : concat (flat_map g l) = flat_map (fun x => concat (g x)) l.
Proof.
  induction l as [|x l IH]; [reflexivity|]. cbn [flat_map]. rewrite concat_app, IH. reflexivity.
Qed.

Lemma map_flat_map {A B C} (h : B -> C) (g : A -> list B) l : map h (flat_map g l) = flat_map (fun x => map h (g x)) l.
Proof.
  induction l as [|x l IH]; [reflexivity|]. cbn [flat_map]. rewrite map_app, IH. reflexivity.
Qed.

Lemma flat_map_id_concat {A} (l : list (list A)) : flat_map (fun x => x) l = concat l.
Proof. induction l as [|x l IH]; [reflexivity|]. cbn [flat_map concat]. rewrite IH. reflexivity. Qed.

Lemma flat_map_length_const {A B} (f : A -> list B) c l :
  (forall x, In x l -> List.length (f x) = c) -> List.length (flat_map f l) = List.length l * c.
Proof.
  induction l as [|x l IH]; intros H; [reflexivity|]. cbn [flat_map List.length].
  rewrite app_length, (H x) by (left; reflexivity). rewrite IH by (intros y Hy; apply H; right; exact Hy). lia.
Qed.

Lemma concat_length_const {A} c (M : list (list A)) :
  Forall (fun r => List.length r = c) M -> List.length (concat M) = List.length M * c.
Proof.
  intros H. rewrite <- flat_map_id_concat. apply flat_map_length_const. intros x Hx.
  rewrite Forall_forall in H. apply H. exact Hx.
Qed.

(** element (r, q) of a list made of blocks of constant length *)
Lemma nth_flat_map_block {A B} (f : A -> list B) c (d0 : A) (d : B) l :
  (forall x, In x l -> List.length (f x) = c) ->
  forall r q, r < List.length l -> q < c -> nth (r * c + q) (flat_map f l) d = nth q (f (nth r l d0)) d.
Proof.
  induction l as [|x l IH]; intros H r q Hr Hq; [cbn [List.length] in Hr; lia|].
  cbn [flat_map]. assert (List.length (f x) = c) as Lx by (apply H; left; reflexivity).
  destruct r as [|r].
  - cbn [nth Nat.mul Nat.add]. apply app_nth1. lia.
  - rewrite app_nth2 by (rewrite Lx; lia). rewrite Lx.
    replace (S r * c + q - c) with (r * c + q) by lia. cbn [nth].
    apply IH; [intros y Hy; apply H; right; exact Hy | cbn [List.length] in Hr; lia | exact Hq].
Qed.

(** * rows *)
Lemma rows_length n c l : List.length (rows n c l) = c.
Proof. unfold rows. rewrite map_length, seq_length. reflexivity. Qed.

Lemma row_of_nth n l r j d : j < n -> nth j (row_of n l r) d = nth (r * n + j) l d.
Proof. intros Hj. unfold row_of. rewrite nth_firstn_lt by exact Hj. apply nth_skipn_add. Qed.

Lemma row_of_length n l r : (r + 1) * n <= List.length l -> List.length (row_of n l r) = n.
Proof. intros H. unfold row_of. rewrite firstn_length, skipn_length. lia. Qed.

Lemma rows_nth n c l r : r < c -> nth r (rows n c l) [] = row_of n l r.
Proof.
  intros Hr. unfold rows. rewrite (nth_map_lt (row_of n l) (seq 0 c) 0 [] r) by (rewrite seq_length; exact Hr).
  rewrite seq_nth by exact Hr. reflexivity.
Qed.

Lemma rows_lengths n c l : List.length l = n * c -> Forall (fun r => List.length r = n) (rows n c l).
Proof.
  intros H. unfold rows. apply Forall_forall. intros x Hx. apply in_map_iff in Hx. destruct Hx as [r [<- Hr]].
  apply in_seq in Hr. apply row_of_length. rewrite H, (Nat.mul_comm n c). apply Nat.mul_le_mono_r. lia.
Qed.

Lemma rows_Forall (P : nat -> Prop) n c l : Forall P l -> Forall (Forall P) (rows n c l).
Proof.
  intros H. unfold rows. apply Forall_forall. intros x Hx. apply in_map_iff in Hx. destruct Hx as [r [<- _]].
  unfold row_of. apply Forall_firstn. apply Forall_skipn. exact H.
Qed.

Lemma row_of_succ_app n r0 rest r : List.length r0 = n -> row_of n (r0 ++ rest) (S r) = row_of n rest r.
Proof.
  intros L. unfold row_of. replace (S r * n) with (n + r * n) by lia. rewrite skipn_add.
  rewrite skipn_app, L, Nat.sub_diag, (@skipn_all2 _ n r0) by lia. reflexivity.
Qed.

Lemma rows_concat n (M : list (list nat)) :
  Forall (fun r => List.length r = n) M -> rows n (List.length M) (concat M) = M.
Proof.
  induction 1 as [|r0 M L0 HM IH]; [reflexivity|].
  unfold rows in *. cbn [List.length seq map concat]. f_equal.
  - unfold row_of. cbn [Nat.mul skipn]. rewrite firstn_app, L0, Nat.sub_diag, firstn_all2 by lia.
    cbn [firstn]. apply app_nil_r.
  - rewrite <- seq_shift, map_map. rewrite <- IH at 2. apply map_ext. intros r. apply row_of_succ_app. exact L0.
Qed.

Lemma rows_flat_map {A} (f : A -> list nat) n l :
  (forall x, In x l -> List.length (f x) = n) -> rows n (List.length l) (flat_map f l) = map f l.
Proof.
  intros H. rewrite flat_map_concat_map. rewrite <- (map_length f l). apply rows_concat.
  apply Forall_forall. intros r Hr. apply in_map_iff in Hr. destruct Hr as [x [<- Hx]]. apply H. exact Hx.
Qed.

Lemma concat_rows n c : forall l, List.length l = n * c -> concat (rows n c l) = l.
Proof.
  induction c as [|c IH]; intros l H.
  - destruct l; [reflexivity | cbn [List.length] in H; lia].
  - unfold rows in *. cbn [seq map concat]. rewrite <- seq_shift, map_map.
    transitivity (firstn n l ++ skipn n l); [|apply firstn_skipn].
    change (row_of n l 0) with (firstn n l). apply f_equal.
    rewrite <- (IH (skipn n l)) by (rewrite skipn_length; lia). f_equal. apply map_ext. intros r.
    unfold row_of. replace (S r * n) with (n + r * n) by lia. rewrite skipn_add. reflexivity.
Qed.

(** * shapes: size / ravel of appended shapes, lead / axis *)
Lemma size_app L M : size (L ++ M) = size L * size M.
Proof. induction L as [|d L IH]; cbn [app size]; [lia|]. rewrite IH. lia. Qed.

Lemma in_bounds_length L : forall l, in_bounds L l -> List.length l = List.length L.
Proof.
  induction L as [|d L IH]; intros l H; destruct l as [|i l]; cbn [in_bounds] in H; try contradiction; [reflexivity|].
  cbn [List.length]. f_equal. apply IH. apply H.
Qed.

Lemma ravel_lt L : forall l, in_bounds L l -> ravel L l < size L.
Proof.
  induction L as [|d L IH]; intros l H; destruct l as [|i l]; cbn [in_bounds] in H; try contradiction.
  - cbn [ravel size]. lia.
  - destruct H as [Hi Hl]. specialize (IH l Hl). cbn [ravel size]. nia.
Qed.

Lemma ravel_app L M : forall l m, List.length l = List.length L ->
  ravel (L ++ M) (l ++ m) = ravel L l * size M + ravel M m.
Proof.
  induction L as [|d L IH]; intros l m H; destruct l as [|i l]; cbn [List.length] in H; try discriminate.
  - reflexivity.
  - cbn [app ravel]. rewrite IH by lia. rewrite size_app. lia.
Qed.

Lemma ravel2 L a b l i j : in_bounds L l -> ravel (L ++ [a; b]) (l ++ [i; j]) = (ravel L l * a + i) * b + j.
Proof.
  intros H. rewrite ravel_app by (apply in_bounds_length; exact H). cbn [ravel size]. lia.
Qed.

Lemma ravel3 L a b c l i j k :
  in_bounds L l -> ravel (L ++ [a; b; c]) (l ++ [i; j; k]) = (ravel L l * a + i) * (b * c) + (j * c + k).
Proof.
  intros H. rewrite ravel_app by (apply in_bounds_length; exact H). cbn [ravel size]. lia.
Qed.

Lemma row_index_lt L a l i : in_bounds L l -> i < a -> ravel L l * a + i < size L * a.
Proof. intros H Hi. pose proof (ravel_lt L l H) as R. nia. Qed.

Lemma lead2_app L a b : lead 2 (L ++ [a; b]) = L.
Proof.
  unfold lead. rewrite app_length. cbn [List.length]. replace (List.length L + 2 - 2) with (List.length L) by lia.
  rewrite firstn_app, Nat.sub_diag, firstn_all. cbn [firstn]. apply app_nil_r.
Qed.
Lemma axis2_app L a b : axis 2 (L ++ [a; b]) = a.
Proof.
  unfold axis. rewrite app_length. cbn [List.length]. rewrite app_nth2 by lia.
  replace (List.length L + 2 - 2 - List.length L) with 0 by lia. reflexivity.
Qed.
Lemma axis1_app2 L a b : axis 1 (L ++ [a; b]) = b.
Proof.
  unfold axis. rewrite app_length. cbn [List.length]. rewrite app_nth2 by lia.
  replace (List.length L + 2 - 1 - List.length L) with 1 by lia. reflexivity.
Qed.
Lemma lead1_app L a : lead 1 (L ++ [a]) = L.
Proof.
  unfold lead. rewrite app_length. cbn [List.length]. replace (List.length L + 1 - 1) with (List.length L) by lia.
  rewrite firstn_app, Nat.sub_diag, firstn_all. cbn [firstn]. apply app_nil_r.
Qed.
Lemma axis1_app L a : axis 1 (L ++ [a]) = a.
Proof.
  unfold axis. rewrite app_length. cbn [List.length]. rewrite app_nth2 by lia.
  replace (List.length L + 1 - 1 - List.length L) with 0 by lia. reflexivity.
Qed.
Lemma as_1d_app L a : as_1d (L ++ [a]) = L ++ [a].
Proof. destruct L; reflexivity. Qed.
Lemma rank_lt2_app (L : shape) a b : (List.length (L ++ [a; b]) <? 2) = false.
Proof. apply Nat.ltb_ge. rewrite app_length. cbn [List.length]. lia. Qed.
Lemma app2_assoc {A} (L : list A) a b c : L ++ [a; b; c] = (L ++ [a]) ++ [b; c].
Proof. rewrite <- app_assoc. reflexivity. Qed.
Lemma app1_assoc {A} (L : list A) a b : L ++ [a; b] = (L ++ [a]) ++ [b].
Proof. rewrite <- app_assoc. reflexivity. Qed.
Lemma size_snoc L a : size (L ++ [a]) = size L * a.
Proof. rewrite size_app. cbn [size]. lia. Qed.

(** * the array primitives on data given block by block *)
(** [R] lists one item per index of the leading axes [Ld]; item [x] carries the a x b matrix [M x] *)
Definition mat_ok (a b : nat) (M : list (list nat)) : Prop := List.length M = a /\ Forall (fun r => List.length r = b) M.

Lemma swap_last2_fm {A} Ld a b (M : A -> list (list nat)) (R : list A) :
  List.length R = size Ld -> (forall x, In x R -> mat_ok a b (M x)) ->
  swap_last2 (NdA (Ld ++ [a; b]) (flat_map (fun x => concat (M x)) R)) =
  Some (NdA (Ld ++ [b; a]) (flat_map (fun x => concat (transpose b (M x))) R)).
Proof.
  intros LR HM. unfold swap_last2. cbn [nd_shape nd_data].
  rewrite rank_lt2_app, lead2_app, axis2_app, axis1_app2. f_equal. f_equal.
  rewrite <- LR. rewrite rows_flat_map.
  2:{ intros x Hx. destruct (HM x Hx) as [La Hb]. rewrite (concat_length_const b) by exact Hb. rewrite La. reflexivity. }
  rewrite flat_map_concat_map, map_map, <- flat_map_concat_map. apply flat_map_ext_in.
  intros x Hx. destruct (HM x Hx) as [La Hb]. rewrite <- La. rewrite rows_concat by exact Hb. reflexivity.
Qed.

Lemma transpose_ok a b M : List.length M = a -> mat_ok b a (transpose b M).
Proof.
  intros La. split; [apply transp_length|]. rewrite <- La. apply transp_rows.
Qed.

Lemma swap_swap_fm {A} Ld a b (M : A -> list (list nat)) (R : list A) :
  List.length R = size Ld -> (forall x, In x R -> mat_ok a b (M x)) ->
  obind (swap_last2 (NdA (Ld ++ [a; b]) (flat_map (fun x => concat (M x)) R))) swap_last2 =
  Some (NdA (Ld ++ [a; b]) (flat_map (fun x => concat (M x)) R)).
Proof.
  intros LR HM. rewrite (swap_last2_fm Ld a b M R LR HM). cbn [obind].
  rewrite (swap_last2_fm Ld b a (fun x => transpose b (M x)) R LR).
  2:{ intros x Hx. apply transpose_ok. apply (HM x Hx). }
  f_equal. f_equal. apply flat_map_ext_in. intros x Hx. destruct (HM x Hx) as [La Hb].
  f_equal. unfold transpose. rewrite <- La. apply transp_transp. exact Hb.
Qed.

Lemma packbits_last_rows Ld n (Rs : list (list nat)) :
  List.length Rs = size Ld -> Forall (fun r => List.length r = n) Rs ->
  packbits_last (NdA (Ld ++ [n]) (concat Rs)) = Some (NdA (Ld ++ [cdiv8 n]) (flat_map pack_row Rs)).
Proof.
  intros LR HR. unfold packbits_last. cbn [nd_shape nd_data]. rewrite as_1d_app, lead1_app, axis1_app.
  rewrite <- LR, rows_concat by exact HR. reflexivity.
Qed.

Lemma flat_map_mat_length {A} a (M : A -> list (list nat)) (R : list A) :
  (forall x, In x R -> List.length (M x) = a) -> List.length (flat_map M R) = List.length R * a.
Proof. apply flat_map_length_const. Qed.

Lemma flat_map_mat_rows {A} a b (M : A -> list (list nat)) (R : list A) :
  (forall x, In x R -> mat_ok a b (M x)) -> Forall (fun r => List.length r = b) (flat_map M R).
Proof.
  intros HM. apply Forall_forall. intros r Hr. apply in_flat_map in Hr. destruct Hr as [x [Hx Hr]].
  destruct (HM x Hx) as [_ Hb]. rewrite Forall_forall in Hb. apply Hb. exact Hr.
Qed.

Lemma packbits_last_fm {A} Ld a n (M : A -> list (list nat)) (R : list A) :
  List.length R = size Ld -> (forall x, In x R -> mat_ok a n (M x)) ->
  packbits_last (NdA (Ld ++ [a; n]) (flat_map (fun x => concat (M x)) R)) =
  Some (NdA (Ld ++ [a; cdiv8 n]) (flat_map (fun x => concat (map pack_row (M x))) R)).
Proof.
  intros LR HM. rewrite <- concat_flat_map. rewrite (app1_assoc Ld a n), (app1_assoc Ld a (cdiv8 n)).
  rewrite packbits_last_rows.
  - f_equal. f_equal. rewrite flat_map_flat_map. apply flat_map_ext. intros x. apply flat_map_concat_map.
  - rewrite size_snoc, <- LR. apply flat_map_mat_length. intros x Hx. apply (HM x Hx).
  - apply (flat_map_mat_rows a n). exact HM.
Qed.

Lemma unpackbits_last_app Ld n D :
  unpackbits_last (NdA (Ld ++ [n]) D) = Some (NdA (Ld ++ [8 * n]) (flat_map (bits_le 8) D)).
Proof. unfold unpackbits_last. cbn [nd_shape nd_data]. rewrite as_1d_app, lead1_app, axis1_app. reflexivity. Qed.

Lemma packbits_u8_last_rows Ld n (Rs : list (list nat)) :
  List.length Rs = size Ld -> Forall (fun r => List.length r = n) Rs ->
  packbits_u8_last (NdA (Ld ++ [n]) (concat Rs)) = Some (NdA Ld (map (fun r => of_bits_le (firstn 8 r)) Rs)).
Proof.
  intros LR HR. unfold packbits_u8_last. cbn [nd_shape nd_data].
  replace (List.length (Ld ++ [n]) <? 1) with false by (symmetry; apply Nat.ltb_ge; rewrite app_length; cbn [List.length]; lia).
  rewrite lead1_app, axis1_app. rewrite <- LR, rows_concat by exact HR. reflexivity.
Qed.

(** * one row of p codes *)
Definition pk (k : nat) (row : list nat) : list nat := np_packbits_le (plane k row).
Definition bp_mat (row : list nat) : list (list nat) := [pk 0 row; pk 1 row; pk 2 row].
Definition bp_block (row : list nat) : list nat := pk 0 row ++ pk 1 row ++ pk 2 row.

Lemma nz_b2n b : nz (Nat.b2n b) = b.
Proof. destruct b; reflexivity. Qed.
Lemma bits_le3 v : bits_le 3 v = [Nat.b2n (Nat.testbit v 0); Nat.b2n (Nat.testbit v 1); Nat.b2n (Nat.testbit v 2)].
Proof. unfold bits_le. rewrite nbits_testbit. reflexivity. Qed.
Lemma bits_le_length n v : List.length (bits_le n v) = n.
Proof. unfold bits_le. rewrite map_length. apply nbits_length. Qed.
Lemma pk_length k row : List.length (pk k row) = cdiv8 (List.length row).
Proof. unfold pk, cdiv8. rewrite packbits_length, plane_length. reflexivity. Qed.
Lemma bp_mat_ok p row : List.length row = p -> mat_ok 3 (cdiv8 p) (bp_mat row).
Proof. intros <-. split; [reflexivity|]. unfold bp_mat. repeat constructor; apply pk_length. Qed.
Lemma bp_block_concat row : concat (bp_mat row) = bp_block row.
Proof. unfold bp_mat, bp_block. cbn [concat]. rewrite app_nil_r. reflexivity. Qed.
Lemma bp_block_length p row : List.length row = p -> List.length (bp_block row) = 3 * cdiv8 p.
Proof. intros <-. unfold bp_block. rewrite !app_length, !pk_length. lia. Qed.

(** the three planes of a row, packed: plane k = bit k of every code *)
Lemma planes_row row : map pack_row (transpose 3 (map (bits_le 3) row)) = bp_mat row.
Proof.
  unfold transpose, transp. cbn [seq map]. unfold bp_mat, pk, pack_row, plane. rewrite !map_map.
  assert (forall k, k < 3 -> map (fun x => nz (nth k (bits_le 3 x) 0)) row = map (fun x => Nat.testbit x k) row) as G.
  { intros k Hk. apply map_ext. intros v. rewrite bits_le3.
    destruct k as [|[|[|k]]]; [apply nz_b2n | apply nz_b2n | apply nz_b2n | lia]. }
  rewrite !G by lia. reflexivity.
Qed.

Lemma mv_to_bp_rows L s p (R : list (list nat)) :
  List.length R = size L * s -> Forall (fun r => List.length r = p) R ->
  mv_to_bp (NdA (L ++ [s; p]) (concat R)) = Some (NdA (L ++ [s; 3; cdiv8 p]) (flat_map bp_block R)).
Proof.
  intros LR HR. rewrite Forall_forall in HR.
  assert (List.length R = size (L ++ [s])) as LR' by (rewrite size_snoc; exact LR).
  unfold mv_to_bp, rank. cbn [nd_shape nd_data].
  replace (List.length (L ++ [s; p]) =? 1) with false
    by (symmetry; apply Nat.eqb_neq; rewrite app_length; cbn [List.length]; lia).
  unfold unpack_new_axis. cbn [nd_shape nd_data].
  rewrite flat_map_concat.
  rewrite (flat_map_ext (flat_map (bits_le 3)) (fun row => concat (map (bits_le 3) row)) (flat_map_concat_map (bits_le 3))).
  replace ((L ++ [s; p]) ++ [3]) with ((L ++ [s]) ++ [p; 3]) by (rewrite <- !app_assoc; reflexivity).
  unfold packbits_axis2.
  rewrite (swap_last2_fm (L ++ [s]) p 3 (fun row => map (bits_le 3) row) R LR').
  2:{ intros x Hx. split; [rewrite map_length; apply HR; exact Hx|].
      apply Forall_forall. intros r Hr. apply in_map_iff in Hr. destruct Hr as [v [<- _]]. apply bits_le_length. }
  cbn [obind].
  rewrite (packbits_last_fm (L ++ [s]) 3 p (fun row => transpose 3 (map (bits_le 3) row)) R LR').
  2:{ intros x Hx. apply transpose_ok. rewrite map_length. apply HR. exact Hx. }
  cbn [obind].
  rewrite (flat_map_ext _ (fun row => concat (bp_mat row)) (fun row => f_equal (@concat nat) (planes_row row))).
  change (fun p0 : nd => swap_last2 p0) with swap_last2.
  rewrite (swap_swap_fm (L ++ [s]) 3 (cdiv8 p) bp_mat R LR').
  2:{ intros x Hx. apply bp_mat_ok. apply HR. exact Hx. }
  rewrite <- app2_assoc. f_equal. f_equal. apply flat_map_ext. exact bp_block_concat.
Qed.

Theorem mv_to_bp_form L s p D :
  List.length D = size (L ++ [s; p]) ->
  mv_to_bp (NdA (L ++ [s; p]) D) = Some (NdA (L ++ [s; 3; cdiv8 p]) (flat_map bp_block (rows p (size L * s) D))).
Proof.
  intros HD. assert (List.length D = p * (size L * s)) as HD' by (rewrite HD, size_app; cbn [size]; lia).
  rewrite <- (concat_rows p (size L * s) D HD') at 1.
  apply mv_to_bp_rows; [apply rows_length | apply rows_lengths; exact HD'].
Qed.

(** * back: one block of three packed planes *)
Lemma ub_eq bytes : flat_map (bits_le 8) bytes = map Nat.b2n (np_unpackbits_le bytes).
Proof. unfold np_unpackbits_le, bits_le. rewrite map_flat_map. reflexivity. Qed.
Lemma ub_length bytes : List.length (flat_map (bits_le 8) bytes) = 8 * List.length bytes.
Proof. rewrite ub_eq, map_length. apply unpackbits_le_length. Qed.
Lemma nz_nth_b2n l j : nz (nth j (map Nat.b2n l) 0) = nth j l false.
Proof. change 0 with (Nat.b2n false). rewrite map_nth. apply nz_b2n. Qed.

Definition ub_mat (row : list nat) : list (list nat) := map (flat_map (bits_le 8)) (bp_mat row).

Lemma ub_mat_ok p row : List.length row = p -> mat_ok 3 (8 * cdiv8 p) (ub_mat row).
Proof.
  intros <-. split; [reflexivity|]. unfold ub_mat, bp_mat. cbn [map].
  repeat constructor; rewrite ub_length, pk_length; reflexivity.
Qed.

Lemma ub_block row : flat_map (bits_le 8) (bp_block row) = concat (ub_mat row).
Proof. unfold bp_block, ub_mat, bp_mat. rewrite !flat_map_app. cbn [map concat]. rewrite app_nil_r. reflexivity. Qed.

Lemma row_back row :
  Forall (fun x => x < 8) row ->
  map (fun r => of_bits_le (firstn 8 r)) (transpose (8 * cdiv8 (List.length row)) (ub_mat row)) = pad8 row.
Proof.
  intros H. rewrite <- (bp_roundtrip_row row H).
  rewrite mv_to_bp_row_planes by (eapply Forall_impl; [|exact H]; cbv beta; intros; lia).
  unfold bp_to_mv_row. cbn [map hd]. rewrite unpackbits_le_length, packbits_length, plane_length.
  unfold transpose, transp, ub_mat, bp_mat, cdiv8, pk. cbn [map]. rewrite !map_map. apply map_ext. intros j.
  rewrite packbits_u8_3. cbn [firstn]. unfold of_bits_le. cbn [map]. rewrite !ub_eq, !nz_nth_b2n. reflexivity.
Qed.

Lemma bp_to_mv_rows L s p (R : list (list nat)) :
  List.length R = size L * s -> Forall (fun r => List.length r = p) R -> Forall (Forall (fun v => v < 8)) R ->
  bp_to_mv (NdA (L ++ [s; 3; cdiv8 p]) (flat_map bp_block R)) = Some (NdA (L ++ [s; 8 * cdiv8 p]) (flat_map pad8 R)).
Proof.
  intros LR HR HC. rewrite Forall_forall in HR. rewrite Forall_forall in HC.
  assert (List.length R = size (L ++ [s])) as LR' by (rewrite size_snoc; exact LR).
  unfold bp_to_mv.
  replace (L ++ [s; 3; cdiv8 p]) with ((L ++ [s; 3]) ++ [cdiv8 p]) by (rewrite <- !app_assoc; reflexivity).
  rewrite unpackbits_last_app. cbn [obind].
  rewrite flat_map_flat_map. rewrite (flat_map_ext _ (fun row => concat (ub_mat row)) ub_block).
  replace ((L ++ [s; 3]) ++ [8 * cdiv8 p]) with ((L ++ [s]) ++ [3; 8 * cdiv8 p]) by (rewrite <- !app_assoc; reflexivity).
  rewrite (swap_last2_fm (L ++ [s]) 3 (8 * cdiv8 p) ub_mat R LR').
  2:{ intros x Hx. apply ub_mat_ok. apply HR. exact Hx. }
  cbn [obind].
  rewrite <- concat_flat_map. rewrite (app1_assoc (L ++ [s]) (8 * cdiv8 p) 3).
  rewrite (packbits_u8_last_rows _ 3).
  - rewrite <- app1_assoc. f_equal. f_equal. rewrite map_flat_map. apply flat_map_ext_in. intros x Hx.
    rewrite <- (HR x Hx). apply row_back. apply HC. exact Hx.
  - rewrite size_snoc, <- LR'. apply flat_map_mat_length. intros x Hx. apply transp_length.
  - apply (flat_map_mat_rows (8 * cdiv8 p) 3). intros x Hx. apply transpose_ok. apply (ub_mat_ok p). apply HR. exact Hx.
Qed.

(** * the final theorems *)
Lemma size_app2 L s p : size (L ++ [s; p]) = p * (size L * s).
Proof. rewrite size_app. cbn [size]. lia. Qed.

Theorem roundtrip_any_rank L s p D :
  List.length D = size (L ++ [s; p]) -> codes_lt 8 D ->
  obind (mv_to_bp (NdA (L ++ [s; p]) D)) bp_to_mv =
  Some (NdA (L ++ [s; 8 * cdiv8 p]) (flat_map pad8 (rows p (size L * s) D))).
Proof.
  intros HD HC. rewrite mv_to_bp_form by exact HD. cbn [obind]. rewrite size_app2 in HD.
  apply bp_to_mv_rows; [apply rows_length | apply rows_lengths; exact HD | apply rows_Forall; exact HC].
Qed.

Lemma flat_map_singleton {A} (l : list A) : flat_map (fun v => [v]) l = l.
Proof. induction l as [|x l IH]; [reflexivity|]. cbn [flat_map app]. rewrite IH. reflexivity. Qed.

Lemma rows1 D : rows 1 (List.length D) D = map (fun v => [v]) D.
Proof.
  rewrite <- (flat_map_singleton D) at 2. apply rows_flat_map. intros x _. reflexivity.
Qed.

(** if mva.ndim == 1: mva = mva[..., np.newaxis] *)
Lemma mv_to_bp_rank1 s D : mv_to_bp (NdA [s] D) = mv_to_bp (NdA ([] ++ [s; 1]) D).
Proof. reflexivity. Qed.

Theorem roundtrip_rank1 s D : List.length D = s -> codes_lt 8 D ->
  obind (mv_to_bp (NdA [s] D)) bp_to_mv = Some (NdA [s; 8] (flat_map (fun v => v :: repeat 0 7) D)).
Proof.
  intros HD HC. rewrite mv_to_bp_rank1. rewrite roundtrip_any_rank; [|cbn [app size]; lia | exact HC].
  cbn [app size]. rewrite Nat.mul_1_l, <- HD, rows1.
  f_equal. f_equal. rewrite flat_map_concat_map, map_map, <- flat_map_concat_map. reflexivity.
Qed.

Lemma cdiv8_ge p : p <= 8 * cdiv p 8.
Proof.
  unfold cdiv. pose proof (Nat.div_mod (p + 8 - 1) 8) as E. pose proof (Nat.mod_upper_bound (p + 8 - 1) 8) as B. lia.
Qed.

Lemma pad8_length row : List.length (pad8 row) = 8 * cdiv8 (List.length row).
Proof. unfold pad8, cdiv8. rewrite app_length, repeat_length. pose proof (cdiv8_ge (List.length row)). lia. Qed.

Lemma pad8_nth row j : nth j (pad8 row) 0 = if j <? List.length row then nth j row 0 else 0.
Proof.
  unfold pad8, ZERO. destruct (Nat.ltb_spec j (List.length row)) as [Hj|Hj].
  - apply app_nth1. exact Hj.
  - apply nth_app_repeat. exact Hj.
Qed.

Lemma row_of_length_in p c D r : List.length D = p * c -> r < c -> List.length (row_of p D r) = p.
Proof. intros HD Hr. apply row_of_length. rewrite HD, (Nat.mul_comm p c). apply Nat.mul_le_mono_r. lia. Qed.

Theorem roundtrip_get L s p D l i j :
  List.length D = size (L ++ [s; p]) -> codes_lt 8 D -> in_bounds L l -> i < s -> j < 8 * cdiv8 p ->
  exists r, obind (mv_to_bp (NdA (L ++ [s; p]) D)) bp_to_mv = Some r /\ nd_shape r = L ++ [s; 8 * cdiv8 p] /\
    nd_get r (l ++ [i; j]) = if j <? p then nd_get (NdA (L ++ [s; p]) D) (l ++ [i; j]) else 0.
Proof.
  intros HD HC Hl Hi Hj. eexists. split; [apply roundtrip_any_rank; assumption|]. split; [reflexivity|].
  rewrite size_app2 in HD. pose proof (row_index_lt L s l i Hl Hi) as Hr.
  unfold nd_get. cbn [nd_shape nd_data]. rewrite !ravel2 by exact Hl.
  rewrite (nth_flat_map_block pad8 (8 * cdiv8 p) [] 0).
  - rewrite rows_nth by exact Hr. rewrite pad8_nth. rewrite (row_of_length_in p (size L * s)) by assumption.
    destruct (Nat.ltb_spec j p) as [Hjp|Hjp]; [apply row_of_nth; exact Hjp | reflexivity].
  - intros x Hx. rewrite pad8_length. pose proof (rows_lengths p (size L * s) D HD) as F.
    rewrite Forall_forall in F. rewrite (F x Hx). reflexivity.
  - rewrite rows_length. exact Hr.
  - exact Hj.
Qed.

Lemma bp_block_nth row k q :
  k < 3 -> q < cdiv8 (List.length row) -> nth (k * cdiv8 (List.length row) + q) (bp_block row) 0 = nth q (pk k row) 0.
Proof.
  intros Hk Hq. unfold bp_block. destruct k as [|[|[|k]]]; [| | |lia].
  - rewrite app_nth1 by (rewrite pk_length; lia). reflexivity.
  - rewrite app_nth2 by (rewrite pk_length; lia). rewrite app_nth1 by (rewrite !pk_length; lia).
    rewrite pk_length. f_equal. lia.
  - rewrite app_nth2 by (rewrite pk_length; lia). rewrite app_nth2 by (rewrite !pk_length; lia).
    rewrite !pk_length. f_equal. lia.
Qed.

Theorem axis_convention_any_rank L s p D l i k j :
  List.length D = size (L ++ [s; p]) -> codes_lt 256 D -> in_bounds L l -> i < s -> k < 3 -> j < 8 * cdiv8 p ->
  exists b, mv_to_bp (NdA (L ++ [s; p]) D) = Some b /\ nd_shape b = L ++ [s; 3; cdiv8 p] /\
    Nat.testbit (nd_get b (l ++ [i; k; j / 8])) (j mod 8) =
    (if j <? p then Nat.testbit (nd_get (NdA (L ++ [s; p]) D) (l ++ [i; j])) k else false).
Proof.
  intros HD _ Hl Hi Hk Hj. eexists. split; [apply mv_to_bp_form; exact HD|]. split; [reflexivity|].
  rewrite size_app2 in HD. pose proof (row_index_lt L s l i Hl Hi) as Hr.
  assert (j / 8 < cdiv8 p) as Hq by (apply Nat.div_lt_upper_bound; lia).
  pose proof (rows_lengths p (size L * s) D HD) as F. rewrite Forall_forall in F.
  unfold nd_get. cbn [nd_shape nd_data]. rewrite ravel3, ravel2 by exact Hl.
  rewrite (nth_flat_map_block bp_block (3 * cdiv8 p) [] 0).
  - rewrite rows_nth by exact Hr. set (row := row_of p D (ravel L l * s + i)).
    assert (List.length row = p) as Lrow by (apply (row_of_length_in p (size L * s)); assumption).
    rewrite <- Lrow at 1. rewrite bp_block_nth by (try rewrite Lrow; assumption).
    unfold pk. rewrite packbits_lane. unfold plane. rewrite <- Lrow at 1.
    destruct (Nat.ltb_spec j (List.length row)) as [Hjp|Hjp].
    + rewrite (nth_map_lt (fun x => Nat.testbit x k) row 0 false j) by exact Hjp. f_equal.
      unfold row. apply row_of_nth. lia.
    + apply nth_overflow. rewrite map_length. exact Hjp.
  - intros x Hx. apply bp_block_length. apply F. exact Hx.
  - rewrite rows_length. exact Hr.
  - nia.
Qed.

Theorem axis_convention_rank1 s D i k : List.length D = s -> codes_lt 256 D -> i < s -> k < 3 ->
  exists b, mv_to_bp (NdA [s] D) = Some b /\ nd_shape b = [s; 3; 1] /\
    forall t, t < 8 -> Nat.testbit (nd_get b [i; k; 0]) t = (if t =? 0 then Nat.testbit (nth i D 0) k else false).
Proof.
  intros HD HC Hi Hk.
  assert (List.length D = size ([] ++ [s; 1])) as HD' by (cbn [app size]; lia).
  destruct (axis_convention_any_rank [] s 1 D [] i k 0 HD' HC I Hi Hk) as [b [Eb [Sb _]]]; [cbv; lia|].
  exists b. split; [rewrite mv_to_bp_rank1; exact Eb|]. split; [exact Sb|].
  intros t Ht.
  destruct (axis_convention_any_rank [] s 1 D [] i k t HD' HC I Hi Hk) as [b' [Eb' [_ Gt]]]; [cbv; lia|].
  rewrite Eb in Eb'. injection Eb' as <-.
  rewrite Nat.div_small, Nat.mod_small in Gt by lia. cbn [app] in Gt. rewrite Gt.
  destruct t as [|t]; [|reflexivity]. cbn [Nat.ltb Nat.leb Nat.eqb]. f_equal.
  unfold nd_get. cbn [nd_shape nd_data ravel size]. f_equal. lia.
Qed.

Theorem swap_last2_get L a b D l i j :
  List.length D = size (L ++ [a; b]) -> in_bounds L l -> i < a -> j < b ->
  exists r, swap_last2 (NdA (L ++ [a; b]) D) = Some r /\ nd_shape r = L ++ [b; a] /\
    nd_get r (l ++ [j; i]) = nd_get (NdA (L ++ [a; b]) D) (l ++ [i; j]).
Proof.
  intros _ Hl Hi Hj. unfold swap_last2. cbn [nd_shape nd_data].
  rewrite rank_lt2_app, lead2_app, axis2_app, axis1_app2.
  eexists. split; [reflexivity|]. split; [reflexivity|].
  unfold nd_get. cbn [nd_shape nd_data]. rewrite !ravel2 by exact Hl.
  pose proof (ravel_lt L l Hl) as Hr. set (r := ravel L l) in *.
  assert (forall blk : list nat, mat_ok b a (transpose b (rows b a blk))) as HT
    by (intros blk; apply transpose_ok; apply rows_length).
  replace ((r * b + j) * a + i) with (r * (b * a) + (j * a + i)) by lia.
  rewrite (nth_flat_map_block (fun blk => concat (transpose b (rows b a blk))) (b * a) [] 0).
  - rewrite rows_nth by exact Hr. set (blk := row_of (a * b) D r).
    rewrite <- flat_map_id_concat.
    rewrite (nth_flat_map_block (fun x : list nat => x) a [] 0).
    + unfold transpose, transp.
      rewrite (nth_map_lt (fun j0 => map (fun r0 => nth j0 r0 0) (rows b a blk)) (seq 0 b) 0 [] j)
        by (rewrite seq_length; exact Hj).
      rewrite seq_nth by exact Hj. cbn [Nat.add].
      rewrite (nth_map_lt (fun r0 => nth j r0 0) (rows b a blk) [] 0 i) by (rewrite rows_length; exact Hi).
      rewrite rows_nth by exact Hi. rewrite row_of_nth by exact Hj.
      unfold blk. rewrite row_of_nth by nia. f_equal. lia.
    + intros x Hx. destruct (HT blk) as [_ Ha]. rewrite Forall_forall in Ha. apply Ha. exact Hx.
    + destruct (HT blk) as [Lb _]. rewrite Lb. exact Hj.
    + exact Hi.
  - intros x _. destruct (HT x) as [Lb Ha]. rewrite (concat_length_const a) by exact Ha. rewrite Lb. reflexivity.
  - rewrite rows_length. exact Hr.
  - nia.
Qed.

Theorem conv_low_rank :
  (forall v, mv_to_bp (NdA [] [v]) = None) /\ (forall sh D, List.length sh < 2 -> bp_to_mv (NdA sh D) = None).
Proof.
  split; [intros v; reflexivity|]. intros sh D H.
  destruct sh as [|a [|b sh]]; [reflexivity | reflexivity | cbn [List.length] in H; lia].
Qed.

(** the hypotheses are satisfiable on a non-trivial instance: shape (2,1,2,10), 40 codes *)
Lemma codes_lt_b n l : forallb (fun v => v <? n) l = true -> codes_lt n l.
Proof.
  intros H. apply Forall_forall. intros v Hv. apply Nat.ltb_lt. revert v Hv. apply forallb_forall. exact H.
Qed.

Example conv_instance :
  let L := [2; 1] in let s := 2 in let p := 10 in
  let D := map (fun k => (3 * k + k / 10) mod 8) (seq 0 40) in
  List.length D = size (L ++ [s; p]) /\ codes_lt 8 D /\ codes_lt 256 D /\ in_bounds L [1; 0] /\
  obind (mv_to_bp (NdA (L ++ [s; p]) D)) bp_to_mv = Some (NdA [2; 1; 2; 16] (flat_map pad8 (rows 10 4 D))) /\
  exists b, mv_to_bp (NdA (L ++ [s; p]) D) = Some b /\ nd_shape b = [2; 1; 2; 3; 2] /\
    nd_get b [1; 0; 1; 2; 1] = 1 /\ nd_get (NdA (L ++ [s; p]) D) [1; 0; 1; 8] = 5.
Proof.
  cbv zeta. split; [reflexivity|]. split; [apply codes_lt_b; vm_compute; reflexivity|].
  split; [apply codes_lt_b; vm_compute; reflexivity|]. split; [cbn; lia|].
  split; [vm_compute; reflexivity|]. eexists. split; [vm_compute; reflexivity|].
  split; [reflexivity|]. split; vm_compute; reflexivity.
Qed.

