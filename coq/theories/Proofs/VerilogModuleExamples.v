(** C11: concrete instances for Proofs/VerilogModuleProofs.v.  The trees and pin tables below are what the real parser
    (lark + child transformers) hands to VerilogTransformer.module for the Verilog text quoted next to each definition
    (rendered by harness/vlog_corr.module_cases_of); the expected views are the real Circuit objects. *)
From Coq Require Import List ZArith NArith Bool String Ascii Arith Lia.
From KV Require Import Model.VerilogElab Model.Circuit Model.CircuitInv Model.VerilogModule Proofs.VerilogModuleProofs.
Import ListNotations.
Local Open Scope list_scope.
Local Open Scope string_scope.

(** module ex (a, b, y);  input [1:0] a; input b; output [1:0] y;  wire w, v, t, r;
      assign {y[1], t, r} = {v, 2'b10};                      -- concatenations, a sized constant, y[1] = v BEFORE v = w
      AND2_X1 u1 (.A1(a[1]), .A2(b), .Z(w));
      XOR2_X1 u2 (.A1(a[0]), .A2(1'b1), .Z(y[0]));
      assign v = w;
    endmodule *)
Definition ex_mod : vmodule :=
  mkM "ex" ["a"; "b"; "y"]
    [VDecl [{| d_kind := KInput; d_base := "a"; d_rng := Some [1%Z; 0%Z] |}];
     VDecl [{| d_kind := KInput; d_base := "b"; d_rng := None |}];
     VDecl [{| d_kind := KOutput; d_base := "y"; d_rng := Some [1%Z; 0%Z] |}];
     VDecl [{| d_kind := KWire; d_base := "w"; d_rng := None |}; {| d_kind := KWire; d_base := "v"; d_rng := None |};
            {| d_kind := KWire; d_base := "t"; d_rng := None |}; {| d_kind := KWire; d_base := "r"; d_rng := None |}];
     VAssign (SMany ["y[1]"; "t"; "r"]) (SMany ["v"; "1'b1"; "1'b0"]);
     VInst "AND2_X1" "u1" [(PName "A1", SOne "a[1]"); (PName "A2", SOne "b"); (PName "Z", SOne "w")];
     VInst "XOR2_X1" "u2" [(PName "A1", SOne "a[0]"); (PName "A2", SOne "1'b1"); (PName "Z", SOne "y[0]")];
     VAssign (SOne "v") (SOne "w")].
Definition ex_lib : tlib_pins :=
  [("AND2_X1", [("A1", (0, false)); ("A2", (1, false)); ("Z", (0, true))]);
   ("XOR2_X1", [("A1", (0, false)); ("A2", (1, false)); ("Z", (0, true))])].

Definition ex_view_false : mod_view :=
  ([("u1", "AND2_X1"); ("w", "__fork__"); ("u2", "XOR2_X1"); ("y[0]", "__fork__"); ("a[1]", "input"); ("a[1]", "__fork__");
    ("a[0]", "input"); ("a[0]", "__fork__"); ("b", "input"); ("b", "__fork__"); ("y[1]", "output"); ("y[0]", "output");
    ("__const1_0__", "__const1__"); ("t", "__fork__"); ("__const0_1__", "__const0__"); ("r", "__fork__"); ("v", "__fork__");
    ("y[1]", "__fork__"); ("__const1_2__", "__const1__"); ("__const1_2__", "__fork__")],
   [(0, 0, 1, 0); (2, 0, 3, 0); (4, 0, 5, 0); (6, 0, 7, 0); (8, 0, 9, 0); (12, 0, 13, 0); (14, 0, 15, 0); (1, 0, 16, 0);
    (16, 0, 17, 0); (5, 0, 0, 0); (9, 0, 0, 1); (7, 0, 2, 0); (18, 0, 19, 0); (19, 0, 2, 1); (17, 0, 10, 0); (3, 0, 11, 0)],
   [Some 4; Some 6; Some 8; Some 10; Some 11]).
Definition ex_view_true : mod_view :=
  ([("u1", "AND2_X1"); ("w", "__fork__"); ("u2", "XOR2_X1"); ("y[0]", "__fork__"); ("a[1]", "input"); ("a[1]", "__fork__");
    ("a[0]", "input"); ("a[0]", "__fork__"); ("b", "input"); ("b", "__fork__"); ("y[1]", "output"); ("y[0]", "output");
    ("__const1_0__", "__const1__"); ("t", "__fork__"); ("__const0_1__", "__const0__"); ("r", "__fork__"); ("v", "__fork__");
    ("y[1]", "__fork__"); ("a[1]~u1/A1", "__fork__"); ("b~u1/A2", "__fork__"); ("a[0]~u2/A1", "__fork__");
    ("__const1_2__", "__const1__"); ("__const1_2__", "__fork__"); ("__const1_2__~u2/A2", "__fork__")],
   [(0, 0, 1, 0); (2, 0, 3, 0); (4, 0, 5, 0); (6, 0, 7, 0); (8, 0, 9, 0); (12, 0, 13, 0); (14, 0, 15, 0); (1, 0, 16, 0);
    (16, 0, 17, 0); (5, 0, 18, 0); (18, 0, 0, 0); (9, 0, 19, 0); (19, 0, 0, 1); (7, 0, 20, 0); (20, 0, 2, 0); (21, 0, 22, 0);
    (22, 0, 23, 0); (23, 0, 2, 1); (17, 0, 10, 0); (3, 0, 11, 0)],
   [Some 4; Some 6; Some 8; Some 10; Some 11]).

(* the model reproduces both real circuits node by node and line by line; the hypotheses of the theorems hold *)
Example ex_elab : module_case ex_mod ex_lib false (Some ex_view_false) = true /\
                  module_case ex_mod ex_lib true (Some ex_view_true) = true /\
                  lib_ok_b ex_lib = true /\ pins_nodup_b ex_mod = true /\ ports_ok_b ex_mod = true.
Proof. vm_compute. repeat split. Qed.
(* bus bits in declared order; the assign chain as bit pairs (target, source) in statement order *)
Example ex_ports : port_name_lists (m_ports ex_mod) (decls_of ex_mod) = Some [["a[1]"; "a[0]"]; ["b"]; ["y[1]"; "y[0]"]] /\
                   assign_pairs (decls_of ex_mod) (m_stmts ex_mod) = [("y[1]", "v"); ("t", "1'b1"); ("r", "1'b0"); ("v", "w")].
Proof. vm_compute. split; reflexivity. Qed.

(* the theorems apply to it (both branchforks settings) *)
Example ex_theorems : forall bf, exists c, elab_module ex_mod ex_lib bf = Some c /\ CInv c /\ SingleDrv c /\ IoLive c /\
  List.length (io c) = 5 /\
  (* u1.A2 <- b : a reader line at pin 1 of the cell u1 *)
  PinIn ex_mod bf c "u1" "A2" "b" 1 /\
  (* u2.Z -> y[0] *)
  PinOut ex_mod c "u2" "Z" "y[0]" 0 /\
  (* y[1] = v and v = w although the statements come in the other order *)
  (exists c3 k3, elab_assigns ex_mod ex_lib = Some (c3, k3) /\
     (Resolved c ("y[1]", "v") \/ Unres c3 ("y[1]", "v")) /\ (Resolved c ("v", "w") \/ Unres c3 ("v", "w"))).
Proof.
  intros bf.
  assert (Hl : lib_ok_b ex_lib = true) by (vm_compute; reflexivity).
  assert (Hp : pins_nodup_b ex_mod = true) by (vm_compute; reflexivity).
  assert (Hq : ports_ok_b ex_mod = true) by (vm_compute; reflexivity).
  destruct (lib_ok_sound ex_lib Hl) as [L1 L2]. pose proof (pins_nodup_sound ex_mod Hp) as L3.
  assert (Hs : exists c, elab_module ex_mod ex_lib bf = Some c).
  { destruct bf; vm_compute; eexists; reflexivity. }
  destruct Hs as [c Hc]. exists c. split; auto.
  destruct (module_consistent ex_mod ex_lib bf c Hl Hp Hc) as [A1 A2].
  split; auto. split; auto. split. eapply module_io_live; eauto.
  split. { destruct (module_ports ex_mod ex_lib bf c [["a[1]"; "a[0]"]; ["b"]; ["y[1]"; "y[0]"]] Hl Hp Hc) as [B1 _].
           - vm_compute. reflexivity.
           - simpl. repeat constructor; simpl; intuition discriminate.
           - vm_compute. intuition.
           - exact B1. }
  split. { apply (elab_pins ex_mod ex_lib L1 L2 L3 bf c "AND2_X1" "u1" [(PName "A1", SOne "a[1]"); (PName "A2", SOne "b"); (PName "Z", SOne "w")] "A2" "b" 1 false Hc).
           - simpl. right. right. right. right. right. left. reflexivity.
           - simpl. auto.
           - vm_compute. reflexivity. }
  split. { apply (elab_pins ex_mod ex_lib L1 L2 L3 bf c "XOR2_X1" "u2" [(PName "A1", SOne "a[0]"); (PName "A2", SOne "1'b1"); (PName "Z", SOne "y[0]")] "Z" "y[0]" 0 true Hc).
           - simpl. do 6 right. left. reflexivity.
           - simpl. auto.
           - vm_compute. reflexivity. }
  destruct (elab_assign ex_mod ex_lib L1 L2 L3 bf c Hc) as [c3 [k3 [D1 [D2 D3]]]].
  exists c3, k3. split; auto. split; apply D3; vm_compute; auto.
Qed.

(** ** witnesses for the side conditions that cannot be dropped *)
(** module q (a, z); input a; output z; wire w;  BUF_X1 \z[0] (.A(a), .Z(w));  BUF_X1 g2 (.A(w), .Z(z[0]));  endmodule
    BEFORE commit afee8a5 ([elab_module_old]) the final loop of module found no fork "z", found the fork "z[0]" and then
    connected it to c.cells["z[0]"]: the BUFFER INSTANCE called z[0] received a second input line (pin 1) that no pin
    connection asks for, and the output port z stayed unconnected (without the escaped instance name: KeyError).
    The first conjunct is the circuit kyupy built at that time (recorded then; the current code is [bit0_fixed]). *)
Definition quirk_mod : vmodule :=
  mkM "q" ["a"; "z"]
    [VDecl [{| d_kind := KInput; d_base := "a"; d_rng := None |}]; VDecl [{| d_kind := KOutput; d_base := "z"; d_rng := None |}];
     VDecl [{| d_kind := KWire; d_base := "w"; d_rng := None |}];
     VInst "BUF_X1" "z[0]" [(PName "A", SOne "a"); (PName "Z", SOne "w")];
     VInst "BUF_X1" "g2" [(PName "A", SOne "w"); (PName "Z", SOne "z[0]")]].
Definition quirk_lib : tlib_pins := [("BUF_X1", [("A", (0, false)); ("Z", (0, true))])].
Theorem bit0_quirk_witness :
  module_case_gen elab_module_old quirk_mod quirk_lib false
    (Some ([("z[0]", "BUF_X1"); ("w", "__fork__"); ("g2", "BUF_X1"); ("z[0]", "__fork__"); ("a", "input"); ("a", "__fork__");
            ("z", "output")],
           [(0, 0, 1, 0); (2, 0, 3, 0); (4, 0, 5, 0); (5, 0, 0, 0); (1, 0, 2, 0); (3, 0, 0, 1)], [Some 4; Some 6])) = true /\
  exists c n l, elab_module_old quirk_mod quirk_lib false = Some c /\ dget "z[0]" (cells c) = Some n /\ In l (lines c) /\
    l_rdr (lst c l) = Some n /\ l_rpin (lst c l) = 1 /\
    forall p s, In (PName p, SOne s) [(PName "A", SOne "a"); (PName "Z", SOne "w")] ->
                lib_pin quirk_lib "BUF_X1" (PName p) <> Some (1, false).
Proof.
  split. vm_compute. reflexivity.
  eexists. exists 0, 5. split. vm_compute. reflexivity.
  split. reflexivity. split. simpl. do 5 right. left. reflexivity. split. reflexivity. split. reflexivity.
  intros p s [H|[H|[]]]; injection H as <- <-; vm_compute; discriminate.
Qed.
(* the repaired loop on the same module: the model equals the circuit the current code builds, the last line runs from the
   fork z[0] to the port cell z (node 6), and the buffer z[0] has exactly the line of its pin A *)
Theorem bit0_fixed :
  module_case quirk_mod quirk_lib false
    (Some ([("z[0]", "BUF_X1"); ("w", "__fork__"); ("g2", "BUF_X1"); ("z[0]", "__fork__"); ("a", "input"); ("a", "__fork__");
            ("z", "output")],
           [(0, 0, 1, 0); (2, 0, 3, 0); (4, 0, 5, 0); (5, 0, 0, 0); (1, 0, 2, 0); (3, 0, 6, 0)], [Some 4; Some 6])) = true /\
  exists c, elab_module quirk_mod quirk_lib false = Some c /\ OutPort c "z" /\
    exists f n, dget "z" (forks c) = None /\ dget "z[0]" (forks c) = Some f /\ dget "z" (cells c) = Some n /\
                ins_of c n = [Some 5] /\ l_drv (lst c 5) = Some f /\ l_rdr (lst c 5) = Some n /\
                exists b, dget "z[0]" (cells c) = Some b /\ ins_of c b = [Some 3].
Proof.
  split. vm_compute. reflexivity.
  assert (Hs : exists c, elab_module quirk_mod quirk_lib false = Some c /\
            (dget "z" (forks c) = None /\ dget "z[0]" (forks c) = Some 3 /\ dget "z" (cells c) = Some 6 /\
             ins_of c 6 = [Some 5] /\ l_drv (lst c 5) = Some 3 /\ l_rdr (lst c 5) = Some 6 /\
             dget "z[0]" (cells c) = Some 0 /\ ins_of c 0 = [Some 3])).
  { vm_compute. eexists. repeat split. }
  destruct Hs as [c [Hc [A1 [A2 [A3 [A4 [A5 [A6 [A7 A8]]]]]]]]]. exists c. split; auto. split.
  - apply (module_outputs quirk_mod quirk_lib false c "z"); auto; try (vm_compute; reflexivity).
    + vm_compute. right. left. reflexivity.
    + right. change ("z" ++ "[0]") with "z[0]". rewrite A2. discriminate.
  - exists 3, 6. repeat split; auto. exists 0. auto.
Qed.

(** module h (a, a, w); input a; wire w; endmodule -- a port named twice and a port without direction: io_nodes has a hole *)
Definition hole_mod : vmodule :=
  mkM "h" ["a"; "a"; "w"]
    [VDecl [{| d_kind := KInput; d_base := "a"; d_rng := None |}]; VDecl [{| d_kind := KWire; d_base := "w"; d_rng := None |}]].
Theorem io_hole_witness :
  module_case hole_mod [] false (Some ([("a", "input"); ("a", "__fork__")], [(0, 0, 1, 0)], [None; Some 0])) = true /\
  exists c, elab_module hole_mod [] false = Some c /\ CInv c /\ ~ IoLive c.
Proof.
  split. vm_compute. reflexivity.
  assert (Hs : exists c, elab_module hole_mod [] false = Some c /\ io c = [None; Some 0]).
  { vm_compute. eexists. split; reflexivity. }
  destruct Hs as [c [Hc Hio]]. exists c. split; auto. split.
  - apply (proj1 (module_consistent hole_mod [] false c eq_refl eq_refl Hc)).
  - intros H. destruct (H None) as [n [E _]]. rewrite Hio. left. reflexivity. discriminate.
Qed.

(** module t (a, y, z); input a; output y, z; wire \a~u2/A ;  BUF_X1 u2 (.A(a), .Z(y));  BUF_X1 u3 (.A(\a~u2/A ), .Z(z));
    endmodule.   With branchforks=False the input of u3 is the undriven signal a~u2/A.  With branchforks=True the branch
    fork of pin u2.A gets exactly that name, `if s not in c.forks` finds it, and u3 reads port a through it: requesting
    branch forks changes the function when a signal is named like a generated branch fork. *)
Definition tilde_mod : vmodule :=
  mkM "t" ["a"; "y"; "z"]
    [VDecl [{| d_kind := KInput; d_base := "a"; d_rng := None |}];
     VDecl [{| d_kind := KOutput; d_base := "y"; d_rng := None |}; {| d_kind := KOutput; d_base := "z"; d_rng := None |}];
     VDecl [{| d_kind := KWire; d_base := "a~u2/A"; d_rng := None |}];
     VInst "BUF_X1" "u2" [(PName "A", SOne "a"); (PName "Z", SOne "y")];
     VInst "BUF_X1" "u3" [(PName "A", SOne "a~u2/A"); (PName "Z", SOne "z")]].
Theorem branchforks_name_clash_witness :
  (* node 8 = fork a~u2/A has no input line; it alone feeds u3 (node 2) *)
  module_case tilde_mod quirk_lib false
    (Some ([("u2", "BUF_X1"); ("y", "__fork__"); ("u3", "BUF_X1"); ("z", "__fork__"); ("a", "input"); ("a", "__fork__");
            ("y", "output"); ("z", "output"); ("a~u2/A", "__fork__")],
           [(0, 0, 1, 0); (2, 0, 3, 0); (4, 0, 5, 0); (5, 0, 0, 0); (8, 0, 2, 0); (1, 0, 6, 0); (3, 0, 7, 0)],
           [Some 4; Some 6; Some 7])) = true /\
  (* node 8 = fork a~u2/A is driven by fork a (line 3) and feeds u2 AND, through node 9, u3 *)
  module_case tilde_mod quirk_lib true
    (Some ([("u2", "BUF_X1"); ("y", "__fork__"); ("u3", "BUF_X1"); ("z", "__fork__"); ("a", "input"); ("a", "__fork__");
            ("y", "output"); ("z", "output"); ("a~u2/A", "__fork__"); ("a~u2/A~u3/A", "__fork__")],
           [(0, 0, 1, 0); (2, 0, 3, 0); (4, 0, 5, 0); (5, 0, 8, 0); (8, 0, 0, 0); (8, 1, 9, 0); (9, 0, 2, 0); (1, 0, 6, 0);
            (3, 0, 7, 0)], [Some 4; Some 6; Some 7])) = true.
Proof. vm_compute. split; reflexivity. Qed.
