(** C06, state transfer (WaveSim.s_ppo_to_ppi / ppo_to_ppi_gpu) over the WHOLE launch.
      T1 [s_ppo_to_ppi_cpu_is_per_position]   the three vectorised passes of WaveSim.s_ppo_to_ppi (Model/WaveDrvPrelude.v
                                               [s_ppo_to_ppi_cpu]) = the three stores of one position, position by position
                                               (no side condition: the position list has no duplicates by construction);
      T2 [ppo_to_ppi_launch_lane]              ppo_to_ppi_gpu over the thread sequence of the translated launcher leaves every
                                               lane as the per-position stores at ALL positions with both slots do;
      T3 [state_transfer_launch_is_cpu]        ... which is WaveSim.s_ppo_to_ppi if no primary-IO position owns both slots;
      T4 [state_transfer_launch_state_positions] and in any case both twins leave the same s[k, y] at every state-element
                                               position y >= n_io, the same c, abuf and simctl columns.
    The stores of different (row, position) pairs commute ([Proofs/WaveLaneRun.v] apply_writes_perm / three_pass_perm). *)
From Coq Require Import List ZArith NArith Bool Arith Lia Permutation.
From KV Require Import Model.Time Model.WaveEval Model.SimOps Model.WaveSimModel Model.WaveSrcPrelude Model.WaveDrvPrelude
  Model.Launch Model.LaunchSrcLib Gen.LaunchSrc Gen.WaveEvalSrc Gen.WaveDriversSrc.
From KV Require Proofs.LaunchSrcProofs.
From KV Require Import Proofs.WaveLaneRun Proofs.WaveDriversProofs.
Import ListNotations.
Local Open Scope list_scope.

(* ------------------------------------------------------------------ *)
(** * the s rows of one lane as a store: writes (row, position, value) *)

Definition swrite := (nat * nat * time)%type.
Definition skey (w : swrite) : nat * nat := fst w.
Definition sact (w : swrite) (s : list (list time)) : list (list time) :=
  let '(k, j, v) := w in upd_nth s k (wset (nth k s []) j v).
Definition sget (s : list (list time)) (k j : nat) : time := nth j (nth k s []) (Fin 0).

Lemma upd_nth_oob {A} (s : list A) k v : List.length s <= k -> upd_nth s k v = s.
Proof. revert k. induction s as [|a s IH]; intros [|k] H; cbn in *; try reflexivity; try lia. rewrite IH by lia. reflexivity. Qed.

Lemma nth_upd_nth_eq {A} (s : list A) k v d : k < List.length s -> nth k (upd_nth s k v) d = v.
Proof. revert k. induction s as [|a s IH]; intros [|k] H; cbn in *; try reflexivity; try lia. apply IH. lia. Qed.

Lemma nth_upd_nth_neq {A} (s : list A) k k' v d : k <> k' -> nth k' (upd_nth s k v) d = nth k' s d.
Proof. revert k k'. induction s as [|a s IH]; intros [|k] [|k'] H; cbn; try reflexivity; try lia. apply IH. lia. Qed.

Lemma upd_nth_twice {A} (s : list A) k a b : upd_nth (upd_nth s k a) k b = upd_nth s k b.
Proof. revert k. induction s as [|x s IH]; intros [|k]; cbn; try reflexivity. rewrite IH. reflexivity. Qed.

Lemma upd_nth_comm {A} (s : list A) k k' a b : k <> k' -> upd_nth (upd_nth s k a) k' b = upd_nth (upd_nth s k' b) k a.
Proof. revert k k'. induction s as [|x s IH]; intros [|k] [|k'] H; cbn; try reflexivity; try lia. rewrite IH by lia. reflexivity. Qed.

Lemma upd_nth_same {A} (s : list A) k d : upd_nth s k (nth k s d) = s.
Proof. revert k. induction s as [|x s IH]; intros [|k]; cbn; try reflexivity. rewrite IH. reflexivity. Qed.

Lemma nth_wset_neq (w : list time) i j v d : i <> j -> nth j (wset w i v) d = nth j w d.
Proof. revert i j. induction w as [|x w IH]; intros [|i] [|j] H; cbn; try reflexivity; try lia. apply IH. lia. Qed.

Lemma sact_comm w1 w2 s : skey w1 <> skey w2 -> sact w1 (sact w2 s) = sact w2 (sact w1 s).
Proof.
  destruct w1 as [[k1 j1] v1], w2 as [[k2 j2] v2]. unfold skey. cbn [fst sact]. intros H.
  destruct (Nat.eq_dec k1 k2) as [->|Hk].
  - assert (Hj : j1 <> j2) by (intros ->; apply H; reflexivity).
    destruct (Nat.lt_ge_cases k2 (List.length s)) as [Hl|Hl].
    + rewrite !nth_upd_nth_eq by exact Hl. rewrite !upd_nth_twice. f_equal. apply wset_comm. exact Hj.
    + rewrite !(upd_nth_oob s) by exact Hl. reflexivity.
  - rewrite !nth_upd_nth_neq by lia. apply upd_nth_comm. lia.
Qed.

Lemma sget_sact_other k j v s k' j' : (k, j) <> (k', j') -> sget (sact (k, j, v) s) k' j' = sget s k' j'.
Proof.
  intros H. unfold sget. cbn [sact]. destruct (Nat.eq_dec k k') as [<-|Hk].
  - assert (Hj : j <> j') by (intros ->; apply H; reflexivity).
    destruct (Nat.lt_ge_cases k (List.length s)) as [Hl|Hl].
    + rewrite nth_upd_nth_eq by exact Hl. apply nth_wset_neq. exact Hj.
    + rewrite upd_nth_oob by exact Hl. reflexivity.
  - rewrite nth_upd_nth_neq by exact Hk. reflexivity.
Qed.

Lemma sget_writes_other ws : forall s k j, ~ In (k, j) (map skey ws) -> sget (apply_writes sact ws s) k j = sget s k j.
Proof.
  induction ws as [|[[k0 j0] v0] ws IH]; intros s k j H; [reflexivity|].
  unfold apply_writes in *. cbn [fold_left]. rewrite IH.
  - apply sget_sact_other. intros E. apply H. left. exact E.
  - intros Hin. apply H. right. exact Hin.
Qed.

(** reads and writes of s at a natural position *)
Lemma s_rd_nat L k n : s_rd L k (Z.of_nat n) = sget (l_s L) k n.
Proof.
  unfold s_rd, sget. rewrite pyidx_nat. destruct (Nat.ltb_spec n (List.length (nth k (l_s L) []))); [reflexivity|].
  rewrite nth_overflow by lia. reflexivity.
Qed.

Lemma set_s_id L : set_s L (l_s L) = L.
Proof. destruct L; reflexivity. Qed.

Lemma s_wr_nat L k n v : s_wr L k (Z.of_nat n) v = set_s L (sact (k, n, v) (l_s L)).
Proof.
  unfold s_wr. cbn [sact]. rewrite pyidx_nat. destruct (Nat.ltb_spec n (List.length (nth k (l_s L) []))); [reflexivity|].
  rewrite wset_oob by lia. rewrite upd_nth_same. symmetry. apply set_s_id.
Qed.

(* ------------------------------------------------------------------ *)
(** * the stores of one position, and of a list of positions *)

Section Transfer.
  Variable t : time.
  (** the three stores of position n, right-hand sides read from the rows [s0] *)
  Definition g0 (s0 : list (list time)) (n : nat) : swrite := (0, n, sget s0 2 n).
  Definition g1 (n : nat) : swrite := (1, n, t).
  Definition g2 (s0 : list (list time)) (n : nat) : swrite := (2, n, sget s0 8 n).
  Definition g3 (s0 : list (list time)) (n : nat) : list swrite := [g0 s0 n; g1 n; g2 s0 n].

  Lemma pos_is_writes L n :
    ppo_to_ppi_pos t (Z.of_nat n) L = set_s L (apply_writes sact (g3 (l_s L) n) (l_s L)).
  Proof.
    unfold ppo_to_ppi_pos. cbv zeta. rewrite !s_wr_nat, !s_rd_nat. cbn [l_s set_s].
    unfold g3, g0, g1, g2, apply_writes. cbn [fold_left].
    rewrite !(sget_sact_other) by (intros E; inversion E). reflexivity.
  Qed.

  Lemma keys_flat (s0 : list (list time)) ys :
    map skey (flat_map (g3 s0) ys) = flat_map (fun n : nat => [(0, n); (1, n); (2, n)]) ys.
  Proof. induction ys as [|y ys IH]; [reflexivity|]. cbn [flat_map map app]. rewrite map_app, IH. reflexivity. Qed.

  Lemma key_in_flat (k j : nat) (ys : list nat) : In (k, j) (flat_map (fun n : nat => [(0, n); (1, n); (2, n)]) ys) -> In j ys /\ k <= 2.
  Proof.
    intros H. apply in_flat_map in H. destruct H as (n & Hn & [E|[E|[E|[]]]]); inversion E; subst; split; auto.
  Qed.

  Lemma keys_nodup (ys : list nat) : NoDup ys -> NoDup (flat_map (fun n : nat => [(0, n); (1, n); (2, n)]) ys).
  Proof.
    induction 1 as [|y ys Hy Hnd IH]; [constructor|]. cbn [flat_map app].
    constructor; [|constructor; [|constructor; [|exact IH]]].
    - intros [E|[E|Hin]]; try (inversion E; fail). apply key_in_flat in Hin. tauto.
    - intros [E|Hin]; try (inversion E; fail). apply key_in_flat in Hin. tauto.
    - intros Hin. apply key_in_flat in Hin. tauto.
  Qed.

  (** position by position, over ANY duplicate-free position list: all right-hand sides can be read from the rows at the start *)
  Lemma fold_pos_writes L s0 : forall ys s, NoDup ys ->
    (forall n, In n ys -> sget s 2 n = sget s0 2 n /\ sget s 8 n = sget s0 8 n) ->
    fold_left (fun L' y => ppo_to_ppi_pos t y L') (map Z.of_nat ys) (set_s L s)
    = set_s L (apply_writes sact (flat_map (g3 s0) ys) s).
  Proof.
    induction ys as [|y ys IH]; intros s Hnd Hrd; [reflexivity|].
    inversion Hnd as [|? ? Hy Hnd']; subst. cbn [map fold_left flat_map].
    rewrite pos_is_writes. cbn [l_s set_s]. change (set_s (set_s L s) ?x) with (set_s L x).
    destruct (Hrd y (or_introl eq_refl)) as [E2 E8].
    assert (Eg : g3 s y = g3 s0 y) by (unfold g3, g0, g2; rewrite E2, E8; reflexivity).
    rewrite Eg, IH.
    - rewrite (apply_writes_app sact). reflexivity.
    - exact Hnd'.
    - intros n Hn. destruct (Hrd n (or_intror Hn)) as [F2 F8]. rewrite <- F2, <- F8.
      split; apply sget_writes_other; intros Hin; apply in_map_iff in Hin; destruct Hin as (w & Ew & [<-|[<-|[<-|[]]]]);
        cbn in Ew; inversion Ew; subst; contradiction.
  Qed.

  Lemma fold_pos_writes0 L ys : NoDup ys ->
    fold_left (fun L' y => ppo_to_ppi_pos t y L') (map Z.of_nat ys) L
    = set_s L (apply_writes sact (flat_map (g3 (l_s L)) ys) (l_s L)).
  Proof. intros Hnd. rewrite <- (set_s_id L) at 1. apply fold_pos_writes; [exact Hnd|]. intros n _. split; reflexivity. Qed.

  (** the same pass by pass *)
  Lemma fold_s_wr (f : nat -> swrite) (k : nat) (v : nat -> time) ys : (forall n, f n = (k, n, v n)) -> forall L,
    fold_left (fun L' y => s_wr L' k (Z.of_nat y) (v y)) ys L = set_s L (apply_writes sact (map f ys) (l_s L)).
  Proof.
    intros Hf. induction ys as [|y ys IH]; intros L; [symmetry; apply set_s_id|].
    cbn [fold_left map]. rewrite s_wr_nat, IH, Hf. reflexivity.
  Qed.
End Transfer.

(* ------------------------------------------------------------------ *)
(** * T1: the three vectorised passes of WaveSim.s_ppo_to_ppi = position by position *)

Definition both_slots (c_locs : list Z) (ppi ppo : Z) (y : nat) : bool :=
  ((0 <=? zrd (-1) c_locs (ppi + Z.of_nat y)) && (0 <=? zrd (-1) c_locs (ppo + Z.of_nat y)))%Z.
(** state-element positions with both slots, in increasing order *)
Definition st_both (c_locs : list Z) (ppi ppo : Z) (n_io s_len : nat) : list nat :=
  filter (both_slots c_locs ppi ppo) (seq n_io (s_len - n_io)).
(** primary-IO positions with both slots *)
Definition io_both (c_locs : list Z) (ppi ppo : Z) (n_io : nat) : list nat :=
  filter (both_slots c_locs ppi ppo) (seq 0 n_io).

Lemma ppo_to_ppi_locs_eq c_locs ppi ppo n_io s_len :
  ppo_to_ppi_locs c_locs ppi ppo n_io s_len = map Z.of_nat (st_both c_locs ppi ppo n_io s_len).
Proof. unfold ppo_to_ppi_locs, ppio_s_locs, zseq, st_both. rewrite filter_map_comm. reflexivity. Qed.

Lemma NoDup_filter {A} (f : A -> bool) l : NoDup l -> NoDup (filter f l).
Proof.
  induction 1 as [|a l Ha Hnd IH]; [constructor|]. cbn [filter]. destruct (f a); [|exact IH].
  constructor; [|exact IH]. intros Hin. apply filter_In in Hin. tauto.
Qed.

Lemma cpu_is_writes c_locs ppi ppo n_io s_len t L :
  s_ppo_to_ppi_cpu c_locs ppi ppo n_io s_len t L
  = set_s L (apply_writes sact (map (g0 (l_s L)) (st_both c_locs ppi ppo n_io s_len) ++
                                map (g1 t) (st_both c_locs ppi ppo n_io s_len) ++
                                map (g2 (l_s L)) (st_both c_locs ppi ppo n_io s_len)) (l_s L)).
Proof.
  unfold s_ppo_to_ppi_cpu. rewrite ppo_to_ppi_locs_eq. cbv zeta. set (ys := st_both c_locs ppi ppo n_io s_len).
  rewrite !fold_left_map.
  set (L1 := fold_left (fun L' y => s_wr L' 0 (Z.of_nat y) (s_rd L 2 (Z.of_nat y))) ys L).
  assert (E1 : L1 = set_s L (apply_writes sact (map (g0 (l_s L)) ys) (l_s L))).
  { unfold L1. rewrite <- (fold_s_wr (g0 (l_s L)) 0 (fun y => sget (l_s L) 2 y)) by reflexivity.
    apply fold_left_ext. intros a b. rewrite s_rd_nat. reflexivity. }
  set (L2 := fold_left (fun L' y => s_wr L' 1 (Z.of_nat y) t) ys L1).
  assert (E2 : L2 = set_s L (apply_writes sact (map (g1 t) ys) (l_s L1))).
  { unfold L2. rewrite (fold_s_wr (g1 t) 1 (fun _ => t)) by reflexivity. rewrite E1. reflexivity. }
  assert (E8 : forall b, sget (l_s L2) 8 b = sget (l_s L) 8 b).
  { intros b. rewrite E2, E1. cbn [l_s set_s]. rewrite !sget_writes_other; [reflexivity| |].
    - intros Hin. apply in_map_iff in Hin. destruct Hin as (w & Ew & Hw). apply in_map_iff in Hw. destruct Hw as (n & <- & _).
      cbn in Ew. inversion Ew.
    - intros Hin. apply in_map_iff in Hin. destruct Hin as (w & Ew & Hw). apply in_map_iff in Hw. destruct Hw as (n & <- & _).
      cbn in Ew. inversion Ew. }
  rewrite (fold_left_ext _ (fun L' y => s_wr L' 2 (Z.of_nat y) (sget (l_s L) 8 y))) by (intros a b; rewrite s_rd_nat, E8; reflexivity).
  rewrite (fold_s_wr (g2 (l_s L)) 2 (fun y => sget (l_s L) 8 y)) by reflexivity.
  rewrite E2, E1. cbn [l_s set_s]. change (set_s (set_s L ?a) ?b) with (set_s L b).
  rewrite !(apply_writes_app sact). reflexivity.
Qed.

Lemma writes_three_pass (s0 : list (list time)) t ys s : NoDup ys ->
  apply_writes sact (map (g0 s0) ys ++ map (g1 t) ys ++ map (g2 s0) ys) s = apply_writes sact (flat_map (g3 t s0) ys) s.
Proof.
  intros Hnd. apply (apply_writes_perm sact skey sact_comm).
  - apply (three_pass_perm (g0 s0) (g1 t) (g2 s0)).
  - eapply Permutation_NoDup; [apply Permutation_map, Permutation_sym, (three_pass_perm (g0 s0) (g1 t) (g2 s0))|].
    change (flat_map (fun y => [g0 s0 y; g1 t y; g2 s0 y]) ys) with (flat_map (g3 t s0) ys).
    rewrite keys_flat. apply keys_nodup. exact Hnd.
Qed.

Theorem s_ppo_to_ppi_cpu_is_per_position c_locs ppi ppo n_io s_len t L :
  s_ppo_to_ppi_cpu c_locs ppi ppo n_io s_len t L
  = fold_left (fun L' y => ppo_to_ppi_pos t y L') (ppo_to_ppi_locs c_locs ppi ppo n_io s_len) L.
Proof.
  assert (Hnd : NoDup (st_both c_locs ppi ppo n_io s_len)) by (apply NoDup_filter, seq_NoDup).
  rewrite cpu_is_writes, ppo_to_ppi_locs_eq, fold_pos_writes0 by exact Hnd. f_equal. apply writes_three_pass. exact Hnd.
Qed.

(* ------------------------------------------------------------------ *)
(** * T2: the kernel over all positions of a lane, and over the launch *)

Lemma gpu_lane_is_per_position c_locs t ppi ppo s_len nsims x : x < nsims -> forall ys L, (forall y, In y ys -> y < s_len) ->
  fold_left (fun L' y => PpoToPpiGpuSrc.inst_src c_locs t ppi ppo (Z.of_nat s_len) (Z.of_nat nsims) (Z.of_nat x) (Z.of_nat y) L') ys L
  = fold_left (fun L' y => ppo_to_ppi_pos t y L') (map Z.of_nat (filter (both_slots c_locs ppi ppo) ys)) L.
Proof.
  intros Hx. induction ys as [|y ys IH]; intros L Hin; [reflexivity|]. cbn [fold_left filter].
  rewrite ppo_to_ppi_gpu_inst by (pose proof (Hin y (or_introl eq_refl)); lia).
  fold (both_slots c_locs ppi ppo y). rewrite IH by (intros y' Hy'; apply Hin; right; exact Hy').
  destruct (both_slots c_locs ppi ppo y); reflexivity.
Qed.

Lemma both_split c_locs ppi ppo n_io s_len : n_io <= s_len ->
  filter (both_slots c_locs ppi ppo) (seq 0 s_len) = io_both c_locs ppi ppo n_io ++ st_both c_locs ppi ppo n_io s_len.
Proof.
  intros H. unfold io_both, st_both. rewrite <- filter_app, <- seq_app. f_equal. f_equal. lia.
Qed.

(** every lane after the launch: the per-position stores at all positions with both slots, in increasing order *)
Theorem ppo_to_ppi_launch_lane c_locs t ppi ppo s_len st0 (st : list lane) :
  let nsims := List.length st in
  run_insts (fun x y L => PpoToPpiGpuSrc.inst_src c_locs t ppi ppo (Z.of_nat s_len) (Z.of_nat nsims) (Z.of_nat x) (Z.of_nat y) L)
            (fst (launch_src (cdiv nsims 32) (cdiv s_len 16) 32 16 st0)) st
  = map (fun L => fold_left (fun L' y => ppo_to_ppi_pos t y L')
                            (map Z.of_nat (filter (both_slots c_locs ppi ppo) (seq 0 s_len))) L) st.
Proof.
  intros nsims.
  rewrite (launch_src_is_cpu_loop _ nsims s_len 32 16 st0 st) by
    (try lia; intros x y a Hxy; apply ppo_to_ppi_gpu_out_of_range; lia).
  apply nth_error_ext_eq. intros l. rewrite run_insts_lane, nth_error_map.
  destruct (nth_error st l) as [L|] eqn:E; [|reflexivity]. cbn [option_map]. f_equal.
  assert (Hl : l < nsims) by (apply nth_error_Some; congruence).
  rewrite ys_of_cpu_order by exact Hl. apply gpu_lane_is_per_position; [exact Hl|]. intros y Hy. apply in_seq in Hy. lia.
Qed.

(* ------------------------------------------------------------------ *)
(** * T3 / T4: against WaveSim.s_ppo_to_ppi *)

(** no primary-IO position owns both a PI and a PO slot *)
Definition no_io_both (c_locs : list Z) (ppi ppo : Z) (n_io : nat) : Prop :=
  forall y, y < n_io -> both_slots c_locs ppi ppo y = false.

Lemma no_io_both_nil c_locs ppi ppo n_io : no_io_both c_locs ppi ppo n_io -> io_both c_locs ppi ppo n_io = [].
Proof.
  intros H. unfold io_both. induction (seq 0 n_io) as [|y ys IH] eqn:E in H |- *; [reflexivity|].
  assert (G : forall l, (forall y, In y l -> both_slots c_locs ppi ppo y = false) -> filter (both_slots c_locs ppi ppo) l = []).
  { induction l as [|a l IHl]; intros Hl; [reflexivity|]. cbn [filter]. rewrite (Hl a (or_introl eq_refl)). apply IHl.
    intros y' Hy'. apply Hl. right. exact Hy'. }
  apply G. intros y' Hy'. apply H. rewrite <- E in Hy'. apply in_seq in Hy'. lia.
Qed.

Theorem state_transfer_launch_is_cpu c_locs t ppi ppo n_io s_len st0 (st : list lane) :
  n_io <= s_len -> no_io_both c_locs ppi ppo n_io ->
  let nsims := List.length st in
  run_insts (fun x y L => PpoToPpiGpuSrc.inst_src c_locs t ppi ppo (Z.of_nat s_len) (Z.of_nat nsims) (Z.of_nat x) (Z.of_nat y) L)
            (fst (launch_src (cdiv nsims 32) (cdiv s_len 16) 32 16 st0)) st
  = map (s_ppo_to_ppi_cpu c_locs ppi ppo n_io s_len t) st.
Proof.
  intros Hn Hio nsims. unfold nsims. rewrite ppo_to_ppi_launch_lane. apply map_ext. intros L.
  rewrite (both_split c_locs ppi ppo n_io s_len Hn), (no_io_both_nil _ _ _ _ Hio). cbn [app].
  rewrite s_ppo_to_ppi_cpu_is_per_position, ppo_to_ppi_locs_eq. reflexivity.
Qed.

(** without that condition: both twins agree at every state-element position and outside s *)
Theorem state_transfer_launch_state_positions c_locs t ppi ppo n_io s_len st0 (st : list lane) :
  n_io <= s_len ->
  let nsims := List.length st in
  let gpu := run_insts (fun x y L => PpoToPpiGpuSrc.inst_src c_locs t ppi ppo (Z.of_nat s_len) (Z.of_nat nsims) (Z.of_nat x) (Z.of_nat y) L)
                       (fst (launch_src (cdiv nsims 32) (cdiv s_len 16) 32 16 st0)) st in
  let cpu := map (s_ppo_to_ppi_cpu c_locs ppi ppo n_io s_len t) st in
  List.length gpu = List.length cpu /\
  forall l Lg Lc, nth_error gpu l = Some Lg -> nth_error cpu l = Some Lc ->
    l_c Lg = l_c Lc /\ l_abuf Lg = l_abuf Lc /\ l_ctl0 Lg = l_ctl0 Lc /\ l_mode Lg = l_mode Lc /\
    forall k y, n_io <= y -> s_rd Lg k (Z.of_nat y) = s_rd Lc k (Z.of_nat y).
Proof.
  intros Hn nsims gpu cpu. unfold gpu, cpu, nsims. rewrite ppo_to_ppi_launch_lane. split; [rewrite !map_length; reflexivity|].
  intros l Lg Lc Hg Hc. rewrite nth_error_map in Hg, Hc. destruct (nth_error st l) as [L|]; [|discriminate].
  cbn [option_map] in Hg, Hc. injection Hg as <-. injection Hc as <-.
  assert (Hnd : NoDup (filter (both_slots c_locs ppi ppo) (seq 0 s_len))) by (apply NoDup_filter, seq_NoDup).
  rewrite fold_pos_writes0 by exact Hnd. rewrite cpu_is_writes.
  split; [reflexivity|]. split; [reflexivity|]. split; [reflexivity|]. split; [reflexivity|].
  intros k y Hy. rewrite !s_rd_nat. cbn [l_s set_s].
  assert (Hnd2 : NoDup (st_both c_locs ppi ppo n_io s_len)) by (apply NoDup_filter, seq_NoDup).
  rewrite (writes_three_pass (l_s L) t _ _ Hnd2).
  rewrite (both_split c_locs ppi ppo n_io s_len Hn) in *. rewrite flat_map_app.
  rewrite (apply_writes_perm sact skey sact_comm _ (flat_map (g3 t (l_s L)) (st_both c_locs ppi ppo n_io s_len) ++
                                                     flat_map (g3 t (l_s L)) (io_both c_locs ppi ppo n_io))).
  - rewrite (apply_writes_app sact). apply sget_writes_other.
    rewrite keys_flat. intros Hin. apply key_in_flat in Hin. destruct Hin as [Hin _].
    unfold io_both in Hin. apply filter_In in Hin. destruct Hin as [Hin _]. apply in_seq in Hin. lia.
  - apply Permutation_app_comm.
  - rewrite <- flat_map_app, keys_flat. apply keys_nodup. exact Hnd.
Qed.

(* ------------------------------------------------------------------ *)
(** * the hypotheses are satisfiable; the exception is real *)

(** [ex_so] of Proofs/WaveDriversProofs.v: positions 0 and 1, position 0 owns both slots (c_locs[3] = 12, c_locs[5] = 4).
    Counted as state elements (n_io = 0) both twins transfer position 0 on both lanes ... *)
Definition ex_lane2 : lane :=
  {| l_c := repeat MaxInf 20; l_s := ex_rows [Fin 1; Fin 1] [Fin 2; Fin 3] [Fin 0; Fin 1] [Fin 0; Fin 0];
     l_abuf := [0%Z]; l_ctl0 := 0%Z; l_mode := 0%Z |}.
Example state_transfer_launch_example :
  no_io_both (so_locs ex_so) 3 5 0 /\
  run_insts (fun x y L => PpoToPpiGpuSrc.inst_src (so_locs ex_so) (Fin 9) 3 5 2 2 (Z.of_nat x) (Z.of_nat y) L)
            (fst (launch_src (cdiv 2 32) (cdiv 2 16) 32 16 launch_init_src)) [ex_lane; ex_lane2]
  = map (s_ppo_to_ppi_cpu (so_locs ex_so) 3 5 0 2 (Fin 9)) [ex_lane; ex_lane2] /\
  map l_s (map (s_ppo_to_ppi_cpu (so_locs ex_so) 3 5 0 2 (Fin 9)) [ex_lane; ex_lane2])
  = [ex_rows [Fin 1; Fin 1] [Fin 9; Fin 7] [Fin 1; Fin 0] [Fin 1; Fin 1];
     ex_rows [Fin 0; Fin 1] [Fin 9; Fin 3] [Fin 0; Fin 1] [Fin 0; Fin 0]].
Proof.
  split; [intros y Hy; lia|]. split.
  - apply (state_transfer_launch_is_cpu (so_locs ex_so) (Fin 9) 3 5 0 2 launch_init_src [ex_lane; ex_lane2]); [lia|intros y Hy; lia].
  - vm_compute. reflexivity.
Qed.

(** ... counted as primary IO (n_io = 2, the situation of C06_state_transfer_io_position_refuted) the condition fails *)
Example no_io_both_needed : ~ no_io_both (so_locs ex_so) 3 5 2.
Proof. intros H. specialize (H 0 ltac:(lia)). vm_compute in H. discriminate. Qed.

Print Assumptions s_ppo_to_ppi_cpu_is_per_position.
Print Assumptions state_transfer_launch_is_cpu.
Print Assumptions state_transfer_launch_state_positions.
