(** Core properties of the waveform-merge routine [wave_eval]:
    totality, final/initial value, well-formedness, overflow indicator, activity counts, hazard-freeness. *)
From Coq Require Import List ZArith NArith Bool Arith Lia.
From KV Require Import Model.Time Model.WaveEval Model.WaveSpec.
Import ListNotations.
Local Open Scope list_scope.

Definition wf_args (ws : list (list time)) (ds : list dtab) (zreg : list time) : Prop :=
  length ws = 4 /\ length ds = 4 /\ Forall wf_wave ws /\ Forall dtab_nonneg ds /\ 4 <= length zreg.

(** * Time *)

Lemma teqb_eq a b : teqb a b = true -> a = b.
Proof.
  destruct a, b; cbn; try discriminate; auto.
  intro H; apply Z.eqb_eq in H; subst; auto.
Qed.

Lemma teqb_refl a : teqb a a = true.
Proof. destruct a; cbn; auto. apply Z.eqb_refl. Qed.

Lemma tmin_cases a b : tmin a b = a \/ tmin a b = b.
Proof. unfold tmin; destruct (tltb b a); auto. Qed.

Lemma tmin_MinInf_r a : tmin a MinInf = MinInf.
Proof. destruct a; reflexivity. Qed.

Lemma tmin_MinInf_l b : tmin MinInf b = MinInf.
Proof. destruct b; reflexivity. Qed.

Lemma tmin_end a b : is_end (tmin a b) = true -> is_end a = true /\ is_end b = true.
Proof.
  unfold tmin; destruct a, b; cbn; try destruct (_ <? _)%Z; cbn; intros; try discriminate; auto.
Qed.

Lemma tadd_end t d : is_end (tadd t d) = is_end t.
Proof. destruct t; reflexivity. Qed.

Lemma tadd_MinInf t d : tadd t d = MinInf -> t = MinInf.
Proof. destruct t; cbn; auto; discriminate. Qed.

Lemma tadd_of_end t d : is_end t = true -> tadd t d = t.
Proof. destruct t; cbn; auto; discriminate. Qed.

Lemma tltb_MinInf_r t : tltb t MinInf = false.
Proof. destruct t; reflexivity. Qed.

Lemma gap_MinInf p th : (0 <= th)%Z -> gap_gt MinInf p th = false.
Proof. intros H; destruct p; cbn; auto. apply Z.ltb_ge; auto. Qed.

Lemma gap_prev_MinInf c th : c <> MinInf -> gap_gt c MinInf th = true.
Proof. intros H; destruct c; cbn; auto; congruence. Qed.

Lemma min4_4 p0 p1 p2 p3 :
  min4 [p0; p1; p2; p3] = tmin (tmin (tmin (tmin MaxOvl p0) p1) p2) p3.
Proof. reflexivity. Qed.

Lemma min4_in p0 p1 p2 p3 :
  let c := min4 [p0; p1; p2; p3] in c = MaxOvl \/ c = p0 \/ c = p1 \/ c = p2 \/ c = p3.
Proof.
  cbv zeta. rewrite min4_4.
  destruct (tmin_cases (tmin (tmin (tmin MaxOvl p0) p1) p2) p3) as [-> | ->]; auto.
  destruct (tmin_cases (tmin (tmin MaxOvl p0) p1) p2) as [-> | ->]; auto.
  destruct (tmin_cases (tmin MaxOvl p0) p1) as [-> | ->]; auto.
  destruct (tmin_cases MaxOvl p0) as [-> | ->]; auto.
Qed.

Lemma min4_end p0 p1 p2 p3 :
  is_end (min4 [p0; p1; p2; p3]) = true ->
  is_end p0 = true /\ is_end p1 = true /\ is_end p2 = true /\ is_end p3 = true.
Proof.
  rewrite min4_4. intros H.
  apply tmin_end in H; destruct H as [H H3].
  apply tmin_end in H; destruct H as [H H2].
  apply tmin_end in H; destruct H as [H H1].
  apply tmin_end in H; destruct H as [_ H0]. auto.
Qed.

Lemma min4_not_MinInf p0 p1 p2 p3 :
  min4 [p0; p1; p2; p3] <> MinInf ->
  p0 <> MinInf /\ p1 <> MinInf /\ p2 <> MinInf /\ p3 <> MinInf.
Proof.
  rewrite min4_4. intros H. repeat split; intros ->; apply H;
    repeat (rewrite ?tmin_MinInf_r, ?tmin_MinInf_l); reflexivity.
Qed.

Lemma first_eq_lt p0 p1 p2 p3 c : first_eq (firstn 3 [p0; p1; p2; p3]) c 0 < 4.
Proof.
  cbn. destruct (teqb p0 c); [lia|]. destruct (teqb p1 c); [lia|]. destruct (teqb p2 c); lia.
Qed.

Lemma first_eq_sel p0 p1 p2 p3 :
  let l := [p0; p1; p2; p3] in
  is_end (min4 l) = false -> nth (first_eq (firstn 3 l) (min4 l) 0) l MaxInf = min4 l.
Proof.
  cbv zeta. intros He.
  pose proof (min4_in p0 p1 p2 p3) as Hin. cbv zeta in Hin.
  set (c := min4 [p0; p1; p2; p3]) in *.
  cbn [firstn first_eq].
  destruct (teqb p0 c) eqn:E0; [apply teqb_eq in E0; exact E0|].
  destruct (teqb p1 c) eqn:E1; [apply teqb_eq in E1; exact E1|].
  destruct (teqb p2 c) eqn:E2; [apply teqb_eq in E2; exact E2|].
  cbn [nth].
  destruct Hin as [H | [H | [H | [H | H]]]]; auto.
  - rewrite H in He; discriminate.
  - rewrite H, teqb_refl in E0; discriminate.
  - rewrite H, teqb_refl in E1; discriminate.
  - rewrite H, teqb_refl in E2; discriminate.
Qed.

Lemma max4_ends p0 p1 p2 p3 :
  is_end p0 = true -> is_end p1 = true -> is_end p2 = true -> is_end p3 = true ->
  let m := max4 [p0; p1; p2; p3] in
  (m = MaxInf \/ m = MaxOvl) /\
  (m = MaxOvl <-> (p0 = MaxOvl \/ p1 = MaxOvl \/ p2 = MaxOvl \/ p3 = MaxOvl)).
Proof.
  destruct p0; try discriminate; destruct p1; try discriminate;
  destruct p2; try discriminate; destruct p3; try discriminate; intros _ _ _ _; cbn;
  (split; [auto|]); split; auto; intros H; repeat (destruct H as [H|H]; try discriminate); discriminate.
Qed.

(** * Lists *)

Lemma wset_length w i v : length (wset w i v) = length w.
Proof. revert i; induction w; destruct i; cbn; auto. Qed.

Lemma wget_wset_eq w i v : i < length w -> wget (wset w i v) i = v.
Proof.
  unfold wget. revert i; induction w; destruct i; cbn; intros; try lia; auto. apply IHw; lia.
Qed.

Lemma wget_wset_neq w i j v : i <> j -> wget (wset w i v) j = wget w j.
Proof.
  unfold wget. revert i j; induction w; destruct i, j; cbn; intros; try lia; auto.
Qed.

Lemma incr_nth_length l k : length (incr_nth l k) = length l.
Proof. revert k; induction l; destruct k; cbn; auto. Qed.

Lemma nth_incr_nth_eq l k : k < length l -> nth k (incr_nth l k) 0 = S (nth k l 0).
Proof. revert k; induction l; destruct k; cbn; intros; try lia; auto. apply IHl; lia. Qed.

Lemma nth_incr_nth_neq l k j : j <> k -> nth j (incr_nth l k) 0 = nth j l 0.
Proof. revert k j; induction l; destruct k, j; cbn; intros; try lia; auto. Qed.

Lemma list4_eta {A} (l : list A) d : length l = 4 -> l = [nth 0 l d; nth 1 l d; nth 2 l d; nth 3 l d].
Proof.
  destruct l as [|a [|b [|c [|e [|f r]]]]]; cbn; intros; try discriminate; reflexivity.
Qed.

Lemma odd_S n : Nat.odd (S n) = negb (Nat.odd n).
Proof. rewrite Nat.odd_succ, <- Nat.negb_odd. reflexivity. Qed.

Lemma odd_pred n : n <> 0 -> Nat.odd (n - 1) = negb (Nat.odd n).
Proof.
  destruct n; [congruence|]. intros _. rewrite odd_S, negb_involutive. f_equal; lia.
Qed.

Lemma row_toggle l k : length l = 4 -> k < 4 ->
  N.lxor (row_of (map Nat.odd l)) (N.shiftl 1 (N.of_nat k)) = row_of (map Nat.odd (incr_nth l k)).
Proof.
  destruct l as [|a [|b [|c [|e [|f r]]]]]; cbn [length]; intros; try discriminate.
  destruct k as [|[|[|[|k]]]]; try lia; cbn [incr_nth map]; rewrite odd_S;
    destruct (Nat.odd a), (Nat.odd b), (Nat.odd c), (Nat.odd e); reflexivity.
Qed.

(** * Waveforms *)

Lemma ntrans_notend w i : i < ntrans w -> is_end (wget w i) = false.
Proof.
  unfold wget. revert i; induction w as [|t r IH]; cbn; intros i Hi; [lia|].
  destruct (is_end t) eqn:E; [lia|]. destruct i; auto. apply IH; lia.
Qed.

Lemma ntrans_end w : is_end (wget w (ntrans w)) = true.
Proof.
  unfold wget. induction w as [|t r IH]; cbn; auto.
  destruct (is_end t) eqn:E; auto.
Qed.

Lemma ntrans_le_length w : ntrans w <= length w.
Proof. induction w as [|t r IH]; cbn; auto. destruct (is_end t); lia. Qed.

Lemma ntrans_char w n :
  (forall i, i < n -> is_end (wget w i) = false) -> is_end (wget w n) = true -> ntrans w = n.
Proof.
  intros H1 H2.
  destruct (lt_eq_lt_dec (ntrans w) n) as [[H|H]|H]; auto.
  - apply H1 in H. rewrite ntrans_end in H; discriminate.
  - apply ntrans_notend in H. congruence.
Qed.

Lemma terminator_cases w : terminator w = MaxInf \/ terminator w = MaxOvl.
Proof.
  unfold terminator. pose proof (ntrans_end w). destruct (wget w (ntrans w)); try discriminate; auto.
Qed.

Lemma dget_nonneg d i j : dtab_nonneg d -> (0 <= dget d i j)%Z.
Proof. unfold dtab_nonneg; intros (A & B & C & D); destruct i, j; cbn; auto. Qed.


Lemma div2_SS n : S (S n) / 2 = S (n / 2).
Proof. replace (S (S n)) with (1 * 2 + n) by lia. rewrite Nat.div_add_l by lia. lia. Qed.

Lemma count_edges_spec w v :
  count_edges w v = if v then (ntrans w / 2, (ntrans w + 1) / 2) else ((ntrans w + 1) / 2, ntrans w / 2).
Proof.
  revert v; induction w as [|t r IH]; intros v; cbn [count_edges ntrans].
  - destruct v; reflexivity.
  - destruct (is_end t); [destruct v; reflexivity|].
    rewrite IH. replace (S (ntrans r) + 1) with (S (S (ntrans r))) by lia. rewrite div2_SS.
    replace (ntrans r + 1) with (S (ntrans r)) by lia.
    destruct v; reflexivity.
Qed.

Lemma edges_spec z :
  edges z = ((ntrans z + 1) / 2 - (match wget z 0 with MinInf => 1 | _ => 0 end), ntrans z / 2).
Proof.
  destruct z as [|t r]; [reflexivity|].
  destruct t; unfold edges; rewrite count_edges_spec; cbn [wget nth ntrans is_end]; try reflexivity.
  - replace (S (ntrans r) + 1) with (S (S (ntrans r))) by lia. rewrite div2_SS.
    replace (S (ntrans r / 2) - 1) with (ntrans r / 2) by lia.
    replace (S (ntrans r)) with (ntrans r + 1) by lia. reflexivity.
  - rewrite Nat.sub_0_r. reflexivity.
Qed.


Lemma no_finite w : wf_wave w -> has_finite w = false ->
  ntrans w = 0 \/ (ntrans w = 1 /\ wget w 0 = MinInf).
Proof.
  intros (Hlen & Hmin) Hf. unfold has_finite, body in Hf.
  destruct w as [|a r]; [left; reflexivity|].
  cbn [ntrans] in *. destruct (is_end a) eqn:Ea; [left; reflexivity|].
  destruct r as [|b r'].
  - right. cbn in *. split; auto. destruct a; cbn in *; try discriminate; auto.
  - cbn [ntrans] in *. destruct (is_end b) eqn:Eb.
    + right. cbn in *. split; auto. destruct a; cbn in *; try discriminate; auto.
    + exfalso. specialize (Hmin 1). cbn [firstn existsb] in Hf.
      apply orb_false_iff in Hf. destruct Hf as (_ & Hf). apply orb_false_iff in Hf. destruct Hf as (Hf & _).
      destruct b; cbn in *; try discriminate. apply Hmin; auto; lia.
Qed.

(** * The loop *)

Section Core.
Variables (lut : N) (ws : list (list time)) (ds : list dtab) (zcap : nat).
Hypothesis Hws : forall k, k < 4 -> wf_wave (nth k ws []).
Hypothesis Hds : forall k, k < 4 -> dtab_nonneg (nth k ds dzero).
Hypothesis Hcap : 4 <= zcap.

Definition W (k : nat) : list time := nth k ws [].
Definition C (st : wst) (k : nat) : nat := nth k (cur4 st) 0.
Definition pendk (st : wst) (k : nat) : time :=
  tadd (wget (W k) (C st k)) (dget (nth k ds dzero) (Nat.odd (C st k)) (zval st)).
Definition pend (st : wst) : list time := pending ws ds (cur4 st) (zval st).
Definition cur_t (st : wst) : time := min4 (pend st).
Definition sel (st : wst) : nat := first_eq (firstn 3 (pend st)) (cur_t st) 0.
Definition stp (st : wst) : wst := step lut ws ds zcap st.

Lemma pend_eq st : pend st = [pendk st 0; pendk st 1; pendk st 2; pendk st 3].
Proof. reflexivity. Qed.

Lemma sel_lt st : sel st < 4.
Proof. unfold sel. rewrite pend_eq. apply first_eq_lt. Qed.

Lemma pendk_nth st k : k < 4 -> nth k (pend st) MaxInf = pendk st k.
Proof. rewrite pend_eq. destruct k as [|[|[|[|k]]]]; try lia; reflexivity. Qed.

Lemma sel_pend st : is_end (cur_t st) = false -> pendk st (sel st) = cur_t st.
Proof.
  intros H. rewrite <- pendk_nth by apply sel_lt.
  unfold sel, cur_t in *. rewrite pend_eq in *. apply first_eq_sel. exact H.
Qed.

Lemma step_spec st :
  let k := sel st in
  let inputs' := N.lxor (inputs st) (N.shiftl 1 (N.of_nat k)) in
  let current := cur_t st in
  let st' := stp st in
  cur4 st' = incr_nth (cur4 st) k /\
  inputs st' = inputs' /\
  exists thresh next_t, (0 <= thresh)%Z /\
  ( (Nat.odd (zcur st) = N.testbit lut inputs' /\ zarr st' = zarr st /\ zcur st' = zcur st /\
     zval st' = zval st /\ prev st' = prev st /\ ovf st' = ovf st)
  \/ (Nat.odd (zcur st) = negb (N.testbit lut inputs') /\ zval st' = negb (zval st) /\
      ( ((zcur st = 0 \/ tltb next_t current = true \/ gap_gt current (prev st) thresh = true) /\
         zcur st < zcap - 1 /\ zarr st' = wset (zarr st) (zcur st) current /\
         zcur st' = S (zcur st) /\ prev st' = current /\ ovf st' = ovf st)
      \/ (zcap - 1 <= zcur st /\ zarr st' = zarr st /\ zcur st' = zcur st - 1 /\ ovf st' = S (ovf st))
      \/ (zcur st <> 0 /\ tltb next_t current = false /\ gap_gt current (prev st) thresh = false /\
          zarr st' = zarr st /\ zcur st' = zcur st - 1 /\
          prev st' = (if Nat.ltb 0 (zcur st - 1) then wget (zarr st) (zcur st - 2) else MinInf) /\
          ovf st' = ovf st)))).
Proof.
  intros k inputs' current st'. subst st'. unfold stp, step.
  fold (pend st). fold (cur_t st). fold (sel st). fold k. fold current. fold inputs'.
  set (thresh := dget (nth k ds dzero) (Nat.odd (nth k (incr_nth (cur4 st) k) 0)) (zval st)).
  set (next_t := tadd _ _).
  assert (Hth : (0 <= thresh)%Z) by (apply dget_nonneg, Hds, sel_lt).
  destruct (eqb (Nat.odd (zcur st)) (N.testbit lut inputs')) eqn:E1; cbn [negb].
  - apply eqb_prop in E1. cbn. split; [reflexivity|split; [reflexivity|]].
    exists thresh, next_t. split; auto. left. repeat split; auto.
  - apply eqb_false_iff in E1.
    assert (E1' : Nat.odd (zcur st) = negb (N.testbit lut inputs'))
      by (destruct (Nat.odd (zcur st)), (N.testbit lut inputs'); cbn; congruence).
    destruct ((zcur st =? 0) || tltb next_t current || gap_gt current (prev st) thresh) eqn:E2.
    + destruct (zcur st <? zcap - 1) eqn:E3; cbn.
      * split; [reflexivity|split; [reflexivity|]].
        exists thresh, next_t. split; auto. right. split; auto. split; auto. left.
        apply Nat.ltb_lt in E3.
        apply orb_true_iff in E2. destruct E2 as [E2|E2]; [apply orb_true_iff in E2; destruct E2 as [E2|E2]|].
        -- apply Nat.eqb_eq in E2. repeat split; auto.
        -- repeat split; auto.
        -- repeat split; auto.
      * split; [reflexivity|split; [reflexivity|]].
        exists thresh, next_t. split; auto. right. split; auto. split; auto. right; left.
        apply Nat.ltb_ge in E3. repeat split; auto.
    + cbn. split; [reflexivity|split; [reflexivity|]].
      exists thresh, next_t. split; auto. right. split; auto. split; auto. right; right.
      apply orb_false_iff in E2. destruct E2 as [E2 E4]. apply orb_false_iff in E2. destruct E2 as [E2 E5].
      apply Nat.eqb_neq in E2. repeat split; auto.
Qed.

Record Inv (st : wst) : Prop := {
  i_par : Nat.odd (zcur st) = N.testbit lut (inputs st);
  i_val : zval st = Nat.odd (zcur st);
  i_inp : inputs st = row_of (map Nat.odd (cur4 st));
  i_len : length (cur4 st) = 4;
  i_cur : forall k, k < 4 -> C st k <= ntrans (W k);
  i_zlen : length (zarr st) = zcap;
  i_zcur : zcur st < zcap;
  i_body : forall i, i < zcur st -> is_end (wget (zarr st) i) = false;
  i_prev : zcur st < zcap - 2 ->
           prev st = if Nat.ltb 0 (zcur st) then wget (zarr st) (zcur st - 1) else MinInf;
  i_min : forall i, 0 < i -> i < zcur st -> wget (zarr st) i <> MinInf
}.

Lemma sel_cur_lt st : Inv st -> is_end (cur_t st) = false -> C st (sel st) < ntrans (W (sel st)).
Proof.
  intros HI He. pose proof (sel_pend st He) as Hp. pose proof (i_cur st HI _ (sel_lt st)) as Hle.
  destruct (Nat.eq_dec (C st (sel st)) (ntrans (W (sel st)))) as [E|E]; [|lia].
  exfalso. rewrite <- Hp in He. unfold pendk in He. rewrite tadd_end, E, ntrans_end in He. discriminate.
Qed.

Lemma C_step st j : Inv st ->
  C (stp st) j = if Nat.eqb j (sel st) then S (C st j) else C st j.
Proof.
  intros HI. destruct (step_spec st) as (Hc & _). cbv zeta in Hc. unfold C. rewrite Hc.
  destruct (Nat.eqb j (sel st)) eqn:E.
  - apply Nat.eqb_eq in E. subst j. apply nth_incr_nth_eq. rewrite (i_len _ HI). apply sel_lt.
  - apply Nat.eqb_neq in E. apply nth_incr_nth_neq; auto.
Qed.

Lemma Inv_step st : Inv st -> is_end (cur_t st) = false -> Inv (stp st).
Proof.
  intros HI He.
  pose proof (sel_cur_lt st HI He) as Hlt.
  pose proof (sel_lt st) as Hk.
  assert (Hlen : length (cur4 (stp st)) = 4).
  { destruct (step_spec st) as (Hc & _). cbv zeta in Hc. rewrite Hc, incr_nth_length. apply HI. }
  assert (Hcur : forall k, k < 4 -> C (stp st) k <= ntrans (W k)).
  { intros j Hj. rewrite C_step by auto. destruct (Nat.eqb j (sel st)) eqn:E.
    - apply Nat.eqb_eq in E. subst j. lia.
    - apply HI; auto. }
  assert (Hinp : inputs (stp st) = row_of (map Nat.odd (cur4 (stp st)))).
  { destruct (step_spec st) as (Hc & Hi & _). cbv zeta in Hc, Hi. rewrite Hi, Hc, (i_inp _ HI).
    apply row_toggle; auto. apply HI. }
  destruct (step_spec st) as (Hc & Hi & th & nt & Hth & Hcases). cbv zeta in *.
  pose proof (i_zcur _ HI) as Hzc0. pose proof (i_zlen _ HI) as Hzl0.
  destruct Hcases as [(Hp & Hz & Hzc & Hv & Hpv & Hov) | (Hp & Hv & [(Hor & Hlt' & Hz & Hzc & Hpv & Hov) | [(Hge & Hz & Hzc & Hov) | (Hnz & Ht & Hg & Hz & Hzc & Hpv & Hov)]])].
  - (* no toggle *)
    constructor; auto; rewrite ?Hz, ?Hzc, ?Hv, ?Hpv; try apply HI. rewrite Hi. exact Hp.
  - (* push *)
    constructor; auto.
    + rewrite Hzc, Hi, odd_S, Hp, negb_involutive. reflexivity.
    + rewrite Hv, Hzc, odd_S, (i_val _ HI). reflexivity.
    + rewrite Hz, wset_length. apply HI.
    + lia.
    + intros i Hi'. rewrite Hz. destruct (Nat.eq_dec i (zcur st)) as [->|Hne].
      * rewrite wget_wset_eq by lia. exact He.
      * rewrite wget_wset_neq by lia. apply HI. lia.
    + intros _. rewrite Hzc, Hpv, Hz. cbn [Nat.ltb Nat.leb].
      replace (S (zcur st) - 1) with (zcur st) by lia. rewrite wget_wset_eq by lia. reflexivity.
    + intros i Hi0 Hi'. rewrite Hz. destruct (Nat.eq_dec i (zcur st)) as [->|Hne].
      * rewrite wget_wset_eq by lia. intros Hm. rewrite Hm in Hor.
        rewrite tltb_MinInf_r, gap_MinInf in Hor by auto.
        destruct Hor as [Hor|[Hor|Hor]]; try discriminate; lia.
      * rewrite wget_wset_neq by lia. apply HI; lia.
  - (* overflow pop *)
    constructor; auto.
    + rewrite Hzc, Hi, odd_pred, Hp, negb_involutive by lia. reflexivity.
    + rewrite Hv, Hzc, odd_pred, (i_val _ HI) by lia. reflexivity.
    + rewrite Hz. apply HI.
    + lia.
    + intros i Hi'. rewrite Hz. apply HI. lia.
    + intros Hlt2. lia.
    + intros i Hi0 Hi'. rewrite Hz. apply HI; lia.
  - (* annihilate *)
    constructor; auto.
    + rewrite Hzc, Hi, odd_pred, Hp, negb_involutive by lia. reflexivity.
    + rewrite Hv, Hzc, odd_pred, (i_val _ HI) by lia. reflexivity.
    + rewrite Hz. apply HI.
    + lia.
    + intros i Hi'. rewrite Hz. apply HI. lia.
    + intros _. rewrite Hzc, Hpv, Hz. replace (zcur st - 1 - 1) with (zcur st - 2) by lia. reflexivity.
    + intros i Hi0 Hi'. rewrite Hz. apply HI; lia.
Qed.

(** ** Termination *)

Definition msum (st : wst) : nat :=
  (ntrans (W 0) - C st 0) + (ntrans (W 1) - C st 1) + (ntrans (W 2) - C st 2) + (ntrans (W 3) - C st 3).

Lemma msum_step st : Inv st -> is_end (cur_t st) = false -> msum (stp st) < msum st.
Proof.
  intros HI He. pose proof (sel_cur_lt st HI He) as Hlt. pose proof (sel_lt st) as Hk.
  pose proof (i_cur _ HI 0). pose proof (i_cur _ HI 1). pose proof (i_cur _ HI 2). pose proof (i_cur _ HI 3).
  unfold msum. rewrite !C_step by auto.
  destruct (sel st) as [|[|[|[|k]]]]; cbn [Nat.eqb]; lia.
Qed.

Lemma loop_total fuel : forall st, Inv st -> msum st < fuel ->
  exists st', loop fuel lut ws ds zcap st = Some st'.
Proof.
  induction fuel as [|f IH]; intros st HI Hm; [lia|].
  cbn [loop]. fold (pend st). fold (cur_t st).
  destruct (is_end (cur_t st)) eqn:He; [eauto|].
  apply IH.
  - apply Inv_step; auto.
  - pose proof (msum_step st HI He). fold (stp st). lia.
Qed.

Lemma loop_inv (P : wst -> Prop) :
  (forall st, P st -> is_end (cur_t st) = false -> P (stp st)) ->
  forall fuel st st', P st -> loop fuel lut ws ds zcap st = Some st' ->
  P st' /\ is_end (cur_t st') = true.
Proof.
  intros Hstep. induction fuel as [|f IH]; intros st st' HP Hl; cbn [loop] in Hl;
    fold (pend st) in Hl; fold (cur_t st) in Hl; destruct (is_end (cur_t st)) eqn:He.
  - inversion Hl; subst; auto.
  - discriminate.
  - inversion Hl; subst; auto.
  - apply IH in Hl; auto.
Qed.

(** ** The exit state *)

Lemma exit_cur st k : Inv st -> is_end (cur_t st) = true -> k < 4 ->
  C st k = ntrans (W k) /\ pendk st k = terminator (W k).
Proof.
  intros HI He Hk. unfold cur_t in He. rewrite pend_eq in He. apply min4_end in He.
  assert (Hpe : is_end (pendk st k) = true).
  { destruct He as (H0 & H1 & H2 & H3). destruct k as [|[|[|[|k]]]]; try lia; auto. }
  unfold pendk in *. rewrite tadd_end in Hpe.
  assert (E : C st k = ntrans (W k)).
  { pose proof (i_cur _ HI k Hk) as Hle.
    destruct (Nat.eq_dec (C st k) (ntrans (W k))) as [E|E]; auto.
    rewrite ntrans_notend in Hpe by lia. discriminate. }
  split; auto. rewrite tadd_of_end by auto. rewrite E. reflexivity.
Qed.

Definition term_of (st : wst) : time := if Nat.ltb 0 (ovf st) then MaxOvl else max4 (pend st).
Definition z_of (st : wst) : list time := wset (zarr st) (zcur st) (term_of st).

Lemma term_spec st : Inv st -> is_end (cur_t st) = true ->
  (term_of st = MaxInf \/ term_of st = MaxOvl) /\
  (term_of st = MaxOvl <-> (0 < ovf st \/ exists k, k < 4 /\ terminator (W k) = MaxOvl)).
Proof.
  intros HI He.
  destruct (exit_cur st 0 HI He) as (_ & E0); [lia|].
  destruct (exit_cur st 1 HI He) as (_ & E1); [lia|].
  destruct (exit_cur st 2 HI He) as (_ & E2); [lia|].
  destruct (exit_cur st 3 HI He) as (_ & E3); [lia|].
  unfold term_of. destruct (Nat.ltb 0 (ovf st)) eqn:Eo.
  - apply Nat.ltb_lt in Eo. split; auto. split; auto.
  - apply Nat.ltb_ge in Eo. rewrite pend_eq, E0, E1, E2, E3.
    destruct (max4_ends (terminator (W 0)) (terminator (W 1)) (terminator (W 2)) (terminator (W 3)))
      as (Hm1 & Hm2); try apply ntrans_end.
    cbv zeta in Hm1, Hm2. split; auto. rewrite Hm2. split.
    + intros H. right. destruct H as [H|[H|[H|H]]]; [exists 0|exists 1|exists 2|exists 3]; split; auto; lia.
    + intros [H|(k & Hk & H)]; [lia|].
      destruct k as [|[|[|[|k]]]]; try lia; auto.
Qed.

Lemma term_end st : Inv st -> is_end (cur_t st) = true -> is_end (term_of st) = true.
Proof. intros HI He. destruct (term_spec st HI He) as ([-> | ->] & _); reflexivity. Qed.

Lemma z_ntrans st : Inv st -> is_end (cur_t st) = true -> ntrans (z_of st) = zcur st.
Proof.
  intros HI He. pose proof (i_zcur _ HI). pose proof (i_zlen _ HI).
  apply ntrans_char; unfold z_of.
  - intros i Hi. rewrite wget_wset_neq by lia. apply HI; auto.
  - rewrite wget_wset_eq by lia. apply term_end; auto.
Qed.

Lemma z_length st : Inv st -> length (z_of st) = zcap.
Proof. intros HI. unfold z_of. rewrite wset_length. apply HI. Qed.

Lemma z_terminator st : Inv st -> is_end (cur_t st) = true -> terminator (z_of st) = term_of st.
Proof.
  intros HI He. unfold terminator. rewrite z_ntrans by auto.
  pose proof (i_zcur _ HI). pose proof (i_zlen _ HI).
  unfold z_of. rewrite wget_wset_eq by lia. reflexivity.
Qed.

Lemma z_wf st : Inv st -> is_end (cur_t st) = true -> wf_wave (z_of st).
Proof.
  intros HI He. pose proof (i_zcur _ HI). split.
  - rewrite z_ntrans, z_length by auto. lia.
  - rewrite z_ntrans by auto. intros i Hi0 Hi. unfold z_of. rewrite wget_wset_neq by lia. apply HI; auto.
Qed.

Lemma odd_cur_row st : Inv st ->
  Nat.odd (zcur st) = lut_at lut (map (fun k => Nat.odd (C st k)) [0; 1; 2; 3]).
Proof.
  intros HI. rewrite (i_par _ HI), (i_inp _ HI). unfold lut_at.
  rewrite (list4_eta (cur4 st) 0) at 1 by apply HI. reflexivity.
Qed.

Lemma z_final st : Inv st -> is_end (cur_t st) = true ->
  final_val (z_of st) = lut_at lut (map (fun k => final_val (W k)) [0; 1; 2; 3]).
Proof.
  intros HI He. unfold final_val at 1. rewrite z_ntrans, odd_cur_row by auto.
  cbn [map]. unfold final_val.
  destruct (exit_cur st 0 HI He) as (-> & _); [lia|].
  destruct (exit_cur st 1 HI He) as (-> & _); [lia|].
  destruct (exit_cur st 2 HI He) as (-> & _); [lia|].
  destruct (exit_cur st 3 HI He) as (-> & _); [lia|]. reflexivity.
Qed.

Lemma z_edges st : Inv st -> is_end (cur_t st) = true ->
  edges (z_of st) =
  ((zcur st + 1) / 2 - (match wget (z_of st) 0 with MinInf => 1 | _ => 0 end), zcur st / 2).
Proof. intros HI He. rewrite edges_spec, z_ntrans by auto. reflexivity. Qed.


(** ** The two phases: TMIN events first, then finite events *)

Definition inits : list bool := map (fun k => init_val (W k)) [0; 1; 2; 3].

Definition PhaseA (st : wst) : Prop :=
  (forall k, k < 4 -> C st k <= 1 /\ (C st k = 1 -> wget (W k) 0 = MinInf)) /\
  zcur st <= 1 /\ (zcur st = 1 -> wget (zarr st) 0 = MinInf) /\ prev st = MinInf.

Definition PhaseB (st : wst) : Prop :=
  (forall k, k < 4 -> wget (W k) 0 = MinInf -> 1 <= C st k) /\
  (lut_at lut inits = true -> 1 <= zcur st /\ wget (zarr st) 0 = MinInf) /\
  (lut_at lut inits = false -> 1 <= zcur st -> wget (zarr st) 0 <> MinInf).

Lemma pendk_B st k : Inv st -> PhaseB st -> k < 4 -> pendk st k <> MinInf.
Proof.
  intros HI (HB & _) Hk E. unfold pendk in E. apply tadd_MinInf in E.
  destruct (C st k) as [|n] eqn:Ec.
  - apply HB in E; auto. lia.
  - pose proof (i_cur _ HI k Hk) as Hle. rewrite Ec in Hle.
    destruct (Hws k Hk) as (_ & Hmin). fold (W k) in Hmin.
    destruct (Nat.eq_dec (S n) (ntrans (W k))) as [E2|E2].
    + pose proof (ntrans_end (W k)) as H. rewrite <- E2, E in H. discriminate.
    + apply (Hmin (S n)); auto; lia.
Qed.

Lemma cur_B st : Inv st -> PhaseB st -> is_end (cur_t st) = false -> cur_t st <> MinInf.
Proof.
  intros HI HB He. rewrite <- (sel_pend st He). apply pendk_B; auto. apply sel_lt.
Qed.

Lemma pend_not_MinInf st k : cur_t st <> MinInf -> k < 4 -> pendk st k <> MinInf.
Proof.
  intros H Hk. unfold cur_t in H. rewrite pend_eq in H. apply min4_not_MinInf in H.
  destruct H as (H0 & H1 & H2 & H3). destruct k as [|[|[|[|k]]]]; try lia; auto.
Qed.

Lemma A_odd st k : PhaseA st -> cur_t st <> MinInf -> k < 4 -> Nat.odd (C st k) = init_val (W k).
Proof.
  intros (HA & _) Hc Hk. destruct (HA k Hk) as (Hle & H1).
  pose proof (pend_not_MinInf st k Hc Hk) as Hp. unfold pendk in Hp. unfold init_val.
  destruct (C st k) as [|[|n]]; [| |lia].
  - destruct (wget (W k) 0); cbn in *; auto; congruence.
  - rewrite H1; auto.
Qed.

Lemma A_to_B st : Inv st -> PhaseA st -> cur_t st <> MinInf -> PhaseB st.
Proof.
  intros HI HA Hc.
  assert (Hodd : Nat.odd (zcur st) = lut_at lut inits).
  { rewrite odd_cur_row by auto. unfold inits. cbn [map]. rewrite !(A_odd st) by (auto; lia). reflexivity. }
  destruct HA as (HA & Hz1 & Hz0 & Hpv).
  split; [|split].
  - intros k Hk E. pose proof (pend_not_MinInf st k Hc Hk) as Hp. unfold pendk in Hp.
    destruct (C st k); [|lia]. rewrite E in Hp. cbn in Hp. congruence.
  - intros Hl. rewrite Hl in Hodd. destruct (zcur st) as [|[|n]]; cbn in Hodd; try discriminate; try lia.
    split; auto.
  - intros Hl Hz. rewrite Hl in Hodd. destruct (zcur st) as [|[|n]]; cbn in Hodd; try discriminate; lia.
Qed.

Lemma A_step st : Inv st -> PhaseA st -> cur_t st = MinInf -> PhaseA (stp st).
Proof.
  intros HI (HA & Hz1 & Hz0 & Hpv) Hc.
  assert (He : is_end (cur_t st) = false) by (rewrite Hc; reflexivity).
  pose proof (sel_lt st) as Hk. pose proof (sel_cur_lt st HI He) as Hlt.
  pose proof (sel_pend st He) as Hp. rewrite Hc in Hp. unfold pendk in Hp. apply tadd_MinInf in Hp.
  destruct (HA _ Hk) as (Hle & _).
  assert (Hc0 : C st (sel st) = 0).
  { destruct (C st (sel st)) as [|[|n]] eqn:Ec; auto; [|lia].
    exfalso. destruct (Hws _ Hk) as (_ & Hmin). apply (Hmin 1); auto; lia. }
  rewrite Hc0 in Hp.
  split.
  { intros j Hj. rewrite C_step by auto. destruct (Nat.eqb j (sel st)) eqn:E.
    - apply Nat.eqb_eq in E. subst j. rewrite Hc0. split; auto.
    - apply HA; auto. }
  destruct (step_spec st) as (_ & _ & th & nt & Hth & Hcases). cbv zeta in Hcases.
  rewrite Hc, Hpv in Hcases.
  pose proof (i_zcur _ HI) as Hzc0. pose proof (i_zlen _ HI) as Hzl0.
  destruct Hcases as [(_ & Hz & Hzc & _ & Hpv' & _) | (_ & _ & [(Hor & _ & Hz & Hzc & Hpv' & _) | [(Hge & _) | (Hnz & _ & _ & Hz & Hzc & Hpv' & _)]])].
  - rewrite Hz, Hzc, Hpv'. auto.
  - rewrite tltb_MinInf_r, gap_MinInf in Hor by auto.
    assert (Hz00 : zcur st = 0) by (destruct Hor as [Hor|[Hor|Hor]]; auto; discriminate).
    rewrite Hz, Hzc, Hpv', Hz00. repeat split; auto. intros _. apply wget_wset_eq. lia.
  - lia.
  - rewrite Hz, Hzc, Hpv'. assert (Hz11 : zcur st = 1) by lia. rewrite Hz11. cbn. repeat split; auto; lia.
Qed.

Lemma B_step st : Inv st -> PhaseB st -> is_end (cur_t st) = false -> PhaseB (stp st).
Proof.
  intros HI HB He. pose proof (cur_B st HI HB He) as Hc.
  destruct HB as (HB1 & HB2 & HB3).
  split.
  { intros j Hj E. rewrite C_step by auto. specialize (HB1 j Hj E). destruct (Nat.eqb j (sel st)); lia. }
  destruct (step_spec st) as (_ & _ & th & nt & Hth & Hcases). cbv zeta in Hcases.
  pose proof (i_zcur _ HI) as Hzc0. pose proof (i_zlen _ HI) as Hzl0.
  destruct Hcases as [(_ & Hz & Hzc & _) | (_ & _ & [(Hor & Hlt & Hz & Hzc & _) | [(Hge & Hz & Hzc & _) | (Hnz & _ & Hg & Hz & Hzc & _)]])];
    rewrite Hz, Hzc.
  - auto.
  - split.
    + intros Hl. destruct (HB2 Hl) as (H1 & H2). split; [lia|]. rewrite wget_wset_neq by lia. auto.
    + intros Hl _. destruct (Nat.eq_dec (zcur st) 0) as [E|E].
      * rewrite E, wget_wset_eq by lia. auto.
      * rewrite wget_wset_neq by lia. apply HB3; auto. lia.
  - split.
    + intros Hl. destruct (HB2 Hl) as (H1 & H2). split; [lia|auto].
    + intros Hl _. apply HB3; auto. lia.
  - split.
    + intros Hl. destruct (HB2 Hl) as (H1 & H2). split; auto.
      destruct (Nat.eq_dec (zcur st) 1) as [E|E]; [|lia]. exfalso.
      rewrite (i_prev _ HI) in Hg by lia. rewrite E in Hg. cbn in Hg. rewrite H2 in Hg.
      rewrite gap_prev_MinInf in Hg by auto. discriminate.
    + intros Hl Hz1. apply HB3; auto. lia.
Qed.

Lemma AB_step st : Inv st -> PhaseA st \/ PhaseB st -> is_end (cur_t st) = false ->
  PhaseA (stp st) \/ PhaseB (stp st).
Proof.
  intros HI HAB He.
  destruct (cur_t st) eqn:Ec; try discriminate.
  - destruct HAB as [HA|HB]; [left; apply A_step; auto|].
    exfalso. apply (cur_B st HI HB); auto. rewrite Ec; reflexivity.
  - right. apply B_step; auto; [|rewrite Ec; reflexivity].
    destruct HAB as [HA|HB]; auto. apply A_to_B; auto. rewrite Ec; discriminate.
Qed.

Lemma AB_exit st : Inv st -> PhaseA st \/ PhaseB st -> is_end (cur_t st) = true -> PhaseB st.
Proof.
  intros HI [HA|HB] He; auto. apply A_to_B; auto. intros E. rewrite E in He. discriminate.
Qed.

Lemma z_init st : Inv st -> PhaseB st -> is_end (cur_t st) = true ->
  init_val (z_of st) = lut_at lut inits.
Proof.
  intros HI (_ & HB2 & HB3) He. pose proof (term_end st HI He) as Ht.
  pose proof (i_zcur _ HI) as Hzc0. pose proof (i_zlen _ HI) as Hzl0.
  unfold init_val, z_of. destruct (Nat.eq_dec (zcur st) 0) as [E|E].
  - rewrite E, wget_wset_eq by lia.
    destruct (lut_at lut inits) eqn:El.
    + destruct (HB2 eq_refl). lia.
    + destruct (term_of st); try discriminate; reflexivity.
  - rewrite wget_wset_neq by lia. destruct (lut_at lut inits) eqn:El.
    + destruct (HB2 eq_refl) as (_ & ->). reflexivity.
    + specialize (HB3 eq_refl). destruct (wget (zarr st) 0); auto. elim HB3; auto; lia.
Qed.

(** ** Hazard-freeness *)

Definition Quiet (st : wst) : Prop := zcur st <= 1 /\ (zcur st = 1 -> wget (zarr st) 0 = MinInf).

Hypothesis Hconst : forall vs, length vs = 4 ->
  (forall k, k < 4 -> has_finite (W k) = false -> nth k vs false = init_val (W k)) ->
  lut_at lut vs = lut_at lut inits.

Lemma B_odd st : Inv st -> PhaseB st -> Nat.odd (zcur st) = lut_at lut inits.
Proof.
  intros HI (HB1 & _). rewrite odd_cur_row by auto. apply Hconst; [reflexivity|].
  intros k Hk Hf.
  assert (E : nth k (map (fun k0 => Nat.odd (C st k0)) [0; 1; 2; 3]) false = Nat.odd (C st k))
    by (destruct k as [|[|[|[|k]]]]; try lia; reflexivity).
  rewrite E. pose proof (i_cur _ HI k Hk) as Hle.
  destruct (no_finite (W k) (Hws k Hk) Hf) as [H0 | (H1 & Hm)].
  - rewrite H0 in Hle. assert (E0 : C st k = 0) by lia. rewrite E0. unfold init_val.
    pose proof (ntrans_end (W k)) as H. rewrite H0 in H. destruct (wget (W k) 0); try discriminate; reflexivity.
  - specialize (HB1 k Hk Hm). assert (E1 : C st k = 1) by lia. rewrite E1. unfold init_val. rewrite Hm. reflexivity.
Qed.

Lemma Quiet_step st : Inv st -> PhaseA st \/ PhaseB st -> Quiet st -> is_end (cur_t st) = false ->
  Quiet (stp st).
Proof.
  intros HI HAB (HQ1 & HQ2) He.
  destruct (cur_t st) eqn:Ec; try discriminate.
  - destruct HAB as [HA|HB].
    + destruct (A_step st HI HA Ec) as (_ & H1 & H2 & _). split; auto.
    + exfalso. apply (cur_B st HI HB); auto. rewrite Ec; reflexivity.
  - assert (HB : PhaseB st).
    { destruct HAB as [HA|HB]; auto. apply A_to_B; auto. rewrite Ec; discriminate. }
    assert (He' : is_end (cur_t st) = false) by (rewrite Ec; reflexivity).
    pose proof (B_odd st HI HB) as Ho.
    pose proof (B_odd (stp st) (Inv_step st HI He') (B_step st HI HB He')) as Ho'.
    destruct (step_spec st) as (_ & _ & th & nt & Hth & Hcases). cbv zeta in Hcases.
    destruct Hcases as [(_ & Hz & Hzc & _) | (_ & _ & [(_ & _ & _ & Hzc & _) | [(Hge & _) | (Hnz & _ & _ & _ & Hzc & _)]])].
    + unfold Quiet. rewrite Hz, Hzc. auto.
    + exfalso. rewrite Hzc, odd_S, Ho in Ho'. destruct (lut_at lut inits); discriminate.
    + lia.
    + exfalso. rewrite Hzc, odd_pred, Ho in Ho' by auto. destruct (lut_at lut inits); discriminate.
Qed.

Lemma z_quiet st : Inv st -> Quiet st -> is_end (cur_t st) = true -> has_finite (z_of st) = false.
Proof.
  intros HI (HQ1 & HQ2) He. unfold has_finite, body. rewrite z_ntrans by auto.
  pose proof (i_zcur _ HI) as Hzc0. pose proof (i_zlen _ HI) as Hzl0.
  destruct (zcur st) as [|[|n]] eqn:Ez; [reflexivity| |lia].
  specialize (HQ2 eq_refl). unfold z_of. rewrite Ez.
  destruct (zarr st) as [|a r]; [reflexivity|]. cbn in HQ2. subst a. reflexivity.
Qed.

End Core.

(** * The wrapper [wave_eval] *)

Definition init_st (lut : N) (zreg : list time) : wst :=
  let z1 := N.odd lut in
  {| cur4 := [0; 0; 0; 0]; inputs := 0%N; zarr := if z1 then wset zreg 0 MinInf else zreg;
     zcur := if z1 then 1 else 0; zval := z1; prev := MinInf; ovf := 0 |}.

Definition result (ws : list (list time)) (ds : list dtab) (st : wst) : wres :=
  let z := z_of ws ds st in
  {| r_z := z;
     r_rise := Nat.div (zcur st + 1) 2 - match wget z 0 with MinInf => 1 | _ => 0 end;
     r_fall := Nat.div (zcur st) 2;
     r_ovf := ovf st |}.

Definition fuel_of (ws : list (list time)) : nat := S (fold_left (fun n w => n + length w) ws 0).

Lemma wave_eval_eq lut ws ds zreg :
  wave_eval lut ws ds zreg =
  match loop (fuel_of ws) lut ws ds (length zreg) (init_st lut zreg) with
  | None => None
  | Some st => Some (result ws ds st)
  end.
Proof. reflexivity. Qed.

Lemma wf_args_ws ws ds zreg : wf_args ws ds zreg -> forall k, k < 4 -> wf_wave (nth k ws []).
Proof.
  intros (Hl & _ & Hf & _) k Hk. rewrite Forall_forall in Hf. apply Hf, nth_In. lia.
Qed.

Lemma wf_args_ds ws ds zreg : wf_args ws ds zreg -> forall k, k < 4 -> dtab_nonneg (nth k ds dzero).
Proof.
  intros (_ & Hl & _ & Hf & _) k Hk. rewrite Forall_forall in Hf. apply Hf, nth_In. lia.
Qed.

Lemma wf_args_cap ws ds zreg : wf_args ws ds zreg -> 4 <= length zreg.
Proof. intros (_ & _ & _ & _ & H). exact H. Qed.

Lemma map_nth4 {B} (f : list time -> B) ws : length ws = 4 ->
  map f ws = map (fun k => f (W ws k)) [0; 1; 2; 3].
Proof.
  destruct ws as [|a [|b [|c [|e [|g r]]]]]; cbn; intros; try discriminate; reflexivity.
Qed.

Lemma Inv_init lut ws zreg : 4 <= length zreg -> Inv lut ws (length zreg) (init_st lut zreg).
Proof.
  intros Hc. unfold init_st. cbv zeta.
  constructor; cbn [cur4 inputs zarr zcur zval prev ovf].
  - rewrite N.bit0_odd. destruct (N.odd lut); reflexivity.
  - destruct (N.odd lut); reflexivity.
  - reflexivity.
  - reflexivity.
  - intros k Hk. unfold C. cbn [cur4]. destruct k as [|[|[|[|k]]]]; cbn; lia.
  - destruct (N.odd lut); [apply wset_length|reflexivity].
  - destruct (N.odd lut); lia.
  - intros i Hi. destruct (N.odd lut); [|lia]. assert (i = 0) by lia; subst i.
    rewrite wget_wset_eq by lia. reflexivity.
  - intros _. destruct (N.odd lut); cbn; [|reflexivity]. rewrite wget_wset_eq by lia. reflexivity.
  - intros i Hi0 Hi. destruct (N.odd lut); lia.
Qed.

Lemma PhaseA_init lut ws zreg : 4 <= length zreg -> PhaseA ws (init_st lut zreg).
Proof.
  intros Hc. unfold init_st, PhaseA. cbv zeta. cbn [cur4 inputs zarr zcur zval prev ovf].
  split; [|split; [|split]].
  - intros k Hk. unfold C. cbn [cur4]. destruct k as [|[|[|[|k]]]]; cbn; lia.
  - destruct (N.odd lut); lia.
  - destruct (N.odd lut); [|lia]. intros _. rewrite wget_wset_eq by lia. reflexivity.
  - reflexivity.
Qed.

Lemma msum_init lut ws zreg : length ws = 4 -> msum ws (init_st lut zreg) < fuel_of ws.
Proof.
  intros Hl. unfold msum, fuel_of, C, W. cbn [init_st cur4 nth].
  destruct ws as [|a [|b [|c [|e [|g r]]]]]; try discriminate. cbn [fold_left nth].
  pose proof (ntrans_le_length a). pose proof (ntrans_le_length b).
  pose proof (ntrans_le_length c). pose proof (ntrans_le_length e). lia.
Qed.

(** Every invariant preserved by the steps holds for the state from which the result is built. *)
Lemma wave_run lut ws ds zreg r (P : wst -> Prop) :
  wf_args ws ds zreg -> wave_eval lut ws ds zreg = Some r ->
  P (init_st lut zreg) ->
  (forall st, Inv lut ws (length zreg) st -> P st -> is_end (cur_t ws ds st) = false ->
              P (stp lut ws ds (length zreg) st)) ->
  exists st, Inv lut ws (length zreg) st /\ P st /\ is_end (cur_t ws ds st) = true /\ r = result ws ds st.
Proof.
  intros Hwf Hev HP0 Hstep. rewrite wave_eval_eq in Hev.
  destruct (loop (fuel_of ws) lut ws ds (length zreg) (init_st lut zreg)) as [st|] eqn:Hl; [|discriminate].
  inversion Hev; subst r. exists st.
  pose proof (wf_args_ds _ _ _ Hwf) as Hds. pose proof (wf_args_cap _ _ _ Hwf) as Hcap.
  apply (loop_inv lut ws ds (length zreg) (fun st => Inv lut ws (length zreg) st /\ P st)) in Hl.
  - destruct Hl as ((HI & HP) & He). auto.
  - intros st0 (HI & HP) He. split; [apply Inv_step; auto|apply Hstep; auto].
  - split; auto. apply Inv_init; auto.
Qed.

Lemma wave_run0 lut ws ds zreg r :
  wf_args ws ds zreg -> wave_eval lut ws ds zreg = Some r ->
  exists st, Inv lut ws (length zreg) st /\ is_end (cur_t ws ds st) = true /\ r = result ws ds st.
Proof.
  intros Hwf Hev. destruct (wave_run lut ws ds zreg r (fun _ => True) Hwf Hev) as (st & HI & _ & He & Hr); auto.
  exists st; auto.
Qed.

Lemma wave_runAB lut ws ds zreg r :
  wf_args ws ds zreg -> wave_eval lut ws ds zreg = Some r ->
  exists st, Inv lut ws (length zreg) st /\ PhaseB lut ws st /\
             is_end (cur_t ws ds st) = true /\ r = result ws ds st.
Proof.
  intros Hwf Hev.
  pose proof (wf_args_ws _ _ _ Hwf) as Hws. pose proof (wf_args_ds _ _ _ Hwf) as Hds.
  pose proof (wf_args_cap _ _ _ Hwf) as Hcap.
  destruct (wave_run lut ws ds zreg r (fun st => PhaseA ws st \/ PhaseB lut ws st) Hwf Hev)
    as (st & HI & HAB & He & Hr).
  - left. apply PhaseA_init; auto.
  - intros st HI HAB He. eapply AB_step; eauto.
  - exists st. split; [exact HI|split; [eapply AB_exit; eauto|split; auto]].
Qed.

(** * Main theorems *)

Theorem wave_total lut ws ds zreg : wf_args ws ds zreg -> exists r, wave_eval lut ws ds zreg = Some r.
Proof.
  intros Hwf. pose proof (wf_args_ds _ _ _ Hwf) as Hds. pose proof (wf_args_cap _ _ _ Hwf) as Hcap.
  rewrite wave_eval_eq.
  destruct (loop_total lut ws ds (length zreg) Hds Hcap (fuel_of ws) (init_st lut zreg)) as (st & ->).
  - apply Inv_init; auto.
  - apply msum_init. apply Hwf.
  - eauto.
Qed.

Theorem wave_final lut ws ds zreg r : wf_args ws ds zreg -> wave_eval lut ws ds zreg = Some r ->
  final_val (r_z r) = lut_at lut (map final_val ws).
Proof.
  intros Hwf Hev. destruct (wave_run0 _ _ _ _ _ Hwf Hev) as (st & HI & He & ->).
  pose proof (wf_args_cap _ _ _ Hwf) as Hcap.
  cbn [result r_z]. rewrite (map_nth4 final_val ws) by apply Hwf. eapply z_final; eauto.
Qed.

Theorem wave_init lut ws ds zreg r : wf_args ws ds zreg -> wave_eval lut ws ds zreg = Some r ->
  init_val (r_z r) = lut_at lut (map init_val ws).
Proof.
  intros Hwf Hev. destruct (wave_runAB _ _ _ _ _ Hwf Hev) as (st & HI & HB & He & ->).
  pose proof (wf_args_cap _ _ _ Hwf) as Hcap.
  cbn [result r_z]. rewrite (map_nth4 init_val ws) by apply Hwf. eapply z_init; eauto.
Qed.

Theorem wave_wf lut ws ds zreg r : wf_args ws ds zreg -> wave_eval lut ws ds zreg = Some r ->
  wf_wave (r_z r) /\ length (r_z r) = length zreg /\ ntrans (r_z r) < length zreg.
Proof.
  intros Hwf Hev. destruct (wave_run0 _ _ _ _ _ Hwf Hev) as (st & HI & He & ->).
  pose proof (wf_args_cap _ _ _ Hwf) as Hcap.
  cbn [result r_z]. split; [|split].
  - eapply z_wf; eauto.
  - eapply z_length; eauto.
  - erewrite z_ntrans by eauto. apply HI.
Qed.

Theorem wave_ovl lut ws ds zreg r : wf_args ws ds zreg -> wave_eval lut ws ds zreg = Some r ->
  (terminator (r_z r) = MaxOvl <-> (0 < r_ovf r \/ exists k, k < 4 /\ terminator (nth k ws []) = MaxOvl)) /\
  (terminator (r_z r) = MaxInf \/ terminator (r_z r) = MaxOvl).
Proof.
  intros Hwf Hev. destruct (wave_run0 _ _ _ _ _ Hwf Hev) as (st & HI & He & ->).
  pose proof (wf_args_cap _ _ _ Hwf) as Hcap.
  cbn [result r_z r_ovf]. erewrite z_terminator by eauto.
  destruct (term_spec lut ws ds (length zreg) Hcap st HI He) as (H1 & H2). split; auto.
Qed.

Theorem wsa_counts lut ws ds zreg r : wf_args ws ds zreg -> wave_eval lut ws ds zreg = Some r ->
  (r_rise r, r_fall r) = edges (r_z r).
Proof.
  intros Hwf Hev. destruct (wave_run0 _ _ _ _ _ Hwf Hev) as (st & HI & He & ->).
  pose proof (wf_args_cap _ _ _ Hwf) as Hcap.
  cbn [result r_z r_rise r_fall]. erewrite z_edges by eauto. reflexivity.
Qed.

Theorem no_change_no_edge lut ws ds zreg r : wf_args ws ds zreg -> wave_eval lut ws ds zreg = Some r ->
  (forall vs, length vs = 4 ->
     (forall k, k < 4 -> has_finite (nth k ws []) = false -> nth k vs false = init_val (nth k ws [])) ->
     lut_at lut vs = lut_at lut (map init_val ws)) ->
  has_finite (r_z r) = false.
Proof.
  intros Hwf Hev Hconst.
  pose proof (wf_args_ws _ _ _ Hwf) as Hws. pose proof (wf_args_ds _ _ _ Hwf) as Hds.
  pose proof (wf_args_cap _ _ _ Hwf) as Hcap.
  rewrite (map_nth4 init_val ws) in Hconst by apply Hwf. fold (inits ws) in Hconst.
  destruct (wave_run lut ws ds zreg r
              (fun st => (PhaseA ws st \/ PhaseB lut ws st) /\ Quiet st) Hwf Hev)
    as (st & HI & (HAB & HQ) & He & ->).
  - split; [left; apply PhaseA_init; auto|].
    destruct (PhaseA_init lut ws zreg Hcap) as (_ & H1 & H2 & _). split; auto.
  - intros st HI (HAB & HQ) He. split; [eapply AB_step; eauto|eapply Quiet_step; eauto].
  - cbn [result r_z]. eapply z_quiet; eauto.
Qed.


(** * A concrete overflowing instance: XOR2 (lut 0x6666) into a 4-entry region *)

Module OverflowExample.
Local Open Scope Z_scope.
Definition d1 : dtab := {| d00 := 1; d01 := 2; d10 := 1; d11 := 2 |}.
Definition ws : list (list time) :=
  [[MinInf; Fin 10; Fin 30; Fin 50; MaxInf]; [Fin 20; Fin 40; Fin 60; Fin 80; MaxInf]; [MaxInf]; [MaxInf]].
Definition ds : list dtab := [d1; d1; dzero; dzero].
Definition zreg : list time := [MaxInf; MaxInf; MaxInf; MaxInf].
Local Close Scope Z_scope.

Lemma ws_wf : Forall wf_wave ws.
Proof.
  repeat constructor; cbn; try lia;
    intros i H0 H1; do 4 (destruct i as [|i]; [try lia; cbn; discriminate|]); lia.
Qed.

Example overflow_instance :
  wf_args ws ds zreg /\
  wave_eval 26214 ws ds zreg =
    Some {| r_z := [MinInf; Fin 12; MaxOvl; MaxInf]; r_rise := 0; r_fall := 1; r_ovf := 3 |} /\
  (forall r, wave_eval 26214 ws ds zreg = Some r ->
     0 < r_ovf r /\ terminator (r_z r) = MaxOvl /\
     final_val (r_z r) = false /\ init_val (r_z r) = true /\ edges (r_z r) = (0, 1)).
Proof.
  split; [|split].
  - unfold wf_args. split; [reflexivity|]. split; [reflexivity|]. split; [exact ws_wf|]. split.
    + repeat constructor; cbn; lia.
    + cbn; lia.
  - vm_compute. reflexivity.
  - intros r H. vm_compute in H. inversion H; subst r. vm_compute. repeat split; lia.
Qed.

(** Remark: after an overflow pop [prev] holds the dropped entry, not the entry below the cursor
    (state after four steps of this instance). *)
Fixpoint iter (n : nat) (st : wst) : wst :=
  match n with O => st | S n => iter n (step 26214 ws ds 4 st) end.
Example prev_after_overflow :
  let st := iter 4 (init_st 26214 zreg) in
  zcur st = 2 /\ ovf st = 1 /\ prev st = Fin 21 /\ wget (zarr st) (zcur st - 1) = Fin 12.
Proof. vm_compute. repeat split. Qed.
End OverflowExample.

Print Assumptions wave_total.
Print Assumptions wave_final.
Print Assumptions wave_init.
Print Assumptions wave_wf.
Print Assumptions wave_ovl.
Print Assumptions wsa_counts.
Print Assumptions no_change_no_edge.
Print Assumptions OverflowExample.overflow_instance.
