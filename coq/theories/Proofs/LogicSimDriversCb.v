(** The callback statement of the three loop copies of LogicSim.c_prop that have one, packaged for Properties/C16.v. *)
From Coq Require Import List ZArith NArith Bool Arith Lia String.
From KV Require Import Model.SimOps Model.WaveDrvPrelude Model.LogicSimDrvPrelude Gen.LogicSimDriversSrc Proofs.LogicSimDriversProofs.
Import ListNotations.
Local Open Scope list_scope.

(** the callback statement of all three copies, packaged *)
Theorem callback_loop_structure : forall L, (L = loop_cprop2_cb \/ L = loop_cprop4 \/ L = loop_cprop8) ->
  forall mdim locs nl t0 t1 f,
  (forall M tr o, iter_src mdim L locs nl t0 t1 (Some f) (M, tr) (row_of o) =
     let M1 := fst (iter_src mdim L locs nl t0 t1 None (M, tr) (row_of o)) in
     let lo := zrd (-1) locs (Z.of_nat (s_out o)) in
     if Nat.ltb (s_out o) nl then (mwr M1 lo (f (s_out o) (mrd mdim M1 lo)), tr ++ [(s_out o, mrd mdim M1 lo)]) else (M1, tr)) /\
  (forall ops M, map fst (snd (run_loop mdim L locs nl t0 t1 (Some f) (map row_of ops) M)) = filter (fun k => Nat.ltb k nl) (map s_out ops)).
Proof.
  intros L HL mdim locs nl t0 t1 f.
  assert (Hs : exists tn, std_shape L (Some (std_cb tn))).
  { destruct HL as [-> | [-> | ->]]; [exists false; exact shape_2cb | exists true; exact shape_4 | exists true; exact shape_8]. }
  destruct Hs as [tn Hs]. split.
  - intros M tr o. exact (iter_cb_structure mdim L tn locs nl t0 t1 f M tr o Hs).
  - intros ops M. unfold run_loop. rewrite (callback_call_sequence mdim L tn locs nl t0 t1 f Hs). reflexivity.
Qed.
