(** C09, substitute: the code before commit 119be80 (dangling logic removed inside the output loop) violates the invariant
    (witness below); the current code does not on the same input. *)
From Coq Require Import List Arith Bool String Lia.
From KV Require Import Model.Circuit Model.CircuitInv Model.CircuitCorr Proofs.CircuitBase Proofs.CircuitProofs Proofs.CircuitBool.
Import ListNotations.
Local Open Scope list_scope.
Local Open Scope string_scope.

(** the instance: a cell "u" whose output pin 1 drives the fork "o1", output pin 0 is unconnected *)
Definition wit_ops : list op := [ AddNode "u" "X"; AddNode "o1" FORK; AddLine 0 (Some 1) 1 None ].
(** bench.parse('input(A) output(Y1,Y2) Y2=INV1(A) Y1=BUF1(Y2)') after eliminate_1to1_forks, as tables *)
Definition wit_impl : circ :=
  circ_of_tables
    (NRC (NR "A" FORK 0 ON (OC (So 1) ON))
    (NRC (NR "Y1" FORK 1 (OC (So 2) ON) ON)
    (NRC (NR "Y2" FORK 2 (OC (So 0) ON) (OC (So 3) ON))
    (NRC (NR "Y2" "INV1" 3 (OC (So 1) ON) (OC (So 0) ON))
    (NRC (NR "Y1" "BUF1" 4 (OC (So 3) ON) (OC (So 2) ON)) NRN)))))
    (LRC (LR 0 (So 3) 0 (So 2) 0) (LRC (LR 1 (So 0) 0 (So 3) 0) (LRC (LR 2 (So 4) 0 (So 1) 0) (LRC (LR 3 (So 2) 0 (So 4) 0) LRN))))
    (OC (So 0) (OC (So 1) (OC (So 2) ON))).

Definition wit_circ : circ := match run_hist wit_ops with Some c => c | None => empty end.

Lemma wit_circ_inv : CInv wit_circ.
Proof. apply cinv_b_sound. vm_compute. reflexivity. Qed.
Lemma wit_impl_inv : CInv wit_impl.
Proof. apply cinv_b_sound. vm_compute. reflexivity. Qed.
Lemma wit_pre : pre wit_circ (Substitute 0 wit_impl) = true.
Proof. vm_compute. reflexivity. Qed.

(* what the earlier code (clean-up inside the output loop) leaves behind: line 0 is listed, its driver (node id 2, the
   fork "u~Y2") is not *)
Lemma wit_facts :
  option_map (fun c' => (lines c', l_drv (lst c' 0), nodes c')) (substitute_gen false wit_circ 0 wit_impl) = Some ([0], Some 2, [1]).
Proof. vm_compute. reflexivity. Qed.

Theorem substitute_early_cleanup_refuted :
  exists c n impl, CInv c /\ CInv impl /\ pre c (Substitute n impl) = true /\
                   exists c', substitute_gen false c n impl = Some c' /\ ~ CInv c'.
Proof.
  exists wit_circ, 0, wit_impl. split. exact wit_circ_inv. split. exact wit_impl_inv. split. exact wit_pre.
  pose proof wit_facts as F.
  destruct (substitute_gen false wit_circ 0 wit_impl) as [c'|] eqn:E; [|discriminate].
  exists c'. split; auto. simpl in F. injection F as F1 F2 F3.
  intros [HC _].
  destruct (cc_line [] c' HC 0) as [d [r [H1 [_ [[H3|[]] _]]]]]. { rewrite F1. left; auto. }
  rewrite F2 in H1. injection H1 as <-. rewrite F3 in H3. destruct H3 as [H3|[]]. discriminate.
Qed.

(* the code (clean-up after all outputs are connected) is consistent on the same input *)
Theorem substitute_witness_ok : exists c', step wit_circ (Substitute 0 wit_impl) = Some c' /\ CInv c'.
Proof.
  simpl. assert (E : option_map cinv_b (substitute wit_circ 0 wit_impl) = Some true) by (vm_compute; reflexivity).
  destruct (substitute wit_circ 0 wit_impl) as [c'|]; [|discriminate]. exists c'. split; auto.
  apply cinv_b_sound. simpl in E. congruence.
Qed.
