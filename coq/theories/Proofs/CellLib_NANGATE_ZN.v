(** C10, library clause: the exhaustive sweeps over lib_NANGATE_ZN (regenerated from techlib.py on every run), evaluated by the
    kernel's VM once each (vm_cast_no_check: the only evaluation is the one at Qed).  Nothing but Properties/C10Lib.v depends
    on this file. *)
From Coq Require Import List Bool String.
From KV Require Import Model.TechCell Model.CellCircuit Gen.TechLibs.

Lemma NANGATE_ZN_all : lib_all_fast lib_NANGATE_ZN d15_NANGATE = true.
Proof. vm_cast_no_check (eq_refl true). Qed.
Lemma NANGATE_ZN_one : lib_one_fast lib_NANGATE_ZN d15_NANGATE = true.
Proof. vm_cast_no_check (eq_refl true). Qed.
Lemma NANGATE_ZN_noout : lib_noout_fast lib_NANGATE_ZN = true.
Proof. vm_cast_no_check (eq_refl true). Qed.
Lemma NANGATE_ZN_all_refuted : lib_all_refuted lib_NANGATE_ZN d15_NANGATE = true.
Proof. vm_cast_no_check (eq_refl true). Qed.
Lemma NANGATE_ZN_one_refuted : lib_one_refuted lib_NANGATE_ZN d15_NANGATE = true.
Proof. vm_cast_no_check (eq_refl true). Qed.
Lemma NANGATE_ZN_noout_refuted : lib_noout_refuted lib_NANGATE_ZN = true.
Proof. vm_cast_no_check (eq_refl true). Qed.

(* instances inside and outside the exceptions exist *)
Lemma NANGATE_ZN_has_seq : lib_has lib_NANGATE_ZN (wit_seq d15_NANGATE) = true.
Proof. vm_cast_no_check (eq_refl true). Qed.
Lemma NANGATE_ZN_has_comb : lib_has lib_NANGATE_ZN (wit_comb d15_NANGATE) = true.
Proof. vm_cast_no_check (eq_refl true). Qed.
Lemma NANGATE_ZN_has_d22 : lib_has lib_NANGATE_ZN wit_d22 = true.
Proof. vm_cast_no_check (eq_refl true). Qed.
Lemma NANGATE_ZN_has_d15 : lib_has lib_NANGATE_ZN (fun _ name => is_d15 d15_NANGATE name) = true.
Proof. vm_cast_no_check (eq_refl true). Qed.
